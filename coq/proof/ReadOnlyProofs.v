(* proof/ReadOnlyProofs.v — proofs about model/ReadOnly.v (property C53). *)
From Coq Require Import List ZArith Bool Lia.
From Verif Require Import lib.Int64 model.ReadOnly.
Import ListNotations.
Open Scope Z_scope.

Ltac b2p :=
  repeat match goal with
  | H : _ && _ = true |- _ => apply andb_true_iff in H; destruct H
  | H : _ || _ = false |- _ => apply orb_false_iff in H; destruct H
  | H : negb _ = true |- _ => apply negb_true_iff in H
  | H : negb _ = false |- _ => apply negb_false_iff in H
  | H : (_ <=? _) = true |- _ => apply Z.leb_le in H
  | H : (_ <=? _) = false |- _ => apply Z.leb_gt in H
  | H : (_ <? _) = true |- _ => apply Z.ltb_lt in H
  | H : (_ <? _) = false |- _ => apply Z.ltb_ge in H
  | H : (_ =? _) = true |- _ => apply Z.eqb_eq in H
  | H : (_ =? _) = false |- _ => apply Z.eqb_neq in H
  | H : (_ >? _) = true |- _ => rewrite Z.gtb_ltb in H; apply Z.ltb_lt in H
  | H : (_ >? _) = false |- _ => rewrite Z.gtb_ltb in H; apply Z.ltb_ge in H
  end.

(* ------------------------------------------------------------------ *)
(** * sort_uniq: strictly increasing, same elements, canonical *)
Inductive sincr : list Z -> Prop :=
| sincr_nil : sincr []
| sincr_one t : sincr [t]
| sincr_cons t u r : t < u -> sincr (u :: r) -> sincr (t :: u :: r).

Lemma in_ins t u l : In u (ins t l) <-> u = t \/ In u l.
Proof.
  induction l as [|a l IH]; simpl; [intuition|].
  destruct (t <? a) eqn:E1; simpl; [intuition|].
  destruct (t =? a) eqn:E2; simpl.
  - apply Z.eqb_eq in E2. subst. intuition.
  - rewrite IH. intuition.
Qed.

Lemma sincr_lb t l : sincr (t :: l) -> forall u, In u l -> t < u.
Proof.
  revert t. induction l as [|a l IH]; intros t H u Hu; [inversion Hu|].
  inversion H; subst. destruct Hu as [<-|Hu]; auto.
  specialize (IH a H4 u Hu). lia.
Qed.

Lemma sincr_ins t l : sincr l -> sincr (ins t l).
Proof.
  induction 1 as [|a|a b r Hab Hr IH]; simpl.
  - constructor.
  - destruct (t <? a) eqn:E1; [b2p; constructor; [lia|constructor]|].
    destruct (t =? a) eqn:E2; [constructor|]. b2p. constructor; [lia|constructor].
  - destruct (t <? a) eqn:E1; [b2p; constructor; [lia|constructor; auto]|].
    destruct (t =? a) eqn:E2; [constructor; auto|].
    simpl in IH. b2p.
    destruct (t <? b) eqn:E3; [b2p; constructor; [lia|constructor; [lia|auto]]|].
    destruct (t =? b) eqn:E4; [constructor; auto|].
    constructor; auto.
Qed.

Lemma sincr_sort_uniq l : sincr (sort_uniq l).
Proof. induction l; simpl; [constructor | apply sincr_ins; auto]. Qed.

Lemma in_sort_uniq t l : In t (sort_uniq l) <-> In t l.
Proof. induction l as [|a l IH]; simpl; [tauto|]. rewrite in_ins, IH. intuition. Qed.

Lemma sincr_tail t l : sincr (t :: l) -> sincr l.
Proof. inversion 1; subst; auto; constructor. Qed.

Lemma sincr_unique l1 : forall l2, sincr l1 -> sincr l2 -> (forall t, In t l1 <-> In t l2) -> l1 = l2.
Proof.
  induction l1 as [|a l1 IH]; intros l2 H1 H2 He.
  - destruct l2 as [|b l2]; auto. exfalso. apply (He b). left; auto.
  - destruct l2 as [|b l2]; [exfalso; apply (He a); left; auto|].
    assert (a = b).
    { pose proof (sincr_lb _ _ H1) as L1. pose proof (sincr_lb _ _ H2) as L2.
      destruct (proj1 (He a) (or_introl eq_refl)) as [E|E]; auto.
      destruct (proj2 (He b) (or_introl eq_refl)) as [E'|E']; auto.
      specialize (L1 _ E'). specialize (L2 _ E). lia. }
    subst b. f_equal. apply IH; eauto using sincr_tail.
    intros t. pose proof (sincr_lb _ _ H1) as L1. pose proof (sincr_lb _ _ H2) as L2.
    split; intros Ht.
    + destruct (proj1 (He t) (or_intror Ht)) as [E|E]; auto. subst. specialize (L1 _ Ht). lia.
    + destruct (proj2 (He t) (or_intror Ht)) as [E|E]; auto. subst. specialize (L2 _ Ht). lia.
Qed.

Lemma sort_uniq_ext l1 l2 : (forall t, In t l1 <-> In t l2) -> sort_uniq l1 = sort_uniq l2.
Proof.
  intros H. apply sincr_unique; auto using sincr_sort_uniq.
  intros t. rewrite !in_sort_uniq. apply H.
Qed.

Lemma in_rng_iff mint maxt t : in_rng mint maxt t = true <-> mint <= t <= maxt.
Proof. unfold in_rng. rewrite andb_true_iff, !Z.leb_le. tauto. Qed.

(* ------------------------------------------------------------------ *)
(** * sorting the blocks keeps the set of blocks *)
Lemma in_insert_b x b l : In x (insert_b b l) <-> x = b \/ In x l.
Proof.
  induction l as [|c l IH]; simpl; [intuition|].
  destruct (b_mint b <=? b_mint c); simpl; [intuition|]. rewrite IH. intuition.
Qed.

Lemma in_sort_blocks x l : In x (sort_blocks l) <-> In x l.
Proof.
  induction l as [|b l IH]; simpl; [tauto|]. rewrite in_insert_b, IH. intuition.
Qed.

Lemma length_insert_b b l : length (insert_b b l) = S (length l).
Proof. induction l as [|c l IH]; simpl; auto. destruct (b_mint b <=? b_mint c); simpl; auto. Qed.

(* the result is sorted by MinTime (what DBReadOnly.Blocks promises) *)
Inductive sorted_b : list blockd -> Prop :=
| sb_nil : sorted_b []
| sb_one b : sorted_b [b]
| sb_cons a b r : b_mint a <= b_mint b -> sorted_b (b :: r) -> sorted_b (a :: b :: r).

Lemma sorted_insert_b b l : sorted_b l -> sorted_b (insert_b b l).
Proof.
  induction 1 as [|a|a c r Hac Hr IH]; simpl.
  - constructor.
  - destruct (b_mint b <=? b_mint a) eqn:E; b2p; constructor; try lia; constructor.
  - destruct (b_mint b <=? b_mint a) eqn:E; b2p.
    + constructor; [lia|constructor; auto].
    + simpl in IH. destruct (b_mint b <=? b_mint c) eqn:E2; b2p.
      * constructor; [lia|constructor; [lia|auto]].
      * constructor; auto.
Qed.

Lemma sorted_sort_blocks l : sorted_b (sort_blocks l).
Proof. induction l; simpl; [constructor|apply sorted_insert_b; auto]. Qed.

(* ------------------------------------------------------------------ *)
(** * the cut-off depends only on the set of blocks *)
Definition cut_from (m : Z) (l : list blockd) : Z := fold_left cut_step l m.

Lemma cut_from_ge m l : m <= cut_from m l.
Proof.
  revert m. induction l as [|b l IH]; intros m; simpl; [lia|].
  specialize (IH (cut_step m b)). unfold cut_step in *.
  destruct (negb (b_hint b) && (b_maxt b >? m)) eqn:E; b2p; lia.
Qed.

Lemma cut_from_ub m l b : In b l -> b_hint b = false -> b_maxt b <= cut_from m l.
Proof.
  revert m. induction l as [|c l IH]; intros m Hin Hh; [inversion Hin|].
  simpl. destruct Hin as [->|Hin]; [|apply IH; auto].
  pose proof (cut_from_ge (cut_step m b) l) as G. unfold cut_step in *.
  rewrite Hh in *. simpl in *. destruct (b_maxt b >? m) eqn:E; b2p; lia.
Qed.

Lemma cut_from_attained m l :
  cut_from m l = m \/ exists b, In b l /\ b_hint b = false /\ b_maxt b = cut_from m l.
Proof.
  revert m. induction l as [|c l IH]; intros m; simpl; [auto|].
  destruct (IH (cut_step m c)) as [E|(b & Hb & Hh & E)].
  - rewrite E. unfold cut_step. destruct (negb (b_hint c) && (b_maxt c >? m)) eqn:E2; auto.
    right. exists c. b2p. auto.
  - right. exists b. auto.
Qed.

Lemma cutoff_ext l1 l2 : (forall b, In b l1 <-> In b l2) -> cutoff l1 = cutoff l2.
Proof.
  intros H. unfold cutoff. fold (cut_from minInt64 l1). fold (cut_from minInt64 l2).
  pose proof (cut_from_ge minInt64 l1). pose proof (cut_from_ge minInt64 l2).
  destruct (cut_from_attained minInt64 l1) as [E1|(b1 & Hb1 & Hh1 & E1)];
  destruct (cut_from_attained minInt64 l2) as [E2|(b2 & Hb2 & Hh2 & E2)].
  - lia.
  - pose proof (cut_from_ub minInt64 l1 b2 (proj2 (H b2) Hb2) Hh2). lia.
  - pose proof (cut_from_ub minInt64 l2 b1 (proj1 (H b1) Hb1) Hh1). lia.
  - pose proof (cut_from_ub minInt64 l1 b2 (proj2 (H b2) Hb2) Hh2).
    pose proof (cut_from_ub minInt64 l2 b1 (proj1 (H b1) Hb1) Hh1). lia.
Qed.

Lemma cutoff_sort l : cutoff (sort_blocks l) = cutoff l.
Proof. apply cutoff_ext. intros b. apply in_sort_blocks. Qed.

(* the cut-off is the highest MaxTime of the blocks without a hint *)
Lemma cutoff_spec l :
  (forall b, In b l -> b_hint b = false -> b_maxt b <= cutoff l)
  /\ (cutoff l = minInt64 \/ exists b, In b l /\ b_hint b = false /\ b_maxt b = cutoff l).
Proof.
  split.
  - intros b. apply cut_from_ub.
  - apply cut_from_attained.
Qed.

(* ------------------------------------------------------------------ *)
(** * queries depend only on the sets of candidates *)
Lemma query_ext v1 v2 mint maxt sel :
  (forall i t, In i sel -> mint <= t <= maxt -> (In t (cands v1 mint maxt i) <-> In t (cands v2 mint maxt i))) ->
  query v1 mint maxt sel = query v2 mint maxt sel.
Proof.
  intros H. unfold query. induction sel as [|i sel IH]; simpl; auto.
  rewrite IH by (intros; apply H; simpl; auto). f_equal.
  rewrite (sort_uniq_ext (filter (in_rng mint maxt) (cands v1 mint maxt i)) (filter (in_rng mint maxt) (cands v2 mint maxt i))); auto.
  intros t. rewrite !filter_In, in_rng_iff. split; intros [A B]; split; auto; apply (H i t); simpl; auto.
Qed.

Lemma in_block_cands bs mint maxt i t :
  In t (block_cands bs mint maxt i) <-> exists b, In b bs /\ b_overlaps b mint maxt = true /\ In t (get (b_data b) i).
Proof.
  unfold block_cands. rewrite in_flat_map. split; intros (b & Hb & Ht); exists b.
  - destruct (b_overlaps b mint maxt); [auto|inversion Ht].
  - destruct Ht as [-> Ht]. auto.
Qed.

Lemma block_cands_ext bs1 bs2 mint maxt i t :
  (forall b, In b bs1 <-> In b bs2) ->
  (In t (block_cands bs1 mint maxt i) <-> In t (block_cands bs2 mint maxt i)).
Proof.
  intros H. rewrite !in_block_cands. split; intros (b & Hb & R); exists b; split; auto; apply H; auto.
Qed.

(* ------------------------------------------------------------------ *)
(** * the oracle *)
(* what the theorems use of Head.Init: Head.MinTime() is a lower bound of the in-order samples it
   loaded (it is the minimum of the loaded chunks' and replayed samples' times), and an int64 *)
Definition oracle_ok (init : Z -> hdata) : Prop :=
  forall mv, minInt64 <= h_min (init mv)
             /\ forall i t, In t (get (h_io (init mv)) i) -> h_min (init mv) <= t.

(* no replayed tombstone that ends below the loaded in-order minimum covers an out-of-order head
   sample (such a tombstone is dropped by the read-only open's Init, kept by the read-write one) *)
Definition tomb_ok (init : Z -> hdata) : Prop :=
  forall mv i a b t, In (i, (a, b)) (h_tomb (init mv)) -> b < h_min (init mv) ->
                     In t (get (h_ooo (init mv)) i) -> ~ (a <= t <= b).

Lemma covered_kept_iff m H i t :
  covered (kept m H i) t = true <-> exists a b, In (i, (a, b)) (h_tomb H) /\ m <= b /\ a <= t <= b.
Proof.
  unfold covered, kept. rewrite existsb_exists. split.
  - intros ([a b] & Hin & Hc). apply in_map_iff in Hin. destruct Hin as ([j [a' b']] & E & Hin).
    simpl in E. inversion E; subst. apply filter_In in Hin. destruct Hin as [Hin Hf]. simpl in *.
    b2p. subst. exists a, b. repeat split; auto.
  - intros (a & b & Hin & Hm & Ht). exists (a, b). split.
    + apply in_map_iff. exists (i, (a, b)). split; auto. apply filter_In. split; auto. simpl.
      rewrite Z.eqb_refl. simpl. apply Z.leb_le. auto.
    + simpl. apply andb_true_iff. split; apply Z.leb_le; lia.
Qed.

Lemma in_visible v i l t :
  In t (visible v i l) <-> In t l /\ covered (kept (v_minT v) (v_head v) i) t = false.
Proof. unfold visible. rewrite filter_In, negb_true_iff. tauto. Qed.

(* two views of the same head whose MinTime differ see the same samples of a list when no
   tombstone ending between the two MinTimes covers a sample of the list *)
Lemma visible_same bs1 bs2 w r H i l t :
  w <= r ->
  (forall a b, In (i, (a, b)) (h_tomb H) -> w <= b -> b < r -> In t l -> ~ (a <= t <= b)) ->
  (In t (visible (mkV bs1 r H) i l) <-> In t (visible (mkV bs2 w H) i l)).
Proof.
  intros Hwr Hno. rewrite !in_visible. cbn [v_minT v_head].
  split; intros [Hl Hc]; split; auto.
  - destruct (covered (kept w H i) t) eqn:E; auto. exfalso.
    apply covered_kept_iff in E. destruct E as (a & b & Hin & Hm & Ht).
    destruct (Z_lt_le_dec b r) as [Hb|Hb].
    + apply (Hno a b Hin Hm Hb Hl Ht).
    + assert (covered (kept r H i) t = true) by (apply covered_kept_iff; exists a, b; auto). congruence.
  - destruct (covered (kept r H i) t) eqn:E; auto. exfalso.
    apply covered_kept_iff in E. destruct E as (a & b & Hin & Hm & Ht).
    assert (covered (kept w H i) t = true) by (apply covered_kept_iff; exists a, b; repeat split; auto; lia). congruence.
Qed.

(* ------------------------------------------------------------------ *)
(** * main theorem: same results when the read-only open loads the head *)
Theorem same_results (init : Z -> hdata) (bs : list blockd) (mint maxt : Z) (sel : list sid) :
  oracle_ok init -> tomb_ok init ->
  cutoff bs <= maxt ->
  query (open_ro init bs maxt) mint maxt sel = query (open_rw init bs) mint maxt sel.
Proof.
  intros Hor Htb Hle. apply query_ext. intros i t Hi Ht.
  unfold open_ro, open_ro_with, open_rw. rewrite cutoff_sort.
  set (mv := cutoff bs) in *. set (H := init mv).
  destruct (mv <=? maxt) eqn:E; [|b2p; lia]. clear E.
  unfold cands. rewrite !in_app_iff.
  rewrite (block_cands_ext (sort_blocks bs) bs mint maxt i t (fun b => in_sort_blocks b bs)).
  destruct (Hor mv) as [Hmin Hio']. fold H in Hmin, Hio'.
  assert (Hio : In t (get (h_io H) i) -> h_min H <= t) by (apply Hio').
  set (r := if h_min H <? mv then mv else h_min H).
  set (w := if mv =? minInt64 then h_min H else mv).
  assert (Hwr : w <= r).
  { unfold w, r. destruct (h_min H <? mv) eqn:E1; destruct (mv =? minInt64) eqn:E2; b2p; lia. }
  assert (Hrmax : r = Z.max mv (h_min H)).
  { unfold r. destruct (h_min H <? mv) eqn:E1; b2p; lia. }
  assert (Vio : In t (visible (mkV (sort_blocks bs) r H) i (get (h_io H) i))
                <-> In t (visible (mkV bs w H) i (get (h_io H) i))).
  { apply visible_same; auto. intros a b Hin Hw Hb Hl Hc. specialize (Hio Hl).
    unfold r in Hb. unfold w in Hw.
    destruct (h_min H <? mv) eqn:E1; destruct (mv =? minInt64) eqn:E2; b2p; lia. }
  assert (Voo : In t (visible (mkV (sort_blocks bs) r H) i (get (h_ooo H) i))
                <-> In t (visible (mkV bs w H) i (get (h_ooo H) i))).
  { apply visible_same; auto. intros a b Hin Hw Hb Hl Hc.
    apply (Htb mv i a b t Hin); auto. fold H.
    unfold r in Hb. destruct (h_min H <? mv) eqn:E1; b2p; [|auto].
    unfold w in Hw. destruct (mv =? minInt64) eqn:E2; b2p; lia. }
  assert (Hh : In t (head_cands (mkV (sort_blocks bs) r H) mint maxt i)
               <-> In t (head_cands (mkV bs w H) mint maxt i)).
  { unfold head_cands, head_gate; cbn [v_minT v_head]. rewrite !in_app_iff.
    destruct (overlaps mint maxt (h_oomin H) (h_oomax H)) eqn:Eov.
    - rewrite !orb_true_r. tauto.
    - rewrite !orb_false_r.
      assert (Hvis : forall bsx m, In t (visible (mkV bsx m H) i (get (h_io H) i)) -> In t (get (h_io H) i)).
      { intros bsx m Hv. apply in_visible in Hv. tauto. }
      destruct (r <=? maxt) eqn:E3; destruct (w <=? maxt) eqn:E4; b2p.
      + tauto.
      + lia.
      + (* read-write consults the head, read-only does not: nothing in range there *)
        split; [intros [[]|[]]|]. intros [Hin|[]]. exfalso.
        specialize (Hio (Hvis _ _ Hin)).
        unfold r in E3. destruct (h_min H <? mv) eqn:E1; b2p; lia.
      + tauto. }
  tauto.
Qed.

(* below the cut-off the read-only open does not load the head at all: the results are the same
   exactly when whatever the read-write head would contribute is also in a block *)
Theorem same_results_below (init : Z -> hdata) (bs : list blockd) (mint maxt : Z) (sel : list sid) :
  maxt < cutoff bs ->
  (forall i t, In i sel -> mint <= t <= maxt ->
     In t (head_cands (open_rw init bs) mint maxt i) -> In t (block_cands bs mint maxt i)) ->
  query (open_ro init bs maxt) mint maxt sel = query (open_rw init bs) mint maxt sel.
Proof.
  intros Hlt Hcov. apply query_ext. intros i t Hi Ht.
  unfold open_ro, open_ro_with. rewrite cutoff_sort.
  destruct (cutoff bs <=? maxt) eqn:E; [b2p; lia|]. clear E.
  unfold cands at 1. rewrite in_app_iff.
  assert (Hno : ~ In t (head_cands (mkV (sort_blocks bs) maxInt64 hempty) mint maxt i)).
  { unfold head_cands, head_gate; cbn. rewrite in_app_iff.
    destruct ((maxInt64 <=? maxt) || overlaps mint maxt maxInt64 minInt64);
    destruct (overlaps mint maxt maxInt64 minInt64); simpl; tauto. }
  cbn [v_blocks].
  rewrite (block_cands_ext (sort_blocks bs) bs mint maxt i t (fun b => in_sort_blocks b bs)).
  unfold cands. rewrite in_app_iff. unfold open_rw at 2; cbn [v_blocks].
  split; [tauto|]. intros [Hh|Hb]; auto.
Qed.

(* ------------------------------------------------------------------ *)
(** * counterexamples *)
(* (1) the unrestricted statement is false of the code as it is: the read-only open skips the
   WAL, the WBL and the head chunks altogether when an in-order block's MaxTime lies above the
   querier's maxt; an out-of-order sample that so far only lives in the WBL is then missing.
   History: 100, 200, 1700, 1800; Compact (block [100,1000)); out-of-order 500; Close;
   Querier(0, 900). *)
Definition w1_blocks : list blockd := [mkB 100 1000 false [(0, [100; 200])]].
Definition w1_init : Z -> hdata := fun _ => mkH 1700 1800 [(0, [1700; 1800])] [(0, [500])] 500 500 [].

Lemma w1_oracle_ok : oracle_ok w1_init.
Proof.
  intros mv. split; [vm_compute; discriminate|].
  intros i t. unfold w1_init; cbn [h_io h_min get flat_map fst snd].
  destruct (0 =? i); simpl; intuition lia.
Qed.

Lemma same_results_refuted :
  exists init bs mint maxt sel, oracle_ok init /\
    query (open_ro init bs maxt) mint maxt sel <> query (open_rw init bs) mint maxt sel.
Proof.
  exists w1_init, w1_blocks, 0, 900, [0]. split; [apply w1_oracle_ok|].
  vm_compute. discriminate.
Qed.

(* (2) the OLD cut-off rule (MaxTime of the last block of the sorted list): 100, 200;
   out-of-order 150; CompactOOOHead (block [0,1000) from out-of-order data); Close.  Head.Init
   with cut-off 1000 skips both WAL samples. *)
Definition w2_blocks : list blockd := [mkB 0 1000 true [(0, [150])]].
Definition w2_init : Z -> hdata :=
  fun mv => if mv <=? 100 then mkH 100 200 [(0, [100; 200])] [] maxInt64 minInt64 [] else hempty.

Lemma w2_oracle_ok : oracle_ok w2_init.
Proof.
  intros mv. unfold w2_init. destruct (mv <=? 100); (split; [vm_compute; discriminate|]); intros i t;
    cbn [h_io h_min hempty get flat_map fst snd].
  - destruct (0 =? i); simpl; intuition lia.
  - simpl. tauto.
Qed.

Lemma same_results_old_refuted :
  exists init bs mint maxt sel, oracle_ok init /\ cutoff bs <= maxt /\
    query (open_ro_old init bs maxt) mint maxt sel <> query (open_rw init bs) mint maxt sel.
Proof.
  exists w2_init, w2_blocks, minInt64, maxInt64, [0]. split; [apply w2_oracle_ok|].
  split; [vm_compute; discriminate|]. vm_compute. discriminate.
Qed.

(* (3) the read-only open drops a head tombstone that the read-write open keeps: Init's final gc
   truncates the tombstones before Head.MinTime(), which is the cut-off after tsdb.Open's
   Head.Truncate but the loaded in-order minimum in the read-only open.  100, 1700, 1800;
   out-of-order 1750; Compact (the out-of-order chunk file survives, C01's finding); 2600;
   Delete(1720, 2100); 3400; Compact; Close: cut-off 2000, in-order head data from 2600, the
   tombstone [1720,2100] covers the re-loaded out-of-order sample 1750. *)
Definition w4_blocks : list blockd :=
  [mkB 100 1000 false [(0, [100])]; mkB 1000 2000 true []; mkB 1700 2000 false [(0, [1700])]].
Definition w4_init : Z -> hdata :=
  fun _ => mkH 2600 3400 [(0, [2600; 3400])] [(0, [1750])] 1750 1750 [(0, (1720, 2100))].

Lemma w4_oracle_ok : oracle_ok w4_init.
Proof.
  intros mv. split; [vm_compute; discriminate|].
  intros i t. unfold w4_init; cbn [h_io h_min get flat_map fst snd].
  destruct (0 =? i); simpl; intuition lia.
Qed.

Lemma same_results_tomb_refuted :
  exists init bs mint maxt sel, oracle_ok init /\ cutoff bs <= maxt /\
    query (open_ro init bs maxt) mint maxt sel <> query (open_rw init bs) mint maxt sel.
Proof.
  exists w4_init, w4_blocks, minInt64, maxInt64, [0]. split; [apply w4_oracle_ok|].
  split; [vm_compute; discriminate|]. vm_compute. discriminate.
Qed.

(* ------------------------------------------------------------------ *)
(** * FlushWAL *)
Definition flush_content (o : option (Z * Z * answer)) : answer :=
  match o with None => [] | Some (_, _, c) => c end.

Lemma filter_all {A} (f : A -> bool) l : (forall x, In x l -> f x = true) -> filter f l = l.
Proof.
  induction l as [|a l IH]; simpl; intros H; auto.
  rewrite (H a) by auto. f_equal. apply IH. auto.
Qed.

(* FlushWAL writes exactly the head data (what the head of a read-only open that loads it shows)
   when (a) the last block of the sorted list happens to give the same cut-off as the rule of the
   opens, (b) the head holds no out-of-order data and (c) no in-order sample below the cut-off
   (no head chunk straddling it). *)
Theorem flush_exact_partial (init : Z -> hdata) (bs : list blockd) (sel : list sid) (maxt : Z) :
  cutoff_old bs = cutoff bs -> cutoff bs <= maxt ->
  (forall i, get (h_ooo (init (cutoff bs))) i = []) ->
  (forall i t, In t (get (h_io (init (cutoff bs))) i) ->
       cutoff bs <= t /\ h_min (init (cutoff bs)) <= t <= h_max (init (cutoff bs))) ->
  flush_content (flush_wal init bs sel) = head_data (open_ro init bs maxt) sel.
Proof.
  intros Hc Hle Hooo Hio. unfold flush_wal, open_ro, open_ro_with. rewrite Hc, cutoff_sort.
  destruct (cutoff bs <=? maxt) eqn:E; [|b2p; lia]. clear E.
  set (H := init (cutoff bs)) in *.
  set (mint := if h_min H <? cutoff bs then cutoff bs else h_min H).
  assert (E : flat_map (fun i => match sort_uniq (filter (in_rng mint (h_max H)) (visible (mkV bs mint H) i (get (h_io H) i))) with
                                 | [] => [] | l => [(i, l)] end) sel
              = head_data (mkV (sort_blocks bs) mint H) sel).
  { unfold head_data. cbn [v_head]. induction sel as [|i sel IH]; simpl; auto. rewrite IH. f_equal.
    rewrite Hooo. unfold visible at 3. simpl. rewrite app_nil_r.
    replace (visible (mkV (sort_blocks bs) mint H) i (get (h_io H) i))
       with (visible (mkV bs mint H) i (get (h_io H) i)) by reflexivity.
    rewrite filter_all; auto.
    intros t Ht. apply in_visible in Ht. destruct Ht as [Ht _].
    apply in_rng_iff. destruct (Hio i t Ht) as [A [B C]].
    unfold mint. destruct (h_min H <? cutoff bs); lia. }
  rewrite E. destruct (head_data (mkV (sort_blocks bs) mint H) sel); reflexivity.
Qed.

(* the two ways it fails on the code as it is *)
Lemma flush_refuted_old_cutoff :
  exists init bs sel, oracle_ok init /\ (forall i, get (h_ooo (init (cutoff bs))) i = []) /\
    flush_content (flush_wal init bs sel) <> head_data (open_ro init bs maxInt64) sel.
Proof.
  exists w2_init, w2_blocks, [0]. split; [apply w2_oracle_ok|]. split.
  - intros i. vm_compute. reflexivity.
  - vm_compute. discriminate.
Qed.

Definition w3_init : Z -> hdata := fun _ => mkH 100 300 [(0, [100; 200; 300])] [(0, [150])] 150 150 [].
Lemma flush_refuted_ooo :
  exists init bs sel, cutoff_old bs = cutoff bs /\
    flush_content (flush_wal init bs sel) <> head_data (open_ro init bs maxInt64) sel.
Proof.
  exists w3_init, [], [0]. split; [reflexivity|]. vm_compute. discriminate.
Qed.

(* ------------------------------------------------------------------ *)
(** * the file system trace *)
Lemma path_eqb_eq a b : path_eqb a b = true -> a = b.
Proof.
  unfold path_eqb. revert b. induction a as [|x a IH]; intros [|y b] H; simpl in *; try discriminate; auto.
  apply andb_true_iff in H. destruct H as [H1 H2]. apply andb_true_iff in H2. destruct H2 as [H2 H3].
  apply Z.eqb_eq in H2. simpl in H2. subst. f_equal. apply IH. rewrite H1. exact H3.
Qed.

Lemma path_eqb_refl a : path_eqb a a = true.
Proof.
  unfold path_eqb. rewrite Nat.eqb_refl. simpl. induction a as [|x a IH]; simpl; auto.
  rewrite Z.eqb_refl. auto.
Qed.

Lemma under_app sb x : under sb (sb ++ x) = true.
Proof. induction sb as [|a sb IH]; simpl; auto. rewrite Z.eqb_refl. auto. Qed.

Lemma lookup_cons_other p n t q : path_eqb p q = false -> lookup ((p, n) :: t) q = lookup t q.
Proof. intros H. unfold lookup. simpl. rewrite H. reflexivity. Qed.

Lemma lookup_filter_keep (g : path -> bool) t q :
  g q = false -> lookup (filter (fun e => negb (g (fst e))) t) q = lookup t q.
Proof.
  intros Hq. unfold lookup. induction t as [|e t IH]; simpl; auto.
  destruct (g (fst e)) eqn:Eg; simpl.
  - destruct (path_eqb (fst e) q) eqn:Ep.
    + apply path_eqb_eq in Ep. congruence.
    + exact IH.
  - destruct (path_eqb (fst e) q); auto.
Qed.

Lemma lookup_filter_drop (g : path -> bool) t q :
  g q = true -> lookup (filter (fun e => negb (g (fst e))) t) q = None.
Proof.
  intros Hq. unfold lookup. induction t as [|e t IH]; simpl; auto.
  destruct (g (fst e)) eqn:Eg; simpl; auto.
  destruct (path_eqb (fst e) q) eqn:Ep; auto.
  apply path_eqb_eq in Ep. congruence.
Qed.

(* an operation only touches paths below [sb] (a Link may READ anywhere) *)
Definition confined (sb : path) (o : fsop) : Prop :=
  match o with
  | OMkdir p | OMkdirAll p | OCreate p _ _ | ORemove p | ORemoveAll p => under sb p = true
  | OLink _ d => under sb d = true
  end.

(* everything outside [sb] and every pre-existing content is as in f0 *)
Definition inv (f0 : fs) (sb : path) (f : fs) : Prop :=
  (forall p, under sb p = false -> lookup (f_tree f) p = lookup (f_tree f0) p)
  /\ (forall ino h, content (f_data f0) ino = Some h -> content (f_data f) ino = Some h).

Lemma under_trans sb p q : under sb p = true -> under p q = true -> under sb q = true.
Proof.
  revert p q. induction sb as [|a sb IH]; intros [|b p] [|c q]; simpl; auto; try discriminate.
  intros H1 H2. apply andb_true_iff in H1. destruct H1 as [E1 H1]. apply andb_true_iff in H2. destruct H2 as [E2 H2].
  apply Z.eqb_eq in E1. apply Z.eqb_eq in E2. subst. rewrite Z.eqb_refl. simpl. eapply IH; eauto.
Qed.

Lemma add_outside sb p n t q : under sb p = true -> under sb q = false -> lookup ((p, n) :: t) q = lookup t q.
Proof.
  intros Hp Hq. apply lookup_cons_other. destruct (path_eqb p q) eqn:E; auto.
  apply path_eqb_eq in E. congruence.
Qed.

Lemma apply_inv f0 sb f o f' : confined sb o -> apply f o = Some f' -> inv f0 sb f -> inv f0 sb f'.
Proof.
  intros Hc Ha [I1 I2]. destruct o as [p|p|s d|p ino h|p|p]; simpl in Hc, Ha.
  - destruct (is_none (lookup (f_tree f) p)); inversion Ha; subst; clear Ha. split; simpl; auto.
    intros q Hq. rewrite (add_outside sb); auto.
  - destruct (lookup (f_tree f) p) as [[|x]|]; inversion Ha; subst; clear Ha; split; simpl; auto.
    intros q Hq. rewrite (add_outside sb); auto.
  - destruct (lookup (f_tree f) s) as [[|x]|]; try discriminate.
    destruct (lookup (f_tree f) d); inversion Ha; subst; clear Ha. split; simpl; auto.
    intros q Hq. rewrite (add_outside sb); auto.
  - destruct (is_none (lookup (f_tree f) p) && is_none (content (f_data f) ino)) eqn:E; inversion Ha; subst; clear Ha.
    apply andb_true_iff in E. destruct E as [_ E]. split; simpl.
    + intros q Hq. rewrite (add_outside sb); auto.
    + intros i0 h0 H0. specialize (I2 _ _ H0). unfold content in *. simpl.
      destruct (ino =? i0) eqn:Ei; auto. apply Z.eqb_eq in Ei. subst.
      destruct (find (fun e => fst e =? i0) (f_data f)); simpl in E; discriminate.
  - destruct (lookup (f_tree f) p) as [[|x]|]; inversion Ha; subst; clear Ha. split; simpl; auto.
    intros q Hq. rewrite <- I1 by auto.
    apply (lookup_filter_keep (fun r => path_eqb r p)).
    destruct (path_eqb q p) eqn:E; auto. apply path_eqb_eq in E. congruence.
  - inversion Ha; subst; clear Ha. split; simpl; auto.
    intros q Hq. rewrite <- I1 by auto.
    apply (lookup_filter_keep (fun r => under p r)).
    destruct (under p q) eqn:E; auto. rewrite (under_trans sb p q) in Hq; auto.
Qed.

Lemma run_inv f0 sb ops : Forall (confined sb) ops ->
  forall f f', run f ops = Some f' -> inv f0 sb f -> inv f0 sb f'.
Proof.
  induction 1 as [|o ops Ho Hops IH]; intros f f' Hr Hi; simpl in Hr.
  - inversion Hr; subst; auto.
  - destruct (apply f o) as [f1|] eqn:Ea; [|discriminate].
    eapply IH; eauto. eapply apply_inv; eauto.
Qed.

Lemma run_app f ops1 ops2 f' :
  run f (ops1 ++ ops2) = Some f' -> exists f1, run f ops1 = Some f1 /\ run f1 ops2 = Some f'.
Proof.
  revert f. induction ops1 as [|o ops1 IH]; simpl; intros f H; [exists f; auto|].
  destruct (apply f o); [apply IH; auto|discriminate].
Qed.

Lemma ro_open_ops_confined dir sb has_cd files created removed :
  Forall (confined sb) (ro_open_ops dir sb has_cd files created removed).
Proof.
  unfold ro_open_ops. repeat (apply Forall_app; split).
  - constructor; [|constructor]. simpl. rewrite <- (app_nil_r sb) at 2. apply under_app.
  - destruct has_cd; [|constructor]. constructor; [simpl; apply under_app|].
    apply Forall_forall. intros o Ho. apply in_map_iff in Ho. destruct Ho as (n & <- & _). simpl. apply under_app.
  - constructor; [simpl; apply under_app|constructor].
  - apply Forall_forall. intros o Ho. apply in_map_iff in Ho. destruct Ho as (n & <- & _). simpl. apply under_app.
  - apply Forall_forall. intros o Ho. apply in_map_iff in Ho. destruct Ho as (n & <- & _). simpl. apply under_app.
Qed.

Lemma ro_trace_confined dir sb has_cd files created removed :
  Forall (confined sb) (ro_trace dir sb has_cd files created removed).
Proof.
  unfold ro_trace. apply Forall_app. split; [apply ro_open_ops_confined|].
  constructor; [|constructor]. simpl. rewrite <- (app_nil_r sb) at 2. apply under_app.
Qed.

Lemma Forall_firstn {A} (P : A -> Prop) k l : Forall P l -> Forall P (firstn k l).
Proof. revert l. induction k; intros l H; simpl; [constructor|]. destruct H; constructor; auto. Qed.

(* the sandbox name is fresh: nothing in the tree lies below it *)
Definition fresh (sb : path) (f : fs) : Prop := forall e, In e (f_tree f) -> under sb (fst e) = false.

Lemma fresh_lookup sb f p n : fresh sb f -> lookup (f_tree f) p = Some n -> under sb p = false.
Proof.
  intros Hf. unfold lookup. destruct (find (fun e => path_eqb (fst e) p) (f_tree f)) eqn:E; [|discriminate].
  intros _. apply find_some in E. destruct E as [Hin He]. apply path_eqb_eq in He. subst. auto.
Qed.

Lemma fresh_none sb f p : fresh sb f -> under sb p = true -> lookup (f_tree f) p = None.
Proof.
  intros Hf Hp. destruct (lookup (f_tree f) p) eqn:E; auto.
  rewrite (fresh_lookup sb f p n Hf E) in Hp. discriminate.
Qed.

(* a read-only session mutates no pre-existing path, at any point of its trace (a crash in the
   middle included), and after Close the tree is the tree it started from *)
Theorem fs_unchanged (f0 : fs) (dir sb : path) (has_cd : bool) (files : list Z)
                     (created : list (Z * Z * Z)) (removed : list Z) :
  fresh sb f0 ->
  let tr := ro_trace dir sb has_cd files created removed in
  (forall k f, run f0 (firstn k tr) = Some f ->
     (forall p n, lookup (f_tree f0) p = Some n -> lookup (f_tree f) p = Some n)
     /\ (forall ino h, content (f_data f0) ino = Some h -> content (f_data f) ino = Some h))
  /\ (forall f, run f0 tr = Some f ->
        (forall p, lookup (f_tree f) p = lookup (f_tree f0) p)
        /\ (forall ino h, content (f_data f0) ino = Some h -> content (f_data f) ino = Some h)).
Proof.
  intros Hf tr. assert (I0 : inv f0 sb f0) by (split; auto). split.
  - intros k f Hr.
    destruct (run_inv f0 sb (firstn k tr) (Forall_firstn _ k tr (ro_trace_confined _ _ _ _ _ _)) f0 f Hr I0) as [I1 I2].
    split; auto. intros p n Hp. rewrite I1; auto. eapply fresh_lookup; eauto.
  - intros f Hr. unfold tr, ro_trace in Hr.
    destruct (run_app _ _ _ _ Hr) as (f1 & H1 & H2).
    destruct (run_inv f0 sb _ (ro_open_ops_confined dir sb has_cd files created removed) f0 f1 H1 I0) as [I1 I2].
    simpl in H2. inversion H2; subst; clear H2. simpl. split; auto.
    intros p. destruct (under sb p) eqn:E.
    + rewrite (lookup_filter_drop (fun r => under sb r)); auto. symmetry. eapply fresh_none; eauto.
    + rewrite (lookup_filter_keep (fun r => under sb r)); auto.
Qed.

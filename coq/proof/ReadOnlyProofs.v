(* proof/ReadOnlyProofs.v — proofs about model/ReadOnly.v (property C53). *)
From Coq Require Import List ZArith Bool Lia.
From Verif Require Import lib.Int64 model.ReadOnly.
Import ListNotations.
Open Scope Z_scope.

Ltac b2p :=
  repeat match goal with
  | H : _ && _ = true |- _ => apply andb_true_iff in H; destruct H
  | H : _ || _ = false |- _ => apply orb_false_iff in H; destruct H
  | H : negb _ = true |- _ => apply negb_true_iff in H
  | H : negb _ = false |- _ => apply negb_false_iff in H
  | H : (_ <=? _) = true |- _ => apply Z.leb_le in H
  | H : (_ <=? _) = false |- _ => apply Z.leb_gt in H
  | H : (_ <? _) = true |- _ => apply Z.ltb_lt in H
  | H : (_ <? _) = false |- _ => apply Z.ltb_ge in H
  | H : (_ =? _) = true |- _ => apply Z.eqb_eq in H
  | H : (_ =? _) = false |- _ => apply Z.eqb_neq in H
  | H : (_ >? _) = true |- _ => rewrite Z.gtb_ltb in H; apply Z.ltb_lt in H
  | H : (_ >? _) = false |- _ => rewrite Z.gtb_ltb in H; apply Z.ltb_ge in H
  end.

(* ------------------------------------------------------------------ *)
(** * sort_uniq: strictly increasing, same elements, canonical *)
Inductive sincr : list Z -> Prop :=
| sincr_nil : sincr []
| sincr_one t : sincr [t]
| sincr_cons t u r : t < u -> sincr (u :: r) -> sincr (t :: u :: r).

Lemma in_ins t u l : In u (ins t l) <-> u = t \/ In u l.
Proof.
  induction l as [|a l IH]; simpl; [intuition|].
  destruct (t <? a) eqn:E1; simpl; [intuition|].
  destruct (t =? a) eqn:E2; simpl.
  - apply Z.eqb_eq in E2. subst. intuition.
  - rewrite IH. intuition.
Qed.

Lemma sincr_lb t l : sincr (t :: l) -> forall u, In u l -> t < u.
Proof.
  revert t. induction l as [|a l IH]; intros t H u Hu; [inversion Hu|].
  inversion H; subst. destruct Hu as [<-|Hu]; auto.
  specialize (IH a H4 u Hu). lia.
Qed.

Lemma sincr_ins t l : sincr l -> sincr (ins t l).
Proof.
  induction 1 as [|a|a b r Hab Hr IH]; simpl.
  - constructor.
  - destruct (t <? a) eqn:E1; [b2p; constructor; [lia|constructor]|].
    destruct (t =? a) eqn:E2; [constructor|]. b2p. constructor; [lia|constructor].
  - destruct (t <? a) eqn:E1; [b2p; constructor; [lia|constructor; auto]|].
    destruct (t =? a) eqn:E2; [constructor; auto|].
    simpl in IH. b2p.
    destruct (t <? b) eqn:E3; [b2p; constructor; [lia|constructor; [lia|auto]]|].
    destruct (t =? b) eqn:E4; [constructor; auto|].
    constructor; auto.
Qed.

Lemma sincr_sort_uniq l : sincr (sort_uniq l).
Proof. induction l; simpl; [constructor | apply sincr_ins; auto]. Qed.

Lemma in_sort_uniq t l : In t (sort_uniq l) <-> In t l.
Proof. induction l as [|a l IH]; simpl; [tauto|]. rewrite in_ins, IH. intuition. Qed.

Lemma sincr_tail t l : sincr (t :: l) -> sincr l.
Proof. inversion 1; subst; auto; constructor. Qed.

Lemma sincr_unique l1 : forall l2, sincr l1 -> sincr l2 -> (forall t, In t l1 <-> In t l2) -> l1 = l2.
Proof.
  induction l1 as [|a l1 IH]; intros l2 H1 H2 He.
  - destruct l2 as [|b l2]; auto. exfalso. apply (He b). left; auto.
  - destruct l2 as [|b l2]; [exfalso; apply (He a); left; auto|].
    assert (a = b).
    { pose proof (sincr_lb _ _ H1) as L1. pose proof (sincr_lb _ _ H2) as L2.
      destruct (proj1 (He a) (or_introl eq_refl)) as [E|E]; auto.
      destruct (proj2 (He b) (or_introl eq_refl)) as [E'|E']; auto.
      specialize (L1 _ E'). specialize (L2 _ E). lia. }
    subst b. f_equal. apply IH; eauto using sincr_tail.
    intros t. pose proof (sincr_lb _ _ H1) as L1. pose proof (sincr_lb _ _ H2) as L2.
    split; intros Ht.
    + destruct (proj1 (He t) (or_intror Ht)) as [E|E]; auto. subst. specialize (L1 _ Ht). lia.
    + destruct (proj2 (He t) (or_intror Ht)) as [E|E]; auto. subst. specialize (L2 _ Ht). lia.
Qed.

Lemma sort_uniq_ext l1 l2 : (forall t, In t l1 <-> In t l2) -> sort_uniq l1 = sort_uniq l2.
Proof.
  intros H. apply sincr_unique; auto using sincr_sort_uniq.
  intros t. rewrite !in_sort_uniq. apply H.
Qed.

Lemma in_rng_iff mint maxt t : in_rng mint maxt t = true <-> mint <= t <= maxt.
Proof. unfold in_rng. rewrite andb_true_iff, !Z.leb_le. tauto. Qed.

(* ------------------------------------------------------------------ *)
(** * sorting the blocks keeps the set of blocks *)
Lemma in_insert_b x b l : In x (insert_b b l) <-> x = b \/ In x l.
Proof.
  induction l as [|c l IH]; simpl; [intuition|].
  destruct (b_mint b <=? b_mint c); simpl; [intuition|]. rewrite IH. intuition.
Qed.

Lemma in_sort_blocks x l : In x (sort_blocks l) <-> In x l.
Proof.
  induction l as [|b l IH]; simpl; [tauto|]. rewrite in_insert_b, IH. intuition.
Qed.

Lemma length_insert_b b l : length (insert_b b l) = S (length l).
Proof. induction l as [|c l IH]; simpl; auto. destruct (b_mint b <=? b_mint c); simpl; auto. Qed.

(* the result is sorted by MinTime (what DBReadOnly.Blocks promises) *)
Inductive sorted_b : list blockd -> Prop :=
| sb_nil : sorted_b []
| sb_one b : sorted_b [b]
| sb_cons a b r : b_mint a <= b_mint b -> sorted_b (b :: r) -> sorted_b (a :: b :: r).

Lemma sorted_insert_b b l : sorted_b l -> sorted_b (insert_b b l).
Proof.
  induction 1 as [|a|a c r Hac Hr IH]; simpl.
  - constructor.
  - destruct (b_mint b <=? b_mint a) eqn:E; b2p; constructor; try lia; constructor.
  - destruct (b_mint b <=? b_mint a) eqn:E; b2p.
    + constructor; [lia|constructor; auto].
    + simpl in IH. destruct (b_mint b <=? b_mint c) eqn:E2; b2p.
      * constructor; [lia|constructor; [lia|auto]].
      * constructor; auto.
Qed.

Lemma sorted_sort_blocks l : sorted_b (sort_blocks l).
Proof. induction l; simpl; [constructor|apply sorted_insert_b; auto]. Qed.

(* ------------------------------------------------------------------ *)
(** * the cut-off depends only on the set of blocks *)
Definition cut_from (m : Z) (l : list blockd) : Z := fold_left cut_step l m.

Lemma cut_from_ge m l : m <= cut_from m l.
Proof.
  revert m. induction l as [|b l IH]; intros m; simpl; [lia|].
  specialize (IH (cut_step m b)). unfold cut_step in *.
  destruct (negb (b_hint b) && (b_maxt b >? m)) eqn:E; b2p; lia.
Qed.

Lemma cut_from_ub m l b : In b l -> b_hint b = false -> b_maxt b <= cut_from m l.
Proof.
  revert m. induction l as [|c l IH]; intros m Hin Hh; [inversion Hin|].
  simpl. destruct Hin as [->|Hin]; [|apply IH; auto].
  pose proof (cut_from_ge (cut_step m b) l) as G. unfold cut_step in *.
  rewrite Hh in *. simpl in *. destruct (b_maxt b >? m) eqn:E; b2p; lia.
Qed.

Lemma cut_from_attained m l :
  cut_from m l = m \/ exists b, In b l /\ b_hint b = false /\ b_maxt b = cut_from m l.
Proof.
  revert m. induction l as [|c l IH]; intros m; simpl; [auto|].
  destruct (IH (cut_step m c)) as [E|(b & Hb & Hh & E)].
  - rewrite E. unfold cut_step. destruct (negb (b_hint c) && (b_maxt c >? m)) eqn:E2; auto.
    right. exists c. b2p. auto.
  - right. exists b. auto.
Qed.

Lemma cutoff_ext l1 l2 : (forall b, In b l1 <-> In b l2) -> cutoff l1 = cutoff l2.
Proof.
  intros H. unfold cutoff. fold (cut_from minInt64 l1). fold (cut_from minInt64 l2).
  pose proof (cut_from_ge minInt64 l1). pose proof (cut_from_ge minInt64 l2).
  destruct (cut_from_attained minInt64 l1) as [E1|(b1 & Hb1 & Hh1 & E1)];
  destruct (cut_from_attained minInt64 l2) as [E2|(b2 & Hb2 & Hh2 & E2)].
  - lia.
  - pose proof (cut_from_ub minInt64 l1 b2 (proj2 (H b2) Hb2) Hh2). lia.
  - pose proof (cut_from_ub minInt64 l2 b1 (proj1 (H b1) Hb1) Hh1). lia.
  - pose proof (cut_from_ub minInt64 l1 b2 (proj2 (H b2) Hb2) Hh2).
    pose proof (cut_from_ub minInt64 l2 b1 (proj1 (H b1) Hb1) Hh1). lia.
Qed.

Lemma cutoff_sort l : cutoff (sort_blocks l) = cutoff l.
Proof. apply cutoff_ext. intros b. apply in_sort_blocks. Qed.

(* the cut-off is the highest MaxTime of the blocks without a hint *)
Lemma cutoff_spec l :
  (forall b, In b l -> b_hint b = false -> b_maxt b <= cutoff l)
  /\ (cutoff l = minInt64 \/ exists b, In b l /\ b_hint b = false /\ b_maxt b = cutoff l).
Proof.
  split.
  - intros b. apply cut_from_ub.
  - apply cut_from_attained.
Qed.

(* ------------------------------------------------------------------ *)
(** * queries depend only on the sets of candidates *)
Lemma query_ext v1 v2 mint maxt sel :
  (forall i t, In i sel -> mint <= t <= maxt -> (In t (cands v1 mint maxt i) <-> In t (cands v2 mint maxt i))) ->
  query v1 mint maxt sel = query v2 mint maxt sel.
Proof.
  intros H. unfold query. induction sel as [|i sel IH]; simpl; auto.
  rewrite IH by (intros; apply H; simpl; auto). f_equal.
  rewrite (sort_uniq_ext (filter (in_rng mint maxt) (cands v1 mint maxt i)) (filter (in_rng mint maxt) (cands v2 mint maxt i))); auto.
  intros t. rewrite !filter_In, in_rng_iff. split; intros [A B]; split; auto; apply (H i t); simpl; auto.
Qed.

Lemma in_block_cands bs mint maxt i t :
  In t (block_cands bs mint maxt i) <-> exists b, In b bs /\ b_overlaps b mint maxt = true /\ In t (get (b_data b) i).
Proof.
  unfold block_cands. rewrite in_flat_map. split; intros (b & Hb & Ht); exists b.
  - destruct (b_overlaps b mint maxt); [auto|inversion Ht].
  - destruct Ht as [-> Ht]. auto.
Qed.

Lemma block_cands_ext bs1 bs2 mint maxt i t :
  (forall b, In b bs1 <-> In b bs2) ->
  (In t (block_cands bs1 mint maxt i) <-> In t (block_cands bs2 mint maxt i)).
Proof.
  intros H. rewrite !in_block_cands. split; intros (b & Hb & R); exists b; split; auto; apply H; auto.
Qed.

(* ------------------------------------------------------------------ *)
(** * the oracle *)
(* what the theorems use of Head.Init: Head.MinTime() is a lower bound of the in-order samples it
   loaded (it is the minimum of the loaded chunks' and replayed samples' times) *)
Definition oracle_ok (init : Z -> hdata) : Prop :=
  forall mv i t, In t (get (h_io (init mv)) i) -> h_min (init mv) <= t.

(* ------------------------------------------------------------------ *)
(** * main theorem: same results when the read-only open loads the head *)
Theorem same_results (init : Z -> hdata) (bs : list blockd) (mint maxt : Z) (sel : list sid) :
  oracle_ok init ->
  cutoff bs <= maxt ->
  query (open_ro init bs maxt) mint maxt sel = query (open_rw init bs) mint maxt sel.
Proof.
  intros Hor Hle. apply query_ext. intros i t Hi Ht.
  unfold open_ro, open_ro_with, open_rw. rewrite cutoff_sort.
  set (mv := cutoff bs) in *. set (H := init mv).
  destruct (mv <=? maxt) eqn:E; [|b2p; lia]. clear E.
  unfold cands. rewrite !in_app_iff.
  rewrite (block_cands_ext (sort_blocks bs) bs mint maxt i t (fun b => in_sort_blocks b bs)).
  assert (Hh : In t (head_cands (mkV (sort_blocks bs) (if h_min H <? mv then mv else h_min H) H) mint maxt i)
               <-> In t (head_cands (mkV bs (if mv =? minInt64 then h_min H else mv) H) mint maxt i)).
  { unfold head_cands, head_gate; cbn [v_minT v_head]. rewrite !in_app_iff.
    destruct (overlaps mint maxt (h_oomin H) (h_oomax H)) eqn:Eov.
    - rewrite !orb_true_r. tauto.
    - rewrite !orb_false_r.
      assert (Hio : In t (get (h_io H) i) -> h_min H <= t) by (apply Hor).
      destruct (h_min H <? mv) eqn:E1; destruct (mv =? minInt64) eqn:E2; b2p.
      + (* both gates open *)
        replace (mv <=? maxt) with true by (symmetry; apply Z.leb_le; lia).
        replace (h_min H <=? maxt) with true by (symmetry; apply Z.leb_le; lia). tauto.
      + tauto.
      + tauto.
      + replace (mv <=? maxt) with true by (symmetry; apply Z.leb_le; lia).
        destruct (h_min H <=? maxt) eqn:E3; b2p; [tauto|].
        split; [intros [[]|[]]|]. intros [Hin|[]]. specialize (Hio Hin). lia. }
  tauto.
Qed.

(* below the cut-off the read-only open does not load the head at all: the results are the same
   exactly when whatever the read-write head would contribute is also in a block *)
Theorem same_results_below (init : Z -> hdata) (bs : list blockd) (mint maxt : Z) (sel : list sid) :
  maxt < cutoff bs ->
  (forall i t, In i sel -> mint <= t <= maxt ->
     In t (head_cands (open_rw init bs) mint maxt i) -> In t (block_cands bs mint maxt i)) ->
  query (open_ro init bs maxt) mint maxt sel = query (open_rw init bs) mint maxt sel.
Proof.
  intros Hlt Hcov. apply query_ext. intros i t Hi Ht.
  unfold open_ro, open_ro_with. rewrite cutoff_sort.
  destruct (cutoff bs <=? maxt) eqn:E; [b2p; lia|]. clear E.
  unfold cands at 1. rewrite in_app_iff.
  assert (Hno : ~ In t (head_cands (mkV (sort_blocks bs) maxInt64 hempty) mint maxt i)).
  { unfold head_cands, head_gate; cbn. rewrite in_app_iff.
    destruct ((maxInt64 <=? maxt) || overlaps mint maxt maxInt64 minInt64);
    destruct (overlaps mint maxt maxInt64 minInt64); simpl; tauto. }
  cbn [v_blocks].
  rewrite (block_cands_ext (sort_blocks bs) bs mint maxt i t (fun b => in_sort_blocks b bs)).
  unfold cands. rewrite in_app_iff. unfold open_rw at 2; cbn [v_blocks].
  split; [tauto|]. intros [Hh|Hb]; auto.
Qed.

(* proof/HistChunkCounter.v — expandIntSpansAndBuckets / expandFloatSpansAndBuckets (cnt_go)
   and adjustForInserts: whenever the counter path says "appendable", the forward inserts,
   the backward inserts and the adjusted spans describe one common widened layout. *)
From Coq Require Import List ZArith Bool Lia.
From Verif Require Import model.HistChunk proof.HistChunkProofs proof.HistChunkIns
  proof.HistChunkDelta proof.HistChunkMaps.
Import ListNotations.
Open Scope Z_scope.

Lemma zseq_one m : zseq m 1 = [m].
Proof. rewrite zseq_cons by lia. rewrite zseq_nil by lia. reflexivity. Qed.
Lemma zseq_zero s : zseq s 0 = [].
Proof. apply zseq_nil. lia. Qed.

Lemma flush_app i P : flush i [] ++ P = flush i P.
Proof. unfold flush. destruct (0 <? i_num i); reflexivity. Qed.

Lemma ins_flush_i ai F x va w v :
  0 <= i_num ai -> Forall (fun y => i_pos ai < i_pos y) F ->
  ins_body false (i_pos ai + 1) v va F = Ok w ->
  ins_body false (i_pos ai) v (x :: va) (flush ai F) = Ok (repeat 0 (Z.to_nat (i_num ai)) ++ x :: w).
Proof.
  destruct ai as [p n b]. cbn [i_pos i_num]. intros Hn HF H.
  assert (E : ins_body false p v (x :: va) F = Ok (x :: w)) by (rewrite (ins_skip _ _ _ _ _ HF), H; reflexivity).
  unfold flush. cbn [i_num]. destruct (Z.ltb_spec 0 n).
  - apply ins_same_pos; [lia|assumption].
  - replace n with 0 by lia. exact E.
Qed.

Lemma ins_flush_end_i ai v :
  0 <= i_num ai -> ins_body false (i_pos ai) v [] (flush ai []) = Ok (repeat 0 (Z.to_nat (i_num ai))).
Proof.
  destruct ai as [p n b]. cbn [i_pos i_num]. intros H. unfold flush. cbn [i_num]. destruct (Z.ltb_spec 0 n).
  - cbn [ins_body leftover i_pos i_num]. rewrite Z.ltb_irrefl. cbn [bind].
    rewrite app_nil_r. now rewrite extra_repeat by lia.
  - replace n with 0 by lia. reflexivity.
Qed.

(* everything one side (pending insert pi, produced inserts P) must satisfy with respect to the
   common widened index list M and the side's own index list ix; O = the indices of M that are
   not in ix and not yet accounted for by the pending insert *)
Definition side (lo : Z) (pi : ins) (P : list ins) (M ix : list Z) : Prop :=
  Forall (fun y => i_pos pi <= i_pos y) P /\
  good (i_pos pi) (i_num pi) P M ix /\
  incl ix M /\
  (P = [] -> M = ix) /\ (0 < i_num pi -> P <> []) /\
  Forall (fun y => 1 <= i_num y) P /\
  exists O, ins_idxs P = zseq (i_bidx pi) (i_num pi) ++ O /\ incr lo O /\
            (forall x, In x M <-> In x ix \/ In x O) /\ (forall x, In x O -> ~ In x ix).

Lemma ins_idxs_app P Q : ins_idxs (P ++ Q) = ins_idxs P ++ ins_idxs Q.
Proof. unfold ins_idxs. now rewrite flat_map_app. Qed.

Lemma ins_idxs_flush pi : 0 <= i_num pi -> ins_idxs (flush pi []) = zseq (i_bidx pi) (i_num pi).
Proof.
  intros H. unfold flush. destruct (Z.ltb_spec 0 (i_num pi)); simpl; [now rewrite app_nil_r|].
  now rewrite zseq_nil by lia.
Qed.

(* both streams exhausted *)
Lemma side_end lo pi : 0 <= i_num pi -> side lo pi (flush pi []) [] [].
Proof.
  intros H. unfold side. repeat split.
  - unfold flush. destruct (0 <? i_num pi); repeat constructor. lia.
  - intros va v Hlen. destruct va; [|discriminate]. rewrite ins_flush_end_i by assumption. now rewrite app_nil_r.
  - apply incl_refl.
  - unfold flush. destruct (Z.ltb_spec 0 (i_num pi)); [discriminate|lia].
  - unfold flush. destruct (Z.ltb_spec 0 (i_num pi)); repeat constructor. lia.
  - exists []. rewrite app_nil_r. split; [now apply ins_idxs_flush|]. split; [exact I|]. split; [tauto|auto].
Qed.

(* the side's own bucket m is consumed: advance *)
Lemma side_take lo pi P' M' ix' m :
  0 <= i_num pi -> lo < m ->
  side m (mkIns (i_pos pi + 1) 0 (i_bidx pi)) P' M' ix' ->
  side lo pi (flush pi [] ++ P') (m :: M') (m :: ix').
Proof.
  intros Hn Hlo (LB & G & IN & E1 & E2 & N1 & O & EO & IO & MO & DO). cbn [i_pos i_num i_bidx] in *.
  rewrite flush_app.
  assert (LB' : Forall (fun y => i_pos pi < i_pos y) P') by (eapply Forall_impl; [|exact LB]; simpl; intros; lia).
  unfold side. repeat split.
  - unfold flush. destruct (0 <? i_num pi).
    + constructor; [lia|]. eapply Forall_impl; [|exact LB']. simpl; intros; lia.
    + eapply Forall_impl; [|exact LB']. simpl; intros; lia.
  - intros va v Hlen. destruct va as [|x va]; [discriminate|]. cbn [lay]. rewrite Z.eqb_refl.
    apply ins_flush_i; [assumption|assumption|]. rewrite (G va v) by (simpl in Hlen; lia). reflexivity.
  - intros x [->|Hx]; [now left|right; auto].
  - unfold flush. destruct (Z.ltb_spec 0 (i_num pi)); [discriminate|]. intros ->. now rewrite E1.
  - unfold flush. intros H. destruct (Z.ltb_spec 0 (i_num pi)); [discriminate|lia].
  - unfold flush. destruct (Z.ltb_spec 0 (i_num pi)); [constructor; [lia|assumption]|assumption].
  - exists O. rewrite <- flush_app, ins_idxs_app, ins_idxs_flush, EO by assumption.
    rewrite zseq_zero. split; [reflexivity|]. split; [eapply incr_weaken; [|exact IO]; lia|].
    split.
    + intros x. simpl. rewrite MO. tauto.
    + intros x Hx [<-|Hin]; [pose proof (incr_In _ _ _ IO Hx); lia|exact (DO x Hx Hin)].
Qed.

(* a bucket m of the other stream is missing on this side: addInsert *)
Lemma side_skip lo pi e1 pi1 P' M' ix m :
  0 <= i_num pi -> lo < m -> incr m ix ->
  add_insert pi m = (e1, pi1) ->
  side m pi1 P' M' ix ->
  side lo pi (e1 ++ P') (m :: M') ix /\ 0 <= i_num pi1.
Proof.
  intros Hn Hlo Hix Hadd (LB & G & IN & E1 & E2 & N1 & O & EO & IO & MO & DO).
  assert (Hlay : forall va, lay (m :: M') ix va = 0 :: lay M' ix va).
  { intros va. cbn [lay]. destruct ix as [|i ix']; [reflexivity|]. destruct va as [|x va]; [reflexivity|].
    destruct Hix as [Hi _]. destruct (Z.eqb_spec i m); [lia|reflexivity]. }
  assert (Hnotin : ~ In m ix) by (intros Hin; pose proof (incr_In _ _ _ Hix Hin); lia).
  destruct pi as [p n b]. cbn [i_pos i_num i_bidx] in *. unfold add_insert in Hadd. cbn [i_pos i_num i_bidx] in Hadd.
  destruct (Z.eqb_spec n 0) as [->|Hn0]; [|destruct (Z.eqb_spec (b + n) m) as [Hc|Hc]];
    inversion Hadd; subst; clear Hadd; cbn [i_pos i_num i_bidx app] in *; (split; [|lia]).
  - (* first insert of a streak *)
    unfold side; cbn [i_pos i_num i_bidx]. repeat split; auto.
    + intros va v Hlen. rewrite (G va v Hlen), Hlay. reflexivity.
    + intros x Hx. right. auto.
    + intros ->. exfalso. apply E2; [lia|reflexivity].
    + lia.
    + exists (m :: O). rewrite EO, zseq_one, zseq_zero.
      split; [reflexivity|]. split; [simpl; auto|]. split.
      * intros x. simpl. rewrite MO. tauto.
      * intros x [<-|Hx]; [assumption|auto].
  - (* continues the streak *)
    unfold side; cbn [i_pos i_num i_bidx]. repeat split; auto.
    + intros va v Hlen. rewrite (G va v Hlen), Hlay. now rewrite repeat_shift by lia.
    + intros x Hx. right. auto.
    + intros ->. exfalso. apply E2; [lia|reflexivity].
    + intros _ ->. apply E2; [lia|reflexivity].
    + exists ((b + n) :: O). rewrite EO, zseq_snoc, <- app_assoc by lia.
      split; [reflexivity|]. split; [simpl; auto|]. split.
      * intros x. simpl. rewrite MO. tauto.
      * intros x [<-|Hx]; [assumption|auto].
  - (* not contiguous: the pending insert is emitted, a new streak starts *)
    unfold side; cbn [i_pos i_num i_bidx]. repeat split.
    + constructor; [simpl; lia|assumption].
    + intros va v Hlen. rewrite Hlay. pose proof (G va v Hlen) as Hg.
      rewrite (ins_same_pos p v va n b P' _ ltac:(lia) Hg). reflexivity.
    + intros x Hx. right. auto.
    + discriminate.
    + discriminate.
    + constructor; [simpl; lia|assumption].
    + exists (m :: O). cbn [ins_idxs flat_map i_bidx i_num]. fold (ins_idxs P'). rewrite EO.
      rewrite zseq_one.
      split; [reflexivity|]. split; [simpl; auto|]. split.
      * intros x. simpl. rewrite MO. tauto.
      * intros x [<-|Hx]; [assumption|auto].
Qed.

Section Cnt.
  Variable gt : Z -> Z -> bool.
  Variable is_zero : Z -> bool.

  Lemma cnt_go_spec fuel : forall A B ai bi F Bk lo,
    cnt_go gt is_zero fuel A B ai bi = Ok (Some (F, Bk)) ->
    0 <= i_num ai -> 0 <= i_num bi ->
    incr lo (map fst A) -> incr lo (map fst B) ->
    exists M, incr lo M /\ side lo ai F M (map fst A) /\ side lo bi Bk M (map fst B).
  Proof.
    induction fuel as [|f IH]; intros A B ai bi F Bk lo H Hai Hbi HA HB; [discriminate|].
    (* the three moves *)
    assert (MoveBoth : forall a A' B' , incr a (map fst A') -> incr a (map fst B') -> lo < a ->
              (r <- cnt_go gt is_zero f A' B' (snd (advance ai)) (snd (advance bi)) ;;
               match r with None => Ok None
                       | Some (F0, Bk0) => Ok (Some (fst (advance ai) ++ F0, fst (advance bi) ++ Bk0)) end) = Ok (Some (F, Bk)) ->
              exists M, incr lo M /\ side lo ai F M (a :: map fst A') /\ side lo bi Bk M (a :: map fst B')).
    { intros a A' B' HA' HB' Hlo E. cbn [advance fst snd] in E.
      destruct (cnt_go gt is_zero f A' B' _ _) as [[[F0 Bk0]|]| |] eqn:E0; cbn [bind] in E; try discriminate.
      inversion E; subst; clear E.
      destruct (IH _ _ _ _ _ _ a E0 ltac:(simpl; lia) ltac:(simpl; lia) HA' HB') as (M' & IM & SA & SB).
      exists (a :: M'). split; [simpl; auto|]. split; apply side_take; auto. }
    assert (MoveA : forall a A', incr a (map fst A') -> incr a (map fst B) -> lo < a ->
              (let '(e1, bi1) := add_insert bi a in
               let '(ea, ai') := advance ai in
               r <- cnt_go gt is_zero f A' B ai' bi1 ;;
               match r with None => Ok None | Some (F0, Bk0) => Ok (Some (ea ++ F0, e1 ++ Bk0)) end) = Ok (Some (F, Bk)) ->
              exists M, incr lo M /\ side lo ai F M (a :: map fst A') /\ side lo bi Bk M (map fst B)).
    { intros a A' HA' HB' Hlo E. destruct (add_insert bi a) as [e1 bi1] eqn:Eadd. cbn [advance] in E.
      destruct (cnt_go gt is_zero f A' B _ bi1) as [[[F0 Bk0]|]| |] eqn:E0; cbn [bind] in E; try discriminate.
      inversion E; subst; clear E.
      assert (Hb1 : 0 <= i_num bi1).
      { unfold add_insert in Eadd. destruct (i_num bi =? 0); [|destruct (i_bidx bi + i_num bi =? a)];
          inversion Eadd; subst; simpl; lia. }
      destruct (IH _ _ _ _ _ _ a E0 ltac:(simpl; lia) Hb1 HA' HB') as (M' & IM & SA & SB).
      exists (a :: M'). split; [simpl; auto|]. split; [apply side_take; auto|].
      eapply side_skip; eauto. }
    assert (MoveB : forall b B', incr b (map fst A) -> incr b (map fst B') -> lo < b ->
              (let '(e1, ai1) := add_insert ai b in
               let '(eb, bi') := advance bi in
               r <- cnt_go gt is_zero f A B' ai1 bi' ;;
               match r with None => Ok None | Some (F0, Bk0) => Ok (Some (e1 ++ F0, eb ++ Bk0)) end) = Ok (Some (F, Bk)) ->
              exists M, incr lo M /\ side lo ai F M (map fst A) /\ side lo bi Bk M (b :: map fst B')).
    { intros b B' HA' HB' Hlo E. destruct (add_insert ai b) as [e1 ai1] eqn:Eadd. cbn [advance] in E.
      destruct (cnt_go gt is_zero f A B' ai1 _) as [[[F0 Bk0]|]| |] eqn:E0; cbn [bind] in E; try discriminate.
      inversion E; subst; clear E.
      assert (Ha1 : 0 <= i_num ai1).
      { unfold add_insert in Eadd. destruct (i_num ai =? 0); [|destruct (i_bidx ai + i_num ai =? b)];
          inversion Eadd; subst; simpl; lia. }
      destruct (IH _ _ _ _ _ _ b E0 Ha1 ltac:(simpl; lia) HA' HB') as (M' & IM & SA & SB).
      exists (b :: M'). split; [simpl; auto|]. split; [|apply side_take; auto].
      eapply side_skip; eauto. }
    cbn [cnt_go] in H.
    destruct A as [|[a ca] A']; destruct B as [|[b cb] B']; cbn [map fst] in *.
    - inversion H; subst. exists []. split; [exact I|]. split; apply side_end; assumption.
    - destruct HB as [HB1 HB2]. apply (MoveB b B'); auto.
    - destruct HA as [HA1 HA2]. destruct (is_zero ca); [|discriminate]. apply (MoveA a A'); auto.
    - destruct HA as [HA1 HA2], HB as [HB1 HB2].
      destruct (Z.eqb_spec a b) as [<-|Hab]; [|destruct (Z.ltb_spec a b)].
      + destruct (gt ca cb); [discriminate|]. apply (MoveBoth a A' B'); auto.
      + destruct (is_zero ca); [|discriminate]. apply (MoveA a A'); auto. simpl. split; [lia|auto].
      + apply (MoveB b B'); auto. simpl. split; [lia|auto].
  Qed.

  Lemma cnt_go_ok fuel : forall A B ai bi,
    (length A + length B < fuel)%nat -> exists r, cnt_go gt is_zero fuel A B ai bi = Ok r.
  Proof.
    induction fuel as [|f IH]; intros A B ai bi H; [lia|].
    assert (R : forall A0 B0 ai0 bi0 (g : list ins * list ins -> list ins * list ins),
               (length A0 + length B0 < f)%nat ->
               exists r, (r0 <- cnt_go gt is_zero f A0 B0 ai0 bi0 ;;
                          match r0 with None => Ok None | Some p => Ok (Some (g p)) end) = Ok r).
    { intros A0 B0 ai0 bi0 g Hl. destruct (IH A0 B0 ai0 bi0 Hl) as [r E]. rewrite E. cbn [bind].
      destruct r; eauto. }
    cbn [cnt_go].
    destruct A as [|[a ca] A']; destruct B as [|[b cb] B']; cbn [length] in H.
    - eauto.
    - destruct (add_insert ai b) as [e1 ai1]. cbn [advance].
      destruct (R [] B' ai1 (mkIns (i_pos bi + 1) 0 (i_bidx bi)) (fun p => (e1 ++ fst p, flush bi [] ++ snd p)) ltac:(simpl; lia)) as [r E].
      exists r. rewrite <- E. destruct (cnt_go gt is_zero f [] B' ai1 _) as [[[? ?]|]| |]; reflexivity.
    - destruct (is_zero ca); [|eauto]. destruct (add_insert bi a) as [e1 bi1]. cbn [advance].
      destruct (R A' [] (mkIns (i_pos ai + 1) 0 (i_bidx ai)) bi1 (fun p => (flush ai [] ++ fst p, e1 ++ snd p)) ltac:(simpl; lia)) as [r E].
      exists r. rewrite <- E. destruct (cnt_go gt is_zero f A' [] _ bi1) as [[[? ?]|]| |]; reflexivity.
    - destruct (a =? b); [|destruct (a <? b)].
      + destruct (gt ca cb); [eauto|]. cbn [advance].
        destruct (R A' B' (mkIns (i_pos ai + 1) 0 (i_bidx ai)) (mkIns (i_pos bi + 1) 0 (i_bidx bi))
                    (fun p => (flush ai [] ++ fst p, flush bi [] ++ snd p)) ltac:(simpl; lia)) as [r E].
        exists r. rewrite <- E. destruct (cnt_go gt is_zero f A' B' _ _) as [[[? ?]|]| |]; reflexivity.
      + destruct (is_zero ca); [|eauto]. destruct (add_insert bi a) as [e1 bi1]. cbn [advance].
        destruct (R A' ((b, cb) :: B') (mkIns (i_pos ai + 1) 0 (i_bidx ai)) bi1 (fun p => (flush ai [] ++ fst p, e1 ++ snd p)) ltac:(simpl; lia)) as [r E].
        exists r. rewrite <- E. destruct (cnt_go gt is_zero f A' ((b, cb) :: B') _ bi1) as [[[? ?]|]| |]; reflexivity.
      + destruct (add_insert ai b) as [e1 ai1]. cbn [advance].
        destruct (R ((a, ca) :: A') B' ai1 (mkIns (i_pos bi + 1) 0 (i_bidx bi)) (fun p => (e1 ++ fst p, flush bi [] ++ snd p)) ltac:(simpl; lia)) as [r E].
        exists r. rewrite <- E. destruct (cnt_go gt is_zero f ((a, ca) :: A') B' ai1 _) as [[[? ?]|]| |]; reflexivity.
  Qed.
End Cnt.

(* proof/IsolationProofs.v — proofs about model/Isolation.v (C05). *)
From Coq Require Import List ZArith Bool Arith Lia.
From Verif Require Import model.Isolation.
Import ListNotations.
Open Scope Z_scope.

(* ================================================================ generic list facts *)

Fixpoint dropwhile {A} (p : A -> bool) (l : list A) : list A :=
  match l with
  | [] => []
  | x :: l' => if p x then dropwhile p l' else l
  end.

Lemma takewhile_app_all {A} (p : A -> bool) (l1 l2 : list A) :
  Forall (fun x => p x = true) l1 -> takewhile p (l1 ++ l2) = l1 ++ takewhile p l2.
Proof.
  induction 1 as [|x l1 Hx _ IH]; simpl; auto. rewrite Hx, IH. reflexivity.
Qed.

Lemma takewhile_firstn {A} (p : A -> bool) (l : list A) :
  takewhile p l = firstn (length (takewhile p l)) l.
Proof.
  induction l as [|x l IH]; simpl; auto. destruct (p x); simpl; auto. f_equal. exact IH.
Qed.

Lemma takewhile_Forall {A} (p : A -> bool) (l : list A) : Forall (fun x => p x = true) (takewhile p l).
Proof.
  induction l as [|x l IH]; simpl; auto. destruct (p x) eqn:E; auto.
Qed.

Lemma dropwhile_split {A B} (f : A -> B) (p : B -> bool) (w : list A) :
  exists w1 w2, w = w1 ++ w2 /\ map f w2 = dropwhile p (map f w) /\ Forall (fun x => p (f x) = true) w1.
Proof.
  induction w as [|x w IH]; simpl.
  - exists [], []. auto.
  - destruct (p (f x)) eqn:E.
    + destruct IH as (w1 & w2 & -> & H2 & H3). exists (x :: w1), w2. simpl. auto.
    + exists [], (x :: w). simpl. auto.
Qed.

Lemma nth_set_nth (n m : nat) (x d : Z) (l : list Z) :
  (n < length l)%nat -> nth m (set_nth n x l) d = if Nat.eqb m n then x else nth m l d.
Proof.
  intros Hn. unfold set_nth.
  assert (Hl : length (firstn n l) = n) by (rewrite firstn_length; lia).
  destruct (Nat.eqb_spec m n) as [->|Hne].
  - rewrite app_nth2 by lia. rewrite Hl, Nat.sub_diag. reflexivity.
  - destruct (Nat.lt_ge_cases m n) as [Hlt|Hge].
    + rewrite app_nth1 by lia. rewrite <- (firstn_skipn n l) at 2. rewrite app_nth1 by lia. reflexivity.
    + rewrite app_nth2 by lia. rewrite Hl.
      destruct (m - n)%nat as [|k] eqn:Ek; [lia|]. simpl.
      rewrite <- (firstn_skipn (S n) l) at 2.
      rewrite app_nth2 by (rewrite firstn_length; lia).
      rewrite firstn_length. f_equal. lia.
Qed.

Lemma length_set_nth (n : nat) (x : Z) (l : list Z) :
  (n < length l)%nat -> length (set_nth n x l) = length l.
Proof.
  intros Hn. unfold set_nth. rewrite app_length. cbn [length]. rewrite firstn_length, skipn_length. lia.
Qed.

(* ================================================================ modular positions *)

Definition next_pos (len pos : nat) : nat := if Nat.eqb (S pos) len then O else S pos.

Lemma mod_wrap (len f k : nat) :
  (f < len)%nat -> (k <= len)%nat ->
  ((f + k) mod len = if Nat.ltb (f + k) len then f + k else f + k - len)%nat.
Proof.
  intros Hf Hk. destruct (Nat.ltb_spec (f + k) len) as [H|H].
  - apply Nat.mod_small; lia.
  - symmetry. apply (Nat.mod_unique (f + k) len 1); lia.
Qed.

Lemma next_pos_mod (len a : nat) : (0 < len)%nat -> next_pos len (a mod len) = (S a mod len)%nat.
Proof.
  intros Hlen. unfold next_pos.
  pose proof (Nat.mod_upper_bound a len ltac:(lia)) as Hub.
  pose proof (Nat.div_mod a len ltac:(lia)) as Hdm.
  destruct (Nat.eqb_spec (S (a mod len)) len) as [E|E].
  - apply (Nat.mod_unique (S a) len (S (a / len))); lia.
  - apply (Nat.mod_unique (S a) len (a / len)); lia.
Qed.

(* ================================================================ txRing *)

Definition wf_ring (r : ring) : Prop :=
  (r_count r <= length (r_ids r))%nat /\
  ((r_first r < length (r_ids r))%nat \/ (length (r_ids r) = 0%nat /\ r_first r = 0%nat)).

Definition cont (ids : list Z) (first count : nat) : list Z :=
  map (fun k => nth ((first + k) mod length ids) ids 0) (seq 0 count).

Lemma ring_contents_cont r : ring_contents r = cont (r_ids r) (r_first r) (r_count r).
Proof. reflexivity. Qed.

Lemma length_contents r : length (ring_contents r) = r_count r.
Proof. unfold ring_contents. rewrite map_length, seq_length. reflexivity. Qed.

Lemma wf_ring_new : wf_ring ring_new.
Proof. unfold wf_ring, ring_new; simpl. lia. Qed.

(* adding to a ring that is not full *)
Lemma ring_set_spec ids first count id :
  (count < length ids)%nat -> (first < length ids)%nat ->
  cont (set_nth ((first + count) mod length ids) id ids) first (S count) = cont ids first count ++ [id].
Proof.
  intros Hc Hf. unfold cont.
  assert (Hidx : ((first + count) mod length ids < length ids)%nat) by (apply Nat.mod_upper_bound; lia).
  rewrite length_set_nth by exact Hidx.
  rewrite seq_S, map_app. simpl. f_equal.
  - apply map_ext_in. intros k Hk. apply in_seq in Hk.
    rewrite nth_set_nth by exact Hidx.
    destruct (Nat.eqb_spec ((first + k) mod length ids) ((first + count) mod length ids)) as [E|E]; auto.
    exfalso. rewrite !mod_wrap in E by lia.
    destruct (Nat.ltb_spec (first + k) (length ids)), (Nat.ltb_spec (first + count) (length ids)); lia.
  - rewrite nth_set_nth by exact Hidx. rewrite Nat.eqb_refl. reflexivity.
Qed.

Lemma grown_cont ids first extra :
  (first < length ids)%nat \/ (length ids = 0%nat /\ first = 0%nat) ->
  cont (skipn first ids ++ firstn first ids ++ repeat 0 extra) 0 (length ids) = cont ids first (length ids).
Proof.
  intros Hf. unfold cont. apply map_ext_in. intros k Hk. apply in_seq in Hk.
  destruct Hf as [Hf|[H0 _]]; [|lia].
  set (len := length ids) in *.
  assert (Hlen' : length (skipn first ids ++ firstn first ids ++ repeat 0 extra) = (len + extra)%nat).
  { rewrite !app_length, skipn_length, firstn_length, repeat_length. fold len. lia. }
  rewrite Hlen'. simpl.
  rewrite (Nat.mod_small k) by lia.
  rewrite mod_wrap by lia.
  destruct (Nat.ltb_spec (first + k) len) as [H|H].
  - rewrite app_nth1 by (rewrite skipn_length; fold len; lia).
    rewrite <- (firstn_skipn first ids) at 2.
    rewrite app_nth2 by (rewrite firstn_length; fold len; lia).
    rewrite firstn_length. fold len. f_equal. lia.
  - rewrite app_nth2 by (rewrite skipn_length; fold len; lia).
    rewrite skipn_length. fold len.
    rewrite app_nth1 by (rewrite firstn_length; fold len; lia).
    rewrite <- (firstn_skipn first ids) at 2.
    rewrite app_nth1 by (rewrite firstn_length; fold len; lia).
    f_equal. lia.
Qed.

Lemma ring_add_spec r id :
  wf_ring r ->
  exists r', ring_add r id = Some r' /\ wf_ring r' /\ ring_contents r' = ring_contents r ++ [id].
Proof.
  intros [Hc Hf]. unfold ring_add.
  destruct (Nat.eqb_spec (r_count r) (length (r_ids r))) as [Efull|Enf].
  - assert (Hle : Nat.leb (r_first r) (length (r_ids r)) = true) by (apply Nat.leb_le; lia).
    rewrite Hle.
    set (newLen := (if Nat.eqb (r_count r * 2) 0 then 4 else r_count r * 2)%nat).
    set (ids' := skipn (r_first r) (r_ids r) ++ firstn (r_first r) (r_ids r) ++ repeat 0 (newLen - length (r_ids r))).
    assert (Hnl : (length (r_ids r) < newLen)%nat).
    { unfold newLen. destruct (Nat.eqb_spec (r_count r * 2) 0); lia. }
    assert (Hlen' : length ids' = newLen).
    { unfold ids'. rewrite !app_length, skipn_length, firstn_length, repeat_length. lia. }
    cbn [r_ids r_first r_count].
    destruct (Nat.eqb_spec (length ids') 0) as [E0|E0]; [lia|].
    eexists. split; [reflexivity|]. split.
    + unfold wf_ring. cbn [r_ids r_first r_count]. rewrite length_set_nth.
      * lia.
      * apply Nat.mod_upper_bound. lia.
    + rewrite !ring_contents_cont. cbn [r_ids r_first r_count].
      rewrite ring_set_spec by lia. f_equal.
      rewrite Efull. unfold ids'. apply grown_cont. exact Hf.
  - destruct (Nat.eqb_spec (length (r_ids r)) 0) as [E0|E0]; [lia|].
    destruct Hf as [Hf|[H0 _]]; [|lia].
    eexists. split; [reflexivity|]. split.
    + unfold wf_ring. cbn [r_ids r_first r_count]. rewrite length_set_nth.
      * lia.
      * apply Nat.mod_upper_bound. lia.
    + rewrite !ring_contents_cont. cbn [r_ids r_first r_count].
      apply ring_set_spec; lia.
Qed.

Lemma cont_cons ids first c :
  cont ids first (S c) = nth (first mod length ids) ids 0 :: cont ids (S first) c.
Proof.
  unfold cont. rewrite <- cons_seq, <- seq_shift. simpl. rewrite Nat.add_0_r. f_equal.
  rewrite map_map. apply map_ext. intros k. f_equal. f_equal. lia.
Qed.

Lemma cleanup_loop_spec ids bound :
  (0 < length ids)%nat ->
  forall count first pos,
    pos = (first mod length ids)%nat ->
    exists f' c', cleanup_loop ids bound count first pos = Some (f', c') /\
                  (c' <= count)%nat /\
                  cont ids f' c' = dropwhile (fun x => x <? bound) (cont ids first count).
Proof.
  intros Hlen. induction count as [|c IH]; intros first pos Hpos.
  - exists first, 0%nat. simpl. auto.
  - cbn [cleanup_loop]. rewrite cont_cons.
    assert (Hp : (pos < length ids)%nat) by (subst pos; apply Nat.mod_upper_bound; lia).
    rewrite (nth_error_nth' ids 0 Hp). rewrite <- Hpos. cbn [dropwhile].
    destruct (Z.geb_spec (nth pos ids 0) bound) as [Hge|Hlt].
    + assert (E : (nth pos ids 0 <? bound) = false) by (apply Z.ltb_ge; lia). rewrite E.
      exists first, (S c). rewrite cont_cons, <- Hpos. auto.
    + assert (E : (nth pos ids 0 <? bound) = true) by (apply Z.ltb_lt; lia). rewrite E.
      destruct (IH (S first) (next_pos (length ids) pos)) as (f' & c' & H1 & H2 & H3).
      { subst pos. apply next_pos_mod. exact Hlen. }
      exists f', c'. unfold next_pos in H1. rewrite H1. auto.
Qed.

Lemma cont_first_mod ids first count :
  (0 < length ids)%nat -> cont ids (first mod length ids) count = cont ids first count.
Proof.
  intros Hlen. unfold cont. apply map_ext. intros k. f_equal.
  apply Nat.add_mod_idemp_l. lia.
Qed.

Lemma ring_cleanup_spec r bound :
  wf_ring r ->
  exists r', ring_cleanup r bound = Some r' /\ wf_ring r' /\
             ring_contents r' = dropwhile (fun x => x <? bound) (ring_contents r).
Proof.
  intros [Hc Hf]. unfold ring_cleanup.
  destruct (Nat.eqb_spec (length (r_ids r)) 0) as [E0|E0].
  - exists r. split; auto. split; [split; auto|].
    assert (r_count r = 0%nat) by lia.
    unfold ring_contents. rewrite H. reflexivity.
  - destruct (cleanup_loop_spec (r_ids r) bound ltac:(lia) (r_count r) (r_first r) (r_first r)) as (f' & c' & H1 & H2 & H3).
    { destruct Hf as [Hf|[H0 _]]; [|lia]. symmetry. apply Nat.mod_small. exact Hf. }
    rewrite H1. eexists. split; [reflexivity|]. split.
    + unfold wf_ring. cbn [r_ids r_first r_count]. split; [lia|]. left. apply Nat.mod_upper_bound. lia.
    + rewrite !ring_contents_cont. cbn [r_ids r_first r_count].
      rewrite cont_first_mod by lia. exact H3.
Qed.

(* the scan of memSeries.iterator *)
Fixpoint first_invis (vis : Z -> bool) (l : list Z) (index : nat) : option nat :=
  match l with
  | [] => None
  | x :: l' => if vis x then first_invis vis l' (S index) else Some index
  end.

Lemma cont_seq_cons ids first index n :
  map (fun k => nth ((first + k) mod length ids) ids 0) (seq index (S n)) =
  nth ((first + index) mod length ids) ids 0 :: map (fun k => nth ((first + k) mod length ids) ids 0) (seq (S index) n).
Proof. reflexivity. Qed.

Lemma scan_spec vis ids first :
  (0 < length ids)%nat ->
  forall n index pos,
    pos = ((first + index) mod length ids)%nat ->
    scan vis ids pos n index =
    Some (first_invis vis (map (fun k => nth ((first + k) mod length ids) ids 0) (seq index n)) index).
Proof.
  intros Hlen. induction n as [|n IH]; intros index pos Hpos.
  - reflexivity.
  - cbn [scan]. rewrite cont_seq_cons. cbn [first_invis].
    assert (Hp : (pos < length ids)%nat) by (subst pos; apply Nat.mod_upper_bound; lia).
    rewrite (nth_error_nth' ids 0 Hp). rewrite <- Hpos.
    destruct (vis (nth pos ids 0)); auto.
    apply IH. subst pos. rewrite Nat.add_succ_r. apply (next_pos_mod (length ids) (first + index) Hlen).
Qed.

Lemma first_invis_firstn vis (l : list Z) :
  forall n index, (n <= length l)%nat ->
    first_invis vis (firstn n l) index =
    if Nat.ltb (length (takewhile vis l)) n then Some (index + length (takewhile vis l))%nat else None.
Proof.
  induction l as [|x l IH]; intros n index Hn.
  - simpl in Hn. assert (n = 0%nat) by lia. subst n. reflexivity.
  - destruct n as [|n]; [reflexivity|]. cbn [firstn first_invis takewhile].
    cbn [length] in Hn.
    destruct (vis x).
    + rewrite IH by lia. cbn [length].
      destruct (Nat.ltb_spec (length (takewhile vis l)) n), (Nat.ltb_spec (S (length (takewhile vis l))) (S n)); try lia; auto.
      f_equal. lia.
    + simpl. f_equal. lia.
Qed.

Lemma firstn_seq_map {B} (f : nat -> B) n count :
  (n <= count)%nat -> firstn n (map f (seq 0 count)) = map f (seq 0 n).
Proof.
  intros H. rewrite firstn_map. f_equal.
  replace count with (n + (count - n))%nat by lia. rewrite seq_app, firstn_app, seq_length.
  rewrite Nat.sub_diag. simpl. rewrite app_nil_r. apply firstn_all2. rewrite seq_length. lia.
Qed.

Lemma scan_ring vis r n :
  wf_ring r -> (n <= r_count r)%nat ->
  scan vis (r_ids r) (r_first r) n 0 =
  Some (let q := length (takewhile vis (ring_contents r)) in if Nat.ltb q n then Some q else None).
Proof.
  intros [Hc Hf] Hn. destruct n as [|n'].
  - simpl. destruct (length (takewhile vis (ring_contents r))); reflexivity.
  - assert (Hlen : (0 < length (r_ids r))%nat) by lia.
    rewrite (scan_spec vis (r_ids r) (r_first r) Hlen (S n') 0%nat (r_first r)).
    + f_equal. rewrite <- (firstn_seq_map _ (S n') (r_count r) Hn).
      fold (cont (r_ids r) (r_first r) (r_count r)). rewrite <- ring_contents_cont.
      rewrite first_invis_firstn by (rewrite length_contents; exact Hn). reflexivity.
    + rewrite Nat.add_0_r. symmetry. apply Nat.mod_small. destruct Hf as [Hf|[H0 _]]; lia.
Qed.

(* proof/ApiJsonHistProofs.v — histogram part of C51: the forward bucket iterator enumerates exactly
   the expansion of the spans, MarshalHistogram's loop renders exactly the non-empty buckets. *)
From Coq Require Import List ZArith NArith Bool Lia String.
From Verif Require Import lib.Int64 model.ApiJson.
Import ListNotations.
Open Scope Z_scope.

Definition nonneg_spans (ss : list span) : Prop := Forall (fun s => 0 <= sp_len s) ss.

Lemma expand_nil ss next : expand ss [] next = [].
Proof.
  revert next. induction ss as [|s r IH]; intros next; simpl; auto.
  rewrite firstn_nil, skipn_nil, IH. reflexivity.
Qed.

(* what remains to be produced in state (current span s, idxInSpan, currIdx) *)
Definition remaining (s : span) (rest : list span) (idxIn cur : Z) (bs : list Z) : list (Z * Z) :=
  let k := Z.to_nat (sp_len s - idxIn) in
  zip_idx (cur + 1) (firstn k bs) ++ expand rest (skipn k bs) (cur + 1 + (sp_len s - idxIn)).

Definition Rstmt (bs : list Z) : Prop :=
  forall s rest idxIn cur, 0 <= idxIn <= sp_len s -> nonneg_spans rest ->
    fnext_all bs false (s :: rest) idxIn cur = remaining s rest idxIn cur bs.

Lemma fskip_unfold s rest idxIn cur :
  fskip s rest idxIn cur =
  if sp_len s <=? idxIn then
    match rest with [] => None | s' :: r' => fskip s' r' 0 (cur + sp_off s') end
  else Some (s, rest, idxIn, cur).
Proof. destruct rest; reflexivity. Qed.

Lemma fskip0 b bs' : Rstmt bs' -> forall r' s' c, 0 <= sp_len s' -> nonneg_spans r' ->
  match fskip s' r' 0 c with
  | None => []
  | Some (s2, rest2, i2, cur2) => (cur2, b) :: fnext_all bs' false (s2 :: rest2) (i2 + 1) cur2
  end = zip_idx c (firstn (Z.to_nat (sp_len s')) (b :: bs'))
        ++ expand r' (skipn (Z.to_nat (sp_len s')) (b :: bs')) (c + sp_len s').
Proof.
  intros HR r'. induction r' as [|s'' r'' IH]; intros s' c Hs' Hr'.
  - rewrite fskip_unfold. destruct (sp_len s' <=? 0) eqn:E.
    + apply Z.leb_le in E. assert (sp_len s' = 0) as -> by lia. reflexivity.
    + apply Z.leb_gt in E. rewrite HR; [|lia|constructor].
      unfold remaining. replace (Z.to_nat (sp_len s')) with (S (Z.to_nat (sp_len s' - 1))) by lia.
      cbn [firstn skipn zip_idx app]. repeat (f_equal; try lia).
  - rewrite fskip_unfold. destruct (sp_len s' <=? 0) eqn:E.
    + apply Z.leb_le in E. assert (Hz : sp_len s' = 0) by lia. rewrite Hz.
      inversion Hr' as [|? ? Hs'' Hr'']; subst.
      rewrite IH by auto. cbn [Z.to_nat firstn skipn zip_idx app expand].
      rewrite Z.add_0_r. reflexivity.
    + apply Z.leb_gt in E. rewrite HR; [|lia|auto].
      unfold remaining. replace (Z.to_nat (sp_len s')) with (S (Z.to_nat (sp_len s' - 1))) by lia.
      cbn [firstn skipn zip_idx app]. repeat (f_equal; try lia).
Qed.

Lemma R_all bs : Rstmt bs.
Proof.
  induction bs as [|b bs' IH]; intros s rest idxIn cur Hi Hrest.
  - unfold remaining. rewrite firstn_nil, skipn_nil, expand_nil. reflexivity.
  - cbn [fnext_all]. rewrite fskip_unfold. destruct (sp_len s <=? idxIn) eqn:E.
    + apply Z.leb_le in E. assert (Hk : sp_len s - idxIn = 0) by lia.
      unfold remaining. rewrite Hk. cbn [Z.to_nat firstn skipn zip_idx app].
      rewrite Z.add_0_r.
      destruct rest as [|s' r']; [reflexivity|].
      inversion Hrest as [|? ? Hs' Hr']; subst.
      rewrite (fskip0 b bs' IH r' s' (cur + 1 + sp_off s') Hs' Hr').
      cbn [expand]. reflexivity.
    + apply Z.leb_gt in E. rewrite IH; [|lia|auto].
      unfold remaining.
      replace (Z.to_nat (sp_len s - idxIn)) with (S (Z.to_nat (sp_len s - (idxIn + 1)))) by lia.
      cbn [firstn skipn zip_idx app]. repeat (f_equal; try lia).
Qed.

(* The forward iterator (floatBucketIterator.Next, fast path) enumerates exactly the expansion of
   the spans, for every span list with non-negative lengths — including empty spans, and
   bucket slices shorter or longer than the spans say. *)
Theorem fwd_iter_expand ss bs : nonneg_spans ss -> fwd_iter ss bs = expand ss bs 0.
Proof.
  intros Hss. unfold fwd_iter. destruct bs as [|b bs'].
  - rewrite expand_nil. reflexivity.
  - destruct ss as [|s rest]; [reflexivity|].
    inversion Hss as [|? ? Hs Hrest]; subst.
    cbn [fnext_all]. rewrite (fskip0 b bs' (R_all bs') rest s (sp_off s) Hs Hrest).
    cbn [expand]. reflexivity.
Qed.

(* ================================================================ float comparison facts *)
Lemma fgt_not_flt a : fgt a fzero = true -> flt a fzero = false.
Proof.
  unfold fgt, flt. change (fkey fzero) with 0. intros H. apply andb_true_iff in H as [H1 H2]. apply Z.ltb_lt in H2.
  destruct (negb (fnan a) && negb (fnan fzero)); cbn; auto. apply Z.ltb_ge. lia.
Qed.

Lemma flt_fgt_false a : flt a fzero && fgt a (fnegate fzero) = false.
Proof.
  unfold fgt, flt. change (fkey (fnegate fzero)) with 0. change (fkey fzero) with 0.
  destruct (fkey a <? 0) eqn:E1, (0 <? fkey a) eqn:E2; rewrite ?andb_false_r; auto.
  apply Z.ltb_lt in E1, E2. lia.
Qed.

Lemma fgt_flt_false a : fgt a fzero && flt a fzero = false.
Proof.
  unfold fgt, flt. change (fkey fzero) with 0.
  destruct (fkey a <? 0) eqn:E1, (0 <? fkey a) eqn:E2; rewrite ?andb_false_r; auto.
  apply Z.ltb_lt in E1, E2. lia.
Qed.

(* ================================================================ MarshalHistogram's loop *)
Section Render.
Variable fmt : Z -> fmtk -> bytes.
Variable ebound : Z -> Z -> Z.

Definition b4 (b : bucket) : Z * Z * Z * Z := (boundaries b, b_lo b, b_hi b, b_cnt b).
Definition render_bucket (q : Z * Z * Z * Z) : bytes :=
  let '(c, lo, hi, n) := q in
  [91%N] ++ write_int64 c ++ [44%N] ++ marshal_float fmt lo ++ [44%N]
         ++ marshal_float fmt hi ++ [44%N] ++ marshal_float fmt n ++ [93%N].
(* canonical rendering: {"count":"C","sum":"S"} or {"count":"C","sum":"S","buckets":[b,b,...]} *)
Definition render_buckets (l : list (Z * Z * Z * Z)) : bytes :=
  match l with
  | [] => []
  | q :: r => s2b ",""buckets"":[" ++ render_bucket q
              ++ List.concat (map (fun x => [44%N] ++ render_bucket x) r) ++ [93%N]
  end.
Definition render_hist (cnt sum : Z) (l : list (Z * Z * Z * Z)) : bytes :=
  s2b "{""count"":" ++ marshal_float fmt cnt ++ s2b ",""sum"":" ++ marshal_float fmt sum
  ++ render_buckets l ++ [125%N].

Definition nonempty4 (q : Z * Z * Z * Z) : bool := fne (snd q) fzero.

Lemma marshal_bucket_b4 b : marshal_bucket fmt b = render_bucket (b4 b).
Proof. reflexivity. Qed.

Lemma loop_true bs :
  marshal_buckets_loop fmt true bs =
  List.concat (map (fun x => [44%N] ++ render_bucket x) (filter nonempty4 (map b4 bs))) ++ [93%N].
Proof.
  induction bs as [|b bs IH]; [reflexivity|].
  cbn [marshal_buckets_loop map filter]. unfold nonempty4 at 1. cbn [snd b4]. unfold feq.
  destruct (fne (b_cnt b) fzero); cbn [negb].
  - rewrite IH. cbn [map List.concat]. rewrite marshal_bucket_b4. rewrite <- !app_assoc. reflexivity.
  - exact IH.
Qed.

Lemma loop_false bs :
  marshal_buckets_loop fmt false bs = render_buckets (filter nonempty4 (map b4 bs)).
Proof.
  induction bs as [|b bs IH]; [reflexivity|].
  cbn [marshal_buckets_loop map filter]. unfold nonempty4 at 1. cbn [snd b4]. unfold feq.
  destruct (fne (b_cnt b) fzero); cbn [negb].
  - rewrite loop_true. unfold render_buckets. rewrite marshal_bucket_b4.
    change (s2b ",""buckets"":[") with ([44%N] ++ s2b """buckets"":[").
    rewrite <- !app_assoc. reflexivity.
  - exact IH.
Qed.

(* ---------------------------------------------------------------- positive side, bucket by bucket *)
(* what the code needs of a bucket index: exponential schemas: the upper bound is positive and the
   lower bound is not negative (getBoundExponential is positive; an underflow to 0 is allowed for
   the lower bound only); custom buckets: index within the custom bounds and zero threshold +0 *)
Definition idx_ok (h : hist) (i : Z) : Prop :=
  if h_schema h =? custom_schema
  then 0 <= i <= Z.of_nat (List.length (h_custom h)) /\ h_zt h = 0
  else fgt (ebound (h_schema h) i) fzero = true /\ flt (ebound (h_schema h) (i - 1)) fzero = false.

Lemma custom_bound h i : h_schema h =? custom_schema = true ->
  -1 <= i <= Z.of_nat (List.length (h_custom h)) ->
  get_bound ebound h i = Ok (spec_bound ebound h i).
Proof.
  intros Hc Hi. unfold get_bound, spec_bound. rewrite Hc.
  set (len := Z.of_nat (List.length (h_custom h))) in *.
  replace ((len <? i) || (i <? -1)) with false.
  2:{ symmetry. apply orb_false_iff. split; [apply Z.ltb_ge|apply Z.ltb_ge]; lia. }
  destruct (i =? len) eqn:E1.
  - apply Z.eqb_eq in E1. replace (i <? 0) with false by (symmetry; apply Z.ltb_ge; lia).
    rewrite nth_overflow; auto. unfold len in E1. lia.
  - apply Z.eqb_neq in E1. destruct (i =? -1) eqn:E2.
    + apply Z.eqb_eq in E2. subst i. reflexivity.
    + apply Z.eqb_neq in E2. replace (i <? 0) with false by (symmetry; apply Z.ltb_ge; lia).
      destruct (nth_error (h_custom h) (Z.to_nat i)) eqn:En.
      * rewrite (nth_error_nth _ _ _ En). reflexivity.
      * apply nth_error_None in En. unfold len in *. lia.
Qed.

Lemma pos_bucket h ic : idx_ok h (fst ic) ->
  bind (bucket_at ebound h true ic) (fun b => Ok (clip h b)) = Ok (clip h (mkB (spec_bound ebound h (fst ic - 1)) (spec_bound ebound h (fst ic))
       (if h_schema h =? custom_schema then fst ic =? 0 else false) true (snd ic)))
  /\ b4 (clip h (mkB (spec_bound ebound h (fst ic - 1)) (spec_bound ebound h (fst ic))
       (if h_schema h =? custom_schema then fst ic =? 0 else false) true (snd ic))) = spec_pos ebound h ic.
Proof.
  destruct ic as [i c]. cbn [fst snd]. unfold idx_ok. intros Hok.
  destruct (h_schema h =? custom_schema) eqn:Hc.
  - destruct Hok as [Hi Hzt]. split.
    + unfold bucket_at. rewrite !custom_bound by (auto; lia). cbn [bind]. rewrite Hc. reflexivity.
    + unfold clip, spec_pos, b4. cbn [b_lo b_hi b_loinc b_hiinc b_cnt fst snd]. rewrite Hzt, Hc.
      change (fnegate 0) with (fnegate fzero). change 0 with fzero at 2 4.
      rewrite flt_fgt_false. rewrite !fgt_flt_false.
      cbn [b_lo b_hi b_loinc b_hiinc b_cnt boundaries andb]. unfold boundaries. cbn [b_loinc b_hiinc].
      destruct (i =? 0); reflexivity.
  - destruct Hok as [Hhi Hlo]. split.
    + unfold bucket_at, get_bound, spec_bound. rewrite Hc. cbn [bind]. rewrite Hhi, Hlo. reflexivity.
    + unfold clip, spec_pos, b4, spec_bound. rewrite Hc. cbn [b_lo b_hi b_loinc b_hiinc b_cnt fst snd andb].
      rewrite (fgt_not_flt _ Hhi). cbn [andb].
      destruct (fgt (ebound (h_schema h) (i - 1)) fzero && flt (ebound (h_schema h) (i - 1)) (h_zt h)); reflexivity.
Qed.

Lemma mapM_pos h l : Forall (fun ic => idx_ok h (fst ic)) l ->
  exists bl, mapM (fun ic => bind (bucket_at ebound h true ic) (fun b => Ok (clip h b))) l = Ok bl
             /\ map b4 bl = map (spec_pos ebound h) l.
Proof.
  induction 1 as [|ic l Hic Hl (bl & IH1 & IH2)].
  - exists []. auto.
  - destruct (pos_bucket h ic Hic) as [H1 H2]. eexists (_ :: bl). split.
    + cbn [mapM]. rewrite H1. cbn [bind]. rewrite IH1. reflexivity.
    + cbn [map]. rewrite H2, IH2. reflexivity.
Qed.

(* the zero bucket as the code exposes it: only when ZeroCount > 0 *)
Definition code_all (h : hist) : list (Z * Z * Z * Z) :=
  (if fgt (h_zc h) fzero then [(3, fnegate (h_zt h), h_zt h, h_zc h)] else [])
  ++ map (spec_pos ebound h) (expand (h_pspans h) (h_pb h) 0).

(* MarshalHistogram on a histogram without negative buckets: the bytes are the canonical rendering
   of count, sum and exactly the non-empty buckets of the expansion of the spans, each with the
   boundaries and the inclusiveness code of its index. *)
Theorem marshal_histogram_pos h :
  h_nb h = [] -> nonneg_spans (h_pspans h) ->
  Forall (fun ic => idx_ok h (fst ic)) (expand (h_pspans h) (h_pb h) 0) ->
  (h_schema h =? custom_schema = true -> fgt (h_zc h) fzero = false) ->
  marshal_histogram fmt ebound h =
  Ok (render_hist (h_count h) (h_sum h) (filter nonempty4 (code_all h))).
Proof.
  intros Hnb Hss Hidx Hzc. unfold marshal_histogram, all_buckets.
  unfold rev_iter. rewrite Hnb. cbn [rev rnext_all mapM bind].
  rewrite fwd_iter_expand by auto.
  destruct (mapM_pos h _ Hidx) as (bl & Hm & Hb4). rewrite Hm.
  assert (Hz : (if fgt (h_zc h) fzero
                then if h_schema h =? custom_schema then Panic
                     else Ok [mkB (fnegate (h_zt h)) (h_zt h) true true (h_zc h)]
                else Ok []) =
               Ok (if fgt (h_zc h) fzero then [mkB (fnegate (h_zt h)) (h_zt h) true true (h_zc h)] else [])).
  { destruct (fgt (h_zc h) fzero) eqn:E; auto.
    destruct (h_schema h =? custom_schema) eqn:Ec; auto. specialize (Hzc eq_refl). discriminate Hzc. }
  rewrite Hz. cbn [bind app]. rewrite loop_false.
  unfold render_hist, code_all. rewrite map_app, Hb4.
  destruct (fgt (h_zc h) fzero); reflexivity.
Qed.
End Render.

(* with no negative buckets and a zero count that is not negative/NaN, what the code exposes is the
   specification's list of non-empty buckets *)
Lemma code_all_spec eb h : h_nb h = [] -> fgt (h_zc h) fzero = fne (h_zc h) fzero ->
  filter nonempty4 (code_all eb h) = spec_exposed eb h.
Proof.
  intros Hnb Hz. unfold spec_exposed, spec_all, code_all. rewrite Hnb, expand_nil, Hz. reflexivity.
Qed.

Theorem marshal_histogram_pos_spec fmt eb h :
  h_nb h = [] -> nonneg_spans (h_pspans h) ->
  Forall (fun ic => idx_ok eb h (fst ic)) (expand (h_pspans h) (h_pb h) 0) ->
  (h_schema h =? custom_schema = true -> fgt (h_zc h) fzero = false) ->
  fgt (h_zc h) fzero = fne (h_zc h) fzero ->
  marshal_histogram fmt eb h = Ok (render_hist fmt (h_count h) (h_sum h) (spec_exposed eb h)).
Proof.
  intros Hnb Hss Hidx Hc Hz. rewrite <- code_all_spec by auto. apply marshal_histogram_pos; auto.
Qed.

(* A histogram whose only non-empty bucket is a zero bucket with a NEGATIVE count (such counts arise
   from histogram subtraction): the iterator exposes the zero bucket only when ZeroCount > 0, so the
   JSON has no "buckets" member although the histogram has a non-empty bucket. *)
Definition neg_zero_hist : hist :=
  mkHist 0 4562254508917369340 13837309855095848960 13837309855095848960 0 [] [] [] [] [].

Lemma neg_zero_dropped : hist_valid neg_zero_hist = true /\
  forall fmt eb, marshal_histogram fmt eb neg_zero_hist
                 = Ok (render_hist fmt (h_count neg_zero_hist) (h_sum neg_zero_hist) [])
              /\ spec_exposed eb neg_zero_hist
                 = [(3, fnegate (h_zt neg_zero_hist), h_zt neg_zero_hist, h_zc neg_zero_hist)].
Proof.
  split; [vm_compute; reflexivity|]. intros fmt eb. split.
  - rewrite marshal_histogram_pos; try reflexivity; try constructor.
  - vm_compute. reflexivity.
Qed.

Example pos_hist_nonvacuous :
  let h := mkHist 0 0 4613937818241073152 0 0 [mkSpan 1 2] [] [4607182418800017408; 0] [] [] in
  let eb := fun (_ i : Z) => if i =? 0 then 4607182418800017408 else if i =? 1 then 4611686018427387904 else 4616189618054758400 in
  h_nb h = [] /\ nonneg_spans (h_pspans h) /\
  Forall (fun ic => idx_ok eb h (fst ic)) (expand (h_pspans h) (h_pb h) 0) /\
  fgt (h_zc h) fzero = fne (h_zc h) fzero /\
  spec_exposed eb h = [(3, 9223372036854775808, 0, 4613937818241073152); (0, 4607182418800017408, 4611686018427387904, 4607182418800017408)].
Proof.
  cbv zeta. split; [reflexivity|]. split; [repeat constructor; cbn; lia|].
  split; [|split; vm_compute; reflexivity].
  repeat constructor; vm_compute; reflexivity.
Qed.

(* proof/ApiJsonHistProofs.v — histogram part of C51: the forward bucket iterator enumerates exactly
   the expansion of the spans, MarshalHistogram's loop renders exactly the non-empty buckets. *)
From Coq Require Import List ZArith NArith Bool Lia String.
From Verif Require Import lib.Int64 model.ApiJson.
Import ListNotations.
Open Scope Z_scope.

Definition nonneg_spans (ss : list span) : Prop := Forall (fun s => 0 <= sp_len s) ss.

Lemma expand_nil ss next : expand ss [] next = [].
Proof.
  revert next. induction ss as [|s r IH]; intros next; simpl; auto.
  rewrite firstn_nil, skipn_nil, IH. reflexivity.
Qed.

(* what remains to be produced in state (current span s, idxInSpan, currIdx) *)
Definition remaining (s : span) (rest : list span) (idxIn cur : Z) (bs : list Z) : list (Z * Z) :=
  let k := Z.to_nat (sp_len s - idxIn) in
  zip_idx (cur + 1) (firstn k bs) ++ expand rest (skipn k bs) (cur + 1 + (sp_len s - idxIn)).

Definition Rstmt (bs : list Z) : Prop :=
  forall s rest idxIn cur, 0 <= idxIn <= sp_len s -> nonneg_spans rest ->
    fnext_all bs false (s :: rest) idxIn cur = remaining s rest idxIn cur bs.

Lemma fskip_unfold s rest idxIn cur :
  fskip s rest idxIn cur =
  if sp_len s <=? idxIn then
    match rest with [] => None | s' :: r' => fskip s' r' 0 (cur + sp_off s') end
  else Some (s, rest, idxIn, cur).
Proof. destruct rest; reflexivity. Qed.

Lemma fskip0 b bs' : Rstmt bs' -> forall r' s' c, 0 <= sp_len s' -> nonneg_spans r' ->
  match fskip s' r' 0 c with
  | None => []
  | Some (s2, rest2, i2, cur2) => (cur2, b) :: fnext_all bs' false (s2 :: rest2) (i2 + 1) cur2
  end = zip_idx c (firstn (Z.to_nat (sp_len s')) (b :: bs'))
        ++ expand r' (skipn (Z.to_nat (sp_len s')) (b :: bs')) (c + sp_len s').
Proof.
  intros HR r'. induction r' as [|s'' r'' IH]; intros s' c Hs' Hr'.
  - rewrite fskip_unfold. destruct (sp_len s' <=? 0) eqn:E.
    + apply Z.leb_le in E. assert (sp_len s' = 0) as -> by lia. reflexivity.
    + apply Z.leb_gt in E. rewrite HR; [|lia|constructor].
      unfold remaining. replace (Z.to_nat (sp_len s')) with (S (Z.to_nat (sp_len s' - 1))) by lia.
      cbn [firstn skipn zip_idx app]. repeat (f_equal; try lia).
  - rewrite fskip_unfold. destruct (sp_len s' <=? 0) eqn:E.
    + apply Z.leb_le in E. assert (Hz : sp_len s' = 0) by lia. rewrite Hz.
      inversion Hr' as [|? ? Hs'' Hr'']; subst.
      rewrite IH by auto. cbn [Z.to_nat firstn skipn zip_idx app expand].
      rewrite Z.add_0_r. reflexivity.
    + apply Z.leb_gt in E. rewrite HR; [|lia|auto].
      unfold remaining. replace (Z.to_nat (sp_len s')) with (S (Z.to_nat (sp_len s' - 1))) by lia.
      cbn [firstn skipn zip_idx app]. repeat (f_equal; try lia).
Qed.

Lemma R_all bs : Rstmt bs.
Proof.
  induction bs as [|b bs' IH]; intros s rest idxIn cur Hi Hrest.
  - unfold remaining. rewrite firstn_nil, skipn_nil, expand_nil. reflexivity.
  - cbn [fnext_all]. rewrite fskip_unfold. destruct (sp_len s <=? idxIn) eqn:E.
    + apply Z.leb_le in E. assert (Hk : sp_len s - idxIn = 0) by lia.
      unfold remaining. rewrite Hk. cbn [Z.to_nat firstn skipn zip_idx app].
      rewrite Z.add_0_r.
      destruct rest as [|s' r']; [reflexivity|].
      inversion Hrest as [|? ? Hs' Hr']; subst.
      rewrite (fskip0 b bs' IH r' s' (cur + 1 + sp_off s') Hs' Hr').
      cbn [expand]. reflexivity.
    + apply Z.leb_gt in E. rewrite IH; [|lia|auto].
      unfold remaining.
      replace (Z.to_nat (sp_len s - idxIn)) with (S (Z.to_nat (sp_len s - (idxIn + 1)))) by lia.
      cbn [firstn skipn zip_idx app]. repeat (f_equal; try lia).
Qed.

(* The forward iterator (floatBucketIterator.Next, fast path) enumerates exactly the expansion of
   the spans, for every span list with non-negative lengths — including empty spans, and
   bucket slices shorter or longer than the spans say. *)
Theorem fwd_iter_expand ss bs : nonneg_spans ss -> fwd_iter ss bs = expand ss bs 0.
Proof.
  intros Hss. unfold fwd_iter. destruct bs as [|b bs'].
  - rewrite expand_nil. reflexivity.
  - destruct ss as [|s rest]; [reflexivity|].
    inversion Hss as [|? ? Hs Hrest]; subst.
    cbn [fnext_all]. rewrite (fskip0 b bs' (R_all bs') rest s (sp_off s) Hs Hrest).
    cbn [expand]. reflexivity.
Qed.

(* ================================================================ float comparison facts *)
Lemma fgt_not_flt a : fgt a fzero = true -> flt a fzero = false.
Proof.
  unfold fgt, flt. change (fkey fzero) with 0. intros H. apply andb_true_iff in H as [H1 H2]. apply Z.ltb_lt in H2.
  destruct (negb (fnan a) && negb (fnan fzero)); cbn; auto. apply Z.ltb_ge. lia.
Qed.

Lemma flt_fgt_false a : flt a fzero && fgt a (fnegate fzero) = false.
Proof.
  unfold fgt, flt. change (fkey (fnegate fzero)) with 0. change (fkey fzero) with 0.
  destruct (fkey a <? 0) eqn:E1, (0 <? fkey a) eqn:E2; rewrite ?andb_false_r; auto.
  apply Z.ltb_lt in E1, E2. lia.
Qed.

Lemma fgt_flt_false a : fgt a fzero && flt a fzero = false.
Proof.
  unfold fgt, flt. change (fkey fzero) with 0.
  destruct (fkey a <? 0) eqn:E1, (0 <? fkey a) eqn:E2; rewrite ?andb_false_r; auto.
  apply Z.ltb_lt in E1, E2. lia.
Qed.

(* ================================================================ MarshalHistogram's loop *)
Section Render.
Variable fmt : Z -> fmtk -> bytes.
Variable ebound : Z -> Z -> Z.

Definition b4 (b : bucket) : Z * Z * Z * Z := (boundaries b, b_lo b, b_hi b, b_cnt b).
Definition render_bucket (q : Z * Z * Z * Z) : bytes :=
  let '(c, lo, hi, n) := q in
  [91%N] ++ write_int64 c ++ [44%N] ++ marshal_float fmt lo ++ [44%N]
         ++ marshal_float fmt hi ++ [44%N] ++ marshal_float fmt n ++ [93%N].
(* canonical rendering: {"count":"C","sum":"S"} or {"count":"C","sum":"S","buckets":[b,b,...]} *)
Definition render_buckets (l : list (Z * Z * Z * Z)) : bytes :=
  match l with
  | [] => []
  | q :: r => s2b ",""buckets"":[" ++ render_bucket q
              ++ List.concat (map (fun x => [44%N] ++ render_bucket x) r) ++ [93%N]
  end.
Definition render_hist (cnt sum : Z) (l : list (Z * Z * Z * Z)) : bytes :=
  s2b "{""count"":" ++ marshal_float fmt cnt ++ s2b ",""sum"":" ++ marshal_float fmt sum
  ++ render_buckets l ++ [125%N].

Definition nonempty4 (q : Z * Z * Z * Z) : bool := fne (snd q) fzero.

Lemma marshal_bucket_b4 b : marshal_bucket fmt b = render_bucket (b4 b).
Proof. reflexivity. Qed.

Lemma loop_true bs :
  marshal_buckets_loop fmt true bs =
  List.concat (map (fun x => [44%N] ++ render_bucket x) (filter nonempty4 (map b4 bs))) ++ [93%N].
Proof.
  induction bs as [|b bs IH]; [reflexivity|].
  cbn [marshal_buckets_loop map filter]. unfold nonempty4 at 1. cbn [snd b4]. unfold feq.
  destruct (fne (b_cnt b) fzero); cbn [negb].
  - rewrite IH. cbn [map List.concat]. rewrite marshal_bucket_b4. rewrite <- !app_assoc. reflexivity.
  - exact IH.
Qed.

Lemma loop_false bs :
  marshal_buckets_loop fmt false bs = render_buckets (filter nonempty4 (map b4 bs)).
Proof.
  induction bs as [|b bs IH]; [reflexivity|].
  cbn [marshal_buckets_loop map filter]. unfold nonempty4 at 1. cbn [snd b4]. unfold feq.
  destruct (fne (b_cnt b) fzero); cbn [negb].
  - rewrite loop_true. unfold render_buckets. rewrite marshal_bucket_b4.
    change (s2b ",""buckets"":[") with ([44%N] ++ s2b """buckets"":[").
    rewrite <- !app_assoc. reflexivity.
  - exact IH.
Qed.

(* ---------------------------------------------------------------- positive side, bucket by bucket *)
(* what the code needs of a bucket index: exponential schemas: the upper bound is positive and the
   lower bound is not negative (getBoundExponential is positive; an underflow to 0 is allowed for
   the lower bound only); custom buckets: index within the custom bounds and zero threshold +0 *)
Definition idx_ok (h : hist) (i : Z) : Prop :=
  if h_schema h =? custom_schema
  then 0 <= i <= Z.of_nat (List.length (h_custom h)) /\ h_zt h = 0
  else fgt (ebound (h_schema h) i) fzero = true /\ flt (ebound (h_schema h) (i - 1)) fzero = false.

Lemma custom_bound h i : h_schema h =? custom_schema = true ->
  -1 <= i <= Z.of_nat (List.length (h_custom h)) ->
  get_bound ebound h i = Ok (spec_bound ebound h i).
Proof.
  intros Hc Hi. unfold get_bound, spec_bound. rewrite Hc.
  set (len := Z.of_nat (List.length (h_custom h))) in *.
  replace ((len <? i) || (i <? -1)) with false.
  2:{ symmetry. apply orb_false_iff. split; [apply Z.ltb_ge|apply Z.ltb_ge]; lia. }
  destruct (i =? len) eqn:E1.
  - apply Z.eqb_eq in E1. replace (i <? 0) with false by (symmetry; apply Z.ltb_ge; lia).
    rewrite nth_overflow; auto. unfold len in E1. lia.
  - apply Z.eqb_neq in E1. destruct (i =? -1) eqn:E2.
    + apply Z.eqb_eq in E2. subst i. reflexivity.
    + apply Z.eqb_neq in E2. replace (i <? 0) with false by (symmetry; apply Z.ltb_ge; lia).
      destruct (nth_error (h_custom h) (Z.to_nat i)) eqn:En.
      * rewrite (nth_error_nth _ _ _ En). reflexivity.
      * apply nth_error_None in En. unfold len in *. lia.
Qed.

Lemma pos_bucket h ic : idx_ok h (fst ic) ->
  bind (bucket_at ebound h true ic) (fun b => Ok (clip h b)) = Ok (clip h (mkB (spec_bound ebound h (fst ic - 1)) (spec_bound ebound h (fst ic))
       (if h_schema h =? custom_schema then fst ic =? 0 else false) true (snd ic)))
  /\ b4 (clip h (mkB (spec_bound ebound h (fst ic - 1)) (spec_bound ebound h (fst ic))
       (if h_schema h =? custom_schema then fst ic =? 0 else false) true (snd ic))) = spec_pos ebound h ic.
Proof.
  destruct ic as [i c]. cbn [fst snd]. unfold idx_ok. intros Hok.
  destruct (h_schema h =? custom_schema) eqn:Hc.
  - destruct Hok as [Hi Hzt]. split.
    + unfold bucket_at. rewrite !custom_bound by (auto; lia). cbn [bind]. rewrite Hc. reflexivity.
    + unfold clip, spec_pos, b4. cbn [b_lo b_hi b_loinc b_hiinc b_cnt fst snd]. rewrite Hzt, Hc.
      change (fnegate 0) with (fnegate fzero). change 0 with fzero at 2 4.
      rewrite flt_fgt_false. rewrite !fgt_flt_false.
      cbn [b_lo b_hi b_loinc b_hiinc b_cnt boundaries andb]. unfold boundaries. cbn [b_loinc b_hiinc].
      destruct (i =? 0); reflexivity.
  - destruct Hok as [Hhi Hlo]. split.
    + unfold bucket_at, get_bound, spec_bound. rewrite Hc. cbn [bind]. rewrite Hhi, Hlo. reflexivity.
    + unfold clip, spec_pos, b4, spec_bound. rewrite Hc. cbn [b_lo b_hi b_loinc b_hiinc b_cnt fst snd andb].
      rewrite (fgt_not_flt _ Hhi). cbn [andb].
      destruct (fgt (ebound (h_schema h) (i - 1)) fzero && flt (ebound (h_schema h) (i - 1)) (h_zt h)); reflexivity.
Qed.

Lemma mapM_pos h l : Forall (fun ic => idx_ok h (fst ic)) l ->
  exists bl, mapM (fun ic => bind (bucket_at ebound h true ic) (fun b => Ok (clip h b))) l = Ok bl
             /\ map b4 bl = map (spec_pos ebound h) l.
Proof.
  induction 1 as [|ic l Hic Hl (bl & IH1 & IH2)].
  - exists []. auto.
  - destruct (pos_bucket h ic Hic) as [H1 H2]. eexists (_ :: bl). split.
    + cbn [mapM]. rewrite H1. cbn [bind]. rewrite IH1. reflexivity.
    + cbn [map]. rewrite H2, IH2. reflexivity.
Qed.

(* the zero bucket as the code exposes it: only when ZeroCount > 0 *)
Definition code_all (h : hist) : list (Z * Z * Z * Z) :=
  (if fgt (h_zc h) fzero then [(3, fnegate (h_zt h), h_zt h, h_zc h)] else [])
  ++ map (spec_pos ebound h) (expand (h_pspans h) (h_pb h) 0).

(* MarshalHistogram on a histogram without negative buckets: the bytes are the canonical rendering
   of count, sum and exactly the non-empty buckets of the expansion of the spans, each with the
   boundaries and the inclusiveness code of its index. *)
Theorem marshal_histogram_pos h :
  h_nb h = [] -> nonneg_spans (h_pspans h) ->
  Forall (fun ic => idx_ok h (fst ic)) (expand (h_pspans h) (h_pb h) 0) ->
  (h_schema h =? custom_schema = true -> fgt (h_zc h) fzero = false) ->
  marshal_histogram fmt ebound h =
  Ok (render_hist (h_count h) (h_sum h) (filter nonempty4 (code_all h))).
Proof.
  intros Hnb Hss Hidx Hzc. unfold marshal_histogram, all_buckets.
  unfold rev_iter. rewrite Hnb. cbn [rev rnext_all mapM bind].
  rewrite fwd_iter_expand by auto.
  destruct (mapM_pos h _ Hidx) as (bl & Hm & Hb4). rewrite Hm.
  assert (Hz : (if fgt (h_zc h) fzero
                then if h_schema h =? custom_schema then Panic
                     else Ok [mkB (fnegate (h_zt h)) (h_zt h) true true (h_zc h)]
                else Ok []) =
               Ok (if fgt (h_zc h) fzero then [mkB (fnegate (h_zt h)) (h_zt h) true true (h_zc h)] else [])).
  { destruct (fgt (h_zc h) fzero) eqn:E; auto.
    destruct (h_schema h =? custom_schema) eqn:Ec; auto. specialize (Hzc eq_refl). discriminate Hzc. }
  rewrite Hz. cbn [bind app]. rewrite loop_false.
  unfold render_hist, code_all. rewrite map_app, Hb4.
  destruct (fgt (h_zc h) fzero); reflexivity.
Qed.
End Render.

(* with no negative buckets and a zero count that is not negative/NaN, what the code exposes is the
   specification's list of non-empty buckets *)
Lemma code_all_spec eb h : h_nb h = [] -> fgt (h_zc h) fzero = fne (h_zc h) fzero ->
  filter nonempty4 (code_all eb h) = spec_exposed eb h.
Proof.
  intros Hnb Hz. unfold spec_exposed, spec_all, code_all. rewrite Hnb, expand_nil, Hz. reflexivity.
Qed.

Theorem marshal_histogram_pos_spec fmt eb h :
  h_nb h = [] -> nonneg_spans (h_pspans h) ->
  Forall (fun ic => idx_ok eb h (fst ic)) (expand (h_pspans h) (h_pb h) 0) ->
  (h_schema h =? custom_schema = true -> fgt (h_zc h) fzero = false) ->
  fgt (h_zc h) fzero = fne (h_zc h) fzero ->
  marshal_histogram fmt eb h = Ok (render_hist fmt (h_count h) (h_sum h) (spec_exposed eb h)).
Proof.
  intros Hnb Hss Hidx Hc Hz. rewrite <- code_all_spec by auto. apply marshal_histogram_pos; auto.
Qed.

(* A histogram whose only non-empty bucket is a zero bucket with a NEGATIVE count (such counts arise
   from histogram subtraction): the iterator exposes the zero bucket only when ZeroCount > 0, so the
   JSON has no "buckets" member although the histogram has a non-empty bucket. *)
Definition neg_zero_hist : hist :=
  mkHist 0 4562254508917369340 13837309855095848960 13837309855095848960 0 [] [] [] [] [].

Lemma neg_zero_dropped : hist_valid neg_zero_hist = true /\
  forall fmt eb, marshal_histogram fmt eb neg_zero_hist
                 = Ok (render_hist fmt (h_count neg_zero_hist) (h_sum neg_zero_hist) [])
              /\ spec_exposed eb neg_zero_hist
                 = [(3, fnegate (h_zt neg_zero_hist), h_zt neg_zero_hist, h_zc neg_zero_hist)].
Proof.
  split; [vm_compute; reflexivity|]. intros fmt eb. split.
  - rewrite marshal_histogram_pos; try reflexivity; try constructor.
  - vm_compute. reflexivity.
Qed.

Example pos_hist_nonvacuous :
  let h := mkHist 0 0 4613937818241073152 0 0 [mkSpan 1 2] [] [4607182418800017408; 0] [] [] in
  let eb := fun (_ i : Z) => if i =? 0 then 4607182418800017408 else if i =? 1 then 4611686018427387904 else 4616189618054758400 in
  h_nb h = [] /\ nonneg_spans (h_pspans h) /\
  Forall (fun ic => idx_ok eb h (fst ic)) (expand (h_pspans h) (h_pb h) 0) /\
  fgt (h_zc h) fzero = fne (h_zc h) fzero /\
  spec_exposed eb h = [(3, 9223372036854775808, 0, 4613937818241073152); (0, 4607182418800017408, 4611686018427387904, 4607182418800017408)].
Proof.
  cbv zeta. split; [reflexivity|]. split; [repeat constructor; cbn; lia|].
  split; [|split; vm_compute; reflexivity].
  repeat constructor; vm_compute; reflexivity.
Qed.

(* ================================================================ reverse iterator *)
Fixpoint zip_down (i : Z) (cs : list Z) : list (Z * Z) :=
  match cs with [] => [] | c :: r => (i, c) :: zip_down (i - 1) r end.
(* descending expansion: rs/rb are the spans/buckets reversed, e = one past the last index of the head span *)
Fixpoint rexpand (rs : list span) (rb : list Z) (e : Z) : list (Z * Z) :=
  match rs with
  | [] => []
  | s :: r => let n := Z.to_nat (sp_len s) in
              zip_down (e - 1) (firstn n rb) ++ rexpand r (skipn n rb) (e - sp_len s - sp_off s)
  end.

Lemma rexpand_nil rs e : rexpand rs [] e = [].
Proof.
  revert e. induction rs as [|s r IH]; intros e; simpl; auto.
  rewrite firstn_nil, skipn_nil, IH. reflexivity.
Qed.

Definition rremaining (s : span) (earlier : list span) (idxIn cur : Z) (rb : list Z) : list (Z * Z) :=
  let k := Z.to_nat (idxIn + 1) in
  zip_down (cur - 1) (firstn k rb) ++ rexpand earlier (skipn k rb) (cur - (idxIn + 1) - sp_off s).

Definition RRstmt (rb : list Z) : Prop :=
  forall s earlier idxIn cur, -1 <= idxIn -> nonneg_spans earlier ->
    rnext_all rb (s :: earlier) idxIn cur = rremaining s earlier idxIn cur rb.

Lemma rskip_unfold rs idxIn cur :
  rskip rs idxIn cur =
  if idxIn <? 0 then
    match rs with
    | [] => None
    | s :: rs' => match rs' with [] => None | s' :: _ => rskip rs' (sp_len s' - 1) (cur - sp_off s) end
    end
  else Some (rs, idxIn, cur).
Proof. destruct rs; reflexivity. Qed.

Lemma rskip0 b rb' : RRstmt rb' -> forall earlier s c, nonneg_spans earlier ->
  match rskip (s :: earlier) (-1) c with
  | None => []
  | Some (rs2, i2, cur2) => (cur2, b) :: rnext_all rb' rs2 (i2 - 1) cur2
  end = rexpand earlier (b :: rb') (c + 1 - sp_off s).
Proof.
  intros HR earlier. induction earlier as [|s' r'' IH]; intros s c Hn.
  - reflexivity.
  - rewrite rskip_unfold. change (-1 <? 0) with true. cbn iota.
    inversion Hn as [|? ? Hs' Hr'']; subst.
    rewrite rskip_unfold. destruct (sp_len s' - 1 <? 0) eqn:E.
    + apply Z.ltb_lt in E. assert (Hz : sp_len s' = 0) by lia.
      specialize (IH s' (c - sp_off s) Hr''). rewrite rskip_unfold in IH.
      change (-1 <? 0) with true in IH. cbn iota in IH. cbn iota.
      rewrite IH. cbn [rexpand]. rewrite Hz. change (Z.to_nat 0) with 0%nat.
      cbn [firstn skipn zip_down app]. f_equal. lia.
    + apply Z.ltb_ge in E. rewrite HR; [|lia|auto].
      unfold rremaining. cbn [rexpand].
      replace (Z.to_nat (sp_len s')) with (S (Z.to_nat (sp_len s' - 1 - 1 + 1))) by lia.
      cbn [firstn skipn zip_down app].
      repeat (f_equal; try lia).
Qed.

Lemma RR_all rb : RRstmt rb.
Proof.
  induction rb as [|b rb' IH]; intros s earlier idxIn cur Hi Hn.
  - unfold rremaining. rewrite firstn_nil, skipn_nil, rexpand_nil. reflexivity.
  - cbn [rnext_all]. destruct (idxIn <? 0) eqn:E.
    + apply Z.ltb_lt in E. assert (idxIn = -1) as -> by lia.
      rewrite (rskip0 b rb' IH earlier s (cur - 1) Hn).
      unfold rremaining. change (Z.to_nat (-1 + 1)) with 0%nat. cbn [firstn skipn zip_down app].
      f_equal. lia.
    + rewrite rskip_unfold, E. apply Z.ltb_ge in E. rewrite IH; [|lia|auto].
      unfold rremaining.
      replace (Z.to_nat (idxIn + 1)) with (S (Z.to_nat (idxIn - 1 + 1))) by lia.
      cbn [firstn skipn zip_down app]. repeat (f_equal; try lia).
Qed.

Definition endidx (ss : list span) (next : Z) : Z := fold_left (fun a s => a + sp_off s + sp_len s) ss next.

(* the reverse iterator enumerates the descending expansion *)
Lemma rev_iter_rexpand ss bs : nonneg_spans ss -> (ss = [] -> bs = []) ->
  rev_iter ss bs = rexpand (rev ss) (rev bs) (endidx ss 0).
Proof.
  intros Hn He. unfold rev_iter. fold (endidx ss 0).
  destruct (rev ss) as [|s earlier] eqn:Er.
  - assert (ss = []) by (destruct ss; auto; apply (f_equal (@List.length _)) in Er; rewrite rev_length in Er; discriminate).
    rewrite (He H). reflexivity.
  - rewrite RR_all.
    + unfold rremaining. cbn [rexpand]. replace (sp_len s - 1 + 1) with (sp_len s) by lia. reflexivity.
    + assert (In s ss) by (apply in_rev; rewrite Er; left; auto).
      unfold nonneg_spans in Hn. rewrite Forall_forall in Hn. specialize (Hn s H). lia.
    + unfold nonneg_spans in *. rewrite Forall_forall in *. intros x Hx. apply Hn. apply in_rev. rewrite Er. right. auto.
Qed.

(* ---------------------------------------------------------------- descending = reverse of ascending *)
Definition tot (ss : list span) : nat := fold_right (fun s a => (Z.to_nat (sp_len s) + a)%nat) 0%nat ss.
Definition width (ss : list span) : Z := fold_right (fun s a => sp_off s + sp_len s + a) 0 ss.

Lemma tot_app a b : tot (a ++ b) = (tot a + tot b)%nat.
Proof. induction a; simpl; auto. rewrite IHa. lia. Qed.
Lemma tot_rev a : tot (rev a) = tot a.
Proof. induction a; simpl; auto. rewrite tot_app, IHa. simpl. lia. Qed.
Lemma width_app a b : width (a ++ b) = width a + width b.
Proof. induction a; simpl; auto. rewrite IHa. lia. Qed.
Lemma width_rev a : width (rev a) = width a.
Proof. induction a; simpl; auto. rewrite width_app, IHa. simpl. lia. Qed.
Lemma endidx_width ss next : endidx ss next = next + width ss.
Proof.
  unfold endidx. revert next. induction ss as [|s r IH]; intros next; simpl; [lia|].
  rewrite IH. lia.
Qed.

Lemma zip_down_app a b i : zip_down i (a ++ b) = zip_down i a ++ zip_down (i - Z.of_nat (List.length a)) b.
Proof.
  revert i. induction a as [|c a IH]; intros i; simpl zip_down; simpl app.
  - f_equal. simpl. lia.
  - rewrite IH. simpl List.length. do 3 f_equal. lia.
Qed.

Lemma zip_down_rev l st : zip_down (st + Z.of_nat (List.length l) - 1) (rev l) = rev (zip_idx st l).
Proof.
  revert st. induction l as [|c l IH]; intros st; [reflexivity|].
  simpl rev. simpl zip_idx. simpl rev. rewrite zip_down_app, rev_length.
  simpl List.length. rewrite <- IH. simpl zip_down.
  f_equal; [f_equal; lia|]. do 2 f_equal. lia.
Qed.

Lemma skipn_skipn' {A} x y (l : list A) : skipn x (skipn y l) = skipn (y + x) l.
Proof.
  revert l. induction y as [|y IH]; intros l; [reflexivity|].
  destruct l; [simpl; apply skipn_nil|]. simpl. apply IH.
Qed.

Lemma rexpand_app a b rb e :
  rexpand (a ++ b) rb e = rexpand a rb e ++ rexpand b (skipn (tot a) rb) (e - width a).
Proof.
  revert rb e. induction a as [|s a IH]; intros rb e.
  - simpl. f_equal. lia.
  - simpl app. cbn [rexpand tot width fold_right]. rewrite IH, <- app_assoc.
    rewrite skipn_skipn'. fold (tot a). do 3 f_equal; lia.
Qed.

Lemma rexpand_prefix a x y e : List.length x = tot a -> rexpand a (x ++ y) e = rexpand a x e.
Proof.
  revert x e. induction a as [|s a IH]; intros x e Hl; [reflexivity|].
  cbn [rexpand]. cbn [tot fold_right] in Hl. fold (tot a) in Hl.
  set (n := Z.to_nat (sp_len s)) in *.
  rewrite firstn_app, skipn_app.
  replace (n - List.length x)%nat with 0%nat by lia. cbn [firstn skipn]. rewrite app_nil_r.
  rewrite IH; auto. rewrite skipn_length. lia.
Qed.

Theorem rexpand_rev_expand ss : nonneg_spans ss -> forall bs next, List.length bs = tot ss ->
  rexpand (rev ss) (rev bs) (endidx ss next) = rev (expand ss bs next).
Proof.
  induction 1 as [|s r Hs Hr IH]; intros bs next Hl.
  - destruct bs; [reflexivity|discriminate].
  - cbn [tot fold_right] in Hl. fold (tot r) in Hl.
    set (n := Z.to_nat (sp_len s)) in *.
    cbn [expand]. fold n.
    set (x1 := firstn n bs). set (x2 := skipn n bs).
    assert (Hx1 : List.length x1 = n) by (unfold x1; rewrite firstn_length; lia).
    assert (Hx2 : List.length x2 = tot r) by (unfold x2; rewrite skipn_length; lia).
    assert (Hbs : bs = x1 ++ x2) by (unfold x1, x2; symmetry; apply firstn_skipn).
    rewrite rev_app_distr.
    assert (Hrev : rev bs = rev x2 ++ rev x1) by (rewrite Hbs; apply rev_app_distr).
    rewrite Hrev.
    cbn [rev]. rewrite rexpand_app, tot_rev, width_rev.
    rewrite rexpand_prefix by (rewrite rev_length, tot_rev; auto).
    replace (endidx (s :: r) next) with (endidx r (next + sp_off s + sp_len s)) by reflexivity.
    rewrite IH by auto. f_equal.
    rewrite skipn_app, rev_length, Hx2. rewrite skipn_all2 by (rewrite rev_length; lia).
    replace (tot r - tot r)%nat with 0%nat by lia. cbn [skipn app].
    cbn [rexpand]. fold n. rewrite firstn_all2 by (rewrite rev_length; lia).
    cbn [skipn]. rewrite app_nil_r. rewrite endidx_width.
    rewrite <- zip_down_rev. rewrite Hx1. f_equal. unfold n. lia.
Qed.

Lemma spans_ok_tot ss bs : spans_ok ss bs = true -> nonneg_spans ss /\ List.length bs = tot ss.
Proof.
  unfold spans_ok. intros H. apply andb_true_iff in H as [H1 H2].
  rewrite forallb_forall in H1. apply Z.eqb_eq in H2.
  assert (Hn : nonneg_spans ss).
  { unfold nonneg_spans. rewrite Forall_forall. intros s Hs. apply Z.leb_le. auto. }
  split; auto.
  assert (Hg : forall ss a, nonneg_spans ss -> fold_left (fun a s => a + sp_len s) ss a = a + Z.of_nat (tot ss)).
  { clear. induction ss as [|s r IH]; intros a Hn; simpl; [lia|].
    inversion Hn; subst. rewrite IH by auto. fold (tot r). lia. }
  rewrite Hg in H2 by auto. lia.
Qed.

(* The reverse iterator (reverseFloatBucketIterator) over a valid span/bucket layout enumerates the
   expansion of the spans in reverse order. *)
Theorem rev_iter_expand ss bs : spans_ok ss bs = true -> rev_iter ss bs = rev (expand ss bs 0).
Proof.
  intros H. destruct (spans_ok_tot ss bs H) as [Hn Hl].
  rewrite rev_iter_rexpand; auto.
  - apply rexpand_rev_expand; auto.
  - intros ->. destruct bs; auto. discriminate.
Qed.


(* ================================================================ negative side and the full statement *)
Ltac Zify.zify_post_hook ::= Z.div_mod_to_equations.

Definition bits64 (x : Z) : Prop := 0 <= x < 18446744073709551616.

Lemma fneg_facts x : bits64 x -> fkey (fnegate x) = - fkey x /\ fabs (fnegate x) = fabs x.
Proof.
  unfold bits64. intros H. unfold fkey, fnegate, fsign, fabs, two63.
  destruct (9223372036854775808 <=? x) eqn:E; [apply Z.leb_le in E | apply Z.leb_gt in E].
  - replace (9223372036854775808 <=? x - 9223372036854775808) with false by (symmetry; apply Z.leb_gt; lia).
    split; lia.
  - replace (9223372036854775808 <=? x + 9223372036854775808) with true by (symmetry; apply Z.leb_le; lia).
    split; lia.
Qed.

Lemma fnan_fnegate x : bits64 x -> fnan (fnegate x) = fnan x.
Proof. intros H. unfold fnan. destruct (fneg_facts x H) as [_ ->]. reflexivity. Qed.

Lemma flt_neg_of_fgt x : bits64 x -> fgt x fzero = true -> flt (fnegate x) fzero = true.
Proof.
  intros Hb. unfold fgt, flt. rewrite (fnan_fnegate x Hb). destruct (fneg_facts x Hb) as [-> _].
  change (fkey fzero) with 0. intros H. apply andb_true_iff in H as [H1 H2]. apply andb_true_iff in H1 as [H0 Hx].
  rewrite H0, Hx. cbn [andb]. apply Z.ltb_lt in H2. apply Z.ltb_lt. lia.
Qed.

Lemma fgt_neg_of_not_flt x : bits64 x -> flt x fzero = false -> fgt (fnegate x) fzero = false.
Proof.
  intros Hb. unfold fgt, flt. rewrite (fnan_fnegate x Hb). destruct (fneg_facts x Hb) as [-> _].
  change (fkey fzero) with 0. change (fnan fzero) with false. cbn [negb].
  destruct (negb (fnan x)); cbn [andb]; auto.
  intros H. apply Z.ltb_ge in H. apply Z.ltb_ge. lia.
Qed.

Lemma flt_not_fgt a : flt a fzero = true -> fgt a fzero = false.
Proof.
  unfold fgt, flt. change (fkey fzero) with 0. intros H. apply andb_true_iff in H as [H1 H2]. apply Z.ltb_lt in H2.
  destruct (negb (fnan fzero) && negb (fnan a)); cbn; auto. apply Z.ltb_ge. lia.
Qed.

Section Full.
Variable fmt : Z -> fmtk -> bytes.
Variable ebound : Z -> Z -> Z.

(* oracle condition for an index on the negative side (exponential schemas only) *)
Definition idxn_ok (h : hist) (i : Z) : Prop :=
  bits64 (ebound (h_schema h) i) /\ bits64 (ebound (h_schema h) (i - 1)) /\
  fgt (ebound (h_schema h) i) fzero = true /\ flt (ebound (h_schema h) (i - 1)) fzero = false.

Lemma neg_bucket h ic : h_schema h =? custom_schema = false -> idxn_ok h (fst ic) ->
  exists b, bind (bucket_at ebound h false ic) (fun b => Ok (clip h b)) = Ok b /\ b4 b = spec_neg ebound h ic.
Proof.
  destruct ic as [i c]. cbn [fst]. intros Hc (Hb1 & Hb0 & Hhi & Hlo).
  eexists. split.
  - unfold bucket_at, get_bound. rewrite Hc. cbn [bind].
    rewrite (flt_neg_of_fgt _ Hb1 Hhi), (fgt_neg_of_not_flt _ Hb0 Hlo). reflexivity.
  - unfold clip, spec_neg, b4, spec_bound. rewrite Hc. cbn [b_lo b_hi b_loinc b_hiinc b_cnt fst snd].
    destruct (flt (fnegate (ebound (h_schema h) (i - 1))) fzero &&
              fgt (fnegate (ebound (h_schema h) (i - 1))) (fnegate (h_zt h))); [reflexivity|].
    rewrite (flt_not_fgt _ (flt_neg_of_fgt _ Hb1 Hhi)). reflexivity.
Qed.

Lemma mapM_neg h l : h_schema h =? custom_schema = false -> Forall (fun ic => idxn_ok h (fst ic)) l ->
  exists bl, mapM (fun ic => bind (bucket_at ebound h false ic) (fun b => Ok (clip h b))) l = Ok bl
             /\ map b4 bl = map (spec_neg ebound h) l.
Proof.
  intros Hc. induction 1 as [|ic l Hic Hl (bl & IH1 & IH2)].
  - exists []. auto.
  - destruct (neg_bucket h ic Hc Hic) as (b & H1 & H2). exists (b :: bl). split.
    + cbn [mapM]. rewrite H1. cbn [bind]. rewrite IH1. reflexivity.
    + cbn [map]. rewrite H2, IH2. reflexivity.
Qed.

(* MarshalHistogram on any valid exponential-schema histogram: the bytes are the canonical rendering
   of count, sum and exactly the specification's non-empty buckets. *)
Theorem marshal_histogram_exp h :
  h_schema h =? custom_schema = false ->
  spans_ok (h_nspans h) (h_nb h) = true -> nonneg_spans (h_pspans h) ->
  Forall (fun ic => idxn_ok h (fst ic)) (expand (h_nspans h) (h_nb h) 0) ->
  Forall (fun ic => idx_ok ebound h (fst ic)) (expand (h_pspans h) (h_pb h) 0) ->
  fgt (h_zc h) fzero = fne (h_zc h) fzero ->
  marshal_histogram fmt ebound h = Ok (render_hist fmt (h_count h) (h_sum h) (spec_exposed ebound h)).
Proof.
  intros Hc Hns Hps Hn Hp Hz. unfold marshal_histogram, all_buckets.
  rewrite rev_iter_expand by auto. rewrite fwd_iter_expand by auto.
  destruct (mapM_neg h (rev (expand (h_nspans h) (h_nb h) 0)) Hc) as (nl & Hnm & Hn4).
  { apply Forall_rev. exact Hn. }
  destruct (mapM_pos ebound h _ Hp) as (pl & Hpm & Hp4).
  rewrite Hnm, Hpm, Hc. cbn [bind].
  assert (Hzz : (if fgt (h_zc h) fzero then Ok [mkB (fnegate (h_zt h)) (h_zt h) true true (h_zc h)] else Ok [])
                = Ok (if fgt (h_zc h) fzero then [mkB (fnegate (h_zt h)) (h_zt h) true true (h_zc h)] else []))
    by (destruct (fgt (h_zc h) fzero); reflexivity).
  rewrite Hzz. cbn [bind]. rewrite loop_false.
  unfold render_hist, spec_exposed, spec_all. rewrite !map_app, Hn4, Hp4, <- Hz.
  destruct (fgt (h_zc h) fzero); reflexivity.
Qed.
End Full.

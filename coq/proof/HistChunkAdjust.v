(* proof/HistChunkAdjust.v — adjustForInserts, and the theorem about the counter path's
   expandIntSpansAndBuckets / expandFloatSpansAndBuckets at the level of spans. *)
From Coq Require Import List ZArith Bool Lia.
From Verif Require Import model.HistChunk proof.HistChunkProofs proof.HistChunkIns
  proof.HistChunkDelta proof.HistChunkMaps proof.HistChunkCounter.
Import ListNotations.
Open Scope Z_scope.

(* strictly increasing lists are determined by their elements *)
Lemma incr_ext l1 : forall lo l2, incr lo l1 -> incr lo l2 -> (forall x, In x l1 <-> In x l2) -> l1 = l2.
Proof.
  induction l1 as [|x r IH]; intros lo l2 H1 H2 Hiff.
  - destruct l2 as [|y s]; [reflexivity|]. exfalso. apply (proj2 (Hiff y)). now left.
  - destruct l2 as [|y s]; [exfalso; apply (proj1 (Hiff x)); now left|].
    destruct H1 as [Hx Hr], H2 as [Hy Hs].
    assert (x = y).
    { destruct (proj1 (Hiff x) (or_introl eq_refl)) as [E|Hin]; [congruence|].
      destruct (proj2 (Hiff y) (or_introl eq_refl)) as [E|Hin']; [congruence|].
      pose proof (incr_In _ _ _ Hs Hin). pose proof (incr_In _ _ _ Hr Hin'). lia. }
    subst y. f_equal. apply (IH x); auto. intros z. split; intros Hz.
    + destruct (proj1 (Hiff z) (or_intror Hz)) as [E|]; [|assumption].
      pose proof (incr_In _ _ _ Hr Hz). lia.
    + destruct (proj2 (Hiff z) (or_intror Hz)) as [E|]; [|assumption].
      pose proof (incr_In _ _ _ Hs Hz). lia.
Qed.

(* the merge loop of adjustForInserts: sorted union of two disjoint increasing streams *)
Lemma adj_merge_spec fuel : forall l j lo,
  incr lo l -> incr lo j -> (forall x, In x j -> ~ In x l) -> (length l + length j < fuel)%nat ->
  exists r, adj_merge fuel l j = Ok r /\ incr lo r /\ forall x, In x r <-> In x l \/ In x j.
Proof.
  induction fuel as [|f IH]; intros l j lo Hl Hj Hd Hlen; [lia|].
  destruct l as [|b l']; destruct j as [|x j']; cbn [adj_merge].
  - exists []. repeat split; auto; simpl; tauto.
  - destruct Hj as [Hj1 Hj2].
    destruct (IH [] j' x I Hj2 (fun _ _ H => H) ltac:(simpl in *; lia)) as (r & E & Ir & Mr).
    rewrite E. cbn [bind]. exists (x :: r). repeat split; auto.
    + simpl. intros [->|H]; [right; now left|]. apply Mr in H. simpl in H. tauto.
    + simpl. intros [[]|[->|H]]; [now left|]. right. apply Mr. now right.
  - destruct Hl as [Hl1 Hl2].
    destruct (IH l' [] b Hl2 I (fun _ H => match H with end) ltac:(simpl in *; lia)) as (r & E & Ir & Mr).
    rewrite E. cbn [bind]. exists (b :: r). repeat split; auto.
    + simpl. intros [->|H]; [left; now left|]. apply Mr in H. simpl in H. tauto.
    + simpl. intros [[->|H]|[]]; [now left|]. right. apply Mr. now left.
  - destruct Hl as [Hl1 Hl2], Hj as [Hj1 Hj2].
    destruct (Z.ltb_spec x b) as [Hlt|Hge].
    + destruct (IH (b :: l') j' x) as (r & E & Ir & Mr).
      * simpl. auto. * assumption.
      * intros z Hz. apply Hd. now right.
      * simpl in *. lia.
      * rewrite E. cbn [bind]. exists (x :: r). repeat split; auto.
        -- simpl. intros [->|H]; [right; now left|]. apply Mr in H. simpl in H. tauto.
        -- simpl. intros [[->|H]|[->|H]]; [right; apply Mr; left; now left|right; apply Mr; left; now right|now left|right; apply Mr; now right].
    + assert (Hne : x <> b) by (intros ->; apply (Hd b); now left).
      destruct (IH l' (x :: j') b) as (r & E & Ir & Mr).
      * assumption. * simpl. split; [lia|assumption].
      * intros z Hz Hin. apply (Hd z Hz). now right.
      * simpl in *. lia.
      * rewrite E. cbn [bind]. exists (b :: r). repeat split; auto.
        -- simpl. intros [->|H]; [left; now left|]. apply Mr in H. simpl in H. tauto.
        -- simpl. intros [[->|H]|[->|H]]; [now left|right; apply Mr; now left|right; apply Mr; right; now left|right; apply Mr; right; now right].
Qed.

Lemma zip_counts_ok ix : forall cs, (length ix <= length cs)%nat ->
  exists r, zip_counts ix cs = Ok r /\ map fst r = ix.
Proof.
  induction ix as [|i ix IH]; intros cs H; [exists []; destruct cs; auto|].
  destruct cs as [|c cs]; [simpl in H; lia|]. destruct (IH cs ltac:(simpl in H; lia)) as (r & E & Er).
  cbn [zip_counts]. rewrite E. cbn [bind]. exists ((i, c) :: r). simpl. now rewrite Er.
Qed.

Lemma existsb_num_false P : Forall (fun y => 1 <= i_num y) P -> existsb (fun x => i_num x <=? 0) P = false.
Proof.
  induction 1 as [|y P Hy _ IH]; [reflexivity|]. simpl. rewrite IH.
  destruct (Z.leb_spec (i_num y) 0); [lia|reflexivity].
Qed.

(* adjustForInserts(b's spans, backward inserts) yields spans for exactly the widened layout *)
Lemma adjust_correct lo b Bk M :
  wf_spans b -> incr lo (idxs b) -> incr lo M ->
  side lo (mkIns 0 0 0) Bk M (idxs b) ->
  exists sp, adjust_for_inserts b Bk = Ok sp /\ idxs sp = M /\ count_spans sp = Z.of_nat (length M).
Proof.
  intros Hb Hib HM (_ & _ & _ & E1 & _ & N1 & O & EO & IO & MO & DO). cbn [i_bidx i_num] in EO.
  rewrite zseq_zero in EO. cbn [app] in EO.
  unfold adjust_for_inserts. destruct Bk as [|y Bk'].
  - exists b. split; [reflexivity|]. rewrite (E1 eq_refl). split; [reflexivity|].
    symmetry. apply idxs_from_length, wf_spans_len, Hb.
  - rewrite (existsb_num_false _ N1). rewrite EO.
    destruct (adj_merge_spec (S (length (idxs b) + length O)) (idxs b) O lo Hib IO DO ltac:(lia)) as (r & E & Ir & Mr).
    rewrite E. cbn [bind]. exists (spans_of r).
    assert (r = M). { apply (incr_ext r lo M Ir HM). intros x. rewrite Mr, MO. tauto. }
    subst r. split; [reflexivity|]. split; [apply idxs_spans_of|apply count_spans_of].
Qed.

(* C11_bucket_map_preserved, counter path.  Whenever expandIntSpansAndBuckets /
   expandFloatSpansAndBuckets answers "ok" for chunk layout a (with its last bucket values ab)
   and a new sample with layout b (values bb), there is ONE widened index list M such that
   - M = a's buckets if there are no forward inserts, M = b's buckets if there are no backward
     inserts, and adjustForInserts(b, backward) yields spans for exactly M (so in every branch
     of AppendHistogram the spans given to recode / recodeHistogram enumerate M);
   - the forward inserts widen ANY bucket slice laid out on a (every stored sample) to M and the
     backward inserts ANY slice laid out on b (the new sample), for delta and absolute encodings,
     filling the output exactly and preserving the absolute bucket map. *)
Theorem expand_counts_correct k a b ab bb F Bk :
  wf_spans a -> wf_spans b ->
  expand_counts k a b ab bb = Ok (Some (F, Bk)) ->
  exists M,
    (exists lo, incr lo M) /\ incl (idxs a) M /\ incl (idxs b) M /\
    (F = [] -> M = idxs a) /\ (Bk = [] -> M = idxs b) /\
    (exists sp, adjust_for_inserts b Bk = Ok sp /\ idxs sp = M /\ count_spans sp = Z.of_nat (length M)) /\
    (forall k' buckets, Z.of_nat (length buckets) = count_spans a ->
       exists out, insert_go (is_deltas k') buckets F (Z.of_nat (length M)) = Ok out /\
                   length out = length M /\
                   forall i, lookup i (combine M (abs_counts k' out)) = lookup i (bucket_alist k' a buckets)) /\
    (forall k' buckets, Z.of_nat (length buckets) = count_spans b ->
       exists out, insert_go (is_deltas k') buckets Bk (Z.of_nat (length M)) = Ok out /\
                   length out = length M /\
                   forall i, lookup i (combine M (abs_counts k' out)) = lookup i (bucket_alist k' b buckets)).
Proof.
  intros Ha Hb H. unfold expand_counts in H.
  destruct (zip_counts (idxs a) (abs_counts k ab)) as [A| |] eqn:EA; cbn [bind] in H; try discriminate.
  destruct (zip_counts (idxs b) (abs_counts k bb)) as [B| |] eqn:EB; cbn [bind] in H; try discriminate.
  assert (FA : map fst A = idxs a).
  { clear -EA. revert A EA. generalize (abs_counts k ab). induction (idxs a) as [|i ix IH]; intros cs A E.
    - destruct cs; inversion E; reflexivity.
    - destruct cs as [|c cs]; [discriminate|]. cbn [zip_counts] in E.
      destruct (zip_counts ix cs) eqn:E'; cbn [bind] in E; try discriminate. inversion E; subst. simpl. f_equal. eauto. }
  assert (FB : map fst B = idxs b).
  { clear -EB. revert B EB. generalize (abs_counts k bb). induction (idxs b) as [|i ix IH]; intros cs B E.
    - destruct cs; inversion E; reflexivity.
    - destruct cs as [|c cs]; [discriminate|]. cbn [zip_counts] in E.
      destruct (zip_counts ix cs) eqn:E'; cbn [bind] in E; try discriminate. inversion E; subst. simpl. f_equal. eauto. }
  destruct (idxs_incr a Ha) as [la Hia], (idxs_incr b Hb) as [lb Hib].
  set (lo := Z.min la lb).
  assert (Hia' : incr lo (idxs a)) by (now apply incr_min).
  assert (Hib' : incr lo (idxs b)) by (unfold lo; rewrite Z.min_comm; now apply incr_min).
  destruct (cnt_go_spec _ _ _ _ _ _ _ _ _ lo H ltac:(simpl; lia) ltac:(simpl; lia)) as (M & IM & SA & SB).
  { now rewrite FA. } { now rewrite FB. }
  rewrite FA in SA. rewrite FB in SB.
  assert (La : Z.of_nat (length (idxs a)) = count_spans a) by (apply idxs_from_length, wf_spans_len, Ha).
  assert (Lb : Z.of_nat (length (idxs b)) = count_spans b) by (apply idxs_from_length, wf_spans_len, Hb).
  exists M.
  pose proof SA as (_ & GA & INA & E1A & _). pose proof SB as (_ & GB & INB & E1B & _).
  cbn [i_pos i_num] in GA, GB.
  split; [eauto|]. split; [assumption|]. split; [assumption|]. split; [assumption|]. split; [assumption|].
  split; [apply (adjust_correct lo); auto|]. split.
  - intros k' buckets Hlen.
    destruct (good_insert k' F M (idxs a) lo buckets GA IM Hia' INA ltac:(lia)) as (out & X1 & X2 & _ & X4).
    exists out. auto.
  - intros k' buckets Hlen.
    destruct (good_insert k' Bk M (idxs b) lo buckets GB IM Hib' INB ltac:(lia)) as (out & X1 & X2 & _ & X4).
    exists out. auto.
Qed.

(* the counter-path expansion never diverges, and panics only on a bucket slice shorter than
   its spans (excluded for valid histograms) *)
Theorem expand_counts_total k a b ab bb :
  wf_spans a -> wf_spans b ->
  Z.of_nat (length ab) = count_spans a -> Z.of_nat (length bb) = count_spans b ->
  exists r, expand_counts k a b ab bb = Ok r.
Proof.
  intros Ha Hb La Lb. unfold expand_counts.
  pose proof (idxs_from_length 0 a (wf_spans_len a Ha)) as Ea. pose proof (idxs_from_length 0 b (wf_spans_len b Hb)) as Eb.
  fold (idxs a) in Ea. fold (idxs b) in Eb.
  destruct (zip_counts_ok (idxs a) (abs_counts k ab)) as (A & EA & FA); [rewrite abs_counts_length; lia|].
  destruct (zip_counts_ok (idxs b) (abs_counts k bb)) as (B & EB & FB); [rewrite abs_counts_length; lia|].
  rewrite EA, EB. cbn [bind]. apply cnt_go_ok.
  rewrite <- FA, <- FB, !map_length. lia.
Qed.

(* proof/HistChunkSeq.v — towards the sequence-level round trip: chunk invariant, what
   appendHistogram (append_raw) and recode do to a chunk, and the gauge-path step. *)
From Coq Require Import List ZArith Bool Lia.
From Verif Require Import model.HistChunk proof.HistChunkProofs proof.HistChunkIns
  proof.HistChunkDelta proof.HistChunkMaps proof.HistChunkReencode proof.HistChunkCounter
  proof.HistChunkAdjust.
Import ListNotations.
Open Scope Z_scope.

(* spans whose bucket indices increase strictly (valid spans, and everything addBucket builds) *)
Definition ok_spans (l : list span) : Prop :=
  (exists lo, incr lo (idxs l)) /\ Forall (fun s => 0 <= s_len s) l.

Lemma wf_ok l : wf_spans l -> ok_spans l.
Proof. intros H. split; [now apply idxs_incr|now apply wf_spans_len]. Qed.

Lemma ok_spans_of lo M : incr lo M -> ok_spans (spans_of M).
Proof. intros H. split; [exists lo; now rewrite idxs_spans_of|apply spans_of_len]. Qed.

Lemma ok_count l : ok_spans l -> Z.of_nat (length (idxs l)) = count_spans l.
Proof. intros [_ H]. now apply idxs_from_length. Qed.

(* ---------- float helpers ---------- *)
Definition zt_rel (x y : Z) : Prop := x = y \/ feq x y = true.

Lemma fnorm_idem z : fnorm (fnorm z) = fnorm z.
Proof. unfold fnorm. destruct (fis_zero z) eqn:E; [reflexivity|]. now rewrite E. Qed.

Lemma fnorm_rel z : 0 <= z -> zt_rel (fnorm z) z.
Proof.
  intros Hz. unfold fnorm, zt_rel. destruct (fis_zero z) eqn:E; [|now left]. right.
  unfold fis_zero in E. apply Z.eqb_eq in E. unfold feq, fnan, fkey. rewrite E.
  change (fmag 0) with 0. cbn [Z.ltb Z.compare negb andb].
  change (two63 <=? 0) with false. cbn iota. destruct (two63 <=? z); now rewrite ?Z.eqb_refl.
Qed.

(* ---------- the chunk invariant ---------- *)
Definition norm_layout (c : chunk) : Prop :=
  fnorm (c_zt c) = c_zt c /\
  (if c_schema c =? custom_schema then map fnorm (c_custom c) else []) = c_custom c.

Definition samp_ok (ps ns : list span) (s : samp) : Prop :=
  is_stale (sm_sum s) = true \/
  (Z.of_nat (length (sm_pb s)) = count_spans ps /\ Z.of_nat (length (sm_nb s)) = count_spans ns).

Record inv (c : chunk) : Prop := mkInv {
  inv_ne : c_samples c <> [];
  inv_ps : ok_spans (c_ps c);
  inv_ns : ok_spans (c_ns c);
  inv_norm : norm_layout c;
  inv_samples : Forall (samp_ok (c_ps c) (c_ns c)) (c_samples c);
  inv_apb : Z.of_nat (length (a_pb c)) = count_spans (c_ps c);
  inv_anb : Z.of_nat (length (a_nb c)) = count_spans (c_ns c);
  inv_stale : is_stale (a_sum c) = false ->
              Forall (fun s => is_stale (sm_sum s) = false) (c_samples c) }.

(* validity of an appended histogram as far as this layer cares (Histogram.Validate) *)
Definition valid_h (h : hist) : Prop :=
  0 <= h_zt h /\ Forall (fun z => 0 <= z) (h_custom h) /\
  (is_stale (h_sum h) = true \/
   (wf_spans (h_ps h) /\ wf_spans (h_ns h) /\
    Z.of_nat (length (h_pb h)) = count_spans (h_ps h) /\
    Z.of_nat (length (h_nb h)) = count_spans (h_ns h) /\
    (h_schema h <> custom_schema -> h_custom h = []))).

(* ---------- semantic equality ---------- *)
Definition same_scalars (x y : hist) : Prop :=
  h_schema x = h_schema y /\ h_zt x = h_zt y /\ h_custom x = h_custom y /\
  h_count x = h_count y /\ h_zcount x = h_zcount y /\ h_sum x = h_sum y.

(* a stored sample read back before and after its chunk was re-coded *)
Definition rd_eq (k : kind) (x y : Z * hist) : Prop :=
  fst x = fst y /\ same_scalars (snd x) (snd y) /\
  same_map k (h_ps (snd x)) (h_pb (snd x)) (h_ps (snd y)) (h_pb (snd y)) /\
  same_map k (h_ns (snd x)) (h_nb (snd x)) (h_ns (snd y)) (h_nb (snd y)).

(* a read-back sample against the histogram that was appended at time t *)
Definition sem (k : kind) (x : Z * hist) (t : Z) (h : hist) : Prop :=
  fst x = t /\
  if is_stale (h_sum h) then is_stale (h_sum (snd x)) = true
  else h_sum (snd x) = h_sum h /\ h_count (snd x) = h_count h /\ h_zcount (snd x) = h_zcount h /\
       h_schema (snd x) = h_schema h /\ zt_rel (h_zt (snd x)) (h_zt h) /\
       Forall2 zt_rel (h_custom (snd x)) (h_custom h) /\
       same_map k (h_ps (snd x)) (h_pb (snd x)) (h_ps h) (h_pb h) /\
       same_map k (h_ns (snd x)) (h_nb (snd x)) (h_ns h) (h_nb h).

Lemma rd_eq_refl k x : rd_eq k x x.
Proof. unfold rd_eq, same_scalars, same_map. intuition. Qed.

Lemma rd_eq_sem k x y t h : rd_eq k x y -> sem k y t h -> sem k x t h.
Proof.
  intros (Ht & (S1 & S2 & S3 & S4 & S5 & S6) & Mp & Mn) [Hy Hs]. split; [congruence|].
  destruct (is_stale (h_sum h)); [now rewrite S6|].
  destruct Hs as (A1 & A2 & A3 & A4 & A5 & A6 & A7 & A8).
  rewrite S1, S2, S3, S4, S5, S6. repeat split; auto.
  - intros i. now rewrite Mp.
  - intros i. now rewrite Mn.
Qed.

(* ---------- copy ---------- *)
Lemma copy_into_same dst src : length src = length dst -> copy_into dst src = src.
Proof.
  intros H. unfold copy_into. rewrite <- H, firstn_all, skipn_all2 by lia. apply app_nil_r.
Qed.
Lemma copy_into_nil dst : copy_into dst [] = dst.
Proof. unfold copy_into. now rewrite firstn_nil. Qed.

Lemma zeros_length n : 0 <= n -> Z.of_nat (length (zeros n)) = n.
Proof. intros H. unfold zeros. rewrite repeat_length. lia. Qed.

Lemma count_spans_nonneg l : Forall (fun s => 0 <= s_len s) l -> 0 <= count_spans l.
Proof. induction 1; simpl; lia. Qed.

(* ---------- appendHistogram into an empty chunk ---------- *)
Lemma map_fnorm_idem l : map fnorm (map fnorm l) = map fnorm l.
Proof. rewrite map_map. apply map_ext. intros; apply fnorm_idem. Qed.

Lemma map_fnorm_rel l : Forall (fun z => 0 <= z) l -> Forall2 zt_rel (map fnorm l) l.
Proof. induction 1; simpl; constructor; auto using fnorm_rel. Qed.

Lemma fresh_chunk k (c0 : chunk) t h :
  c_samples c0 = [] -> valid_h h ->
  let c' := append_raw c0 t h in
  inv c' /\ exists x, read_chunk c' = [x] /\ sem k x t h.
Proof.
  intros E0 (Hzt & Hcu & V). unfold append_raw. rewrite E0. cbn zeta.
  destruct (is_stale (h_sum h)) eqn:Es.
  - (* staleness marker *)
    split.
    + constructor; cbn [c_samples c_ps c_ns c_zt c_schema c_custom a_pb a_nb a_sum empty_hist h_ps h_ns h_pb h_nb h_sum h_zt h_schema h_custom count_spans fold_right].
      * discriminate.
      * split; [exists 0; exact I|constructor].
      * split; [exists 0; exact I|constructor].
      * split; reflexivity.
      * constructor; [left; exact Es|constructor].
      * reflexivity.
      * reflexivity.
      * intros H. rewrite Es in H. discriminate.
    + eexists. split; [unfold read_chunk; cbn [c_samples map]; reflexivity|].
      unfold read_samp. cbn [sm_sum sm_t empty_hist h_sum]. rewrite Es. split; [reflexivity|].
      rewrite Es. cbn [snd empty_hist h_sum]. exact Es.
  - destruct V as [V|(Wp & Wn & Lp & Ln & Hc)]; [congruence|].
    pose proof (wf_ok _ Wp) as Op. pose proof (wf_ok _ Wn) as On.
    split.
    + constructor; cbn [c_samples c_ps c_ns c_zt c_schema c_custom a_pb a_nb a_sum].
      * discriminate.
      * exact Op. * exact On.
      * split; cbn [c_zt c_schema c_custom]; [apply fnorm_idem|].
        destruct (h_schema h =? custom_schema); [apply map_fnorm_idem|reflexivity].
      * constructor; [right; cbn [sm_pb sm_nb]; auto|constructor].
      * rewrite copy_into_same; [assumption|].
        apply Nat2Z.inj. rewrite zeros_length; [lia|]. apply count_spans_nonneg, Op.
      * rewrite copy_into_same; [assumption|].
        apply Nat2Z.inj. rewrite zeros_length; [lia|]. apply count_spans_nonneg, On.
      * intros _. constructor; [exact Es|constructor].
    + eexists. split; [unfold read_chunk; cbn [c_samples map]; reflexivity|].
      unfold read_samp. cbn [sm_sum sm_t sm_count sm_zcount sm_pb sm_nb c_gauge c_schema c_zt c_custom c_ps c_ns].
      rewrite Es. split; [reflexivity|]. rewrite Es.
      cbn [snd h_sum h_count h_zcount h_schema h_zt h_custom h_ps h_pb h_ns h_nb].
      repeat split; auto using fnorm_rel.
      destruct (Z.eqb_spec (h_schema h) custom_schema) as [E|E].
      * now apply map_fnorm_rel.
      * rewrite (Hc E). constructor.
Qed.

(* ---------- appendHistogram into a non-empty chunk ---------- *)
Definition lay_eq (c' c : chunk) (ps ns : list span) : Prop :=
  c_gauge c' = c_gauge c /\ c_schema c' = c_schema c /\ c_zt c' = c_zt c /\ c_custom c' = c_custom c /\
  c_ps c' = ps /\ c_ns c' = ns.

Definition live_read (c : chunk) (t : Z) (h : hist) (ps ns : list span) : Z * hist :=
  (t, mkH (if c_gauge c then HGauge else HUnknown) (c_schema c) (c_zt c) (c_custom c)
          (h_count h) (h_zcount h) (h_sum h) ps ns (h_pb h) (h_nb h)).

Lemma append_live c t h :
  inv c -> is_stale (h_sum h) = false -> is_stale (a_sum c) = false ->
  Z.of_nat (length (h_pb h)) = count_spans (c_ps c) ->
  Z.of_nat (length (h_nb h)) = count_spans (c_ns c) ->
  let c' := append_raw c t h in
  inv c' /\ lay_eq c' c (c_ps c) (c_ns c) /\ is_stale (a_sum c') = false /\
  read_chunk c' = read_chunk c ++ [live_read c t h (c_ps c) (c_ns c)].
Proof.
  intros I Es Ea Lp Ln. destruct I as [Ine Ips Ins Inorm Isam Iapb Ianb Istale].
  unfold append_raw. rewrite Es. destruct (c_samples c) as [|s0 rest] eqn:E0; [congruence|]. cbn zeta.
  split; [|split; [|split]].
  - constructor; cbn [c_samples c_ps c_ns c_zt c_schema c_custom a_pb a_nb a_sum].
    + destruct rest; discriminate.
    + assumption. + assumption. + exact Inorm.
    + apply Forall_app. split; [assumption|]. constructor; [right; cbn [sm_pb sm_nb]; auto|constructor].
    + rewrite copy_into_same; [assumption|]. apply Nat2Z.inj. lia.
    + rewrite copy_into_same; [assumption|]. apply Nat2Z.inj. lia.
    + intros _. apply Forall_app. split; [now apply Istale|]. constructor; [exact Es|constructor].
  - unfold lay_eq. cbn. repeat split; reflexivity.
  - exact Es.
  - unfold read_chunk. cbn [c_samples]. rewrite E0, map_app. f_equal.
    cbn [map]. unfold read_samp, live_read. cbn [sm_sum sm_t sm_count sm_zcount sm_pb sm_nb c_gauge c_schema c_zt c_custom c_ps c_ns].
    now rewrite Es.
Qed.

Lemma append_stale c t h :
  inv c -> is_stale (h_sum h) = true ->
  let c' := append_raw c t h in
  inv c' /\ lay_eq c' c (c_ps c) (c_ns c) /\
  read_chunk c' = read_chunk c ++ [(t, empty_hist (h_sum h))].
Proof.
  intros I Es. destruct I as [Ine Ips Ins Inorm Isam Iapb Ianb Istale].
  unfold append_raw. rewrite Es. destruct (c_samples c) as [|s0 rest] eqn:E0; [congruence|]. cbn zeta.
  cbn [empty_hist h_count h_zcount h_sum h_pb h_nb].
  split; [|split].
  - constructor; cbn [c_samples c_ps c_ns c_zt c_schema c_custom a_pb a_nb a_sum].
    + destruct rest; discriminate.
    + assumption. + assumption. + exact Inorm.
    + apply Forall_app. split; [assumption|]. constructor; [left; exact Es|constructor].
    + now rewrite copy_into_nil.
    + now rewrite copy_into_nil.
    + intros H. rewrite Es in H. discriminate.
  - unfold lay_eq. cbn. repeat split; reflexivity.
  - unfold read_chunk. cbn [c_samples]. rewrite E0, map_app. f_equal.
    cbn [map]. unfold read_samp. cbn [sm_sum sm_t]. now rewrite Es.
Qed.

(* appendHistogram of a live sample into an empty chunk, with explicit layout *)
Lemma fresh_live (c0 : chunk) t h :
  c_samples c0 = [] -> is_stale (h_sum h) = false ->
  ok_spans (h_ps h) -> ok_spans (h_ns h) ->
  Z.of_nat (length (h_pb h)) = count_spans (h_ps h) ->
  Z.of_nat (length (h_nb h)) = count_spans (h_ns h) ->
  fnorm (h_zt h) = h_zt h ->
  (if h_schema h =? custom_schema then map fnorm (h_custom h) else []) = h_custom h ->
  let c' := append_raw c0 t h in
  inv c' /\ c_gauge c' = c_gauge c0 /\ c_schema c' = h_schema h /\ c_zt c' = h_zt h /\
  c_custom c' = h_custom h /\ c_ps c' = h_ps h /\ c_ns c' = h_ns h /\
  is_stale (a_sum c') = false /\
  read_chunk c' = [(t, mkH (if c_gauge c0 then HGauge else HUnknown) (h_schema h) (h_zt h) (h_custom h)
                           (h_count h) (h_zcount h) (h_sum h) (h_ps h) (h_ns h) (h_pb h) (h_nb h))].
Proof.
  intros E0 Es Op On Lp Ln Nz Nc. unfold append_raw. rewrite E0, Es. cbn zeta.
  split; [|cbn [c_gauge c_schema c_zt c_custom c_ps c_ns a_sum]; repeat split; auto].
  - constructor; cbn [c_samples c_ps c_ns c_zt c_schema c_custom a_pb a_nb a_sum].
    + discriminate.
    + exact Op. + exact On.
    + split; cbn [c_zt c_schema c_custom].
      * rewrite Nz. exact Nz.
      * destruct (h_schema h =? custom_schema); [apply map_fnorm_idem|reflexivity].
    + constructor; [right; cbn [sm_pb sm_nb]; auto|constructor].
    + rewrite copy_into_same; [assumption|].
      apply Nat2Z.inj. rewrite zeros_length; [lia|]. apply count_spans_nonneg, Op.
    + rewrite copy_into_same; [assumption|].
      apply Nat2Z.inj. rewrite zeros_length; [lia|]. apply count_spans_nonneg, On.
    + intros _. constructor; [exact Es|constructor].
  - unfold read_chunk. cbn [c_samples map]. unfold read_samp.
    cbn [sm_sum sm_t sm_count sm_zcount sm_pb sm_nb c_gauge c_schema c_zt c_custom c_ps c_ns].
    now rewrite Es, Nz, Nc.
Qed.

(* ---------- recode ---------- *)
Section Recode.
  Variables (k : kind) (c : chunk) (pFw nFw : list ins) (ps' ns' : list span).
  Hypothesis Ic : inv c.
  Hypothesis Ops : ok_spans ps'.
  Hypothesis Ons : ok_spans ns'.
  (* what the forward inserts do to any bucket slice laid out on the chunk's spans *)
  Hypothesis TP : forall b, Z.of_nat (length b) = count_spans (c_ps c) ->
    exists out, (if nonempty pFw then insert_go (is_deltas k) b pFw (count_spans ps') else Ok b) = Ok out /\
                Z.of_nat (length out) = count_spans ps' /\ same_map k ps' out (c_ps c) b.
  Hypothesis TN : forall b, Z.of_nat (length b) = count_spans (c_ns c) ->
    exists out, (if nonempty nFw then insert_go (is_deltas k) b nFw (count_spans ns') else Ok b) = Ok out /\
                Z.of_nat (length out) = count_spans ns' /\ same_map k ns' out (c_ns c) b.

  Definition tgt (a : chunk) : Prop := inv a /\ lay_eq a c ps' ns' /\ is_stale (a_sum a) = false.

  Definition live_ok (s : samp) : Prop :=
    is_stale (sm_sum s) = false /\
    Z.of_nat (length (sm_pb s)) = count_spans (c_ps c) /\ Z.of_nat (length (sm_nb s)) = count_spans (c_ns c).

  Lemma recode_step a s :
    tgt a \/ (c_samples a = [] /\ c_gauge a = c_gauge c) -> live_ok s ->
    exists a', recode_one k pFw nFw ps' ns' (Ok a) (read_samp c s) = Ok a' /\ tgt a' /\
               exists x, read_chunk a' = read_chunk a ++ [x] /\ rd_eq k x (read_samp c s).
  Proof.
    intros Ha (Es & Lp & Ln).
    destruct (TP _ Lp) as (op & Ep & Lop & Mp). destruct (TN _ Ln) as (on & En & Lon & Mn).
    unfold recode_one, read_samp. rewrite Es. cbn [bind h_pb h_nb]. rewrite Ep, En. cbn [bind].
    set (h2 := with_layout _ ps' ns' op on).
    assert (Es2 : is_stale (h_sum h2) = false) by exact Es.
    destruct Ic as [_ _ _ [Nz Nc] _ _ _ _].
    destruct Ha as [(Ia & (G1 & G2 & G3 & G4 & G5 & G6) & Sa)|[E0 Eg]].
    - destruct (append_live a (sm_t s) h2 Ia Es2 Sa) as (I' & (L1 & L2 & L3 & L4 & L5 & L6) & S' & R').
      { subst h2. cbn [with_layout h_pb]. now rewrite G5. }
      { subst h2. cbn [with_layout h_nb]. now rewrite G6. }
      eexists. split; [reflexivity|]. split.
      + split; [exact I'|]. split; [|exact S'].
        unfold lay_eq. rewrite L1, L2, L3, L4, L5, L6. repeat split; assumption.
      + eexists. split; [exact R'|]. unfold live_read, rd_eq, same_scalars. subst h2.
        cbn [fst snd with_layout h_schema h_zt h_custom h_count h_zcount h_sum h_ps h_ns h_pb h_nb].
        rewrite G2, G3, G4, G5, G6. repeat split; assumption.
    - destruct (fresh_live a (sm_t s) h2 E0 Es2) as (I' & F1 & F2 & F3 & F4 & F5 & F6 & S' & R'); subst h2;
        cbn [with_layout h_ps h_ns h_pb h_nb h_zt h_schema h_custom]; auto.
      eexists. split; [reflexivity|]. split.
      + split; [exact I'|]. split; [|exact S']. unfold lay_eq. rewrite F1, F2, F3, F4, F5, F6.
        cbn [with_layout h_ps h_ns h_pb h_nb h_zt h_schema h_custom]. repeat split; auto.
      + eexists. split.
        * rewrite R'. unfold read_chunk. rewrite E0. reflexivity.
        * unfold rd_eq, same_scalars.
          cbn [fst snd with_layout h_schema h_zt h_custom h_count h_zcount h_sum h_ps h_ns h_pb h_nb].
          repeat split; assumption.
  Qed.

  Lemma recode_fold l : forall a,
    tgt a \/ (c_samples a = [] /\ c_gauge a = c_gauge c) -> Forall live_ok l ->
    exists a', fold_left (recode_one k pFw nFw ps' ns') (map (read_samp c) l) (Ok a) = Ok a' /\
               (l <> [] -> tgt a') /\
               exists L, read_chunk a' = read_chunk a ++ L /\ Forall2 (rd_eq k) L (map (read_samp c) l).
  Proof.
    induction l as [|s l IH]; intros a Ha Hl.
    - exists a. split; [reflexivity|]. split; [congruence|]. exists []. rewrite app_nil_r. split; [reflexivity|constructor].
    - inversion Hl as [|? ? Hs Hl']; subst.
      destruct (recode_step a s Ha Hs) as (a1 & E1 & T1 & x & R1 & Q1).
      destruct (IH a1 (or_introl T1) Hl') as (a' & E' & T' & L & R' & Q').
      exists a'. cbn [map fold_left]. rewrite E1. split; [exact E'|]. split.
      + intros _. destruct l; [cbn in E'; inversion E'; subst; exact T1|apply T'; discriminate].
      + exists (x :: L). rewrite R', R1, <- app_assoc. split; [reflexivity|]. constructor; assumption.
  Qed.

  Lemma recode_correct :
    Forall (fun s => is_stale (sm_sum s) = false) (c_samples c) ->
    exists c'', recode k c pFw nFw ps' ns' = Ok c'' /\ tgt c'' /\
                Forall2 (rd_eq k) (read_chunk c'') (read_chunk c).
  Proof.
    intros Hlive. unfold recode.
    assert (Hl : Forall live_ok (c_samples c)).
    { pose proof (inv_samples c Ic) as Hs. rewrite Forall_forall in *. intros s Hin.
      specialize (Hs s Hin). specialize (Hlive s Hin). destruct Hs as [Hs|[H1 H2]]; [congruence|].
      repeat split; assumption. }
    destruct (recode_fold (c_samples c) (empty_chunk (c_gauge c)) (or_intror (conj eq_refl eq_refl)) Hl)
      as (c'' & E & T & L & R & Q).
    exists c''. split; [exact E|]. split; [apply T, (inv_ne c Ic)|].
    change (read_chunk (empty_chunk (c_gauge c))) with (@nil (Z * hist)) in R. cbn [app] in R. now rewrite R.
  Qed.
End Recode.

(* ---------- what expandSpansBothWays gives for ok_spans ---------- *)
Lemma incr_NoDup lo l : incr lo l -> NoDup l.
Proof.
  revert lo. induction l as [|x r IH]; intros lo H; constructor.
  - destruct H as [_ H]. intros Hin. pose proof (incr_In _ _ _ H Hin). lia.
  - destruct H as [_ H]. eauto.
Qed.

Lemma incr_incl_same_length M : forall lo ix,
  incr lo M -> incr lo ix -> incl ix M -> length M = length ix -> M = ix.
Proof.
  induction M as [|m M IH]; intros lo ix HM Hix Hin Hlen.
  - destruct ix; [reflexivity|discriminate].
  - destruct ix as [|i ix]; [discriminate|]. destruct HM as [HM1 HM2], Hix as [Hi1 Hi2].
    destruct (Z.eq_dec i m) as [->|Hne].
    + f_equal. apply (IH m); auto; try (simpl in Hlen; lia).
      intros x Hx. pose proof (incr_In _ _ _ Hi2 Hx). destruct (Hin x (or_intror Hx)); [lia|assumption].
    + exfalso.
      assert (Hsub : incl (i :: ix) M).
      { intros x Hx. destruct (Hin x Hx) as [<-|]; [|assumption].
        destruct (Hin i (or_introl eq_refl)) as [E|Him]; [congruence|].
        pose proof (incr_In _ _ _ HM2 Him). destruct Hx as [->|Hx]; [lia|].
        pose proof (incr_In _ _ _ Hi2 Hx). lia. }
      assert (Hnd : NoDup (i :: ix)) by (apply (incr_NoDup lo); simpl; auto).
      pose proof (NoDup_incl_length Hnd Hsub). simpl in *. lia.
Qed.

Lemma good_nil lo M ix : good 0 0 [] M ix -> incr lo M -> incr lo ix -> incl ix M -> M = ix.
Proof.
  intros G HM Hix Hin. apply (incr_incl_same_length M lo ix); auto.
  specialize (G (repeat 0 (length ix)) 0 (repeat_length _ _)).
  rewrite ins_body_nil in G. cbn [repeat app Z.to_nat] in G. inversion G as [E].
  rewrite <- (lay_length M ix (repeat 0 (length ix))), <- E. now rewrite repeat_length.
Qed.

(* a transformer of bucket slices from layout [from] to the index list M, keeping the map *)
Definition widens (k : kind) (P : list ins) (M : list Z) (from : list span) : Prop :=
  forall b, Z.of_nat (length b) = count_spans from ->
    exists out, insert_go (is_deltas k) b P (Z.of_nat (length M)) = Ok out /\
                length out = length M /\
                forall i, lookup i (combine M (abs_counts k out)) = lookup i (bucket_alist k from b).

Lemma both_side k a b :
  ok_spans a -> ok_spans b ->
  exists F B M lo,
    expand_both a b = Ok (F, B, spans_of M) /\ incr lo M /\
    (F = [] -> M = idxs a) /\ (B = [] -> M = idxs b) /\
    widens k F M a /\ widens k B M b.
Proof.
  intros [[la Hia] Hla] [[lb Hib] Hlb]. unfold expand_both.
  destruct (both_go_ok (S (length (idxs a) + length (idxs b))) (idxs a) (idxs b) 0 0 0 0 ltac:(lia)) as [[[F B] M] E].
  rewrite E. cbn [bind]. exists F, B, M, (Z.min la lb).
  assert (Hia' : incr (Z.min la lb) (idxs a)) by (now apply incr_min).
  assert (Hib' : incr (Z.min la lb) (idxs b)) by (rewrite Z.min_comm; now apply incr_min).
  destruct (both_go_spec _ _ _ _ _ _ _ _ _ _ (Z.min la lb) E ltac:(lia) ltac:(lia) Hia' Hib')
    as (_ & _ & GF & GB & IM & IA & IB).
  pose proof (idxs_from_length 0 a Hla) as La. pose proof (idxs_from_length 0 b Hlb) as Lb.
  fold (idxs a) in La. fold (idxs b) in Lb.
  split; [reflexivity|]. split; [exact IM|]. split; [|split; [|split]].
  - intros ->. now apply (good_nil (Z.min la lb)).
  - intros ->. now apply (good_nil (Z.min la lb)).
  - intros bk Hlen.
    destruct (good_insert k F M (idxs a) (Z.min la lb) bk GF IM Hia' IA ltac:(lia)) as (out & X1 & X2 & _ & X4).
    exists out. auto.
  - intros bk Hlen.
    destruct (good_insert k B M (idxs b) (Z.min la lb) bk GB IM Hib' IB ltac:(lia)) as (out & X1 & X2 & _ & X4).
    exists out. auto.
Qed.

(* ---------- float comparisons ---------- *)
Lemma feq_sym a b : feq a b = feq b a.
Proof. unfold feq. rewrite (Z.eqb_sym (fkey a)). destruct (fnan a), (fnan b); reflexivity. Qed.

Lemma bounds_rel a b : bounds_match a b = true -> Forall2 zt_rel b a.
Proof.
  revert b. induction a as [|x a IH]; intros b H; destruct b as [|y b]; simpl in H; try discriminate; constructor.
  - right. rewrite feq_sym. now destruct (feq x y).
  - apply IH. now destruct (feq x y).
Qed.

(* ---------- one AppendHistogram call ---------- *)
(* the caller's histogram after the call is the same histogram *)
Definition input_same (k : kind) (h1 h : hist) : Prop :=
  h_hint h1 = h_hint h /\ same_scalars h1 h /\
  (is_stale (h_sum h) = true \/
   (same_map k (h_ps h1) (h_pb h1) (h_ps h) (h_pb h) /\ same_map k (h_ns h1) (h_nb h1) (h_ns h) (h_nb h))).

Definition step_ok (k : kind) (c : chunk) (t : Z) (h : hist) (r : hist * outcome) : Prop :=
  input_same k (fst r) h /\
  match snd r with
  | Same c' | Recoded c' =>
      inv c' /\ exists L x, read_chunk c' = L ++ [x] /\ Forall2 (rd_eq k) L (read_chunk c) /\ sem k x t h
  | NewChunk c' => inv c' /\ exists x, read_chunk c' = [x] /\ sem k x t h
  end.

Lemma input_same_refl k h : input_same k h h.
Proof. unfold input_same, same_scalars, same_map. intuition. Qed.

Lemma Forall2_rd_refl k l : Forall2 (rd_eq k) l l.
Proof. induction l; constructor; auto using rd_eq_refl. Qed.

Lemma new_chunk_ok k g c t h : valid_h h -> step_ok k c t h (h, NewChunk (append_raw (empty_chunk g) t h)).
Proof.
  intros V. split; [apply input_same_refl|]. cbn [snd].
  exact (fresh_chunk k (empty_chunk g) t h eq_refl V).
Qed.

Lemma with_layout_id h : with_layout h (h_ps h) (h_ns h) (h_pb h) (h_nb h) = h.
Proof. destruct h; reflexivity. Qed.

(* the sample side after the backward step *)
Lemma h1_side k (anyB : bool) B M bsp bb lo :
  ok_spans bsp -> Z.of_nat (length bb) = count_spans bsp -> incr lo M ->
  (B = [] -> M = idxs bsp) -> widens k B M bsp -> (anyB = false -> B = []) ->
  exists b1,
    (if anyB then (if nonempty B then insert_go (is_deltas k) bb B (count_spans (spans_of M)) else Ok bb)
     else Ok bb) = Ok b1 /\
    let sp1 := if anyB then spans_of M else bsp in
    idxs sp1 = M /\ ok_spans sp1 /\ count_spans sp1 = Z.of_nat (length M) /\
    Z.of_nat (length b1) = count_spans sp1 /\
    forall i, lookup i (combine M (abs_counts k b1)) = lookup i (bucket_alist k bsp bb).
Proof.
  intros Ob Lb IM Bnil W HB.
  assert (Hself : B = [] -> Z.of_nat (length bb) = Z.of_nat (length M) /\
                            forall i, lookup i (combine M (abs_counts k bb)) = lookup i (bucket_alist k bsp bb)).
  { intros E. rewrite (Bnil E). split; [rewrite (ok_count _ Ob); lia|reflexivity]. }
  destruct anyB.
  - destruct B as [|y B'].
    + destruct (Hself eq_refl) as [H1 H2]. exists bb. split; [reflexivity|]. cbn zeta.
      rewrite idxs_spans_of, count_spans_of.
      split; [reflexivity|]. split; [now apply (ok_spans_of lo)|]. split; [reflexivity|]. split; assumption.
    + cbn [nonempty]. rewrite count_spans_of. destruct (W bb Lb) as (out & E & Lo & Mo).
      exists out. split; [exact E|]. cbn zeta. rewrite idxs_spans_of.
      split; [reflexivity|]. split; [now apply (ok_spans_of lo)|]. split; [reflexivity|]. split; [lia|assumption].
  - specialize (HB eq_refl). destruct (Hself HB) as [H1 H2]. exists bb. split; [reflexivity|]. cbn zeta.
    split; [now rewrite (Bnil HB)|]. split; [assumption|]. split; [rewrite (Bnil HB); symmetry; apply (ok_count _ Ob)|].
    split; [assumption|]. exact H2.
Qed.

(* the chunk side: what recode does to every stored slice *)
Lemma fwd_side k F M a sp1 :
  ok_spans a -> idxs sp1 = M -> count_spans sp1 = Z.of_nat (length M) ->
  (F = [] -> M = idxs a) -> widens k F M a ->
  forall b, Z.of_nat (length b) = count_spans a ->
    exists out, (if nonempty F then insert_go (is_deltas k) b F (count_spans sp1) else Ok b) = Ok out /\
                Z.of_nat (length out) = count_spans sp1 /\ same_map k sp1 out a b.
Proof.
  intros Oa Hi Hc Fnil W b Lb. destruct F as [|y F'].
  - exists b. split; [reflexivity|]. rewrite Hc, (Fnil eq_refl), (ok_count _ Oa). split; [assumption|].
    intros i. unfold bucket_alist. now rewrite Hi, (Fnil eq_refl).
  - cbn [nonempty]. rewrite Hc. destruct (W b Lb) as (out & E & Lo & Mo). exists out.
    split; [exact E|]. split; [lia|]. intros i. unfold bucket_alist at 1. rewrite Hi. apply Mo.
Qed.

Lemma orb_nonempty_false {A} (x y : list A) : nonempty x || nonempty y = false -> x = [] /\ y = [].
Proof. destruct x, y; simpl; intros; try discriminate; auto. Qed.

Lemma custom_ok c h :
  (h_schema h =? custom_schema) && negb (bounds_match (h_custom h) (c_custom c)) = false ->
  (h_schema h <> custom_schema -> h_custom h = []) -> norm_layout c -> h_schema h = c_schema c ->
  Forall2 zt_rel (c_custom c) (h_custom h).
Proof.
  intros Ecu Hc [_ Nc] Esch. destruct (Z.eqb_spec (h_schema h) custom_schema) as [E|E].
  - cbn [andb] in Ecu. apply bounds_rel. now destruct (bounds_match (h_custom h) (c_custom c)).
  - rewrite (Hc E). rewrite <- Esch in Nc. destruct (Z.eqb_spec (h_schema h) custom_schema); [contradiction|].
    rewrite <- Nc. constructor.
Qed.

(* the common tail of AppendHistogram, given what the backward step produced for both sides *)
Lemma finish_ok k c t h pFw nFw pBk nBk Mp Mn sp1p sp1n b1p b1n :
  inv c -> is_stale (h_sum h) = false -> is_stale (a_sum c) = false ->
  h_schema h = c_schema c -> feq (h_zt h) (c_zt c) = true ->
  Forall2 zt_rel (c_custom c) (h_custom h) ->
  idxs sp1p = Mp -> ok_spans sp1p -> count_spans sp1p = Z.of_nat (length Mp) ->
  Z.of_nat (length b1p) = count_spans sp1p ->
  (forall i, lookup i (combine Mp (abs_counts k b1p)) = lookup i (bucket_alist k (h_ps h) (h_pb h))) ->
  (pFw = [] -> Mp = idxs (c_ps c)) -> widens k pFw Mp (c_ps c) ->
  idxs sp1n = Mn -> ok_spans sp1n -> count_spans sp1n = Z.of_nat (length Mn) ->
  Z.of_nat (length b1n) = count_spans sp1n ->
  (forall i, lookup i (combine Mn (abs_counts k b1n)) = lookup i (bucket_alist k (h_ns h) (h_nb h))) ->
  (nFw = [] -> Mn = idxs (c_ns c)) -> widens k nFw Mn (c_ns c) ->
  exists r, finish k c t (with_layout h sp1p sp1n b1p b1n) (mkI4 pFw nFw pBk nBk) = Ok r /\ step_ok k c t h r.
Proof.
  intros Ic Es Ea Esch Ezt Hcu Ip Op Cp L1p M1p FPn WFp In_ On Cn L1n M1n FNn WFn.
  set (h1 := with_layout h sp1p sp1n b1p b1n).
  assert (Es1 : is_stale (h_sum h1) = false) by exact Es.
  assert (Hin : input_same k h1 h).
  { unfold input_same, same_scalars. subst h1. cbn [with_layout h_hint h_schema h_zt h_custom h_count h_zcount h_sum h_ps h_ns h_pb h_nb].
    repeat split; auto. right. split; intros i; unfold bucket_alist at 1; [rewrite Ip; apply M1p|rewrite In_; apply M1n]. }
  unfold finish. cbn [pF nF]. destruct (nonempty pFw || nonempty nFw) eqn:EF.
  - destruct (recode_correct k c pFw nFw sp1p sp1n Ic Op On
                (fwd_side k pFw Mp (c_ps c) sp1p (inv_ps c Ic) Ip Cp FPn WFp)
                (fwd_side k nFw Mn (c_ns c) sp1n (inv_ns c Ic) In_ Cn FNn WFn)
                (inv_stale c Ic Ea)) as (c2 & ER & (I2 & (G1 & G2 & G3 & G4 & G5 & G6) & S2) & Q).
    subst h1. cbn [with_layout h_ps h_ns]. rewrite ER. cbn [bind].
    set (h1 := with_layout h sp1p sp1n b1p b1n) in *.
    destruct (append_live c2 t h1 I2 Es1 S2) as (I' & _ & _ & R').
    { subst h1. cbn [with_layout h_pb]. now rewrite G5. }
    { subst h1. cbn [with_layout h_nb]. now rewrite G6. }
    eexists. split; [reflexivity|]. split; [exact Hin|]. cbn [snd].
    split; [exact I'|]. eexists. eexists. split; [exact R'|]. split; [exact Q|].
    unfold sem, live_read. subst h1.
    cbn [fst snd with_layout h_schema h_zt h_custom h_count h_zcount h_sum h_ps h_ns h_pb h_nb].
    rewrite Es. split; [reflexivity|]. rewrite G2, G3, G4, G5, G6.
    repeat split; auto.
    + right. now rewrite feq_sym.
    + intros i. unfold bucket_alist at 1. rewrite Ip. apply M1p.
    + intros i. unfold bucket_alist at 1. rewrite In_. apply M1n.
  - destruct (orb_nonempty_false _ _ EF) as [-> ->].
    specialize (FPn eq_refl). specialize (FNn eq_refl).
    destruct (append_live c t h1 Ic Es1 Ea) as (I' & _ & _ & R').
    { subst h1. cbn [with_layout h_pb]. rewrite L1p, Cp, FPn. apply ok_count, (inv_ps c Ic). }
    { subst h1. cbn [with_layout h_nb]. rewrite L1n, Cn, FNn. apply ok_count, (inv_ns c Ic). }
    eexists. split; [reflexivity|]. split; [exact Hin|]. cbn [snd].
    split; [exact I'|]. eexists. eexists. split; [exact R'|]. split; [apply Forall2_rd_refl|].
    unfold sem, live_read. subst h1.
    cbn [fst snd with_layout h_schema h_zt h_custom h_count h_zcount h_sum h_ps h_ns h_pb h_nb].
    rewrite Es. split; [reflexivity|].
    repeat split; auto.
    + right. now rewrite feq_sym.
    + intros i. unfold bucket_alist at 1. rewrite <- FPn. apply M1p.
    + intros i. unfold bucket_alist at 1. rewrite <- FNn. apply M1n.
Qed.

Theorem gauge_step k c t h :
  inv c -> valid_h h -> is_gauge_hint h = true ->
  exists r, append k c t h = Ok r /\ step_ok k c t h r.
Proof.
  intros Ic V Hg. pose proof V as (Hzt & Hcu & V').
  unfold append. destruct (c_samples c) as [|s0 rest] eqn:E0; [destruct (inv_ne c Ic E0)|].
  rewrite Hg. cbn [negb]. unfold appendable_gauge.
  destruct (c_gauge c) eqn:Eg; cbn [negb]; [|eexists; split; [reflexivity|now apply new_chunk_ok]].
  destruct (is_stale (h_sum h)) eqn:Es.
  - (* a staleness marker goes into the chunk as it is *)
    cbn [bind pB nB pF nF nonempty orb]. unfold finish. cbn [pB nB pF nF nonempty orb].
    eexists. split; [reflexivity|]. split; [apply input_same_refl|]. cbn [snd].
    destruct (append_stale c t h Ic Es) as (I' & _ & R').
    split; [exact I'|]. exists (read_chunk c). eexists. split; [exact R'|]. split; [apply Forall2_rd_refl|].
    split; [reflexivity|]. rewrite Es. exact Es.
  - destruct V' as [V'|(Wp & Wn & Lp & Ln & Hc)]; [congruence|].
    destruct (is_stale (a_sum c)) eqn:Ea; [eexists; split; [reflexivity|now apply new_chunk_ok]|].
    destruct (Z.eqb_spec (h_schema h) (c_schema c)) as [Esch|Esch]; cbn [negb orb];
      [|eexists; split; [reflexivity|now apply new_chunk_ok]].
    destruct (feq (h_zt h) (c_zt c)) eqn:Ezt; cbn [negb];
      [|eexists; split; [reflexivity|now apply new_chunk_ok]].
    destruct ((h_schema h =? custom_schema) && negb (bounds_match (h_custom h) (c_custom c))) eqn:Ecu;
      [eexists; split; [reflexivity|now apply new_chunk_ok]|].
    (* both sides are expanded *)
    destruct (both_side k (c_ps c) (h_ps h) (inv_ps c Ic) (wf_ok _ Wp))
      as (pFw & pBk & Mp & lop & EP & IMp & FPn & BPn & WFp & WBp).
    destruct (both_side k (c_ns c) (h_ns h) (inv_ns c Ic) (wf_ok _ Wn))
      as (nFw & nBk & Mn & lon & EN & IMn & FNn & BNn & WFn & WBn).
    rewrite EP, EN. cbn [bind pB nB pF nF].
    destruct (nonempty pBk || nonempty nBk) eqn:EB.
    + (* some backward inserts: the sample is widened to the merged spans *)
      destruct (h1_side k true pBk Mp (h_ps h) (h_pb h) lop (wf_ok _ Wp) Lp IMp BPn WBp ltac:(discriminate))
        as (b1p & E1p & Ip & Op & Cp & L1p & M1p).
      destruct (h1_side k true nBk Mn (h_ns h) (h_nb h) lon (wf_ok _ Wn) Ln IMn BNn WBn ltac:(discriminate))
        as (b1n & E1n & In_ & On & Cn & L1n & M1n).
      cbn iota zeta in *. unfold recode_hist. cbn [with_layout h_pb h_nb h_ps h_ns].
      rewrite E1p, E1n. cbn [bind].
      apply (finish_ok k c t h pFw nFw pBk nBk Mp Mn); auto.
      eapply custom_ok; eauto. exact (inv_norm c Ic).
    + (* no backward inserts: the sample is appended as it is *)
      destruct (orb_nonempty_false _ _ EB) as [-> ->].
      destruct (h1_side k false [] Mp (h_ps h) (h_pb h) lop (wf_ok _ Wp) Lp IMp BPn WBp ltac:(reflexivity))
        as (b1p & E1p & Ip & Op & Cp & L1p & M1p).
      destruct (h1_side k false [] Mn (h_ns h) (h_nb h) lon (wf_ok _ Wn) Ln IMn BNn WBn ltac:(reflexivity))
        as (b1n & E1n & In_ & On & Cn & L1n & M1n).
      cbn iota zeta in *. inversion E1p; subst b1p. inversion E1n; subst b1n. cbn [bind].
      destruct (finish_ok k c t h pFw nFw [] [] Mp Mn (h_ps h) (h_ns h) (h_pb h) (h_nb h)) as (r & E & S); auto.
      { eapply custom_ok; eauto. exact (inv_norm c Ic). }
      rewrite with_layout_id in E. exists r. auto.
Qed.

(* ---------- the counter path ---------- *)
Lemma adjust_ok lo b Bk M :
  ok_spans b -> incr lo (idxs b) -> incr lo M ->
  side lo (mkIns 0 0 0) Bk M (idxs b) ->
  exists sp, adjust_for_inserts b Bk = Ok sp /\ idxs sp = M /\ count_spans sp = Z.of_nat (length M) /\ ok_spans sp.
Proof.
  intros Ob Hib HM (_ & _ & _ & E1 & _ & N1 & O & EO & IO & MO & DO). cbn [i_bidx i_num] in EO.
  rewrite zseq_zero in EO. cbn [app] in EO.
  unfold adjust_for_inserts. destruct Bk as [|y Bk'].
  - exists b. split; [reflexivity|]. rewrite (E1 eq_refl). split; [reflexivity|].
    split; [symmetry; apply (ok_count _ Ob)|exact Ob].
  - rewrite (existsb_num_false _ N1). rewrite EO.
    destruct (adj_merge_spec (S (length (idxs b) + length O)) (idxs b) O lo Hib IO DO ltac:(lia)) as (r & E & Ir & Mr).
    rewrite E. cbn [bind]. exists (spans_of r).
    assert (r = M). { apply (incr_ext r lo M Ir HM). intros x. rewrite Mr, MO. tauto. }
    subst r. split; [reflexivity|]. split; [apply idxs_spans_of|]. split; [apply count_spans_of|now apply (ok_spans_of lo)].
Qed.

Lemma zip_counts_fst ix : forall cs r, zip_counts ix cs = Ok r -> map fst r = ix.
Proof.
  induction ix as [|i ix IH]; intros cs r E.
  - destruct cs; inversion E; reflexivity.
  - destruct cs as [|c cs]; [discriminate|]. cbn [zip_counts] in E.
    destruct (zip_counts ix cs) eqn:E'; cbn [bind] in E; try discriminate. inversion E; subst. simpl. f_equal. eauto.
Qed.

Lemma counts_side k a b ab bb F Bk :
  ok_spans a -> ok_spans b ->
  expand_counts k a b ab bb = Ok (Some (F, Bk)) ->
  exists M lo,
    incr lo M /\ (F = [] -> M = idxs a) /\ (Bk = [] -> M = idxs b) /\
    (exists sp, adjust_for_inserts b Bk = Ok sp /\ idxs sp = M /\ count_spans sp = Z.of_nat (length M) /\ ok_spans sp) /\
    widens k F M a /\ widens k Bk M b.
Proof.
  intros Oa Ob H. pose proof Oa as [[la Hia] Hla]. pose proof Ob as [[lb Hib] Hlb]. unfold expand_counts in H.
  destruct (zip_counts (idxs a) (abs_counts k ab)) as [A| |] eqn:EA; cbn [bind] in H; try discriminate.
  destruct (zip_counts (idxs b) (abs_counts k bb)) as [B| |] eqn:EB; cbn [bind] in H; try discriminate.
  pose proof (zip_counts_fst _ _ _ EA) as FA. pose proof (zip_counts_fst _ _ _ EB) as FB.
  set (lo := Z.min la lb).
  assert (Hia' : incr lo (idxs a)) by (now apply incr_min).
  assert (Hib' : incr lo (idxs b)) by (unfold lo; rewrite Z.min_comm; now apply incr_min).
  destruct (cnt_go_spec _ _ _ _ _ _ _ _ _ lo H ltac:(simpl; lia) ltac:(simpl; lia)) as (M & IM & SA & SB).
  { now rewrite FA. } { now rewrite FB. }
  rewrite FA in SA. rewrite FB in SB.
  pose proof (ok_count _ Oa) as La. pose proof (ok_count _ Ob) as Lb.
  exists M, lo.
  pose proof SA as (_ & GA & INA & E1A & _). pose proof SB as (_ & GB & INB & E1B & _).
  cbn [i_pos i_num] in GA, GB.
  split; [assumption|]. split; [assumption|]. split; [assumption|].
  split; [apply (adjust_ok lo); auto|]. split.
  - intros bk Hlen.
    destruct (good_insert k F M (idxs a) lo bk GA IM Hia' INA ltac:(lia)) as (out & X1 & X2 & _ & X4).
    exists out. auto.
  - intros bk Hlen.
    destruct (good_insert k Bk M (idxs b) lo bk GB IM Hib' INB ltac:(lia)) as (out & X1 & X2 & _ & X4).
    exists out. auto.
Qed.

Lemma counts_total_ok k a b ab bb :
  ok_spans a -> ok_spans b ->
  Z.of_nat (length ab) = count_spans a -> Z.of_nat (length bb) = count_spans b ->
  exists r, expand_counts k a b ab bb = Ok r.
Proof.
  intros Oa Ob La Lb. unfold expand_counts.
  pose proof (ok_count _ Oa) as Ea. pose proof (ok_count _ Ob) as Eb.
  destruct (zip_counts_ok (idxs a) (abs_counts k ab)) as (A & EA & FA); [rewrite abs_counts_length; lia|].
  destruct (zip_counts_ok (idxs b) (abs_counts k bb)) as (B & EB & FB); [rewrite abs_counts_length; lia|].
  rewrite EA, EB. cbn [bind]. apply cnt_go_ok.
  rewrite <- FA, <- FB, !map_length. lia.
Qed.

(* the sample side after the backward step of the counter path *)
Lemma h1_side_cnt k (anyB noF : bool) a spa B M bsp bb lo :
  ok_spans a -> ok_spans bsp -> Z.of_nat (length bb) = count_spans bsp -> incr lo M ->
  (noF = true -> M = idxs a) -> (B = [] -> M = idxs bsp) ->
  idxs spa = M -> count_spans spa = Z.of_nat (length M) -> ok_spans spa ->
  widens k B M bsp -> (anyB = false -> B = []) ->
  let spw := if noF then a else spa in
  exists b1,
    (if anyB then (if nonempty B then insert_go (is_deltas k) bb B (count_spans spw) else Ok bb)
     else Ok bb) = Ok b1 /\
    let sp1 := if anyB then spw else bsp in
    idxs sp1 = M /\ ok_spans sp1 /\ count_spans sp1 = Z.of_nat (length M) /\
    Z.of_nat (length b1) = count_spans sp1 /\
    forall i, lookup i (combine M (abs_counts k b1)) = lookup i (bucket_alist k bsp bb).
Proof.
  intros Oa Ob Lb IM Fnil Bnil Ia Ca Osa W HB. cbn zeta.
  assert (Hself : B = [] -> Z.of_nat (length bb) = Z.of_nat (length M) /\
                            forall i, lookup i (combine M (abs_counts k bb)) = lookup i (bucket_alist k bsp bb)).
  { intros E. rewrite (Bnil E). split; [rewrite (ok_count _ Ob); lia|reflexivity]. }
  assert (Hw : idxs (if noF then a else spa) = M /\ ok_spans (if noF then a else spa) /\
               count_spans (if noF then a else spa) = Z.of_nat (length M)).
  { destruct noF; [|auto]. rewrite (Fnil eq_refl). split; [reflexivity|]. split; [exact Oa|].
    symmetry. apply (ok_count _ Oa). }
  destruct Hw as (W1 & W2 & W3).
  destruct anyB.
  - destruct B as [|y B'].
    + destruct (Hself eq_refl) as [H1 H2]. exists bb. split; [reflexivity|].
      split; [assumption|]. split; [assumption|]. split; [assumption|]. split; [lia|assumption].
    + cbn [nonempty]. rewrite W3. destruct (W bb Lb) as (out & E & Lo & Mo).
      exists out. split; [exact E|].
      split; [assumption|]. split; [assumption|]. split; [reflexivity|]. split; [lia|assumption].
  - specialize (HB eq_refl). destruct (Hself HB) as [H1 H2]. exists bb. split; [reflexivity|].
    split; [now rewrite (Bnil HB)|]. split; [assumption|]. split; [rewrite (Bnil HB); symmetry; apply (ok_count _ Ob)|].
    split; [assumption|]. exact H2.
Qed.

(* the cascade of appendable below the hint test *)
Definition app_tail (k : kind) (c : chunk) (h : hist) : res (option inserts4) :=
  if is_stale (h_sum h) then Ok (Some (mkI4 [] [] [] []))
  else if is_stale (a_sum c) then Ok None
  else if cnt_lt k (h_count h) (a_cnt c) then Ok None
  else if negb (h_schema h =? c_schema c) || negb (feq (h_zt h) (c_zt c)) then Ok None
  else if (h_schema h =? custom_schema) && negb (bounds_match (h_custom h) (c_custom c)) then Ok None
  else if cnt_lt k (h_zcount h) (a_zcnt c) then Ok None
  else
    rp <- expand_counts k (c_ps c) (h_ps h) (a_pb c) (h_pb h) ;;
    match rp with None => Ok None | Some (fp, bp) =>
      rn <- expand_counts k (c_ns c) (h_ns h) (a_nb c) (h_nb h) ;;
      match rn with None => Ok None | Some (fn, bn) => Ok (Some (mkI4 fp fn bp bn)) end
    end.

Lemma appendable_unfold k c h :
  appendable k c h =
  if c_gauge c then Ok None
  else match h_hint h with HReset => Ok None | _ => app_tail k c h end.
Proof. unfold appendable, app_tail. destruct (c_gauge c); [reflexivity|]. destruct (h_hint h); reflexivity. Qed.

Lemma andb_negb_nonempty {A} (x y : list A) : negb (nonempty x) && negb (nonempty y) = true -> x = [] /\ y = [].
Proof. destruct x, y; simpl; intros; try discriminate; auto. Qed.

Theorem counter_step k c t h :
  inv c -> valid_h h -> is_gauge_hint h = false ->
  exists r, append k c t h = Ok r /\ step_ok k c t h r.
Proof.
  intros Ic V Hg. pose proof V as (Hzt & Hcu & V').
  unfold append. destruct (c_samples c) as [|s0 rest] eqn:E0; [destruct (inv_ne c Ic E0)|].
  rewrite Hg. cbn [negb]. rewrite appendable_unfold.
  destruct (c_gauge c) eqn:Eg; [cbn [bind]; eexists; split; [reflexivity|now apply new_chunk_ok]|].
  assert (Htail : exists r, (r0 <- app_tail k c h ;;
             match r0 with
             | None => Ok (h, NewChunk (append_raw (empty_chunk false) t h))
             | Some i =>
                 h1 <- (if nonempty (pB i) || nonempty (nB i) then
                          sp <- (if negb (nonempty (pF i)) && negb (nonempty (nF i)) then Ok (c_ps c, c_ns c)
                                 else ps <- adjust_for_inserts (h_ps h) (pB i) ;;
                                      ns <- adjust_for_inserts (h_ns h) (nB i) ;; Ok (ps, ns)) ;;
                          recode_hist k (with_layout h (fst sp) (snd sp) (h_pb h) (h_nb h)) (pB i) (nB i)
                        else Ok h) ;;
                 finish k c t h1 i
             end) = Ok r /\ step_ok k c t h r).
  { unfold app_tail. destruct (is_stale (h_sum h)) eqn:Es.
    - cbn [bind pB nB pF nF nonempty orb]. unfold finish. cbn [pB nB pF nF nonempty orb].
      eexists. split; [reflexivity|]. split; [apply input_same_refl|]. cbn [snd].
      destruct (append_stale c t h Ic Es) as (I' & _ & R').
      split; [exact I'|]. exists (read_chunk c). eexists. split; [exact R'|]. split; [apply Forall2_rd_refl|].
      split; [reflexivity|]. rewrite Es. exact Es.
    - destruct V' as [V'|(Wp & Wn & Lp & Ln & Hc)]; [congruence|].
      destruct (is_stale (a_sum c)) eqn:Ea; [eexists; split; [reflexivity|now apply new_chunk_ok]|].
      destruct (cnt_lt k (h_count h) (a_cnt c)); [eexists; split; [reflexivity|now apply new_chunk_ok]|].
      destruct (Z.eqb_spec (h_schema h) (c_schema c)) as [Esch|Esch]; cbn [negb orb];
        [|eexists; split; [reflexivity|now apply new_chunk_ok]].
      destruct (feq (h_zt h) (c_zt c)) eqn:Ezt; cbn [negb];
        [|eexists; split; [reflexivity|now apply new_chunk_ok]].
      destruct ((h_schema h =? custom_schema) && negb (bounds_match (h_custom h) (c_custom c))) eqn:Ecu;
        [eexists; split; [reflexivity|now apply new_chunk_ok]|].
      destruct (cnt_lt k (h_zcount h) (a_zcnt c)); [eexists; split; [reflexivity|now apply new_chunk_ok]|].
      destruct (counts_total_ok k (c_ps c) (h_ps h) (a_pb c) (h_pb h) (inv_ps c Ic) (wf_ok _ Wp) (inv_apb c Ic) Lp) as [rp EP].
      rewrite EP. cbn [bind]. destruct rp as [[fp bp]|]; [|eexists; split; [reflexivity|now apply new_chunk_ok]].
      destruct (counts_total_ok k (c_ns c) (h_ns h) (a_nb c) (h_nb h) (inv_ns c Ic) (wf_ok _ Wn) (inv_anb c Ic) Ln) as [rn EN].
      rewrite EN. cbn [bind]. destruct rn as [[fn bn]|]; [|eexists; split; [reflexivity|now apply new_chunk_ok]].
      destruct (counts_side k _ _ _ _ _ _ (inv_ps c Ic) (wf_ok _ Wp) EP)
        as (Mp & lop & IMp & FPn & BPn & (spa & EAp & Iap & Cap & Oap) & WFp & WBp).
      destruct (counts_side k _ _ _ _ _ _ (inv_ns c Ic) (wf_ok _ Wn) EN)
        as (Mn & lon & IMn & FNn & BNn & (sna & EAn & Ian & Can & Oan) & WFn & WBn).
      assert (Hcust : Forall2 zt_rel (c_custom c) (h_custom h)) by (eapply custom_ok; eauto; exact (inv_norm c Ic)).
      cbn [bind pB nB pF nF].
      destruct (nonempty bp || nonempty bn) eqn:EB.
      + destruct (negb (nonempty fp) && negb (nonempty fn)) eqn:ENF.
        * (* backward inserts only: the sample takes over the chunk's spans *)
          destruct (andb_negb_nonempty _ _ ENF) as [-> ->].
          destruct (h1_side_cnt k true true (c_ps c) spa bp Mp (h_ps h) (h_pb h) lop (inv_ps c Ic) (wf_ok _ Wp) Lp IMp
                      (fun _ => FPn eq_refl) BPn Iap Cap Oap WBp ltac:(discriminate))
            as (b1p & E1p & Ip & Op & Cp & L1p & M1p).
          destruct (h1_side_cnt k true true (c_ns c) sna bn Mn (h_ns h) (h_nb h) lon (inv_ns c Ic) (wf_ok _ Wn) Ln IMn
                      (fun _ => FNn eq_refl) BNn Ian Can Oan WBn ltac:(discriminate))
            as (b1n & E1n & In_ & On & Cn & L1n & M1n).
          cbn iota zeta in *. cbn [nonempty negb andb bind fst snd]. unfold recode_hist. cbn [with_layout h_pb h_nb h_ps h_ns].
          rewrite E1p, E1n. cbn [bind].
          apply (finish_ok k c t h [] [] bp bn Mp Mn); auto.
        * (* forward and backward inserts: the sample's spans are adjusted *)
          rewrite EAp, EAn. cbn [bind fst snd].
          destruct (h1_side_cnt k true false (c_ps c) spa bp Mp (h_ps h) (h_pb h) lop (inv_ps c Ic) (wf_ok _ Wp) Lp IMp
                      ltac:(discriminate) BPn Iap Cap Oap WBp ltac:(discriminate))
            as (b1p & E1p & Ip & Op & Cp & L1p & M1p).
          destruct (h1_side_cnt k true false (c_ns c) sna bn Mn (h_ns h) (h_nb h) lon (inv_ns c Ic) (wf_ok _ Wn) Ln IMn
                      ltac:(discriminate) BNn Ian Can Oan WBn ltac:(discriminate))
            as (b1n & E1n & In_ & On & Cn & L1n & M1n).
          cbn iota zeta in *. unfold recode_hist. cbn [with_layout h_pb h_nb h_ps h_ns].
          rewrite E1p, E1n. cbn [bind].
          apply (finish_ok k c t h fp fn bp bn Mp Mn); auto.
      + (* no backward inserts *)
        destruct (orb_nonempty_false _ _ EB) as [-> ->].
        destruct (h1_side_cnt k false false (c_ps c) spa [] Mp (h_ps h) (h_pb h) lop (inv_ps c Ic) (wf_ok _ Wp) Lp IMp
                    ltac:(discriminate) BPn Iap Cap Oap WBp ltac:(reflexivity))
          as (b1p & E1p & Ip & Op & Cp & L1p & M1p).
        destruct (h1_side_cnt k false false (c_ns c) sna [] Mn (h_ns h) (h_nb h) lon (inv_ns c Ic) (wf_ok _ Wn) Ln IMn
                    ltac:(discriminate) BNn Ian Can Oan WBn ltac:(reflexivity))
          as (b1n & E1n & In_ & On & Cn & L1n & M1n).
        cbn iota zeta in *. inversion E1p; subst b1p. inversion E1n; subst b1n. cbn [bind].
        destruct (finish_ok k c t h fp fn [] [] Mp Mn (h_ps h) (h_ns h) (h_pb h) (h_nb h)) as (r & E & S); auto.
        rewrite with_layout_id in E. exists r. auto. }
  destruct (h_hint h) eqn:Eh.
  - exact Htail.
  - cbn [bind]. eexists. split; [reflexivity|now apply new_chunk_ok].
  - exact Htail.
  - unfold is_gauge_hint in Hg. rewrite Eh in Hg. discriminate.
Qed.

(* ---------- any AppendHistogram call; whole series ---------- *)
Theorem append_step k c t h :
  inv c -> valid_h h -> exists r, append k c t h = Ok r /\ step_ok k c t h r.
Proof.
  intros Ic V. destruct (is_gauge_hint h) eqn:Hg; [now apply gauge_step|now apply counter_step].
Qed.

Lemma append_empty k c0 t h :
  c_samples c0 = [] -> valid_h h ->
  exists c', append k c0 t h = Ok (h, Same c') /\ inv c' /\ exists x, read_chunk c' = [x] /\ sem k x t h.
Proof.
  intros E0 V. unfold append. rewrite E0. eexists. split; [reflexivity|].
  apply (fresh_chunk k); [reflexivity|assumption].
Qed.

Definition sem_op (k : kind) (x : Z * hist) (o : op) : Prop := sem k x (o_t o) (o_h o).

Lemma read_series_app a b : read_series (a ++ b) = read_series a ++ read_series b.
Proof. unfold read_series. apply flat_map_app. Qed.

Lemma read_series_one c : read_series [c] = read_chunk c.
Proof. unfold read_series. simpl. apply app_nil_r. Qed.

Lemma Forall2_rd_sem k L R O :
  Forall2 (rd_eq k) L R -> Forall2 (sem_op k) R O -> Forall2 (sem_op k) L O.
Proof.
  intros H. revert O. induction H as [|x y L R Hxy _ IH]; intros O HO; inversion HO; subst; constructor.
  - unfold sem_op in *. eapply rd_eq_sem; eauto.
  - auto.
Qed.

Lemma series_step k cs done o :
  Forall inv cs -> Forall2 (sem_op k) (read_series cs) done -> valid_h (o_h o) ->
  exists cs', step k (Ok cs) o = Ok cs' /\ Forall inv cs' /\
              Forall2 (sem_op k) (read_series cs') (done ++ [o]).
Proof.
  intros Icss Hsem V. unfold step. cbn [bind].
  assert (Hfresh : forall pre, Forall inv pre -> Forall2 (sem_op k) (read_series pre) done ->
            exists cs', (r <- append k (empty_chunk false) (o_t o) (o_h o) ;;
                         match snd r with Same c | NewChunk c | Recoded c => Ok (pre ++ [c]) end) = Ok cs' /\
                        Forall inv cs' /\ Forall2 (sem_op k) (read_series cs') (done ++ [o])).
  { intros pre Ipre Hpre. destruct (append_empty k (empty_chunk false) (o_t o) (o_h o) eq_refl V) as (c' & E & I' & x & R' & S').
    rewrite E. cbn [bind snd]. eexists. split; [reflexivity|]. split.
    - apply Forall_app. split; [assumption|constructor; [assumption|constructor]].
    - rewrite read_series_app, read_series_one, R'. apply Forall2_app; [assumption|]. constructor; [exact S'|constructor]. }
  destruct (rev cs) as [|last before] eqn:Erev.
  - assert (cs = []) by (destruct cs; [reflexivity|]; apply (f_equal (@length _)) in Erev; rewrite rev_length in Erev; discriminate).
    subst cs. exact (Hfresh [] Icss Hsem).
  - assert (Ecs : cs = rev before ++ [last]) by (rewrite <- (rev_involutive cs), Erev; reflexivity).
    destruct (o_cut o); [exact (Hfresh cs Icss Hsem)|].
    rewrite Ecs in Icss, Hsem. apply Forall_app in Icss. destruct Icss as [Ibef Ilast].
    inversion Ilast as [|? ? Il _]; subst.
    rewrite read_series_app, read_series_one in Hsem.
    destruct (Forall2_app_inv_l _ _ Hsem) as (d1 & d2 & H1 & H2 & ->).
    destruct (append_step k last (o_t o) (o_h o) Il V) as ([h1 out] & E & _ & Sout).
    rewrite E. cbn [bind snd] in *.
    destruct out as [c'|c'|c'].
    + destruct Sout as (I' & L & x & R' & Q & S').
      eexists. split; [reflexivity|]. split.
      * apply Forall_app. split; [assumption|constructor; [assumption|constructor]].
      * rewrite read_series_app, read_series_one, R', app_assoc.
        apply Forall2_app; [apply Forall2_app; [assumption|]|constructor; [exact S'|constructor]].
        eapply Forall2_rd_sem; eauto.
    + destruct Sout as (I' & x & R' & S').
      eexists. split; [reflexivity|]. split.
      * apply Forall_app. split; [apply Forall_app; split; [assumption|constructor; [assumption|constructor]]|constructor; [assumption|constructor]].
      * rewrite !read_series_app, !read_series_one, R'.
        apply Forall2_app; [apply Forall2_app; assumption|constructor; [exact S'|constructor]].
    + destruct Sout as (I' & L & x & R' & Q & S').
      eexists. split; [reflexivity|]. split.
      * apply Forall_app. split; [assumption|constructor; [assumption|constructor]].
      * rewrite read_series_app, read_series_one, R', app_assoc.
        apply Forall2_app; [apply Forall2_app; [assumption|]|constructor; [exact S'|constructor]].
        eapply Forall2_rd_sem; eauto.
Qed.

Theorem run_roundtrip k ops :
  Forall (fun o => valid_h (o_h o)) ops ->
  exists cs, run k ops = Ok cs /\ Forall inv cs /\ Forall2 (sem_op k) (read_series cs) ops.
Proof.
  intros V. unfold run.
  assert (G : forall ops cs done, Forall inv cs -> Forall2 (sem_op k) (read_series cs) done ->
                Forall (fun o => valid_h (o_h o)) ops ->
                exists cs', fold_left (step k) ops (Ok cs) = Ok cs' /\ Forall inv cs' /\
                            Forall2 (sem_op k) (read_series cs') (done ++ ops)).
  { clear. induction ops as [|o ops IH]; intros cs done Ic Hs V.
    - exists cs. rewrite app_nil_r. auto.
    - inversion V as [|? ? Vo Vr]; subst.
      destruct (series_step k cs done o Ic Hs Vo) as (cs1 & E1 & I1 & S1).
      cbn [fold_left]. rewrite E1.
      destruct (IH cs1 (done ++ [o]) I1 S1 Vr) as (cs' & E' & I' & S').
      exists cs'. rewrite <- app_assoc in S'. auto. }
  exact (G ops [] [] (Forall_nil _) (Forall2_nil _) V).
Qed.

(* the caller's histogram: whatever AppendHistogram does to it, it stays the same histogram *)
Theorem append_input_same k c t h r :
  inv c \/ c_samples c = [] -> valid_h h -> append k c t h = Ok r -> input_same k (fst r) h.
Proof.
  intros [Ic|E0] V E.
  - destruct (append_step k c t h Ic V) as (r' & E' & S & _). rewrite E in E'. inversion E'; subst. exact S.
  - destruct (append_empty k c t h E0 V) as (c' & E' & _). rewrite E in E'. inversion E'; subst. apply input_same_refl.
Qed.

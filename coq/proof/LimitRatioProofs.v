(* proof/LimitRatioProofs.v — lemmas about model/LimitRatio.v (C34).
   Float reasoning goes through Flocq's bridge between Coq's primitive floats and its
   IEEE-754 formalisation (Flocq.IEEE754.PrimFloat: Prim2B, add_equiv, sub_equiv, ltb_equiv, ...),
   which rests on the standard library's FloatAxioms; real-number arithmetic by lra. *)
From Coq Require Import ZArith Reals Floats Bool List Lia Lra.
From Flocq Require Import Core BinarySingleNaN PrimFloat Plus_error Sterbenz.
From Verif Require Import model.LimitRatio.
Import ListNotations.
Local Open Scope R_scope.

Notation pfloat := PrimFloat.float.
#[local] Existing Instance Flocq.IEEE754.PrimFloat.Hprec.
#[local] Existing Instance Flocq.IEEE754.PrimFloat.Hmax.

Definition RR (x : pfloat) : R := B2R (Prim2B x).
Definition fin (x : pfloat) : Prop := is_finite (Prim2B x) = true.
Notation rnd := (round radix2 (fexp prec emax) (round_mode mode_NE)).

Lemma P2B_zero : Prim2B zero = B754_zero false.
Proof. rewrite zero_equiv. apply Prim2B_B2Prim. Qed.
Lemma P2B_one : Prim2B one = Bone.
Proof. rewrite one_equiv. apply Prim2B_B2Prim. Qed.
Lemma RR_zero : RR zero = 0.
Proof. unfold RR. rewrite P2B_zero. reflexivity. Qed.
Lemma RR_one : RR one = 1.
Proof. unfold RR. rewrite P2B_one. apply Bone_correct. Qed.
Lemma fin_zero : fin zero.
Proof. unfold fin. rewrite P2B_zero. reflexivity. Qed.
Lemma fin_one : fin one.
Proof. unfold fin. rewrite P2B_one. apply is_finite_Bone. Qed.

Lemma ltb_R x y : fin x -> fin y -> PrimFloat.ltb x y = Rlt_bool (RR x) (RR y).
Proof. intros Hx Hy. rewrite ltb_equiv. now apply Bltb_correct. Qed.
Lemma leb_R x y : fin x -> fin y -> PrimFloat.leb x y = Rle_bool (RR x) (RR y).
Proof. intros Hx Hy. rewrite leb_equiv. now apply Bleb_correct. Qed.
Lemma eqb_R x y : fin x -> fin y -> PrimFloat.eqb x y = Req_bool (RR x) (RR y).
Proof. intros Hx Hy. rewrite eqb_equiv. now apply Beqb_correct. Qed.

(* a float between two finite floats is finite *)
Lemma fin_between lo x hi :
  fin lo -> fin hi -> PrimFloat.leb lo x = true -> PrimFloat.leb x hi = true -> fin x.
Proof.
  unfold fin. rewrite !leb_equiv.
  destruct (Prim2B x) as [s|s| |s m e H]; try reflexivity.
  - destruct s; intros Hlo Hhi H0 H1.
    + destruct (Prim2B lo) as [sl|sl| |sl ml el Hl]; simpl in Hlo; try discriminate Hlo;
        unfold Bleb, SFleb in H0; simpl in H0; try discriminate H0; destruct sl; discriminate H0.
    + destruct (Prim2B hi) as [sl|sl| |sl ml el Hl]; simpl in Hhi; try discriminate Hhi;
        unfold Bleb, SFleb in H1; simpl in H1; try discriminate H1; destruct sl; discriminate H1.
  - intros _ _ H0. exfalso. unfold Bleb, SFleb in H0. simpl in H0.
    destruct (Prim2B lo) as [s|s| |s m e H]; simpl in H0; discriminate.
Qed.

Lemma fin_in01 x : PrimFloat.leb zero x = true -> PrimFloat.leb x one = true -> fin x.
Proof. apply fin_between; [apply fin_zero|apply fin_one]. Qed.

Lemma format_RR x : generic_format radix2 (fexp prec emax) (RR x).
Proof. apply generic_format_B2R. Qed.
Lemma format_one : generic_format radix2 (fexp prec emax) 1.
Proof. rewrite <- RR_one. apply format_RR. Qed.
Lemma format_m1 : generic_format radix2 (fexp prec emax) (-1).
Proof. apply generic_format_opp. apply format_one. Qed.

Lemma rnd_bounds a lo hi :
  generic_format radix2 (fexp prec emax) lo -> generic_format radix2 (fexp prec emax) hi ->
  lo <= a <= hi -> lo <= rnd a <= hi.
Proof.
  intros Flo Fhi [H1 H2]. split.
  - rewrite <- (round_generic radix2 (fexp prec emax) (round_mode mode_NE) lo Flo).
    apply round_le; [typeclasses eauto .. | exact H1].
  - rewrite <- (round_generic radix2 (fexp prec emax) (round_mode mode_NE) hi Fhi).
    apply round_le; [typeclasses eauto .. | exact H2].
Qed.

Lemma bpow_emax_big : 2 < bpow radix2 emax.
Proof.
  change 2 with (bpow radix2 1). apply bpow_lt. reflexivity.
Qed.

(* r - 1 for a finite r in [0,1]: no overflow, correctly rounded *)
Lemma complement_R r :
  fin r -> 0 <= RR r <= 1 ->
  fin (complement r) /\ RR (complement r) = rnd (RR r - 1).
Proof.
  intros Hf Hr. unfold complement, fin, RR. rewrite sub_equiv, P2B_one.
  generalize (Bminus_correct prec emax _ _ mode_NE (Prim2B r) Bone Hf (is_finite_Bone prec emax _ _)).
  rewrite Bone_correct. fold (RR r).
  assert (Hb : -1 <= rnd (RR r - 1) <= 0).
  { apply rnd_bounds. apply format_m1. apply generic_format_0. lra. }
  rewrite Rlt_bool_true.
  - intros (H1 & H2 & _). split; assumption.
  - generalize bpow_emax_big. apply Rabs_def2b' || (intros; apply Rabs_lt; lra).
Qed.

Lemma Rlt_bool_iff a b : Rlt_bool a b = true <-> a < b.
Proof. case Rlt_bool_spec; split; intros; try lra; try discriminate; auto. Qed.
Lemma Rle_bool_iff a b : Rle_bool a b = true <-> a <= b.
Proof. case Rle_bool_spec; split; intros; try lra; try discriminate; auto. Qed.

Ltac crush_nonfin :=
  unfold Bltb, Bleb, SFltb, SFleb in *; simpl in *;
  try discriminate; try reflexivity.

Lemma Bltb_Bleb_trans (x y z : binary_float prec emax) :
  Bltb x y = true -> Bleb y z = true -> Bltb x z = true.
Proof.
  intros H1 H2.
  destruct (is_finite x) eqn:Fx; [destruct (is_finite y) eqn:Fy; [destruct (is_finite z) eqn:Fz|]|].
  - rewrite Bltb_correct in * by assumption. rewrite Bleb_correct in H2 by assumption.
    apply Rlt_bool_iff. apply Rlt_bool_iff in H1. apply Rle_bool_iff in H2. lra.
  - destruct z as [sz|[|]| |sz mz ez Hz]; try discriminate Fz;
    destruct x as [[|]|sx| |[|] mx ex Hx]; try discriminate Fx;
    destruct y as [[|]|sy| |[|] my ey Hy]; try discriminate Fy; crush_nonfin.
  - destruct y as [sy|[|]| |sy my ey Hy]; try discriminate Fy;
    destruct x as [[|]|sx| |[|] mx ex Hx]; try discriminate Fx;
    destruct z as [[|]|[|]| |[|] mz ez Hz]; crush_nonfin.
  - destruct x as [sx|[|]| |sx mx ex Hx]; try discriminate Fx;
    destruct y as [[|]|[|]| |[|] my ey Hy];
    destruct z as [[|]|[|]| |[|] mz ez Hz]; crush_nonfin.
Qed.

Lemma Bleb_trans (x y z : binary_float prec emax) :
  Bleb x y = true -> Bleb y z = true -> Bleb x z = true.
Proof.
  intros H1 H2.
  destruct (is_finite x) eqn:Fx; [destruct (is_finite y) eqn:Fy; [destruct (is_finite z) eqn:Fz|]|].
  - rewrite Bleb_correct in * by assumption.
    apply Rle_bool_iff. apply Rle_bool_iff in H1. apply Rle_bool_iff in H2. lra.
  - destruct z as [sz|[|]| |sz mz ez Hz]; try discriminate Fz;
    destruct x as [[|]|sx| |[|] mx ex Hx]; try discriminate Fx;
    destruct y as [[|]|sy| |[|] my ey Hy]; try discriminate Fy; crush_nonfin.
  - destruct y as [sy|[|]| |sy my ey Hy]; try discriminate Fy;
    destruct x as [[|]|sx| |[|] mx ex Hx]; try discriminate Fx;
    destruct z as [[|]|[|]| |[|] mz ez Hz]; crush_nonfin.
  - destruct x as [sx|[|]| |sx mx ex Hx]; try discriminate Fx;
    destruct y as [[|]|[|]| |[|] my ey Hy];
    destruct z as [[|]|[|]| |[|] mz ez Hz]; crush_nonfin.
Qed.

Lemma Bleb_not_Bltb (x y : binary_float prec emax) : Bleb x y = true -> Bltb y x = false.
Proof.
  intros H1.
  destruct (is_finite x) eqn:Fx; [destruct (is_finite y) eqn:Fy|].
  - rewrite Bleb_correct in H1 by assumption. rewrite Bltb_correct by assumption.
    apply Rle_bool_iff in H1. apply Rlt_bool_false. lra.
  - destruct y as [sy|[|]| |sy my ey Hy]; try discriminate Fy;
    destruct x as [[|]|sx| |[|] mx ex Hx]; try discriminate Fx; crush_nonfin.
  - destruct x as [sx|[|]| |sx mx ex Hx]; try discriminate Fx;
    destruct y as [[|]|[|]| |[|] my ey Hy]; crush_nonfin.
Qed.

(* ---------- monotonicity, for all binary64 values (NaN and infinities included) ---------- *)
Lemma monotone r1 r2 off :
  PrimFloat.leb zero r1 = true -> PrimFloat.leb r1 r2 = true ->
  add_ratio_sample r1 off = true -> add_ratio_sample r2 off = true.
Proof.
  unfold add_ratio_sample. intros H0 H12 Hs.
  rewrite (ltb_equiv r1 zero), (Bleb_not_Bltb _ _ (eq_trans (eq_sym (leb_equiv _ _)) H0)) in Hs.
  rewrite H0 in Hs. simpl in Hs. rewrite orb_false_r in Hs.
  assert (H02 : PrimFloat.leb zero r2 = true).
  { rewrite leb_equiv in *. eapply Bleb_trans; eassumption. }
  rewrite H02. simpl.
  assert (Hlt : PrimFloat.ltb off r2 = true).
  { rewrite ltb_equiv in *. rewrite leb_equiv in H12. eapply Bltb_Bleb_trans; eassumption. }
  rewrite Hlt. reflexivity.
Qed.

(* ---------- the complement and its boundary, in real numbers ---------- *)
Lemma complement_neg r :
  fin r -> 0 <= RR r < 1 -> RR (complement r) < 0.
Proof.
  intros Hf Hr. destruct (complement_R r Hf (conj (proj1 Hr) (Rlt_le _ _ (proj2 Hr)))) as [_ HR]. rewrite HR.
  assert (Hb : -1 <= rnd (RR r - 1) <= 0).
  { apply rnd_bounds. apply format_m1. apply generic_format_0. lra. }
  assert (Hn : rnd (RR r - 1) <> 0).
  { unfold Rminus. apply round_plus_neq_0; try typeclasses eauto.
    apply format_RR. apply generic_format_opp, format_one. lra. }
  lra.
Qed.

Lemma boundary_R r :
  fin r -> 0 <= RR r <= 1 ->
  fin (complement_boundary r) /\
  RR (complement_boundary r) = rnd (1 + rnd (RR r - 1)) /\
  0 <= RR (complement_boundary r) <= 1.
Proof.
  intros Hf Hr. destruct (complement_R r Hf Hr) as [Hfc HRc].
  assert (Hb : -1 <= rnd (RR r - 1) <= 0).
  { apply rnd_bounds. apply format_m1. apply generic_format_0. lra. }
  assert (Hb2 : 0 <= rnd (1 + rnd (RR r - 1)) <= 1).
  { apply rnd_bounds. apply generic_format_0. apply format_one. lra. }
  unfold complement_boundary, fin, RR. rewrite add_equiv, P2B_one.
  generalize (Bplus_correct prec emax _ _ mode_NE Bone (Prim2B (complement r)) (is_finite_Bone prec emax _ _) Hfc).
  rewrite Bone_correct. fold (RR (complement r)). rewrite HRc.
  rewrite Rlt_bool_true.
  - intros (H1 & H2 & _). rewrite H1. repeat split; try assumption; lra.
  - generalize bpow_emax_big. intros. apply Rabs_lt. lra.
Qed.

(* the sampler on finite arguments, in real numbers *)
Lemma ars_nonneg r off :
  fin r -> fin off -> 0 <= RR r ->
  add_ratio_sample r off = Rlt_bool (RR off) (RR r).
Proof.
  intros Hr Ho H0. unfold add_ratio_sample.
  rewrite (leb_R zero r fin_zero Hr), (ltb_R r zero Hr fin_zero), (ltb_R off r Ho Hr), RR_zero.
  rewrite (proj2 (Rle_bool_iff 0 (RR r)) H0). rewrite (Rlt_bool_false (RR r) 0) by lra.
  simpl. apply orb_false_r.
Qed.

Lemma ars_neg c off :
  fin c -> fin off -> fin (PrimFloat.add one c) -> RR c < 0 ->
  add_ratio_sample c off = Rle_bool (RR (PrimFloat.add one c)) (RR off).
Proof.
  intros Hc Ho H1c H0. unfold add_ratio_sample.
  rewrite (leb_R zero c fin_zero Hc), (ltb_R c zero Hc fin_zero), (leb_R _ off H1c Ho), RR_zero.
  rewrite (proj2 (Rlt_bool_iff (RR c) 0) H0). rewrite (Rle_bool_false 0 (RR c)) by lra.
  reflexivity.
Qed.

Lemma dom_r r :
  PrimFloat.leb zero r = true -> PrimFloat.leb r one = true -> fin r /\ 0 <= RR r <= 1.
Proof.
  intros H0 H1. assert (Hf : fin r) by (apply fin_in01; assumption).
  rewrite (leb_R zero r fin_zero Hf), RR_zero in H0. apply Rle_bool_iff in H0.
  rewrite (leb_R r one Hf fin_one), RR_one in H1. apply Rle_bool_iff in H1. auto.
Qed.

Lemma Bltb_Bleb (x y : binary_float prec emax) : Bltb x y = true -> Bleb x y = true.
Proof.
  intros H1.
  destruct (is_finite x) eqn:Fx; [destruct (is_finite y) eqn:Fy|].
  - rewrite Bltb_correct in H1 by assumption. rewrite Bleb_correct by assumption.
    apply Rlt_bool_iff in H1. apply Rle_bool_iff. lra.
  - destruct y as [sy|[|]| |sy my ey Hy]; try discriminate Fy;
    destruct x as [[|]|sx| |[|] mx ex Hx]; try discriminate Fx; crush_nonfin.
  - destruct x as [sx|[|]| |sx mx ex Hx]; try discriminate Fx;
    destruct y as [[|]|[|]| |[|] my ey Hy]; crush_nonfin.
Qed.

Lemma dom_off off :
  PrimFloat.leb zero off = true -> PrimFloat.ltb off one = true -> fin off /\ 0 <= RR off < 1.
Proof.
  intros H0 H1.
  assert (Hf : fin off).
  { apply fin_in01. assumption. rewrite leb_equiv. rewrite ltb_equiv in H1. now apply Bltb_Bleb. }
  rewrite (leb_R zero off fin_zero Hf), RR_zero in H0. apply Rle_bool_iff in H0.
  rewrite (ltb_R off one Hf fin_one), RR_one in H1. apply Rlt_bool_iff in H1. auto.
Qed.

Lemma in_gap_R r off :
  fin r -> fin off -> 0 <= RR r <= 1 ->
  in_gap r off =
  (Rle_bool (RR r) (RR off) && Rlt_bool (RR off) (RR (complement_boundary r))) ||
  (Rle_bool (RR (complement_boundary r)) (RR off) && Rlt_bool (RR off) (RR r)).
Proof.
  intros Hfr Hfo Hr. destruct (boundary_R r Hfr Hr) as (Hfb & _ & _).
  unfold in_gap.
  now rewrite (leb_R r off Hfr Hfo), (ltb_R off _ Hfo Hfb), (leb_R _ off Hfb Hfo), (ltb_R off r Hfo Hfr).
Qed.

(* exact characterisation of where the partition holds: for r in [0,1] and an offset in
   [0,1), exactly one of r and r - 1 selects the offset iff the offset is not between the
   two boundaries *)
Lemma partition_iff_not_in_gap r off :
  PrimFloat.leb zero r = true -> PrimFloat.leb r one = true ->
  PrimFloat.leb zero off = true -> PrimFloat.ltb off one = true ->
  xorb (add_ratio_sample r off) (add_ratio_sample (complement r) off) = negb (in_gap r off).
Proof.
  intros Hr0 Hr1 Ho0 Ho1.
  destruct (dom_r r Hr0 Hr1) as [Hfr Hr]. destruct (dom_off off Ho0 Ho1) as [Hfo Ho].
  destruct (complement_R r Hfr Hr) as [Hfc HRc].
  destruct (boundary_R r Hfr Hr) as (Hfb & HRb & Hbb).
  rewrite (in_gap_R r off Hfr Hfo Hr).
  rewrite (ars_nonneg r off Hfr Hfo (proj1 Hr)).
  destruct (Rlt_dec (RR r) 1) as [Hlt|Hge].
  - rewrite (ars_neg (complement r) off Hfc Hfo Hfb (complement_neg r Hfr (conj (proj1 Hr) Hlt))).
    fold (complement_boundary r).
    set (a := RR off) in *. set (x := RR r) in *. set (y := RR (complement_boundary r)) in *.
    destruct (Rlt_bool_spec a x), (Rle_bool_spec y a), (Rle_bool_spec x a), (Rlt_bool_spec a y);
      simpl; try reflexivity; exfalso; lra.
  - assert (Hx : RR r = 1) by lra.
    assert (Hc0 : RR (complement r) = 0).
    { rewrite HRc, Hx. replace (1 - 1) with 0 by ring. apply round_0. typeclasses eauto. }
    rewrite (ars_nonneg (complement r) off Hfc Hfo) by lra.
    rewrite Hc0, HRb, Hx. replace (1 - 1) with 0 by ring.
    rewrite round_0 by typeclasses eauto. rewrite Rplus_0_r.
    rewrite (round_generic radix2 (fexp prec emax) (round_mode mode_NE) 1 format_one).
    set (a := RR off) in *.
    destruct (Rlt_bool_spec a 1), (Rlt_bool_spec a 0), (Rle_bool_spec 1 a);
      simpl; try reflexivity; exfalso; lra.
Qed.

(* when the complement is exact, fl(1 + fl(r - 1)) = r, there is no gap *)
Lemma partition_partial r off :
  PrimFloat.leb zero r = true -> PrimFloat.leb r one = true ->
  PrimFloat.leb zero off = true -> PrimFloat.ltb off one = true ->
  PrimFloat.eqb (complement_boundary r) r = true ->
  xorb (add_ratio_sample r off) (add_ratio_sample (complement r) off) = true.
Proof.
  intros Hr0 Hr1 Ho0 Ho1 He.
  rewrite (partition_iff_not_in_gap r off Hr0 Hr1 Ho0 Ho1).
  destruct (dom_r r Hr0 Hr1) as [Hfr Hr]. destruct (dom_off off Ho0 Ho1) as [Hfo Ho].
  destruct (boundary_R r Hfr Hr) as (Hfb & _ & _).
  rewrite (eqb_R _ r Hfb Hfr) in He.
  rewrite (in_gap_R r off Hfr Hfo Hr).
  revert He. case Req_bool_spec; [intros -> _|discriminate].
  set (a := RR off). set (x := RR r).
  destruct (Rle_bool_spec x a), (Rlt_bool_spec a x); simpl; try reflexivity; exfalso; lra.
Qed.

Definition half : PrimFloat.float := 0x1p-1%float.

Lemma RR_half : RR half = / 2 /\ fin half.
Proof.
  unfold RR, fin, Prim2B. rewrite B2R_SF2B, is_finite_SF2B.
  replace (Prim2SF half) with (S754_finite false 4503599627370496 (-53)) by (vm_compute; reflexivity).
  split; [|reflexivity].
  unfold SF2R, F2R. simpl. lra.
Qed.

Lemma upper_half_exact r :
  PrimFloat.leb half r = true -> PrimFloat.leb r one = true ->
  PrimFloat.eqb (complement_boundary r) r = true.
Proof.
  intros H0 H1. destruct RR_half as [Hh Hfh].
  assert (Hf : fin r) by (apply (fin_between half r one); auto using fin_one).
  rewrite (leb_R half r Hfh Hf), Hh in H0. apply Rle_bool_iff in H0.
  rewrite (leb_R r one Hf fin_one), RR_one in H1. apply Rle_bool_iff in H1.
  assert (Hr : 0 <= RR r <= 1) by lra.
  destruct (boundary_R r Hf Hr) as (Hfb & HRb & _).
  rewrite (eqb_R _ r Hfb Hf), HRb.
  assert (Hs : generic_format radix2 (fexp prec emax) (RR r - 1)).
  { apply sterbenz; try typeclasses eauto. apply format_RR. apply format_one. lra. }
  rewrite (round_generic radix2 (fexp prec emax) (round_mode mode_NE) (RR r - 1) Hs).
  replace (1 + (RR r - 1)) with (RR r) by ring.
  rewrite (round_generic radix2 (fexp prec emax) (round_mode mode_NE) (RR r) (format_RR r)).
  apply Req_bool_true. reflexivity.
Qed.

(* for every ratio in the upper half the complement is exact (Sterbenz), so the partition holds *)
Lemma partition_upper_half r off :
  PrimFloat.leb half r = true -> PrimFloat.leb r one = true ->
  PrimFloat.leb zero off = true -> PrimFloat.ltb off one = true ->
  xorb (add_ratio_sample r off) (add_ratio_sample (complement r) off) = true.
Proof.
  intros H0 H1 Ho0 Ho1. apply partition_partial; auto.
  - rewrite leb_equiv in *. eapply Bleb_trans; [|exact H0].
    rewrite <- leb_equiv. vm_compute. reflexivity.
  - now apply upper_half_exact.
Qed.

(* ---------- the partition property is false of the faithful model ---------- *)
Definition part_ok (r off : pfloat) : bool :=
  xorb (add_ratio_sample r off) (add_ratio_sample (complement r) off).
Definition in01b (x : pfloat) : bool := PrimFloat.leb zero x && PrimFloat.leb x one.

Lemma partition_refuted_both :
  let r := 0x1.999999999999ap-4%float in let off := 0x1.9999999999998p-4%float in
  in01b r = true /\ PrimFloat.leb zero off = true /\ PrimFloat.ltb off one = true /\
  add_ratio_sample r off = true /\ add_ratio_sample (complement r) off = true.
Proof. vm_compute. repeat split. Qed.

Lemma partition_refuted_neither :
  let r := 0x1.3333333333333p-2%float in let off := 0x1.3333333333333p-2%float in
  in01b r = true /\ PrimFloat.leb zero off = true /\ PrimFloat.ltb off one = true /\
  add_ratio_sample r off = false /\ add_ratio_sample (complement r) off = false.
Proof. vm_compute. repeat split. Qed.

Lemma partition_refuted :
  exists r off, in01b r = true /\ PrimFloat.leb zero off = true /\ PrimFloat.ltb off one = true /\
                part_ok r off = false.
Proof.
  exists 0x1.999999999999ap-4%float, 0x1.9999999999998p-4%float. vm_compute. repeat split.
Qed.

(* second shape: the largest hashes map to the offset 1.0, which no ratio of [0,1] selects *)
Lemma offset_one_reachable : sample_offset (2 ^ 64 - 1) = one /\ sample_offset (2 ^ 64 - 1024) = one
                             /\ PrimFloat.ltb (sample_offset (2 ^ 64 - 1025)) one = true.
Proof. vm_compute. repeat split. Qed.

Lemma offset_one_unselected r :
  PrimFloat.leb zero r = true -> PrimFloat.leb r one = true ->
  add_ratio_sample r one = false.
Proof.
  intros H0 H1. destruct (dom_r r H0 H1) as [Hf Hr].
  rewrite (ars_nonneg r one Hf fin_one (proj1 Hr)), RR_one. apply Rlt_bool_false. lra.
Qed.

Lemma offset_one_refuted :
  add_ratio_sample one (sample_offset (2 ^ 64 - 1)) = false /\
  add_ratio_sample (complement one) (sample_offset (2 ^ 64 - 1)) = false.
Proof. vm_compute. split; reflexivity. Qed.

(* ---------- selection depends only on the labels ---------- *)
Section Vector.
  Variable L P : Type.
  Variable hash : L -> Z.
  Notation limit_ratio := (limit_ratio L P hash).
  Notation selects := (selects L hash).

  Lemma limit_ratio_spec f v :
    limit_ratio f v = ErrNaN \/
    exists keep : L -> bool,
      limit_ratio f v = Selected (filter (fun s => keep (fst s)) v) /\
      forall v', limit_ratio f v' = Selected (filter (fun s => keep (fst s)) v').
  Proof.
    unfold LimitRatio.limit_ratio.
    destruct (PrimFloat.eqb f zero).
    - right. exists (fun _ => false). split.
      + induction v; simpl; auto.
      + intros v'. induction v'; simpl; auto.
    - destruct (PrimFloat.is_nan f); [left; reflexivity|].
      right. exists (fun l => selects (clamp f) l). split; reflexivity.
  Qed.

  (* whether a sample is in the output is decided by its label set alone: not by its value /
     payload, its position, or which other samples the vector contains *)
  Lemma labels_only f v v' a a' (s s' : L * P) :
    limit_ratio f v = Selected a -> limit_ratio f v' = Selected a' ->
    In s v -> In s' v' -> fst s = fst s' ->
    (In s a <-> In s' a').
  Proof.
    intros Ha Ha' Hs Hs' Hl.
    destruct (limit_ratio_spec f v) as [E|(keep & E & Eall)]; [congruence|].
    rewrite E in Ha. injection Ha as <-. rewrite (Eall v') in Ha'. injection Ha' as <-.
    rewrite !filter_In, Hl. tauto.
  Qed.

  Lemma selected_sublist f v a : limit_ratio f v = Selected a -> incl a v.
  Proof.
    intros Ha. destruct (limit_ratio_spec f v) as [E|(keep & E & _)]; [congruence|].
    rewrite E in Ha. injection Ha as <-. intros x Hx. apply filter_In in Hx. tauto.
  Qed.

  Lemma fin_neg_one : fin neg_one /\ RR neg_one = -1.
  Proof.
    unfold fin, RR, neg_one. rewrite opp_equiv, P2B_one. rewrite is_finite_Bopp, B2R_Bopp, Bone_correct.
    split. apply is_finite_Bone. reflexivity.
  Qed.

  Lemma fin_not_nan f : fin f -> PrimFloat.is_nan f = false.
  Proof.
    unfold fin. rewrite is_nan_equiv. destruct (Prim2B f); simpl; auto; discriminate.
  Qed.

  Lemma filter_none {A} (p : A -> bool) l : (forall x, In x l -> p x = false) -> filter p l = [].
  Proof.
    induction l as [|x l IH]; simpl; intros H; auto.
    rewrite (H x (or_introl eq_refl)). apply IH. intros y Hy. apply H. now right.
  Qed.

  (* on a ratio of [-1,1] and offsets >= 0 the engine is exactly the filter by the sampler
     (the early return for r == 0 agrees with the sampler, which selects nothing for +-0) *)
  Lemma limit_ratio_filter f v :
    fin f -> -1 <= RR f <= 1 ->
    (forall s, In s v -> fin (sample_offset (hash (fst s))) /\ 0 <= RR (sample_offset (hash (fst s)))) ->
    limit_ratio f v = Selected (filter (fun s => selects f (fst s)) v).
  Proof.
    intros Hf Hr Hv. unfold LimitRatio.limit_ratio.
    rewrite (eqb_R f zero Hf fin_zero), RR_zero.
    case Req_bool_spec; intros Hz.
    - f_equal. symmetry. apply filter_none. intros s Hs. destruct (Hv s Hs) as [Hfo Ho].
      unfold LimitRatio.selects. rewrite (ars_nonneg f _ Hf Hfo) by lra.
      apply Rlt_bool_false. lra.
    - rewrite (fin_not_nan f Hf). destruct fin_neg_one as [Hfm Hm].
      unfold clamp. rewrite (ltb_R f neg_one Hf Hfm), Hm, (Rlt_bool_false (RR f) (-1)) by lra.
      rewrite (ltb_R one f fin_one Hf), RR_one, (Rlt_bool_false 1 (RR f)) by lra.
      reflexivity.
  Qed.

  (* the partition of a whole vector, outside the gap *)
  Lemma partition_vector r v :
    PrimFloat.leb zero r = true -> PrimFloat.leb r one = true ->
    (forall s, In s v ->
       let off := sample_offset (hash (fst s)) in
       PrimFloat.leb zero off = true /\ PrimFloat.ltb off one = true /\ in_gap r off = false) ->
    exists a b,
      limit_ratio r v = Selected a /\ limit_ratio (complement r) v = Selected b /\
      (forall s, In s v -> (In s a <-> ~ In s b)) /\ incl a v /\ incl b v.
  Proof.
    intros Hr0 Hr1 Hv. destruct (dom_r r Hr0 Hr1) as [Hfr Hr].
    destruct (complement_R r Hfr Hr) as [Hfc HRc].
    assert (Hcb : -1 <= RR (complement r) <= 0).
    { rewrite HRc. apply rnd_bounds. apply format_m1. apply generic_format_0. lra. }
    assert (Hoffs : forall s, In s v ->
              fin (sample_offset (hash (fst s))) /\ 0 <= RR (sample_offset (hash (fst s)))).
    { intros s Hs. destruct (Hv s Hs) as (A & B & _). destruct (dom_off _ A B) as [F O]. split; [exact F|lra]. }
    exists (filter (fun s => selects r (fst s)) v), (filter (fun s => selects (complement r) (fst s)) v).
    split; [apply limit_ratio_filter; auto; lra|].
    split; [apply limit_ratio_filter; auto; lra|].
    split; [|split; intros x Hx; apply filter_In in Hx; tauto].
    intros s Hs. rewrite !filter_In. destruct (Hv s Hs) as (A & B & G).
    generalize (partition_iff_not_in_gap r _ Hr0 Hr1 A B). rewrite G. simpl.
    unfold LimitRatio.selects.
    destruct (add_ratio_sample r _), (add_ratio_sample (complement r) _); simpl; intros E; try discriminate E;
      split; intros; intuition discriminate.
  Qed.
End Vector.

(* ====================== range queries with a step-varying ratio ====================== *)
Notation bf := (binary_float prec emax).
Notation bnan := (@BinarySingleNaN.is_nan prec emax).

Lemma Req_bool_iff a b : Req_bool a b = true <-> a = b.
Proof. case Req_bool_spec; split; intros; try lra; try discriminate; auto. Qed.

Ltac crush2 :=
  unfold Bltb, Bleb, Beqb, SFltb, SFleb, SFeqb in *; simpl in *;
  try discriminate; try reflexivity; try assumption.
Ltac toR :=
  repeat match goal with
  | H : Bleb _ _ = true |- _ => rewrite Bleb_correct in H by assumption; apply Rle_bool_iff in H
  | H : Bltb _ _ = true |- _ => rewrite Bltb_correct in H by assumption; apply Rlt_bool_iff in H
  | H : Beqb _ _ = true |- _ => rewrite Beqb_correct in H by assumption; apply Req_bool_iff in H
  | H : Bltb _ _ = false |- _ => rewrite Bltb_correct in H by assumption; revert H; case Rlt_bool_spec; [discriminate|intros H _]
  end;
  try (rewrite Bleb_correct by assumption; apply Rle_bool_iff);
  try (rewrite Beqb_correct by assumption; apply Req_bool_iff);
  try lra.
Ltac full x := destruct x as [[|]|[|]| |[|] ? ? ?].

Lemma Bleb_refl (x : bf) : bnan x = false -> Bleb x x = true.
Proof.
  intros N. destruct (is_finite x) eqn:Fx; [toR|full x; crush2].
Qed.

Lemma Bleb_total (x y : bf) : bnan x = false -> bnan y = false -> Bltb y x = false -> Bleb x y = true.
Proof.
  intros Nx Ny H.
  destruct (is_finite x) eqn:Fx; [destruct (is_finite y) eqn:Fy|]; [toR| |]; full x; full y; crush2.
Qed.

Lemma Bleb_Beqb_r (x y z : bf) : Bleb x y = true -> Beqb y z = true -> Bleb x z = true.
Proof.
  intros H1 H2.
  destruct (is_finite x) eqn:Fx; [destruct (is_finite y) eqn:Fy; [destruct (is_finite z) eqn:Fz|]|];
    [toR| | |]; full x; full y; full z; crush2.
Qed.

Lemma Beqb_Bleb_l (x y z : bf) : Beqb x z = true -> Bleb x y = true -> Bleb z y = true.
Proof.
  intros H1 H2.
  destruct (is_finite x) eqn:Fx; [destruct (is_finite y) eqn:Fy; [destruct (is_finite z) eqn:Fz|]|];
    [toR| | |]; full x; full y; full z; crush2.
Qed.

Lemma Bleb_antisym (x y : bf) : Bleb x y = true -> Bleb y x = true -> Beqb x y = true.
Proof.
  intros H1 H2.
  destruct (is_finite x) eqn:Fx; [destruct (is_finite y) eqn:Fy|]; [toR| |]; full x; full y; crush2.
Qed.

Lemma Beqb_both (x y z : bf) : Beqb x z = true -> Beqb y z = true -> Bleb x y = true.
Proof.
  intros H1 H2.
  destruct (is_finite x) eqn:Fx; [destruct (is_finite y) eqn:Fy; [destruct (is_finite z) eqn:Fz|]|];
    [toR| | |]; full x; full y; full z; crush2.
Qed.

Lemma Bleb_pinf (x : bf) : bnan x = false -> Bleb x (B754_infinity false) = true.
Proof. intros N. full x; crush2. Qed.
Lemma Bleb_ninf (x : bf) : bnan x = false -> Bleb (B754_infinity true) x = true.
Proof. intros N. full x; crush2. Qed.

(* ---------- Prim-level wrappers ---------- *)
Notation pnan := PrimFloat.is_nan.
Notation "x <=' y" := (PrimFloat.leb x y = true) (at level 70).

Lemma P2B_inf : Prim2B infinity = B754_infinity false.
Proof. rewrite infinity_equiv. apply Prim2B_B2Prim. Qed.
Lemma P2B_ninf : Prim2B neg_infinity = B754_infinity true.
Proof. rewrite neg_infinity_equiv. apply Prim2B_B2Prim. Qed.

Lemma pleb_refl x : pnan x = false -> x <=' x.
Proof. rewrite is_nan_equiv, leb_equiv. apply Bleb_refl. Qed.
Lemma pleb_trans x y z : x <=' y -> y <=' z -> x <=' z.
Proof. rewrite !leb_equiv. apply Bleb_trans. Qed.
Lemma pleb_total x y : pnan x = false -> pnan y = false -> PrimFloat.ltb y x = false -> x <=' y.
Proof. rewrite !is_nan_equiv, ltb_equiv, leb_equiv. apply Bleb_total. Qed.
Lemma pltb_leb x y : PrimFloat.ltb x y = true -> x <=' y.
Proof. rewrite ltb_equiv, leb_equiv. apply Bltb_Bleb. Qed.
Lemma pleb_eqb_r x y z : x <=' y -> PrimFloat.eqb y z = true -> x <=' z.
Proof. rewrite !leb_equiv, eqb_equiv. apply Bleb_Beqb_r. Qed.
Lemma peqb_leb_l x y z : PrimFloat.eqb x z = true -> x <=' y -> z <=' y.
Proof. rewrite !leb_equiv, eqb_equiv. apply Beqb_Bleb_l. Qed.
Lemma pleb_antisym x y : x <=' y -> y <=' x -> PrimFloat.eqb x y = true.
Proof. rewrite !leb_equiv, eqb_equiv. apply Bleb_antisym. Qed.
Lemma peqb_both x y z : PrimFloat.eqb x z = true -> PrimFloat.eqb y z = true -> x <=' y.
Proof. rewrite !eqb_equiv, leb_equiv. apply Beqb_both. Qed.
Lemma pleb_pinf x : pnan x = false -> x <=' infinity.
Proof. rewrite is_nan_equiv, leb_equiv, P2B_inf. apply Bleb_pinf. Qed.
Lemma pleb_ninf x : pnan x = false -> neg_infinity <=' x.
Proof. rewrite is_nan_equiv, leb_equiv, P2B_ninf. apply Bleb_ninf. Qed.

(* math.Max / math.Min on non-NaN arguments: an upper / lower bound of both, and not NaN *)
Lemma go_max_ub x y :
  pnan x = false -> pnan y = false ->
  pnan (go_max x y) = false /\ x <=' go_max x y /\ y <=' go_max x y.
Proof.
  intros Nx Ny. unfold go_max.
  destruct (PrimFloat.eqb x infinity || PrimFloat.eqb y infinity).
  { split; [reflexivity|split; now apply pleb_pinf]. }
  rewrite Nx, Ny. simpl.
  destruct (PrimFloat.eqb x zero && PrimFloat.eqb y zero) eqn:Z.
  { apply andb_prop in Z. destruct Z as [Zx Zy].
    destruct (get_sign x); (split; [|split]); auto using pleb_refl; eapply peqb_both; eassumption. }
  destruct (PrimFloat.ltb y x) eqn:E; (split; [|split]); auto using pleb_refl, pltb_leb, pleb_total.
Qed.

Lemma go_min_lb x y :
  pnan x = false -> pnan y = false ->
  pnan (go_min x y) = false /\ go_min x y <=' x /\ go_min x y <=' y.
Proof.
  intros Nx Ny. unfold go_min.
  destruct (PrimFloat.eqb x neg_infinity || PrimFloat.eqb y neg_infinity).
  { split; [reflexivity|split; now apply pleb_ninf]. }
  rewrite Nx, Ny. simpl.
  destruct (PrimFloat.eqb x zero && PrimFloat.eqb y zero) eqn:Z.
  { apply andb_prop in Z. destruct Z as [Zx Zy].
    destruct (get_sign x); (split; [|split]); auto using pleb_refl; eapply peqb_both; eassumption. }
  destruct (PrimFloat.ltb x y) eqn:E; (split; [|split]); auto using pleb_refl, pltb_leb, pleb_total.
Qed.

Lemma fold_max_ub fs : forall acc,
  pnan acc = false -> existsb pnan fs = false ->
  pnan (fold_left go_max fs acc) = false /\ acc <=' fold_left go_max fs acc /\
  forall f, In f fs -> f <=' fold_left go_max fs acc.
Proof.
  induction fs as [|a fs IH]; simpl; intros acc Na Hn.
  - split; [|split]; auto using pleb_refl; try (intros f []).
  - apply orb_false_elim in Hn. destruct Hn as [Nf Hn].
    destruct (go_max_ub acc a Na Nf) as (Nm & L1 & L2).
    destruct (IH _ Nm Hn) as (N' & L' & Hall).
    split; [|split]; auto.
    + eapply pleb_trans; eassumption.
    + intros f [<-|Hf]; [eapply pleb_trans; eassumption|auto].
Qed.

Lemma fold_min_lb fs : forall acc,
  pnan acc = false -> existsb pnan fs = false ->
  pnan (fold_left go_min fs acc) = false /\ fold_left go_min fs acc <=' acc /\
  forall f, In f fs -> fold_left go_min fs acc <=' f.
Proof.
  induction fs as [|a fs IH]; simpl; intros acc Na Hn.
  - split; [|split]; auto using pleb_refl; try (intros f []).
  - apply orb_false_elim in Hn. destruct Hn as [Nf Hn].
    destruct (go_min_lb acc a Na Nf) as (Nm & L1 & L2).
    destruct (IH _ Nm Hn) as (N' & L' & Hall).
    split; [|split]; auto.
    + eapply pleb_trans; eassumption.
    + intros f [<-|Hf]; [eapply pleb_trans; eassumption|auto].
Qed.

(* the early return of rangeEvalAgg fires only when every step's ratio is +-0 *)
Lemma params_zero_all fs :
  existsb pnan fs = false ->
  PrimFloat.eqb (params_max fs) zero = true -> PrimFloat.eqb (params_min fs) zero = true ->
  forall f, In f fs -> PrimFloat.eqb f zero = true.
Proof.
  intros Hn Hmax Hmin f Hf. unfold params_max, params_min in *.
  destruct (fold_max_ub fs (PrimFloat.opp max_float64) eq_refl Hn) as (_ & _ & Hub).
  destruct (fold_min_lb fs max_float64 eq_refl Hn) as (_ & _ & Hlb).
  apply pleb_antisym.
  - eapply pleb_eqb_r; [apply Hub, Hf|exact Hmax].
  - eapply peqb_leb_l; [exact Hmin|apply Hlb, Hf].
Qed.

(* all NaNs are one value for primitive floats *)
Lemma is_nan_eq f : pnan f = true -> f = nan.
Proof.
  rewrite is_nan_equiv. intros H. apply Prim2B_inj. rewrite nan_equiv, Prim2B_B2Prim.
  destruct (Prim2B f); try discriminate. reflexivity.
Qed.

Lemma go_max_nan_r x : go_max x nan = nan \/ go_max x nan = infinity.
Proof.
  unfold go_max. replace (PrimFloat.eqb nan infinity) with false by reflexivity.
  rewrite orb_false_r. destruct (PrimFloat.eqb x infinity); auto.
  replace (pnan nan) with true by reflexivity. rewrite orb_true_r. auto.
Qed.
Lemma go_max_absorb x y : x = nan \/ x = infinity -> go_max x y = nan \/ go_max x y = infinity.
Proof.
  intros [->| ->]; unfold go_max.
  - replace (PrimFloat.eqb nan infinity) with false by reflexivity. simpl.
    destruct (PrimFloat.eqb y infinity); auto.
  - replace (PrimFloat.eqb infinity infinity) with true by reflexivity. auto.
Qed.
Lemma fold_max_absorb fs : forall acc, acc = nan \/ acc = infinity ->
  fold_left go_max fs acc = nan \/ fold_left go_max fs acc = infinity.
Proof. induction fs; simpl; auto using go_max_absorb. Qed.
Lemma fold_max_nan fs : forall acc, existsb pnan fs = true ->
  fold_left go_max fs acc = nan \/ fold_left go_max fs acc = infinity.
Proof.
  induction fs as [|a fs IH]; simpl; intros acc H; [discriminate|].
  destruct (pnan a) eqn:Na.
  - rewrite (is_nan_eq a Na). apply fold_max_absorb, go_max_nan_r.
  - apply IH. exact H.
Qed.

Section Range.
  Variable L P : Type.
  Variable hash : L -> Z.
  Notation limit_ratio := (limit_ratio L P hash).
  Notation limit_ratio_range := (limit_ratio_range L P hash).
  Notation step_select := (step_select L P hash).

  (* one step of a range query is the instant query with that step's ratio *)
  Lemma step_is_instant f v : pnan f = false -> limit_ratio f v = Selected (step_select f v).
  Proof.
    intros N. unfold LimitRatio.limit_ratio, LimitRatio.step_select.
    destruct (PrimFloat.eqb f zero); [reflexivity|]. now rewrite N.
  Qed.

  (* a range query with a step-varying ratio is the per-step map of the instant semantics:
     the whole-range early return (all ratios zero) changes nothing *)
  Lemma range_is_per_step fs vs :
    length fs = length vs -> existsb pnan fs = false ->
    limit_ratio_range fs vs =
    RSelected (map (fun fv => step_select (fst fv) (snd fv)) (combine fs vs)).
  Proof.
    intros Hl Hn. unfold LimitRatio.limit_ratio_range. rewrite Hn.
    destruct (PrimFloat.eqb (params_max fs) zero && PrimFloat.eqb (params_min fs) zero) eqn:E; [|reflexivity].
    apply andb_prop in E. destruct E as [E1 E2].
    pose proof (params_zero_all fs Hn E1 E2) as Hz. f_equal.
    clear E1 E2 Hn. revert vs Hl. induction fs as [|f fs IH]; intros [|v vs] Hl; try discriminate; simpl; auto.
    f_equal.
    - unfold LimitRatio.step_select. now rewrite (Hz f (or_introl eq_refl)).
    - apply IH; [intros g Hg; apply Hz; now right|]. now injection Hl.
  Qed.

  (* and it is an error iff some step's ratio is NaN *)
  Lemma range_nan fs vs : existsb pnan fs = true -> limit_ratio_range fs vs = RErrNaN.
  Proof.
    intros Hn. unfold LimitRatio.limit_ratio_range. rewrite Hn.
    unfold params_max. destruct (fold_max_nan fs (PrimFloat.opp max_float64) Hn) as [-> | ->]; reflexivity.
  Qed.

  Lemma combine_map_l {A B C} (g : A -> B) (l : list A) (l' : list C) :
    combine (map g l) l' = map (fun ab => (g (fst ab), snd ab)) (combine l l').
  Proof. revert l'. induction l; intros [|c l']; simpl; auto. now rewrite IHl. Qed.

  Lemma in_combine_l_fs {A B} (l : list A) (l' : list B) a b : In (a, b) (combine l l') -> In a l.
  Proof. apply in_combine_l. Qed.

  (* the partition, per step of a range query, outside the gap *)
  Lemma range_partition fs vs :
    length fs = length vs ->
    (forall f, In f fs -> PrimFloat.leb zero f = true /\ PrimFloat.leb f one = true) ->
    (forall f v s, In (f, v) (combine fs vs) -> In s v ->
       let off := sample_offset (hash (fst s)) in
       PrimFloat.leb zero off = true /\ PrimFloat.ltb off one = true /\ in_gap f off = false) ->
    limit_ratio_range fs vs =
      RSelected (map (fun fv => step_select (fst fv) (snd fv)) (combine fs vs)) /\
    limit_ratio_range (map complement fs) vs =
      RSelected (map (fun fv => step_select (complement (fst fv)) (snd fv)) (combine fs vs)) /\
    forall f v, In (f, v) (combine fs vs) -> forall s, In s v ->
      (In s (step_select f v) <-> ~ In s (step_select (complement f) v)).
  Proof.
    intros Hl Hdom Hoff.
    assert (Hfin : forall f, In f fs -> fin f /\ fin (complement f)).
    { intros f Hf. destruct (Hdom f Hf) as [A B]. destruct (dom_r f A B) as [F R].
      split; [exact F|]. now destruct (complement_R f F R). }
    assert (N1 : existsb pnan fs = false).
    { apply not_true_is_false. intros E. apply existsb_exists in E. destruct E as (f & Hf & Nf).
      rewrite (fin_not_nan f (proj1 (Hfin f Hf))) in Nf. discriminate. }
    assert (N2 : existsb pnan (map complement fs) = false).
    { apply not_true_is_false. intros E. apply existsb_exists in E. destruct E as (c & Hc & Nc).
      apply in_map_iff in Hc. destruct Hc as (f & <- & Hf).
      rewrite (fin_not_nan _ (proj2 (Hfin f Hf))) in Nc. discriminate. }
    split; [now apply range_is_per_step|].
    split.
    - rewrite range_is_per_step by (rewrite ?map_length; auto).
      rewrite combine_map_l, map_map. reflexivity.
    - intros f v Hfv s Hs.
      assert (Hf : In f fs) by (eapply in_combine_l; eassumption).
      destruct (Hdom f Hf) as [A B].
      destruct (partition_vector L P hash f v A B (fun s0 Hs0 => Hoff f v s0 Hfv Hs0))
        as (a & b & Ea & Eb & Hpart & _).
      rewrite (step_is_instant f v (fin_not_nan f (proj1 (Hfin f Hf)))) in Ea.
      rewrite (step_is_instant _ v (fin_not_nan _ (proj2 (Hfin f Hf)))) in Eb.
      injection Ea as <-. injection Eb as <-. now apply Hpart.
  Qed.
End Range.

(* proof/LimitRatioProofs.v — lemmas about model/LimitRatio.v (C34).
   Float reasoning goes through Flocq's bridge between Coq's primitive floats and its
   IEEE-754 formalisation (Flocq.IEEE754.PrimFloat: Prim2B, add_equiv, sub_equiv, ltb_equiv, ...),
   which rests on the standard library's FloatAxioms; real-number arithmetic by lra. *)
From Coq Require Import ZArith Reals Floats Bool List Lia Lra.
From Flocq Require Import Core BinarySingleNaN PrimFloat Plus_error Sterbenz.
From Verif Require Import model.LimitRatio.
Import ListNotations.
Local Open Scope R_scope.

Notation pfloat := PrimFloat.float.
#[local] Existing Instance Flocq.IEEE754.PrimFloat.Hprec.
#[local] Existing Instance Flocq.IEEE754.PrimFloat.Hmax.

Definition RR (x : pfloat) : R := B2R (Prim2B x).
Definition fin (x : pfloat) : Prop := is_finite (Prim2B x) = true.
Notation rnd := (round radix2 (fexp prec emax) (round_mode mode_NE)).

Lemma P2B_zero : Prim2B zero = B754_zero false.
Proof. rewrite zero_equiv. apply Prim2B_B2Prim. Qed.
Lemma P2B_one : Prim2B one = Bone.
Proof. rewrite one_equiv. apply Prim2B_B2Prim. Qed.
Lemma RR_zero : RR zero = 0.
Proof. unfold RR. rewrite P2B_zero. reflexivity. Qed.
Lemma RR_one : RR one = 1.
Proof. unfold RR. rewrite P2B_one. apply Bone_correct. Qed.
Lemma fin_zero : fin zero.
Proof. unfold fin. rewrite P2B_zero. reflexivity. Qed.
Lemma fin_one : fin one.
Proof. unfold fin. rewrite P2B_one. apply is_finite_Bone. Qed.

Lemma ltb_R x y : fin x -> fin y -> PrimFloat.ltb x y = Rlt_bool (RR x) (RR y).
Proof. intros Hx Hy. rewrite ltb_equiv. now apply Bltb_correct. Qed.
Lemma leb_R x y : fin x -> fin y -> PrimFloat.leb x y = Rle_bool (RR x) (RR y).
Proof. intros Hx Hy. rewrite leb_equiv. now apply Bleb_correct. Qed.
Lemma eqb_R x y : fin x -> fin y -> PrimFloat.eqb x y = Req_bool (RR x) (RR y).
Proof. intros Hx Hy. rewrite eqb_equiv. now apply Beqb_correct. Qed.

(* a float between two finite floats is finite *)
Lemma fin_between lo x hi :
  fin lo -> fin hi -> PrimFloat.leb lo x = true -> PrimFloat.leb x hi = true -> fin x.
Proof.
  unfold fin. rewrite !leb_equiv.
  destruct (Prim2B x) as [s|s| |s m e H]; try reflexivity.
  - destruct s; intros Hlo Hhi H0 H1.
    + destruct (Prim2B lo) as [sl|sl| |sl ml el Hl]; simpl in Hlo; try discriminate Hlo;
        unfold Bleb, SFleb in H0; simpl in H0; try discriminate H0; destruct sl; discriminate H0.
    + destruct (Prim2B hi) as [sl|sl| |sl ml el Hl]; simpl in Hhi; try discriminate Hhi;
        unfold Bleb, SFleb in H1; simpl in H1; try discriminate H1; destruct sl; discriminate H1.
  - intros _ _ H0. exfalso. unfold Bleb, SFleb in H0. simpl in H0.
    destruct (Prim2B lo) as [s|s| |s m e H]; simpl in H0; discriminate.
Qed.

Lemma fin_in01 x : PrimFloat.leb zero x = true -> PrimFloat.leb x one = true -> fin x.
Proof. apply fin_between; [apply fin_zero|apply fin_one]. Qed.

Lemma format_RR x : generic_format radix2 (fexp prec emax) (RR x).
Proof. apply generic_format_B2R. Qed.
Lemma format_one : generic_format radix2 (fexp prec emax) 1.
Proof. rewrite <- RR_one. apply format_RR. Qed.
Lemma format_m1 : generic_format radix2 (fexp prec emax) (-1).
Proof. apply generic_format_opp. apply format_one. Qed.

Lemma rnd_bounds a lo hi :
  generic_format radix2 (fexp prec emax) lo -> generic_format radix2 (fexp prec emax) hi ->
  lo <= a <= hi -> lo <= rnd a <= hi.
Proof.
  intros Flo Fhi [H1 H2]. split.
  - rewrite <- (round_generic radix2 (fexp prec emax) (round_mode mode_NE) lo Flo).
    apply round_le; [typeclasses eauto .. | exact H1].
  - rewrite <- (round_generic radix2 (fexp prec emax) (round_mode mode_NE) hi Fhi).
    apply round_le; [typeclasses eauto .. | exact H2].
Qed.

Lemma bpow_emax_big : 2 < bpow radix2 emax.
Proof.
  change 2 with (bpow radix2 1). apply bpow_lt. reflexivity.
Qed.

(* r - 1 for a finite r in [0,1]: no overflow, correctly rounded *)
Lemma complement_R r :
  fin r -> 0 <= RR r <= 1 ->
  fin (complement r) /\ RR (complement r) = rnd (RR r - 1).
Proof.
  intros Hf Hr. unfold complement, fin, RR. rewrite sub_equiv, P2B_one.
  generalize (Bminus_correct prec emax _ _ mode_NE (Prim2B r) Bone Hf (is_finite_Bone prec emax _ _)).
  rewrite Bone_correct. fold (RR r).
  assert (Hb : -1 <= rnd (RR r - 1) <= 0).
  { apply rnd_bounds. apply format_m1. apply generic_format_0. lra. }
  rewrite Rlt_bool_true.
  - intros (H1 & H2 & _). split; assumption.
  - generalize bpow_emax_big. apply Rabs_def2b' || (intros; apply Rabs_lt; lra).
Qed.

Lemma Rlt_bool_iff a b : Rlt_bool a b = true <-> a < b.
Proof. case Rlt_bool_spec; split; intros; try lra; try discriminate; auto. Qed.
Lemma Rle_bool_iff a b : Rle_bool a b = true <-> a <= b.
Proof. case Rle_bool_spec; split; intros; try lra; try discriminate; auto. Qed.

Ltac crush_nonfin :=
  unfold Bltb, Bleb, SFltb, SFleb in *; simpl in *;
  try discriminate; try reflexivity.

Lemma Bltb_Bleb_trans (x y z : binary_float prec emax) :
  Bltb x y = true -> Bleb y z = true -> Bltb x z = true.
Proof.
  intros H1 H2.
  destruct (is_finite x) eqn:Fx; [destruct (is_finite y) eqn:Fy; [destruct (is_finite z) eqn:Fz|]|].
  - rewrite Bltb_correct in * by assumption. rewrite Bleb_correct in H2 by assumption.
    apply Rlt_bool_iff. apply Rlt_bool_iff in H1. apply Rle_bool_iff in H2. lra.
  - destruct z as [sz|[|]| |sz mz ez Hz]; try discriminate Fz;
    destruct x as [[|]|sx| |[|] mx ex Hx]; try discriminate Fx;
    destruct y as [[|]|sy| |[|] my ey Hy]; try discriminate Fy; crush_nonfin.
  - destruct y as [sy|[|]| |sy my ey Hy]; try discriminate Fy;
    destruct x as [[|]|sx| |[|] mx ex Hx]; try discriminate Fx;
    destruct z as [[|]|[|]| |[|] mz ez Hz]; crush_nonfin.
  - destruct x as [sx|[|]| |sx mx ex Hx]; try discriminate Fx;
    destruct y as [[|]|[|]| |[|] my ey Hy];
    destruct z as [[|]|[|]| |[|] mz ez Hz]; crush_nonfin.
Qed.

Lemma Bleb_trans (x y z : binary_float prec emax) :
  Bleb x y = true -> Bleb y z = true -> Bleb x z = true.
Proof.
  intros H1 H2.
  destruct (is_finite x) eqn:Fx; [destruct (is_finite y) eqn:Fy; [destruct (is_finite z) eqn:Fz|]|].
  - rewrite Bleb_correct in * by assumption.
    apply Rle_bool_iff. apply Rle_bool_iff in H1. apply Rle_bool_iff in H2. lra.
  - destruct z as [sz|[|]| |sz mz ez Hz]; try discriminate Fz;
    destruct x as [[|]|sx| |[|] mx ex Hx]; try discriminate Fx;
    destruct y as [[|]|sy| |[|] my ey Hy]; try discriminate Fy; crush_nonfin.
  - destruct y as [sy|[|]| |sy my ey Hy]; try discriminate Fy;
    destruct x as [[|]|sx| |[|] mx ex Hx]; try discriminate Fx;
    destruct z as [[|]|[|]| |[|] mz ez Hz]; crush_nonfin.
  - destruct x as [sx|[|]| |sx mx ex Hx]; try discriminate Fx;
    destruct y as [[|]|[|]| |[|] my ey Hy];
    destruct z as [[|]|[|]| |[|] mz ez Hz]; crush_nonfin.
Qed.

Lemma Bleb_not_Bltb (x y : binary_float prec emax) : Bleb x y = true -> Bltb y x = false.
Proof.
  intros H1.
  destruct (is_finite x) eqn:Fx; [destruct (is_finite y) eqn:Fy|].
  - rewrite Bleb_correct in H1 by assumption. rewrite Bltb_correct by assumption.
    apply Rle_bool_iff in H1. apply Rlt_bool_false. lra.
  - destruct y as [sy|[|]| |sy my ey Hy]; try discriminate Fy;
    destruct x as [[|]|sx| |[|] mx ex Hx]; try discriminate Fx; crush_nonfin.
  - destruct x as [sx|[|]| |sx mx ex Hx]; try discriminate Fx;
    destruct y as [[|]|[|]| |[|] my ey Hy]; crush_nonfin.
Qed.

(* ---------- monotonicity, for all binary64 values (NaN and infinities included) ---------- *)
Lemma monotone r1 r2 off :
  PrimFloat.leb zero r1 = true -> PrimFloat.leb r1 r2 = true ->
  add_ratio_sample r1 off = true -> add_ratio_sample r2 off = true.
Proof.
  unfold add_ratio_sample. intros H0 H12 Hs.
  rewrite (ltb_equiv r1 zero), (Bleb_not_Bltb _ _ (eq_trans (eq_sym (leb_equiv _ _)) H0)) in Hs.
  rewrite H0 in Hs. simpl in Hs. rewrite orb_false_r in Hs.
  assert (H02 : PrimFloat.leb zero r2 = true).
  { rewrite leb_equiv in *. eapply Bleb_trans; eassumption. }
  rewrite H02. simpl.
  assert (Hlt : PrimFloat.ltb off r2 = true).
  { rewrite ltb_equiv in *. rewrite leb_equiv in H12. eapply Bltb_Bleb_trans; eassumption. }
  rewrite Hlt. reflexivity.
Qed.

(* ---------- the complement and its boundary, in real numbers ---------- *)
Lemma complement_neg r :
  fin r -> 0 <= RR r < 1 -> RR (complement r) < 0.
Proof.
  intros Hf Hr. destruct (complement_R r Hf (conj (proj1 Hr) (Rlt_le _ _ (proj2 Hr)))) as [_ HR]. rewrite HR.
  assert (Hb : -1 <= rnd (RR r - 1) <= 0).
  { apply rnd_bounds. apply format_m1. apply generic_format_0. lra. }
  assert (Hn : rnd (RR r - 1) <> 0).
  { unfold Rminus. apply round_plus_neq_0; try typeclasses eauto.
    apply format_RR. apply generic_format_opp, format_one. lra. }
  lra.
Qed.

Lemma boundary_R r :
  fin r -> 0 <= RR r <= 1 ->
  fin (complement_boundary r) /\
  RR (complement_boundary r) = rnd (1 + rnd (RR r - 1)) /\
  0 <= RR (complement_boundary r) <= 1.
Proof.
  intros Hf Hr. destruct (complement_R r Hf Hr) as [Hfc HRc].
  assert (Hb : -1 <= rnd (RR r - 1) <= 0).
  { apply rnd_bounds. apply format_m1. apply generic_format_0. lra. }
  assert (Hb2 : 0 <= rnd (1 + rnd (RR r - 1)) <= 1).
  { apply rnd_bounds. apply generic_format_0. apply format_one. lra. }
  unfold complement_boundary, fin, RR. rewrite add_equiv, P2B_one.
  generalize (Bplus_correct prec emax _ _ mode_NE Bone (Prim2B (complement r)) (is_finite_Bone prec emax _ _) Hfc).
  rewrite Bone_correct. fold (RR (complement r)). rewrite HRc.
  rewrite Rlt_bool_true.
  - intros (H1 & H2 & _). rewrite H1. repeat split; try assumption; lra.
  - generalize bpow_emax_big. intros. apply Rabs_lt. lra.
Qed.

(* the sampler on finite arguments, in real numbers *)
Lemma ars_nonneg r off :
  fin r -> fin off -> 0 <= RR r ->
  add_ratio_sample r off = Rlt_bool (RR off) (RR r).
Proof.
  intros Hr Ho H0. unfold add_ratio_sample.
  rewrite (leb_R zero r fin_zero Hr), (ltb_R r zero Hr fin_zero), (ltb_R off r Ho Hr), RR_zero.
  rewrite (proj2 (Rle_bool_iff 0 (RR r)) H0). rewrite (Rlt_bool_false (RR r) 0) by lra.
  simpl. apply orb_false_r.
Qed.

Lemma ars_neg c off :
  fin c -> fin off -> fin (PrimFloat.add one c) -> RR c < 0 ->
  add_ratio_sample c off = Rle_bool (RR (PrimFloat.add one c)) (RR off).
Proof.
  intros Hc Ho H1c H0. unfold add_ratio_sample.
  rewrite (leb_R zero c fin_zero Hc), (ltb_R c zero Hc fin_zero), (leb_R _ off H1c Ho), RR_zero.
  rewrite (proj2 (Rlt_bool_iff (RR c) 0) H0). rewrite (Rle_bool_false 0 (RR c)) by lra.
  reflexivity.
Qed.

Lemma dom_r r :
  PrimFloat.leb zero r = true -> PrimFloat.leb r one = true -> fin r /\ 0 <= RR r <= 1.
Proof.
  intros H0 H1. assert (Hf : fin r) by (apply fin_in01; assumption).
  rewrite (leb_R zero r fin_zero Hf), RR_zero in H0. apply Rle_bool_iff in H0.
  rewrite (leb_R r one Hf fin_one), RR_one in H1. apply Rle_bool_iff in H1. auto.
Qed.

Lemma Bltb_Bleb (x y : binary_float prec emax) : Bltb x y = true -> Bleb x y = true.
Proof.
  intros H1.
  destruct (is_finite x) eqn:Fx; [destruct (is_finite y) eqn:Fy|].
  - rewrite Bltb_correct in H1 by assumption. rewrite Bleb_correct by assumption.
    apply Rlt_bool_iff in H1. apply Rle_bool_iff. lra.
  - destruct y as [sy|[|]| |sy my ey Hy]; try discriminate Fy;
    destruct x as [[|]|sx| |[|] mx ex Hx]; try discriminate Fx; crush_nonfin.
  - destruct x as [sx|[|]| |sx mx ex Hx]; try discriminate Fx;
    destruct y as [[|]|[|]| |[|] my ey Hy]; crush_nonfin.
Qed.

Lemma dom_off off :
  PrimFloat.leb zero off = true -> PrimFloat.ltb off one = true -> fin off /\ 0 <= RR off < 1.
Proof.
  intros H0 H1.
  assert (Hf : fin off).
  { apply fin_in01. assumption. rewrite leb_equiv. rewrite ltb_equiv in H1. now apply Bltb_Bleb. }
  rewrite (leb_R zero off fin_zero Hf), RR_zero in H0. apply Rle_bool_iff in H0.
  rewrite (ltb_R off one Hf fin_one), RR_one in H1. apply Rlt_bool_iff in H1. auto.
Qed.

Lemma in_gap_R r off :
  fin r -> fin off -> 0 <= RR r <= 1 ->
  in_gap r off =
  (Rle_bool (RR r) (RR off) && Rlt_bool (RR off) (RR (complement_boundary r))) ||
  (Rle_bool (RR (complement_boundary r)) (RR off) && Rlt_bool (RR off) (RR r)).
Proof.
  intros Hfr Hfo Hr. destruct (boundary_R r Hfr Hr) as (Hfb & _ & _).
  unfold in_gap.
  now rewrite (leb_R r off Hfr Hfo), (ltb_R off _ Hfo Hfb), (leb_R _ off Hfb Hfo), (ltb_R off r Hfo Hfr).
Qed.

(* exact characterisation of where the partition holds: for r in [0,1] and an offset in
   [0,1), exactly one of r and r - 1 selects the offset iff the offset is not between the
   two boundaries *)
Lemma partition_iff_not_in_gap r off :
  PrimFloat.leb zero r = true -> PrimFloat.leb r one = true ->
  PrimFloat.leb zero off = true -> PrimFloat.ltb off one = true ->
  xorb (add_ratio_sample r off) (add_ratio_sample (complement r) off) = negb (in_gap r off).
Proof.
  intros Hr0 Hr1 Ho0 Ho1.
  destruct (dom_r r Hr0 Hr1) as [Hfr Hr]. destruct (dom_off off Ho0 Ho1) as [Hfo Ho].
  destruct (complement_R r Hfr Hr) as [Hfc HRc].
  destruct (boundary_R r Hfr Hr) as (Hfb & HRb & Hbb).
  rewrite (in_gap_R r off Hfr Hfo Hr).
  rewrite (ars_nonneg r off Hfr Hfo (proj1 Hr)).
  destruct (Rlt_dec (RR r) 1) as [Hlt|Hge].
  - rewrite (ars_neg (complement r) off Hfc Hfo Hfb (complement_neg r Hfr (conj (proj1 Hr) Hlt))).
    fold (complement_boundary r).
    set (a := RR off) in *. set (x := RR r) in *. set (y := RR (complement_boundary r)) in *.
    destruct (Rlt_bool_spec a x), (Rle_bool_spec y a), (Rle_bool_spec x a), (Rlt_bool_spec a y);
      simpl; try reflexivity; exfalso; lra.
  - assert (Hx : RR r = 1) by lra.
    assert (Hc0 : RR (complement r) = 0).
    { rewrite HRc, Hx. replace (1 - 1) with 0 by ring. apply round_0. typeclasses eauto. }
    rewrite (ars_nonneg (complement r) off Hfc Hfo) by lra.
    rewrite Hc0, HRb, Hx. replace (1 - 1) with 0 by ring.
    rewrite round_0 by typeclasses eauto. rewrite Rplus_0_r.
    rewrite (round_generic radix2 (fexp prec emax) (round_mode mode_NE) 1 format_one).
    set (a := RR off) in *.
    destruct (Rlt_bool_spec a 1), (Rlt_bool_spec a 0), (Rle_bool_spec 1 a);
      simpl; try reflexivity; exfalso; lra.
Qed.

(* when the complement is exact, fl(1 + fl(r - 1)) = r, there is no gap *)
Lemma partition_partial r off :
  PrimFloat.leb zero r = true -> PrimFloat.leb r one = true ->
  PrimFloat.leb zero off = true -> PrimFloat.ltb off one = true ->
  PrimFloat.eqb (complement_boundary r) r = true ->
  xorb (add_ratio_sample r off) (add_ratio_sample (complement r) off) = true.
Proof.
  intros Hr0 Hr1 Ho0 Ho1 He.
  rewrite (partition_iff_not_in_gap r off Hr0 Hr1 Ho0 Ho1).
  destruct (dom_r r Hr0 Hr1) as [Hfr Hr]. destruct (dom_off off Ho0 Ho1) as [Hfo Ho].
  destruct (boundary_R r Hfr Hr) as (Hfb & _ & _).
  rewrite (eqb_R _ r Hfb Hfr) in He.
  rewrite (in_gap_R r off Hfr Hfo Hr).
  revert He. case Req_bool_spec; [intros -> _|discriminate].
  set (a := RR off). set (x := RR r).
  destruct (Rle_bool_spec x a), (Rlt_bool_spec a x); simpl; try reflexivity; exfalso; lra.
Qed.

Definition half : PrimFloat.float := 0x1p-1%float.

Lemma RR_half : RR half = / 2 /\ fin half.
Proof.
  unfold RR, fin, Prim2B. rewrite B2R_SF2B, is_finite_SF2B.
  replace (Prim2SF half) with (S754_finite false 4503599627370496 (-53)) by (vm_compute; reflexivity).
  split; [|reflexivity].
  unfold SF2R, F2R. simpl. lra.
Qed.

Lemma upper_half_exact r :
  PrimFloat.leb half r = true -> PrimFloat.leb r one = true ->
  PrimFloat.eqb (complement_boundary r) r = true.
Proof.
  intros H0 H1. destruct RR_half as [Hh Hfh].
  assert (Hf : fin r) by (apply (fin_between half r one); auto using fin_one).
  rewrite (leb_R half r Hfh Hf), Hh in H0. apply Rle_bool_iff in H0.
  rewrite (leb_R r one Hf fin_one), RR_one in H1. apply Rle_bool_iff in H1.
  assert (Hr : 0 <= RR r <= 1) by lra.
  destruct (boundary_R r Hf Hr) as (Hfb & HRb & _).
  rewrite (eqb_R _ r Hfb Hf), HRb.
  assert (Hs : generic_format radix2 (fexp prec emax) (RR r - 1)).
  { apply sterbenz; try typeclasses eauto. apply format_RR. apply format_one. lra. }
  rewrite (round_generic radix2 (fexp prec emax) (round_mode mode_NE) (RR r - 1) Hs).
  replace (1 + (RR r - 1)) with (RR r) by ring.
  rewrite (round_generic radix2 (fexp prec emax) (round_mode mode_NE) (RR r) (format_RR r)).
  apply Req_bool_true. reflexivity.
Qed.

(* for every ratio in the upper half the complement is exact (Sterbenz), so the partition holds *)
Lemma partition_upper_half r off :
  PrimFloat.leb half r = true -> PrimFloat.leb r one = true ->
  PrimFloat.leb zero off = true -> PrimFloat.ltb off one = true ->
  xorb (add_ratio_sample r off) (add_ratio_sample (complement r) off) = true.
Proof.
  intros H0 H1 Ho0 Ho1. apply partition_partial; auto.
  - rewrite leb_equiv in *. eapply Bleb_trans; [|exact H0].
    rewrite <- leb_equiv. vm_compute. reflexivity.
  - now apply upper_half_exact.
Qed.

(* ---------- the partition property is false of the faithful model ---------- *)
Definition part_ok (r off : pfloat) : bool :=
  xorb (add_ratio_sample r off) (add_ratio_sample (complement r) off).
Definition in01b (x : pfloat) : bool := PrimFloat.leb zero x && PrimFloat.leb x one.

Lemma partition_refuted_both :
  let r := 0x1.999999999999ap-4%float in let off := 0x1.9999999999998p-4%float in
  in01b r = true /\ PrimFloat.leb zero off = true /\ PrimFloat.ltb off one = true /\
  add_ratio_sample r off = true /\ add_ratio_sample (complement r) off = true.
Proof. vm_compute. repeat split. Qed.

Lemma partition_refuted_neither :
  let r := 0x1.3333333333333p-2%float in let off := 0x1.3333333333333p-2%float in
  in01b r = true /\ PrimFloat.leb zero off = true /\ PrimFloat.ltb off one = true /\
  add_ratio_sample r off = false /\ add_ratio_sample (complement r) off = false.
Proof. vm_compute. repeat split. Qed.

Lemma partition_refuted :
  exists r off, in01b r = true /\ PrimFloat.leb zero off = true /\ PrimFloat.ltb off one = true /\
                part_ok r off = false.
Proof.
  exists 0x1.999999999999ap-4%float, 0x1.9999999999998p-4%float. vm_compute. repeat split.
Qed.

(* second shape: the largest hashes map to the offset 1.0, which no ratio of [0,1] selects *)
Lemma offset_one_reachable : sample_offset (2 ^ 64 - 1) = one /\ sample_offset (2 ^ 64 - 1024) = one
                             /\ PrimFloat.ltb (sample_offset (2 ^ 64 - 1025)) one = true.
Proof. vm_compute. repeat split. Qed.

Lemma offset_one_unselected r :
  PrimFloat.leb zero r = true -> PrimFloat.leb r one = true ->
  add_ratio_sample r one = false.
Proof.
  intros H0 H1. destruct (dom_r r H0 H1) as [Hf Hr].
  rewrite (ars_nonneg r one Hf fin_one (proj1 Hr)), RR_one. apply Rlt_bool_false. lra.
Qed.

Lemma offset_one_refuted :
  add_ratio_sample one (sample_offset (2 ^ 64 - 1)) = false /\
  add_ratio_sample (complement one) (sample_offset (2 ^ 64 - 1)) = false.
Proof. vm_compute. split; reflexivity. Qed.

(* ---------- selection depends only on the labels ---------- *)
Section Vector.
  Variable L P : Type.
  Variable hash : L -> Z.
  Notation limit_ratio := (limit_ratio L P hash).
  Notation selects := (selects L hash).

  Lemma limit_ratio_spec f v :
    limit_ratio f v = ErrNaN \/
    exists keep : L -> bool,
      limit_ratio f v = Selected (filter (fun s => keep (fst s)) v) /\
      forall v', limit_ratio f v' = Selected (filter (fun s => keep (fst s)) v').
  Proof.
    unfold LimitRatio.limit_ratio.
    destruct (PrimFloat.eqb f zero).
    - right. exists (fun _ => false). split.
      + induction v; simpl; auto.
      + intros v'. induction v'; simpl; auto.
    - destruct (PrimFloat.is_nan f); [left; reflexivity|].
      right. exists (fun l => selects (clamp f) l). split; reflexivity.
  Qed.

  (* whether a sample is in the output is decided by its label set alone: not by its value /
     payload, its position, or which other samples the vector contains *)
  Lemma labels_only f v v' a a' (s s' : L * P) :
    limit_ratio f v = Selected a -> limit_ratio f v' = Selected a' ->
    In s v -> In s' v' -> fst s = fst s' ->
    (In s a <-> In s' a').
  Proof.
    intros Ha Ha' Hs Hs' Hl.
    destruct (limit_ratio_spec f v) as [E|(keep & E & Eall)]; [congruence|].
    rewrite E in Ha. injection Ha as <-. rewrite (Eall v') in Ha'. injection Ha' as <-.
    rewrite !filter_In, Hl. tauto.
  Qed.

  Lemma selected_sublist f v a : limit_ratio f v = Selected a -> incl a v.
  Proof.
    intros Ha. destruct (limit_ratio_spec f v) as [E|(keep & E & _)]; [congruence|].
    rewrite E in Ha. injection Ha as <-. intros x Hx. apply filter_In in Hx. tauto.
  Qed.

  Lemma fin_neg_one : fin neg_one /\ RR neg_one = -1.
  Proof.
    unfold fin, RR, neg_one. rewrite opp_equiv, P2B_one. rewrite is_finite_Bopp, B2R_Bopp, Bone_correct.
    split. apply is_finite_Bone. reflexivity.
  Qed.

  Lemma fin_not_nan f : fin f -> PrimFloat.is_nan f = false.
  Proof.
    unfold fin. rewrite is_nan_equiv. destruct (Prim2B f); simpl; auto; discriminate.
  Qed.

  Lemma filter_none {A} (p : A -> bool) l : (forall x, In x l -> p x = false) -> filter p l = [].
  Proof.
    induction l as [|x l IH]; simpl; intros H; auto.
    rewrite (H x (or_introl eq_refl)). apply IH. intros y Hy. apply H. now right.
  Qed.

  (* on a ratio of [-1,1] and offsets >= 0 the engine is exactly the filter by the sampler
     (the early return for r == 0 agrees with the sampler, which selects nothing for +-0) *)
  Lemma limit_ratio_filter f v :
    fin f -> -1 <= RR f <= 1 ->
    (forall s, In s v -> fin (sample_offset (hash (fst s))) /\ 0 <= RR (sample_offset (hash (fst s)))) ->
    limit_ratio f v = Selected (filter (fun s => selects f (fst s)) v).
  Proof.
    intros Hf Hr Hv. unfold LimitRatio.limit_ratio.
    rewrite (eqb_R f zero Hf fin_zero), RR_zero.
    case Req_bool_spec; intros Hz.
    - f_equal. symmetry. apply filter_none. intros s Hs. destruct (Hv s Hs) as [Hfo Ho].
      unfold LimitRatio.selects. rewrite (ars_nonneg f _ Hf Hfo) by lra.
      apply Rlt_bool_false. lra.
    - rewrite (fin_not_nan f Hf). destruct fin_neg_one as [Hfm Hm].
      unfold clamp. rewrite (ltb_R f neg_one Hf Hfm), Hm, (Rlt_bool_false (RR f) (-1)) by lra.
      rewrite (ltb_R one f fin_one Hf), RR_one, (Rlt_bool_false 1 (RR f)) by lra.
      reflexivity.
  Qed.

  (* the partition of a whole vector, outside the gap *)
  Lemma partition_vector r v :
    PrimFloat.leb zero r = true -> PrimFloat.leb r one = true ->
    (forall s, In s v ->
       let off := sample_offset (hash (fst s)) in
       PrimFloat.leb zero off = true /\ PrimFloat.ltb off one = true /\ in_gap r off = false) ->
    exists a b,
      limit_ratio r v = Selected a /\ limit_ratio (complement r) v = Selected b /\
      (forall s, In s v -> (In s a <-> ~ In s b)) /\ incl a v /\ incl b v.
  Proof.
    intros Hr0 Hr1 Hv. destruct (dom_r r Hr0 Hr1) as [Hfr Hr].
    destruct (complement_R r Hfr Hr) as [Hfc HRc].
    assert (Hcb : -1 <= RR (complement r) <= 0).
    { rewrite HRc. apply rnd_bounds. apply format_m1. apply generic_format_0. lra. }
    assert (Hoffs : forall s, In s v ->
              fin (sample_offset (hash (fst s))) /\ 0 <= RR (sample_offset (hash (fst s)))).
    { intros s Hs. destruct (Hv s Hs) as (A & B & _). destruct (dom_off _ A B) as [F O]. split; [exact F|lra]. }
    exists (filter (fun s => selects r (fst s)) v), (filter (fun s => selects (complement r) (fst s)) v).
    split; [apply limit_ratio_filter; auto; lra|].
    split; [apply limit_ratio_filter; auto; lra|].
    split; [|split; intros x Hx; apply filter_In in Hx; tauto].
    intros s Hs. rewrite !filter_In. destruct (Hv s Hs) as (A & B & G).
    generalize (partition_iff_not_in_gap r _ Hr0 Hr1 A B). rewrite G. simpl.
    unfold LimitRatio.selects.
    destruct (add_ratio_sample r _), (add_ratio_sample (complement r) _); simpl; intros E; try discriminate E;
      split; intros; intuition discriminate.
  Qed.
End Vector.

(* proof/HistBatchProofs.v — the batches of one appender transaction keep, for every series,
   the order in which its samples were appended; hence with increasing timestamps nothing is
   dropped as out of order at commit. *)
From Coq Require Import List ZArith Bool Lia.
From Verif Require Import model.HistBatch.
Import ListNotations.
Open Scope Z_scope.

Lemma of_series_app s l1 l2 : of_series s (l1 ++ l2) = of_series s l1 ++ of_series s l2.
Proof. apply filter_app. Qed.

Lemma of_series_one_same s x : x_ser x = s -> of_series s [x] = [x].
Proof. intros <-. unfold of_series. simpl. now rewrite Z.eqb_refl. Qed.

Lemma of_series_one_diff s x : x_ser x <> s -> of_series s [x] = [].
Proof. intros H. unfold of_series. simpl. destruct (Z.eqb_spec (x_ser x) s); [contradiction|reflexivity]. Qed.

Definition nos (s : Z) (l : list txs) : Prop := of_series s l = [].

Lemma nos_snoc_diff s l x : x_ser x <> s -> (nos s (l ++ [x]) <-> nos s l).
Proof. intros H. unfold nos. rewrite of_series_app, (of_series_one_diff _ _ H), app_nil_r. tauto. Qed.

(* what the last batch may hold of series s, given the type recorded for s *)
Definition P (b : batch) (ty : option stype) (s : Z) : Prop :=
  match ty with
  | None => nos s (b_hists b) /\ nos s (b_fhists b)
  | Some StHist | Some StCBHist => nos s (b_fhists b)
  | Some StFHist | Some StCBFHist => nos s (b_hists b)
  | Some _ => False
  end.

Definition inv (a : astate) (done : list txs) : Prop :=
  (forall s, of_series s (commit_order a) = of_series s done) /\
  match a_last a with None => True | Some b => forall s, P b (a_types a s) s end.

Lemma commit_order_some d b t : commit_order (mkA d (Some b) t) = flat_map batch_order d ++ batch_order b.
Proof. unfold commit_order. cbn [a_done a_last]. rewrite flat_map_app. cbn. now rewrite app_nil_r. Qed.

(* appending x to its buffer is appending it to the series' commit order, if the buffers that are
   committed later hold nothing of the series *)
Lemma add_proj b x s' :
  x_ty x <> StNone ->
  (x_ser x = s' -> match x_ty x with
                   | StFloat => nos s' (b_hists b) /\ nos s' (b_fhists b)
                   | StHist | StCBHist => nos s' (b_fhists b)
                   | _ => True
                   end) ->
  of_series s' (batch_order (add_to_batch b x)) = of_series s' (batch_order b) ++ of_series s' [x].
Proof.
  intros Hn Hc. unfold add_to_batch, batch_order.
  destruct (Z.eq_dec (x_ser x) s') as [E|E].
  - specialize (Hc E). unfold nos in Hc.
    destruct (x_ty x); try contradiction; cbn [b_floats b_hists b_fhists]; rewrite !of_series_app.
    + destruct Hc as [H1 H2]. rewrite H1, H2. cbn [app]. now rewrite !app_nil_r.
    + rewrite Hc. now rewrite !app_nil_r, <- !app_assoc.
    + rewrite Hc. now rewrite !app_nil_r, <- !app_assoc.
    + now rewrite <- !app_assoc.
    + now rewrite <- !app_assoc.
  - destruct (x_ty x); try contradiction; cbn [b_floats b_hists b_fhists]; rewrite !of_series_app;
      rewrite (of_series_one_diff _ _ E); now rewrite !app_nil_r.
Qed.

Lemma add_P_diff b x t s' : x_ser x <> s' -> P b t s' -> P (add_to_batch b x) t s'.
Proof.
  intros E H. unfold add_to_batch.
  destruct (x_ty x); cbn [b_floats b_hists b_fhists]; try exact H;
    destruct t as [[]|]; cbn [P b_hists b_fhists] in *; try exact H; try contradiction;
    try (apply nos_snoc_diff; assumption);
    try (destruct H as [H1 H2]; split; try assumption; apply nos_snoc_diff; assumption).
Qed.

Lemma P_empty t s : match t with Some StNone | Some StFloat => False | _ => True end -> P empty_batch t s.
Proof. destruct t as [[]|]; cbn; intros H; try contradiction; unfold nos; cbn; auto. Qed.

Lemma step_inv a done x :
  inv a done -> x_ty x <> StNone -> inv (tx_append a x) (done ++ [x]).
Proof.
  intros [Hc Hp] Hn. unfold tx_append.
  (* the three possible outcomes of getCurrentBatch *)
  assert (Hnew : inv (let a' := new_batch a (x_ty x) (x_ser x) in
                      mkA (a_done a') (match a_last a' with Some b => Some (add_to_batch b x) | None => None end) (a_types a'))
                     (done ++ [x])).
  { unfold new_batch. cbn [a_done a_last a_types]. split.
    - intros s. rewrite commit_order_some.
      assert (E : flat_map batch_order (match a_last a with Some b => a_done a ++ [b] | None => a_done a end) = commit_order a).
      { unfold commit_order. destruct (a_last a); [reflexivity|now rewrite app_nil_r]. }
      rewrite E, !of_series_app, Hc. f_equal.
      rewrite (add_proj empty_batch x s Hn); [reflexivity|].
      intros _. destruct (x_ty x); cbn; unfold nos; cbn; auto.
    - cbn [a_last]. intros s. destruct (Z.eq_dec (x_ser x) s) as [E|E].
      + subst s. unfold add_to_batch. destruct (x_ty x) eqn:Ety; try contradiction;
          cbn; rewrite ?Z.eqb_refl; cbn; unfold nos; cbn; auto.
      + apply add_P_diff; [assumption|]. apply P_empty.
        destruct (is_hist_type (x_ty x)); cbn; [|exact I].
        destruct (Z.eqb_spec s (x_ser x)); [congruence|exact I]. }
  unfold get_current_batch. destruct (a_last a) as [b|] eqn:EL; [|exact Hnew].
  (* continuing the last batch b, possibly recording the type of the series *)
  assert (Hcont : forall types',
             (forall s, s <> x_ser x -> types' s = a_types a s) ->
             (match x_ty x with
              | StFloat => types' (x_ser x) = None /\ a_types a (x_ser x) = None
              | ty => types' (x_ser x) = Some ty /\ (a_types a (x_ser x) = Some ty \/ a_types a (x_ser x) = None)
              end) ->
             inv (mkA (a_done a) (Some (add_to_batch b x)) types') (done ++ [x])).
  { intros types' Hoth Hser. split.
    - intros s. rewrite commit_order_some, !of_series_app.
      assert (E : of_series s (flat_map batch_order (a_done a)) ++ of_series s (batch_order b) = of_series s done).
      { rewrite <- Hc. unfold commit_order. rewrite EL, flat_map_app, of_series_app. cbn. now rewrite app_nil_r. }
      rewrite (add_proj b x s Hn); [now rewrite app_assoc, E|].
      intros <-. specialize (Hp (x_ser x)).
      destruct (x_ty x); try contradiction; try exact I.
      + destruct Hser as [_ Hold]. rewrite Hold in Hp. exact Hp.
      + destruct Hser as [_ [Hold|Hold]]; rewrite Hold in Hp; cbn [P] in Hp; tauto.
      + destruct Hser as [_ [Hold|Hold]]; rewrite Hold in Hp; cbn [P] in Hp; tauto.
    - cbn [a_last a_types]. intros s. destruct (Z.eq_dec (x_ser x) s) as [E|E].
      + subst s. specialize (Hp (x_ser x)). unfold add_to_batch.
        destruct (x_ty x); try contradiction; cbn [b_floats b_hists b_fhists];
          destruct Hser as [Hnew' Hold]; rewrite Hnew'; cbn [P b_hists b_fhists].
        * rewrite Hold in Hp. exact Hp.
        * destruct Hold as [Hold|Hold]; rewrite Hold in Hp; cbn [P] in Hp; tauto.
        * destruct Hold as [Hold|Hold]; rewrite Hold in Hp; cbn [P] in Hp; tauto.
        * destruct Hold as [Hold|Hold]; rewrite Hold in Hp; cbn [P] in Hp; tauto.
        * destruct Hold as [Hold|Hold]; rewrite Hold in Hp; cbn [P] in Hp; tauto.
      + rewrite (Hoth s ltac:(congruence)). apply add_P_diff; [assumption|apply Hp]. }
  specialize (Hp (x_ser x)) as Hps.
  destruct (x_ty x) eqn:Ety; try contradiction.
  - (* float *)
    destruct (a_types a (x_ser x)) as [prev|] eqn:ET.
    + destruct prev; cbn [P] in Hps; try contradiction; cbn [stype_eqb]; exact Hnew.
    + cbn zeta; rewrite ?EL. apply Hcont; [reflexivity|]. auto.
  - destruct (a_types a (x_ser x)) as [prev|] eqn:ET.
    + destruct (stype_eqb prev StHist) eqn:Eq; [|exact Hnew].
      destruct prev; try discriminate. cbn zeta; rewrite ?EL. apply Hcont; [reflexivity|]. auto.
    + cbn [a_done a_last a_types]. cbn zeta; rewrite ?EL. apply Hcont.
      * intros s Hs. destruct (Z.eqb_spec s (x_ser x)); [contradiction|reflexivity].
      * rewrite Z.eqb_refl. auto.
  - destruct (a_types a (x_ser x)) as [prev|] eqn:ET.
    + destruct (stype_eqb prev StCBHist) eqn:Eq; [|exact Hnew].
      destruct prev; try discriminate. cbn zeta; rewrite ?EL. apply Hcont; [reflexivity|]. auto.
    + cbn [a_done a_last a_types]. cbn zeta; rewrite ?EL. apply Hcont.
      * intros s Hs. destruct (Z.eqb_spec s (x_ser x)); [contradiction|reflexivity].
      * rewrite Z.eqb_refl. auto.
  - destruct (a_types a (x_ser x)) as [prev|] eqn:ET.
    + destruct (stype_eqb prev StFHist) eqn:Eq; [|exact Hnew].
      destruct prev; try discriminate. cbn zeta; rewrite ?EL. apply Hcont; [reflexivity|]. auto.
    + cbn [a_done a_last a_types]. cbn zeta; rewrite ?EL. apply Hcont.
      * intros s Hs. destruct (Z.eqb_spec s (x_ser x)); [contradiction|reflexivity].
      * rewrite Z.eqb_refl. auto.
  - destruct (a_types a (x_ser x)) as [prev|] eqn:ET.
    + destruct (stype_eqb prev StCBFHist) eqn:Eq; [|exact Hnew].
      destruct prev; try discriminate. cbn zeta; rewrite ?EL. apply Hcont; [reflexivity|]. auto.
    + cbn [a_done a_last a_types]. cbn zeta; rewrite ?EL. apply Hcont.
      * intros s Hs. destruct (Z.eqb_spec s (x_ser x)); [contradiction|reflexivity].
      * rewrite Z.eqb_refl. auto.
Qed.

Lemma commit_proj l : Forall (fun x => x_ty x <> StNone) l ->
  forall s, of_series s (commit_order (fold_left tx_append l init_state)) = of_series s l.
Proof.
  intros H.
  assert (G : forall l a done, Forall (fun x => x_ty x <> StNone) l -> inv a done ->
                inv (fold_left tx_append l a) (done ++ l)).
  { clear. induction l as [|x l IH]; intros a done H I; [now rewrite app_nil_r|].
    inversion H; subst. cbn [fold_left]. replace (done ++ x :: l) with ((done ++ [x]) ++ l) by now rewrite <- app_assoc.
    apply IH; [assumption|]. now apply step_inv. }
  destruct (G l init_state [] H) as [Hc _]; [split; [reflexivity|exact I]|]. exact Hc.
Qed.

(* ---------- in-order acceptance ---------- *)
Fixpoint store1 (m : option Z) (l : list txs) : list txs :=
  match l with
  | [] => []
  | x :: r => if (match m with None => true | Some v => v <? x_t x end)
              then x :: store1 (Some (x_t x)) r else store1 m r
  end.

Lemma of_series_cons s x l :
  of_series s (x :: l) = if x_ser x =? s then x :: of_series s l else of_series s l.
Proof. reflexivity. Qed.

Lemma store_proj l : forall m s, of_series s (store m l) = store1 (m s) (of_series s l).
Proof.
  induction l as [|x l IH]; intros m s; [reflexivity|]. cbn [store]. rewrite (of_series_cons s x l).
  destruct (Z.eqb_spec (x_ser x) s) as [E|E].
  - subst s. cbn [store1]. destruct (match m (x_ser x) with None => true | Some v => v <? x_t x end).
    + rewrite of_series_cons, Z.eqb_refl. f_equal. rewrite IH. now rewrite Z.eqb_refl.
    + apply IH.
  - destruct (match m (x_ser x) with None => true | Some v => v <? x_t x end).
    + rewrite of_series_cons. destruct (Z.eqb_spec (x_ser x) s); [contradiction|].
      rewrite IH. destruct (Z.eqb_spec s (x_ser x)); [congruence|reflexivity].
    + apply IH.
Qed.

(* timestamps strictly increasing (beyond m) *)
Fixpoint sincr (m : option Z) (l : list txs) : Prop :=
  match l with
  | [] => True
  | x :: r => match m with None => True | Some v => v < x_t x end /\ sincr (Some (x_t x)) r
  end.

Lemma store1_id l : forall m, sincr m l -> store1 m l = l.
Proof.
  induction l as [|x l IH]; intros m H; [reflexivity|]. destruct H as [H1 H2]. cbn [store1].
  destruct m as [v|]; [destruct (Z.ltb_spec v (x_t x)); [|lia]|]; f_equal; auto.
Qed.

(* one transaction, any number of series, any mix of sample flavours: if the timestamps of every
   series increase in append order, every series ends up holding exactly its appended samples,
   in order *)
Theorem tx_run_faithful l :
  Forall (fun x => x_ty x <> StNone) l ->
  (forall s, sincr None (of_series s l)) ->
  forall s, of_series s (tx_run l) = of_series s l.
Proof.
  intros Hn Hi s. unfold tx_run. rewrite store_proj, (commit_proj l Hn s).
  apply store1_id, Hi.
Qed.

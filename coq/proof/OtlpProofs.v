(* proof/OtlpProofs.v — lemmas and proofs about model/Otlp.v (C43). *)
From Coq Require Import List ZArith Bool Lia.
From Verif Require Import lib.Int64 model.Otlp.
Import ListNotations.
Open Scope Z_scope.

(* ---------- int32 / int64 wrap-around ---------- *)

Lemma wrap32_id z : int32 z -> wrap32 z = z.
Proof.
  unfold int32, wrap32, minInt32, maxInt32, two32. intros H.
  rewrite Z.mod_small by lia. lia.
Qed.

Lemma wrap32_add_l a b : wrap32 (wrap32 a + b) = wrap32 (a + b).
Proof.
  unfold wrap32. f_equal.
  replace ((a + 2147483648) mod two32 - 2147483648 + b + 2147483648)
    with ((a + 2147483648) mod two32 + b) by ring.
  rewrite Zplus_mod_idemp_l. f_equal. ring.
Qed.

Lemma int64_nonneg z : 0 <= z <= maxInt64 -> int64 z.
Proof. unfold int64, minInt64, maxInt64. lia. Qed.

(* ---------- arithmetic shift ---------- *)

Lemma ashr_div x k : int32 x -> 0 <= k -> ashr x k = x / 2 ^ k.
Proof.
  intros Hx Hk. unfold ashr. destruct (31 <=? k) eqn:E.
  - apply Z.leb_le in E.
    assert (H31 : 2 ^ 31 <= 2 ^ k) by (apply Z.pow_le_mono_r; lia).
    change (2 ^ 31) with 2147483648 in H31.
    unfold int32, minInt32, maxInt32 in Hx.
    destruct (x <? 0) eqn:En.
    + apply Z.ltb_lt in En. apply Z.div_unique with (r := x + 2 ^ k); lia.
    + apply Z.ltb_ge in En. symmetry. apply Z.div_small. lia.
  - apply Z.shiftr_div_pow2. lia.
Qed.

Lemma ashr_mono x y k : int32 x -> int32 y -> 0 <= k -> x <= y -> ashr x k <= ashr y k.
Proof.
  intros. rewrite !ashr_div by assumption. apply Z.div_le_mono; [|assumption].
  apply Z.pow_pos_nonneg; lia.
Qed.

Lemma ashr_range x k : int32 x -> 0 <= k -> (if x <? 0 then x <= ashr x k <= -1 else 0 <= ashr x k <= x).
Proof.
  intros Hx Hk. rewrite ashr_div by assumption.
  assert (Hp : 0 < 2 ^ k) by (apply Z.pow_pos_nonneg; lia).
  pose proof (Z.div_mod x (2 ^ k) ltac:(lia)) as Hdm.
  pose proof (Z.mod_pos_bound x (2 ^ k) Hp) as Hm.
  destruct (x <? 0) eqn:E; [apply Z.ltb_lt in E | apply Z.ltb_ge in E]; nia.
Qed.

Lemma ashr_0 x : ashr x 0 = x.
Proof. unfold ashr. simpl. apply Z.shiftr_0_r. Qed.

(* ---------- decoding of span/delta layouts ---------- *)

Definition lens (sp : list span) : Z := fold_right (fun s a => s_len s + a) 0 sp.
Definition extent (sp : list span) : Z := fold_right (fun s a => s_off s + s_len s + a) 0 sp.
Definition lens_ok (sp : list span) : Prop := Forall (fun s => 0 <= s_len s) sp.

(* all of [ds] laid out from position [pos] *)
Fixpoint run (pos abs : Z) (ds : list Z) : list (Z * Z) :=
  match ds with [] => [] | d :: r => (pos, abs + d) :: run (pos + 1) (abs + d) r end.

Lemma run_app pos abs ds d :
  run pos abs (ds ++ [d]) = run pos abs ds ++ [(pos + Z.of_nat (length ds), abs + sumZ ds + d)].
Proof.
  revert pos abs. induction ds as [|x r IH]; intros; cbn [run app length].
  - f_equal. f_equal; unfold sumZ; cbn; lia.
  - rewrite IH. cbn [app]. f_equal. f_equal. f_equal. f_equal; [lia | unfold sumZ; cbn [fold_right]; lia].
Qed.

Lemma expand_span_run n : forall pos abs ds, (n <= length ds)%nat ->
  expand_span pos abs n ds = (run pos abs (firstn n ds), abs + sumZ (firstn n ds), skipn n ds).
Proof.
  induction n as [|n IH]; intros pos abs ds Hn.
  - cbn. f_equal. f_equal. unfold sumZ; cbn; lia.
  - destruct ds as [|d r]; [cbn in Hn; lia|].
    cbn [expand_span firstn skipn run]. rewrite IH by (cbn in Hn; lia).
    f_equal. f_equal. unfold sumZ. cbn. lia.
Qed.

Lemma sumZ_app a b : sumZ (a ++ b) = sumZ a + sumZ b.
Proof. unfold sumZ. induction a; cbn; lia. Qed.

Lemma sumZ_firstn_skipn n (l : list Z) : sumZ (firstn n l) + sumZ (skipn n l) = sumZ l.
Proof. rewrite <- sumZ_app, firstn_skipn. reflexivity. Qed.

Lemma lens_cons s r : lens (s :: r) = s_len s + lens r.
Proof. reflexivity. Qed.
Lemma extent_cons s r : extent (s :: r) = s_off s + s_len s + extent r.
Proof. reflexivity. Qed.
Lemma lens_nil : lens [] = 0. Proof. reflexivity. Qed.
Lemma extent_nil : extent [] = 0. Proof. reflexivity. Qed.

Lemma lens_nonneg sp : lens_ok sp -> 0 <= lens sp.
Proof. unfold lens. induction 1; cbn [fold_right]; lia. Qed.

(* appending one delta to the last span appends one bucket *)
Lemma expand_snoc_delta : forall done pos abs ds o l d,
  lens_ok done -> 0 <= l -> Z.of_nat (length ds) = lens done + l ->
  expand pos abs (done ++ [mkSpan o (l + 1)]) (ds ++ [d]) =
  expand pos abs (done ++ [mkSpan o l]) ds ++ [(pos + extent done + o + l, abs + sumZ ds + d)].
Proof.
  induction done as [|s r IH]; intros pos abs ds o l d Hok Hl Hlen.
  - rewrite lens_nil in Hlen. rewrite extent_nil. cbn [app expand s_off s_len].
    assert (Hn : Z.to_nat (l + 1) = S (length ds)) by lia.
    assert (Hn' : Z.to_nat l = length ds) by lia.
    rewrite Hn, Hn'.
    rewrite expand_span_run by (rewrite app_length; cbn [length]; lia).
    rewrite expand_span_run by lia.
    replace (S (length ds)) with (length (ds ++ [d])) by (rewrite app_length; cbn [length]; lia).
    rewrite !firstn_all. rewrite run_app. rewrite !app_nil_r.
    f_equal. f_equal. f_equal; lia.
  - inversion Hok as [|? ? Hs Hr]; subst.
    rewrite lens_cons in Hlen. rewrite extent_cons. cbn [app expand].
    assert (Hn : (Z.to_nat (s_len s) <= length ds)%nat).
    { pose proof (lens_nonneg r Hr). lia. }
    rewrite expand_span_run by (rewrite app_length; lia).
    rewrite expand_span_run by assumption.
    rewrite firstn_app, skipn_app.
    replace (Z.to_nat (s_len s) - length ds)%nat with 0%nat by lia.
    cbn [firstn skipn]. rewrite app_nil_r.
    rewrite IH; [|assumption|assumption|].
    + rewrite app_assoc. f_equal. f_equal. f_equal; [lia|].
      pose proof (sumZ_firstn_skipn (Z.to_nat (s_len s)) ds). lia.
    + rewrite skipn_length. lia.
Qed.

(* a trailing empty span denotes nothing *)
Lemma expand_snoc_empty_span : forall sp pos abs ds g,
  expand pos abs (sp ++ [mkSpan g 0]) ds = expand pos abs sp ds.
Proof.
  induction sp as [|s r IH]; intros; cbn [app expand].
  - cbn. reflexivity.
  - destruct (expand_span (pos + s_off s) abs (Z.to_nat (s_len s)) ds) as [[l a] rest].
    rewrite IH. reflexivity.
Qed.

Lemma bucket_at_app a b p : bucket_at (a ++ b) p = bucket_at a p + bucket_at b p.
Proof. unfold bucket_at. induction a as [|x r IH]; cbn; [lia|]. destruct (fst x =? p); lia. Qed.

Lemma lens_app a b : lens (a ++ b) = lens a + lens b.
Proof. unfold lens. induction a; cbn; lia. Qed.
Lemma extent_app a b : extent (a ++ b) = extent a + extent b.
Proof. unfold extent. induction a; cbn; lia. Qed.

(* ---------- the state-level view ---------- *)

Definition Sp (s : st) : list span := sdone s ++ [scur s].
Definition E (s : st) : list (Z * Z) := expand 0 0 (Sp s) (sdeltas s).

(* local well-formedness of the output being built *)
Record L (s : st) : Prop := mkL {
  L_done : lens_ok (sdone s);
  L_cur : 0 <= s_len (scur s);
  L_len : Z.of_nat (length (sdeltas s)) = lens (Sp s);
  L_prev : sprev s = sumZ (sdeltas s);
  L_prev_rng : 0 <= sprev s <= maxInt64;
  L_lo : Forall (fun o => 0 <= o) (tl (map s_off (Sp s))) }.

Lemma tl_app_nonempty {A} (l x : list A) : l <> [] -> tl (l ++ x) = tl l ++ x.
Proof. destruct l; [congruence|reflexivity]. Qed.

Lemma append_delta_spec s c : L s -> 0 <= c <= maxInt64 ->
  L (append_delta s c) /\
  extent (Sp (append_delta s c)) = extent (Sp s) + 1 /\
  (forall p, bucket_at (E (append_delta s c)) p = bucket_at (E s) p + (if extent (Sp s) =? p then c else 0)) /\
  sprev (append_delta s c) = c /\ scnt (append_delta s c) = scnt s /\
  sbidx (append_delta s c) = sbidx s /\ snidx (append_delta s c) = snidx s.
Proof.
  intros [Hd Hc Hl Hp Hr Hlo] Hcr.
  assert (Hsub : sub64 c (sprev s) = c - sprev s).
  { unfold sub64. apply wrap64_id. unfold int64, minInt64, maxInt64 in *. lia. }
  unfold Sp, E in *. destruct s as [dn [o l] ds cnt prev b n].
  cbn [sdone scur sdeltas sprev scnt sbidx snidx s_off s_len append_delta] in *.
  rewrite lens_app, lens_cons, lens_nil in Hl. cbn [s_len] in Hl.
  split; [constructor; unfold Sp; cbn [sdone scur sdeltas sprev scnt sbidx snidx s_off s_len append_delta new_span]|unfold Sp, E; cbn [sdone scur sdeltas sprev scnt sbidx snidx s_off s_len append_delta new_span]].
  - assumption.
  - lia.
  - rewrite app_length, lens_app, lens_cons, lens_nil. cbn [length s_len]. lia.
  - rewrite sumZ_app, Hsub. unfold sumZ at 2. cbn [fold_right]. lia.
  - lia.
  - rewrite map_app in *. cbn [map s_off] in *. assumption.
  - split; [|split; [|repeat split]].
    + rewrite !extent_app, !extent_cons, !extent_nil. cbn [s_off s_len]. lia.
    + intros p. rewrite expand_snoc_delta by (try assumption; lia).
      rewrite bucket_at_app. f_equal. cbn [bucket_at fold_right fst snd].
      rewrite extent_app, extent_cons, extent_nil. cbn [s_off s_len]. rewrite Hsub.
      replace (0 + extent dn + o + l) with (extent dn + (o + l + 0)) by lia.
      destruct (extent dn + (o + l + 0) =? p); lia.
Qed.

Lemma new_span_spec s g : L s -> 0 <= g ->
  L (new_span s g) /\ extent (Sp (new_span s g)) = extent (Sp s) + g /\
  E (new_span s g) = E s /\
  sprev (new_span s g) = sprev s /\ scnt (new_span s g) = scnt s /\
  sbidx (new_span s g) = sbidx s /\ snidx (new_span s g) = snidx s.
Proof.
  intros [Hd Hc Hl Hp Hr Hlo] Hg. unfold Sp, E in *.
  destruct s as [dn cur ds cnt prev b n]. cbn [sdone scur sdeltas sprev scnt sbidx snidx new_span] in *.
  rewrite lens_app, lens_cons, lens_nil in Hl.
  split; [constructor; unfold Sp; cbn [sdone scur sdeltas sprev scnt sbidx snidx s_off s_len append_delta new_span]|unfold Sp, E; cbn [sdone scur sdeltas sprev scnt sbidx snidx s_off s_len append_delta new_span]].
  - apply Forall_app. split; [assumption|]. constructor; [assumption|constructor].
  - lia.
  - rewrite !lens_app, !lens_cons, !lens_nil. cbn [s_len]. lia.
  - assumption.
  - assumption.
  - rewrite map_app. rewrite tl_app_nonempty by (rewrite map_app; intros H; apply app_eq_nil in H; destruct H; discriminate).
    apply Forall_app. split; [assumption|]. cbn [map s_off]. constructor; [assumption|constructor].
  - split; [|split; [|repeat split]].
    + rewrite !extent_app, !extent_cons, !extent_nil. cbn [s_off s_len]. lia.
    + apply expand_snoc_empty_span.
Qed.

Lemma zeros_spec n : forall s, L s ->
  L (zeros n s) /\ extent (Sp (zeros n s)) = extent (Sp s) + Z.of_nat n /\
  (forall p, bucket_at (E (zeros n s)) p = bucket_at (E s) p) /\
  scnt (zeros n s) = scnt s /\ sbidx (zeros n s) = sbidx s /\ snidx (zeros n s) = snidx s.
Proof.
  induction n as [|n IH]; intros s HL.
  - cbn [zeros]. split; [assumption|]. repeat split; try lia.
  - cbn [zeros].
    destruct (append_delta_spec s 0 HL) as (HL' & Hx & Hb & _ & Hc & Hbi & Hni).
    { unfold maxInt64. lia. }
    destruct (IH _ HL') as (HL'' & Hx' & Hb' & Hc' & Hbi' & Hni').
    split; [assumption|]. repeat split; try congruence; try lia.
    intros p. rewrite Hb', Hb. destruct (extent (Sp s) =? p); lia.
Qed.

(* emit: place the collected count [gap] positions after the end of the layout *)
Lemma emit_spec s gap : L s -> 0 <= gap -> 0 <= scnt s <= maxInt64 ->
  let s' := emit s gap in
  L s' /\ extent (Sp s') = extent (Sp s) + gap + 1 /\
  (forall p, bucket_at (E s') p = bucket_at (E s) p + (if extent (Sp s) + gap =? p then scnt s else 0)) /\
  sprev s' = scnt s /\ scnt s' = scnt s /\ sbidx s' = sbidx s /\ snidx s' = snidx s.
Proof.
  intros HL Hg Hc. unfold emit. destruct (gap >? 2) eqn:Eg.
  - destruct (new_span_spec s gap HL Hg) as (HL1 & Hx1 & He1 & Hp1 & Hc1 & Hb1 & Hn1).
    destruct (append_delta_spec (new_span s gap) (scnt s) HL1 Hc) as (HL2 & Hx2 & Hb2 & Hp2 & Hc2 & Hbi2 & Hni2).
    cbv zeta. split; [assumption|]. repeat split; try congruence; try lia.
    intros p. rewrite Hb2, He1, Hx1. reflexivity.
  - destruct (zeros_spec (Z.to_nat gap) s HL) as (HL1 & Hx1 & Hb1 & Hc1 & Hbi1 & Hni1).
    destruct (append_delta_spec (zeros (Z.to_nat gap) s) (scnt s) HL1 Hc) as (HL2 & Hx2 & Hb2 & Hp2 & Hc2 & Hbi2 & Hni2).
    cbv zeta. split; [assumption|]. repeat split; try congruence; try lia.
    intros p. rewrite Hb2, Hb1, Hx1. rewrite Z2Nat.id by assumption. reflexivity.
Qed.

(* ---------- field updates that do not touch the output ---------- *)

Lemma L_set_cnt_bidx s c b : L s -> L (set_cnt_bidx s c b).
Proof. intros [H1 H2 H3 H4 H5 H6]. destruct s. constructor; assumption. Qed.
Lemma L_set_nidx s n : L s -> L (set_nidx s n).
Proof. intros [H1 H2 H3 H4 H5 H6]. destruct s. constructor; assumption. Qed.
Lemma E_set_cnt_bidx s c b : E (set_cnt_bidx s c b) = E s. Proof. destruct s; reflexivity. Qed.
Lemma E_set_nidx s n : E (set_nidx s n) = E s. Proof. destruct s; reflexivity. Qed.
Lemma Sp_set_cnt_bidx s c b : Sp (set_cnt_bidx s c b) = Sp s. Proof. destruct s; reflexivity. Qed.
Lemma Sp_set_nidx s n : Sp (set_nidx s n) = Sp s. Proof. destruct s; reflexivity. Qed.

(* ---------- the loop of the repaired convertBucketsLayout ---------- *)

Section Loop.
  Variables off k n delta : Z.
  Hypothesis Hoff : int32 off.
  Hypothesis Hk : 0 <= k.
  Hypothesis Hn : 1 <= n <= maxInt32.
  Hypothesis Hon : off + n <= maxInt32.

  Definition T (i : Z) : Z := ashr (i + off) k + 1.

  Lemma in32 i : 0 <= i < n -> int32 (i + off).
  Proof. unfold int32, minInt32, maxInt32 in *. lia. Qed.

  Lemma T_range i : 0 <= i < n -> minInt32 < T i <= maxInt32.
  Proof.
    intros Hi. unfold T. pose proof (ashr_range (i + off) k (in32 i Hi) Hk) as H.
    pose proof (in32 i Hi) as H32. unfold int32, minInt32, maxInt32 in *.
    destruct (i + off <? 0); lia.
  Qed.

  Lemma tgt_T i : 0 <= i < n -> tgt off k i = T i.
  Proof.
    intros Hi. unfold tgt. rewrite wrap32_add_l. rewrite (wrap32_id (i + off)) by (apply in32; assumption).
    apply wrap32_id. pose proof (T_range i Hi). unfold T, int32 in *. lia.
  Qed.

  Lemma T_mono i j : 0 <= i <= j -> j < n -> T i <= T j.
  Proof.
    intros Hij Hj. unfold T.
    pose proof (ashr_mono (i + off) (j + off) k (in32 i ltac:(lia)) (in32 j ltac:(lia)) Hk ltac:(lia)). lia.
  Qed.

  Lemma T_spread i j : 0 <= i <= j -> j < n -> T j - T i <= maxInt32.
  Proof.
    intros Hij Hj. unfold T.
    pose proof (ashr_range (i + off) k (in32 i ltac:(lia)) Hk) as Hi'.
    pose proof (ashr_range (j + off) k (in32 j ltac:(lia)) Hk) as Hj'.
    pose proof (in32 i ltac:(lia)) as A. pose proof (in32 j ltac:(lia)) as B.
    unfold int32, minInt32, maxInt32 in *.
    destruct (i + off <? 0) eqn:E1; destruct (j + off <? 0) eqn:E2;
      try apply Z.ltb_lt in E1; try apply Z.ltb_ge in E1; try apply Z.ltb_lt in E2; try apply Z.ltb_ge in E2; lia.
  Qed.

  (* what the loop maintains after [i] source buckets, [A] bounding the counts seen so far *)
  Record G (A i : Z) (s : st) : Prop := mkG {
    G_L : L s;
    G_ext : extent (Sp s) = snidx s + delta;
    G_nidx : T 0 <= snidx s <= sbidx s;
    G_bidx : sbidx s = T (Z.max 0 (i - 1));
    G_cnt : 0 <= scnt s <= A;
    G_prev : sprev s <= A }.

  (* count of bucket p in the output so far, plus the count being collected *)
  Definition B (s : st) (p : Z) : Z :=
    bucket_at (E s) p + (if sbidx s + delta =? p then scnt s else 0).

  Lemma step_spec A i s c : G A i s -> 0 <= i < n -> 0 <= c -> A + c <= maxInt64 ->
    G (A + c) (i + 1) (step true off k s i c) /\
    forall p, B (step true off k s i c) p = B s p + (if T i + delta =? p then c else 0).
  Proof.
    intros [HL Hext Hnidx Hbidx Hcnt Hprev] Hi Hc HA.
    assert (HTi : sbidx s <= T i) by (rewrite Hbidx; apply T_mono; lia).
    assert (HT0 : T 0 <= T i) by (apply T_mono; lia).
    pose proof (T_range i Hi) as HTr. pose proof (T_range 0 ltac:(lia)) as HT0r.
    assert (Hw : wrap64 c = c) by (apply wrap64_id, int64_nonneg; lia).
    unfold step. rewrite (tgt_T i Hi), Hw.
    destruct (sbidx s =? T i) eqn:Eb; [apply Z.eqb_eq in Eb | apply Z.eqb_neq in Eb].
    - assert (Ha : add64 (scnt s) c = scnt s + c).
      { unfold add64. apply wrap64_id, int64_nonneg. lia. }
      rewrite Ha. split.
      + constructor.
        * apply L_set_cnt_bidx; assumption.
        * rewrite Sp_set_cnt_bidx. destruct s as [dn cur ds cnt prev bi ni]; cbn in *; assumption.
        * destruct s as [dn cur ds cnt prev bi ni]; cbn in *; assumption.
        * replace (Z.max 0 (i + 1 - 1)) with i by lia. destruct s as [dn cur ds cnt prev bi ni]; cbn in *; assumption.
        * destruct s as [dn cur ds cnt prev bi ni]; cbn in *; lia.
        * destruct s as [dn cur ds cnt prev bi ni]; cbn in *; lia.
      + intros p. unfold B. rewrite E_set_cnt_bidx. destruct s as [dn cur ds cnt prev bi ni]; cbn [sbidx scnt set_cnt_bidx] in *.
        rewrite Eb. destruct (T i + delta =? p); lia.
    - destruct (scnt s =? 0) eqn:Ec; [apply Z.eqb_eq in Ec | apply Z.eqb_neq in Ec].
      + split.
        * constructor.
          -- apply L_set_cnt_bidx; assumption.
          -- rewrite Sp_set_cnt_bidx. destruct s as [dn cur ds cnt prev bi ni]; cbn in *; assumption.
          -- destruct s as [dn cur ds cnt prev bi ni]; cbn in *; lia.
          -- replace (Z.max 0 (i + 1 - 1)) with i by lia. destruct s as [dn cur ds cnt prev bi ni]; reflexivity.
          -- destruct s as [dn cur ds cnt prev bi ni]; cbn in *; lia.
          -- destruct s as [dn cur ds cnt prev bi ni]; cbn in *; lia.
        * intros p. unfold B. rewrite E_set_cnt_bidx. destruct s as [dn cur ds cnt prev bi ni]; cbn [sbidx scnt set_cnt_bidx] in *.
          rewrite Ec. destruct (bi + delta =? p); destruct (T i + delta =? p); lia.
      + assert (Hg : wrap32 (sbidx s - snidx s) = sbidx s - snidx s).
        { apply wrap32_id. pose proof (T_spread 0 i ltac:(lia) ltac:(lia)).
          unfold int32, minInt32, maxInt32 in *. lia. }
        assert (Hb1 : wrap32 (sbidx s + 1) = sbidx s + 1).
        { apply wrap32_id. unfold int32, minInt32, maxInt32 in *. lia. }
        rewrite Hg, Hb1.
        destruct (emit_spec s (sbidx s - snidx s) HL ltac:(lia) ltac:(lia))
          as (HL1 & Hx1 & HB1 & Hp1 & Hc1 & Hbi1 & Hni1).
        set (s1 := emit s (sbidx s - snidx s)) in *.
        split.
        * constructor.
          -- apply L_set_cnt_bidx, L_set_nidx; assumption.
          -- rewrite Sp_set_cnt_bidx, Sp_set_nidx, Hx1, Hext. destruct s1 as [dn1 cur1 ds1 cnt1 prev1 bi1 ni1]; cbn. lia.
          -- destruct s1 as [dn1 cur1 ds1 cnt1 prev1 bi1 ni1]; cbn in *. lia.
          -- replace (Z.max 0 (i + 1 - 1)) with i by lia. destruct s1 as [dn1 cur1 ds1 cnt1 prev1 bi1 ni1]; reflexivity.
          -- destruct s1 as [dn1 cur1 ds1 cnt1 prev1 bi1 ni1]; cbn in *; lia.
          -- assert (sprev (set_cnt_bidx (set_nidx s1 (sbidx s + 1)) c (T i)) = sprev s1) by (destruct s1 as [dn1 cur1 ds1 cnt1 prev1 bi1 ni1]; reflexivity).
             lia.
        * intros p. unfold B. rewrite E_set_cnt_bidx, E_set_nidx, HB1, Hext.
          assert (Hs : sbidx (set_cnt_bidx (set_nidx s1 (sbidx s + 1)) c (T i)) = T i) by (destruct s1 as [dn1 cur1 ds1 cnt1 prev1 bi1 ni1]; reflexivity).
          assert (Hs' : scnt (set_cnt_bidx (set_nidx s1 (sbidx s + 1)) c (T i)) = c) by (destruct s1 as [dn1 cur1 ds1 cnt1 prev1 bi1 ni1]; reflexivity).
          rewrite Hs, Hs'.
          replace (snidx s + delta + (sbidx s - snidx s)) with (sbidx s + delta) by lia. lia.
  Qed.

  Variable adj : bool.
  Hypothesis Htarget : forall i, 0 <= i < n -> target_of off k adj i = T i + delta.

  Lemma loop_spec : forall cs A i s, G A i s -> 0 <= i -> i + Z.of_nat (length cs) <= n ->
    Forall (fun c => 0 <= c) cs -> A + sumZ cs <= maxInt64 ->
    G (A + sumZ cs) (i + Z.of_nat (length cs)) (loop true off k i cs s) /\
    forall p, B (loop true off k i cs s) p = B s p + ref_sum_from off k adj i cs p.
  Proof.
    induction cs as [|c r IH]; intros A i s HG Hi Hlen Hpos HA.
    - cbn [loop length ref_sum_from]. unfold sumZ. cbn [fold_right].
      replace (A + 0) with A by lia. replace (i + Z.of_nat 0) with i by lia.
      split; [assumption|]. intros; lia.
    - inversion Hpos as [|? ? Hc Hr]; subst.
      assert (Hs : sumZ (c :: r) = c + sumZ r) by reflexivity.
      assert (Hr0 : 0 <= sumZ r).
      { clear -Hr. unfold sumZ. induction Hr; cbn [fold_right]; lia. }
      cbn [length] in Hlen. rewrite Hs in *.
      destruct (step_spec A i s c HG ltac:(lia) Hc ltac:(lia)) as (HG1 & HB1).
      destruct (IH (A + c) (i + 1) _ HG1 ltac:(lia) ltac:(lia) Hr ltac:(lia)) as (HG2 & HB2).
      cbn [loop ref_sum_from length]. split.
      + replace (A + (c + sumZ r)) with (A + c + sumZ r) by lia.
        replace (i + Z.of_nat (S (length r))) with (i + 1 + Z.of_nat (length r)) by lia. assumption.
      + intros p. rewrite HB2, HB1, (Htarget i) by lia. lia.
  Qed.
End Loop.

(* ---------- the bucket-sum theorem ---------- *)

(* inputs for which the re-bucketing is specified (see corr/CorrC43.v, layout_pre) *)
Definition layout_pre_P (cs : list Z) (off k : Z) (adj : bool) : Prop :=
  Forall (fun c => 0 <= c) cs /\ sumZ cs <= maxInt64 /\ int32 off /\
  Z.of_nat (length cs) <= maxInt32 /\ off + Z.of_nat (length cs) <= maxInt32 /\
  0 <= k /\ (adj = true \/ k = 0).

Lemma final_state cs off k adj :
  layout_pre_P cs off k adj -> cs <> [] ->
  let n := Z.of_nat (length cs) in
  let b0 := wrap32 (ashr off k + 1) in
  let init_off := if adj then b0 else off in
  let s1 := loop true off k 0 cs (mkSt [] (mkSpan init_off 0) [] 0 0 b0 b0) in
  G off k (init_off - b0) (sumZ cs) n s1 /\
  forall p, B (init_off - b0) s1 p = ref_sum cs off k adj p.
Proof.
  intros (Hpos & Hsum & Hoff & Hlen & Hon & Hk & Hadj) Hne n b0 init_off s1.
  assert (Hn : 1 <= n <= maxInt32).
  { subst n. destruct cs; [congruence|]. cbn [length] in *. lia. }
  assert (Hb0 : b0 = T off k 0).
  { subst b0. unfold T. cbn [Z.add]. apply wrap32_id.
    pose proof (T_range off k n Hoff Hk Hon 0 ltac:(lia)) as H. unfold T in H. cbn [Z.add] in H.
    unfold int32. lia. }
  assert (Htarget : forall i, 0 <= i < n -> target_of off k adj i = T off k i + (init_off - b0)).
  { intros i Hi. unfold target_of, T. subst init_off. destruct Hadj as [-> | ->].
    - lia.
    - destruct adj; [lia|]. rewrite Hb0. unfold T. cbn [Z.add]. rewrite !ashr_0. lia. }
  set (s0 := mkSt [] (mkSpan init_off 0) [] 0 0 b0 b0).
  assert (HG0 : G off k (init_off - b0) 0 0 s0).
  { constructor; unfold s0; cbn [sdone scur sdeltas scnt sprev sbidx snidx s_len].
    - constructor; unfold s0, Sp, maxInt64; cbn [sdone scur sdeltas scnt sprev sbidx snidx s_len app length];
        try reflexivity; try lia; cbn [map tl]; constructor.
    - unfold Sp. cbn. lia.
    - lia.
    - rewrite Hb0. reflexivity.
    - lia.
    - lia. }
  destruct (loop_spec off k n (init_off - b0) Hoff Hk Hn Hon adj Htarget cs 0 0 s0 HG0
              ltac:(lia) ltac:(subst n; lia) Hpos ltac:(lia)) as (HG1 & HB1).
  split.
  - replace (0 + sumZ cs) with (sumZ cs) in HG1 by lia. replace (0 + n) with n in HG1 by (subst n; lia).
    exact HG1.
  - intros p. subst s1. rewrite HB1. unfold B, E, Sp, ref_sum. cbn. destruct (b0 + (init_off - b0) =? p); lia.
Qed.

Lemma convert_unfold fixed cs off sd adjust : cs <> [] ->
  convert_buckets_layout_gen fixed cs off sd adjust =
    let n := Z.of_nat (length cs) in
    let b0 := wrap32 (ashr off sd + 1) in
    let init_off := if adjust then b0 else off in
    let s1 := loop fixed off sd 0 cs (mkSt [] (mkSpan init_off 0) [] 0 0 b0 b0) in
    let gap := if fixed then wrap32 (sbidx s1 - snidx s1)
               else wrap32 (ashr (wrap32 (wrap32 n + off - 1)) sd + 1 - sbidx s1) in
    let s2 := emit s1 gap in
    (sdone s2 ++ [scur s2], sdeltas s2).
Proof. destruct cs; [congruence|reflexivity]. Qed.

Theorem bucket_sums cs off k adj :
  layout_pre_P cs off k adj ->
  forall p, bucket_at (buckets_of (convert_buckets_layout cs off k adj)) p = ref_sum cs off k adj p.
Proof.
  intros Hpre p. destruct (list_eq_dec Z.eq_dec cs []) as [->|Hne].
  - reflexivity.
  - destruct (final_state cs off k adj Hpre Hne) as (HG & HB).
    destruct Hpre as (Hpos & Hsum & Hoff & Hlen & Hon & Hk & Hadj).
    assert (Hn : 1 <= Z.of_nat (length cs) <= maxInt32).
    { destruct cs; [congruence|]. cbn [length] in *. lia. }
    unfold convert_buckets_layout. rewrite convert_unfold by assumption.
    cbv zeta in *.
    set (b0 := wrap32 (ashr off k + 1)) in *.
    set (init_off := if adj then b0 else off) in *.
    set (s1 := loop true off k 0 cs _) in *.
    destruct HG as [HL Hext Hnidx Hbidx Hcnt Hprev].
    set (n := Z.of_nat (length cs)) in *.
    assert (Hg : wrap32 (sbidx s1 - snidx s1) = sbidx s1 - snidx s1).
    { apply wrap32_id.
      pose proof (T_spread off k n Hoff Hk Hn Hon 0 (Z.max 0 (n - 1)) ltac:(lia) ltac:(lia)).
      pose proof (T_range off k n Hoff Hk Hon 0 ltac:(lia)).
      unfold int32, minInt32, maxInt32 in *. lia. }
    rewrite Hg.
    destruct (emit_spec s1 (sbidx s1 - snidx s1) HL ltac:(lia) ltac:(lia)) as (_ & _ & HB2 & _).
    unfold buckets_of. cbn [fst snd]. fold (Sp (emit s1 (sbidx s1 - snidx s1))).
    fold (E (emit s1 (sbidx s1 - snidx s1))).
    rewrite HB2, Hext, <- HB. unfold B.
    replace (snidx s1 + (init_off - b0) + (sbidx s1 - snidx s1)) with (sbidx s1 + (init_off - b0)) by lia.
    reflexivity.
Qed.

Lemma bucket_sums_nonvacuous :
  layout_pre_P [0; 0; 5; 7] 0 1 true /\
  buckets_of (convert_buckets_layout [0; 0; 5; 7] 0 1 true) = [(1, 0); (2, 12)] /\
  ref_sum [0; 0; 5; 7] 0 1 true 2 = 12.
Proof.
  split; [|split; reflexivity].
  unfold layout_pre_P, int32, minInt32, maxInt32, maxInt64. cbn [length sumZ fold_right].
  repeat split; try lia; try (repeat constructor; lia); try (left; reflexivity).
Qed.

(* The code before the fix misplaces counts: all 12 observations of source buckets 2 and 3
   belong to target bucket 2, the old code reports 5 of them in bucket 1. *)
Lemma old_refuted :
  exists cs off k, layout_pre_P cs off k true /\
    exists p, bucket_at (buckets_of (convert_buckets_layout_old cs off k true)) p
              <> ref_sum cs off k true p.
Proof.
  exists [0; 0; 5; 7], 0, 1. split; [apply bucket_sums_nonvacuous|].
  exists 1. vm_compute. discriminate.
Qed.

(* ---------- the emitted layout is a well-formed encoding ---------- *)

Lemma later_offsets_ok_iff r : later_offsets_ok r = true <-> Forall (fun o => 0 <= o) (map s_off r).
Proof.
  induction r as [|s r IH]; cbn [later_offsets_ok map].
  - split; [constructor|reflexivity].
  - rewrite andb_true_iff, Z.leb_le, IH. split.
    + intros [H1 H2]. constructor; assumption.
    + intros H. inversion H; subst. split; assumption.
Qed.

Lemma L_wf s : L s -> layout_wf (Sp s, sdeltas s) = true.
Proof.
  intros [Hd Hc Hl Hp Hr Hlo]. unfold layout_wf. cbn [fst snd].
  rewrite !andb_true_iff. split; [split|].
  - apply Z.eqb_eq. exact Hl.
  - apply forallb_forall. intros x Hx. apply Z.leb_le. unfold Sp in Hx.
    apply in_app_or in Hx. destruct Hx as [Hx|[<-|[]]]; [|assumption].
    unfold lens_ok in Hd. rewrite Forall_forall in Hd. apply Hd; assumption.
  - destruct (Sp s) as [|x r]; [reflexivity|]. apply later_offsets_ok_iff. exact Hlo.
Qed.

Theorem layout_wf_ok cs off k adj :
  layout_pre_P cs off k adj -> layout_wf (convert_buckets_layout cs off k adj) = true.
Proof.
  intros Hpre. destruct (list_eq_dec Z.eq_dec cs []) as [->|Hne].
  - reflexivity.
  - destruct (final_state cs off k adj Hpre Hne) as (HG & HB).
    destruct Hpre as (Hpos & Hsum & Hoff & Hlen & Hon & Hk & Hadj).
    assert (Hn : 1 <= Z.of_nat (length cs) <= maxInt32).
    { destruct cs; [congruence|]. cbn [length] in *. lia. }
    unfold convert_buckets_layout. rewrite convert_unfold by assumption.
    cbv zeta in *.
    set (b0 := wrap32 (ashr off k + 1)) in *.
    set (init_off := if adj then b0 else off) in *.
    set (s1 := loop true off k 0 cs _) in *.
    destruct HG as [HL Hext Hnidx Hbidx Hcnt Hprev].
    set (n := Z.of_nat (length cs)) in *.
    assert (Hg : wrap32 (sbidx s1 - snidx s1) = sbidx s1 - snidx s1).
    { apply wrap32_id.
      pose proof (T_spread off k n Hoff Hk Hn Hon 0 (Z.max 0 (n - 1)) ltac:(lia) ltac:(lia)).
      pose proof (T_range off k n Hoff Hk Hon 0 ltac:(lia)).
      unfold int32, minInt32, maxInt32 in *. lia. }
    rewrite Hg.
    destruct (emit_spec s1 (sbidx s1 - snidx s1) HL ltac:(lia) ltac:(lia)) as (HL2 & _).
    apply (L_wf _ HL2).
Qed.

(* a well-formed layout lists its buckets in strictly increasing index order, so [bucket_at]
   is the count of THE bucket with that index *)
Fixpoint increasing_from (lo : Z) (l : list (Z * Z)) : Prop :=
  match l with [] => True | (p, _) :: r => lo <= p /\ increasing_from (p + 1) r end.

(* ---------- data points ---------- *)

Lemma convert_timestamp_ms ns : 0 <= ns <= maxInt64 ->
  convert_timestamp ns = ns / 1000000 /\
  1000000 * convert_timestamp ns <= ns < 1000000 * (convert_timestamp ns + 1).
Proof.
  intros H. unfold convert_timestamp, godiv. rewrite wrap64_id by (apply int64_nonneg; assumption).
  rewrite Z.quot_div_nonneg by lia. split; [reflexivity|].
  pose proof (Z.div_mod ns 1000000 ltac:(lia)). pose proof (Z.mod_pos_bound ns 1000000 ltac:(lia)). lia.
Qed.

Lemma sum_count_spec norec hassum sum count :
  let '(s, c, w) := sum_count norec hassum sum count in
  (norec = true -> s = staleNaN /\ c = staleNaN) /\
  (norec = false -> c = count /\ s = (if hassum then sum else 0)).
Proof. unfold sum_count. destruct norec; split; intros; try discriminate; split; reflexivity. Qed.

Definition scale_down (scale : Z) : Z := Z.max 0 (scale - 8).

Lemma exp_to_native_spec p delta :
  int32 (e_scale p) ->
  (e_scale p < -4 -> exp_to_native true p delta = None) /\
  (-4 <= e_scale p -> exists h w, exp_to_native true p delta = Some (h, w) /\
     schema h = Z.min (e_scale p) 8 /\
     hint h = (if delta then hintGauge else hintUnknown) /\
     zcount h = e_zero p /\ custom h = [] /\
     (e_norec p = true -> hsum h = staleNaN /\ hcount h = staleNaN) /\
     (e_norec p = false -> hcount h = e_count p /\ hsum h = (if e_hassum p then e_sum p else 0)) /\
     (layout_pre_P (b_counts (e_pos p)) (b_off (e_pos p)) (scale_down (e_scale p)) true ->
        layout_wf (pspans h, pdeltas h) = true /\
        forall i, bucket_at (buckets_of (pspans h, pdeltas h)) i =
                  ref_sum (b_counts (e_pos p)) (b_off (e_pos p)) (scale_down (e_scale p)) true i) /\
     (layout_pre_P (b_counts (e_neg p)) (b_off (e_neg p)) (scale_down (e_scale p)) true ->
        layout_wf (nspans h, ndeltas h) = true /\
        forall i, bucket_at (buckets_of (nspans h, ndeltas h)) i =
                  ref_sum (b_counts (e_neg p)) (b_off (e_neg p)) (scale_down (e_scale p)) true i)).
Proof.
  intros Hs. unfold exp_to_native. split.
  - intros H. apply Z.ltb_lt in H. rewrite H. reflexivity.
  - intros H. assert (Hlt : (e_scale p <? -4) = false) by (apply Z.ltb_ge; lia). rewrite Hlt.
    assert (Hsd : (if e_scale p >? 8 then wrap32 (e_scale p - 8) else 0) = scale_down (e_scale p)).
    { unfold scale_down. destruct (Z.gtb_spec (e_scale p) 8).
      - rewrite wrap32_id by (unfold int32, minInt32, maxInt32 in *; lia). lia.
      - lia. }
    rewrite Hsd.
    pose proof (sum_count_spec (e_norec p) (e_hassum p) (e_sum p) (e_count p)) as Hsc.
    destruct (sum_count (e_norec p) (e_hassum p) (e_sum p) (e_count p)) as [[s c] w].
    destruct Hsc as [Hsc1 Hsc2].
    eexists. eexists. split; [reflexivity|]. cbn [schema hint zcount custom hsum hcount pspans pdeltas nspans ndeltas].
    repeat split.
    + destruct (Z.gtb_spec (e_scale p) 8); lia.
    + apply Hsc1; assumption.
    + apply Hsc1; assumption.
    + apply Hsc2; assumption.
    + apply Hsc2; assumption.
    + rewrite <- surjective_pairing. apply layout_wf_ok; assumption.
    + intros i. rewrite <- surjective_pairing. apply bucket_sums; assumption.
    + rewrite <- surjective_pairing. apply layout_wf_ok; assumption.
    + intros i. rewrite <- surjective_pairing. apply bucket_sums; assumption.
Qed.

(* ---------- explicit buckets -> custom buckets ---------- *)

Lemma ref_sum_from_shift o : forall r i p,
  ref_sum_from o 0 false i r p = ref_sum_from 0 0 false (i + o) r p.
Proof.
  induction r as [|c r IH]; intros i p; cbn [ref_sum_from]; [reflexivity|].
  rewrite IH. unfold target_of. replace (i + 1 + o) with (i + o + 1) by lia.
  replace (i + o + 0) with (i + o) by lia. reflexivity.
Qed.

Lemma lz_facts cs :
  (leading_zeros cs <= length cs)%nat /\
  sumZ (skipn (leading_zeros cs) cs) = sumZ cs /\
  (Forall (fun c => 0 <= c) cs -> Forall (fun c => 0 <= c) (skipn (leading_zeros cs) cs)) /\
  forall i p, ref_sum_from 0 0 false i cs p =
              ref_sum_from 0 0 false (i + Z.of_nat (leading_zeros cs)) (skipn (leading_zeros cs) cs) p.
Proof.
  induction cs as [|c r (IH1 & IH2 & IH3 & IH4)].
  - cbn [leading_zeros skipn length]. repeat split; try lia; auto; intros; replace (i + Z.of_nat 0) with i by lia; reflexivity.
  - destruct c.
    + cbn [leading_zeros skipn length]. repeat split.
      * lia.
      * rewrite IH2. unfold sumZ. cbn [fold_right]. lia.
      * intros H. inversion H; subst. apply IH3; assumption.
      * intros i p. cbn [ref_sum_from]. rewrite IH4.
        replace (i + 1 + Z.of_nat (leading_zeros r)) with (i + Z.of_nat (S (leading_zeros r))) by lia.
        destruct (target_of 0 0 false i =? p); lia.
    + cbn [leading_zeros skipn length]. repeat split; try lia; auto; intros; replace (i + Z.of_nat 0) with i by lia; reflexivity.
    + cbn [leading_zeros skipn length]. repeat split; try lia; auto; intros; replace (i + Z.of_nat 0) with i by lia; reflexivity.
Qed.

(* bucket j of an explicit-bucket histogram is element j of its count array *)
Lemma ref_sum_identity : forall cs i p,
  ref_sum_from 0 0 false i cs p = if (i <=? p) && (p <? i + Z.of_nat (length cs)) then nth (Z.to_nat (p - i)) cs 0 else 0.
Proof.
  induction cs as [|c r IH]; intros i p; cbn [ref_sum_from length].
  - destruct ((i <=? p) && (p <? i + Z.of_nat 0)) eqn:E; [|reflexivity].
    apply andb_true_iff in E. destruct E as [E1 E2]. apply Z.leb_le in E1. apply Z.ltb_lt in E2. lia.
  - rewrite IH. unfold target_of. replace (i + 0) with i by lia.
    destruct (i =? p) eqn:E0; [apply Z.eqb_eq in E0 | apply Z.eqb_neq in E0].
    + subst p. replace (i - i) with 0 by lia. cbn [Z.to_nat nth].
      replace ((i + 1 <=? i)) with false by (symmetry; apply Z.leb_gt; lia). cbn [andb].
      replace (i <=? i) with true by (symmetry; apply Z.leb_le; lia).
      replace (i <? i + Z.of_nat (S (length r))) with true by (symmetry; apply Z.ltb_lt; lia).
      cbn [andb]. lia.
    + destruct (i <=? p) eqn:E1; [apply Z.leb_le in E1 | apply Z.leb_gt in E1].
      * replace (i + 1 <=? p) with true by (symmetry; apply Z.leb_le; lia).
        replace (i + 1 + Z.of_nat (length r)) with (i + Z.of_nat (S (length r))) by lia.
        cbn [andb]. destruct (p <? i + Z.of_nat (S (length r))); [|lia].
        replace (Z.to_nat (p - i)) with (S (Z.to_nat (p - (i + 1)))) by lia. cbn [nth]. lia.
      * replace (i + 1 <=? p) with false by (symmetry; apply Z.leb_gt; lia). cbn [andb]. lia.
Qed.

Definition hist_pre (p : histpt) : Prop :=
  Forall (fun c => 0 <= c) (h_counts p) /\ sumZ (h_counts p) <= maxInt64 /\
  Z.of_nat (length (h_counts p)) <= maxInt32.

Lemma explicit_to_custom_spec p delta : hist_pre p ->
  let h := fst (explicit_to_custom true p delta) in
  schema h = customBucketsSchema /\ custom h = h_bounds p /\
  hint h = (if delta then hintGauge else hintUnknown) /\ zcount h = 0 /\ nspans h = [] /\ ndeltas h = [] /\
  (h_norec p = true -> hsum h = staleNaN /\ hcount h = staleNaN) /\
  (h_norec p = false -> hcount h = h_count p /\ hsum h = (if h_hassum p then h_sum p else 0)) /\
  layout_wf (pspans h, pdeltas h) = true /\
  forall j, bucket_at (buckets_of (pspans h, pdeltas h)) j =
            if (0 <=? j) && (j <? Z.of_nat (length (h_counts p))) then nth (Z.to_nat j) (h_counts p) 0 else 0.
Proof.
  intros (Hpos & Hsum & Hlen). unfold explicit_to_custom.
  pose proof (sum_count_spec (h_norec p) (h_hassum p) (h_sum p) (h_count p)) as Hsc.
  destruct (sum_count (h_norec p) (h_hassum p) (h_sum p) (h_count p)) as [[s c] w].
  destruct Hsc as [Hsc1 Hsc2]. cbn [fst schema custom hint zcount nspans ndeltas hsum hcount pspans pdeltas].
  destruct (lz_facts (h_counts p)) as (Hle & Hs & Hf & Hr).
  set (o := leading_zeros (h_counts p)) in *.
  assert (Hw : wrap32 (Z.of_nat o) = Z.of_nat o).
  { apply wrap32_id. unfold int32, minInt32, maxInt32 in *. lia. }
  rewrite Hw.
  assert (Hpre : layout_pre_P (skipn o (h_counts p)) (Z.of_nat o) 0 false).
  { unfold layout_pre_P. rewrite skipn_length.
    repeat split; try (apply Hf; assumption); try lia;
      try (unfold int32, minInt32, maxInt32 in *; lia); try (right; reflexivity). }
  repeat split; try (apply Hsc1; assumption); try (apply Hsc2; assumption).
  - rewrite <- surjective_pairing. apply layout_wf_ok; assumption.
  - intros j. rewrite <- surjective_pairing. rewrite bucket_sums by assumption.
    unfold ref_sum. rewrite ref_sum_from_shift. replace (0 + Z.of_nat o) with (0 + Z.of_nat o) by lia.
    rewrite <- Hr. rewrite ref_sum_identity. replace (j - 0) with j by lia. reflexivity.
Qed.

Lemma temporality_gate fixed s t :
  temp_ok s t = false ->
  (forall pts, from_metric_gen fixed s (MSum t pts) = error_result) /\
  (forall pts, from_metric_gen fixed s (MHist t pts) = error_result) /\
  (forall pts, from_metric_gen fixed s (MExp t pts) = error_result).
Proof. intros H. unfold from_metric_gen. rewrite H. repeat split. Qed.

Lemma number_points p :
  num_sample p = Float SPlain (convert_timestamp (n_st p)) (convert_timestamp (n_ts p)) (num_value p) /\
  (n_norec p = true -> num_value p = staleNaN) /\
  (n_norec p = false -> forall b, n_val p = DblV b -> num_value p = b) /\
  (n_norec p = false -> forall v, n_val p = IntV v -> num_value p = float_of_Z v).
Proof.
  unfold num_sample, num_value. split; [reflexivity|].
  destruct (n_norec p); repeat split; intros; try discriminate; try reflexivity;
    match goal with H : n_val p = _ |- _ => rewrite H; reflexivity end.
Qed.

Lemma exp_nonvacuous :
  let p := mkExp 9 1 (mkB 0 [0; 0; 5; 7]) (mkB (-3) [2; 0; 0; 0; 0; 1]) 16 true 0 false 5000000 0 in
  int32 (e_scale p) /\ -4 <= e_scale p /\
  layout_pre_P (b_counts (e_pos p)) (b_off (e_pos p)) (scale_down (e_scale p)) true /\
  layout_pre_P (b_counts (e_neg p)) (b_off (e_neg p)) (scale_down (e_scale p)) true.
Proof.
  cbv zeta. cbn [e_scale e_pos e_neg b_counts b_off]. unfold layout_pre_P, int32, minInt32, maxInt32, maxInt64, scale_down.
  cbn [length sumZ fold_right].
  repeat split; try lia; try (repeat constructor; lia); try (left; reflexivity).
Qed.

Lemma hist_nonvacuous : hist_pre (mkHist [] [0; 3; 0; 9] 12 true 0 false 0 0).
Proof.
  unfold hist_pre, maxInt64, maxInt32. cbn [h_counts length sumZ fold_right].
  repeat split; try lia; repeat constructor; lia.
Qed.

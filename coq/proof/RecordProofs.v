(* proof/RecordProofs.v — round-trip proofs for model/Record.v (C14). *)
From Coq Require Import List NArith ZArith Lia Bool.
From Verif Require Import lib.Int64 lib.Bytes lib.Varint model.Record.
Import ListNotations.
Open Scope N_scope.

(* ---------------------------------------------------------------- type ranges (Prop) *)
Definition len_ok {A} (l : list A) : Prop := N.of_nat (length l) < 9223372036854775808.  (* Go len() is an int *)
Definition str_ok (s : bstr) : Prop := len_ok s.
Definition labels_ok (ls : labels) : Prop :=
  len_ok ls /\ Forall (fun l => str_ok (fst l) /\ str_ok (snd l)) ls.
Definition series_ok (s : ref_series) : Prop := u64_ok (s_ref s) /\ labels_ok (s_labels s).
Definition sample_ok (s : ref_sample) : Prop :=
  u64_ok (sm_ref s) /\ int64 (sm_st s) /\ int64 (sm_t s) /\ u64_ok (sm_v s).
Definition stone_ok (s : stone) : Prop :=
  u64_ok (st_ref s) /\ Forall (fun iv => int64 (fst iv) /\ int64 (snd iv)) (st_ivs s).
Definition exemplar_ok (e : ref_exemplar) : Prop :=
  u64_ok (ex_ref e) /\ int64 (ex_t e) /\ u64_ok (ex_v e) /\ labels_ok (ex_labels e).
Definition metadata_ok (m : ref_metadata) : Prop :=
  u64_ok (md_ref m) /\ str_ok (md_unit m) /\ str_ok (md_help m).
Definition mmap_ok (m : ref_mmap) : Prop := u64_ok (mm_ref m) /\ u64_ok (mm_mref m).

(* ---------------------------------------------------------------- monad plumbing *)
Lemma dbind_ok {A B} (d : dec A) (k : A -> dec B) bs a r :
  d bs = Ok (a, r) -> dbind d k bs = k a r.
Proof. intros H. unfold dbind. rewrite H. reflexivity. Qed.

Lemma dbind_varint {B} (k : Z -> dec B) x rest :
  int64 x -> dbind d_varint64 k (put_varint x ++ rest) = k x rest.
Proof. intros H. apply dbind_ok, d_varint64_put, H. Qed.

Lemma dbind_uvarint {B} (k : N -> dec B) x rest :
  u64_ok x -> dbind d_uvarint64 k (put_uvarint x ++ rest) = k x rest.
Proof. intros H. apply dbind_ok, d_uvarint64_put, H. Qed.

Lemma dbind_uvarint32 {B} (k : N -> dec B) x rest :
  x < 4294967296 -> dbind d_uvarint32 k (put_uvarint x ++ rest) = k x rest.
Proof. intros H. apply dbind_ok, d_uvarint32_put, H. Qed.

Lemma dbind_uvarint_int {B} (k : Z -> dec B) x rest :
  x < 9223372036854775808 -> dbind d_uvarint_int k (put_uvarint x ++ rest) = k (Z.of_N x) rest.
Proof. intros H. apply dbind_ok, d_uvarint_int_put, H. Qed.

Lemma dbind_be64 {B} (k : N -> dec B) x rest :
  u64_ok x -> dbind d_be64 k (put_be64 x ++ rest) = k x rest.
Proof. intros H. apply dbind_ok, d_be64_put, H. Qed.

Lemma dbind_byte {B} (k : N -> dec B) b rest : dbind d_byte k (b :: rest) = k b rest.
Proof. reflexivity. Qed.

Lemma dbind_bytes {B} (k : list N -> dec B) s rest :
  str_ok s -> dbind d_uvarint_bytes k (put_uvarint_bytes s ++ rest) = k s rest.
Proof. intros H. apply dbind_ok, d_uvarint_bytes_put, H. Qed.

Lemma app_nonempty_l {A} (a b : list A) : a <> [] -> a ++ b <> [].
Proof. destruct a; [congruence | discriminate]. Qed.

(* ---------------------------------------------------------------- counted repetition *)
Lemma drepeat_flat_map {X} (d : dec X) (e : X -> list N) (P : X -> Prop) :
  (forall x rest, P x -> d (e x ++ rest) = Ok (x, rest)) ->
  forall l rest, Forall P l -> drepeat (length l) d (flat_map e l ++ rest) = Ok (l, rest).
Proof.
  intros Hd l. induction l as [|x l IH]; intros rest Hl.
  - reflexivity.
  - inversion Hl as [|? ? Hx Hl']; subst.
    cbn [length drepeat flat_map]. rewrite <- app_assoc.
    rewrite (dbind_ok _ _ _ _ _ (Hd x _ Hx)).
    rewrite (dbind_ok _ _ _ _ _ (IH rest Hl')). reflexivity.
Qed.

Lemma count_back {A} (l : list A) : Z.to_nat (Z.of_N (N.of_nat (length l))) = length l.
Proof. lia. Qed.

(* dec_list ∘ enc_list *)
Lemma dec_enc_list {X} (d : dec X) (e : X -> list N) (P : X -> Prop) :
  (forall x rest, P x -> d (e x ++ rest) = Ok (x, rest)) ->
  forall l rest, len_ok l -> Forall P l -> dec_list d (enc_list e l ++ rest) = Ok (l, rest).
Proof.
  intros Hd l rest Hlen Hl. unfold dec_list, enc_list. rewrite <- app_assoc.
  rewrite dbind_uvarint_int by exact Hlen. rewrite count_back.
  apply drepeat_flat_map with (P := P); assumption.
Qed.

(* ---------------------------------------------------------------- labels *)
Lemma dec_enc_label l rest :
  str_ok (fst l) /\ str_ok (snd l) -> dec_label (enc_label l ++ rest) = Ok (l, rest).
Proof.
  intros [Ha Hb]. unfold dec_label, enc_label. rewrite <- app_assoc.
  rewrite dbind_bytes by exact Ha. rewrite dbind_bytes by exact Hb.
  destruct l; reflexivity.
Qed.

Lemma dec_enc_labels ls rest : labels_ok ls -> dec_labels (enc_labels ls ++ rest) = Ok (ls, rest).
Proof.
  intros [Hlen Hl]. unfold dec_labels, enc_labels. rewrite <- app_assoc.
  rewrite dbind_uvarint_int by exact Hlen. rewrite count_back.
  apply drepeat_flat_map with (P := fun l => str_ok (fst l) /\ str_ok (snd l)); [|exact Hl].
  intros x r Hx. apply dec_enc_label, Hx.
Qed.

Lemma dbind_labels {B} (k : labels -> dec B) ls rest :
  labels_ok ls -> dbind dec_labels k (enc_labels ls ++ rest) = k ls rest.
Proof. intros H. apply dbind_ok, dec_enc_labels, H. Qed.

(* ---------------------------------------------------------------- the record loop *)
Section LoopRoundTrip.
  Context {X A T St : Type}.
  Context (estep : T -> X -> list N * T) (dstep : St -> dec (list A * St)).
  Context (R : T -> St -> Prop) (okx : X -> Prop) (out : X -> list A).
  Context (step_ok : forall t s x rest, R t s -> okx x ->
             fst (estep t x) <> [] /\
             exists s', dstep s (fst (estep t x) ++ rest) = Ok ((out x, s'), rest) /\ R (snd (estep t x)) s').

  Lemma loop_roundtrip : forall xs t s fuel, R t s -> Forall okx xs ->
    (length (eloop estep t xs) <= fuel)%nat ->
    dloop fuel dstep s (eloop estep t xs) = Ok (flat_map out xs).
  Proof.
    induction xs as [|x xs IH]; intros t s fuel HR Hxs Hfuel.
    - destruct fuel; reflexivity.
    - inversion Hxs as [|? ? Hx Hxs']; subst.
      cbn [eloop flat_map] in *.
      destruct (step_ok t s x (eloop estep (snd (estep t x)) xs) HR Hx) as [Hne [s' [Hstep HR']]].
      destruct (fst (estep t x)) as [|c b] eqn:Eb; [congruence|].
      rewrite app_length in Hfuel. cbn [length] in Hfuel.
      destruct fuel as [|f]; [lia|].
      cbn [app dloop]. cbn [app] in Hstep. rewrite Hstep.
      rewrite (IH _ s' f HR' Hxs') by lia. reflexivity.
  Qed.
End LoopRoundTrip.

(* ---------------------------------------------------------------- series *)
Theorem series_roundtrip : forall l, Forall series_ok l -> dec_series (enc_series l) = Ok l.
Proof.
  intros l Hl. unfold dec_series, enc_series, with_type. change (tSeries =? tSeries) with true. cbv beta iota.
  rewrite (loop_roundtrip _ dec_series1 (fun _ _ => True) series_ok (fun s => [s])).
  - f_equal. clear Hl. induction l; simpl; congruence.
  - intros [] [] x rest _ [Hr Hls]. cbn [fst snd]. split.
    + unfold enc_series1. apply app_nonempty_l. discriminate.
    + exists tt. split; [|exact I].
      unfold dec_series1, enc_series1. rewrite <- app_assoc.
      rewrite dbind_be64 by exact Hr. rewrite dbind_labels by exact Hls.
      destruct x; reflexivity.
  - exact I.
  - exact Hl.
  - apply Nat.le_refl.
Qed.

(* ---------------------------------------------------------------- samples V1 *)
Lemma flat_map_singleton {A B} (f : A -> B) l : flat_map (fun x => [f x]) l = map f l.
Proof. induction l; simpl; congruence. Qed.

Lemma ref_delta_restore b r : u64_ok r -> to_u64 (add64 (to_i64 b) (sub64 (to_i64 r) (to_i64 b))) = r.
Proof.
  intros H. rewrite delta64_restore by apply to_i64_range. apply to_u64_to_i64, H.
Qed.

Lemma base_time_back t : int64 t -> to_i64 (to_u64 t) = t.
Proof. intros H. rewrite to_i64_to_u64. apply wrap64_id, H. Qed.

Lemma sub64_range a b : int64 (sub64 a b).
Proof. apply wrap64_range. Qed.

Theorem samples_v1_roundtrip : forall l, Forall sample_ok l ->
  dec_samples (enc_samples false l) = Ok (map drop_st l).
Proof.
  intros l Hl. unfold dec_samples, enc_samples, enc_samples_v1, with_type.
  change (tSamples =? tSamples) with true. cbv beta iota.
  destruct l as [|first l']; [reflexivity|].
  set (l := first :: l') in *.
  assert (Hf : sample_ok first) by (inversion Hl; assumption).
  destruct Hf as (Hfr & _ & Hft & _).
  unfold dec_samples_v1.
  assert (Hne : put_be64 (sm_ref first) ++ put_be64 (to_u64 (sm_t first)) ++
                eloop (fun (_ : unit) s => (enc_sample_v1 first s, tt)) tt l <> [])
    by (apply app_nonempty_l; discriminate).
  destruct (put_be64 (sm_ref first) ++ _) as [|c0 r0] eqn:E0; [congruence|]. rewrite <- E0. clear E0 Hne c0 r0.
  rewrite dbind_be64 by exact Hfr. rewrite dbind_be64 by apply to_u64_ok.
  unfold dret. rewrite base_time_back by exact Hft.
  rewrite (loop_roundtrip _ (dec_sample_v1 (sm_ref first) (sm_t first)) (fun _ _ => True) sample_ok (fun s => [drop_st s])).
  - rewrite flat_map_singleton. reflexivity.
  - intros [] [] x rest _ (Hr & Hst & Ht & Hv). cbn [fst snd]. split.
    + unfold enc_sample_v1. apply app_nonempty_l, put_varint_nonempty.
    + exists tt. split; [|exact I].
      unfold dec_sample_v1, enc_sample_v1. rewrite <- !app_assoc.
      rewrite dbind_varint by apply sub64_range.
      rewrite dbind_varint by apply sub64_range.
      rewrite dbind_be64 by exact Hv.
      unfold dret, drop_st. rewrite ref_delta_restore by exact Hr.
      rewrite delta64_restore by exact Ht. reflexivity.
  - exact I.
  - exact Hl.
  - apply Nat.le_refl.
Qed.

(* ---------------------------------------------------------------- samples V2 *)
Lemma st_marker_roundtrip {B} (k : Z -> dec B) st firstST prevST rest :
  int64 st ->
  dbind (read_st_marker prevST firstST) k (write_st_marker st firstST prevST ++ rest) = k st rest.
Proof.
  intros Hst. unfold write_st_marker, read_st_marker.
  destruct (st =? 0)%Z eqn:E0.
  - apply Z.eqb_eq in E0. subst st. reflexivity.
  - destruct (st =? prevST)%Z eqn:E1.
    + apply Z.eqb_eq in E1. subst st. reflexivity.
    + cbn [app]. unfold dbind at 1. rewrite dbind_byte.
      change (explicitST =? noST) with false. change (explicitST =? sameST) with false. cbv iota.
      rewrite dbind_varint by apply sub64_range.
      unfold dret. rewrite delta64_restore by exact Hst. reflexivity.
Qed.

Definition v2_rel (t : option (ref_sample * ref_sample)) (s : v2state) : Prop :=
  match t, s with
  | None, None => True
  | Some (first, prev), Some (ft, fst, pref, pst) =>
      ft = sm_t first /\ fst = sm_st first /\ pref = sm_ref prev /\ pst = sm_st prev
  | _, _ => False
  end.

Theorem samples_v2_roundtrip : forall l, Forall sample_ok l ->
  dec_samples (enc_samples true l) = Ok l.
Proof.
  intros l Hl. unfold dec_samples, enc_samples, enc_samples_v2, with_type.
  change (tSamplesV2 =? tSamples) with false. change (tSamplesV2 =? tSamplesV2) with true. cbv beta iota.
  unfold dec_samples_v2.
  rewrite (loop_roundtrip enc_sample_v2 dec_sample_v2 v2_rel sample_ok (fun s => [s])).
  - f_equal. clear Hl. induction l; simpl; congruence.
  - intros t s x rest HR (Hr & Hst & Ht & Hv).
    destruct t as [[first prev]|], s as [[[[ft fst] pref] pst]|]; cbn [v2_rel] in HR; try contradiction.
    + destruct HR as (-> & -> & -> & ->). cbn [enc_sample_v2 fst snd]. split.
      * apply app_nonempty_l, put_varint_nonempty.
      * eexists. split; [|cbn [v2_rel]; repeat split; reflexivity].
        cbn [dec_sample_v2]. rewrite <- !app_assoc.
        rewrite dbind_varint by apply sub64_range.
        rewrite dbind_varint by apply sub64_range.
        rewrite st_marker_roundtrip by exact Hst.
        rewrite dbind_be64 by exact Hv.
        unfold dret. rewrite ref_delta_restore by exact Hr.
        rewrite delta64_restore by exact Ht. destruct x; reflexivity.
    + cbn [enc_sample_v2 fst snd]. split.
      * apply app_nonempty_l, put_varint_nonempty.
      * eexists. split; [|cbn [v2_rel]; repeat split; reflexivity].
        cbn [dec_sample_v2]. rewrite <- !app_assoc.
        rewrite dbind_varint by apply to_i64_range.
        rewrite dbind_varint by exact Ht.
        rewrite dbind_varint by exact Hst.
        rewrite dbind_be64 by exact Hv.
        unfold dret. rewrite to_u64_to_i64 by exact Hr. destruct x; reflexivity.
  - exact I.
  - exact Hl.
  - apply Nat.le_refl.
Qed.

(* ---------------------------------------------------------------- tombstones *)
Definition stone1_ok (x : N * (Z * Z)) : Prop := u64_ok (fst x) /\ int64 (fst (snd x)) /\ int64 (snd (snd x)).

Lemma flatten_stones_ok l : Forall stone_ok l -> Forall stone1_ok (flatten_stones l).
Proof.
  unfold flatten_stones. induction l as [|s l IH]; intros H; [constructor|].
  inversion H as [|? ? [Hr Hiv] Hl]; subst. cbn [flat_map]. apply Forall_app. split; [|apply IH, Hl].
  clear -Hr Hiv. induction (st_ivs s) as [|iv ivs IH]; [constructor|].
  inversion Hiv as [|? ? [Ha Hb] Hivs]; subst. constructor; [|apply IH, Hivs].
  unfold stone1_ok. cbn [fst snd]. auto.
Qed.

Theorem tombstones_roundtrip : forall l, Forall stone_ok l ->
  dec_tombstones (enc_tombstones l) = Ok (canon_stones l).
Proof.
  intros l Hl. unfold dec_tombstones, enc_tombstones, with_type.
  change (tTombstones =? tTombstones) with true. cbv beta iota.
  rewrite (loop_roundtrip _ dec_stone1 (fun _ _ => True) stone1_ok (fun x => [mkStone (fst x) [snd x]])).
  - unfold canon_stones. rewrite flat_map_singleton. reflexivity.
  - intros [] [] x rest _ (Hr & Ha & Hb). cbn [fst snd]. split.
    + unfold enc_stone1. apply app_nonempty_l. discriminate.
    + exists tt. split; [|exact I].
      unfold dec_stone1, enc_stone1. rewrite <- !app_assoc.
      rewrite dbind_be64 by exact Hr. rewrite dbind_varint by exact Ha. rewrite dbind_varint by exact Hb.
      destruct x as [r [a b]]; reflexivity.
  - exact I.
  - apply flatten_stones_ok, Hl.
  - apply Nat.le_refl.
Qed.

(* ---------------------------------------------------------------- exemplars *)
Ltac Zify.zify_post_hook ::= Z.to_euclidean_division_equations.

Lemma addu64_restore b r : u64_ok b -> u64_ok r ->
  addu64 b (to_u64 (sub64 (to_i64 r) (to_i64 b))) = r.
Proof.
  unfold u64_ok, two64N. intros Hb Hr.
  unfold sub64. rewrite to_u64_wrap64.
  unfold addu64, to_u64, to_i64, wrap64, two64, two64N.
  lia.
Qed.

Theorem exemplars_roundtrip : forall l, Forall exemplar_ok l ->
  dec_exemplars (enc_exemplars l) = Ok l.
Proof.
  intros l Hl. unfold dec_exemplars, enc_exemplars, with_type.
  change (tExemplars =? tExemplars) with true. cbv beta iota.
  destruct l as [|first l']; [reflexivity|].
  set (l := first :: l') in *.
  assert (Hf : exemplar_ok first) by (inversion Hl; assumption).
  destruct Hf as (Hfr & Hft & _ & _).
  unfold dec_exemplars_buf.
  assert (Hne : put_be64 (ex_ref first) ++ put_be64 (to_u64 (ex_t first)) ++
                eloop (fun (_ : unit) e => (enc_exemplar1 first e, tt)) tt l <> [])
    by (apply app_nonempty_l; discriminate).
  destruct (put_be64 (ex_ref first) ++ _) as [|c0 r0] eqn:E0; [congruence|]. rewrite <- E0. clear E0 Hne c0 r0.
  rewrite dbind_be64 by exact Hfr. rewrite dbind_be64 by apply to_u64_ok.
  unfold dret. rewrite base_time_back by exact Hft.
  rewrite (loop_roundtrip _ (dec_exemplar1 (ex_ref first) (ex_t first)) (fun _ _ => True) exemplar_ok (fun e => [e])).
  - f_equal. clear. induction l; simpl; congruence.
  - intros [] [] x rest _ (Hr & Ht & Hv & Hls). cbn [fst snd]. split.
    + unfold enc_exemplar1. apply app_nonempty_l, put_varint_nonempty.
    + exists tt. split; [|exact I].
      unfold dec_exemplar1, enc_exemplar1. rewrite <- !app_assoc.
      rewrite dbind_varint by apply sub64_range.
      rewrite dbind_varint by apply sub64_range.
      rewrite dbind_be64 by exact Hv.
      rewrite dbind_labels by exact Hls.
      unfold dret. rewrite addu64_restore by assumption.
      rewrite delta64_restore by exact Ht. destruct x; reflexivity.
  - exact I.
  - exact Hl.
  - apply Nat.le_refl.
Qed.

(* ---------------------------------------------------------------- metadata *)
Lemma dbind_label {B} (k : bstr * bstr -> dec B) a b rest :
  str_ok a -> str_ok b ->
  dbind dec_label k (put_uvarint_bytes a ++ put_uvarint_bytes b ++ rest) = k (a, b) rest.
Proof.
  intros Ha Hb. apply dbind_ok. unfold dec_label.
  rewrite dbind_bytes by exact Ha. rewrite dbind_bytes by exact Hb. reflexivity.
Qed.

Lemma name_ok_unit : str_ok unitMetaName. Proof. unfold str_ok, len_ok. cbn. lia. Qed.
Lemma name_ok_help : str_ok helpMetaName. Proof. unfold str_ok, len_ok. cbn. lia. Qed.

Theorem metadata_roundtrip : forall l, Forall metadata_ok l ->
  dec_metadata (enc_metadata l) = Ok l.
Proof.
  intros l Hl. unfold dec_metadata, enc_metadata, with_type.
  change (tMetadata =? tMetadata) with true. cbv beta iota.
  rewrite (loop_roundtrip _ dec_metadata1 (fun _ _ => True) metadata_ok (fun m => [m])).
  - f_equal. clear. induction l; simpl; congruence.
  - intros [] [] x rest _ (Hr & Hu & Hh). cbn [fst snd]. split.
    + unfold enc_metadata1. apply app_nonempty_l, put_uvarint_nonempty.
    + exists tt. split; [|exact I].
      unfold dec_metadata1, enc_metadata1. rewrite <- !app_assoc.
      rewrite dbind_uvarint by exact Hr.
      cbn [app]. rewrite dbind_byte.
      rewrite dbind_uvarint_int by (cbv; reflexivity).
      change (Z.to_nat (Z.of_N 2)) with 2%nat. cbn [drepeat].
      unfold dbind at 1. rewrite dbind_label by (exact Hu || exact name_ok_unit).
      unfold dbind at 1. rewrite dbind_label by (exact Hh || exact name_ok_help).
      unfold dret. cbn [dbind].
      destruct x as [r t u h]. cbn [md_ref md_type md_unit md_help].
      unfold pick_fields. cbn [fold_left fst snd].
      change (bytes_eqb unitMetaName unitMetaName) with true.
      change (bytes_eqb helpMetaName unitMetaName) with false.
      change (bytes_eqb helpMetaName helpMetaName) with true.
      cbv iota. cbn [fst snd]. reflexivity.
  - exact I.
  - exact Hl.
  - apply Nat.le_refl.
Qed.

(* ---------------------------------------------------------------- m-map markers *)
Theorem mmap_roundtrip : forall l, Forall mmap_ok l -> dec_mmap (enc_mmap l) = Ok l.
Proof.
  intros l Hl. unfold dec_mmap, enc_mmap, with_type.
  change (tMmapMarkers =? tMmapMarkers) with true. cbv beta iota.
  rewrite (loop_roundtrip _ dec_mmap1 (fun _ _ => True) mmap_ok (fun m => [m])).
  - f_equal. clear. induction l; simpl; congruence.
  - intros [] [] x rest _ (Hr & Hm). cbn [fst snd]. split.
    + unfold enc_mmap1. apply app_nonempty_l. discriminate.
    + exists tt. split; [|exact I].
      unfold dec_mmap1, enc_mmap1. rewrite <- !app_assoc.
      rewrite dbind_be64 by exact Hr. rewrite dbind_be64 by exact Hm.
      destruct x; reflexivity.
  - exact I.
  - exact Hl.
  - apply Nat.le_refl.
Qed.

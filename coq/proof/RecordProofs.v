(* proof/RecordProofs.v — round-trip proofs for model/Record.v (C14). *)
From Coq Require Import List NArith ZArith Lia Bool.
From Verif Require Import lib.Int64 lib.Bytes lib.Varint model.Record.
Import ListNotations.
Open Scope N_scope.

(* ---------------------------------------------------------------- type ranges (Prop) *)
Definition len_ok {A} (l : list A) : Prop := N.of_nat (length l) < 9223372036854775808.  (* Go len() is an int *)
Definition str_ok (s : bstr) : Prop := len_ok s.
Definition labels_ok (ls : labels) : Prop :=
  len_ok ls /\ Forall (fun l => str_ok (fst l) /\ str_ok (snd l)) ls.
Definition series_ok (s : ref_series) : Prop := u64_ok (s_ref s) /\ labels_ok (s_labels s).
Definition sample_ok (s : ref_sample) : Prop :=
  u64_ok (sm_ref s) /\ int64 (sm_st s) /\ int64 (sm_t s) /\ u64_ok (sm_v s).
Definition stone_ok (s : stone) : Prop :=
  u64_ok (st_ref s) /\ Forall (fun iv => int64 (fst iv) /\ int64 (snd iv)) (st_ivs s).
Definition exemplar_ok (e : ref_exemplar) : Prop :=
  u64_ok (ex_ref e) /\ int64 (ex_t e) /\ u64_ok (ex_v e) /\ labels_ok (ex_labels e).
Definition metadata_ok (m : ref_metadata) : Prop :=
  u64_ok (md_ref m) /\ str_ok (md_unit m) /\ str_ok (md_help m).
Definition mmap_ok (m : ref_mmap) : Prop := u64_ok (mm_ref m) /\ u64_ok (mm_mref m).

(* ---------------------------------------------------------------- monad plumbing *)
Lemma dbind_ok {A B} (d : dec A) (k : A -> dec B) bs a r :
  d bs = Ok (a, r) -> dbind d k bs = k a r.
Proof. intros H. unfold dbind. rewrite H. reflexivity. Qed.

Lemma dbind_varint {B} (k : Z -> dec B) x rest :
  int64 x -> dbind d_varint64 k (put_varint x ++ rest) = k x rest.
Proof. intros H. apply dbind_ok, d_varint64_put, H. Qed.

Lemma dbind_uvarint {B} (k : N -> dec B) x rest :
  u64_ok x -> dbind d_uvarint64 k (put_uvarint x ++ rest) = k x rest.
Proof. intros H. apply dbind_ok, d_uvarint64_put, H. Qed.

Lemma dbind_uvarint32 {B} (k : N -> dec B) x rest :
  x < 4294967296 -> dbind d_uvarint32 k (put_uvarint x ++ rest) = k x rest.
Proof. intros H. apply dbind_ok, d_uvarint32_put, H. Qed.

Lemma dbind_uvarint_int {B} (k : Z -> dec B) x rest :
  x < 9223372036854775808 -> dbind d_uvarint_int k (put_uvarint x ++ rest) = k (Z.of_N x) rest.
Proof. intros H. apply dbind_ok, d_uvarint_int_put, H. Qed.

Lemma dbind_be64 {B} (k : N -> dec B) x rest :
  u64_ok x -> dbind d_be64 k (put_be64 x ++ rest) = k x rest.
Proof. intros H. apply dbind_ok, d_be64_put, H. Qed.

Lemma dbind_byte {B} (k : N -> dec B) b rest : dbind d_byte k (b :: rest) = k b rest.
Proof. reflexivity. Qed.

Lemma dbind_bytes {B} (k : list N -> dec B) s rest :
  str_ok s -> dbind d_uvarint_bytes k (put_uvarint_bytes s ++ rest) = k s rest.
Proof. intros H. apply dbind_ok, d_uvarint_bytes_put, H. Qed.

Lemma app_nonempty_l {A} (a b : list A) : a <> [] -> a ++ b <> [].
Proof. destruct a; [congruence | discriminate]. Qed.

(* ---------------------------------------------------------------- counted repetition *)
Lemma drepeat_flat_map {X} (d : dec X) (e : X -> list N) (P : X -> Prop) :
  (forall x rest, P x -> d (e x ++ rest) = Ok (x, rest)) ->
  forall l rest, Forall P l -> drepeat (length l) d (flat_map e l ++ rest) = Ok (l, rest).
Proof.
  intros Hd l. induction l as [|x l IH]; intros rest Hl.
  - reflexivity.
  - inversion Hl as [|? ? Hx Hl']; subst.
    cbn [length drepeat flat_map]. rewrite <- app_assoc.
    rewrite (dbind_ok _ _ _ _ _ (Hd x _ Hx)).
    rewrite (dbind_ok _ _ _ _ _ (IH rest Hl')). reflexivity.
Qed.

Lemma count_back {A} (l : list A) : Z.to_nat (Z.of_N (N.of_nat (length l))) = length l.
Proof. lia. Qed.

(* dec_list ∘ enc_list *)
Lemma dec_enc_list {X} (d : dec X) (e : X -> list N) (P : X -> Prop) :
  (forall x rest, P x -> d (e x ++ rest) = Ok (x, rest)) ->
  forall l rest, len_ok l -> Forall P l -> dec_list d (enc_list e l ++ rest) = Ok (l, rest).
Proof.
  intros Hd l rest Hlen Hl. unfold dec_list, enc_list. rewrite <- app_assoc.
  rewrite dbind_uvarint_int by exact Hlen. rewrite count_back.
  apply drepeat_flat_map with (P := P); assumption.
Qed.

(* ---------------------------------------------------------------- labels *)
Lemma dec_enc_label l rest :
  str_ok (fst l) /\ str_ok (snd l) -> dec_label (enc_label l ++ rest) = Ok (l, rest).
Proof.
  intros [Ha Hb]. unfold dec_label, enc_label. rewrite <- app_assoc.
  rewrite dbind_bytes by exact Ha. rewrite dbind_bytes by exact Hb.
  destruct l; reflexivity.
Qed.

Lemma dec_enc_labels ls rest : labels_ok ls -> dec_labels (enc_labels ls ++ rest) = Ok (ls, rest).
Proof.
  intros [Hlen Hl]. unfold dec_labels, enc_labels. rewrite <- app_assoc.
  rewrite dbind_uvarint_int by exact Hlen. rewrite count_back.
  apply drepeat_flat_map with (P := fun l => str_ok (fst l) /\ str_ok (snd l)); [|exact Hl].
  intros x r Hx. apply dec_enc_label, Hx.
Qed.

Lemma dbind_labels {B} (k : labels -> dec B) ls rest :
  labels_ok ls -> dbind dec_labels k (enc_labels ls ++ rest) = k ls rest.
Proof. intros H. apply dbind_ok, dec_enc_labels, H. Qed.

(* ---------------------------------------------------------------- the record loop *)
Section LoopRoundTrip.
  Context {X A T St : Type}.
  Context (estep : T -> X -> list N * T) (dstep : St -> dec (list A * St)).
  Context (R : T -> St -> Prop) (okx : X -> Prop) (out : X -> list A).
  Context (step_ok : forall t s x rest, R t s -> okx x ->
             fst (estep t x) <> [] /\
             exists s', dstep s (fst (estep t x) ++ rest) = Ok ((out x, s'), rest) /\ R (snd (estep t x)) s').

  Lemma loop_roundtrip : forall xs t s fuel, R t s -> Forall okx xs ->
    (length (eloop estep t xs) <= fuel)%nat ->
    dloop fuel dstep s (eloop estep t xs) = Ok (flat_map out xs).
  Proof.
    induction xs as [|x xs IH]; intros t s fuel HR Hxs Hfuel.
    - destruct fuel; reflexivity.
    - inversion Hxs as [|? ? Hx Hxs']; subst.
      cbn [eloop flat_map] in *.
      destruct (step_ok t s x (eloop estep (snd (estep t x)) xs) HR Hx) as [Hne [s' [Hstep HR']]].
      destruct (fst (estep t x)) as [|c b] eqn:Eb; [congruence|].
      rewrite app_length in Hfuel. cbn [length] in Hfuel.
      destruct fuel as [|f]; [lia|].
      cbn [app dloop]. cbn [app] in Hstep. rewrite Hstep.
      rewrite (IH _ s' f HR' Hxs') by lia. reflexivity.
  Qed.
End LoopRoundTrip.

(* ---------------------------------------------------------------- series *)
Theorem series_roundtrip : forall l, Forall series_ok l -> dec_series (enc_series l) = Ok l.
Proof.
  intros l Hl. unfold dec_series, enc_series, with_type. change (tSeries =? tSeries) with true. cbv beta iota.
  rewrite (loop_roundtrip _ dec_series1 (fun _ _ => True) series_ok (fun s => [s])).
  - f_equal. clear Hl. induction l; simpl; congruence.
  - intros [] [] x rest _ [Hr Hls]. cbn [fst snd]. split.
    + unfold enc_series1. apply app_nonempty_l. discriminate.
    + exists tt. split; [|exact I].
      unfold dec_series1, enc_series1. rewrite <- app_assoc.
      rewrite dbind_be64 by exact Hr. rewrite dbind_labels by exact Hls.
      destruct x; reflexivity.
  - exact I.
  - exact Hl.
  - apply Nat.le_refl.
Qed.

(* ---------------------------------------------------------------- samples V1 *)
Lemma flat_map_singleton {A B} (f : A -> B) l : flat_map (fun x => [f x]) l = map f l.
Proof. induction l; simpl; congruence. Qed.

Lemma ref_delta_restore b r : u64_ok r -> to_u64 (add64 (to_i64 b) (sub64 (to_i64 r) (to_i64 b))) = r.
Proof.
  intros H. rewrite delta64_restore by apply to_i64_range. apply to_u64_to_i64, H.
Qed.

Lemma base_time_back t : int64 t -> to_i64 (to_u64 t) = t.
Proof. intros H. rewrite to_i64_to_u64. apply wrap64_id, H. Qed.

Lemma sub64_range a b : int64 (sub64 a b).
Proof. apply wrap64_range. Qed.

Theorem samples_v1_roundtrip : forall l, Forall sample_ok l ->
  dec_samples (enc_samples false l) = Ok (map drop_st l).
Proof.
  intros l Hl. unfold dec_samples, enc_samples, enc_samples_v1, with_type.
  change (tSamples =? tSamples) with true. cbv beta iota.
  destruct l as [|first l']; [reflexivity|].
  set (l := first :: l') in *.
  assert (Hf : sample_ok first) by (inversion Hl; assumption).
  destruct Hf as (Hfr & _ & Hft & _).
  unfold dec_samples_v1.
  assert (Hne : put_be64 (sm_ref first) ++ put_be64 (to_u64 (sm_t first)) ++
                eloop (fun (_ : unit) s => (enc_sample_v1 first s, tt)) tt l <> [])
    by (apply app_nonempty_l; discriminate).
  destruct (put_be64 (sm_ref first) ++ _) as [|c0 r0] eqn:E0; [congruence|]. rewrite <- E0. clear E0 Hne c0 r0.
  rewrite dbind_be64 by exact Hfr. rewrite dbind_be64 by apply to_u64_ok.
  unfold dret. rewrite base_time_back by exact Hft.
  rewrite (loop_roundtrip _ (dec_sample_v1 (sm_ref first) (sm_t first)) (fun _ _ => True) sample_ok (fun s => [drop_st s])).
  - rewrite flat_map_singleton. reflexivity.
  - intros [] [] x rest _ (Hr & Hst & Ht & Hv). cbn [fst snd]. split.
    + unfold enc_sample_v1. apply app_nonempty_l, put_varint_nonempty.
    + exists tt. split; [|exact I].
      unfold dec_sample_v1, enc_sample_v1. rewrite <- !app_assoc.
      rewrite dbind_varint by apply sub64_range.
      rewrite dbind_varint by apply sub64_range.
      rewrite dbind_be64 by exact Hv.
      unfold dret, drop_st. rewrite ref_delta_restore by exact Hr.
      rewrite delta64_restore by exact Ht. reflexivity.
  - exact I.
  - exact Hl.
  - apply Nat.le_refl.
Qed.

(* ---------------------------------------------------------------- samples V2 *)
Lemma st_marker_roundtrip {B} (k : Z -> dec B) st firstST prevST rest :
  int64 st ->
  dbind (read_st_marker prevST firstST) k (write_st_marker st firstST prevST ++ rest) = k st rest.
Proof.
  intros Hst. unfold write_st_marker, read_st_marker.
  destruct (st =? 0)%Z eqn:E0.
  - apply Z.eqb_eq in E0. subst st. reflexivity.
  - destruct (st =? prevST)%Z eqn:E1.
    + apply Z.eqb_eq in E1. subst st. reflexivity.
    + cbn [app]. unfold dbind at 1. rewrite dbind_byte.
      change (explicitST =? noST) with false. change (explicitST =? sameST) with false. cbv iota.
      rewrite dbind_varint by apply sub64_range.
      unfold dret. rewrite delta64_restore by exact Hst. reflexivity.
Qed.

Definition v2_rel (t : option (ref_sample * ref_sample)) (s : v2state) : Prop :=
  match t, s with
  | None, None => True
  | Some (first, prev), Some (ft, fs, pref, pst) =>
      ft = sm_t first /\ fs = sm_st first /\ pref = sm_ref prev /\ pst = sm_st prev
  | _, _ => False
  end.

Theorem samples_v2_roundtrip : forall l, Forall sample_ok l ->
  dec_samples (enc_samples true l) = Ok l.
Proof.
  intros l Hl. unfold dec_samples, enc_samples, enc_samples_v2, with_type.
  change (tSamplesV2 =? tSamples) with false. change (tSamplesV2 =? tSamplesV2) with true. cbv beta iota.
  unfold dec_samples_v2.
  rewrite (loop_roundtrip enc_sample_v2 dec_sample_v2 v2_rel sample_ok (fun s => [s])).
  - f_equal. clear Hl. induction l; simpl; congruence.
  - intros t s x rest HR (Hr & Hst & Ht & Hv).
    destruct t as [[first prev]|], s as [[[[ft fs] pref] pst]|]; cbn [v2_rel] in HR; try contradiction.
    + destruct HR as (-> & -> & -> & ->). cbn [enc_sample_v2 fst snd]. split.
      * apply app_nonempty_l, put_varint_nonempty.
      * exists (Some (sm_t first, sm_st first, sm_ref x, sm_st x)).
        split; [|cbn [v2_rel]; repeat split; reflexivity].
        cbn [dec_sample_v2]. rewrite <- !app_assoc.
        rewrite dbind_varint by apply sub64_range.
        rewrite dbind_varint by apply sub64_range.
        rewrite st_marker_roundtrip by exact Hst.
        rewrite dbind_be64 by exact Hv.
        unfold dret. rewrite ref_delta_restore by exact Hr.
        rewrite delta64_restore by exact Ht. destruct x; reflexivity.
    + cbn [enc_sample_v2 fst snd]. split.
      * apply app_nonempty_l, put_varint_nonempty.
      * exists (Some (sm_t x, sm_st x, sm_ref x, sm_st x)).
        split; [|cbn [v2_rel]; repeat split; reflexivity].
        cbn [dec_sample_v2]. rewrite <- !app_assoc.
        rewrite dbind_varint by apply to_i64_range.
        rewrite dbind_varint by exact Ht.
        rewrite dbind_varint by exact Hst.
        rewrite dbind_be64 by exact Hv.
        unfold dret. rewrite to_u64_to_i64 by exact Hr. destruct x; reflexivity.
  - exact I.
  - exact Hl.
  - apply Nat.le_refl.
Qed.

(* ---------------------------------------------------------------- tombstones *)
Definition stone1_ok (x : N * (Z * Z)) : Prop := u64_ok (fst x) /\ int64 (fst (snd x)) /\ int64 (snd (snd x)).

Lemma flatten_stones_ok l : Forall stone_ok l -> Forall stone1_ok (flatten_stones l).
Proof.
  unfold flatten_stones. induction l as [|s l IH]; intros H; [constructor|].
  inversion H as [|? ? [Hr Hiv] Hl]; subst. cbn [flat_map]. apply Forall_app. split; [|apply IH, Hl].
  clear -Hr Hiv. induction (st_ivs s) as [|iv ivs IH]; [constructor|].
  inversion Hiv as [|? ? [Ha Hb] Hivs]; subst. constructor; [|apply IH, Hivs].
  unfold stone1_ok. cbn [fst snd]. auto.
Qed.

Theorem tombstones_roundtrip : forall l, Forall stone_ok l ->
  dec_tombstones (enc_tombstones l) = Ok (canon_stones l).
Proof.
  intros l Hl. unfold dec_tombstones, enc_tombstones, with_type.
  change (tTombstones =? tTombstones) with true. cbv beta iota.
  rewrite (loop_roundtrip _ dec_stone1 (fun _ _ => True) stone1_ok (fun x => [mkStone (fst x) [snd x]])).
  - unfold canon_stones. rewrite flat_map_singleton. reflexivity.
  - intros [] [] x rest _ (Hr & Ha & Hb). cbn [fst snd]. split.
    + unfold enc_stone1. apply app_nonempty_l. discriminate.
    + exists tt. split; [|exact I].
      unfold dec_stone1, enc_stone1. rewrite <- !app_assoc.
      rewrite dbind_be64 by exact Hr. rewrite dbind_varint by exact Ha. rewrite dbind_varint by exact Hb.
      destruct x as [r [a b]]; reflexivity.
  - exact I.
  - apply flatten_stones_ok, Hl.
  - apply Nat.le_refl.
Qed.

(* ---------------------------------------------------------------- exemplars *)
Ltac Zify.zify_post_hook ::= Z.to_euclidean_division_equations.

Lemma addu64_restore b r : u64_ok b -> u64_ok r ->
  addu64 b (to_u64 (sub64 (to_i64 r) (to_i64 b))) = r.
Proof.
  unfold u64_ok, two64N. intros Hb Hr.
  unfold sub64. rewrite to_u64_wrap64.
  unfold addu64, to_u64, to_i64, wrap64, two64, two64N.
  lia.
Qed.

Theorem exemplars_roundtrip : forall l, Forall exemplar_ok l ->
  dec_exemplars (enc_exemplars l) = Ok l.
Proof.
  intros l Hl. unfold dec_exemplars, enc_exemplars, with_type.
  change (tExemplars =? tExemplars) with true. cbv beta iota.
  destruct l as [|first l']; [reflexivity|].
  set (l := first :: l') in *.
  assert (Hf : exemplar_ok first) by (inversion Hl; assumption).
  destruct Hf as (Hfr & Hft & _ & _).
  unfold dec_exemplars_buf.
  assert (Hne : put_be64 (ex_ref first) ++ put_be64 (to_u64 (ex_t first)) ++
                eloop (fun (_ : unit) e => (enc_exemplar1 first e, tt)) tt l <> [])
    by (apply app_nonempty_l; discriminate).
  destruct (put_be64 (ex_ref first) ++ _) as [|c0 r0] eqn:E0; [congruence|]. rewrite <- E0. clear E0 Hne c0 r0.
  rewrite dbind_be64 by exact Hfr. rewrite dbind_be64 by apply to_u64_ok.
  unfold dret. rewrite base_time_back by exact Hft.
  rewrite (loop_roundtrip _ (dec_exemplar1 (ex_ref first) (ex_t first)) (fun _ _ => True) exemplar_ok (fun e => [e])).
  - f_equal. clear. induction l; simpl; congruence.
  - intros [] [] x rest _ (Hr & Ht & Hv & Hls). cbn [fst snd]. split.
    + unfold enc_exemplar1. apply app_nonempty_l, put_varint_nonempty.
    + exists tt. split; [|exact I].
      unfold dec_exemplar1, enc_exemplar1. rewrite <- !app_assoc.
      rewrite dbind_varint by apply sub64_range.
      rewrite dbind_varint by apply sub64_range.
      rewrite dbind_be64 by exact Hv.
      rewrite dbind_labels by exact Hls.
      unfold dret. rewrite addu64_restore by assumption.
      rewrite delta64_restore by exact Ht. destruct x; reflexivity.
  - exact I.
  - exact Hl.
  - apply Nat.le_refl.
Qed.

(* ---------------------------------------------------------------- metadata *)
Lemma dbind_label {B} (k : bstr * bstr -> dec B) a b rest :
  str_ok a -> str_ok b ->
  dbind dec_label k (put_uvarint_bytes a ++ put_uvarint_bytes b ++ rest) = k (a, b) rest.
Proof.
  intros Ha Hb. apply dbind_ok. unfold dec_label.
  rewrite dbind_bytes by exact Ha. rewrite dbind_bytes by exact Hb. reflexivity.
Qed.

Lemma name_ok_unit : str_ok unitMetaName. Proof. unfold str_ok, len_ok. cbn. lia. Qed.
Lemma name_ok_help : str_ok helpMetaName. Proof. unfold str_ok, len_ok. cbn. lia. Qed.

Theorem metadata_roundtrip : forall l, Forall metadata_ok l ->
  dec_metadata (enc_metadata l) = Ok l.
Proof.
  intros l Hl. unfold dec_metadata, enc_metadata, with_type.
  change (tMetadata =? tMetadata) with true. cbv beta iota.
  rewrite (loop_roundtrip _ dec_metadata1 (fun _ _ => True) metadata_ok (fun m => [m])).
  - f_equal. clear. induction l; simpl; congruence.
  - intros [] [] x rest _ (Hr & Hu & Hh). cbn [fst snd]. split.
    + unfold enc_metadata1. apply app_nonempty_l, put_uvarint_nonempty.
    + exists tt. split; [|exact I].
      unfold dec_metadata1, enc_metadata1. rewrite <- !app_assoc.
      rewrite dbind_uvarint by exact Hr.
      cbn [app]. rewrite dbind_byte.
      rewrite dbind_uvarint_int by (cbv; reflexivity).
      change (Z.to_nat (Z.of_N 2)) with 2%nat. cbn [drepeat].
      unfold dbind at 1. rewrite dbind_label by (exact Hu || exact name_ok_unit).
      unfold dbind at 1. rewrite dbind_label by (exact Hh || exact name_ok_help).
      unfold dret. cbn [dbind].
      destruct x as [r t u h]. cbn [md_ref md_type md_unit md_help].
      unfold pick_fields. cbn [fold_left fst snd].
      change (bytes_eqb unitMetaName unitMetaName) with true.
      change (bytes_eqb helpMetaName unitMetaName) with false.
      change (bytes_eqb helpMetaName helpMetaName) with true.
      cbv iota. cbn [fst snd]. reflexivity.
  - exact I.
  - exact Hl.
  - apply Nat.le_refl.
Qed.

(* ---------------------------------------------------------------- m-map markers *)
Theorem mmap_roundtrip : forall l, Forall mmap_ok l -> dec_mmap (enc_mmap l) = Ok l.
Proof.
  intros l Hl. unfold dec_mmap, enc_mmap, with_type.
  change (tMmapMarkers =? tMmapMarkers) with true. cbv beta iota.
  rewrite (loop_roundtrip _ dec_mmap1 (fun _ _ => True) mmap_ok (fun m => [m])).
  - f_equal. clear. induction l; simpl; congruence.
  - intros [] [] x rest _ (Hr & Hm). cbn [fst snd]. split.
    + unfold enc_mmap1. apply app_nonempty_l. discriminate.
    + exists tt. split; [|exact I].
      unfold dec_mmap1, enc_mmap1. rewrite <- !app_assoc.
      rewrite dbind_be64 by exact Hr. rewrite dbind_be64 by exact Hm.
      destruct x; reflexivity.
  - exact I.
  - exact Hl.
  - apply Nat.le_refl.
Qed.

(* ================================================================ native histograms *)
Definition span_ok (s : span) : Prop := int32 (sp_off s) /\ sp_len s < 4294967296.
Definition hist_ok (h : hist) : Prop :=
  int32 (h_schema h) /\ u64_ok (h_zt h) /\ u64_ok (h_zc h) /\ u64_ok (h_count h) /\ u64_ok (h_sum h) /\
  (len_ok (h_ps h) /\ Forall span_ok (h_ps h)) /\ (len_ok (h_ns h) /\ Forall span_ok (h_ns h)) /\
  (len_ok (h_pb h) /\ Forall int64 (h_pb h)) /\ (len_ok (h_nb h) /\ Forall int64 (h_nb h)) /\
  (len_ok (h_cv h) /\ Forall u64_ok (h_cv h)).
Definition fhist_ok (h : fhist) : Prop :=
  int32 (fh_schema h) /\ u64_ok (fh_zt h) /\ u64_ok (fh_zc h) /\ u64_ok (fh_count h) /\ u64_ok (fh_sum h) /\
  (len_ok (fh_ps h) /\ Forall span_ok (fh_ps h)) /\ (len_ok (fh_ns h) /\ Forall span_ok (fh_ns h)) /\
  (len_ok (fh_pb h) /\ Forall u64_ok (fh_pb h)) /\ (len_ok (fh_nb h) /\ Forall u64_ok (fh_nb h)) /\
  (len_ok (fh_cv h) /\ Forall u64_ok (fh_cv h)).

Lemma dbind_list {X B} (d : dec X) (e : X -> list N) (P : X -> Prop) (k : list X -> dec B) l rest :
  (forall x r, P x -> d (e x ++ r) = Ok (x, r)) -> len_ok l /\ Forall P l ->
  dbind (dec_list d) k (enc_list e l ++ rest) = k l rest.
Proof. intros Hd [Hlen Hl]. apply dbind_ok. apply dec_enc_list with (P := P); assumption. Qed.

Lemma dec_enc_span s r : span_ok s -> dec_span (enc_span s ++ r) = Ok (s, r).
Proof.
  intros [Ho Hl]. unfold dec_span, enc_span. rewrite <- app_assoc.
  rewrite dbind_varint by (apply int32_int64, Ho). rewrite dbind_uvarint32 by exact Hl.
  unfold dret. rewrite wrap32_id by exact Ho. destruct s; reflexivity.
Qed.
Lemma dec_enc_varint x r : int64 x -> d_varint64 (put_varint x ++ r) = Ok (x, r).
Proof. apply d_varint64_put. Qed.
Lemma dec_enc_be64 x r : u64_ok x -> d_be64 (put_be64 x ++ r) = Ok (x, r).
Proof. apply d_be64_put. Qed.

Lemma dec_enc_hist h rest : hist_ok h -> dec_hist (enc_hist h ++ rest) = Ok (canon_hist h, rest).
Proof.
  intros (Hs & Hzt & Hzc & Hc & Hsum & Hps & Hns & Hpb & Hnb & Hcv).
  unfold dec_hist, enc_hist. rewrite <- !app_assoc. cbn [app]. rewrite dbind_byte.
  rewrite dbind_varint by (apply int32_int64, Hs).
  rewrite dbind_be64 by exact Hzt. rewrite dbind_uvarint by exact Hzc.
  rewrite dbind_uvarint by exact Hc. rewrite dbind_be64 by exact Hsum.
  rewrite (dbind_list _ _ span_ok) by (exact dec_enc_span || exact Hps).
  rewrite (dbind_list _ _ span_ok) by (exact dec_enc_span || exact Hns).
  rewrite (dbind_list _ _ int64) by (exact dec_enc_varint || exact Hpb).
  rewrite (dbind_list _ _ int64) by (exact dec_enc_varint || exact Hnb).
  rewrite wrap32_id by exact Hs. unfold canon_hist.
  destruct (is_custom (h_schema h)).
  - rewrite (dbind_list _ _ u64_ok) by (exact dec_enc_be64 || exact Hcv). reflexivity.
  - reflexivity.
Qed.

Lemma dec_enc_fhist h rest : fhist_ok h -> dec_fhist (enc_fhist h ++ rest) = Ok (canon_fhist h, rest).
Proof.
  intros (Hs & Hzt & Hzc & Hc & Hsum & Hps & Hns & Hpb & Hnb & Hcv).
  unfold dec_fhist, enc_fhist. rewrite <- !app_assoc. cbn [app]. rewrite dbind_byte.
  rewrite dbind_varint by (apply int32_int64, Hs).
  rewrite dbind_be64 by exact Hzt. rewrite dbind_be64 by exact Hzc.
  rewrite dbind_be64 by exact Hc. rewrite dbind_be64 by exact Hsum.
  rewrite (dbind_list _ _ span_ok) by (exact dec_enc_span || exact Hps).
  rewrite (dbind_list _ _ span_ok) by (exact dec_enc_span || exact Hns).
  rewrite (dbind_list _ _ u64_ok) by (exact dec_enc_be64 || exact Hpb).
  rewrite (dbind_list _ _ u64_ok) by (exact dec_enc_be64 || exact Hnb).
  rewrite wrap32_id by exact Hs. unfold canon_fhist.
  destruct (is_custom (fh_schema h)).
  - rewrite (dbind_list _ _ u64_ok) by (exact dec_enc_be64 || exact Hcv). reflexivity.
  - reflexivity.
Qed.

(* ---- the record level, generic in the payload *)
Lemma dloop_step {A St} (step : St -> dec (list A * St)) fuel s b rest o s' l :
  b <> [] -> step s (b ++ rest) = Ok ((o, s'), rest) ->
  (forall f, (length rest <= f)%nat -> dloop f step s' rest = Ok l) ->
  (length (b ++ rest) <= fuel)%nat ->
  dloop fuel step s (b ++ rest) = Ok (o ++ l).
Proof.
  intros Hb Hstep Hrest Hfuel. destruct b as [|c b]; [congruence|].
  rewrite app_length in Hfuel. cbn [length] in Hfuel. destruct fuel as [|f]; [lia|].
  cbn [app dloop]. cbn [app] in Hstep. rewrite Hstep. rewrite Hrest by lia. reflexivity.
Qed.

Lemma eloop_skip {X} (skip : X -> bool) (e : X -> list N) l :
  eloop (fun (_ : unit) x => if skip x then ([], tt) else (e x, tt)) tt l =
  eloop (fun (_ : unit) x => (e x, tt)) tt (filter (fun x => negb (skip x)) l).
Proof.
  induction l as [|x l IH]; [reflexivity|]. cbn [eloop filter].
  destruct (skip x); cbn [negb fst snd eloop app]; rewrite IH; reflexivity.
Qed.

Lemma filter_len_le {X} (p : X -> bool) l : (length (filter p l) <= length l)%nat.
Proof. induction l as [|x l IH]; [apply Nat.le_refl|]. cbn [filter]. destruct (p x); cbn [length]; lia. Qed.

Lemma filter_length_all {X} (p : X -> bool) l :
  Nat.eqb (length l) (length (filter p l)) = true -> filter (fun x => negb (p x)) l = [].
Proof.
  intros H. apply Nat.eqb_eq in H.
  induction l as [|x l IH]; [reflexivity|]. cbn [filter length] in *.
  pose proof (filter_len_le p l) as Hle.
  destruct (p x); cbn [negb length] in *; [apply IH; lia | lia].
Qed.

Lemma filter_length_some {X} (p : X -> bool) l :
  Nat.eqb (length l) (length (filter p l)) = false -> filter (fun x => negb (p x)) l <> [].
Proof.
  intros H. apply Nat.eqb_neq in H. intros E. apply H. clear H.
  induction l as [|x l IH]; [reflexivity|]. cbn [filter length] in *.
  destruct (p x); cbn [negb length] in *; [f_equal; apply IH, E | discriminate].
Qed.

Section HistRoundTrip.
  Context {H : Type} (h_enc : H -> list N) (h_dec : dec H) (schema_of : H -> Z).
  Context (h_ok : H -> Prop) (canon_h : H -> H).
  Context (h_rt : forall h rest, h_ok h -> h_dec (h_enc h ++ rest) = Ok (canon_h h, rest)).
  Context (h_ne : forall h, h_enc h <> []).
  Context (h_schema_canon : forall h, schema_of (canon_h h) = schema_of h).

  (* range of the Go types, plus: the schema is not one that the decoder sends through
     ReduceResolution (9..52) — that path is not modelled *)
  Definition rs_ok (x : rsample H) : Prop :=
    u64_ok (r_ref x) /\ int64 (r_st x) /\ int64 (r_t x) /\ h_ok (r_h x) /\
    needs_reduce (schema_of (r_h x)) = false.

  Definition rs_out (v2 : bool) (x : rsample H) : list (rsample H) :=
    if is_known_schema (schema_of (r_h x))
    then [mkRS (r_ref x) (if v2 then r_st x else 0%Z) (r_t x) (canon_h (r_h x))] else [].

  Lemma rs_out_canon v2 l : flat_map (rs_out v2) l = canon_rs canon_h schema_of v2 l.
  Proof.
    unfold canon_rs. induction l as [|x l IH]; [reflexivity|]. cbn [flat_map filter]. unfold rs_out at 1.
    destruct (is_known_schema (schema_of (r_h x))); cbn [map app]; rewrite IH; reflexivity.
  Qed.

  Lemma keep_schema_ok {St} (v2 : bool) (x : rsample H) (s : St) rest :
    needs_reduce (schema_of (r_h x)) = false ->
    keep_schema (schema_of (canon_h (r_h x)))
      (mkRS (r_ref x) (if v2 then r_st x else 0%Z) (r_t x) (canon_h (r_h x))) s rest =
    Ok ((rs_out v2 x, s), rest).
  Proof.
    intros Hnr. unfold keep_schema, rs_out. rewrite h_schema_canon, Hnr.
    destruct (is_known_schema (schema_of (r_h x))); reflexivity.
  Qed.

  Lemma dbind_h {B} (k : H -> dec B) h rest : h_ok h -> dbind h_dec k (h_enc h ++ rest) = k (canon_h h) rest.
  Proof. intros Hh. apply dbind_ok, h_rt, Hh. Qed.

  (* -- V1 body, for any list encoded relative to [first] *)
  Lemma v1_body first l fuel : u64_ok (r_ref first) -> Forall rs_ok l ->
    (length (eloop (fun (_ : unit) x => (enc_rs_v1 h_enc first x, tt)) tt l) <= fuel)%nat ->
    dloop fuel (dec_rs_v1 h_dec schema_of (r_ref first) (r_t first)) tt
          (eloop (fun (_ : unit) x => (enc_rs_v1 h_enc first x, tt)) tt l)
    = Ok (canon_rs canon_h schema_of false l).
  Proof.
    intros Hfr Hl Hfuel.
    rewrite (loop_roundtrip _ (dec_rs_v1 h_dec schema_of (r_ref first) (r_t first)) (fun _ _ => True) rs_ok (rs_out false)).
    - rewrite rs_out_canon. reflexivity.
    - intros [] [] x rest _ (Hr & Hst & Ht & Hh & Hnr). cbn [fst snd]. split.
      + unfold enc_rs_v1. apply app_nonempty_l, put_varint_nonempty.
      + exists tt. split; [|exact I].
        unfold dec_rs_v1, enc_rs_v1. rewrite <- !app_assoc.
        rewrite dbind_varint by apply sub64_range.
        rewrite dbind_varint by apply sub64_range.
        rewrite dbind_h by exact Hh.
        rewrite addu64_restore by assumption.
        rewrite delta64_restore by exact Ht.
        apply (keep_schema_ok false x tt rest Hnr).
    - exact I.
    - exact Hl.
    - exact Hfuel.
  Qed.

  Lemma v1_record first l :
    u64_ok (r_ref first) -> int64 (r_t first) -> Forall rs_ok l ->
    dec_hists_v1 h_dec schema_of
      (put_be64 (r_ref first) ++ put_be64 (to_u64 (r_t first)) ++
       eloop (fun (_ : unit) x => (enc_rs_v1 h_enc first x, tt)) tt l)
    = Ok (canon_rs canon_h schema_of false l).
  Proof.
    intros Hfr Hft Hl. unfold dec_hists_v1.
    assert (Hne : put_be64 (r_ref first) ++ put_be64 (to_u64 (r_t first)) ++
                  eloop (fun (_ : unit) x => (enc_rs_v1 h_enc first x, tt)) tt l <> [])
      by (apply app_nonempty_l; discriminate).
    destruct (put_be64 (r_ref first) ++ _) as [|c0 r0] eqn:E0; [congruence|]. rewrite <- E0. clear E0 Hne c0 r0.
    rewrite dbind_be64 by exact Hfr. rewrite dbind_be64 by apply to_u64_ok.
    unfold dret. rewrite base_time_back by exact Hft.
    apply v1_body; [exact Hfr | exact Hl | apply Nat.le_refl].
  Qed.

  (* Encoder.customBucketsHistogramSamplesV1 (and the float one): everything is encoded *)
  Theorem cbhists_v1_roundtrip typ l : Forall rs_ok l ->
    dec_hists_v1 h_dec schema_of (tl (enc_cbhists_v1 h_enc typ l)) = Ok (canon_rs canon_h schema_of false l).
  Proof.
    intros Hl. unfold enc_cbhists_v1. cbn [tl]. destruct l as [|first l']; [reflexivity|].
    assert (Hf : rs_ok first) by (inversion Hl; assumption). destruct Hf as (Hfr & _ & Hft & _).
    apply v1_record; assumption.
  Qed.

  (* Encoder.histogramSamplesV1 (and the float one): the split *)
  Theorem hists_v1_split typ l : Forall rs_ok l ->
    let custom := filter (r_custom schema_of) l in
    let expo := filter (fun x => negb (r_custom schema_of x)) l in
    snd (enc_hists_v1 h_enc schema_of typ l) = custom /\
    match l, expo with
    | [], _ => fst (enc_hists_v1 h_enc schema_of typ l) = [typ]
    | _ :: _, [] => fst (enc_hists_v1 h_enc schema_of typ l) = []      (* all custom: empty record *)
    | _ :: _, _ :: _ =>
        exists body, fst (enc_hists_v1 h_enc schema_of typ l) = typ :: body /\
                     dec_hists_v1 h_dec schema_of body = Ok (canon_rs canon_h schema_of false expo)
    end.
  Proof.
    intros Hl custom expo. unfold enc_hists_v1.
    destruct l as [|first l']; [split; reflexivity|].
    set (l := first :: l') in *. cbn [fst snd]. split; [reflexivity|].
    fold custom.
    destruct (Nat.eqb (length l) (length custom)) eqn:E.
    - unfold expo. rewrite (filter_length_all _ _ E). reflexivity.
    - pose proof (filter_length_some _ _ E) as Hne. fold expo in Hne.
      destruct expo as [|e0 expo'] eqn:Ee; [congruence|]. rewrite <- Ee.
      eexists. split; [reflexivity|].
      unfold enc_rs_v1_skip. rewrite (eloop_skip (r_custom schema_of) (enc_rs_v1 h_enc first)).
      fold expo.
      assert (Hf : rs_ok first) by (inversion Hl; assumption). destruct Hf as (Hfr & _ & Hft & _).
      apply v1_record; [exact Hfr | exact Hft |].
      unfold expo. apply Forall_forall. intros x Hx. apply filter_In in Hx.
      rewrite Forall_forall in Hl. apply Hl, Hx.
  Qed.

  (* -- V2 *)
  Definition hv2_rel (t : option (rsample H * rsample H)) (s : option (N * Z)) (first : rsample H) : Prop :=
    match t, s with
    | Some (f, prev), Some (pref, pst) => f = first /\ pref = r_ref prev /\ pst = r_st prev
    | _, _ => False
    end.

  Lemma v2_rest first : forall l t s fuel, hv2_rel t s first -> Forall rs_ok l ->
    (length (eloop (enc_rs_v2 h_enc) t l) <= fuel)%nat ->
    dloop fuel (dec_rs_v2 h_dec schema_of (r_ref first) (r_t first) (r_st first)) s (eloop (enc_rs_v2 h_enc) t l)
    = Ok (canon_rs canon_h schema_of true l).
  Proof.
    intros l t s fuel HR Hl Hfuel.
    rewrite (loop_roundtrip (enc_rs_v2 h_enc) (dec_rs_v2 h_dec schema_of (r_ref first) (r_t first) (r_st first))
               (fun t s => hv2_rel t s first) rs_ok (rs_out true)).
    - rewrite rs_out_canon. reflexivity.
    - clear HR Hl Hfuel. intros t0 s0 x rest HR0 (Hr & Hst & Ht & Hh & Hnr).
      destruct t0 as [[f prev]|], s0 as [[pref pst]|]; cbn [hv2_rel] in HR0; try contradiction.
      destruct HR0 as (-> & -> & ->). cbn [enc_rs_v2 fst snd]. split.
      + apply app_nonempty_l, put_varint_nonempty.
      + exists (Some (r_ref x, r_st x)). split; [|cbn [hv2_rel]; repeat split; reflexivity].
        cbn [dec_rs_v2]. rewrite <- !app_assoc.
        rewrite dbind_varint by apply sub64_range.
        rewrite dbind_varint by apply sub64_range.
        rewrite st_marker_roundtrip by exact Hst.
        rewrite dbind_h by exact Hh.
        cbv zeta. rewrite ref_delta_restore by exact Hr.
        rewrite delta64_restore by exact Ht.
        apply (keep_schema_ok true x (Some (r_ref x, r_st x)) rest Hnr).
    - exact HR.
    - exact Hl.
    - exact Hfuel.
  Qed.

  Theorem hists_v2_roundtrip typ l : Forall rs_ok l ->
    dec_hists_v2 h_dec schema_of (tl (enc_hists_v2 h_enc typ l)) = Ok (canon_rs canon_h schema_of true l).
  Proof.
    intros Hl. unfold enc_hists_v2. cbn [tl]. destruct l as [|first l']; [reflexivity|].
    inversion Hl as [|? ? (Hfr & Hfst & Hft & Hfh & Hfnr) Hl']; subst.
    cbn [eloop enc_rs_v2 fst snd]. unfold dec_hists_v2.
    assert (Hne : (put_varint (to_i64 (r_ref first)) ++ put_varint (r_t first) ++ put_varint (r_st first) ++ h_enc (r_h first)) ++
                  eloop (enc_rs_v2 h_enc) (Some (first, first)) l' <> [])
      by (apply app_nonempty_l, app_nonempty_l, put_varint_nonempty).
    destruct (_ ++ eloop (enc_rs_v2 h_enc) (Some (first, first)) l') as [|c0 r0] eqn:E0; [congruence|].
    rewrite <- E0. clear E0 Hne c0 r0. rewrite <- !app_assoc.
    rewrite dbind_varint by apply to_i64_range.
    rewrite dbind_varint by exact Hft. rewrite dbind_varint by exact Hfst.
    unfold dret. rewrite to_u64_to_i64 by exact Hfr.
    change (canon_rs canon_h schema_of true (first :: l'))
      with (canon_rs canon_h schema_of true ([first] ++ l')).
    unfold canon_rs. rewrite filter_app, map_app. fold (canon_rs canon_h schema_of true l').
    fold (canon_rs canon_h schema_of true [first]). rewrite <- (rs_out_canon true [first]).
    cbn [flat_map]. rewrite app_nil_r.
    apply dloop_step with (s' := Some (r_ref first, r_st first)).
    - apply h_ne.
    - cbn [dec_rs_v2]. rewrite dbind_h by exact Hfh.
      apply (keep_schema_ok true first (Some (r_ref first, r_st first)) _ Hfnr).
    - intros f Hf. apply v2_rest; [cbn [hv2_rel]; auto | exact Hl' | exact Hf].
    - apply Nat.le_refl.
  Qed.
End HistRoundTrip.

(* ---- instances through the public Decoder methods *)
Lemma enc_hist_nonempty h : enc_hist h <> [].
Proof. unfold enc_hist. discriminate. Qed.
Lemma enc_fhist_nonempty h : enc_fhist h <> [].
Proof. unfold enc_fhist. discriminate. Qed.
Lemma canon_hist_schema h : h_schema (canon_hist h) = h_schema h. Proof. reflexivity. Qed.
Lemma canon_fhist_schema h : fh_schema (canon_fhist h) = fh_schema h. Proof. reflexivity. Qed.

Definition rhist_ok : rsample hist -> Prop := rs_ok h_schema hist_ok.
Definition rfhist_ok : rsample fhist -> Prop := rs_ok fh_schema fhist_ok.
Definition hcustom (x : rsample hist) : bool := is_custom (h_schema (r_h x)).
Definition fcustom (x : rsample fhist) : bool := is_custom (fh_schema (r_h x)).

Section PublicHist.
  Context {H : Type} (h_enc : H -> list N) (h_dec : dec H) (schema_of : H -> Z)
          (h_ok : H -> Prop) (canon_h : H -> H).
  Context (h_rt : forall h rest, h_ok h -> h_dec (h_enc h ++ rest) = Ok (canon_h h, rest))
          (h_ne : forall h, h_enc h <> [])
          (h_sc : forall h, schema_of (canon_h h) = schema_of h).
  Context (t1 tcb t2 : N) (decode : list N -> res (list (rsample H))).
  Context (decode_v1 : forall body, decode (t1 :: body) = dec_hists_v1 h_dec schema_of body)
          (decode_cb : forall body, decode (tcb :: body) = dec_hists_v1 h_dec schema_of body)
          (decode_v2 : forall body, decode (t2 :: body) = dec_hists_v2 h_dec schema_of body).
  Let ok := rs_ok schema_of h_ok.
  Let custom (x : rsample H) := is_custom (schema_of (r_h x)).
  Let canon := canon_rs canon_h schema_of.

  Lemma public_split l : Forall ok l ->
    let r := enc_hists_v1 h_enc schema_of t1 l in
    let expo := filter (fun x => negb (custom x)) l in
    snd r = filter custom l /\
    (l = [] \/ expo <> [] -> decode (fst r) = Ok (canon false expo)) /\
    (l <> [] -> expo = [] -> fst r = []).
  Proof.
    intros Hl r expo.
    destruct (hists_v1_split h_enc h_dec schema_of h_ok canon_h h_rt h_sc t1 l Hl) as [Hs Hm].
    split; [exact Hs|]. cbv zeta in Hm. unfold r_custom in Hm.
    destruct l as [|x l'].
    - split; [|congruence]. intros _. unfold r. rewrite Hm. rewrite decode_v1. reflexivity.
    - set (l := x :: l') in *.
      change (filter (fun x => negb (is_custom (schema_of (r_h x)))) l) with expo in Hm.
      change (enc_hists_v1 h_enc schema_of t1 l) with r in Hm.
      clearbody expo r.
      destruct expo as [|e expo'].
      + split; [intros [E|E]; [unfold l in E; discriminate | congruence] | intros _ _; exact Hm].
      + destruct Hm as [body [Hb Hd]]. split; [|intros _ ?; discriminate].
        intros _. rewrite Hb, decode_v1. exact Hd.
  Qed.

  Lemma public_cb l : Forall ok l -> decode (enc_cbhists_v1 h_enc tcb l) = Ok (canon false l).
  Proof.
    intros Hl. change (enc_cbhists_v1 h_enc tcb l) with (tcb :: tl (enc_cbhists_v1 h_enc tcb l)).
    rewrite decode_cb. apply (cbhists_v1_roundtrip h_enc h_dec schema_of h_ok canon_h h_rt h_sc); exact Hl.
  Qed.

  Lemma public_v2 l : Forall ok l -> decode (enc_hists_v2 h_enc t2 l) = Ok (canon true l).
  Proof.
    intros Hl. change (enc_hists_v2 h_enc t2 l) with (t2 :: tl (enc_hists_v2 h_enc t2 l)).
    rewrite decode_v2. apply (hists_v2_roundtrip h_enc h_dec schema_of h_ok canon_h h_rt h_ne h_sc); exact Hl.
  Qed.
End PublicHist.

Theorem histograms_v1_split : forall l, Forall rhist_ok l ->
  let r := enc_histogram_samples false l in
  let expo := filter (fun x => negb (hcustom x)) l in
  snd r = filter hcustom l /\
  (l = [] \/ expo <> [] -> dec_histogram_samples (fst r) = Ok (canon_rs canon_hist h_schema false expo)) /\
  (l <> [] -> expo = [] -> fst r = []).
Proof.
  intros l Hl.
  apply (public_split enc_hist dec_hist h_schema hist_ok canon_hist dec_enc_hist canon_hist_schema
           tHistogramSamples dec_histogram_samples); [reflexivity | exact Hl].
Qed.

Theorem histograms_cb_v1_roundtrip : forall l, Forall rhist_ok l ->
  dec_histogram_samples (enc_cb_histogram_samples false l) = Ok (canon_rs canon_hist h_schema false l).
Proof.
  intros l Hl.
  apply (public_cb enc_hist dec_hist h_schema hist_ok canon_hist dec_enc_hist canon_hist_schema
           tCustomBucketsHistogramSamples dec_histogram_samples); [reflexivity | exact Hl].
Qed.

Theorem histograms_v2_roundtrip : forall l, Forall rhist_ok l ->
  enc_histogram_samples true l = (enc_cb_histogram_samples true l, []) /\
  dec_histogram_samples (enc_cb_histogram_samples true l) = Ok (canon_rs canon_hist h_schema true l).
Proof.
  intros l Hl. split; [reflexivity|].
  apply (public_v2 enc_hist dec_hist h_schema hist_ok canon_hist dec_enc_hist enc_hist_nonempty canon_hist_schema
           tHistogramSamplesV2 dec_histogram_samples); [reflexivity | exact Hl].
Qed.

Theorem float_histograms_v1_split : forall l, Forall rfhist_ok l ->
  let r := enc_float_histogram_samples false l in
  let expo := filter (fun x => negb (fcustom x)) l in
  snd r = filter fcustom l /\
  (l = [] \/ expo <> [] -> dec_float_histogram_samples (fst r) = Ok (canon_rs canon_fhist fh_schema false expo)) /\
  (l <> [] -> expo = [] -> fst r = []).
Proof.
  intros l Hl.
  apply (public_split enc_fhist dec_fhist fh_schema fhist_ok canon_fhist dec_enc_fhist canon_fhist_schema
           tFloatHistogramSamples dec_float_histogram_samples); [reflexivity | exact Hl].
Qed.

Theorem float_histograms_cb_v1_roundtrip : forall l, Forall rfhist_ok l ->
  dec_float_histogram_samples (enc_cb_float_histogram_samples false l) = Ok (canon_rs canon_fhist fh_schema false l).
Proof.
  intros l Hl.
  apply (public_cb enc_fhist dec_fhist fh_schema fhist_ok canon_fhist dec_enc_fhist canon_fhist_schema
           tCustomBucketsFloatHistogramSamples dec_float_histogram_samples); [reflexivity | exact Hl].
Qed.

Theorem float_histograms_v2_roundtrip : forall l, Forall rfhist_ok l ->
  enc_float_histogram_samples true l = (enc_cb_float_histogram_samples true l, []) /\
  dec_float_histogram_samples (enc_cb_float_histogram_samples true l) = Ok (canon_rs canon_fhist fh_schema true l).
Proof.
  intros l Hl. split; [reflexivity|].
  apply (public_v2 enc_fhist dec_fhist fh_schema fhist_ok canon_fhist dec_enc_fhist enc_fhist_nonempty canon_fhist_schema
           tFloatHistogramSamplesV2 dec_float_histogram_samples); [reflexivity | exact Hl].
Qed.

(* canon is the identity on valid histograms: known schema, custom values only with the custom schema *)
Definition hist_valid (x : rsample hist) : Prop :=
  is_known_schema (h_schema (r_h x)) = true /\ (is_custom (h_schema (r_h x)) = false -> h_cv (r_h x) = []).
Definition fhist_valid (x : rsample fhist) : Prop :=
  is_known_schema (fh_schema (r_h x)) = true /\ (is_custom (fh_schema (r_h x)) = false -> fh_cv (r_h x) = []).

Lemma canon_rs_hist_id l : Forall hist_valid l -> canon_rs canon_hist h_schema true l = l.
Proof.
  unfold canon_rs. induction l as [|x l IH]; intros Hl; [reflexivity|].
  inversion Hl as [|? ? [Hk Hc] Hl']; subst. cbn [filter]. rewrite Hk. cbn [map]. rewrite IH by exact Hl'.
  f_equal. destruct x as [r st t h]. cbn [r_ref r_st r_t r_h] in *. f_equal.
  destruct h as [hint sch zt zc cnt sum ps ns pb nb cv]. unfold canon_hist. cbn [h_schema h_cv h_hint h_zt h_zc h_count h_sum h_ps h_ns h_pb h_nb] in *.
  destruct (is_custom sch); [reflexivity | rewrite Hc by reflexivity; reflexivity].
Qed.

Lemma canon_rs_fhist_id l : Forall fhist_valid l -> canon_rs canon_fhist fh_schema true l = l.
Proof.
  unfold canon_rs. induction l as [|x l IH]; intros Hl; [reflexivity|].
  inversion Hl as [|? ? [Hk Hc] Hl']; subst. cbn [filter]. rewrite Hk. cbn [map]. rewrite IH by exact Hl'.
  f_equal. destruct x as [r st t h]. cbn [r_ref r_st r_t r_h] in *. f_equal.
  destruct h as [hint sch zt zc cnt sum ps ns pb nb cv]. unfold canon_fhist. cbn [fh_schema fh_cv fh_hint fh_zt fh_zc fh_count fh_sum fh_ps fh_ns fh_pb fh_nb] in *.
  destruct (is_custom sch); [reflexivity | rewrite Hc by reflexivity; reflexivity].
Qed.

(* ---------------------------------------------------------------- non-vacuity witnesses *)
Definition ex_samples : list ref_sample :=
  [mkSample 18446744073709551615 0 (-9223372036854775808) 9221120237041090561;
   mkSample 0 (-5) 9223372036854775807 0;
   mkSample 7 (-5) 1 1;
   mkSample 3 9223372036854775807 0 18446744073709551615].
Lemma ex_samples_ok : Forall sample_ok ex_samples.
Proof. repeat constructor; cbv; intuition discriminate. Qed.

Definition ex_hists : list (rsample hist) :=
  [mkRS 5 0 10 (mkHist 1 3 0 2 9 4611686018427387904 [mkSpan (-2) 2] [] [1; -1]%Z [] []);
   mkRS 1 7 (-4) (mkHist 0 (-53) 0 0 3 0 [mkSpan 0 2] [] [2; 1]%Z [] [4607182418800017408; 4611686018427387904]);
   mkRS 9 7 20 (mkHist 2 100 0 0 0 0 [] [] [] [] [])].
Lemma ex_hists_ok : Forall rhist_ok ex_hists.
Proof. repeat constructor; cbv; intuition discriminate. Qed.

(* proof/SeriesRefProofs.v — lemmas about model/SeriesRef.v (property C22). *)
From Coq Require Import List ZArith Bool Lia.
From Verif Require Import model.SeriesRef.
Import ListNotations.
Open Scope Z_scope.

(* ================================================================ generic list facts *)

Lemma in_concat_app_last : forall sg rs (x : rec),
  In x (concat (app_last sg rs)) <-> In x (concat sg) \/ In x rs.
Proof.
  induction sg as [|s t IH]; intros rs x.
  - simpl. rewrite app_nil_r. tauto.
  - destruct t as [|s' t'].
    + simpl. rewrite !app_nil_r, in_app_iff. tauto.
    + change (app_last (s :: s' :: t') rs) with (s :: app_last (s' :: t') rs).
      simpl concat. rewrite !in_app_iff. rewrite (IH rs x). simpl concat. rewrite in_app_iff. tauto.
Qed.

Lemma in_concat_snoc_nil : forall (sg : list (list rec)) x,
  In x (concat (sg ++ [[]])) <-> In x (concat sg).
Proof.
  intros. rewrite concat_app. simpl. rewrite in_app_iff. simpl. tauto.
Qed.

Lemma in_concat_firstn_skipn : forall n (sg : list (list rec)) x,
  In x (concat sg) <-> In x (concat (firstn n sg)) \/ In x (concat (skipn n sg)).
Proof.
  intros. rewrite <- in_app_iff, <- concat_app, firstn_skipn. tauto.
Qed.

Lemma upd_first_in : forall r g h s, In s (upd_first r g h) ->
  exists s0, In s0 h /\ s_ref s = s_ref s0 /\ s_l s = s_l s0.
Proof.
  induction h as [|a h IH]; simpl; intros s Hin; [tauto|].
  destruct (s_ref a =? r).
  - destruct Hin as [<-|Hin].
    + exists a. split; [now left|]. unfold add_ghost. destruct (memZ g (s_orig a)); auto.
    + exists s. auto.
  - destruct Hin as [<-|Hin].
    + exists a; auto.
    + destruct (IH _ Hin) as (s0 & ? & ? & ?). exists s0; auto.
Qed.

Lemma upd_first_le : forall r g h b, (forall s, In s h -> s_ref s <= b) ->
  forall s, In s (upd_first r g h) -> s_ref s <= b.
Proof.
  intros r g h b H s Hs. apply upd_first_in in Hs. destruct Hs as (s0 & Hs0 & -> & _). auto.
Qed.

Lemma set_orig_in : forall r o h s, In s (set_orig r o h) ->
  exists s0, In s0 h /\ s_ref s = s_ref s0 /\ s_l s = s_l s0.
Proof.
  induction h as [|a h IH]; simpl; intros s Hin; [tauto|].
  destruct (s_ref a =? r).
  - destruct Hin as [<-|Hin]; [exists a; simpl; auto | exists s; auto].
  - destruct Hin as [<-|Hin]; [exists a; auto|].
    destruct (IH _ Hin) as (s0 & ? & ? & ?). exists s0; auto.
Qed.

Lemma remove_first_in : forall r h s, In s (remove_first r h) -> In s h.
Proof.
  induction h as [|a h IH]; simpl; intros s Hin; [tauto|].
  destruct (s_ref a =? r); [now right|]. destruct Hin; [now left | right; auto].
Qed.

Lemma by_ref_some : forall h r s, by_ref h r = Some s -> In s h /\ s_ref s = r.
Proof.
  unfold by_ref. intros h r s H. apply find_some in H. destruct H as [H1 H2].
  split; auto. now apply Z.eqb_eq.
Qed.

Lemma by_lset_some : forall h l s, by_lset h l = Some s -> In s h /\ s_l s = l.
Proof.
  unfold by_lset. intros h l s H. apply find_some in H. destruct H as [H1 H2].
  split; auto. now apply Z.eqb_eq.
Qed.

(* ================================================================ I1: lastSeriesID bounds every allocated ref *)

Definition alloc_le (b : Z) (x : rec) : Prop := forall r, rec_alloc_ref x = Some r -> r <= b.

Definition bound_ok (m : st) : Prop :=
  (forall x, In x (wal m) -> alloc_le (last m) x) /\
  (forall s, In s (head m) -> s_ref s <= last m) /\
  (forall p, In p (cache m) -> fst p <= last m).

Lemma alloc_le_mono : forall b b' x, b <= b' -> alloc_le b x -> alloc_le b' x.
Proof. unfold alloc_le; intros b b' x Hb H r Hr. specialize (H r Hr). lia. Qed.

Lemma append1_bound : forall lst h a lst1 h1 ret crt smp,
  append1 lst h a = (lst1, h1, ret, crt, smp) ->
  (forall s, In s h -> s_ref s <= lst) ->
  lst <= lst1 /\ (forall s, In s h1 -> s_ref s <= lst1) /\ (a_ok a = true -> ret <= lst1) /\
  (forall x, In x crt -> alloc_le lst1 x) /\ (forall x, In x smp -> rec_alloc_ref x = None).
Proof.
  unfold append1. intros lst h a lst1 h1 ret crt smp H Hh.
  destruct (by_ref h (a_cref a)) as [s|] eqn:E1;
    [| destruct (by_lset h (a_l a)) as [s|] eqn:E2 ].
  - apply by_ref_some in E1. destruct E1 as [Hin _].
    destruct (a_ok a); [destruct (a_stale a)|]; inversion H; subst; clear H;
      (split; [lia|]); (split; [|split; [intros; try discriminate; auto|split; [simpl; tauto|]]]).
    + auto.
    + simpl; tauto.
    + intros s0 Hs0. apply upd_first_in in Hs0. destruct Hs0 as (s1 & Hs1 & -> & _). auto.
    + simpl. intros x [<-|[]]. reflexivity.
    + auto.
    + simpl; tauto.
  - apply by_lset_some in E2. destruct E2 as [Hin _].
    destruct (a_ok a); [destruct (a_stale a)|]; inversion H; subst; clear H;
      (split; [lia|]); (split; [|split; [intros; try discriminate; auto|split; [simpl; tauto|]]]).
    + auto.
    + simpl; tauto.
    + intros s0 Hs0. apply upd_first_in in Hs0. destruct Hs0 as (s1 & Hs1 & -> & _). auto.
    + simpl. intros x [<-|[]]. reflexivity.
    + auto.
    + simpl; tauto.
  - assert (Hnew : forall s, In s (mkS (lst + 1) (a_l a) [] :: h) -> s_ref s <= lst + 1).
    { intros s0 [<-|Hs0]; simpl; [lia|]. specialize (Hh _ Hs0). lia. }
    assert (Hcrt : forall x, In x [RSeries (lst + 1) (a_l a)] -> alloc_le (lst + 1) x).
    { intros x [<-|[]] r Hr. simpl in Hr. inversion Hr. lia. }
    destruct (a_ok a); [destruct (a_stale a)|]; inversion H; subst; clear H;
      (split; [lia|]); (split; [|split; [intros; try discriminate; try lia|split; [exact Hcrt|]]]).
    + exact Hnew.
    + simpl; tauto.
    + intros s0 Hs0.
      exact (upd_first_le (lst + 1) (a_l a) (mkS (lst + 1) (a_l a) [] :: h) (lst + 1) Hnew s0 Hs0).
    + simpl. intros x [<-|[]]. reflexivity.
    + exact Hnew.
    + simpl; tauto.
Qed.

Definition tx_inv (l0 : Z) (acc : Z * list series * list (Z * Z) * list Z * list rec * list rec) : Prop :=
  let '(lst, h, c, rs, sr, sm) := acc in
  l0 <= lst /\ (forall s, In s h -> s_ref s <= lst) /\ (forall p, In p c -> fst p <= lst) /\
  (forall x, In x sr -> alloc_le lst x) /\ (forall x, In x sm -> rec_alloc_ref x = None).

Lemma tx_step_inv : forall l0 acc a, tx_inv l0 acc -> tx_inv l0 (tx_step acc a).
Proof.
  intros l0 [[[[[lst h] c] rs] sr] sm] a (H0 & Hh & Hc & Hsr & Hsm).
  unfold tx_step. destruct (append1 lst h a) as [[[[lst1 h1] ret] crt] smp] eqn:E.
  destruct (append1_bound _ _ _ _ _ _ _ _ E Hh) as (Hl & Hh1 & Hret & Hcrt & Hsmp).
  unfold tx_inv. repeat split.
  - lia.
  - exact Hh1.
  - intros p Hp. destruct (a_ok a).
    + destruct Hp as [<-|Hp]; [simpl; auto|]. specialize (Hc _ Hp). lia.
    + specialize (Hc _ Hp). lia.
  - intros x Hx. apply in_app_iff in Hx. destruct Hx as [Hx|Hx]; [|auto].
    eapply alloc_le_mono; [|apply Hsr; exact Hx]. lia.
  - intros x Hx. apply in_app_iff in Hx. destruct Hx; auto.
Qed.

Lemma tx_fold_inv : forall l0 apps acc, tx_inv l0 acc -> tx_inv l0 (fold_left tx_step apps acc).
Proof.
  induction apps as [|a apps IH]; simpl; intros acc H; [exact H|].
  apply IH. now apply tx_step_inv.
Qed.

Lemma bound_do_tx : forall m apps, bound_ok m -> bound_ok (do_tx m apps).
Proof.
  intros m apps (Hw & Hh & Hc). unfold do_tx.
  pose proof (tx_fold_inv (last m) apps (last m, head m, cache m, [], [], [])) as H.
  destruct (fold_left tx_step apps (last m, head m, cache m, [], [], [])) as [[[[[lst h] c] rs] sr] sm].
  assert (Hi : tx_inv (last m) (last m, head m, cache m, [], [], [])).
  { unfold tx_inv. repeat split; auto; try lia; simpl; tauto. }
  specialize (H Hi). destruct H as (H0 & Hh1 & Hc1 & Hsr & Hsm).
  unfold bound_ok, wal; simpl. repeat split; auto.
  intros x Hx. apply in_app_iff in Hx. destruct Hx as [Hx|Hx].
  - eapply alloc_le_mono; [exact H0|]. apply Hw. unfold wal. apply in_app_iff. now left.
  - apply in_concat_app_last in Hx. destruct Hx as [Hx|Hx].
    + eapply alloc_le_mono; [exact H0|]. apply Hw. unfold wal. apply in_app_iff. now right.
    + apply in_app_iff in Hx. destruct Hx as [Hx|Hx]; [auto|].
      intros r Hr. rewrite (Hsm _ Hx) in Hr. discriminate.
Qed.

Lemma bound_do_gc : forall m dead, bound_ok m -> bound_ok (do_gc m dead).
Proof.
  intros m dead (Hw & Hh & Hc). unfold bound_ok, do_gc, wal; simpl. repeat split; auto.
  intros s Hs. apply filter_In in Hs. destruct Hs; auto.
Qed.

Lemma bound_do_evict : forall m dead, bound_ok m -> bound_ok (do_evict m dead).
Proof.
  intros m dead Hm. pose proof (bound_do_gc m dead Hm) as (Hw & Hh & Hc).
  destruct Hm as (Hw0 & Hh0 & Hc0).
  unfold bound_ok, do_evict, wal; simpl. repeat split; auto.
  intros x Hx. apply in_app_iff in Hx. destruct Hx as [Hx|Hx].
  - apply Hw0. unfold wal. apply in_app_iff. now left.
  - apply in_concat_app_last in Hx. destruct Hx as [Hx|Hx].
    + apply Hw0. unfold wal. apply in_app_iff. now right.
    + apply in_map_iff in Hx. destruct Hx as (p & <- & Hp). apply filter_In in Hp.
      destruct Hp as [_ Hp]. destruct (by_ref (head m) (fst p)) as [s|] eqn:E; [|discriminate].
      apply by_ref_some in E. destruct E as [Hin Href].
      intros r Hr. simpl in Hr. inversion Hr; subst. rewrite <- Href. auto.
Qed.

Lemma truncate_wal_sub : forall m mint x, In x (wal (truncate_wal m mint)) -> In x (wal m).
Proof.
  intros m mint x. unfold truncate_wal.
  destruct (mint <=? lastTrunc m); [auto|].
  set (segs1 := segs m ++ [[]]).
  assert (Hbase : In x (ckpt m ++ concat segs1) -> In x (wal m)).
  { unfold wal, segs1. rewrite !in_app_iff, in_concat_snoc_nil. tauto. }
  destruct (first m + Z.of_nat (length (segs m)) - 1 - 1 <? 0); [exact Hbase|].
  match goal with |- context [if ?c then _ else _] => destruct c end; [exact Hbase|].
  unfold wal at 1; simpl. intros Hx. apply Hbase.
  apply in_app_iff in Hx. destruct Hx as [Hx|Hx].
  - apply filter_In in Hx. destruct Hx as [Hx _].
    apply in_app_iff in Hx. apply in_app_iff. destruct Hx as [Hx|Hx]; [now left|right].
    eapply in_concat_firstn_skipn. left. exact Hx.
  - apply in_app_iff. right. eapply in_concat_firstn_skipn. right. exact Hx.
Qed.

Lemma truncate_wal_fields : forall m mint,
  last (truncate_wal m mint) = last m /\ head (truncate_wal m mint) = head m /\
  cache (truncate_wal m mint) = cache m.
Proof.
  intros m mint. unfold truncate_wal.
  destruct (mint <=? lastTrunc m); [auto|].
  destruct (first m + Z.of_nat (length (segs m)) - 1 - 1 <? 0); [simpl; auto|].
  match goal with |- context [if ?c then _ else _] => destruct c end; simpl; auto.
Qed.

Lemma bound_truncate_wal : forall m mint, bound_ok m -> bound_ok (truncate_wal m mint).
Proof.
  intros m mint (Hw & Hh & Hc). destruct (truncate_wal_fields m mint) as (E1 & E2 & E3).
  unfold bound_ok. rewrite E1, E2, E3. repeat split; auto.
  intros x Hx. apply Hw. eapply truncate_wal_sub; eauto.
Qed.

(* replay *)
Definition rp_inv (acc : Z * list series * list (Z * Z)) : Prop :=
  let '(lst, h, _) := acc in forall s, In s h -> s_ref s <= lst.

Lemma replay_rec_bound : forall mv cs acc x,
  rp_inv acc ->
  rp_inv (replay_rec mv cs acc x) /\ fst (fst acc) <= fst (fst (replay_rec mv cs acc x)) /\
  alloc_le (fst (fst (replay_rec mv cs acc x))) x.
Proof.
  intros mv cs [[lst h] multi] x Hinv. unfold rp_inv in Hinv.
  destruct x as [r l|r g t|r|r]; simpl.
  - destruct (by_lset h l) as [s|] eqn:E; simpl.
    + split; [|split; [lia|]].
      * intros s0 Hs0. apply set_orig_in in Hs0. destruct Hs0 as (s1 & Hs1 & -> & _).
        specialize (Hinv _ Hs1). lia.
      * intros r' Hr'. simpl in Hr'. inversion Hr'. lia.
    + split; [|split; [lia|]].
      * intros s0 [<-|Hs0]; simpl; [lia|]. specialize (Hinv _ Hs0). lia.
      * intros r' Hr'. simpl in Hr'. inversion Hr'. lia.
  - assert (Ha : alloc_le lst (RSample r g t)) by (intros r' Hr'; discriminate).
    destruct (t <? mv); simpl; [split; [auto|split; [lia|auto]]|].
    destruct (by_ref h (resolve multi r)); simpl; (split; [|split; [lia|auto]]); auto.
    intros s0 Hs0. apply upd_first_in in Hs0. destruct Hs0 as (s1 & Hs1 & -> & _). auto.
  - split; [|split; [lia|]].
    + intros s0 Hs0. apply remove_first_in in Hs0. specialize (Hinv _ Hs0). lia.
    + intros r' Hr'. simpl in Hr'. inversion Hr'. lia.
  - split; [|split; [lia|]].
    + intros s0 Hs0. specialize (Hinv _ Hs0). lia.
    + intros r' Hr'. simpl in Hr'. inversion Hr'. lia.
Qed.

Lemma replay_fold_bound : forall mv cs rs acc,
  rp_inv acc ->
  let acc' := fold_left (replay_rec mv cs) rs acc in
  rp_inv acc' /\ fst (fst acc) <= fst (fst acc') /\ (forall x, In x rs -> alloc_le (fst (fst acc')) x).
Proof.
  induction rs as [|x rs IH]; intros acc Hinv; simpl.
  - split; [auto|split; [lia|tauto]].
  - destruct (replay_rec_bound mv cs acc x Hinv) as (H1 & H2 & H3).
    destruct (IH _ H1) as (I1 & I2 & I3). split; [auto|split; [lia|]].
    intros y [<-|Hy]; [|auto]. eapply alloc_le_mono; [|exact H3]. exact I2.
Qed.

Lemma replay_wbl_bound : forall rs acc,
  rp_inv acc ->
  rp_inv (fold_left replay_wbl rs acc) /\ fst (fst (fold_left replay_wbl rs acc)) = fst (fst acc).
Proof.
  induction rs as [|x rs IH]; intros acc Hinv; simpl; [auto|].
  assert (H : rp_inv (replay_wbl acc x) /\ fst (fst (replay_wbl acc x)) = fst (fst acc)).
  { destruct acc as [[lst h] multi]. destruct x as [r l|r g t|r|r]; simpl; auto.
    destruct (by_ref h (resolve multi r)); simpl; auto. split; [|auto].
    intros s0 Hs0. apply upd_first_in in Hs0. destruct Hs0 as (s1 & Hs1 & -> & _). apply Hinv; auto. }
  destruct H as [H1 H2]. destruct (IH _ H1) as [I1 I2]. split; [auto|congruence].
Qed.

Lemma chunks_max_ref_ge : forall cs, 0 <= chunks_max_ref cs /\ forall c, In c cs -> ck_ref c <= chunks_max_ref cs.
Proof.
  unfold chunks_max_ref. intros cs.
  assert (H : forall a, a <= fold_left (fun a c => Z.max a (ck_ref c)) cs a /\
                        forall c, In c cs -> ck_ref c <= fold_left (fun a c => Z.max a (ck_ref c)) cs a).
  { induction cs as [|x cs IH]; simpl; intros a; [split; [lia|tauto]|].
    destruct (IH (Z.max a (ck_ref x))) as [I1 I2]. split; [lia|].
    intros c [<-|Hc]; [lia|auto]. }
  apply H.
Qed.

Lemma fast_start_fixed_ge : forall cur f sg fastNew sf, cur <= fast_start true cur f sg fastNew sf.
Proof.
  intros. unfold fast_start. destruct fastNew; [|lia]. destruct sf as [[[id seg] cl]|]; lia.
Qed.

Lemma bound_do_restart_gen : forall fixed m fastNew sf mv cs wbl ea alive,
  bound_ok (do_restart_gen fixed m fastNew sf mv cs wbl ea alive).
Proof.
  intros. unfold do_restart_gen.
  set (last0 := fast_start _ _ _ _ _ _).
  set (stream := ckpt m ++ concat (segs m ++ [[]])).
  assert (Hi : rp_inv (last0, [], [])) by (simpl; tauto).
  pose proof (replay_fold_bound mv cs stream _ Hi) as H. simpl in H.
  destruct (fold_left (replay_rec mv cs) stream (last0, [], [])) as [[lst h] multi] eqn:E.
  destruct H as (H1 & _ & H3).
  pose proof (replay_wbl_bound wbl (lst, h, multi) H1) as [W1 W2].
  destruct (fold_left replay_wbl wbl (lst, h, multi)) as [[lst2 h2] multi2]. simpl in W1, W2. subst lst2.
  unfold bound_ok, wal; simpl. repeat split.
  - intros x Hx. apply H3. exact Hx.
  - intros s Hs. apply filter_In in Hs. destruct Hs as [Hs _]. auto.
  - tauto.
Qed.

Lemma bound_do_restart : forall m fastNew sf mv cs wbl ea alive,
  bound_ok (do_restart m fastNew sf mv cs wbl ea alive).
Proof. intros. apply bound_do_restart_gen. Qed.

(* fixed code: after a restart lastSeriesID is at least every series ref of the head-chunk files *)
Lemma restart_chunk_bound : forall m fastNew sf mv cs wbl ea alive c,
  In c cs -> ck_ref c <= last (do_restart m fastNew sf mv cs wbl ea alive).
Proof.
  intros m fastNew sf mv cs wbl ea alive c Hc. unfold do_restart, do_restart_gen.
  set (last0 := fast_start _ _ _ _ _ _).
  assert (Hl0 : ck_ref c <= last0).
  { unfold last0. pose proof (fast_start_fixed_ge (chunks_max_ref cs) (first m) (segs m ++ [[]]) fastNew sf).
    destruct (chunks_max_ref_ge cs) as [_ Hm]. specialize (Hm _ Hc). lia. }
  set (stream := ckpt m ++ concat (segs m ++ [[]])).
  assert (Hi : rp_inv (last0, [], [])) by (simpl; tauto).
  pose proof (replay_fold_bound mv cs stream _ Hi) as H. simpl in H.
  destruct (fold_left (replay_rec mv cs) stream (last0, [], [])) as [[lst h] multi] eqn:E.
  destruct H as (H1 & H2 & _).
  pose proof (replay_wbl_bound wbl (lst, h, multi) H1) as [W1 W2].
  destruct (fold_left replay_wbl wbl (lst, h, multi)) as [[lst2 h2] multi2]. simpl in W1, W2. subst lst2.
  simpl in *. lia.
Qed.

Lemma bound_step : forall m o, bound_ok m -> bound_ok (step m o).
Proof.
  intros m o Hm. destruct o; simpl.
  - now apply bound_do_tx.
  - apply bound_truncate_wal. now apply bound_do_gc.
  - now apply bound_do_gc.
  - now apply bound_do_evict.
  - apply bound_do_restart.
Qed.

Lemma bound_init : bound_ok init.
Proof. unfold bound_ok, init, wal; simpl. repeat split; intros; tauto. Qed.

Lemma bound_fold : forall ops m, bound_ok m -> bound_ok (fold_left step ops m).
Proof. induction ops as [|o ops IH]; simpl; intros m H; [auto|]. apply IH. now apply bound_step. Qed.

Lemma bound_run : forall ops, bound_ok (run ops).
Proof. intros. apply bound_fold. apply bound_init. Qed.

(* a series created by an append gets a ref above everything lastSeriesID bounds *)
Lemma fresh_ref_above : forall ops a,
  let m := run ops in
  by_ref (head m) (a_cref a) = None -> by_lset (head m) (a_l a) = None ->
  let '(_, _, _, crt, _) := append1 (last m) (head m) a in
  crt = [RSeries (last m + 1) (a_l a)] /\
  (forall x r, In x (wal m) -> rec_alloc_ref x = Some r -> r < last m + 1) /\
  (forall s, In s (head m) -> s_ref s < last m + 1) /\
  (forall p, In p (cache m) -> fst p < last m + 1).
Proof.
  intros ops a m E1 E2. destruct (bound_run ops) as (Hw & Hh & Hc). fold m in Hw, Hh, Hc.
  unfold append1. rewrite E1, E2.
  destruct (a_ok a); [destruct (a_stale a)|]; (split; [reflexivity|]); repeat split.
  all: try (intros x r Hx Hr; specialize (Hw x Hx r Hr); lia).
  all: try (intros s Hs; specialize (Hh s Hs); lia).
  all: try (intros p Hp; specialize (Hc p Hp); lia).
Qed.

(* ================================================================ I2: attribution *)

Lemma concat_app_last : forall sg (rs : list rec), concat (app_last sg rs) = concat sg ++ rs.
Proof.
  induction sg as [|s t IH]; intros rs.
  - simpl. now rewrite app_nil_r.
  - destruct t as [|s' t'].
    + simpl. now rewrite !app_nil_r.
    + change (app_last (s :: s' :: t') rs) with (s :: app_last (s' :: t') rs).
      change (concat (s :: app_last (s' :: t') rs)) with (s ++ concat (app_last (s' :: t') rs)).
      rewrite IH. change (concat (s :: s' :: t')) with (s ++ concat (s' :: t')). now rewrite app_assoc.
Qed.

Definition stream_uniq (w : list rec) : Prop :=
  forall r l l', In (RSeries r l) w -> In (RSeries r l') w -> l = l'.

Definition rec_attr (seen : list rec) (x : rec) : Prop :=
  match x with
  | RSample r g _ => forall l, In (RSeries r l) seen -> g = l
  | _ => True
  end.

(* every sample record follows only series records (of its ref) that carry the labels the sample
   was appended with *)
Fixpoint attr_from (seen : list rec) (w : list rec) : Prop :=
  match w with
  | [] => True
  | x :: w' => rec_attr seen x /\ attr_from (seen ++ [x]) w'
  end.

Definition sub_series (a b : list rec) : Prop := forall r l, In (RSeries r l) a -> In (RSeries r l) b.

Lemma rec_attr_weaken : forall a b x, sub_series a b -> rec_attr b x -> rec_attr a x.
Proof. intros a b [r l|r g t|r|r] H; simpl; auto. Qed.

Lemma attr_from_weaken : forall w a b, sub_series a b -> attr_from b w -> attr_from a w.
Proof.
  induction w as [|x w IH]; simpl; intros a b H Hb; [auto|]. destruct Hb as [H1 H2]. split.
  - eapply rec_attr_weaken; eauto.
  - eapply IH; [|exact H2]. intros r l Hin. apply in_app_iff in Hin. apply in_app_iff.
    destruct Hin as [Hin|Hin]; [left; auto | right; auto].
Qed.

Lemma attr_from_filter : forall f w seen, attr_from seen w -> attr_from seen (filter f w).
Proof.
  induction w as [|x w IH]; simpl; intros seen H; [auto|]. destruct H as [H1 H2].
  destruct (f x); simpl.
  - split; auto.
  - eapply attr_from_weaken; [|apply IH; exact H2]. intros r l Hin. apply in_app_iff. now left.
Qed.

Lemma attr_from_app : forall w1 w2 seen,
  attr_from seen (w1 ++ w2) <-> attr_from seen w1 /\ attr_from (seen ++ w1) w2.
Proof.
  induction w1 as [|x w1 IH]; simpl; intros w2 seen.
  - rewrite app_nil_r. tauto.
  - rewrite IH. rewrite <- app_assoc. simpl. tauto.
Qed.

Definition no_sample (x : rec) : Prop := match x with RSample _ _ _ => False | _ => True end.

Lemma attr_from_no_sample : forall w seen, (forall x, In x w -> no_sample x) -> attr_from seen w.
Proof.
  induction w as [|x w IH]; simpl; intros seen H; [auto|]. split.
  - specialize (H x (or_introl eq_refl)). destruct x; simpl in *; tauto.
  - apply IH. intros; apply H; now right.
Qed.

Definition is_sample (x : rec) : Prop := match x with RSample _ _ _ => True | _ => False end.

Lemma attr_from_samples : forall w v seen,
  sub_series seen v -> (forall x, In x w -> is_sample x /\ rec_attr v x) -> attr_from seen w.
Proof.
  induction w as [|x w IH]; simpl; intros v seen Hs H; [auto|]. split.
  - eapply rec_attr_weaken; [exact Hs|]. apply H. now left.
  - eapply IH; [|intros; apply H; now right].
    intros r l Hin. apply in_app_iff in Hin. destruct Hin as [Hin|[Hin|[]]]; [auto|].
    destruct (H x (or_introl eq_refl)) as [Hx _]. subst x. simpl in Hx. tauto.
Qed.

Definition series_pure_p (s : series) : Prop := forall g, In g (s_orig s) -> g = s_l s.

Record inv2 (m : st) : Prop := mkInv2 {
  i_last : 0 <= last m;
  i_uniq : stream_uniq (wal m);
  i_attr : attr_from [] (wal m);
  i_wpos : forall r l, In (RSeries r l) (wal m) -> 0 < r;
  i_hc : forall s, In s (head m) -> In (RSeries (s_ref s) (s_l s)) (wal m);
  i_cache : forall p s, In p (cache m) -> In s (head m) -> s_ref s = fst p -> s_l s = snd p;
  i_pure : forall s, In s (head m) -> series_pure_p s
}.

Lemma upd_first_pure : forall r g h,
  (forall s, In s h -> series_pure_p s) ->
  (forall s, In s h -> s_ref s = r -> s_l s = g) ->
  forall s, In s (upd_first r g h) -> series_pure_p s.
Proof.
  induction h as [|a h IH]; simpl; intros Hp Hl s Hs; [tauto|].
  destruct (s_ref a =? r) eqn:E.
  - destruct Hs as [<-|Hs]; [|apply Hp; now right].
    apply Z.eqb_eq in E. unfold add_ghost. destruct (memZ g (s_orig a)); [apply Hp; now left|].
    intros g' [<-|Hg']; simpl; [symmetry; apply Hl; auto|apply (Hp a); auto].
  - destruct Hs as [<-|Hs]; [apply Hp; now left|].
    apply IH; auto.
Qed.

(* ---------------------------------------------------------------- gc / evict / truncate *)

Lemma inv2_do_gc : forall m dead, inv2 m -> inv2 (do_gc m dead).
Proof.
  intros m dead [H1 H2 H3 H4 H5 H6 H7]. constructor; unfold do_gc, wal in *; simpl; auto.
  - intros s Hs. apply filter_In in Hs. destruct Hs; auto.
  - intros p s Hp Hs. apply filter_In in Hs. destruct Hs; eauto.
  - intros s Hs. apply filter_In in Hs. destruct Hs; auto.
Qed.

Lemma wal_app_last : forall m rs l h e c lt rt,
  wal (mkSt l h e c lt (ckpt m) (app_last (segs m) rs) (first m) rt) = wal m ++ rs.
Proof. intros. unfold wal; simpl. rewrite concat_app_last. now rewrite app_assoc. Qed.

Lemma inv2_do_evict : forall m dead, inv2 m -> inv2 (do_evict m dead).
Proof.
  intros m dead Hm. pose proof (inv2_do_gc m dead Hm) as [H1 H2 H3 H4 H5 H6 H7].
  unfold do_evict.
  set (stones := map (fun p => RTomb (fst p)) (filter _ dead)).
  assert (Hst : forall x, In x stones -> exists r, x = RTomb r).
  { intros x Hx. unfold stones in Hx. apply in_map_iff in Hx. destruct Hx as (p & <- & _). eauto. }
  assert (Hw : wal (do_gc m dead) = wal m) by reflexivity.
  assert (Hser : forall r l, In (RSeries r l) (wal m ++ stones) -> In (RSeries r l) (wal m)).
  { intros r l Hin. apply in_app_iff in Hin. destruct Hin as [|Hin]; [auto|].
    apply Hst in Hin. destruct Hin; discriminate. }
  constructor; simpl; try rewrite (wal_app_last (do_gc m dead)); try rewrite Hw; auto.
  - intros r l l' Ha Hb. eapply H2; rewrite Hw; eauto.
  - apply attr_from_app. split; [rewrite <- Hw; auto|].
    apply attr_from_no_sample. intros x Hx. apply Hst in Hx. destruct Hx; subst; simpl; auto.
  - intros r l Hin. eapply H4. rewrite Hw. eauto.
  - intros s Hs. apply in_app_iff. left. rewrite <- Hw. auto.
Qed.

Lemma inv2_truncate_wal : forall m mint, inv2 m -> inv2 (truncate_wal m mint).
Proof.
  intros m mint Hm. pose proof Hm as [H1 H2 H3 H4 H5 H6 H7].
  destruct (truncate_wal_fields m mint) as (E1 & E2 & E3).
  assert (Hsub : forall x, In x (wal (truncate_wal m mint)) -> In x (wal m)) by (intros; eapply truncate_wal_sub; eauto).
  constructor; rewrite ?E1, ?E2, ?E3; auto.
  - intros r l l' Ha Hb. eapply H2; eauto.
  - (* attribution is preserved by filtering a prefix *)
    unfold truncate_wal. destruct (mint <=? lastTrunc m); [auto|].
    assert (Hbase : attr_from [] (ckpt m ++ concat (segs m ++ [[]]))).
    { rewrite concat_app. simpl. rewrite app_nil_r. exact H3. }
    destruct (first m + Z.of_nat (length (segs m)) - 1 - 1 <? 0); [exact Hbase|].
    match goal with |- context [if ?c then _ else _] => destruct c end; [exact Hbase|].
    unfold wal; simpl.
    match goal with |- context [firstn ?n _] => set (n0 := n) end.
    rewrite <- (firstn_skipn n0 (segs m ++ [[]])) in Hbase. rewrite concat_app, app_assoc in Hbase.
    apply attr_from_app in Hbase. destruct Hbase as [Ha Hb].
    apply attr_from_app. split; [now apply attr_from_filter|].
    eapply attr_from_weaken; [|exact Hb].
    intros r l Hin. simpl in *. apply filter_In in Hin. tauto.
  - intros r l Hin. eapply H4; eauto.
  - (* records of live series are kept *)
    intros s Hs. specialize (H5 s Hs). revert H5.
    unfold truncate_wal. destruct (mint <=? lastTrunc m); [auto|].
    assert (Hbase : In (RSeries (s_ref s) (s_l s)) (wal m) -> In (RSeries (s_ref s) (s_l s)) (ckpt m ++ concat (segs m ++ [[]]))).
    { unfold wal. rewrite concat_app. simpl. now rewrite app_nil_r. }
    destruct (first m + Z.of_nat (length (segs m)) - 1 - 1 <? 0); [exact Hbase|].
    match goal with |- context [if ?c then _ else _] => destruct c end; [exact Hbase|].
    intros Hin. apply Hbase in Hin. unfold wal; simpl.
    match goal with |- context [firstn ?n _] => set (n0 := n) end.
    rewrite <- (firstn_skipn n0 (segs m ++ [[]])) in Hin. rewrite concat_app, app_assoc in Hin.
    apply in_app_iff in Hin. apply in_app_iff. destruct Hin as [Hin|Hin]; [left|now right].
    apply filter_In. split; [exact Hin|]. simpl. unfold keepf.
    destruct (by_ref (head m) (s_ref s)) eqn:E; [reflexivity|].
    unfold by_ref in E. eapply find_none in E; [|exact Hs]. simpl in E. rewrite Z.eqb_refl in E. discriminate.
Qed.

(* ---------------------------------------------------------------- transactions *)

Definition client_ok (c : list (Z * Z)) (a : app) : Prop := a_cref a = 0 \/ In (a_cref a, a_l a) c.

Record TI (W : list rec) (lst : Z) (h : list series) (c : list (Z * Z)) (sr sm : list rec) : Prop := mkTI {
  t_last : 0 <= lst;
  t_sr : forall x, In x sr -> no_sample x;
  t_uniq : stream_uniq (W ++ sr);
  t_bound : forall r l, In (RSeries r l) (W ++ sr) -> 0 < r <= lst;
  t_hc : forall s, In s h -> In (RSeries (s_ref s) (s_l s)) (W ++ sr);
  t_cache : forall p s, In p c -> In s h -> s_ref s = fst p -> s_l s = snd p;
  t_cbound : forall p, In p c -> fst p <= lst;
  t_pure : forall s, In s h -> series_pure_p s;
  t_sm_s : forall x, In x sm -> is_sample x;
  t_sm_b : forall r g t, In (RSample r g t) sm -> r <= lst;
  t_sm_a : forall x, In x sm -> rec_attr (W ++ sr) x
}.

Lemma TI_head_bound : forall W lst h c sr sm s, TI W lst h c sr sm -> In s h -> 0 < s_ref s <= lst.
Proof. intros W lst h c sr sm s HT Hs. eapply t_bound; [exact HT|]. eapply t_hc; eauto. Qed.

Lemma TI_head_fun : forall W lst h c sr sm s s', TI W lst h c sr sm -> In s h -> In s' h ->
  s_ref s = s_ref s' -> s_l s = s_l s'.
Proof.
  intros W lst h c sr sm s s' HT Hs Hs' E.
  eapply (t_uniq _ _ _ _ _ _ HT); [eapply t_hc; eauto|]. rewrite E. eapply t_hc; eauto.
Qed.

Lemma TI_cache : forall W lst h c sr sm r l, TI W lst h c sr sm ->
  (forall s, In s h -> s_ref s = r -> s_l s = l) -> r <= lst -> TI W lst h ((r, l) :: c) sr sm.
Proof.
  intros W lst h c sr sm r l [H0 H1 H2 H3 H4 H5 H6 H7 H8 H9 H10] Hl Hr.
  constructor; auto.
  - intros p s [<-|Hp] Hs E; simpl in *; eauto.
  - intros p [<-|Hp]; simpl; auto.
Qed.

Lemma TI_sample : forall W lst h c sr sm r l t s0, TI W lst h c sr sm ->
  In s0 h -> s_ref s0 = r -> s_l s0 = l ->
  TI W lst (upd_first r l h) c sr (sm ++ [RSample r l t]).
Proof.
  intros W lst h c sr sm r l t s0 HT Hs0 Er El.
  assert (Hfun : forall s, In s h -> s_ref s = r -> s_l s = l).
  { intros s Hs E. rewrite <- El. eapply TI_head_fun; eauto. congruence. }
  pose proof (TI_head_bound _ _ _ _ _ _ _ HT Hs0) as Hb0.
  destruct HT as [H0 H1 H2 H3 H4 H5 H6 H7 H8 H9 H10].
  constructor; auto.
  - intros s Hs. apply upd_first_in in Hs. destruct Hs as (s1 & Hs1 & -> & ->). auto.
  - intros p s Hp Hs. apply upd_first_in in Hs. destruct Hs as (s1 & Hs1 & -> & ->). eauto.
  - apply upd_first_pure; auto.
  - intros x H. apply in_app_iff in H. destruct H as [H|[<-|[]]]; [auto|simpl; auto].
  - intros r' g' t' H. apply in_app_iff in H. destruct H as [H|[H|[]]]; [eauto|].
    inversion H; subst. lia.
  - intros x H. apply in_app_iff in H. destruct H as [H|[<-|[]]]; [auto|].
    simpl. intros l' Hin. eapply H2; [|exact Hin]. rewrite <- Er, <- El. auto.
Qed.

Lemma TI_create : forall W lst h c sr sm l, TI W lst h c sr sm ->
  TI W (lst + 1) (mkS (lst + 1) l [] :: h) c (sr ++ [RSeries (lst + 1) l]) sm.
Proof.
  intros W lst h c sr sm l HT.
  assert (Hhb : forall s, In s h -> 0 < s_ref s <= lst) by (intros; eapply TI_head_bound; eauto).
  destruct HT as [H0 H1 H2 H3 H4 H5 H6 H7 H8 H9 H10].
  assert (Hnew : forall l', ~ In (RSeries (lst + 1) l') (W ++ sr)).
  { intros l' Hin. apply H3 in Hin. lia. }
  assert (Hin : forall r l', In (RSeries r l') (W ++ sr ++ [RSeries (lst + 1) l]) ->
                 In (RSeries r l') (W ++ sr) \/ (r = lst + 1 /\ l' = l)).
  { intros r l' Hi. rewrite app_assoc in Hi. apply in_app_iff in Hi. destruct Hi as [Hi|[Hi|[]]]; [now left|].
    inversion Hi; subst. now right. }
  constructor.
  - lia.
  - intros x Hx. apply in_app_iff in Hx. destruct Hx as [Hx|[<-|[]]]; [auto|simpl; auto].
  - intros r l1 l2 Ha Hb. apply Hin in Ha. apply Hin in Hb.
    destruct Ha as [Ha|[-> ->]], Hb as [Hb|[Eb ->]]; subst; auto.
    + eapply H2; eauto.
    + exfalso. eapply Hnew; eauto.
    + exfalso. eapply Hnew; eauto.
  - intros r l' H. apply Hin in H. destruct H as [H|[-> _]]; [apply H3 in H; lia|lia].
  - intros s [<-|Hs]; simpl; rewrite app_assoc; apply in_app_iff; [right; simpl; auto|left; auto].
  - intros p s Hp [<-|Hs] E; simpl in *; [|eauto]. specialize (H6 _ Hp). lia.
  - intros p Hp. specialize (H6 _ Hp). lia.
  - intros s [<-|Hs]; [intros g []|auto].
  - auto.
  - intros r g t H. specialize (H9 _ _ _ H). lia.
  - intros x H. pose proof (H8 _ H) as Hs. pose proof (H10 _ H) as Ha.
    destruct x; simpl in *; try tauto.
    intros l' Hi. apply Hin in Hi. destruct Hi as [Hi|[-> _]]; [auto|].
    specialize (H9 _ _ _ H). lia.
Qed.

Definition acc_cache (acc : Z * list series * list (Z * Z) * list Z * list rec * list rec) : list (Z * Z) :=
  let '(_, _, c, _, _, _) := acc in c.

Definition TIacc (W : list rec) (acc : Z * list series * list (Z * Z) * list Z * list rec * list rec) : Prop :=
  let '(lst, h, c, _, sr, sm) := acc in TI W lst h c sr sm.

Lemma tx_step_TI : forall W acc a, TIacc W acc -> client_ok (acc_cache acc) a -> TIacc W (tx_step acc a).
Proof.
  intros W [[[[[lst h] c] rs] sr] sm] a HT Hc. simpl in HT, Hc.
  unfold tx_step, append1.
  destruct (by_ref h (a_cref a)) as [s|] eqn:E1; [|destruct (by_lset h (a_l a)) as [s|] eqn:E2].
  - apply by_ref_some in E1. destruct E1 as [Hs Er].
    pose proof (TI_head_bound _ _ _ _ _ _ _ HT Hs) as Hb.
    assert (El : s_l s = a_l a).
    { destruct Hc as [Hc|Hc]; [lia|].
      apply (t_cache _ _ _ _ _ _ HT _ _ Hc Hs). simpl. exact Er. }
    assert (Hfun : forall h', (forall s', In s' h' -> exists s1, In s1 h /\ s_ref s' = s_ref s1 /\ s_l s' = s_l s1) ->
                    forall s', In s' h' -> s_ref s' = s_ref s -> s_l s' = a_l a).
    { intros h' Hh' s' Hs' E. destruct (Hh' _ Hs') as (s1 & Hs1 & Ea & Eb). rewrite Eb, <- El.
      eapply TI_head_fun; eauto. congruence. }
    destruct (a_ok a); [destruct (a_stale a)|]; simpl; rewrite ?app_nil_r.
    + apply TI_cache; [exact HT| |lia]. apply Hfun. intros s' Hs'. exists s'; auto.
    + apply TI_cache; [eapply TI_sample; eauto| |lia].
      apply Hfun. intros s' Hs'. apply upd_first_in in Hs'. exact Hs'.
    + exact HT.
  - apply by_lset_some in E2. destruct E2 as [Hs El].
    pose proof (TI_head_bound _ _ _ _ _ _ _ HT Hs) as Hb.
    assert (Hfun : forall h', (forall s', In s' h' -> exists s1, In s1 h /\ s_ref s' = s_ref s1 /\ s_l s' = s_l s1) ->
                    forall s', In s' h' -> s_ref s' = s_ref s -> s_l s' = a_l a).
    { intros h' Hh' s' Hs' E. destruct (Hh' _ Hs') as (s1 & Hs1 & Ea & Eb). rewrite Eb, <- El.
      eapply TI_head_fun; eauto. congruence. }
    destruct (a_ok a); [destruct (a_stale a)|]; simpl; rewrite ?app_nil_r.
    + apply TI_cache; [exact HT| |lia]. apply Hfun. intros s' Hs'. exists s'; auto.
    + apply TI_cache; [eapply TI_sample; eauto| |lia].
      apply Hfun. intros s' Hs'. apply upd_first_in in Hs'. exact Hs'.
    + exact HT.
  - pose proof (TI_create _ _ _ _ _ _ (a_l a) HT) as HT'.
    remember (mkS (lst + 1) (a_l a) [] :: h) as h' eqn:Eh'.
    assert (Hn : In (mkS (lst + 1) (a_l a) []) h') by (rewrite Eh'; left; reflexivity).
    assert (Hfun : forall h2, (forall s', In s' h2 -> exists s1, In s1 h' /\ s_ref s' = s_ref s1 /\ s_l s' = s_l s1) ->
                    forall s', In s' h2 -> s_ref s' = lst + 1 -> s_l s' = a_l a).
    { intros h2 Hh2 s' Hs' E. destruct (Hh2 _ Hs') as (s1 & Hs1 & Ea & Eb). rewrite Eb.
      change (a_l a) with (s_l (mkS (lst + 1) (a_l a) [])).
      eapply TI_head_fun; eauto. simpl. congruence. }
    destruct (a_ok a); [destruct (a_stale a)|]; simpl; rewrite ?app_nil_r.
    + apply TI_cache; [exact HT'| |lia]. apply Hfun. intros s' Hs'. exists s'; auto.
    + apply TI_cache; [|apply Hfun; intros s' Hs'; apply upd_first_in in Hs'; exact Hs'|lia].
      exact (TI_sample _ _ h' _ _ _ (lst + 1) (a_l a) (a_t a) _ HT' Hn eq_refl eq_refl).
    + exact HT'.
Qed.

Fixpoint apps_ok (acc : Z * list series * list (Z * Z) * list Z * list rec * list rec) (apps : list app) : Prop :=
  match apps with
  | [] => True
  | a :: r => client_ok (acc_cache acc) a /\ apps_ok (tx_step acc a) r
  end.

Lemma tx_fold_TI : forall W apps acc, TIacc W acc -> apps_ok acc apps -> TIacc W (fold_left tx_step apps acc).
Proof.
  induction apps as [|a apps IH]; simpl; intros acc HT Hok; [auto|].
  destruct Hok as [H1 H2]. apply IH; auto. apply tx_step_TI; auto.
Qed.

Definition tx_ok (m : st) (apps : list app) : Prop := apps_ok (last m, head m, cache m, [], [], []) apps.

Lemma inv2_do_tx : forall m apps, bound_ok m -> inv2 m -> tx_ok m apps -> inv2 (do_tx m apps).
Proof.
  intros m apps (Bw & Bh & Bc) [H1 H2 H3 H4 H5 H6 H7] Hok. unfold do_tx.
  assert (HT0 : TIacc (wal m) (last m, head m, cache m, [], [], [])).
  { simpl. constructor; rewrite ?app_nil_r; auto; try (simpl; tauto).
    intros r l Hin. split; [eapply H4; eauto|]. apply (Bw _ Hin r eq_refl). }
  pose proof (tx_fold_TI _ _ _ HT0 Hok) as HT.
  destruct (fold_left tx_step apps (last m, head m, cache m, [], [], [])) as [[[[[lst h] c] rs] sr] sm].
  simpl in HT. destruct HT as [T0 T1 T2 T3 T4 T5 T6 T7 T8 T9 T10].
  assert (Hser : forall r l, In (RSeries r l) ((wal m ++ sr) ++ sm) -> In (RSeries r l) (wal m ++ sr)).
  { intros r l Hin. apply in_app_iff in Hin. destruct Hin as [|Hin]; [auto|].
    pose proof (T8 _ Hin) as Hs. simpl in Hs. tauto. }
  constructor; simpl; try rewrite (wal_app_last m); rewrite ?app_assoc; auto.
  - intros r l l' Ha Hb. eapply T2; eauto.
  - apply attr_from_app. split; [apply attr_from_app; split; [auto|]|].
    + apply attr_from_no_sample. exact T1.
    + eapply attr_from_samples with (v := wal m ++ sr).
      * intros r l Hin. exact Hin.
      * intros x Hx. split; auto.
  - intros r l Hin. apply Hser in Hin. apply T3 in Hin. lia.
  - intros s Hs. apply in_app_iff. left. auto.
Qed.

(* ---------------------------------------------------------------- restart *)

Lemma in_dedup_ghosts : forall l g, In g (dedup_ghosts l) -> In g l.
Proof.
  induction l as [|x l IH]; simpl; intros g H; [tauto|].
  destruct (memZ x (dedup_ghosts l)); [right; auto|]. destruct H as [<-|H]; [now left|right; auto].
Qed.

Lemma in_chunk_ghosts : forall mv cs r g, In g (chunk_ghosts mv cs r) ->
  exists c, In c cs /\ ck_ref c = r /\ In g (ck_ghosts c).
Proof.
  unfold chunk_ghosts. intros mv cs r g H. apply in_flat_map in H. destruct H as (c & Hc & Hg).
  apply filter_In in Hc. destruct Hc as [Hc Hf]. apply andb_true_iff in Hf. destruct Hf as [Hf _].
  apply Z.eqb_eq in Hf. eauto.
Qed.

Lemma set_orig_pure : forall r o h,
  (forall s, In s h -> series_pure_p s) ->
  (forall s, In s h -> s_ref s = r -> forall g, In g o -> g = s_l s) ->
  forall s, In s (set_orig r o h) -> series_pure_p s.
Proof.
  induction h as [|a h IH]; simpl; intros Hp Ho s Hs; [tauto|].
  destruct (s_ref a =? r) eqn:E.
  - destruct Hs as [<-|Hs]; [|apply Hp; now right].
    apply Z.eqb_eq in E. intros g Hg. simpl in *. eapply Ho; eauto.
  - destruct Hs as [<-|Hs]; [apply Hp; now left|]. apply IH; auto.
Qed.

Section Replay.
  Variable Wh : list rec.
  Variable mv : Z.
  Variable cs : list chunk.
  Hypothesis Wh_uniq : stream_uniq Wh.
  Hypothesis cs_attr : forall c g l, In c cs -> In g (ck_ghosts c) -> In (RSeries (ck_ref c) l) Wh -> g = l.

  Record RI (seen : list rec) (h : list series) (multi : list (Z * Z)) : Prop := mkRI {
    r_hc : forall s, In s h -> In (RSeries (s_ref s) (s_l s)) seen;
    r_multi : forall r r', assoc multi r = Some r' -> exists l, In (RSeries r l) seen /\ In (RSeries r' l) seen;
    r_pure : forall s, In s h -> series_pure_p s
  }.

  Lemma RI_weaken : forall seen seen' h multi, (forall x, In x seen -> In x seen') ->
    RI seen h multi -> RI seen' h multi.
  Proof.
    intros seen seen' h multi Hs [H1 H2 H3]. constructor; auto.
    intros r r' E. destruct (H2 _ _ E) as (l & Ha & Hb). exists l; auto.
  Qed.

  Lemma RI_sample : forall seen h multi r g t,
    (forall x, In x seen -> In x Wh) -> RI seen h multi -> rec_attr seen (RSample r g t) ->
    RI seen (upd_first (resolve multi r) g h) multi.
  Proof.
    intros seen h multi r g t Hsub [H1 H2 H3] Ha. simpl in Ha. constructor; auto.
    - intros s Hs. apply upd_first_in in Hs. destruct Hs as (s1 & Hs1 & -> & ->). auto.
    - apply upd_first_pure; auto. intros s1 Hs1 E. unfold resolve in E.
      destruct (assoc multi r) as [r'|] eqn:Em.
      + destruct (H2 _ _ Em) as (l0 & Hl0 & Hl0'). rewrite (Ha _ Hl0).
        eapply Wh_uniq; [apply Hsub; apply H1; exact Hs1|]. rewrite E. apply Hsub. exact Hl0'.
      + symmetry. apply Ha. rewrite <- E. apply H1. exact Hs1.
  Qed.

  Lemma replay_rec_RI : forall seen lst h multi x,
    (forall y, In y (seen ++ [x]) -> In y Wh) -> rec_attr seen x -> RI seen h multi ->
    let '(_, h', multi') := replay_rec mv cs (lst, h, multi) x in RI (seen ++ [x]) h' multi'.
  Proof.
    intros seen lst h multi x Hsub Ha HR.
    assert (Hsub0 : forall y, In y seen -> In y Wh) by (intros; apply Hsub; apply in_app_iff; now left).
    assert (Hw : forall y, In y seen -> In y (seen ++ [x])) by (intros; apply in_app_iff; now left).
    destruct x as [r l|r g t|r|r]; simpl.
    - assert (Hx : In (RSeries r l) Wh) by (apply Hsub; apply in_app_iff; right; simpl; auto).
      assert (Ho : forall g, In g (dedup_ghosts (chunk_ghosts mv cs r)) -> g = l).
      { intros g Hg. apply in_dedup_ghosts in Hg. apply in_chunk_ghosts in Hg.
        destruct Hg as (c & Hc & <- & Hg). eapply cs_attr; eauto. }
      destruct HR as [H1 H2 H3].
      destruct (by_lset h l) as [s|] eqn:E.
      + apply by_lset_some in E. destruct E as [Hs El]. constructor.
        * intros s0 Hs0. apply set_orig_in in Hs0. destruct Hs0 as (s1 & Hs1 & -> & ->). auto.
        * intros r0 r' Em. simpl in Em. destruct (r =? r0) eqn:Er.
          -- apply Z.eqb_eq in Er. injection Em as Em'. rewrite <- Em', <- Er. exists l. split.
             ++ apply in_app_iff. right. simpl. auto.
             ++ apply Hw. rewrite <- El. auto.
          -- destruct (H2 _ _ Em) as (l0 & Hl0 & Hl0'). exists l0. auto.
        * apply set_orig_pure; auto. intros s1 Hs1 E1 g Hg. rewrite (Ho _ Hg). rewrite <- El.
          eapply Wh_uniq; [apply Hsub0; apply H1; exact Hs|]. rewrite <- E1. apply Hsub0. apply H1. exact Hs1.
      + constructor.
        * intros s0 [<-|Hs0]; simpl; [apply in_app_iff; right; simpl; auto|auto].
        * intros r0 r' Em. destruct (H2 _ _ Em) as (l0 & Hl0 & Hl0'). exists l0. auto.
        * intros s0 [<-|Hs0]; [exact Ho|auto].
    - destruct (t <? mv); [eapply RI_weaken; eauto|].
      destruct (by_ref h (resolve multi r)); [|eapply RI_weaken; eauto].
      eapply RI_weaken; [exact Hw|]. eapply RI_sample; eauto.
    - eapply RI_weaken; [exact Hw|]. destruct HR as [H1 H2 H3]. constructor; auto.
      + intros s Hs. apply remove_first_in in Hs. auto.
      + intros s Hs. apply remove_first_in in Hs. auto.
    - eapply RI_weaken; eauto.
  Qed.
End Replay.

Lemma replay_fold_RI : forall Wh mv cs,
  stream_uniq Wh ->
  (forall c g l, In c cs -> In g (ck_ghosts c) -> In (RSeries (ck_ref c) l) Wh -> g = l) ->
  forall w seen lst h multi,
  (forall y, In y (seen ++ w) -> In y Wh) -> attr_from seen w -> RI seen h multi ->
  let '(_, h', multi') := fold_left (replay_rec mv cs) w (lst, h, multi) in RI (seen ++ w) h' multi'.
Proof.
  intros Wh mv cs HU HC. induction w as [|x w IH]; intros seen lst h multi Hsub Ha HR.
  - simpl. rewrite app_nil_r. exact HR.
  - simpl in Ha. destruct Ha as [Ha1 Ha2]. cbn [fold_left].
    pose proof (replay_rec_RI Wh mv cs HU HC seen lst h multi x) as Hstep.
    destruct (replay_rec mv cs (lst, h, multi) x) as [[lst1 h1] multi1].
    assert (E : seen ++ x :: w = (seen ++ [x]) ++ w) by (rewrite <- app_assoc; reflexivity).
    rewrite E. apply IH.
    + rewrite <- E. exact Hsub.
    + exact Ha2.
    + apply Hstep; auto. intros y Hy. apply Hsub. rewrite E. apply in_app_iff. now left.
Qed.

Lemma replay_wbl_RI : forall Wh, stream_uniq Wh ->
  forall wbl lst h multi,
  (forall r g t l, In (RSample r g t) wbl -> In (RSeries r l) Wh -> g = l) ->
  RI Wh h multi ->
  let '(_, h', multi') := fold_left replay_wbl wbl (lst, h, multi) in RI Wh h' multi'.
Proof.
  intros Wh HU. induction wbl as [|x wbl IH]; intros lst h multi Ha HR; [exact HR|].
  cbn [fold_left].
  assert (Hstep : let '(_, h', multi') := replay_wbl (lst, h, multi) x in RI Wh h' multi').
  { destruct x as [r l|r g t|r|r]; simpl; auto.
    destruct (by_ref h (resolve multi r)); auto.
    eapply (RI_sample Wh HU) with (t := t); eauto. simpl. intros l Hl. exact (Ha r g t l (or_introl eq_refl) Hl). }
  destruct (replay_wbl (lst, h, multi) x) as [[lst1 h1] multi1].
  apply IH; auto. intros r g t l Hin Hl. exact (Ha r g t l (or_intror Hin) Hl).
Qed.

Definition restart_ok (m : st) (sf : option (Z * Z * bool)) (cs : list chunk) (wbl : list rec) : Prop :=
  (forall c g l, In c cs -> In g (ck_ghosts c) -> In (RSeries (ck_ref c) l) (wal m) -> g = l) /\
  (forall r g t l, In (RSample r g t) wbl -> In (RSeries r l) (wal m) -> g = l).

Lemma seg_max_series_nonneg : forall s r, seg_max_series s = Some r -> 0 <= r.
Proof.
  unfold seg_max_series. intros s.
  assert (H : forall acc, (forall a, acc = Some a -> 0 <= a) ->
              forall r, fold_left (fun acc x => match x with
                          | RSeries r _ => Some (match acc with Some a => Z.max a r | None => Z.max 0 r end)
                          | _ => acc end) s acc = Some r -> 0 <= r).
  { induction s as [|x s IH]; simpl; intros acc Hacc r Hr; [auto|].
    eapply IH; [|exact Hr]. destruct x; auto. intros a Ea. inversion Ea; subst.
    destruct acc as [a0|]; [specialize (Hacc a0 eq_refl)|]; lia. }
  apply H. intros a Ea. discriminate.
Qed.

Lemma find_last_nonneg : forall f sg id seg, 0 <= id -> 0 <= find_last f sg id seg.
Proof.
  intros f sg id seg Hid. unfold find_last. generalize (rev (skipn (Z.to_nat (Z.max 0 seg - f)) sg)).
  induction l as [|s l IH]; simpl; [auto|].
  destruct (seg_max_series s) eqn:E; [eapply seg_max_series_nonneg; eauto|auto].
Qed.

Lemma wal_snoc_nil : forall m, ckpt m ++ concat (segs m ++ [[]]) = wal m.
Proof. intros. unfold wal. rewrite concat_app. simpl. now rewrite app_nil_r. Qed.

Lemma inv2_do_restart : forall m fastNew sf mv cs wbl ea alive,
  inv2 m -> restart_ok m sf cs wbl -> inv2 (do_restart m fastNew sf mv cs wbl ea alive).
Proof.
  intros m fastNew sf mv cs wbl ea alive [H1 H2 H3 H4 H5 H6 H7] (Hcs & Hwbl).
  unfold do_restart, do_restart_gen.
  set (last0 := fast_start _ _ _ _ _ _).
  assert (Hl0 : 0 <= last0).
  { unfold last0. pose proof (fast_start_fixed_ge (chunks_max_ref cs) (first m) (segs m ++ [[]]) fastNew sf).
    destruct (chunks_max_ref_ge cs) as [Hm _]. lia. }
  rewrite wal_snoc_nil.
  pose proof (replay_fold_RI (wal m) mv cs H2 Hcs (wal m) [] last0 [] []) as HR.
  pose proof (replay_fold_bound mv cs (wal m) (last0, [], [])) as HB.
  destruct (fold_left (replay_rec mv cs) (wal m) (last0, [], [])) as [[lst h] multi].
  simpl in HR, HB.
  assert (HR' : RI (wal m) h multi).
  { apply HR; auto. constructor; simpl; try tauto. intros; discriminate. }
  assert (HB' : last0 <= lst) by (apply HB; tauto).
  pose proof (replay_wbl_RI (wal m) H2 wbl lst h multi Hwbl HR') as HW.
  pose proof (replay_wbl_bound wbl (lst, h, multi)) as HWB.
  destruct (fold_left replay_wbl wbl (lst, h, multi)) as [[lst2 h2] multi2].
  simpl in HWB. destruct HWB as [_ HWB]; [apply HB; tauto|]. subst lst2.
  destruct HW as [W1 W2 W3].
  constructor; simpl; unfold wal; simpl; rewrite ?wal_snoc_nil; fold (wal m); auto.
  - lia.
  - intros s Hs. apply filter_In in Hs. destruct Hs as [Hs _]. auto.
  - tauto.
  - intros s Hs. apply filter_In in Hs. destruct Hs as [Hs _]. auto.
Qed.

(* ---------------------------------------------------------------- all histories *)

Definition op_ok (m : st) (o : op) : Prop :=
  match o with
  | OTx apps => tx_ok m apps
  | ORestart _ _ _ sf _ cs wbl _ _ => restart_ok m sf cs wbl
  | _ => True
  end.

Fixpoint ops_ok (m : st) (ops : list op) : Prop :=
  match ops with
  | [] => True
  | o :: r => op_ok m o /\ ops_ok (step m o) r
  end.

Lemma inv2_step : forall m o, bound_ok m -> inv2 m -> op_ok m o -> inv2 (step m o).
Proof.
  intros m o Hb Hi Hok. destruct o; simpl in *.
  - now apply inv2_do_tx.
  - apply inv2_truncate_wal. now apply inv2_do_gc.
  - now apply inv2_do_gc.
  - now apply inv2_do_evict.
  - now apply inv2_do_restart.
Qed.

Lemma inv2_init : inv2 init.
Proof. constructor; unfold init, wal; simpl; try tauto; try lia. intros r l l' []. Qed.

Lemma inv2_fold : forall ops m, bound_ok m -> inv2 m -> ops_ok m ops ->
  bound_ok (fold_left step ops m) /\ inv2 (fold_left step ops m).
Proof.
  induction ops as [|o ops IH]; simpl; intros m Hb Hi Hok; [auto|].
  destruct Hok as [Ho Hr]. apply IH; auto.
  - now apply bound_step.
  - now apply inv2_step.
Qed.

Lemma inv2_run : forall ops, ops_ok init ops -> inv2 (run ops).
Proof. intros ops H. apply (inv2_fold ops init bound_init inv2_init H). Qed.

Lemma head_pure_of_inv2 : forall m, inv2 m -> head_pure m = true.
Proof.
  intros m Hi. unfold head_pure. apply forallb_forall. intros s Hs.
  unfold series_pure. apply forallb_forall. intros g Hg. apply Z.eqb_eq.
  symmetry. eapply i_pure; eauto.
Qed.

(* ---------------------------------------------------------------- appending through a stale ref *)

Lemma upd_first_keeps_ref : forall r g h s, In s h -> exists s', In s' (upd_first r g h) /\ s_ref s' = s_ref s.
Proof.
  induction h as [|a h IH]; simpl; intros s Hs; [tauto|].
  destruct (s_ref a =? r) eqn:E.
  - destruct Hs as [<-|Hs]; [|exists s; split; [now right|reflexivity]].
    exists (add_ghost g a). split; [now left|]. unfold add_ghost. destruct (memZ g (s_orig a)); auto.
  - destruct Hs as [<-|Hs]; [exists a; split; [now left|reflexivity]|].
    destruct (IH _ Hs) as (s' & H1 & H2). exists s'. split; [now right|auto].
Qed.

Lemma stale_ref_safe : forall ops a,
  ops_ok init ops ->
  let m := run ops in
  client_ok (cache m) a -> a_ok a = true ->
  let '(_, h1, ret, _, _) := append1 (last m) (head m) a in
  (exists s, In s h1 /\ s_ref s = ret) /\
  (forall s, In s h1 -> s_ref s = ret -> s_l s = a_l a /\ series_pure_p s).
Proof.
  intros ops a Hok m Hc Hokk.
  pose proof (bound_run ops) as Hb. pose proof (inv2_run ops Hok) as Hi. fold m in Hb, Hi.
  destruct Hb as (Bw & Bh & Bc). destruct Hi as [H1 H2 H3 H4 H5 H6 H7].
  assert (HT0 : TIacc (wal m) (last m, head m, cache m, [], [], [])).
  { simpl. constructor; rewrite ?app_nil_r; auto; try (simpl; tauto).
    intros r l Hin. split; [eapply H4; eauto|]. apply (Bw _ Hin r eq_refl). }
  pose proof (tx_step_TI _ _ a HT0 Hc) as HT. unfold tx_step in HT.
  destruct (append1 (last m) (head m) a) as [[[[lst1 h1] ret] crt] smp] eqn:E.
  rewrite Hokk in HT. simpl in HT. split.
  - unfold append1 in E. rewrite Hokk in E.
    destruct (by_ref (head m) (a_cref a)) as [s|] eqn:E1; [|destruct (by_lset (head m) (a_l a)) as [s|] eqn:E2].
    + apply by_ref_some in E1. destruct E1 as [Hs _].
      destruct (a_stale a); inversion E; subst; [exists s; auto|].
      destruct (upd_first_keeps_ref (s_ref s) (a_l a) _ _ Hs) as (s' & Ha & Hb). exists s'; auto.
    + apply by_lset_some in E2. destruct E2 as [Hs _].
      destruct (a_stale a); inversion E; subst; [exists s; auto|].
      destruct (upd_first_keeps_ref (s_ref s) (a_l a) _ _ Hs) as (s' & Ha & Hb). exists s'; auto.
    + assert (Hn : In (mkS (last m + 1) (a_l a) []) (mkS (last m + 1) (a_l a) [] :: head m)) by (now left).
      destruct (a_stale a); inversion E; subst; [eexists; split; [exact Hn|reflexivity]|].
      destruct (upd_first_keeps_ref (last m + 1) (a_l a) _ _ Hn) as (s' & Ha & Hb). exists s'. split; [exact Ha|exact Hb].
  - intros s Hs Er. split.
    + apply (t_cache _ _ _ _ _ _ HT (ret, a_l a) s); simpl; auto.
    + eapply t_pure; eauto.
Qed.

(* ---------------------------------------------------------------- head-chunk files (fixed code) *)

Definition acc_last (acc : Z * list series * list (Z * Z) * list Z * list rec * list rec) : Z :=
  let '(lst, _, _, _, _, _) := acc in lst.

Lemma append1_mono : forall lst h a, lst <= fst (fst (fst (fst (append1 lst h a)))).
Proof.
  intros. unfold append1.
  destruct (by_ref h (a_cref a)); [|destruct (by_lset h (a_l a))];
    destruct (a_ok a); try destruct (a_stale a); simpl; lia.
Qed.

Lemma tx_step_mono : forall acc a, acc_last acc <= acc_last (tx_step acc a).
Proof.
  intros [[[[[lst h] c] rs] sr] sm] a. unfold tx_step.
  pose proof (append1_mono lst h a) as H.
  destruct (append1 lst h a) as [[[[lst1 h1] ret] crt] smp]. simpl in *. exact H.
Qed.

Lemma tx_fold_mono : forall apps acc, acc_last acc <= acc_last (fold_left tx_step apps acc).
Proof.
  induction apps as [|a apps IH]; simpl; intros acc; [lia|].
  pose proof (tx_step_mono acc a). specialize (IH (tx_step acc a)). lia.
Qed.

Definition is_restart (o : op) : bool := match o with ORestart _ _ _ _ _ _ _ _ _ => true | _ => false end.

Lemma last_mono_step : forall m o, is_restart o = false -> last m <= last (step m o).
Proof.
  intros m o Ho. destruct o; simpl in *; try discriminate.
  - unfold do_tx. pose proof (tx_fold_mono apps (last m, head m, cache m, [], [], [])) as H.
    destruct (fold_left tx_step apps (last m, head m, cache m, [], [], [])) as [[[[[lst h] c] rs] sr] sm].
    simpl in *. exact H.
  - destruct (truncate_wal_fields (do_gc m dead) mint) as (E & _). rewrite E. simpl. lia.
  - simpl. lia.
  - simpl. lia.
Qed.

Lemma last_mono_fold : forall ops m, forallb (fun o => negb (is_restart o)) ops = true ->
  last m <= last (fold_left step ops m).
Proof.
  induction ops as [|o ops IH]; simpl; intros m H; [lia|].
  apply andb_true_iff in H. destruct H as [Ho Hr]. apply negb_true_iff in Ho.
  pose proof (last_mono_step m o Ho). specialize (IH (step m o) Hr). lia.
Qed.

(* in the whole lifetime that follows a restart, lastSeriesID stays at or above every series ref
   found in the head-chunk files at that restart *)
Lemma chunk_refs_bounded : forall ops1 cl fo fn sf mv cs wbl ea alive ops2 c,
  forallb (fun o => negb (is_restart o)) ops2 = true -> In c cs ->
  ck_ref c <= last (run (ops1 ++ ORestart cl fo fn sf mv cs wbl ea alive :: ops2)).
Proof.
  intros ops1 cl fo fn sf mv cs wbl ea alive ops2 c Hn Hc. unfold run. rewrite fold_left_app. simpl.
  pose proof (restart_chunk_bound (fold_left step ops1 init) fn sf mv cs wbl ea alive c Hc) as H1.
  pose proof (last_mono_fold ops2 (do_restart (fold_left step ops1 init) fn sf mv cs wbl ea alive) Hn) as H2.
  etransitivity; [exact H1|exact H2].
Qed.

Lemma fresh_ref_above_chunks : forall ops a,
  let m := run ops in
  by_ref (head m) (a_cref a) = None -> by_lset (head m) (a_l a) = None ->
  let '(_, _, _, crt, _) := append1 (last m) (head m) a in
  crt = [RSeries (last m + 1) (a_l a)] /\
  (forall x r, In x (wal m) -> rec_alloc_ref x = Some r -> r < last m + 1) /\
  (forall s, In s (head m) -> s_ref s < last m + 1) /\
  (forall p, In p (cache m) -> fst p < last m + 1) /\
  (forall ops1 cl fo fn sf mv cs wbl ea alive ops2 c,
     ops = ops1 ++ ORestart cl fo fn sf mv cs wbl ea alive :: ops2 ->
     forallb (fun o => negb (is_restart o)) ops2 = true -> In c cs -> ck_ref c < last m + 1).
Proof.
  intros ops a m E1 E2. pose proof (fresh_ref_above ops a E1 E2) as H. fold m in H.
  destruct (append1 (last m) (head m) a) as [[[[x1 x2] x3] crt] x5].
  destruct H as (Ha & Hb & Hc & Hd). repeat split; auto.
  intros ops1 cl fo fn sf mv cs wbl ea alive ops2 c Eo Hn Hc'.
  pose proof (chunk_refs_bounded ops1 cl fo fn sf mv cs wbl ea alive ops2 c Hn Hc') as Hle.
  rewrite <- Eo in Hle. fold m in Hle. lia.
Qed.

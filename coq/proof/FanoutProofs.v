(* proof/FanoutProofs.v — lemmas and proofs about model/Fanout.v (property C54). *)
From Coq Require Import List ZArith Bool Arith Lia.
From Verif Require Import model.Fanout.
Import ListNotations.
Open Scope Z_scope.

(* ------------------------------------------------------------------ small facts *)
Lemma merge_series_nil_r : forall a, merge_series a [] = a.
Proof. destruct a; reflexivity. Qed.

Lemma merge_series_nil_l : forall b, merge_series [] b = b.
Proof. reflexivity. Qed.

Lemma first_fail_final : forall c e, first_fail c = Some e -> final_err c = Some e.
Proof. unfold first_fail; intros c e; destruct (yielded c); [auto | discriminate]. Qed.

Lemma yielded_no_err : forall c, final_err c = None -> yielded c = sc_series c.
Proof.
  unfold final_err, yielded; intros c.
  destruct (sc_fail c) as [[n e]|]; auto.
  destruct (n <=? length (sc_series c))%nat eqn:E; [discriminate|].
  intros _. apply firstn_all2. apply Nat.leb_gt in E. lia.
Qed.

Lemma first_fail_none_of_final : forall c, final_err c = None -> first_fail c = None.
Proof.
  intros c H. destruct (first_fail c) eqn:E; auto.
  apply first_fail_final in E. congruence.
Qed.

(* ------------------------------------------------------------------ hypotheses of the theorems *)
(* a set fails, if at all, at Select / at its first Next *)
Definition early_only (c : setcfg) : Prop := forall e, final_err c = Some e -> first_fail c = Some e.
(* a set fails at a later step: after having yielded at least one series *)
Definition late_failure (c : setcfg) : Prop := exists e, final_err c = Some e /\ first_fail c = None.

Definition no_late (q : qcfg) : Prop :=
  match q with QOk sels _ _ => Forall early_only sels | _ => True end.
Definition creatable (q : qcfg) : Prop := match q with QCreateFail _ => False | _ => True end.
Definition wf (nsel : nat) (q : qcfg) : Prop :=
  match q with QOk s _ _ => length s = nsel | _ => True end.

Lemma wf_q_iff : forall n q, wf_q n q = true <-> wf n q.
Proof. intros n [| |s lv ln]; simpl; try tauto. apply Nat.eqb_eq. Qed.

(* ------------------------------------------------------------------ secondaryQuerier *)
Lemma find_first_fail_none : forall cs,
  existsb (fun c => is_some (final_err c)) cs = false -> find_first_fail cs = None.
Proof.
  induction cs as [|c r IH]; simpl; auto.
  intros H. apply orb_false_iff in H as [H1 H2].
  destruct (final_err c) eqn:E; [discriminate|].
  rewrite (first_fail_none_of_final _ E). auto.
Qed.

Lemma find_first_fail_some : forall cs,
  Forall early_only cs -> existsb (fun c => is_some (final_err c)) cs = true ->
  exists e ws, find_first_fail cs = Some (e, ws).
Proof.
  induction cs as [|c r IH]; simpl; [discriminate|].
  intros HF H. inversion HF as [|? ? Hc Hr]; subst.
  destruct (first_fail c) eqn:E; [eauto|].
  destruct (final_err c) eqn:E2.
  - apply Hc in E2. congruence.
  - simpl in H. auto.
Qed.

Lemma existsb_final_false : forall cs a c,
  existsb (fun c => is_some (final_err c)) cs = false -> nth_error cs a = Some c -> final_err c = None.
Proof.
  intros cs a c H Hn. apply nth_error_In in Hn.
  destruct (final_err c) eqn:E; auto.
  assert (existsb (fun c => is_some (final_err c)) cs = true) as X.
  { apply existsb_exists. exists c. rewrite E. auto. }
  congruence.
Qed.

(* all-or-nothing: the effective set of a failed secondary yields nothing and has no error;
   the one of a secondary that failed nowhere yields its whole set *)
Lemma sec_eff_at_spec : forall sels lv ln curr a c rest,
  no_late (QOk sels lv ln) -> nth_error sels a = Some c ->
  exists s, sec_eff_at sels curr a = Some s /\ e_err s = None /\
            merge_all (e_yield s :: rest) = merge_all (contrib a (QOk sels lv ln) ++ rest).
Proof.
  intros sels lv ln curr a c rest HN Hn. simpl in HN.
  unfold sec_eff_at, contrib. rewrite Hn. simpl sec_failed. simpl set_at. rewrite Hn.
  destruct (existsb (fun c => is_some (final_err c)) sels) eqn:EX.
  - destruct (find_first_fail_some _ HN EX) as (e & ws & F). rewrite F.
    eexists; split; [reflexivity|].
    destruct (a =? curr)%nat; simpl; auto.
  - rewrite (find_first_fail_none _ EX).
    pose proof (existsb_final_false _ _ _ EX Hn) as FE.
    pose proof (yielded_no_err _ FE) as Y.
    eexists; split; [reflexivity|].
    destruct (yielded c) eqn:E; simpl.
    + rewrite <- Y. auto.
    + rewrite E, FE, <- Y. auto.
Qed.

(* ------------------------------------------------------------------ the effective sets of all secondaries *)
Definition eff_of (a : nat) (sc : qcfg * nat) : option eset := sec_eff_at (sels_of (fst sc)) (snd sc) a.

Lemma effs_spec : forall nsel a secs currs,
  (a < nsel)%nat ->
  Forall (wf nsel) secs -> Forall creatable secs -> Forall no_late secs ->
  length currs = length (live_secs secs) ->
  exists es, all_some (map (eff_of a) (combine (live_secs secs) currs)) = Some es
             /\ length es = length (live_secs secs)
             /\ flat_map (fun s => opt_list (e_err s)) es = []
             /\ merge_all (map e_yield es) = merge_all (flat_map (contrib a) secs).
Proof.
  intros nsel a secs. induction secs as [|q secs IH]; intros currs Ha HW HC HN HL.
  - exists []. simpl. auto.
  - inversion HW as [|? ? W1 W2]; inversion HC as [|? ? C1 C2]; inversion HN as [|? ? N1 N2]; subst.
    destruct q as [|e|sels lv ln].
    + (* noop querier: dropped by fanout.Querier; selects nothing *)
      simpl in HL |- *. destruct (IH currs Ha W2 C2 N2 HL) as (es & A & B & C & D).
      exists es. repeat split; auto.
    + destruct C1.
    + simpl in HL. destruct currs as [|cu currs]; [discriminate|]. simpl in HL.
      injection HL as HL.
      destruct (IH currs Ha W2 C2 N2 HL) as (es & A & B & C & D).
      simpl in W1.
      destruct (nth_error sels a) as [c|] eqn:Hn.
      2:{ apply nth_error_None in Hn. lia. }
      destruct (sec_eff_at_spec sels lv ln cu a c (map e_yield es) N1 Hn) as (s & S1 & S2 & S3).
      exists (s :: es). simpl live_secs. simpl combine. simpl map.
      unfold eff_of at 1. simpl fst. simpl snd. simpl sels_of. rewrite S1.
      fold (eff_of a). repeat split.
      * cbn [all_some]. rewrite A. reflexivity.
      * simpl. auto.
      * simpl. rewrite S2. simpl. auto.
      * rewrite S3. simpl flat_map.
        unfold merge_all in *. rewrite !fold_right_app. rewrite D. reflexivity.
Qed.

(* ------------------------------------------------------------------ one Select through the fanout *)
Lemma all_some_nil_inv : forall A (es : list A), all_some (@nil (option A)) = Some es -> es = [].
Proof. simpl; intros; congruence. Qed.

Lemma select_res_spec : forall nsel a p secs currs pc,
  (a < nsel)%nat -> creatable p ->
  Forall (wf nsel) secs -> Forall creatable secs -> Forall no_late secs ->
  length currs = length (live_secs secs) ->
  set_at p a = Some pc ->
  exists r, select_res p (combine (live_secs secs) currs) a = Some r /\
    match final_err pc with
    | Some e => r_errs r = [e]                                   (* the primary fails: the query fails *)
    | None => r_errs r = [] /\ r_series r = expected_series pc secs a
    end.
Proof.
  intros nsel a p secs currs pc Ha HCp HW HC HN HL HP.
  destruct (effs_spec nsel a secs currs Ha HW HC HN HL) as (es & A & B & C & D).
  unfold eff_of in A. unfold expected_series. cbn [merge_all fold_right]. fold (merge_all (flat_map (contrib a) secs)).
  rewrite <- D. clear D.
  destruct p as [|e|ps plv pln]; [| destruct HCp |]; simpl in HP.
  - (* noop primary *)
    injection HP as <-. cbn [final_err empty_set sc_fail sc_series].
    unfold select_res.
    destruct (combine (live_secs secs) currs) as [|x l] eqn:EC.
    + apply all_some_nil_inv in A. subst es. eexists; split; [reflexivity|]. simpl. auto.
    + rewrite A. eexists; split; [reflexivity|]. unfold merged_res. cbn [r_errs r_series app].
      rewrite C. auto.
  - unfold select_res.
    destruct (combine (live_secs secs) currs) as [|x l] eqn:EC.
    + apply all_some_nil_inv in A. subst es. rewrite HP. cbn [option_map].
      eexists; split; [reflexivity|]. unfold raw_res. cbn [r_errs r_series map merge_all fold_right].
      destruct (final_err pc) eqn:FE; cbn [opt_list]; auto.
      split; auto. rewrite merge_series_nil_r. apply yielded_no_err; auto.
    + rewrite A, HP. cbn [option_map].
      eexists; split; [reflexivity|]. unfold merged_res.
      destruct (first_fail pc) eqn:FF.
      * rewrite (first_fail_final _ _ FF). reflexivity.
      * cbn [r_errs r_series]. rewrite C, app_nil_r.
        destruct (final_err pc) eqn:FE; cbn [opt_list]; auto.
        split; auto. cbn [app merge_all fold_right]. rewrite (yielded_no_err _ FE). reflexivity.
Qed.

(* ------------------------------------------------------------------ label queries: mergeResults *)
Lemma in_merge_strings : forall a b v, In v (merge_strings a b) <-> In v a \/ In v b.
Proof.
  induction a as [|x a IHa]; [simpl; tauto|].
  induction b as [|y b IHb]; intros v; [simpl; tauto|].
  cbn [merge_strings]. fold (merge_strings a).
  change ((fix go (b0 : list Z) : list Z :=
             match b0 with
             | [] => x :: a
             | y0 :: b' => if x =? y0 then x :: merge_strings a b'
                           else if x <? y0 then x :: merge_strings a b0 else y0 :: go b'
             end) b) with (merge_strings (x :: a) b).
  destruct (x =? y) eqn:E1.
  - apply Z.eqb_eq in E1. subst y. simpl. rewrite IHa. simpl. tauto.
  - destruct (x <? y).
    + simpl. rewrite IHa. simpl. tauto.
    + simpl. rewrite IHb. simpl. tauto.
Qed.

Fixpoint first_err (qs : list lres) : option Z :=
  match qs with [] => None | (_, _, Some e) :: _ => Some e | (_, _, None) :: r => first_err r end.

Lemma first_err_app : forall l1 l2,
  first_err (l1 ++ l2) = match first_err l1 with Some e => Some e | None => first_err l2 end.
Proof. induction l1 as [|[[v w] [e|]] l1 IH]; simpl; auto. Qed.

Definition lvals (q : lres) := fst (fst q).
Definition lwarns (q : lres) := snd (fst q).

Lemma merge_results_spec : forall fuel qs, (length qs < fuel)%nat ->
  exists r, merge_results fuel qs = Some r /\
    match first_err qs with
    | Some e => snd r = Some e
    | None => snd r = None
              /\ (forall v, In v (lvals r) <-> exists q, In q qs /\ In v (lvals q))
              /\ (forall w, In w (lwarns r) <-> exists q, In q qs /\ In w (lwarns q))
    end.
Proof.
  induction fuel as [|f IH]; intros qs HL; [lia|].
  destruct qs as [|q1 [|q2 qs]].
  - simpl. eexists; split; [reflexivity|]. simpl. repeat split; try tauto; intros (q & [] & _).
  - cbn [merge_results]. eexists; split; [reflexivity|].
    destruct q1 as [[v w] [e|]]; simpl; auto.
    split; auto. unfold lvals, lwarns. split; intros x; split.
    + intros H. exists (v, w, @None Z). simpl. auto.
    + intros (q & [<-|[]] & H). auto.
    + intros H. exists (v, w, @None Z). simpl. auto.
    + intros (q & [<-|[]] & H). auto.
  - set (l := q1 :: q2 :: qs) in *.
    assert (2 <= length l)%nat as L2 by (simpl; lia).
    assert (merge_results (S f) l =
            let i := Nat.div (length l) 2 in
            match merge_results f (firstn i l) with
            | None => None
            | Some (s1, w1, Some e) => Some ([], w1, Some e)
            | Some (s1, w1, None) =>
                match merge_results f (skipn i l) with
                | None => None
                | Some (s2, w2, Some e) => Some ([], w1 ++ w2, Some e)
                | Some (s2, w2, None) => Some (merge_strings s1 s2, w1 ++ w2, None)
                end
            end) as EQ by reflexivity.
    rewrite EQ. clear EQ. cbv zeta.
    set (i := Nat.div (length l) 2).
    assert (i < length l)%nat as Hi by (apply Nat.div_lt; lia).
    assert (1 <= i)%nat as Hi1.
    { unfold i. change 1%nat with (Nat.div 2 2). apply Nat.div_le_mono; lia. }
    assert (length (firstn i l) < f)%nat as F1 by (rewrite firstn_length; lia).
    assert (length (skipn i l) < f)%nat as F2 by (rewrite skipn_length; lia).
    destruct (IH _ F1) as (r1 & R1 & S1). destruct (IH _ F2) as (r2 & R2 & S2).
    rewrite R1, R2. clear R1 R2 F1 F2 IH.
    assert (l = firstn i l ++ skipn i l) as EL by (symmetry; apply firstn_skipn).
    clearbody l.
    remember (firstn i l) as l1. remember (skipn i l) as l2. clear Heql1 Heql2.
    subst l. rewrite first_err_app.
    destruct r1 as [[s1 w1] e1]. destruct r2 as [[s2 w2] e2].
    destruct (first_err l1) as [e|].
    + simpl in S1. subst e1. eexists; split; [reflexivity|]. simpl. auto.
    + unfold lvals, lwarns in S1. cbn [fst snd] in S1. destruct S1 as (-> & V1 & W1).
      destruct (first_err l2) as [e|].
      * simpl in S2. subst e2. eexists; split; [reflexivity|]. simpl. auto.
      * unfold lvals, lwarns in S2. cbn [fst snd] in S2. destruct S2 as (-> & V2 & W2).
        eexists; split; [reflexivity|]. unfold lvals, lwarns. cbn [fst snd].
        split; [reflexivity|]. split; intros x.
        -- rewrite in_merge_strings, V1, V2. split.
           ++ intros [(q & I & J)|(q & I & J)]; exists q; rewrite in_app_iff; auto.
           ++ intros (q & I & J). rewrite in_app_iff in I. destruct I; [left|right]; eauto.
        -- rewrite in_app_iff, W1, W2. split.
           ++ intros [(q & I & J)|(q & I & J)]; exists q; rewrite in_app_iff; auto.
           ++ intros (q & I & J). rewrite in_app_iff in I. destruct I; [left|right]; eauto.
Qed.

Lemma merged_label_total : forall qs, exists r, merged_label qs = Some r.
Proof.
  intros qs. unfold merged_label.
  destruct (merge_results_spec (S (length qs)) qs) as (r & R & _); [lia|].
  rewrite R. destruct r as [[v w] [e|]]; eauto.
Qed.

Definition label_selector (sel : qcfg -> option lblcfg) : Prop :=
  forall q, match q with QOk _ _ _ => exists l, sel q = Some l | _ => sel q = None end.

Lemma lv_of_selector : label_selector lv_of.
Proof. intros [| |s lv ln]; simpl; eauto. Qed.
Lemma ln_of_selector : label_selector ln_of.
Proof. intros [| |s lv ln]; simpl; eauto. Qed.

Lemma all_some_live : forall sel secs, label_selector sel ->
  exists ls, all_some (map sel (live_secs secs)) = Some ls /\
             (forall l, In l ls <-> exists s, In s secs /\ sel s = Some l).
Proof.
  intros sel secs HS. induction secs as [|q secs (ls & A & B)].
  - exists []. simpl. split; auto. intros l; split; [tauto|]. intros (s & [] & _).
  - pose proof (HS q) as Hq. destruct q as [|e|sels lv ln]; simpl live_secs.
    + exists ls. split; auto. intros l. rewrite B. split.
      * intros (s & I & J). exists s. simpl. auto.
      * intros (s & [<-|I] & J); [congruence|eauto].
    + exists ls. split; auto. intros l. rewrite B. split.
      * intros (s & I & J). exists s. simpl. auto.
      * intros (s & [<-|I] & J); [congruence|eauto].
    + destruct Hq as (l0 & Hq). exists (l0 :: ls). cbn [map all_some]. rewrite Hq, A. split; auto.
      intros l. simpl. rewrite B. split.
      * intros [<-|(s & I & J)]; eauto.
      * intros (s & [<-|I] & J); [left; congruence|right; eauto].
Qed.

Lemma label_res_total : forall sel p secs, label_selector sel ->
  exists r, label_res sel p (live_secs secs) = Some r.
Proof.
  intros sel p secs HS. unfold label_res.
  destruct (all_some_live sel secs HS) as (ls & A & B).
  destruct (sel p) as [pl|]; destruct (live_secs secs) as [|s [|s2 ss]] eqn:EL; eauto.
  - rewrite A. apply merged_label_total.
  - rewrite A. apply merged_label_total.
  - simpl in A. destruct (sel s); [eauto|discriminate].
  - rewrite A. apply merged_label_total.
Qed.

(* ------------------------------------------------------------------ the whole query *)
Lemma first_create_fail_none : forall secs i, Forall creatable secs -> first_create_fail secs i = None.
Proof.
  induction secs as [|q secs IH]; intros i H; simpl; auto.
  inversion H as [|? ? H1 H2]; subst. destruct q; simpl in H1; try tauto; auto.
Qed.

Lemma create_none : forall p secs, creatable p -> Forall creatable secs -> create p secs = None.
Proof.
  intros p secs Hp Hs. unfold create.
  destruct p; simpl in Hp; try tauto; rewrite first_create_fail_none; auto.
Qed.

Lemma all_some_map_spec : forall A B (f : A -> option B) l,
  (forall x, In x l -> exists y, f x = Some y) ->
  exists ys, all_some (map f l) = Some ys /\ length ys = length l /\
             forall i x, nth_error l i = Some x -> exists y, nth_error ys i = Some y /\ f x = Some y.
Proof.
  induction l as [|x l IH]; intros H.
  - exists []. simpl. repeat split; auto. intros [|i] x; discriminate.
  - destruct IH as (ys & A1 & A2 & A3). { intros; apply H; simpl; auto. }
    destruct (H x) as (y & Hy); [simpl; auto|].
    exists (y :: ys). cbn [map all_some]. rewrite Hy, A1. repeat split; [simpl; auto|].
    intros [|i] x'; simpl.
    + intros [= <-]. eauto.
    + apply A3.
Qed.

Lemma set_at_wf : forall nsel p a, wf nsel p -> creatable p -> (a < nsel)%nat ->
  exists pc, set_at p a = Some pc.
Proof.
  intros nsel [|e|ps lv ln] a W C Ha; simpl in *; eauto; try tauto.
  destruct (nth_error ps a) eqn:E; eauto. apply nth_error_None in E. lia.
Qed.

Theorem query_partial : forall p secs nsel currs,
  wf nsel p -> Forall (wf nsel) secs -> creatable p -> Forall creatable secs ->
  Forall no_late secs -> length currs = length (live_secs secs) ->
  exists rs lv ln,
    query p secs nsel currs = ROk rs lv ln (map is_ok (p :: secs)) /\ length rs = nsel /\
    forall a r, nth_error rs a = Some r ->
      exists pc, set_at p a = Some pc /\
        match final_err pc with
        | Some e => r_errs r = [e]
        | None => r_errs r = [] /\ r_series r = expected_series pc secs a
        end.
Proof.
  intros p secs nsel currs Wp Ws Cp Cs Ns HL.
  unfold query.
  assert (forallb (wf_q nsel) (p :: secs) = true) as WF.
  { apply forallb_forall. intros q [<-|I]; apply wf_q_iff; auto.
    rewrite Forall_forall in Ws. auto. }
  rewrite WF. cbn [negb]. rewrite (create_none _ _ Cp Cs).
  rewrite HL, Nat.eqb_refl. cbn [negb].
  destruct (all_some_map_spec _ _ (select_res p (combine (live_secs secs) currs)) (seq 0 nsel)) as (rs & R1 & R2 & R3).
  { intros a Ia. apply in_seq in Ia.
    destruct (set_at_wf nsel p a Wp Cp) as (pc & Hpc); [lia|].
    destruct (select_res_spec nsel a p secs currs pc) as (r & Hr & _); auto; [lia|eauto]. }
  rewrite R1.
  destruct (label_res_total lv_of p secs lv_of_selector) as (lv & ->).
  destruct (label_res_total ln_of p secs ln_of_selector) as (ln & ->).
  exists rs, lv, ln. rewrite seq_length in R2. repeat split; auto.
  intros a r Hr.
  assert (a < nsel)%nat as Ha. { rewrite <- R2. apply nth_error_Some. congruence. }
  assert (nth_error (seq 0 nsel) a = Some a) as Hs.
  { rewrite (nth_error_nth' _ 0%nat); [|rewrite seq_length; auto]. rewrite seq_nth; auto. }
  destruct (R3 _ _ Hs) as (r' & Hr' & Sel). rewrite Hr in Hr'. injection Hr' as <-.
  destruct (set_at_wf nsel p a Wp Cp Ha) as (pc & Hpc).
  exists pc. split; auto.
  destruct (select_res_spec nsel a p secs currs pc) as (r2 & Hr2 & Spec); auto.
  rewrite Sel in Hr2. injection Hr2 as <-. exact Spec.
Qed.

(* ------------------------------------------------------------------ appender: Commit / Rollback *)
Definition rb_call (c : appcfg) : list entry * endcall :=
  ([], if ac_rollback c then ERollbackFail else ERollbackOk).

Definition is_rollback (e : endcall) : Prop := e = ERollbackOk \/ e = ERollbackFail.

Lemma fan_commit_after_error : forall cs bufs e0, length bufs = length cs ->
  fan_commit (Some e0) cs bufs = (map rb_call cs, Some e0).
Proof.
  induction cs as [|c cs IH]; intros [|b bufs] e0 HL; simpl in *; try discriminate; auto.
  rewrite IH by lia. reflexivity.
Qed.

(* Commit returns nil exactly when every appender committed, and then every buffer is stored *)
Lemma fan_commit_nil : forall cs bufs ends, length bufs = length cs ->
  fan_commit None cs bufs = (ends, None) ->
  ends = map (fun b => (b, ECommitOk)) bufs /\ Forall (fun c => ac_commit c = false) cs.
Proof.
  induction cs as [|c cs IH]; intros [|b bufs] ends HL; simpl in *; try discriminate.
  - intros [= <-]. auto.
  - destruct (ac_commit c) eqn:E.
    + rewrite fan_commit_after_error by lia. intros [= _ ?]. 
    + destruct (fan_commit None cs bufs) as [r e] eqn:F. intros [= <- ->].
      destruct (IH bufs r) as [-> H]; auto.
Qed.

(* the first failing Commit: everything before committed, everything after is rolled back and
   stores nothing; the error returned is the one of that Commit *)
Lemma fan_commit_error : forall cs bufs ends e, length bufs = length cs ->
  fan_commit None cs bufs = (ends, Some e) ->
  exists pre c post,
    cs = pre ++ c :: post /\ Forall (fun c => ac_commit c = false) pre /\ ac_commit c = true /\
    e = e_commit c /\
    ends = map (fun b => (b, ECommitOk)) (firstn (length pre) bufs) ++ ([], ECommitFail) :: map rb_call post.
Proof.
  induction cs as [|c cs IH]; intros [|b bufs] ends e HL; simpl in *; try discriminate.
  destruct (ac_commit c) eqn:E.
  - rewrite fan_commit_after_error by lia. intros [= <- <-].
    exists [], c, cs. simpl. auto.
  - destruct (fan_commit None cs bufs) as [r e'] eqn:F. intros [= <- ->].
    destruct (IH bufs r e) as (pre & c' & post & -> & P1 & P2 & P3 & P4); auto.
    exists (c :: pre), c', post. simpl. rewrite P4. repeat split; auto.
Qed.

(* if the primary's commit fails no secondary commits *)
Lemma fan_commit_primary_fails : forall p secs bp bs, ac_commit p = true -> length bs = length secs ->
  fan_commit None (p :: secs) (bp :: bs) = (([], ECommitFail) :: map rb_call secs, Some (e_commit p)).
Proof.
  intros p secs bp bs H HL. simpl. rewrite H. rewrite fan_commit_after_error by auto. reflexivity.
Qed.

Lemma fan_rollback_calls : forall cs err, exists e, fan_rollback err cs = (map rb_call cs, e).
Proof.
  induction cs as [|c cs IH]; intros err; simpl; eauto.
  match goal with |- context [fan_rollback ?e cs] => destruct (IH e) as (e' & ->) end.
  eauto.
Qed.

(* ------------------------------------------------------------------ appender: Append *)
Definition grows (old new : list entry) : Prop := exists d, new = old ++ d.

Lemma grows_refl : forall l, grows l l.
Proof. intros l; exists []; rewrite app_nil_r; auto. Qed.
Lemma grows_trans : forall a b c, grows a b -> grows b c -> grows a c.
Proof. intros a b c [d1 ->] [d2 ->]. exists (d1 ++ d2). rewrite app_assoc. auto. Qed.

Lemma app_secs_spec : forall i x ref cs bufs bufs' e, length bufs = length cs ->
  app_secs i x ref cs bufs = (bufs', e) ->
  length bufs' = length bufs /\ Forall2 grows bufs bufs' /\
  (e = None -> Forall2 (fun old new => new = old ++ [(x, ref)]) bufs bufs').
Proof.
  induction cs as [|c cs IH]; intros [|b bufs] bufs' e HL; simpl in *; try discriminate.
  - intros [= <- <-]. auto.
  - destruct (mem_nat i (ac_fail c)).
    + intros [= <- <-]. repeat split; auto; try discriminate.
      constructor; [apply grows_refl|]. clear. induction bufs; constructor; auto using grows_refl.
    + destruct (app_secs i x ref cs bufs) as [br e'] eqn:F. intros [= <- <-].
      destruct (IH bufs br e') as (A & B & C); auto.
      repeat split; [simpl; lia | constructor; auto; eexists; eauto | intros ->; constructor; auto].
Qed.

(* an Append that returns nil has put the sample at the end of every appender's buffer; any
   Append only extends buffers *)
Lemma fan_append_spec : forall v2 p secs i x bufs bufs' ref e,
  length bufs = S (length secs) ->
  fan_append v2 p secs i x bufs = (bufs', (ref, e)) ->
  length bufs' = length bufs /\ Forall2 grows bufs bufs' /\
  (e = None -> Forall (fun new => exists r, In (x, r) new) bufs').
Proof.
  intros v2 p secs i x [|bp bs] bufs' ref e HL; simpl in HL; [discriminate|]. injection HL as HL.
  unfold fan_append. destruct (mem_nat i (ac_fail p)).
  - intros [= <- <- <-]. repeat split; try discriminate.
    clear. induction (bp :: bs); constructor; auto using grows_refl.
  - destruct (app_secs i x (prim_ref x) secs bs) as [bs' e'] eqn:F.
    destruct (app_secs_spec _ _ _ _ _ _ _ HL F) as (A & B & C).
    intros [= <- E]. repeat split; [simpl; lia | constructor; auto; eexists; eauto |].
    intros ->. destruct e'; [discriminate|]. specialize (C eq_refl).
    constructor. { exists 0. apply in_or_app. right. simpl. auto. }
    clear -C. induction C as [|o n ? ? H]; constructor; auto.
    subst n. exists (prim_ref x). apply in_or_app. right. simpl. auto.
Qed.

Lemma Forall_grows : forall (P : list entry -> Prop) a b,
  (forall o n, grows o n -> P o -> P n) -> Forall2 grows a b -> Forall P a -> Forall P b.
Proof.
  intros P a b M H. induction H; intros F; inversion F; subst; constructor; eauto.
Qed.

Lemma Forall2_grows_trans : forall a b c, Forall2 grows a b -> Forall2 grows b c -> Forall2 grows a c.
Proof.
  intros a b c H. revert c. induction H; intros c' H2; inversion H2; subst; constructor; eauto using grows_trans.
Qed.

Lemma Forall2_grows_refl : forall a, Forall2 grows a a.
Proof. induction a; constructor; auto using grows_refl. Qed.

Lemma fan_appends_spec : forall v2 p secs xs i bufs bufs' ress,
  length bufs = S (length secs) ->
  fan_appends v2 p secs i xs bufs = (bufs', ress) ->
  length bufs' = length bufs /\ Forall2 grows bufs bufs' /\ length ress = length xs /\
  forall k x ref, nth_error xs k = Some x -> nth_error ress k = Some (ref, None) ->
                  Forall (fun new => exists r, In (x, r) new) bufs'.
Proof.
  induction xs as [|x xs IH]; intros i bufs bufs' ress HL; simpl.
  - intros [= <- <-]. repeat split; auto using Forall2_grows_refl. intros [|k]; discriminate.
  - destruct (fan_append v2 p secs i x bufs) as [bufs1 [ref1 e1]] eqn:F1.
    destruct (fan_appends v2 p secs (S i) xs bufs1) as [bufs2 ress2] eqn:F2.
    intros [= <- <-].
    destruct (fan_append_spec _ _ _ _ _ _ _ _ _ HL F1) as (A1 & B1 & C1).
    destruct (IH (S i) bufs1 bufs2 ress2) as (A2 & B2 & L2 & C2); [lia|auto|].
    repeat split; [lia | eauto using Forall2_grows_trans | simpl; lia |].
    intros [|k] x' ref; simpl.
    + intros [= <-] [= -> ->].
      apply (Forall_grows _ bufs1 bufs2); auto.
      intros o n [d ->] [r I]. exists r. apply in_or_app. auto.
    + apply C2.
Qed.

Definition store_step (sd : list entry * (list entry * endcall)) : list entry := fst sd ++ fst (snd sd).

Lemma stores_unchanged : forall stores ends, length ends = length stores ->
  Forall (fun en => fst en = []) ends -> map store_step (combine stores ends) = stores.
Proof.
  induction stores as [|s stores IH]; intros [|en ends] HL HF; simpl in *; try discriminate; auto.
  inversion HF as [|? ? H1 H2]; subst. unfold store_step at 1. simpl. rewrite H1, app_nil_r, IH; auto.
Qed.

Lemma stores_grow : forall stores ends, length ends = length stores ->
  Forall2 grows stores (map store_step (combine stores ends)).
Proof.
  induction stores as [|s stores IH]; intros [|en ends] HL; simpl in *; try discriminate; constructor; auto.
  eexists; reflexivity.
Qed.

Lemma stores_committed : forall (Q : list entry -> Prop) stores bufs, length bufs = length stores ->
  Forall Q bufs ->
  Forall2 (fun old new => exists d, new = old ++ d /\ Q d) stores
          (map store_step (combine stores (map (fun b => (b, ECommitOk)) bufs))).
Proof.
  induction stores as [|s stores IH]; intros [|b bufs] HL HF; simpl in *; try discriminate; constructor.
  - inversion HF; subst. eexists; split; [reflexivity|auto].
  - inversion HF; subst. apply IH; auto.
Qed.

Lemma map_rb_fst : forall cs, Forall (fun en : list entry * endcall => fst en = []) (map rb_call cs).
Proof. induction cs; simpl; constructor; auto. Qed.

Lemma map_rb_calls : forall cs, Forall is_rollback (map snd (map rb_call cs)).
Proof.
  induction cs as [|c cs IH]; simpl; constructor; auto.
  unfold is_rollback. destruct (ac_rollback c); auto.
Qed.

(* one appender session from ANY state of the stores (hence every state reachable by a history
   of sessions) *)
Theorem session_spec : forall stores s stores' res,
  length stores = S (length (ss_secs s)) ->
  run_session stores s = (stores', res) ->
  length stores' = length stores /\ sr_stores res = stores' /\ Forall2 grows stores stores' /\
  length (sr_appends res) = length (ss_samples s) /\
  (* a committed append reaches the primary and every secondary *)
  (ss_commit s = true -> sr_end res = None ->
     Forall (fun c => c = ECommitOk) (sr_calls res) /\
     forall k x ref, nth_error (ss_samples s) k = Some x ->
                     nth_error (sr_appends res) k = Some (ref, None) ->
       Forall2 (fun old new => exists d, new = old ++ d /\ exists r, In (x, r) d) stores stores') /\
  (* Commit fails whenever some appender's commit fails, ... *)
  (ss_commit s = true -> forall e, sr_end res = Some e ->
     exists pre c post, ss_prim s :: ss_secs s = pre ++ c :: post /\ ac_commit c = true /\ e = e_commit c /\
       Forall (fun c => ac_commit c = false) pre /\
       map Some (sr_calls res) = map (fun _ => Some ECommitOk) pre ++ Some ECommitFail :: map (fun c => Some (snd (rb_call c))) post) /\
  (* ... and if the primary's commit fails no secondary commits: all are rolled back, nothing is stored *)
  (ss_commit s = true -> ac_commit (ss_prim s) = true ->
     sr_end res = Some (e_commit (ss_prim s)) /\ stores' = stores /\
     exists calls, sr_calls res = ECommitFail :: calls /\ Forall is_rollback calls) /\
  (* Rollback rolls everyone back *)
  (ss_commit s = false -> stores' = stores /\ Forall is_rollback (sr_calls res)).
Proof.
  intros stores s stores' res HL. unfold run_session.
  set (cs := ss_prim s :: ss_secs s).
  destruct (fan_appends (ss_v2 s) (ss_prim s) (ss_secs s) 0 (ss_samples s) (map (fun _ => []) cs)) as [bufs ares] eqn:FA.
  assert (length (map (fun _ : appcfg => @nil entry) cs) = S (length (ss_secs s))) as L0 by (rewrite map_length; reflexivity).
  destruct (fan_appends_spec _ _ _ _ _ _ _ _ L0 FA) as (A1 & A2 & A3 & A4).
  rewrite L0 in A1.
  assert (length bufs = length cs) as LB by (simpl; lia).
  destruct (ss_commit s) eqn:SC.
  - destruct (fan_commit None cs bufs) as [ends e] eqn:FC.
    fold store_step. intros [= <- <-]. cbn [sr_stores sr_end sr_calls sr_appends].
    assert (length ends = length stores) as LE.
    { destruct e as [e|].
      - destruct (fan_commit_error _ _ _ _ LB FC) as (pre & c & post & E1 & _ & _ & _ & ->).
        rewrite app_length. simpl. rewrite !map_length, firstn_length.
        assert (length cs = length pre + S (length post))%nat by (rewrite E1, app_length; reflexivity).
        simpl in *. lia.
      - destruct (fan_commit_nil _ _ _ LB FC) as [-> _]. rewrite map_length. simpl in *. lia. }
    split; [rewrite map_length, combine_length; lia|].
    split; [reflexivity|].
    split; [apply stores_grow; auto|].
    split; [auto|].
    split; [|split; [|split; [|discriminate]]].
    + intros _ ->. destruct (fan_commit_nil _ _ _ LB FC) as [-> _]. split.
      * rewrite map_map. simpl. clear. induction bufs; simpl; constructor; auto.
      * intros k x ref Hx Hr. apply stores_committed; [simpl in *; lia|]. eapply A4; eauto.
    + intros _ e0 ->. destruct (fan_commit_error _ _ _ _ LB FC) as (pre & c & post & E1 & P1 & P2 & P3 & ->).
      exists pre, c, post. split; [auto|]. split; [auto|]. split; [auto|]. split; [auto|].
      rewrite !map_app. cbn [map]. rewrite !map_map. cbn [snd]. f_equal.
      assert (length pre <= length bufs)%nat as H.
      { rewrite LB, E1, app_length. lia. }
      clear -H. revert bufs H. induction pre; intros [|b bufs] H; simpl in *; auto; try lia.
      f_equal. apply IHpre. lia.
    + intros _ PF. unfold cs in FC. destruct bufs as [|bp bs]; [simpl in LB; discriminate|].
      rewrite fan_commit_primary_fails in FC by (auto; simpl in LB; lia). injection FC as <- <-.
      split; [reflexivity|]. split.
      * apply stores_unchanged; auto. constructor; auto. apply map_rb_fst.
      * cbn [map snd]. eexists; split; [reflexivity|]. apply map_rb_calls.
  - destruct (fan_rollback_calls cs None) as (e & FR). rewrite FR.
    fold store_step. intros [= <- <-]. cbn [sr_stores sr_end sr_calls sr_appends].
    assert (map store_step (combine stores (map rb_call cs)) = stores) as U.
    { apply stores_unchanged; [rewrite map_length; simpl; lia | apply map_rb_fst]. }
    change (map rb_call cs) with (rb_call (ss_prim s) :: map rb_call (ss_secs s)) in U. rewrite U.
    split; [auto|]. split; [auto|]. split; [apply Forall2_grows_refl|]. split; [auto|].
    split; [discriminate|]. split; [discriminate|]. split; [discriminate|].
    intros _. split; [auto|apply (map_rb_calls cs)].
Qed.

(* every session of every history is a run_session step from stores of the right shape, so
   session_spec applies to all of them *)
Lemma history_spec : forall n ss stores,
  length stores = n -> Forall (fun s => S (length (ss_secs s)) = n) ss ->
  Forall2 (fun s res => exists st st', length st = n /\ run_session st s = (st', res))
          ss (run_sessions stores ss).
Proof.
  intros n. induction ss as [|s ss IH]; intros stores HL HF; simpl; [constructor|].
  inversion HF as [|? ? H1 H2]; subst.
  destruct (run_session stores s) as [st res] eqn:R.
  constructor; [eauto|].
  apply IH; auto.
  destruct (session_spec _ _ _ _ (eq_sym H1) R) as (L & _). lia.
Qed.

(* ------------------------------------------------------------------ the two refuted stages *)
Definition wit_prim : qcfg :=
  QOk [mkSet [mkSer 0 [(0, 0); (10, 10)]; mkSer 3 [(20, 3020)]] None []] (mkLbl [0; 4] None []) (mkLbl [0; 1] None []).
Definition wit_sec_late : qcfg :=
  QOk [mkSet [mkSer 1 [(0, 1000); (30, 1030)]; mkSer 3 [(10, 3010); (20, 3020)]; mkSer 5 [(40, 5040)]]
             (Some (1%nat, 2101)) []] (mkLbl [1; 4] None []) (mkLbl [0; 1] None []).

(* a secondary failing at its second Next: the query fails with the secondary's error, the
   series it yielded before stays in the result, no warning *)
Lemma late_failure_refuted :
  exists p secs nsel currs rs lv ln cl r,
    wf nsel p /\ Forall (wf nsel) secs /\ creatable p /\ Forall creatable secs /\
    (forall a c, set_at p a = Some c -> final_err c = None) /\       (* the primary fails nowhere *)
    (exists sels l1 l2 c, In (QOk sels l1 l2) secs /\ In c sels /\ late_failure c) /\
    query p secs nsel currs = ROk rs lv ln cl /\ nth_error rs 0 = Some r /\
    r_errs r = [2101] /\ r_warns r = [] /\ In (mkSer 1 [(0, 1000); (30, 1030)]) (r_series r).
Proof.
  exists wit_prim, [wit_sec_late], 1%nat, [0%nat].
  eexists; eexists; eexists; eexists; eexists.
  split; [reflexivity|]. split; [repeat constructor|]. split; [exact I|]. split; [repeat constructor|].
  split.
  { intros [|[|a]] c; simpl; intros [= <-]; reflexivity. }
  split.
  { do 4 eexists. split; [left; reflexivity|]. split; [left; reflexivity|].
    exists 2101. split; reflexivity. }
  split; [vm_compute; reflexivity|]. split; [reflexivity|].
  split; [reflexivity|]. split; [reflexivity|]. simpl. auto.
Qed.

(* a secondary whose Querier() call fails: fanout.Querier fails *)
Lemma create_refuted :
  exists p secs nsel currs e cl,
    wf nsel p /\ creatable p /\ In (QCreateFail e) secs /\
    query p secs nsel currs = RCreateFail e cl.
Proof.
  exists wit_prim, [QNoop; QCreateFail 3001], 1%nat, [], 3001. eexists.
  split; [reflexivity|]. split; [exact I|]. split; [simpl; auto|]. vm_compute. reflexivity.
Qed.

(* non-vacuity of query_partial: a fanout with a failing (first Next) and a healthy secondary *)
Definition wit_sec_first : qcfg :=
  QOk [mkSet [mkSer 1 [(0, 1000)]; mkSer 3 [(10, 3010)]] (Some (0%nat, 2101)) [2102]]
      (mkLbl [1; 4] (Some 2051) []) (mkLbl [0; 1] None []).
Definition wit_sec_ok : qcfg :=
  QOk [mkSet [mkSer 3 [(10, 3010); (30, 3030)]; mkSer 7 [(50, 7050)]] None []]
      (mkLbl [2] None []) (mkLbl [0; 1] None []).

Lemma query_partial_nonvacuous :
  wf 1 wit_prim /\ Forall (wf 1) [wit_sec_first; QNoop; wit_sec_ok] /\ creatable wit_prim /\
  Forall creatable [wit_sec_first; QNoop; wit_sec_ok] /\ Forall no_late [wit_sec_first; QNoop; wit_sec_ok] /\
  sec_failed wit_sec_first = true /\
  exists lv ln cl,
  query wit_prim [wit_sec_first; QNoop; wit_sec_ok] 1 [0%nat; 0%nat] =
    ROk [mkSelRes [mkSer 0 [(0, 0); (10, 10)]; mkSer 3 [(10, 3010); (20, 3020); (30, 3030)]; mkSer 7 [(50, 7050)]]
                  [] [2102; 2101]] lv ln cl.
Proof.
  split; [reflexivity|]. split; [repeat constructor|]. split; [exact I|]. split; [repeat constructor|].
  split.
  { repeat constructor. intros e. vm_compute. auto. intros e. vm_compute. discriminate. }
  split; [reflexivity|]. do 3 eexists. vm_compute. reflexivity.
Qed.

(* ------------------------------------------------------------------ the failed secondary is reported *)
Lemma all_some_nth : forall A (l : list (option A)) es j o,
  all_some l = Some es -> nth_error l j = Some o -> exists s, o = Some s /\ nth_error es j = Some s.
Proof.
  induction l as [|[x|] l IH]; intros es j o; simpl; try discriminate.
  - intros _. destruct j; discriminate.
  - destruct (all_some l) as [r|] eqn:E; [|discriminate]. intros [= <-].
    destruct j as [|j]; simpl.
    + intros [= <-]. eauto.
    + intros H. apply (IH r j o); auto.
Qed.

(* the error of a failed secondary (failed at Select / at a first Next) is among the warnings
   of the set that triggered its Once, unless the primary failed at the first Next there *)
Lemma warn_reported : forall p secs currs j sels lv ln cu e ws r,
  nth_error (combine (live_secs secs) currs) j = Some (QOk sels lv ln, cu) ->
  find_first_fail sels = Some (e, ws) ->
  select_res p (combine (live_secs secs) currs) cu = Some r ->
  (forall pc, set_at p cu = Some pc -> first_fail pc = None) ->
  In e (r_warns r).
Proof.
  intros p secs currs j sels lv ln cu e ws r Hj FF SR HP.
  destruct (combine (live_secs secs) currs) as [|x l] eqn:EC; [destruct j; discriminate|].
  assert (forall es, all_some (map (fun sc : qcfg * nat => sec_eff_at (sels_of (fst sc)) (snd sc) cu) (x :: l)) = Some es ->
                     In e (flat_map e_warns es)) as HE.
  { intros es A.
    destruct (all_some_nth _ _ es j _ A (map_nth_error _ _ _ Hj)) as (s & S1 & S2).
    cbn [fst snd sels_of] in S1. unfold sec_eff_at in S1. rewrite FF in S1.
    destruct (nth_error sels cu); [|discriminate]. rewrite Nat.eqb_refl in S1. injection S1 as <-.
    apply in_flat_map. exists (EWarn (ws ++ [e])). split; [eapply nth_error_In; eauto|].
    simpl. apply in_or_app. simpl. auto. }
  unfold select_res in SR.
  destruct (all_some (map (fun sc : qcfg * nat => sec_eff_at (sels_of (fst sc)) (snd sc) cu) (x :: l))) as [es|] eqn:A.
  2:{ destruct p; discriminate. }
  specialize (HE es eq_refl).
  destruct p as [|e0|ps plv pln].
  - injection SR as <-. unfold merged_res. cbn [r_warns app]. auto.
  - injection SR as <-. unfold merged_res. cbn [r_warns app]. auto.
  - destruct (nth_error ps cu) as [pc|] eqn:EP; [|discriminate]. cbn [option_map] in SR. injection SR as <-.
    unfold merged_res. rewrite (HP pc) by (simpl; auto). cbn [r_warns]. apply in_or_app. auto.
Qed.

(* ------------------------------------------------------------------ label queries through the fanout *)
Definition lbl_of (sel : qcfg -> option lblcfg) (q : qcfg) : lblcfg :=
  match sel q with Some l => l | None => mkLbl [] None [] end.

Lemma first_err_secs : forall ls, first_err (map lq_sec ls) = None.
Proof. induction ls as [|l ls IH]; simpl; auto. unfold lq_sec at 1. destruct (l_fail l); auto. Qed.

Lemma label_res_as_merge : forall sel p secs ls, label_selector sel ->
  all_some (map sel (live_secs secs)) = Some ls ->
  let qs := opt_list (option_map lq_raw (sel p)) ++ map lq_sec ls in
  exists r r0, label_res sel p (live_secs secs) = Some r /\
               merge_results (S (length qs)) qs = Some r0 /\
               snd r = snd r0 /\ (snd r0 = None -> r = r0).
Proof.
  intros sel p secs ls HS A qs.
  destruct (merge_results_spec (S (length qs)) qs) as (r0 & R0 & _); [lia|].
  unfold label_res. subst qs.
  destruct (sel p) as [pl|]; destruct (live_secs secs) as [|s [|s2 ss]].
  - cbn [map all_some] in A. injection A as <-. cbn in R0. injection R0 as <-. exists (lq_raw pl), (lq_raw pl). cbn. auto.
  - rewrite A. unfold merged_label. cbn [option_map opt_list app] in R0 |- *. rewrite R0.
    destruct r0 as [[v w] [e|]]; eexists; eexists; (split; [reflexivity|]); (split; [reflexivity|]); cbn; (split; [reflexivity|]); auto; discriminate.
  - rewrite A. unfold merged_label. cbn [option_map opt_list app] in R0 |- *. rewrite R0.
    destruct r0 as [[v w] [e|]]; eexists; eexists; (split; [reflexivity|]); (split; [reflexivity|]); cbn; (split; [reflexivity|]); auto; discriminate.
  - cbn [map all_some] in A. injection A as <-. cbn in R0. injection R0 as <-. exists ([], [], None), ([], [], None). cbn. auto.
  - cbn [map all_some] in A. destruct (sel s) as [l|]; [|discriminate]. injection A as <-. cbn in R0. injection R0 as <-.
    exists (lq_sec l), (lq_sec l). cbn. auto.
  - rewrite A. unfold merged_label. cbn [option_map opt_list app] in R0 |- *. rewrite R0.
    destruct r0 as [[v w] [e|]]; eexists; eexists; (split; [reflexivity|]); (split; [reflexivity|]); cbn; (split; [reflexivity|]); auto; discriminate.
Qed.

Theorem label_res_spec : forall sel p secs, label_selector sel ->
  exists r, label_res sel p (live_secs secs) = Some r /\
    match l_fail (lbl_of sel p) with
    | Some e => snd r = Some e                         (* the primary fails: the call fails *)
    | None =>
        snd r = None
        /\ (forall v, In v (lvals r) <->
                      In v (l_vals (lbl_of sel p)) \/
                      exists s l, In s secs /\ sel s = Some l /\ l_fail l = None /\ In v (l_vals l))
        /\ (forall s l e, In s secs -> sel s = Some l -> l_fail l = Some e -> In e (lwarns r))
        /\ (forall w, In w (l_warns (lbl_of sel p)) -> In w (lwarns r))
    end.
Proof.
  intros sel p secs HS.
  destruct (all_some_live sel secs HS) as (ls & A & B).
  destruct (label_res_as_merge sel p secs ls HS A) as (r & r0 & R & R0 & E1 & E2).
  exists r. split; auto.
  set (qs := opt_list (option_map lq_raw (sel p)) ++ map lq_sec ls) in *.
  destruct (merge_results_spec (S (length qs)) qs) as (r0' & R0' & SP); [lia|].
  rewrite R0 in R0'. injection R0' as <-.
  unfold qs in SP. rewrite first_err_app, first_err_secs in SP.
  unfold lbl_of. destruct (sel p) as [pl|] eqn:SELP; cbn [option_map opt_list first_err l_fail] in SP |- *.
  - unfold lq_raw in SP at 1. destruct (l_fail pl) as [e|] eqn:PF; cbn [first_err] in SP.
    + congruence.
    + destruct SP as (S0 & SV & SW). rewrite (E2 S0). split; [auto|]. split; [|split].
      * intros v. rewrite SV. split.
        -- intros (q & [<-|I] & J).
           ++ unfold lq_raw in J. rewrite PF in J. left. exact J.
           ++ apply in_map_iff in I as (l & <- & I). apply B in I as (s & I1 & I2).
              unfold lq_sec, lvals in J. destruct (l_fail l) eqn:LF; simpl in J; [tauto|].
              right. exists s, l. auto.
        -- intros [I|(s & l & I1 & I2 & I3 & I4)].
           ++ exists (lq_raw pl). split; [left; auto|]. unfold lq_raw. rewrite PF. exact I.
           ++ exists (lq_sec l). split.
              ** right. apply in_map. apply B. eauto.
              ** unfold lq_sec. rewrite I3. exact I4.
      * intros s l e I1 I2 I3. apply SW. exists (lq_sec l). split.
        -- right. apply in_map. apply B. eauto.
        -- unfold lq_sec, lwarns. rewrite I3. simpl. apply in_or_app. simpl. auto.
      * intros w I. apply SW. exists (lq_raw pl). split; [left; auto|].
        unfold lq_raw. rewrite PF. exact I.
  - destruct SP as (S0 & SV & SW). rewrite (E2 S0). split; [auto|]. split; [|split].
    + intros v. rewrite SV. split.
      * intros (q & I & J). cbn [app] in I.
        apply in_map_iff in I as (l & <- & I). apply B in I as (s & I1 & I2).
        unfold lq_sec, lvals in J. destruct (l_fail l) eqn:LF; simpl in J; [tauto|].
        right. exists s, l. auto.
      * intros [[]|(s & l & I1 & I2 & I3 & I4)].
        exists (lq_sec l). split.
        -- cbn [app]. apply in_map. apply B. eauto.
        -- unfold lq_sec. rewrite I3. exact I4.
    + intros s l e I1 I2 I3. apply SW. exists (lq_sec l). split.
      * cbn [app]. apply in_map. apply B. eauto.
      * unfold lq_sec, lwarns. rewrite I3. simpl. apply in_or_app. simpl. auto.
    + intros w [].
Qed.

(* proof/ExpoProofs.v — proofs about model/Expo.v (C35). *)
From Coq Require Import List NArith ZArith Bool Lia.
From Verif Require Import model.Expo.
Import ListNotations.
Open Scope N_scope.

Ltac bsimp :=
  repeat (rewrite ?orb_true_iff, ?andb_true_iff, ?orb_false_iff, ?andb_false_iff, ?negb_true_iff,
          ?negb_false_iff, ?N.leb_le, ?N.leb_gt, ?N.eqb_eq, ?N.eqb_neq, ?N.ltb_lt, ?N.ltb_ge in * ).
Ltac cls := unfold is_valchar, is_omval, not_nl, is_mchar, is_mstart, is_lchar, is_alpha, is_digit, is_ws in *.
Ltac blia := cls; bsimp; lia.

(* ------------------------------------------------------------------ generic list facts *)
Lemma take_while_app_stop : forall p a c rest,
  forallb p a = true -> p c = false -> take_while p (a ++ c :: rest) = a.
Proof.
  induction a as [|x a IH]; intros c rest Ha Hc; simpl in *.
  - now rewrite Hc.
  - apply andb_true_iff in Ha as [Hx Ha]. rewrite Hx. f_equal. now apply IH.
Qed.

Lemma forallb_imp : forall (p q : N -> bool) l, (forall c, p c = true -> q c = true) -> forallb p l = true -> forallb q l = true.
Proof.
  induction l as [|x l IH]; intros Hpq H; simpl in *; auto.
  apply andb_true_iff in H as [Hx Hl]. rewrite (Hpq _ Hx). simpl. auto.
Qed.

Lemma bstr_eqb_refl : forall s, bstr_eqb s s = true.
Proof. induction s; simpl; auto. now rewrite N.eqb_refl. Qed.

Lemma bstr_eqb_eq : forall a b, bstr_eqb a b = true -> a = b.
Proof.
  induction a as [|x a IH]; destruct b as [|y b]; simpl; intros H; try discriminate; auto.
  apply andb_true_iff in H as [H1 H2]. apply N.eqb_eq in H1. subst. f_equal. auto.
Qed.

Lemma strip_ends_quoted : forall s, strip_ends (34 :: s ++ [34]) = s.
Proof.
  intros s. unfold strip_ends, drop_last. simpl tl.
  rewrite app_length. simpl length. replace (length s + 1 - 1)%nat with (length s) by lia.
  rewrite firstn_app. rewrite Nat.sub_diag. simpl. rewrite firstn_all. apply app_nil_r.
Qed.

Lemma last_app1 : forall (s : bstr) x d, last (s ++ [x]) d = x.
Proof. induction s as [|y s IH]; intros; simpl; auto. destruct (s ++ [x]) eqn:E; [destruct s; discriminate|]. rewrite <- E. apply IH. Qed.

(* ------------------------------------------------------------------ escaping *)
Definition clean (c : N) : bool := negb (c =? 0).            (* no NUL *)
Definition plain (c : N) : bool := negb (c =? 0) && negb (c =? 34) && negb (c =? 92) && negb (c =? 10).

Lemma unreplace_escape_true : forall s, unreplace true (escape true s) = s.
Proof.
  induction s as [|c s IH]; simpl; auto. unfold esc_char.
  destruct (c =? 92) eqn:E1; [apply N.eqb_eq in E1; subst; simpl; now rewrite IH|].
  destruct (c =? 10) eqn:E2; [apply N.eqb_eq in E2; subst; simpl; now rewrite IH|].
  simpl. destruct (c =? 34) eqn:E3; [apply N.eqb_eq in E3; subst; simpl; now rewrite IH|].
  simpl. rewrite E1. now rewrite IH.
Qed.

Lemma unreplace_escape_false : forall s, unreplace false (escape false s) = s.
Proof.
  induction s as [|c s IH]; simpl; auto. unfold esc_char.
  destruct (c =? 92) eqn:E1; [apply N.eqb_eq in E1; subst; simpl; now rewrite IH|].
  destruct (c =? 10) eqn:E2; [apply N.eqb_eq in E2; subst; simpl; now rewrite IH|].
  simpl. rewrite E1. now rewrite IH.
Qed.

Lemma unreplace_plain : forall q s, forallb (fun c => negb (c =? 92)) s = true -> unreplace q s = s.
Proof.
  induction s as [|c s IH]; simpl; auto. intros H. apply andb_true_iff in H as [H1 H2].
  apply negb_true_iff in H1. rewrite H1. now rewrite IH.
Qed.

Lemma escape_plain : forall q s, forallb plain s = true -> escape q s = s.
Proof.
  induction s as [|c s IH]; simpl; auto. intros H. apply andb_true_iff in H as [H1 H2].
  unfold esc_char. unfold plain in H1. bsimp. destruct H1 as [[[H0 H34] H92] H10].
  apply N.eqb_neq in H92, H10, H34. rewrite H92, H10, H34. rewrite andb_false_r. simpl. now rewrite IH.
Qed.

(* the quoted-string automaton accepts an escaped string up to its closing quote *)
Lemma qscan_escape : forall s rest, forallb clean s = true ->
  qscan true (escape true s ++ 34 :: rest) = Some (escape true s ++ [34]).
Proof.
  induction s as [|c s IH]; intros rest H; simpl in *; auto.
  apply andb_true_iff in H as [Hc Hs]. unfold clean in Hc. apply negb_true_iff in Hc.
  unfold esc_char.
  destruct (c =? 92) eqn:E1.
  { apply N.eqb_eq in E1; subst. simpl. rewrite (IH rest Hs). reflexivity. }
  destruct (c =? 10) eqn:E2.
  { apply N.eqb_eq in E2; subst. simpl. rewrite (IH rest Hs). reflexivity. }
  simpl. destruct (c =? 34) eqn:E3.
  { apply N.eqb_eq in E3; subst. simpl. rewrite (IH rest Hs). reflexivity. }
  simpl. rewrite E3, E1, Hc. simpl. rewrite (IH rest Hs). reflexivity.
Qed.

Lemma escape_not_nl : forall q s, forallb clean s = true -> forallb not_nl (escape q s) = true.
Proof.
  induction s as [|c s IH]; simpl; auto. intros H. apply andb_true_iff in H as [Hc Hs].
  rewrite forallb_app. rewrite (IH Hs), andb_true_r. unfold esc_char, clean in *.
  destruct (c =? 92) eqn:E1; [reflexivity|]. destruct (c =? 10) eqn:E2; [reflexivity|].
  destruct (q && (c =? 34)); [reflexivity|]. simpl. unfold not_nl. rewrite E2, Hc. reflexivity.
Qed.

(* ------------------------------------------------------------------ utf8 *)
Lemma utf8_ascii : forall s, forallb (fun c => c <? 128) s = true -> utf8_valid s = true.
Proof.
  induction s as [|c s IH]; simpl; auto. intros H. apply andb_true_iff in H as [H1 H2]. rewrite H1. auto.
Qed.

(* ------------------------------------------------------------------ token stream *)
Section TokStream.
Variable lex : lstate -> bstr -> token * bstr * lstate.

Lemma toks_skip : forall w st rest, toks lex (length w) st (w ++ rest) = toks lex 0 st rest.
Proof. induction w; intros; simpl; auto. Qed.

Lemma toks_step : forall st txt rest t st',
  txt <> [] -> lex st (txt ++ rest) = (t, txt, st') -> is_stop t = false ->
  toks lex 0 st (txt ++ rest) = (t, txt) :: toks lex 0 st' rest.
Proof.
  intros st txt rest t st' Hne Hlex Hstop.
  destruct txt as [|c w]; [congruence|].
  change (toks lex 0 st ((c :: w) ++ rest)) with
    (let '(t0, txt0, st1) := lex st ((c :: w) ++ rest) in
     if is_stop t0 then [(t0, txt0)]
     else match length txt0 with
          | S k => (t0, txt0) :: toks lex k st1 (w ++ rest)
          | O => let '(t2, txt2, st2) := lex st1 ((c :: w) ++ rest) in
                 if is_stop t2 then [(t0, txt0); (t2, txt2)]
                 else match length txt2 with
                      | S k2 => (t0, txt0) :: (t2, txt2) :: toks lex k2 st2 (w ++ rest)
                      | O => [(t0, txt0); (tModelErr, [])]
                      end
          end).
  rewrite Hlex, Hstop. cbv iota beta. change (length (c :: w)) with (S (length w)). cbv iota beta. now rewrite toks_skip.
Qed.

(* an empty token (only the empty HELP text) followed by the next, non-empty one *)
Lemma toks_step0 : forall st c r t st1 t2 txt2 st2 rest,
  c :: r = txt2 ++ rest -> txt2 <> [] ->
  lex st (c :: r) = (t, [], st1) -> is_stop t = false ->
  lex st1 (c :: r) = (t2, txt2, st2) -> is_stop t2 = false ->
  toks lex 0 st (c :: r) = (t, []) :: (t2, txt2) :: toks lex 0 st2 rest.
Proof.
  intros st c r t st1 t2 txt2 st2 rest Heq Hne H1 Hs1 H2 Hs2.
  simpl. rewrite H1, Hs1. simpl. rewrite H2, Hs2.
  destruct txt2 as [|c2 w2]; [congruence|]. simpl in Heq. injection Heq as -> ->.
  change (length (c2 :: w2)) with (S (length w2)). cbv iota beta. now rewrite toks_skip.
Qed.
End TokStream.

(* ------------------------------------------------------------------ text lexer on printed tokens *)
Definition ftoks (st : lstate) (b : bstr) : list tok := filter not_ws_tok (toks lex_prom' 0 st b).

Lemma ftoks_tok : forall st txt rest t st',
  txt <> [] -> lex_prom' st (txt ++ rest) = (t, txt, st') -> is_stop t = false -> not_ws_tok (t, txt) = true ->
  ftoks st (txt ++ rest) = (t, txt) :: ftoks st' rest.
Proof.
  intros. unfold ftoks. rewrite (toks_step lex_prom' st txt rest t st'); auto. simpl filter. now rewrite H2.
Qed.

Lemma ftoks_ws : forall st txt rest st',
  txt <> [] -> lex_prom' st (txt ++ rest) = (tWhitespace, txt, st') -> ftoks st (txt ++ rest) = ftoks st' rest.
Proof.
  intros. unfold ftoks. rewrite (toks_step lex_prom' st txt rest tWhitespace st'); auto.
Qed.

Lemma lex_prom'_other : forall st b, st <> sMeta2 -> lex_prom' st b = lex_prom st b.
Proof. intros st b H. destruct st; try reflexivity. congruence. Qed.

Definition legacy_l (s : bstr) : bool :=
  match s with c :: r => is_alpha c && forallb is_lchar r | [] => false end.

Lemma ft_mname : forall nm x rest, is_legacy_name nm = true -> is_mchar x = false ->
  ftoks sInit (nm ++ x :: rest) = (tMName, nm) :: ftoks sValue (x :: rest).
Proof.
  intros nm x rest Hn Hx. destruct nm as [|c r]; [discriminate|]. simpl in Hn.
  apply andb_true_iff in Hn as [Hc Hr].
  apply ftoks_tok; try reflexivity; try discriminate.
  rewrite lex_prom'_other by discriminate. simpl.
  assert (is_ws c = false) as -> by blia.
  assert (c =? 0 = false) as -> by blia. assert (c =? 10 = false) as -> by blia.
  assert (c =? 35 = false) as -> by blia. rewrite Hc.
  now rewrite take_while_app_stop.
Qed.

Lemma ft_mname_meta : forall nm rest, is_legacy_name nm = true ->
  ftoks sMeta1 (nm ++ 32 :: rest) = (tMName, nm) :: ftoks sMeta2 (32 :: rest).
Proof.
  intros nm rest Hn. destruct nm as [|c r]; [discriminate|]. simpl in Hn.
  apply andb_true_iff in Hn as [Hc Hr].
  apply ftoks_tok; try reflexivity; try discriminate.
  rewrite lex_prom'_other by discriminate. simpl.
  assert (is_ws c = false) as -> by blia.
  assert (c =? 34 = false) as -> by blia. rewrite Hc.
  now rewrite take_while_app_stop.
Qed.

Lemma ft_lname : forall ln rest, legacy_l ln = true ->
  ftoks sLabels (ln ++ 61 :: rest) = (tLName, ln) :: ftoks sLabels (61 :: rest).
Proof.
  intros ln rest Hn. destruct ln as [|c r]; [discriminate|]. simpl in Hn.
  apply andb_true_iff in Hn as [Hc Hr].
  apply ftoks_tok; try reflexivity; try discriminate.
  rewrite lex_prom'_other by discriminate. simpl.
  assert (is_ws c = false) as -> by blia.
  assert (c =? 34 = false) as -> by blia. assert (c =? 44 = false) as -> by blia.
  assert (c =? 61 = false) as -> by blia. assert (c =? 125 = false) as -> by blia. rewrite Hc.
  now rewrite take_while_app_stop.
Qed.

Definition quoted (s : bstr) : bstr := 34 :: escape true s ++ [34].
Arguments quoted : simpl never.

Lemma strip_ends_q : forall s, strip_ends (quoted s) = escape true s.
Proof. intros. unfold quoted. apply strip_ends_quoted. Qed.

Lemma quoted_app : forall s rest, quoted s ++ rest = 34 :: escape true s ++ 34 :: rest.
Proof. intros. unfold quoted. simpl. now rewrite <- app_assoc. Qed.

Lemma ft_quoted : forall st t st' s rest, forallb clean s = true ->
  (st = sLabels /\ t = tQString /\ st' = sLabels) \/ (st = sLValue /\ t = tLValue /\ st' = sLabels) \/
  (st = sMeta1 /\ t = tMName /\ st' = sMeta2) ->
  ftoks st (quoted s ++ rest) = (t, quoted s) :: ftoks st' rest.
Proof.
  intros st t st' s rest Hs Hcase.
  apply ftoks_tok; try discriminate.
  - rewrite quoted_app.
    destruct Hcase as [(-> & -> & ->)|[(-> & -> & ->)|(-> & -> & ->)]];
      (rewrite lex_prom'_other by discriminate); simpl; rewrite qscan_escape by assumption; reflexivity.
  - destruct Hcase as [(-> & -> & ->)|[(-> & -> & ->)|(-> & -> & ->)]]; reflexivity.
  - destruct Hcase as [(-> & -> & ->)|[(-> & -> & ->)|(-> & -> & ->)]]; reflexivity.
Qed.

Lemma ft_char : forall st c t st' rest,
  lex_prom' st (c :: rest) = (t, [c], st') -> is_stop t = false -> not_ws_tok (t, [c]) = true ->
  ftoks st (c :: rest) = (t, [c]) :: ftoks st' rest.
Proof. intros. change (c :: rest) with ([c] ++ rest). apply ftoks_tok; auto. discriminate. Qed.

Lemma ft_open_v : forall rest, ftoks sValue (123 :: rest) = (tBraceOpen, [123]) :: ftoks sLabels rest.
Proof. intros. now apply ft_char. Qed.
Lemma ft_open_i : forall rest, ftoks sInit (123 :: rest) = (tBraceOpen, [123]) :: ftoks sLabels rest.
Proof. intros. now apply ft_char. Qed.
Lemma ft_equal : forall rest, ftoks sLabels (61 :: rest) = (tEqual, [61]) :: ftoks sLValue rest.
Proof. intros. now apply ft_char. Qed.
Lemma ft_comma : forall rest, ftoks sLabels (44 :: rest) = (tComma, [44]) :: ftoks sLabels rest.
Proof. intros. now apply ft_char. Qed.
Lemma ft_close : forall rest, ftoks sLabels (125 :: rest) = (tBraceClose, [125]) :: ftoks sValue rest.
Proof. intros. now apply ft_char. Qed.
Lemma ft_lb_ts : forall rest, ftoks sTimestamp (10 :: rest) = (tLinebreak, [10]) :: ftoks sInit rest.
Proof. intros. now apply ft_char. Qed.
Lemma ft_lb_init : forall rest, ftoks sInit (10 :: rest) = (tLinebreak, [10]) :: ftoks sInit rest.
Proof. intros. now apply ft_char. Qed.

(* a blank followed by a non-blank: one whitespace token *)
Lemma ft_space : forall st c rest, st <> sMeta2 -> is_ws c = false ->
  ftoks st (32 :: c :: rest) = ftoks st (c :: rest).
Proof.
  intros st c rest Hst Hc. change (32 :: c :: rest) with ([32] ++ c :: rest).
  apply ftoks_ws; [discriminate|]. rewrite lex_prom'_other by assumption.
  simpl. now rewrite Hc.
Qed.

Lemma ft_value : forall v x rest, v <> [] -> forallb is_valchar v = true -> is_valchar x = false ->
  ftoks sValue (32 :: v ++ x :: rest) = (tValue, v) :: ftoks sTimestamp (x :: rest).
Proof.
  intros v x rest Hne Hv Hx. destruct v as [|c r]; [congruence|]. simpl in Hv.
  apply andb_true_iff in Hv as [Hc Hr].
  simpl app. rewrite ft_space; [|discriminate|blia].
  change (c :: r ++ x :: rest) with ((c :: r) ++ x :: rest).
  apply ftoks_tok; try reflexivity; try discriminate.
  rewrite lex_prom'_other by discriminate. simpl.
  assert (is_ws c = false) as -> by blia. assert (c =? 123 = false) as -> by blia. rewrite Hc.
  now rewrite take_while_app_stop.
Qed.

Lemma ft_ts : forall d rest, d <> [] -> forallb is_digit d = true ->
  ftoks sTimestamp (32 :: d ++ 10 :: rest) = (tTimestamp, d) :: ftoks sTimestamp (10 :: rest).
Proof.
  intros d rest Hne Hd. destruct d as [|c r]; [congruence|]. simpl in Hd.
  apply andb_true_iff in Hd as [Hc Hr].
  simpl app. rewrite ft_space; [|discriminate|blia].
  change (c :: r ++ 10 :: rest) with ((c :: r) ++ 10 :: rest).
  apply ftoks_tok; try reflexivity; try discriminate.
  rewrite lex_prom'_other by discriminate. simpl.
  assert (is_ws c = false) as -> by blia. assert (c =? 10 = false) as -> by blia. rewrite Hc.
  now rewrite take_while_app_stop.
Qed.

(* "# HELP " / "# TYPE " before a name *)
Lemma ft_help : forall c rest, is_ws c = false ->
  ftoks sInit (hash_sp ++ s_HELP ++ 32 :: c :: rest) = (tHelp, hash_sp ++ s_HELP ++ [32]) :: ftoks sMeta1 (c :: rest).
Proof.
  intros c rest Hc.
  change (hash_sp ++ s_HELP ++ 32 :: c :: rest) with ((hash_sp ++ s_HELP ++ [32]) ++ c :: rest).
  apply ftoks_tok; try reflexivity; try discriminate.
  rewrite lex_prom'_other by discriminate. cbn. now rewrite Hc.
Qed.
Lemma ft_type : forall c rest, is_ws c = false ->
  ftoks sInit (hash_sp ++ s_TYPE ++ 32 :: c :: rest) = (tType, hash_sp ++ s_TYPE ++ [32]) :: ftoks sMeta1 (c :: rest).
Proof.
  intros c rest Hc.
  change (hash_sp ++ s_TYPE ++ 32 :: c :: rest) with ((hash_sp ++ s_TYPE ++ [32]) ++ c :: rest).
  apply ftoks_tok; try reflexivity; try discriminate.
  rewrite lex_prom'_other by discriminate. cbn. now rewrite Hc.
Qed.

Lemma skipn_app_length : forall (w x : bstr), skipn (length w) (w ++ x) = x.
Proof. induction w; simpl; auto. Qed.

Lemma nonws_split : forall body, existsb (fun c => negb (is_ws c)) body = true ->
  exists p d t, body = p ++ d :: t /\ forallb is_ws p = true /\ is_ws d = false.
Proof.
  induction body as [|c body IH]; simpl; [discriminate|]. intros H.
  destruct (is_ws c) eqn:E.
  - simpl in H. destruct (IH H) as (p & d & t & -> & Hp & Hd). exists (c :: p), d, t. simpl. rewrite E. auto.
  - exists [], c, body. auto.
Qed.

(* the text of a HELP/TYPE line: a blank, then text with a non-blank character, up to the newline *)
Lemma ft_text : forall body rest, forallb not_nl body = true -> existsb (fun c => negb (is_ws c)) body = true ->
  ftoks sMeta2 (32 :: body ++ 10 :: rest) = (tText, 32 :: body) :: ftoks sInit (10 :: rest).
Proof.
  intros body rest Hnl Hex.
  change (32 :: body ++ 10 :: rest) with ((32 :: body) ++ 10 :: rest).
  apply ftoks_tok; try reflexivity; try discriminate.
  destruct (nonws_split body Hex) as (p & d & t & Hb & Hp & Hd).
  assert (Hd2 : not_nl d = true).
  { rewrite Hb in Hnl. rewrite forallb_app in Hnl. apply andb_true_iff in Hnl as [_ Hnl]. simpl in Hnl.
    now apply andb_true_iff in Hnl as [Hnl _]. }
  unfold lex_prom'. change (is_ws 32) with true. cbv iota.
  assert (Hw : take_while is_ws ((32 :: body) ++ 10 :: rest) = 32 :: p).
  { rewrite Hb. change ((32 :: p ++ d :: t) ++ 10 :: rest) with (32 :: (p ++ d :: t) ++ 10 :: rest).
    rewrite <- app_assoc. simpl. f_equal. now apply take_while_app_stop. }
  rewrite Hw.
  assert (Hs : skipn (length (32 :: p)) ((32 :: body) ++ 10 :: rest) = d :: t ++ 10 :: rest).
  { rewrite Hb. change ((32 :: p ++ d :: t) ++ 10 :: rest) with (32 :: (p ++ d :: t) ++ 10 :: rest).
    rewrite <- app_assoc. change (32 :: p ++ (d :: t) ++ 10 :: rest) with ((32 :: p) ++ (d :: t ++ 10 :: rest)).
    apply skipn_app_length. }
  rewrite Hs, Hd2.
  change ((32 :: body) ++ 10 :: rest) with (32 :: body ++ 10 :: rest).
  simpl take_while. change (not_nl 32) with true. cbv iota.
  rewrite take_while_app_stop; auto.
Qed.

(* ------------------------------------------------------------------ label items: bytes, tokens, parse *)
Definition lname_ok (ln : bstr) : Prop :=
  if is_legacy_name ln then legacy_l ln = true else forallb clean ln = true.
Definition item_ok (j : lp) : Prop :=
  lname_ok (fst j) /\ forallb clean (snd j) = true /\ utf8_valid (quoted (snd j)) = true.

Definition name_tok (ln : bstr) : tok := if is_legacy_name ln then (tLName, ln) else (tQString, quoted ln).
Definition item_toks (j : lp) : list tok := [name_tok (fst j); (tEqual, [61]); (tLValue, quoted (snd j))].
Definition raw (j : lp) : lp := (escape true (fst j), escape true (snd j)).
Definition comma_items (r : list lp) : list tok := flat_map (fun j => (tComma, [44]) :: item_toks j) r.

Lemma write_name_quoted : forall s, is_legacy_name s = false -> write_name s = quoted s.
Proof. intros s H. unfold write_name. now rewrite H. Qed.

Lemma pair_item_app : forall j X, pair_item j ++ X = write_name (fst j) ++ 61 :: quoted (snd j) ++ X.
Proof. intros [ln lv] X. unfold pair_item, quoted. simpl. repeat rewrite <- app_assoc. simpl. repeat rewrite <- app_assoc. reflexivity. Qed.

Lemma ft_item : forall j X, item_ok j -> ftoks sLabels (pair_item j ++ X) = item_toks j ++ ftoks sLabels X.
Proof.
  intros [ln lv] X (Hn & Hv & _). rewrite pair_item_app. unfold item_toks, name_tok, lname_ok in *. simpl fst in *. simpl snd in *.
  unfold write_name. destruct (is_legacy_name ln) eqn:E.
  - rewrite ft_lname by assumption. rewrite ft_equal. rewrite (ft_quoted sLValue tLValue sLabels) by auto. reflexivity.
  - fold (quoted ln). rewrite (ft_quoted sLabels tQString sLabels) by auto. rewrite ft_equal.
    rewrite (ft_quoted sLValue tLValue sLabels) by auto. reflexivity.
Qed.

Lemma ft_tail_items : forall r rest, Forall item_ok r ->
  ftoks sLabels (join_items 44 (map pair_item r) ++ 125 :: rest) =
  comma_items r ++ (tBraceClose, [125]) :: ftoks sValue rest.
Proof.
  induction r as [|j r IH]; intros rest H; simpl.
  - apply ft_close.
  - inversion H as [|? ? Hj Hr]; subst. rewrite ft_comma. rewrite <- app_assoc. rewrite ft_item by assumption.
    rewrite IH by assumption. unfold item_toks. simpl. reflexivity.
Qed.

Lemma legacy_l_plain : forall s, legacy_l s = true -> forallb plain s = true.
Proof.
  intros [|c r] H; [discriminate|]. simpl in H. apply andb_true_iff in H as [Hc Hr]. simpl.
  apply andb_true_iff; split.
  - unfold plain. blia.
  - eapply forallb_imp; [|exact Hr]. intros x Hx. unfold plain. blia.
Qed.

Lemma legacy_name_plain : forall s, is_legacy_name s = true -> forallb plain s = true.
Proof.
  intros [|c r] H; [discriminate|]. simpl in H. apply andb_true_iff in H as [Hc Hr]. simpl.
  apply andb_true_iff; split.
  - unfold plain. blia.
  - eapply forallb_imp; [|exact Hr]. intros x Hx. unfold plain. blia.
Qed.

Lemma tok_is_refl_false_eq : tok_is tComma (tEqual, [61]) = false /\ tok_is tBraceClose (tEqual, [61]) = false.
Proof. split; reflexivity. Qed.

Lemma raw_of_item : forall ln lv, lname_ok ln ->
  ((if is_legacy_name ln then ln else strip_ends (quoted ln)), strip_ends (quoted lv)) = raw (ln, lv).
Proof.
  intros ln lv Hn. unfold raw, lname_ok in *. simpl. rewrite !strip_ends_q.
  destruct (is_legacy_name ln); auto. rewrite (escape_plain true ln) by now apply legacy_l_plain. reflexivity.
Qed.

Lemma parse_lvals_item_comma : forall j nm acc x T, item_ok j ->
  parse_lvals false false nm acc (item_toks j ++ (tComma, x) :: T) = parse_lvals false false nm (raw j :: acc) T.
Proof.
  intros [ln lv] nm acc x T (Hn & Hv & Hu). simpl fst in *. simpl snd in *.
  assert (Hu' : utf8_valid (escape true lv ++ [34]) = true) by exact Hu.
  rewrite <- (raw_of_item ln lv Hn).
  change (item_toks (ln, lv)) with [name_tok ln; (tEqual, [61]); (tLValue, quoted lv)].
  unfold name_tok. destruct (is_legacy_name ln); simpl; rewrite Hu'; reflexivity.
Qed.

Lemma parse_lvals_item_close : forall j nm acc c R, item_ok j ->
  parse_lvals false false nm acc (item_toks j ++ (tBraceClose, c) :: R) = LVOk nm (rev (raw j :: acc)) R.
Proof.
  intros [ln lv] nm acc c R (Hn & Hv & Hu). simpl fst in *. simpl snd in *.
  assert (Hu' : utf8_valid (escape true lv ++ [34]) = true) by exact Hu.
  rewrite <- (raw_of_item ln lv Hn).
  change (item_toks (ln, lv)) with [name_tok ln; (tEqual, [61]); (tLValue, quoted lv)].
  unfold name_tok. destruct (is_legacy_name ln); simpl; rewrite Hu'; reflexivity.
Qed.

(* parse of one item followed by further comma-separated items and the closing brace *)
Lemma parse_lvals_items : forall r j nm acc c R, item_ok j -> Forall item_ok r ->
  parse_lvals false false nm acc (item_toks j ++ comma_items r ++ (tBraceClose, c) :: R) =
  LVOk nm (rev acc ++ raw j :: map raw r) R.
Proof.
  induction r as [|j' r IH]; intros j nm acc c R Hj Hr.
  - simpl comma_items. simpl app at 2. rewrite parse_lvals_item_close by assumption. reflexivity.
  - inversion Hr as [|? ? Hj' Hr']; subst.
    change (item_toks j ++ comma_items (j' :: r) ++ (tBraceClose, c) :: R)
      with (item_toks j ++ (tComma, [44]) :: (item_toks j' ++ comma_items r ++ (tBraceClose, c) :: R)).
    rewrite parse_lvals_item_comma by assumption.
    rewrite IH by assumption. simpl. rewrite <- app_assoc. reflexivity.
Qed.

(* ------------------------------------------------------------------ name and labels of a sample line *)
Definition head_toks (nm : bstr) (its : list lp) : list tok :=
  let body := match its with
              | [] => []
              | i :: r => item_toks i ++ comma_items r
              end in
  if is_legacy_name nm then
    match its with
    | [] => [(tMName, nm)]
    | _ => (tMName, nm) :: (tBraceOpen, [123]) :: body ++ [(tBraceClose, [125])]
    end
  else
    match its with
    | [] => [(tBraceOpen, [123]); (tQString, quoted nm); (tBraceClose, [125])]
    | _ => (tBraceOpen, [123]) :: (tQString, quoted nm) :: (tComma, [44]) :: body ++ [(tBraceClose, [125])]
    end.

Definition name_ok (nm : bstr) : Prop := nm <> [] /\ forallb clean nm = true.

Opaque quoted.
Lemma ft_head : forall nm ls extra its X,
  name_ok nm -> map pair_item ls ++ extra = map pair_item its -> Forall item_ok its ->
  ftoks sInit (name_and_labels nm ls extra ++ 32 :: X) = head_toks nm its ++ ftoks sValue (32 :: X).
Proof.
  intros nm ls extra its X [Hne Hcl] Hits Hok.
  unfold name_and_labels, head_toks. rewrite Hits.
  assert (Hnil : is_nil nm = false) by (destruct nm; [congruence|reflexivity]). rewrite Hnil.
  destruct (is_legacy_name nm) eqn:E; simpl negb; cbv iota.
  - unfold write_name. rewrite E. destruct its as [|i r]; simpl map; simpl is_nil; cbv iota.
    + rewrite app_nil_r. now apply ft_mname.
    + inversion Hok as [|? ? Hi Hr]; subst.
      simpl join_items. repeat rewrite <- app_assoc. simpl app.
      rewrite ft_mname by auto. rewrite ft_open_v. repeat rewrite <- app_assoc.
      rewrite ft_item by assumption. rewrite ft_tail_items by assumption.
      repeat rewrite <- app_assoc. reflexivity.
  - rewrite write_name_quoted by assumption. destruct its as [|i r]; simpl map; simpl is_nil; cbv iota.
    + simpl app. rewrite ft_open_i. rewrite <- app_assoc. rewrite (ft_quoted sLabels tQString sLabels) by auto.
      simpl app. rewrite ft_close. reflexivity.
    + inversion Hok as [|? ? Hi Hr]; subst.
      simpl join_items. simpl app. rewrite ft_open_i. repeat rewrite <- app_assoc.
      rewrite (ft_quoted sLabels tQString sLabels) by auto. simpl app. rewrite ft_comma.
      repeat rewrite <- app_assoc.
      rewrite ft_item by assumption. change ([125] ++ 32 :: X) with (125 :: 32 :: X).
      rewrite ft_tail_items by assumption.
      repeat rewrite <- app_assoc. reflexivity.
Qed.

Transparent quoted.

Definition rawname (nm : bstr) : bstr := if is_legacy_name nm then nm else escape true nm.

Section LineParse.
Variable O : oracles.
Variable tu : bool.

Lemma prom_line_head : forall tc nm its v R0, Forall item_ok its ->
  prom_line O tu tc (head_toks nm its ++ (tValue, v) :: R0) =
  prom_series O tu tc (Some (rawname nm)) (map raw its) ((tValue, v) :: R0).
Proof.
  intros tc nm its v R0 Hok. remember ((tValue, v) :: R0) as R eqn:HR. unfold head_toks, rawname.
  destruct (is_legacy_name nm) eqn:E; destruct its as [|i r].
  - subst R. reflexivity.
  - inversion Hok as [|? ? Hi Hr]; subst R.
    change (((tMName, nm) :: (tBraceOpen, [123]) :: (item_toks i ++ comma_items r) ++ [(tBraceClose, [125])]) ++ (tValue, v) :: R0)
      with ((tMName, nm) :: (tBraceOpen, [123]) :: ((item_toks i ++ comma_items r) ++ [(tBraceClose, [125])]) ++ (tValue, v) :: R0).
    repeat rewrite <- app_assoc.
    change ([(tBraceClose, [125])] ++ (tValue, v) :: R0) with ((tBraceClose, [125]) :: (tValue, v) :: R0).
    unfold prom_line. rewrite parse_lvals_items by assumption. reflexivity.
  - subst R. simpl. rewrite strip_ends_q. reflexivity.
  - inversion Hok as [|? ? Hi Hr]; subst R.
    change (((tBraceOpen, [123]) :: (tQString, quoted nm) :: (tComma, [44]) :: (item_toks i ++ comma_items r) ++ [(tBraceClose, [125])]) ++ (tValue, v) :: R0)
      with ((tBraceOpen, [123]) :: (tQString, quoted nm) :: (tComma, [44]) :: ((item_toks i ++ comma_items r) ++ [(tBraceClose, [125])]) ++ (tValue, v) :: R0).
    repeat rewrite <- app_assoc.
    change ([(tBraceClose, [125])] ++ (tValue, v) :: R0) with ((tBraceClose, [125]) :: (tValue, v) :: R0).
    unfold prom_line.
    change (parse_lvals false false None [] ((tQString, quoted nm) :: (tComma, [44]) :: item_toks i ++ comma_items r ++ (tBraceClose, [125]) :: (tValue, v) :: R0))
      with (parse_lvals false false (Some (strip_ends (quoted nm))) [] (item_toks i ++ comma_items r ++ (tBraceClose, [125]) :: (tValue, v) :: R0)).
    rewrite parse_lvals_items by assumption. rewrite strip_ends_q. reflexivity.
Qed.
End LineParse.

(* ------------------------------------------------------------------ oracle assumptions *)
(* the characters strconv.FormatFloat(_, 'g', -1, 64) and the NaN/Inf spellings consist of *)
Definition is_fchar (c : N) : bool :=
  is_digit c || (c =? 43) || (c =? 45) || (c =? 46) || (c =? 101) || (c =? 78) || (c =? 97) ||
  (c =? 73) || (c =? 110) || (c =? 102).

Record oracle_ok (O : oracles) : Prop := {
  ok_shape : forall f, o_ftext O f <> [] /\ forallb is_fchar (o_ftext O f) = true;
  ok_parse : forall f, exists b, o_pfloat O (o_ftext O f) = Some b /\ canon_nan b = canon_txt f;
  ok_norm : forall f, o_norm O (o_ftext O f) = Some (o_fom O f);
  ok_int : forall z, (0 <= z)%Z ->
           o_fint O z <> [] /\ forallb is_digit (o_fint O z) = true /\ o_pint O (o_fint O z) = Some z }.

Lemma fchar_facts : forall c, is_fchar c = true ->
  is_valchar c = true /\ plain c = true /\ (c <? 128) = true /\
  ((c =? 112) || (c =? 80) || (c =? 95)) = false.
Proof. intros c H. unfold is_fchar, plain in *. repeat split; blia. Qed.

Lemma forallb_fchar : forall s, forallb is_fchar s = true ->
  forallb is_valchar s = true /\ forallb plain s = true /\ forallb (fun c => c <? 128) s = true /\
  existsb (fun c => (c =? 112) || (c =? 80) || (c =? 95)) s = false.
Proof.
  induction s as [|c s IH]; simpl; intros H; [auto|].
  apply andb_true_iff in H as [Hc Hs]. destruct (fchar_facts c Hc) as (A & B & C & D).
  destruct (IH Hs) as (A' & B' & C' & D'). rewrite A, B, C, D, A', B', C', D'. auto.
Qed.

Lemma plain_clean : forall s, forallb plain s = true -> forallb clean s = true.
Proof. intros s. apply forallb_imp. intros c H. unfold plain, clean in *. blia. Qed.

Lemma quoted_plain_ascii_utf8 : forall s, forallb plain s = true -> forallb (fun c => c <? 128) s = true ->
  utf8_valid (quoted s) = true.
Proof.
  intros s Hp Ha. unfold quoted. rewrite (escape_plain true s Hp). apply utf8_ascii.
  simpl. rewrite forallb_app, Ha. reflexivity.
Qed.

(* ------------------------------------------------------------------ lines *)
Definition lines_of (b : bstr) : list (list tok) := split_after (tok_is tLinebreak) [] (ftoks sInit b).
Definition nolb (t : tok) : bool := negb (tok_is tLinebreak t).

Lemma split_after_line : forall body cur T, forallb nolb body = true ->
  split_after (tok_is tLinebreak) cur (body ++ (tLinebreak, [10]) :: T) =
  (rev cur ++ body ++ [(tLinebreak, [10])]) :: split_after (tok_is tLinebreak) [] T.
Proof.
  induction body as [|t body IH]; intros cur T H.
  - reflexivity.
  - cbn [forallb] in H. apply andb_true_iff in H as [Ht Hb]. unfold nolb in Ht. apply negb_true_iff in Ht.
    cbn [app split_after]. rewrite Ht.
    rewrite IH by assumption. cbn [rev]. rewrite <- app_assoc. reflexivity.
Qed.

Section TextProofs.
Variable O : oracles.
Variable tu : bool.
Hypothesis HO : oracle_ok O.

Definition Lfun := fun (tc : N) (_ : bstr) (l : list tok) => prom_line O tu tc l.

Definition parses (tc : N) (b : bstr) (es : list entry) (tc' : N) : Prop :=
  forall rest, run_lines Lfun tc [] (lines_of (b ++ rest)) =
               (es ++ fst (run_lines Lfun tc' [] (lines_of rest)), snd (run_lines Lfun tc' [] (lines_of rest))).

Lemma parses_nil : forall tc, parses tc [] [] tc.
Proof. intros tc rest. simpl. now destruct (run_lines Lfun tc [] (lines_of rest)). Qed.

Lemma parses_app : forall tc b1 es1 tc1 b2 es2 tc2,
  parses tc b1 es1 tc1 -> parses tc1 b2 es2 tc2 -> parses tc (b1 ++ b2) (es1 ++ es2) tc2.
Proof.
  intros tc b1 es1 tc1 b2 es2 tc2 H1 H2 rest. rewrite <- app_assoc. rewrite H1. rewrite H2. simpl.
  now rewrite <- app_assoc.
Qed.

Lemma parses_line : forall tc l body e tc',
  (forall rest, ftoks sInit (l ++ rest) = body ++ (tLinebreak, [10]) :: ftoks sInit rest) ->
  forallb nolb body = true ->
  prom_line O tu tc (body ++ [(tLinebreak, [10])]) = LEntry e tc' [] ->
  parses tc l [e] tc'.
Proof.
  intros tc l body e tc' Hl Hb Hp rest. unfold lines_of. rewrite Hl.
  rewrite split_after_line by assumption. simpl rev. simpl app at 1.
  simpl run_lines.
  change (Lfun tc [] (body ++ [(tLinebreak, [10])])) with (prom_line O tu tc (body ++ [(tLinebreak, [10])])).
  rewrite Hp.
  fold (lines_of rest). now destruct (run_lines Lfun tc' [] (lines_of rest)).
Qed.

(* ---- the value / timestamp part of a sample line *)
Definition ts_ok (ts : option Z) : Prop := match ts with Some t => (0 <= t)%Z | None => True end.
Definition ts_bytes (ts : option Z) : bstr := match ts with Some t => 32 :: o_fint O t | None => [] end.
Definition ts_toks (ts : option Z) : list tok := match ts with Some t => [(tTimestamp, o_fint O t)] | None => [] end.

Lemma ft_value_ts : forall f ts rest, ts_ok ts ->
  ftoks sValue (32 :: o_ftext O f ++ ts_bytes ts ++ 10 :: rest) =
  (tValue, o_ftext O f) :: ts_toks ts ++ (tLinebreak, [10]) :: ftoks sInit rest.
Proof.
  intros f ts rest Hts. destruct (ok_shape O HO f) as [Hne Hf].
  destruct (forallb_fchar _ Hf) as (Hv & _).
  destruct ts as [t|]; simpl ts_bytes; simpl ts_toks.
  - destruct (ok_int O HO t Hts) as (Hn & Hd & _).
    simpl app. rewrite ft_value by (auto; reflexivity).
    rewrite ft_ts by assumption. rewrite ft_lb_ts. reflexivity.
  - simpl app. rewrite ft_value by (auto; reflexivity). rewrite ft_lb_ts. reflexivity.
Qed.

Lemma prom_series_value : forall tc rn raws f ts, ts_ok ts ->
  prom_series O tu tc (Some rn) raws ((tValue, o_ftext O f) :: ts_toks ts ++ [(tLinebreak, [10])]) =
  LEntry (OS (parsed_labels O tu tc [] rn raws) (canon_txt f) ts [] 0%Z) tc [].
Proof.
  intros tc rn raws f ts Hts. destruct (ok_shape O HO f) as [Hne Hf].
  destruct (forallb_fchar _ Hf) as (_ & _ & _ & Hp).
  destruct (ok_parse O HO f) as (b & Hb & Hc).
  unfold prom_series, parse_float. rewrite Hp, Hb, Hc.
  destruct ts as [t|]; simpl.
  - destruct (ok_int O HO t Hts) as (_ & _ & Hi). rewrite Hi. reflexivity.
  - reflexivity.
Qed.

(* ---- no linebreak token inside a line *)
Lemma nolb_items : forall i r, forallb nolb (item_toks i ++ comma_items r) = true.
Proof.
  intros i r. rewrite forallb_app. apply andb_true_iff; split.
  - unfold item_toks, name_tok. destruct (is_legacy_name (fst i)); reflexivity.
  - induction r as [|j r IH]; simpl; auto. unfold name_tok. destruct (is_legacy_name (fst j)); simpl; auto.
Qed.

Lemma nolb_head : forall nm its, forallb nolb (head_toks nm its) = true.
Proof.
  intros nm its. unfold head_toks. destruct (is_legacy_name nm); destruct its as [|i r]; try reflexivity.
  - cbn [forallb]. rewrite forallb_app, nolb_items. reflexivity.
  - cbn [forallb]. rewrite forallb_app, nolb_items. reflexivity.
Qed.

Lemma sample_parses : forall tc nm ls extra its f ts,
  name_ok nm -> map pair_item ls ++ extra = map pair_item its -> Forall item_ok its -> ts_ok ts ->
  parses tc (name_and_labels nm ls extra ++ [32] ++ o_ftext O f ++ ts_bytes ts ++ [10])
         [OS (parsed_labels O tu tc [] (rawname nm) (map raw its)) (canon_txt f) ts [] 0%Z] tc.
Proof.
  intros tc nm ls extra its f ts Hn Hits Hok Hts.
  apply parses_line with (body := head_toks nm its ++ (tValue, o_ftext O f) :: ts_toks ts).
  - intros rest. repeat rewrite <- app_assoc. simpl app.
    rewrite (ft_head nm ls extra its) by assumption.
    rewrite ft_value_ts by assumption. repeat rewrite <- app_assoc. reflexivity.
  - rewrite forallb_app, nolb_head. destruct ts; reflexivity.
  - rewrite <- app_assoc. simpl app. rewrite prom_line_head by assumption.
    apply prom_series_value. assumption.
Qed.
End TextProofs.

(* ------------------------------------------------------------------ labels: parser vs spec *)
Definition user_label_ok (tc : N) (l : lp) : Prop :=
  ((tc =? 3) && bstr_eqb (fst l) s_quantile) || ((tc =? 4) && bstr_eqb (fst l) s_le) = false.

Definition ts_ok' := ts_ok.

Definition wf_metric (tc : N) (m : metric) : Prop :=
  Forall item_ok (m_labels m) /\ Forall (user_label_ok tc) (m_labels m) /\ ts_ok (m_ts m).
Definition fname_ok (n : bstr) : Prop := n <> [] /\ forallb plain n = true.
Definition help_ok (h : bstr) : Prop :=
  forallb clean h = true /\ existsb (fun c => negb (is_ws c)) h = true /\ utf8_valid (escape false h) = true.
Definition wf_family (f : family) : Prop :=
  fname_ok (f_name f) /\ match f_help f with Some h => help_ok h | None => True end /\
  Forall (wf_metric (text_tcode (f_type f))) (f_metrics f).

Lemma plain_no_bs : forall s, forallb plain s = true -> forallb (fun c => negb (c =? 92)) s = true.
Proof. intros s. apply forallb_imp. intros c H. unfold plain in H. blia. Qed.

Lemma unreplace_rawname : forall nm, unreplace true (rawname nm) = nm.
Proof.
  intros nm. unfold rawname. destruct (is_legacy_name nm) eqn:E.
  - apply unreplace_plain. apply plain_no_bs. now apply legacy_name_plain.
  - apply unreplace_escape_true.
Qed.

Lemma meta_name_write : forall n, fname_ok n -> meta_name (write_name n) = n.
Proof.
  intros n [Hne Hp]. unfold write_name. destruct (is_legacy_name n) eqn:E.
  - destruct n as [|c r]; [congruence|]. simpl in E. apply andb_true_iff in E as [Hc _].
    unfold meta_name. assert (c =? 34 = false) as -> by blia. reflexivity.
  - rewrite (escape_plain true n Hp). unfold meta_name.
    change (last (34 :: n ++ [34]) 0) with (last (34 :: (n ++ [34])) 0).
    assert (Hl : last (34 :: (n ++ [34])) 0 = 34).
    { change (34 :: (n ++ [34])) with ((34 :: n) ++ [34]). apply last_app1. }
    rewrite Hl. simpl. apply strip_ends_quoted.
Qed.

Section TextProofs2.
Variable O : oracles.
Variable tu : bool.
Hypothesis HO : oracle_ok O.

Definition lrel (tc : N) (p s : lp) : Prop := fst p = fst s /\ normalize_lv O tc (fst p) (snd p) = snd s.

Lemma parsed_eq : forall tc nm P S, Forall2 (lrel tc) P S ->
  parsed_labels O tu tc [] (rawname nm) (map raw P) = series_labels tu nm tc [] S.
Proof.
  intros tc nm P S H. unfold parsed_labels, series_labels. rewrite unreplace_rawname.
  f_equal. f_equal.
  induction H as [|p s P S [H1 H2] HF IH]; [reflexivity|].
  cbn [map flat_map filter]. rewrite IH. unfold raw. cbn [fst snd].
  rewrite !unreplace_escape_true. rewrite H2, H1.
  destruct tu; cbn [andb negb orb].
  - destruct (is_empty_for nm tc [] (fst s)); cbn [negb app]; [destruct s; reflexivity|reflexivity].
  - destruct s; reflexivity.
Qed.

Lemma lrel_user : forall tc l, Forall (user_label_ok tc) l -> Forall2 (lrel tc) l l.
Proof.
  intros tc l H. induction H as [|x l Hx Hl IH]; constructor; auto.
  split; auto. unfold normalize_lv. unfold user_label_ok in Hx. now rewrite Hx.
Qed.

Lemma series_parses : forall tc name suffix m exP exS f,
  name_ok (name ++ suffix) -> wf_metric tc m -> Forall item_ok exP -> Forall2 (lrel tc) exP exS ->
  parses O tu tc (text_sample O name suffix m (map pair_item exP) f)
         [mk_series tu name tc [] m suffix exS (canon_txt f) [] 0%Z] tc.
Proof.
  intros tc name suffix m exP exS f Hn (Hl & Hu & Hts) HeP HeS.
  unfold text_sample, mk_series.
  rewrite <- (parsed_eq tc (name ++ suffix) (m_labels m ++ exP) (m_labels m ++ exS))
    by (apply Forall2_app; [now apply lrel_user|assumption]).
  apply (sample_parses O tu HO tc (name ++ suffix) (m_labels m) (map pair_item exP) (m_labels m ++ exP) f (m_ts m)); auto.
  - now rewrite map_app.
  - apply Forall_app; auto.
Qed.

(* the le / quantile label written from a float *)
Lemma extra_item_pair : forall en x, is_legacy_name en = true ->
  extra_item en (o_ftext O x) = pair_item (en, o_ftext O x).
Proof.
  intros en x He. unfold extra_item, pair_item, write_name. cbn [fst snd]. rewrite He.
  destruct (ok_shape O HO x) as [_ Hf]. destruct (forallb_fchar _ Hf) as (_ & Hp & _).
  now rewrite (escape_plain true _ Hp).
Qed.

Lemma extra_item_ok : forall en x, is_legacy_name en = true -> legacy_l en = true -> item_ok (en, o_ftext O x).
Proof.
  intros en x He Hl. destruct (ok_shape O HO x) as [_ Hf]. destruct (forallb_fchar _ Hf) as (_ & Hp & Ha & _).
  unfold item_ok, lname_ok. cbn [fst snd]. rewrite He. repeat split; auto.
  - now apply plain_clean.
  - now apply quoted_plain_ascii_utf8.
Qed.

Lemma extra_rel : forall tc en x, (tc = 3 /\ en = s_quantile) \/ (tc = 4 /\ en = s_le) ->
  Forall2 (lrel tc) [(en, o_ftext O x)] [(en, o_fom O x)].
Proof.
  intros tc en x H. constructor; [|constructor]. split; auto. cbn [fst snd]. unfold normalize_lv.
  destruct H as [[-> ->]|[-> ->]]; cbn; now rewrite (ok_norm O HO x).
Qed.

Lemma name_ok_suffix : forall n suf, fname_ok n -> forallb clean suf = true -> name_ok (n ++ suf).
Proof.
  intros n suf [Hne Hp] Hs. split.
  - destruct n; [congruence|discriminate].
  - rewrite forallb_app, Hs, (plain_clean n Hp). reflexivity.
Qed.

(* ---- HELP and TYPE lines *)
Lemma write_name_head : forall n, fname_ok n -> exists c w, write_name n = c :: w /\ is_ws c = false.
Proof.
  intros n [Hne Hp]. unfold write_name. destruct (is_legacy_name n) eqn:E.
  - destruct n as [|c r]; [congruence|]. exists c, r. split; auto. simpl in E. apply andb_true_iff in E as [Hc _]. blia.
  - exists 34, (escape true n ++ [34]). split; reflexivity.
Qed.

Lemma ft_meta_name : forall n Y, fname_ok n ->
  ftoks sMeta1 (write_name n ++ 32 :: Y) = (tMName, write_name n) :: ftoks sMeta2 (32 :: Y).
Proof.
  intros n Y [Hne Hp]. unfold write_name. destruct (is_legacy_name n) eqn:E.
  - now apply ft_mname_meta.
  - fold (quoted n). apply (ft_quoted sMeta1 tMName sMeta2); auto. now apply plain_clean.
Qed.

Lemma existsb_nonws_escape : forall q h, existsb (fun c => negb (is_ws c)) h = true ->
  existsb (fun c => negb (is_ws c)) (escape q h) = true.
Proof.
  induction h as [|c h IH]; simpl; [discriminate|]. intros H. rewrite existsb_app.
  apply orb_true_iff in H as [H|H].
  - apply orb_true_iff; left. unfold esc_char.
    destruct (c =? 92); [reflexivity|]. destruct (c =? 10); [reflexivity|].
    destruct (q && (c =? 34)); [reflexivity|]. simpl. now rewrite H.
  - rewrite (IH H). apply orb_true_r.
Qed.

Lemma meta_line_parses : forall tc kw ktok n body e tc',
  fname_ok n ->
  (kw = s_HELP /\ ktok = tHelp) \/ (kw = s_TYPE /\ ktok = tType) ->
  forallb not_nl body = true -> existsb (fun c => negb (is_ws c)) body = true ->
  prom_line O tu tc [(ktok, hash_sp ++ kw ++ [32]); (tMName, write_name n); (tText, 32 :: body); (tLinebreak, [10])]
    = LEntry e tc' [] ->
  parses O tu tc (hash_sp ++ kw ++ [32] ++ write_name n ++ [32] ++ body ++ [10]) [e] tc'.
Proof.
  intros tc kw ktok n body e tc' Hn Hk Hb1 Hb2 Hp.
  apply parses_line with (body := [(ktok, hash_sp ++ kw ++ [32]); (tMName, write_name n); (tText, 32 :: body)]).
  - intros rest. destruct (write_name_head n Hn) as (c & w & Hw & Hc).
    repeat rewrite <- app_assoc.
    change ([32] ++ write_name n ++ [32] ++ body ++ [10] ++ rest) with (32 :: (write_name n ++ 32 :: body ++ 10 :: rest)).
    rewrite Hw at 1. cbn [app].
    destruct Hk as [[-> ->]|[-> ->]].
    + rewrite ft_help by assumption.
      change (c :: w ++ 32 :: body ++ 10 :: rest) with ((c :: w) ++ 32 :: body ++ 10 :: rest). rewrite <- Hw.
      rewrite ft_meta_name by assumption. rewrite ft_text by assumption. rewrite ft_lb_init. reflexivity.
    + rewrite ft_type by assumption.
      change (c :: w ++ 32 :: body ++ 10 :: rest) with ((c :: w) ++ 32 :: body ++ 10 :: rest). rewrite <- Hw.
      rewrite ft_meta_name by assumption. rewrite ft_text by assumption. rewrite ft_lb_init. reflexivity.
  - destruct Hk as [[-> ->]|[-> ->]]; reflexivity.
  - exact Hp.
Qed.
End TextProofs2.

(* ------------------------------------------------------------------ metrics, families, the round trip *)
Section TextProofs3.
Variable O : oracles.
Variable tu : bool.
Hypothesis HO : oracle_ok O.

Lemma help_line : forall tc n h, fname_ok n -> help_ok h ->
  parses O tu tc (hash_sp ++ s_HELP ++ [32] ++ write_name n ++ [32] ++ escape false h ++ [10]) [OH n h] tc.
Proof.
  intros tc n h Hn (Hc & Hw & Hu).
  apply (meta_line_parses O tu tc s_HELP tHelp); auto.
  - now apply escape_not_nl.
  - now apply existsb_nonws_escape.
  - unfold prom_line. cbn [tok_is fst tl]. rewrite Hu. cbn [ends_lb tok_is fst].
    rewrite meta_name_write by assumption. now rewrite unreplace_escape_false.
Qed.

Lemma type_line : forall tc n t, fname_ok n ->
  parses O tu tc (hash_sp ++ s_TYPE ++ [32] ++ write_name n ++ [32] ++ text_type_word t ++ [10])
         [OT n (text_tcode t)] (text_tcode t).
Proof.
  intros tc n t Hn.
  apply (meta_line_parses O tu tc s_TYPE tType); auto.
  - destruct t; reflexivity.
  - destruct t; reflexivity.
  - unfold prom_line. cbn [tok_is fst tl]. rewrite meta_name_write by assumption.
    destruct t; reflexivity.
Qed.

Lemma parses_flat_map : forall {A} tc (l : list A) (pb : A -> bstr) (pe : A -> entry),
  (forall a, In a l -> parses O tu tc (pb a) [pe a] tc) -> parses O tu tc (flat_map pb l) (map pe l) tc.
Proof.
  intros A tc l pb pe H. induction l as [|a l IH]; simpl.
  - apply parses_nil.
  - change (pe a :: map pe l) with ([pe a] ++ map pe l). eapply parses_app.
    + apply H. now left.
    + apply IH. intros b Hb. apply H. now right.
Qed.

Lemma le_legacy : is_legacy_name s_le = true /\ legacy_l s_le = true /\
                  is_legacy_name s_quantile = true /\ legacy_l s_quantile = true.
Proof. repeat split; reflexivity. Qed.

Lemma plain_line : forall tc n suffix m f, fname_ok n -> forallb clean suffix = true -> wf_metric tc m ->
  parses O tu tc (text_sample O n suffix m [] f) [mk_series tu n tc [] m suffix [] (canon_txt f) [] 0%Z] tc.
Proof.
  intros tc n suffix m f Hn Hs Hm.
  apply (series_parses O tu HO tc n suffix m [] [] f); auto.
  now apply name_ok_suffix.
Qed.

Lemma extra_line : forall tc n suffix m en x f, fname_ok n -> forallb clean suffix = true -> wf_metric tc m ->
  (tc = 3 /\ en = s_quantile) \/ (tc = 4 /\ en = s_le) ->
  parses O tu tc (text_sample O n suffix m [extra_item en (o_ftext O x)] f)
         [mk_series tu n tc [] m suffix [(en, o_fom O x)] (canon_txt f) [] 0%Z] tc.
Proof.
  intros tc n suffix m en x f Hn Hs Hm He.
  assert (Hl : is_legacy_name en = true /\ legacy_l en = true).
  { destruct He as [[_ ->]|[_ ->]]; split; reflexivity. }
  destruct Hl as [Hl1 Hl2].
  rewrite (extra_item_pair O HO en x Hl1).
  change [pair_item (en, o_ftext O x)] with (map pair_item [(en, o_ftext O x)]).
  apply (series_parses O tu HO tc n suffix m [(en, o_ftext O x)] [(en, o_fom O x)] f); auto.
  - now apply name_ok_suffix.
  - constructor; [|constructor]. now apply extra_item_ok.
  - now apply extra_rel.
Qed.

Lemma metric_parses : forall n t m, fname_ok n -> wf_metric (text_tcode t) m ->
  parses O tu (text_tcode t) (print_text_metric O n t m) (text_metric O tu n t m) (text_tcode t).
Proof.
  intros n t m Hn Hm.
  assert (Hsimple : parses O tu (text_tcode t) (text_sample O n [] m [] (m_val m))
                      [mk_series tu n (text_tcode t) [] m [] [] (canon_txt (m_val m)) [] 0%Z] (text_tcode t))
    by (apply plain_line; auto).
  assert (Hsum : parses O tu (text_tcode t) (text_sample O n s_sum m [] (m_sum m))
                      [mk_series tu n (text_tcode t) [] m s_sum [] (canon_txt (m_sum m)) [] 0%Z] (text_tcode t))
    by (apply plain_line; auto).
  assert (Hcnt : parses O tu (text_tcode t) (text_sample O n s_count m [] (o_u2f O (m_count m)))
                      [mk_series tu n (text_tcode t) [] m s_count [] (canon_txt (o_u2f O (m_count m))) [] 0%Z] (text_tcode t))
    by (apply plain_line; auto).
  assert (Htail : parses O tu (text_tcode t)
                    (text_sample O n s_sum m [] (m_sum m) ++ text_sample O n s_count m [] (o_u2f O (m_count m)))
                    ([mk_series tu n (text_tcode t) [] m s_sum [] (canon_txt (m_sum m)) [] 0%Z] ++
                     [mk_series tu n (text_tcode t) [] m s_count [] (canon_txt (o_u2f O (m_count m))) [] 0%Z])
                    (text_tcode t))
    by (eapply parses_app; eauto).
  destruct t; try exact Hsimple.
  - (* summary *)
    unfold print_text_metric, text_metric. eapply parses_app; [|exact Htail].
    apply (parses_flat_map 3 (m_q m)
             (fun q => text_sample O n [] m [extra_item s_quantile (o_ftext O (fst q))] (snd q))
             (fun q => mk_series tu n 3 [] m [] [(s_quantile, o_fom O (fst q))] (canon_txt (snd q)) [] 0%Z)).
    intros q _. apply extra_line; auto.
  - (* histogram *)
    unfold print_text_metric, text_metric. eapply parses_app.
    + apply (parses_flat_map 4 (m_b m)
             (fun b => text_sample O n s_bucket m [extra_item s_le (o_ftext O (bk_ub b))] (o_u2f O (bk_cnt b)))
             (fun b => mk_series tu n 4 [] m s_bucket [(s_le, o_fom O (bk_ub b))] (canon_txt (o_u2f O (bk_cnt b))) [] 0%Z)).
      intros b _. apply extra_line; auto.
    + eapply parses_app; [|exact Htail].
      destruct (has_inf_bucket (m_b m)); [apply parses_nil|]. apply extra_line; auto.
  - (* gauge histogram: written as histogram *)
    unfold print_text_metric, text_metric. eapply parses_app.
    + apply (parses_flat_map 4 (m_b m)
             (fun b => text_sample O n s_bucket m [extra_item s_le (o_ftext O (bk_ub b))] (o_u2f O (bk_cnt b)))
             (fun b => mk_series tu n 4 [] m s_bucket [(s_le, o_fom O (bk_ub b))] (canon_txt (o_u2f O (bk_cnt b))) [] 0%Z)).
      intros b _. apply extra_line; auto.
    + eapply parses_app; [|exact Htail].
      destruct (has_inf_bucket (m_b m)); [apply parses_nil|]. apply extra_line; auto.
Qed.

Lemma family_parses : forall tc f, wf_family f ->
  parses O tu tc (print_text_family O f) (text_family O tu f) (text_tcode (f_type f)).
Proof.
  intros tc f (Hn & Hh & Hm). unfold print_text_family, text_family.
  assert (Hms : parses O tu (text_tcode (f_type f)) (flat_map (print_text_metric O (f_name f) (f_type f)) (f_metrics f))
                  (flat_map (text_metric O tu (f_name f) (f_type f)) (f_metrics f)) (text_tcode (f_type f))).
  { induction Hm as [|m ms Hm1 Hms IH]; simpl; [apply parses_nil|].
    eapply parses_app; [now apply metric_parses|exact IH]. }
  assert (Hty := type_line tc (f_name f) (f_type f) Hn).
  replace (hash_sp ++ s_TYPE ++ [32] ++ write_name (f_name f) ++ [32] ++ text_type_word (f_type f) ++ [10] ++
           flat_map (print_text_metric O (f_name f) (f_type f)) (f_metrics f))
    with ((hash_sp ++ s_TYPE ++ [32] ++ write_name (f_name f) ++ [32] ++ text_type_word (f_type f) ++ [10]) ++
           flat_map (print_text_metric O (f_name f) (f_type f)) (f_metrics f))
    by (repeat rewrite <- app_assoc; reflexivity).
  destruct (f_help f) as [h|]; simpl opt_list; simpl map.
  - eapply parses_app; [now apply help_line|]. eapply parses_app; [exact Hty|exact Hms].
  - rewrite !app_nil_l. eapply parses_app; [exact Hty|exact Hms].
Qed.

Lemma families_parse : forall fams tc, Forall wf_family fams ->
  exists tc', parses O tu tc (print_text O fams) (entries_text O tu fams) tc'.
Proof.
  induction fams as [|f fams IH]; intros tc H.
  - exists tc. apply parses_nil.
  - inversion H as [|? ? Hf Hfs]; subst. destruct (IH (text_tcode (f_type f)) Hfs) as [tc' Hp].
    exists tc'. unfold print_text, entries_text. simpl. eapply parses_app; [now apply family_parses|exact Hp].
Qed.

Theorem text_roundtrip : forall fams, Forall wf_family fams ->
  parse_text O tu (print_text O fams) = (entries_text O tu fams, true).
Proof.
  intros fams H. destruct (families_parse fams 0 H) as [tc' Hp].
  unfold parse_text.
  change (split_after (tok_is tLinebreak) [] (filter not_ws_tok (toks lex_prom' 0 sInit (print_text O fams ++ [10]))))
    with (lines_of (print_text O fams ++ [10])).
  change (run_lines (fun (tc : N) (_ : bstr) (l : list tok) => prom_line O tu tc l) 0 [])
    with (run_lines (Lfun O tu) 0 []).
  rewrite (Hp [10]).
  assert (Hend : run_lines (Lfun O tu) tc' [] (lines_of [10]) = ([], true)) by reflexivity.
  rewrite Hend. simpl. now rewrite app_nil_r.
Qed.
End TextProofs3.

(* ------------------------------------------------------------------ the oracle assumptions are satisfiable *)
(* a toy (unary) number syntax within the float alphabet; only used to show consistency of
   [oracle_ok] and as the concrete oracle of the examples / refutation witnesses *)
Definition un (z : Z) : bstr := (if (z <? 0)%Z then [45] else []) ++ repeat 49 (S (Z.abs_nat z)).
Definition un_parse (s : bstr) : option Z :=
  match s with
  | c :: r => if c =? 45 then Some (- (Z.of_nat (length r) - 1))%Z else Some (Z.of_nat (length s) - 1)%Z
  | [] => None
  end.
(* +Inf gets a short spelling of its own so that the examples stay computable *)
Definition tf (f : Z) : bstr := if (canon_txt f =? posinf)%Z then [73] else un (canon_txt f).
Definition tp (s : bstr) : option Z := if bstr_eqb s [73] then Some posinf else un_parse s.
Definition toy_oracle : oracles :=
  mkOr tf tf un (fun z => z) (fun z => z) (fun z => z) tp (fun s => Some s) (fun _ => None) un_parse.

Lemma un_parse_un : forall z, un_parse (un z) = Some z.
Proof.
  intros z. unfold un. destruct (z <? 0)%Z eqn:E.
  - apply Z.ltb_lt in E.
    change ([45] ++ repeat 49 (S (Z.abs_nat z))) with (45 :: repeat 49 (S (Z.abs_nat z))).
    unfold un_parse. change (45 =? 45) with true. cbv iota. rewrite repeat_length.
    f_equal. rewrite Nat2Z.inj_succ, Zabs2Nat.id_abs. lia.
  - apply Z.ltb_ge in E.
    change ([] ++ repeat 49 (S (Z.abs_nat z))) with (49 :: repeat 49 (Z.abs_nat z)).
    unfold un_parse. change (49 =? 45) with false. cbv iota.
    change (length (49 :: repeat 49 (Z.abs_nat z))) with (S (length (repeat 49 (Z.abs_nat z)))).
    rewrite repeat_length. f_equal. rewrite Nat2Z.inj_succ, Zabs2Nat.id_abs. lia.
Qed.

Lemma forallb_repeat : forall (p : N -> bool) c n, p c = true -> forallb p (repeat c n) = true.
Proof. induction n; simpl; intros; auto. rewrite H. auto. Qed.

Lemma canon_nan_idem : forall x, canon_nan (canon_nan x) = canon_nan x.
Proof. intros x. unfold canon_nan. destruct (is_nan x) eqn:E; [reflexivity|]. now rewrite E. Qed.

Lemma un_not_inf : forall z, bstr_eqb (un z) [73] = false.
Proof. intros z. unfold un. destruct (z <? 0)%Z; reflexivity. Qed.

Lemma un_shape : forall z, un z <> [] /\ forallb is_fchar (un z) = true.
Proof.
  intros z. unfold un. split.
  - destruct (z <? 0)%Z; discriminate.
  - rewrite forallb_app. rewrite forallb_repeat by reflexivity. destruct (z <? 0)%Z; reflexivity.
Qed.

Lemma oracle_ok_satisfiable : exists O, oracle_ok O.
Proof.
  exists toy_oracle. constructor; simpl.
  - intros f. unfold tf. destruct (canon_txt f =? posinf)%Z; [split; [discriminate|reflexivity]|apply un_shape].
  - intros f. unfold tf, tp. destruct (canon_txt f =? posinf)%Z eqn:E.
    + exists posinf. split; [reflexivity|]. apply Z.eqb_eq in E. now rewrite E.
    + exists (canon_txt f). rewrite un_not_inf. split; [apply un_parse_un|]. unfold canon_txt. apply canon_nan_idem.
  - reflexivity.
  - intros z Hz. repeat split.
    + apply un_shape.
    + unfold un. assert ((z <? 0)%Z = false) as -> by (apply Z.ltb_ge; lia). simpl app.
      apply forallb_repeat. reflexivity.
    + apply un_parse_un.
Qed.

Definition example_fams : list family :=
  [mkFam [104;116;116;112;46;114;101;113] (Some [82;101;113;117;101;115;116;115;46]) None MHist
     [mkMet [([99;111;100;101], [97;34;98;92;99;10;100]); ([108;46;120], [195;169])] (Some 5%Z) 0%Z None None 3%Z 7%Z []
            [mkBk 2%Z 1%Z None; mkBk 4%Z 3%Z None] None];
   mkFam [117;112] None None MGauge [mkMet [] None 1%Z None None 0%Z 0%Z [] [] None]].

Lemma example_fams_wf : Forall wf_family example_fams /\ length (entries_text toy_oracle true example_fams) = 9%nat.
Proof.
  split; [|reflexivity].
  repeat constructor; try reflexivity; try discriminate.
Qed.

Lemma example_roundtrip_computes :
  parse_text toy_oracle true (print_text toy_oracle example_fams) = (entries_text toy_oracle true example_fams, true).
Proof. vm_compute. reflexivity. Qed.

(* ------------------------------------------------------------------ formats agree: OpenMetrics vs text *)
Definition no_om_exemplars (f : family) : Prop :=
  Forall (fun m => om_ex (m_ex m) = [] /\ Forall (fun b => om_ex (bk_ex b) = []) (m_b m)) (f_metrics f).

Lemma flat_map_ext_in : forall {A B} (f g : A -> list B) l, (forall a, In a l -> f a = g a) -> flat_map f l = flat_map g l.
Proof. induction l as [|a l IH]; simpl; intros H; auto. rewrite (H a) by now left. f_equal. apply IH. intros b Hb. apply H. now right. Qed.

Lemma om_series_agree_text : forall (O : oracles) (o : opts) (f : family),
  o_typeunit o = false -> o_created o = false -> no_om_exemplars f ->
  flat_map (om_metric O o f) (f_metrics f) = flat_map (text_metric O false (f_name f) (f_type f)) (f_metrics f).
Proof.
  intros O o f Htu Hcr Hex. apply flat_map_ext_in. intros m Hm.
  unfold no_om_exemplars in Hex. rewrite Forall_forall in Hex. destruct (Hex m Hm) as [He Hb].
  unfold om_metric, text_metric. rewrite Htu, Hcr. rewrite !andb_false_r.
  assert (Hc : match m_created m with Some _ => @nil entry | None => [] end = []) by (destruct (m_created m); reflexivity).
  destruct (f_type f); cbn [andb]; rewrite ?He.
  - destruct (m_created m); reflexivity.
  - reflexivity.
  - destruct (m_created m); rewrite ?app_nil_r; reflexivity.
  - reflexivity.
  - assert (Hmap : map (fun b => mk_series false (f_name f) (om_tcode f) (opt_bstr (f_unit f)) m s_bucket
                                 [(s_le, o_fom O (bk_ub b))] (canon_txt (o_u2f O (bk_cnt b))) (om_ex (bk_ex b)) 0%Z) (m_b m) =
                   map (fun b => mk_series false (f_name f) (text_tcode MHist) [] m s_bucket
                                 [(s_le, o_fom O (bk_ub b))] (canon_txt (o_u2f O (bk_cnt b))) [] 0%Z) (m_b m)).
    { apply map_ext_in. intros b Hbin. rewrite Forall_forall in Hb. rewrite (Hb b Hbin). reflexivity. }
    destruct (m_created m); rewrite ?app_nil_r; cbv beta; rewrite Hmap; reflexivity.
  - assert (Hmap : map (fun b => mk_series false (f_name f) (om_tcode f) (opt_bstr (f_unit f)) m s_bucket
                                 [(s_le, o_fom O (bk_ub b))] (canon_txt (o_u2f O (bk_cnt b))) (om_ex (bk_ex b)) 0%Z) (m_b m) =
                   map (fun b => mk_series false (f_name f) (text_tcode MGHist) [] m s_bucket
                                 [(s_le, o_fom O (bk_ub b))] (canon_txt (o_u2f O (bk_cnt b))) [] 0%Z) (m_b m)).
    { apply map_ext_in. intros b Hbin. rewrite Forall_forall in Hb. rewrite (Hb b Hbin). reflexivity. }
    destruct (m_created m); rewrite ?app_nil_r; cbv beta; rewrite Hmap; reflexivity.
Qed.

(* ------------------------------------------------------------------ protobuf: state machine vs per-metric spec *)
Lemma proto_hist_run_classic : forall O o f ms how, how <> PUnchecked ->
  Forall (fun m => native_on o m = false) ms ->
  proto_hist_run O o f how ms = flat_map (proto_classic O o f) ms.
Proof.
  induction ms as [|m ms IH]; intros how Hh H; [reflexivity|].
  inversion H as [|? ? Hm Hms]; subst. cbn [proto_hist_run flat_map]. unfold proto_hist_step. rewrite Hm.
  destruct how; try congruence; cbn; rewrite IH; auto; discriminate.
Qed.

Lemma proto_metric_classic : forall O o f m, (f_type f = MHist \/ f_type f = MGHist) -> native_on o m = false ->
  proto_metric O o f m = proto_classic O o f m.
Proof.
  intros O o f m Ht Hn. unfold proto_metric. rewrite Hn.
  destruct Ht as [-> | ->]; destruct (m_nh m); reflexivity.
Qed.

Lemma proto_model_meets_spec : forall (O : oracles) (o : opts) (fams : list family),
  Forall (fun f => Forall (fun m => native_on o m = false) (f_metrics f)) fams ->
  model_proto O o fams = entries_proto O o fams.
Proof.
  intros O o fams H. unfold model_proto, entries_proto. apply flat_map_ext_in. intros f Hf.
  rewrite Forall_forall in H. specialize (H f Hf).
  unfold model_proto_family, proto_family. destruct (is_nil (f_metrics f)); [reflexivity|].
  do 3 f_equal.
  destruct (f_type f) eqn:Et; try reflexivity.
  - rewrite proto_hist_run_classic by (auto; discriminate). apply flat_map_ext_in. intros m Hm.
    rewrite Forall_forall in H. symmetry. apply proto_metric_classic; auto.
  - rewrite proto_hist_run_classic by (auto; discriminate). apply flat_map_ext_in. intros m Hm.
    rewrite Forall_forall in H. symmetry. apply proto_metric_classic; auto.
Qed.

(* ------------------------------------------------------------------ refutations (witnesses replayed by the harness corpus) *)
Definition m0 : metric := mkMet [] None 1%Z None None 0%Z 0%Z [] [] None.
Definition o0 : opts := mkOpts false false false false false.

Lemma text_negative_timestamp_refuted : exists O fams tu,
  parse_text O tu (print_text O fams) <> (entries_text O tu fams, true).
Proof.
  exists toy_oracle, [mkFam [117;112] None None MGauge [mkMet [] (Some (-1)%Z) 1%Z None None 0%Z 0%Z [] [] None]], false.
  intro H. apply (f_equal snd) in H. vm_compute in H. discriminate.
Qed.

Lemma text_blank_help_refuted : exists O fams tu,
  parse_text O tu (print_text O fams) <> (entries_text O tu fams, true).
Proof.
  exists toy_oracle, [mkFam [117;112] (Some [32]) None MGauge [m0]], false.
  intro H. apply (f_equal fst) in H. vm_compute in H. discriminate.
Qed.

Lemma quoted_name_metadata_refuted : exists O fams tu,
  parse_text O tu (print_text O fams) <> (entries_text O tu fams, true).
Proof.
  exists toy_oracle, [mkFam [97;34;98] None None MGauge [m0]], false.
  intro H. apply (f_equal fst) in H. vm_compute in H. discriminate.
Qed.

Lemma om_exemplar_escape_refuted : exists O o fams,
  parse_om O o (print_om O o fams) <> (entries_om O o fams, true).
Proof.
  exists toy_oracle, o0,
    [mkFam ([120] ++ s_total) None None MCounter
       [mkMet [] None 1%Z (Some (mkEx [([116], [97;34;98])] 2%Z None)) None 0%Z 0%Z [] [] None]].
  intro H. apply (f_equal fst) in H. vm_compute in H. discriminate.
Qed.

Lemma om_unit_leak_refuted : exists O o fams,
  parse_om O o (print_om O o fams) <> (entries_om O o fams, true).
Proof.
  exists toy_oracle, (mkOpts true false false false false),
    [mkFam [97;95;115] None (Some [115]) MGauge [m0]; mkFam [98] None None MGauge [m0]].
  intro H. apply (f_equal fst) in H. vm_compute in H. discriminate.
Qed.

Definition nh1 : nhist := mkNH 1%Z 0%Z 2%Z [(1%Z, 2%Z)] [3%Z; (-1)%Z] [] [].
Definition mcl (k : N) : metric := mkMet [([107], [k])] None 0%Z None None 7%Z 1%Z [] [mkBk 2%Z 2%Z None] None.
Definition mnat (k : N) : metric := mkMet [([107], [k])] None 0%Z None None 7%Z 1%Z [] [mkBk 2%Z 2%Z None] (Some nh1).

Lemma proto_native_after_classic_refuted : exists O o fams,
  model_proto O o fams <> entries_proto O o fams.
Proof.
  exists toy_oracle, o0, [mkFam [104] None None MHist [mcl 97; mnat 98]].
  intro H. vm_compute in H. discriminate.
Qed.

Lemma proto_nil_histogram_refuted : exists O o fams,
  In (nil_hist) (flat_map (fun e => match e with OX _ h _ _ _ => [h] | _ => [] end) (model_proto O o fams)).
Proof.
  exists toy_oracle, (mkOpts false false false false true), [mkFam [104] None None MHist [mnat 97; mcl 98]].
  vm_compute. right. left. reflexivity.
Qed.

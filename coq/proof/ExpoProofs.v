(* proof/ExpoProofs.v — proofs about model/Expo.v (C35). *)
From Coq Require Import List NArith ZArith Bool Lia.
From Verif Require Import model.Expo.
Import ListNotations.
Open Scope N_scope.

Ltac bsimp :=
  repeat (rewrite ?orb_true_iff, ?andb_true_iff, ?orb_false_iff, ?andb_false_iff, ?negb_true_iff,
          ?negb_false_iff, ?N.leb_le, ?N.leb_gt, ?N.eqb_eq, ?N.eqb_neq, ?N.ltb_lt, ?N.ltb_ge in * ).
Ltac cls := unfold is_valchar, is_omval, not_nl, is_mchar, is_mstart, is_lchar, is_alpha, is_digit, is_ws in *.
Ltac blia := cls; bsimp; lia.

(* ------------------------------------------------------------------ generic list facts *)
Lemma take_while_app_stop : forall p a c rest,
  forallb p a = true -> p c = false -> take_while p (a ++ c :: rest) = a.
Proof.
  induction a as [|x a IH]; intros c rest Ha Hc; simpl in *.
  - now rewrite Hc.
  - apply andb_true_iff in Ha as [Hx Ha]. rewrite Hx. f_equal. now apply IH.
Qed.

Lemma forallb_imp : forall (p q : N -> bool) l, (forall c, p c = true -> q c = true) -> forallb p l = true -> forallb q l = true.
Proof.
  induction l as [|x l IH]; intros Hpq H; simpl in *; auto.
  apply andb_true_iff in H as [Hx Hl]. rewrite (Hpq _ Hx). simpl. auto.
Qed.

Lemma bstr_eqb_refl : forall s, bstr_eqb s s = true.
Proof. induction s; simpl; auto. now rewrite N.eqb_refl. Qed.

Lemma bstr_eqb_eq : forall a b, bstr_eqb a b = true -> a = b.
Proof.
  induction a as [|x a IH]; destruct b as [|y b]; simpl; intros H; try discriminate; auto.
  apply andb_true_iff in H as [H1 H2]. apply N.eqb_eq in H1. subst. f_equal. auto.
Qed.

Lemma strip_ends_quoted : forall s, strip_ends (34 :: s ++ [34]) = s.
Proof.
  intros s. unfold strip_ends, drop_last. simpl tl.
  rewrite app_length. simpl length. replace (length s + 1 - 1)%nat with (length s) by lia.
  rewrite firstn_app. rewrite Nat.sub_diag. simpl. rewrite firstn_all. apply app_nil_r.
Qed.

Lemma last_app1 : forall (s : bstr) x d, last (s ++ [x]) d = x.
Proof. induction s as [|y s IH]; intros; simpl; auto. destruct (s ++ [x]) eqn:E; [destruct s; discriminate|]. rewrite <- E. apply IH. Qed.

(* ------------------------------------------------------------------ escaping *)
Definition clean (c : N) : bool := negb (c =? 0).            (* no NUL *)
Definition plain (c : N) : bool := negb (c =? 0) && negb (c =? 34) && negb (c =? 92) && negb (c =? 10).

Lemma unreplace_escape_true : forall s, unreplace true (escape true s) = s.
Proof.
  induction s as [|c s IH]; simpl; auto. unfold esc_char.
  destruct (c =? 92) eqn:E1; [apply N.eqb_eq in E1; subst; simpl; now rewrite IH|].
  destruct (c =? 10) eqn:E2; [apply N.eqb_eq in E2; subst; simpl; now rewrite IH|].
  simpl. destruct (c =? 34) eqn:E3; [apply N.eqb_eq in E3; subst; simpl; now rewrite IH|].
  simpl. rewrite E1. now rewrite IH.
Qed.

Lemma unreplace_escape_false : forall s, unreplace false (escape false s) = s.
Proof.
  induction s as [|c s IH]; simpl; auto. unfold esc_char.
  destruct (c =? 92) eqn:E1; [apply N.eqb_eq in E1; subst; simpl; now rewrite IH|].
  destruct (c =? 10) eqn:E2; [apply N.eqb_eq in E2; subst; simpl; now rewrite IH|].
  simpl. rewrite E1. now rewrite IH.
Qed.

Lemma unreplace_plain : forall q s, forallb (fun c => negb (c =? 92)) s = true -> unreplace q s = s.
Proof.
  induction s as [|c s IH]; simpl; auto. intros H. apply andb_true_iff in H as [H1 H2].
  apply negb_true_iff in H1. rewrite H1. now rewrite IH.
Qed.

Lemma escape_plain : forall q s, forallb plain s = true -> escape q s = s.
Proof.
  induction s as [|c s IH]; simpl; auto. intros H. apply andb_true_iff in H as [H1 H2].
  unfold esc_char. unfold plain in H1. bsimp. destruct H1 as [[[H0 H34] H92] H10].
  apply N.eqb_neq in H92, H10, H34. rewrite H92, H10, H34. rewrite andb_false_r. simpl. now rewrite IH.
Qed.

(* the quoted-string automaton accepts an escaped string up to its closing quote *)
Lemma qscan_escape : forall s rest, forallb clean s = true ->
  qscan true (escape true s ++ 34 :: rest) = Some (escape true s ++ [34]).
Proof.
  induction s as [|c s IH]; intros rest H; simpl in *; auto.
  apply andb_true_iff in H as [Hc Hs]. unfold clean in Hc. apply negb_true_iff in Hc.
  unfold esc_char.
  destruct (c =? 92) eqn:E1.
  { apply N.eqb_eq in E1; subst. simpl. rewrite (IH rest Hs). reflexivity. }
  destruct (c =? 10) eqn:E2.
  { apply N.eqb_eq in E2; subst. simpl. rewrite (IH rest Hs). reflexivity. }
  simpl. destruct (c =? 34) eqn:E3.
  { apply N.eqb_eq in E3; subst. simpl. rewrite (IH rest Hs). reflexivity. }
  simpl. rewrite E3, E1, Hc. simpl. rewrite (IH rest Hs). reflexivity.
Qed.

Lemma escape_not_nl : forall q s, forallb clean s = true -> forallb not_nl (escape q s) = true.
Proof.
  induction s as [|c s IH]; simpl; auto. intros H. apply andb_true_iff in H as [Hc Hs].
  rewrite forallb_app. rewrite (IH Hs), andb_true_r. unfold esc_char, clean in *.
  destruct (c =? 92) eqn:E1; [reflexivity|]. destruct (c =? 10) eqn:E2; [reflexivity|].
  destruct (q && (c =? 34)); [reflexivity|]. simpl. unfold not_nl. rewrite E2, Hc. reflexivity.
Qed.

(* ------------------------------------------------------------------ utf8 *)
Lemma utf8_ascii : forall s, forallb (fun c => c <? 128) s = true -> utf8_valid s = true.
Proof.
  induction s as [|c s IH]; simpl; auto. intros H. apply andb_true_iff in H as [H1 H2]. rewrite H1. auto.
Qed.

(* ------------------------------------------------------------------ token stream *)
Section TokStream.
Variable lex : lstate -> bstr -> token * bstr * lstate.

Lemma toks_skip : forall w st rest, toks lex (length w) st (w ++ rest) = toks lex 0 st rest.
Proof. induction w; intros; simpl; auto. Qed.

Lemma toks_step : forall st txt rest t st',
  txt <> [] -> lex st (txt ++ rest) = (t, txt, st') -> is_stop t = false ->
  toks lex 0 st (txt ++ rest) = (t, txt) :: toks lex 0 st' rest.
Proof.
  intros st txt rest t st' Hne Hlex Hstop.
  destruct txt as [|c w]; [congruence|].
  change (toks lex 0 st ((c :: w) ++ rest)) with
    (let '(t0, txt0, st1) := lex st ((c :: w) ++ rest) in
     if is_stop t0 then [(t0, txt0)]
     else match length txt0 with
          | S k => (t0, txt0) :: toks lex k st1 (w ++ rest)
          | O => let '(t2, txt2, st2) := lex st1 ((c :: w) ++ rest) in
                 if is_stop t2 then [(t0, txt0); (t2, txt2)]
                 else match length txt2 with
                      | S k2 => (t0, txt0) :: (t2, txt2) :: toks lex k2 st2 (w ++ rest)
                      | O => [(t0, txt0); (tModelErr, [])]
                      end
          end).
  rewrite Hlex, Hstop. cbv iota beta. change (length (c :: w)) with (S (length w)). cbv iota beta. now rewrite toks_skip.
Qed.

(* an empty token (only the empty HELP text) followed by the next, non-empty one *)
Lemma toks_step0 : forall st c r t st1 t2 txt2 st2 rest,
  c :: r = txt2 ++ rest -> txt2 <> [] ->
  lex st (c :: r) = (t, [], st1) -> is_stop t = false ->
  lex st1 (c :: r) = (t2, txt2, st2) -> is_stop t2 = false ->
  toks lex 0 st (c :: r) = (t, []) :: (t2, txt2) :: toks lex 0 st2 rest.
Proof.
  intros st c r t st1 t2 txt2 st2 rest Heq Hne H1 Hs1 H2 Hs2.
  simpl. rewrite H1, Hs1. simpl. rewrite H2, Hs2.
  destruct txt2 as [|c2 w2]; [congruence|]. simpl in Heq. injection Heq as -> ->.
  change (length (c2 :: w2)) with (S (length w2)). cbv iota beta. now rewrite toks_skip.
Qed.
End TokStream.

(* ------------------------------------------------------------------ text lexer on printed tokens *)
Definition ftoks (st : lstate) (b : bstr) : list tok := filter not_ws_tok (toks lex_prom' 0 st b).

Lemma ftoks_tok : forall st txt rest t st',
  txt <> [] -> lex_prom' st (txt ++ rest) = (t, txt, st') -> is_stop t = false -> not_ws_tok (t, txt) = true ->
  ftoks st (txt ++ rest) = (t, txt) :: ftoks st' rest.
Proof.
  intros. unfold ftoks. rewrite (toks_step lex_prom' st txt rest t st'); auto. simpl filter. now rewrite H2.
Qed.

Lemma ftoks_ws : forall st txt rest st',
  txt <> [] -> lex_prom' st (txt ++ rest) = (tWhitespace, txt, st') -> ftoks st (txt ++ rest) = ftoks st' rest.
Proof.
  intros. unfold ftoks. rewrite (toks_step lex_prom' st txt rest tWhitespace st'); auto.
Qed.

Lemma lex_prom'_other : forall st b, st <> sMeta2 -> lex_prom' st b = lex_prom st b.
Proof. intros st b H. destruct st; try reflexivity. congruence. Qed.

Definition legacy_l (s : bstr) : bool :=
  match s with c :: r => is_alpha c && forallb is_lchar r | [] => false end.

Lemma ft_mname : forall nm x rest, is_legacy_name nm = true -> is_mchar x = false ->
  ftoks sInit (nm ++ x :: rest) = (tMName, nm) :: ftoks sValue (x :: rest).
Proof.
  intros nm x rest Hn Hx. destruct nm as [|c r]; [discriminate|]. simpl in Hn.
  apply andb_true_iff in Hn as [Hc Hr].
  apply ftoks_tok; try reflexivity; try discriminate.
  rewrite lex_prom'_other by discriminate. simpl.
  assert (is_ws c = false) as -> by blia.
  assert (c =? 0 = false) as -> by blia. assert (c =? 10 = false) as -> by blia.
  assert (c =? 35 = false) as -> by blia. rewrite Hc.
  now rewrite take_while_app_stop.
Qed.

Lemma ft_mname_meta : forall nm rest, is_legacy_name nm = true ->
  ftoks sMeta1 (nm ++ 32 :: rest) = (tMName, nm) :: ftoks sMeta2 (32 :: rest).
Proof.
  intros nm rest Hn. destruct nm as [|c r]; [discriminate|]. simpl in Hn.
  apply andb_true_iff in Hn as [Hc Hr].
  apply ftoks_tok; try reflexivity; try discriminate.
  rewrite lex_prom'_other by discriminate. simpl.
  assert (is_ws c = false) as -> by blia.
  assert (c =? 34 = false) as -> by blia. rewrite Hc.
  now rewrite take_while_app_stop.
Qed.

Lemma ft_lname : forall ln rest, legacy_l ln = true ->
  ftoks sLabels (ln ++ 61 :: rest) = (tLName, ln) :: ftoks sLabels (61 :: rest).
Proof.
  intros ln rest Hn. destruct ln as [|c r]; [discriminate|]. simpl in Hn.
  apply andb_true_iff in Hn as [Hc Hr].
  apply ftoks_tok; try reflexivity; try discriminate.
  rewrite lex_prom'_other by discriminate. simpl.
  assert (is_ws c = false) as -> by blia.
  assert (c =? 34 = false) as -> by blia. assert (c =? 44 = false) as -> by blia.
  assert (c =? 61 = false) as -> by blia. assert (c =? 125 = false) as -> by blia. rewrite Hc.
  now rewrite take_while_app_stop.
Qed.

Definition quoted (s : bstr) : bstr := 34 :: escape true s ++ [34].
Arguments quoted : simpl never.

Lemma strip_ends_q : forall s, strip_ends (quoted s) = escape true s.
Proof. intros. unfold quoted. apply strip_ends_quoted. Qed.

Lemma quoted_app : forall s rest, quoted s ++ rest = 34 :: escape true s ++ 34 :: rest.
Proof. intros. unfold quoted. simpl. now rewrite <- app_assoc. Qed.

Lemma ft_quoted : forall st t st' s rest, forallb clean s = true ->
  (st = sLabels /\ t = tQString /\ st' = sLabels) \/ (st = sLValue /\ t = tLValue /\ st' = sLabels) \/
  (st = sMeta1 /\ t = tMName /\ st' = sMeta2) ->
  ftoks st (quoted s ++ rest) = (t, quoted s) :: ftoks st' rest.
Proof.
  intros st t st' s rest Hs Hcase.
  apply ftoks_tok; try discriminate.
  - rewrite quoted_app.
    destruct Hcase as [(-> & -> & ->)|[(-> & -> & ->)|(-> & -> & ->)]];
      (rewrite lex_prom'_other by discriminate); simpl; rewrite qscan_escape by assumption; reflexivity.
  - destruct Hcase as [(-> & -> & ->)|[(-> & -> & ->)|(-> & -> & ->)]]; reflexivity.
  - destruct Hcase as [(-> & -> & ->)|[(-> & -> & ->)|(-> & -> & ->)]]; reflexivity.
Qed.

Lemma ft_char : forall st c t st' rest,
  lex_prom' st (c :: rest) = (t, [c], st') -> is_stop t = false -> not_ws_tok (t, [c]) = true ->
  ftoks st (c :: rest) = (t, [c]) :: ftoks st' rest.
Proof. intros. change (c :: rest) with ([c] ++ rest). apply ftoks_tok; auto. discriminate. Qed.

Lemma ft_open_v : forall rest, ftoks sValue (123 :: rest) = (tBraceOpen, [123]) :: ftoks sLabels rest.
Proof. intros. now apply ft_char. Qed.
Lemma ft_open_i : forall rest, ftoks sInit (123 :: rest) = (tBraceOpen, [123]) :: ftoks sLabels rest.
Proof. intros. now apply ft_char. Qed.
Lemma ft_equal : forall rest, ftoks sLabels (61 :: rest) = (tEqual, [61]) :: ftoks sLValue rest.
Proof. intros. now apply ft_char. Qed.
Lemma ft_comma : forall rest, ftoks sLabels (44 :: rest) = (tComma, [44]) :: ftoks sLabels rest.
Proof. intros. now apply ft_char. Qed.
Lemma ft_close : forall rest, ftoks sLabels (125 :: rest) = (tBraceClose, [125]) :: ftoks sValue rest.
Proof. intros. now apply ft_char. Qed.
Lemma ft_lb_ts : forall rest, ftoks sTimestamp (10 :: rest) = (tLinebreak, [10]) :: ftoks sInit rest.
Proof. intros. now apply ft_char. Qed.
Lemma ft_lb_init : forall rest, ftoks sInit (10 :: rest) = (tLinebreak, [10]) :: ftoks sInit rest.
Proof. intros. now apply ft_char. Qed.

(* a blank followed by a non-blank: one whitespace token *)
Lemma ft_space : forall st c rest, st <> sMeta2 -> is_ws c = false ->
  ftoks st (32 :: c :: rest) = ftoks st (c :: rest).
Proof.
  intros st c rest Hst Hc. change (32 :: c :: rest) with ([32] ++ c :: rest).
  apply ftoks_ws; [discriminate|]. rewrite lex_prom'_other by assumption.
  simpl. now rewrite Hc.
Qed.

Lemma ft_value : forall v x rest, v <> [] -> forallb is_valchar v = true -> is_valchar x = false ->
  ftoks sValue (32 :: v ++ x :: rest) = (tValue, v) :: ftoks sTimestamp (x :: rest).
Proof.
  intros v x rest Hne Hv Hx. destruct v as [|c r]; [congruence|]. simpl in Hv.
  apply andb_true_iff in Hv as [Hc Hr].
  simpl app. rewrite ft_space; [|discriminate|blia].
  change (c :: r ++ x :: rest) with ((c :: r) ++ x :: rest).
  apply ftoks_tok; try reflexivity; try discriminate.
  rewrite lex_prom'_other by discriminate. simpl.
  assert (is_ws c = false) as -> by blia. assert (c =? 123 = false) as -> by blia. rewrite Hc.
  now rewrite take_while_app_stop.
Qed.

Lemma ft_ts : forall d rest, d <> [] -> forallb is_digit d = true ->
  ftoks sTimestamp (32 :: d ++ 10 :: rest) = (tTimestamp, d) :: ftoks sTimestamp (10 :: rest).
Proof.
  intros d rest Hne Hd. destruct d as [|c r]; [congruence|]. simpl in Hd.
  apply andb_true_iff in Hd as [Hc Hr].
  simpl app. rewrite ft_space; [|discriminate|blia].
  change (c :: r ++ 10 :: rest) with ((c :: r) ++ 10 :: rest).
  apply ftoks_tok; try reflexivity; try discriminate.
  rewrite lex_prom'_other by discriminate. simpl.
  assert (is_ws c = false) as -> by blia. assert (c =? 10 = false) as -> by blia. rewrite Hc.
  now rewrite take_while_app_stop.
Qed.

(* "# HELP " / "# TYPE " before a name *)
Lemma ft_help : forall c rest, is_ws c = false ->
  ftoks sInit (hash_sp ++ s_HELP ++ 32 :: c :: rest) = (tHelp, hash_sp ++ s_HELP ++ [32]) :: ftoks sMeta1 (c :: rest).
Proof.
  intros c rest Hc.
  change (hash_sp ++ s_HELP ++ 32 :: c :: rest) with ((hash_sp ++ s_HELP ++ [32]) ++ c :: rest).
  apply ftoks_tok; try reflexivity; try discriminate.
  rewrite lex_prom'_other by discriminate. cbn. now rewrite Hc.
Qed.
Lemma ft_type : forall c rest, is_ws c = false ->
  ftoks sInit (hash_sp ++ s_TYPE ++ 32 :: c :: rest) = (tType, hash_sp ++ s_TYPE ++ [32]) :: ftoks sMeta1 (c :: rest).
Proof.
  intros c rest Hc.
  change (hash_sp ++ s_TYPE ++ 32 :: c :: rest) with ((hash_sp ++ s_TYPE ++ [32]) ++ c :: rest).
  apply ftoks_tok; try reflexivity; try discriminate.
  rewrite lex_prom'_other by discriminate. cbn. now rewrite Hc.
Qed.

Lemma skipn_app_length : forall (w x : bstr), skipn (length w) (w ++ x) = x.
Proof. induction w; simpl; auto. Qed.

Lemma nonws_split : forall body, existsb (fun c => negb (is_ws c)) body = true ->
  exists p d t, body = p ++ d :: t /\ forallb is_ws p = true /\ is_ws d = false.
Proof.
  induction body as [|c body IH]; simpl; [discriminate|]. intros H.
  destruct (is_ws c) eqn:E.
  - simpl in H. destruct (IH H) as (p & d & t & -> & Hp & Hd). exists (c :: p), d, t. simpl. rewrite E. auto.
  - exists [], c, body. auto.
Qed.

(* the text of a HELP/TYPE line: a blank, then text with a non-blank character, up to the newline *)
Lemma ft_text : forall body rest, forallb not_nl body = true -> existsb (fun c => negb (is_ws c)) body = true ->
  ftoks sMeta2 (32 :: body ++ 10 :: rest) = (tText, 32 :: body) :: ftoks sInit (10 :: rest).
Proof.
  intros body rest Hnl Hex.
  change (32 :: body ++ 10 :: rest) with ((32 :: body) ++ 10 :: rest).
  apply ftoks_tok; try reflexivity; try discriminate.
  destruct (nonws_split body Hex) as (p & d & t & Hb & Hp & Hd).
  assert (Hd2 : not_nl d = true).
  { rewrite Hb in Hnl. rewrite forallb_app in Hnl. apply andb_true_iff in Hnl as [_ Hnl]. simpl in Hnl.
    now apply andb_true_iff in Hnl as [Hnl _]. }
  unfold lex_prom'. change (is_ws 32) with true. cbv iota.
  assert (Hw : take_while is_ws ((32 :: body) ++ 10 :: rest) = 32 :: p).
  { rewrite Hb. change ((32 :: p ++ d :: t) ++ 10 :: rest) with (32 :: (p ++ d :: t) ++ 10 :: rest).
    rewrite <- app_assoc. simpl. f_equal. now apply take_while_app_stop. }
  rewrite Hw.
  assert (Hs : skipn (length (32 :: p)) ((32 :: body) ++ 10 :: rest) = d :: t ++ 10 :: rest).
  { rewrite Hb. change ((32 :: p ++ d :: t) ++ 10 :: rest) with (32 :: (p ++ d :: t) ++ 10 :: rest).
    rewrite <- app_assoc. change (32 :: p ++ (d :: t) ++ 10 :: rest) with ((32 :: p) ++ (d :: t ++ 10 :: rest)).
    apply skipn_app_length. }
  rewrite Hs, Hd2.
  change ((32 :: body) ++ 10 :: rest) with (32 :: body ++ 10 :: rest).
  simpl take_while. change (not_nl 32) with true. cbv iota.
  rewrite take_while_app_stop; auto.
Qed.

(* ------------------------------------------------------------------ label items: bytes, tokens, parse *)
Definition lname_ok (ln : bstr) : Prop :=
  if is_legacy_name ln then legacy_l ln = true else forallb clean ln = true.
Definition item_ok (j : lp) : Prop :=
  lname_ok (fst j) /\ forallb clean (snd j) = true /\ utf8_valid (quoted (snd j)) = true.

Definition name_tok (ln : bstr) : tok := if is_legacy_name ln then (tLName, ln) else (tQString, quoted ln).
Definition item_toks (j : lp) : list tok := [name_tok (fst j); (tEqual, [61]); (tLValue, quoted (snd j))].
Definition raw (j : lp) : lp := (escape true (fst j), escape true (snd j)).
Definition comma_items (r : list lp) : list tok := flat_map (fun j => (tComma, [44]) :: item_toks j) r.

Lemma write_name_quoted : forall s, is_legacy_name s = false -> write_name s = quoted s.
Proof. intros s H. unfold write_name. now rewrite H. Qed.

Lemma pair_item_app : forall j X, pair_item j ++ X = write_name (fst j) ++ 61 :: quoted (snd j) ++ X.
Proof. intros [ln lv] X. unfold pair_item, quoted. simpl. repeat rewrite <- app_assoc. simpl. repeat rewrite <- app_assoc. reflexivity. Qed.

Lemma ft_item : forall j X, item_ok j -> ftoks sLabels (pair_item j ++ X) = item_toks j ++ ftoks sLabels X.
Proof.
  intros [ln lv] X (Hn & Hv & _). rewrite pair_item_app. unfold item_toks, name_tok, lname_ok in *. simpl fst in *. simpl snd in *.
  unfold write_name. destruct (is_legacy_name ln) eqn:E.
  - rewrite ft_lname by assumption. rewrite ft_equal. rewrite (ft_quoted sLValue tLValue sLabels) by auto. reflexivity.
  - fold (quoted ln). rewrite (ft_quoted sLabels tQString sLabels) by auto. rewrite ft_equal.
    rewrite (ft_quoted sLValue tLValue sLabels) by auto. reflexivity.
Qed.

Lemma ft_tail_items : forall r rest, Forall item_ok r ->
  ftoks sLabels (join_items 44 (map pair_item r) ++ 125 :: rest) =
  comma_items r ++ (tBraceClose, [125]) :: ftoks sValue rest.
Proof.
  induction r as [|j r IH]; intros rest H; simpl.
  - apply ft_close.
  - inversion H as [|? ? Hj Hr]; subst. rewrite ft_comma. rewrite <- app_assoc. rewrite ft_item by assumption.
    rewrite IH by assumption. unfold item_toks. simpl. reflexivity.
Qed.

Lemma legacy_l_plain : forall s, legacy_l s = true -> forallb plain s = true.
Proof.
  intros [|c r] H; [discriminate|]. simpl in H. apply andb_true_iff in H as [Hc Hr]. simpl.
  apply andb_true_iff; split.
  - unfold plain. blia.
  - eapply forallb_imp; [|exact Hr]. intros x Hx. unfold plain. blia.
Qed.

Lemma legacy_name_plain : forall s, is_legacy_name s = true -> forallb plain s = true.
Proof.
  intros [|c r] H; [discriminate|]. simpl in H. apply andb_true_iff in H as [Hc Hr]. simpl.
  apply andb_true_iff; split.
  - unfold plain. blia.
  - eapply forallb_imp; [|exact Hr]. intros x Hx. unfold plain. blia.
Qed.

Lemma tok_is_refl_false_eq : tok_is tComma (tEqual, [61]) = false /\ tok_is tBraceClose (tEqual, [61]) = false.
Proof. split; reflexivity. Qed.

Lemma raw_of_item : forall ln lv, lname_ok ln ->
  ((if is_legacy_name ln then ln else strip_ends (quoted ln)), strip_ends (quoted lv)) = raw (ln, lv).
Proof.
  intros ln lv Hn. unfold raw, lname_ok in *. simpl. rewrite !strip_ends_q.
  destruct (is_legacy_name ln); auto. rewrite (escape_plain true ln) by now apply legacy_l_plain. reflexivity.
Qed.

Lemma parse_lvals_item_comma : forall j nm acc x T, item_ok j ->
  parse_lvals false false nm acc (item_toks j ++ (tComma, x) :: T) = parse_lvals false false nm (raw j :: acc) T.
Proof.
  intros [ln lv] nm acc x T (Hn & Hv & Hu). simpl fst in *. simpl snd in *.
  assert (Hu' : utf8_valid (escape true lv ++ [34]) = true) by exact Hu.
  rewrite <- (raw_of_item ln lv Hn).
  change (item_toks (ln, lv)) with [name_tok ln; (tEqual, [61]); (tLValue, quoted lv)].
  unfold name_tok. destruct (is_legacy_name ln); simpl; rewrite Hu'; reflexivity.
Qed.

Lemma parse_lvals_item_close : forall j nm acc c R, item_ok j ->
  parse_lvals false false nm acc (item_toks j ++ (tBraceClose, c) :: R) = LVOk nm (rev (raw j :: acc)) R.
Proof.
  intros [ln lv] nm acc c R (Hn & Hv & Hu). simpl fst in *. simpl snd in *.
  assert (Hu' : utf8_valid (escape true lv ++ [34]) = true) by exact Hu.
  rewrite <- (raw_of_item ln lv Hn).
  change (item_toks (ln, lv)) with [name_tok ln; (tEqual, [61]); (tLValue, quoted lv)].
  unfold name_tok. destruct (is_legacy_name ln); simpl; rewrite Hu'; reflexivity.
Qed.

(* parse of one item followed by further comma-separated items and the closing brace *)
Lemma parse_lvals_items : forall r j nm acc c R, item_ok j -> Forall item_ok r ->
  parse_lvals false false nm acc (item_toks j ++ comma_items r ++ (tBraceClose, c) :: R) =
  LVOk nm (rev acc ++ raw j :: map raw r) R.
Proof.
  induction r as [|j' r IH]; intros j nm acc c R Hj Hr.
  - simpl comma_items. simpl app at 2. rewrite parse_lvals_item_close by assumption. reflexivity.
  - inversion Hr as [|? ? Hj' Hr']; subst.
    change (item_toks j ++ comma_items (j' :: r) ++ (tBraceClose, c) :: R)
      with (item_toks j ++ (tComma, [44]) :: (item_toks j' ++ comma_items r ++ (tBraceClose, c) :: R)).
    rewrite parse_lvals_item_comma by assumption.
    rewrite IH by assumption. simpl. rewrite <- app_assoc. reflexivity.
Qed.

(* ------------------------------------------------------------------ name and labels of a sample line *)
Definition head_toks (nm : bstr) (its : list lp) : list tok :=
  let body := match its with
              | [] => []
              | i :: r => item_toks i ++ comma_items r
              end in
  if is_legacy_name nm then
    match its with
    | [] => [(tMName, nm)]
    | _ => (tMName, nm) :: (tBraceOpen, [123]) :: body ++ [(tBraceClose, [125])]
    end
  else
    match its with
    | [] => [(tBraceOpen, [123]); (tQString, quoted nm); (tBraceClose, [125])]
    | _ => (tBraceOpen, [123]) :: (tQString, quoted nm) :: (tComma, [44]) :: body ++ [(tBraceClose, [125])]
    end.

Definition name_ok (nm : bstr) : Prop := nm <> [] /\ forallb clean nm = true.

Opaque quoted.
Lemma ft_head : forall nm ls extra its X,
  name_ok nm -> map pair_item ls ++ extra = map pair_item its -> Forall item_ok its ->
  ftoks sInit (name_and_labels nm ls extra ++ 32 :: X) = head_toks nm its ++ ftoks sValue (32 :: X).
Proof.
  intros nm ls extra its X [Hne Hcl] Hits Hok.
  unfold name_and_labels, head_toks. rewrite Hits.
  assert (Hnil : is_nil nm = false) by (destruct nm; [congruence|reflexivity]). rewrite Hnil.
  destruct (is_legacy_name nm) eqn:E; simpl negb; cbv iota.
  - unfold write_name. rewrite E. destruct its as [|i r]; simpl map; simpl is_nil; cbv iota.
    + rewrite app_nil_r. now apply ft_mname.
    + inversion Hok as [|? ? Hi Hr]; subst.
      simpl join_items. repeat rewrite <- app_assoc. simpl app.
      rewrite ft_mname by auto. rewrite ft_open_v. repeat rewrite <- app_assoc.
      rewrite ft_item by assumption. rewrite ft_tail_items by assumption.
      repeat rewrite <- app_assoc. reflexivity.
  - rewrite write_name_quoted by assumption. destruct its as [|i r]; simpl map; simpl is_nil; cbv iota.
    + simpl app. rewrite ft_open_i. rewrite <- app_assoc. rewrite (ft_quoted sLabels tQString sLabels) by auto.
      simpl app. rewrite ft_close. reflexivity.
    + inversion Hok as [|? ? Hi Hr]; subst.
      simpl join_items. simpl app. rewrite ft_open_i. repeat rewrite <- app_assoc.
      rewrite (ft_quoted sLabels tQString sLabels) by auto. simpl app. rewrite ft_comma.
      repeat rewrite <- app_assoc.
      rewrite ft_item by assumption. change ([125] ++ 32 :: X) with (125 :: 32 :: X).
      rewrite ft_tail_items by assumption.
      repeat rewrite <- app_assoc. reflexivity.
Qed.

Transparent quoted.

Definition rawname (nm : bstr) : bstr := if is_legacy_name nm then nm else escape true nm.

Section LineParse.
Variable O : oracles.
Variable tu : bool.

Lemma prom_line_head : forall tc nm its v R0, Forall item_ok its ->
  prom_line O tu tc (head_toks nm its ++ (tValue, v) :: R0) =
  prom_series O tu tc (Some (rawname nm)) (map raw its) ((tValue, v) :: R0).
Proof.
  intros tc nm its v R0 Hok. remember ((tValue, v) :: R0) as R eqn:HR. unfold head_toks, rawname.
  destruct (is_legacy_name nm) eqn:E; destruct its as [|i r].
  - subst R. reflexivity.
  - inversion Hok as [|? ? Hi Hr]; subst R.
    change (((tMName, nm) :: (tBraceOpen, [123]) :: (item_toks i ++ comma_items r) ++ [(tBraceClose, [125])]) ++ (tValue, v) :: R0)
      with ((tMName, nm) :: (tBraceOpen, [123]) :: ((item_toks i ++ comma_items r) ++ [(tBraceClose, [125])]) ++ (tValue, v) :: R0).
    repeat rewrite <- app_assoc.
    change ([(tBraceClose, [125])] ++ (tValue, v) :: R0) with ((tBraceClose, [125]) :: (tValue, v) :: R0).
    unfold prom_line. rewrite parse_lvals_items by assumption. reflexivity.
  - subst R. simpl. rewrite strip_ends_q. reflexivity.
  - inversion Hok as [|? ? Hi Hr]; subst R.
    change (((tBraceOpen, [123]) :: (tQString, quoted nm) :: (tComma, [44]) :: (item_toks i ++ comma_items r) ++ [(tBraceClose, [125])]) ++ (tValue, v) :: R0)
      with ((tBraceOpen, [123]) :: (tQString, quoted nm) :: (tComma, [44]) :: ((item_toks i ++ comma_items r) ++ [(tBraceClose, [125])]) ++ (tValue, v) :: R0).
    repeat rewrite <- app_assoc.
    change ([(tBraceClose, [125])] ++ (tValue, v) :: R0) with ((tBraceClose, [125]) :: (tValue, v) :: R0).
    unfold prom_line.
    change (parse_lvals false false None [] ((tQString, quoted nm) :: (tComma, [44]) :: item_toks i ++ comma_items r ++ (tBraceClose, [125]) :: (tValue, v) :: R0))
      with (parse_lvals false false (Some (strip_ends (quoted nm))) [] (item_toks i ++ comma_items r ++ (tBraceClose, [125]) :: (tValue, v) :: R0)).
    rewrite parse_lvals_items by assumption. rewrite strip_ends_q. reflexivity.
Qed.
End LineParse.

(* ------------------------------------------------------------------ oracle assumptions *)
(* the characters strconv.FormatFloat(_, 'g', -1, 64) and the NaN/Inf spellings consist of *)
Definition is_fchar (c : N) : bool :=
  is_digit c || (c =? 43) || (c =? 45) || (c =? 46) || (c =? 101) || (c =? 78) || (c =? 97) ||
  (c =? 73) || (c =? 110) || (c =? 102).

Record oracle_ok (O : oracles) : Prop := {
  ok_shape : forall f, o_ftext O f <> [] /\ forallb is_fchar (o_ftext O f) = true;
  ok_parse : forall f, exists b, o_pfloat O (o_ftext O f) = Some b /\ canon_nan b = canon_txt f;
  ok_norm : forall f, o_norm O (o_ftext O f) = Some (o_fom O f);
  ok_int : forall z, (0 <= z)%Z ->
           o_fint O z <> [] /\ forallb is_digit (o_fint O z) = true /\ o_pint O (o_fint O z) = Some z }.

Lemma fchar_facts : forall c, is_fchar c = true ->
  is_valchar c = true /\ plain c = true /\ (c <? 128) = true /\
  ((c =? 112) || (c =? 80) || (c =? 95)) = false.
Proof. intros c H. unfold is_fchar, plain in *. repeat split; blia. Qed.

Lemma forallb_fchar : forall s, forallb is_fchar s = true ->
  forallb is_valchar s = true /\ forallb plain s = true /\ forallb (fun c => c <? 128) s = true /\
  existsb (fun c => (c =? 112) || (c =? 80) || (c =? 95)) s = false.
Proof.
  induction s as [|c s IH]; simpl; intros H; [auto|].
  apply andb_true_iff in H as [Hc Hs]. destruct (fchar_facts c Hc) as (A & B & C & D).
  destruct (IH Hs) as (A' & B' & C' & D'). rewrite A, B, C, D, A', B', C', D'. auto.
Qed.

Lemma plain_clean : forall s, forallb plain s = true -> forallb clean s = true.
Proof. intros s. apply forallb_imp. intros c H. unfold plain, clean in *. blia. Qed.

Lemma quoted_plain_ascii_utf8 : forall s, forallb plain s = true -> forallb (fun c => c <? 128) s = true ->
  utf8_valid (quoted s) = true.
Proof.
  intros s Hp Ha. unfold quoted. rewrite (escape_plain true s Hp). apply utf8_ascii.
  simpl. rewrite forallb_app, Ha. reflexivity.
Qed.

(* ------------------------------------------------------------------ lines *)
Definition lines_of (b : bstr) : list (list tok) := split_after (tok_is tLinebreak) [] (ftoks sInit b).
Definition nolb (t : tok) : bool := negb (tok_is tLinebreak t).

Lemma split_after_line : forall body cur T, forallb nolb body = true ->
  split_after (tok_is tLinebreak) cur (body ++ (tLinebreak, [10]) :: T) =
  (rev cur ++ body ++ [(tLinebreak, [10])]) :: split_after (tok_is tLinebreak) [] T.
Proof.
  induction body as [|t body IH]; intros cur T H; simpl in *.
  - reflexivity.
  - apply andb_true_iff in H as [Ht Hb]. unfold nolb in Ht. apply negb_true_iff in Ht. rewrite Ht.
    rewrite IH by assumption. simpl. rewrite <- app_assoc. reflexivity.
Qed.

Section TextProofs.
Variable O : oracles.
Variable tu : bool.
Hypothesis HO : oracle_ok O.

Definition Lfun := fun (tc : N) (_ : bstr) (l : list tok) => prom_line O tu tc l.

Definition parses (tc : N) (b : bstr) (es : list entry) (tc' : N) : Prop :=
  forall rest, run_lines Lfun tc [] (lines_of (b ++ rest)) =
               (es ++ fst (run_lines Lfun tc' [] (lines_of rest)), snd (run_lines Lfun tc' [] (lines_of rest))).

Lemma parses_nil : forall tc, parses tc [] [] tc.
Proof. intros tc rest. simpl. now destruct (run_lines Lfun tc [] (lines_of rest)). Qed.

Lemma parses_app : forall tc b1 es1 tc1 b2 es2 tc2,
  parses tc b1 es1 tc1 -> parses tc1 b2 es2 tc2 -> parses tc (b1 ++ b2) (es1 ++ es2) tc2.
Proof.
  intros tc b1 es1 tc1 b2 es2 tc2 H1 H2 rest. rewrite <- app_assoc. rewrite H1. rewrite H2. simpl.
  now rewrite <- app_assoc.
Qed.

Lemma parses_line : forall tc l body e tc',
  (forall rest, ftoks sInit (l ++ rest) = body ++ (tLinebreak, [10]) :: ftoks sInit rest) ->
  forallb nolb body = true ->
  prom_line O tu tc (body ++ [(tLinebreak, [10])]) = LEntry e tc' [] ->
  parses tc l [e] tc'.
Proof.
  intros tc l body e tc' Hl Hb Hp rest. unfold lines_of. rewrite Hl.
  rewrite split_after_line by assumption. simpl rev. simpl app at 1.
  simpl run_lines. unfold Lfun at 1. rewrite Hp.
  fold (lines_of rest). now destruct (run_lines Lfun tc' [] (lines_of rest)).
Qed.

(* ---- the value / timestamp part of a sample line *)
Definition ts_ok (ts : option Z) : Prop := match ts with Some t => (0 <= t)%Z | None => True end.
Definition ts_bytes (ts : option Z) : bstr := match ts with Some t => 32 :: o_fint O t | None => [] end.
Definition ts_toks (ts : option Z) : list tok := match ts with Some t => [(tTimestamp, o_fint O t)] | None => [] end.

Lemma ft_value_ts : forall f ts rest, ts_ok ts ->
  ftoks sValue (32 :: o_ftext O f ++ ts_bytes ts ++ 10 :: rest) =
  (tValue, o_ftext O f) :: ts_toks ts ++ (tLinebreak, [10]) :: ftoks sInit rest.
Proof.
  intros f ts rest Hts. destruct (ok_shape O HO f) as [Hne Hf].
  destruct (forallb_fchar _ Hf) as (Hv & _).
  destruct ts as [t|]; simpl ts_bytes; simpl ts_toks.
  - destruct (ok_int O HO t Hts) as (Hn & Hd & _).
    simpl app. rewrite ft_value by (auto; reflexivity).
    rewrite ft_ts by assumption. rewrite ft_lb_ts. reflexivity.
  - simpl app. rewrite ft_value by (auto; reflexivity). rewrite ft_lb_ts. reflexivity.
Qed.

Lemma prom_series_value : forall tc rn raws f ts, ts_ok ts ->
  prom_series O tu tc (Some rn) raws ((tValue, o_ftext O f) :: ts_toks ts ++ [(tLinebreak, [10])]) =
  LEntry (OS (parsed_labels O tu tc [] rn raws) (canon_txt f) ts [] 0%Z) tc [].
Proof.
  intros tc rn raws f ts Hts. destruct (ok_shape O HO f) as [Hne Hf].
  destruct (forallb_fchar _ Hf) as (_ & _ & _ & Hp).
  destruct (ok_parse O HO f) as (b & Hb & Hc).
  unfold prom_series, parse_float. rewrite Hp, Hb, Hc.
  destruct ts as [t|]; simpl.
  - destruct (ok_int O HO t Hts) as (_ & _ & Hi). rewrite Hi. reflexivity.
  - reflexivity.
Qed.

(* ---- no linebreak token inside a line *)
Lemma nolb_items : forall i r, forallb nolb (item_toks i ++ comma_items r) = true.
Proof.
  intros i r. rewrite forallb_app. apply andb_true_iff; split.
  - unfold item_toks, name_tok. destruct (is_legacy_name (fst i)); reflexivity.
  - induction r as [|j r IH]; simpl; auto. unfold name_tok. destruct (is_legacy_name (fst j)); simpl; auto.
Qed.

Lemma nolb_head : forall nm its, forallb nolb (head_toks nm its) = true.
Proof.
  intros nm its. unfold head_toks. destruct (is_legacy_name nm); destruct its as [|i r]; try reflexivity.
  - simpl. rewrite forallb_app. rewrite nolb_items. reflexivity.
  - simpl. rewrite forallb_app. rewrite nolb_items. reflexivity.
Qed.

Lemma sample_parses : forall tc nm ls extra its f ts,
  name_ok nm -> map pair_item ls ++ extra = map pair_item its -> Forall item_ok its -> ts_ok ts ->
  parses tc (name_and_labels nm ls extra ++ [32] ++ o_ftext O f ++ ts_bytes ts ++ [10])
         [OS (parsed_labels O tu tc [] (rawname nm) (map raw its)) (canon_txt f) ts [] 0%Z] tc.
Proof.
  intros tc nm ls extra its f ts Hn Hits Hok Hts.
  apply parses_line with (body := head_toks nm its ++ (tValue, o_ftext O f) :: ts_toks ts).
  - intros rest. repeat rewrite <- app_assoc. simpl app.
    rewrite (ft_head nm ls extra its) by assumption.
    rewrite ft_value_ts by assumption. repeat rewrite <- app_assoc. reflexivity.
  - rewrite forallb_app, nolb_head. destruct ts; reflexivity.
  - rewrite <- app_assoc. simpl app. rewrite prom_line_head by assumption.
    apply prom_series_value. assumption.
Qed.
End TextProofs.

(* proof/IntervalsProofs.v — proofs about model/Intervals.v (tombstones.Intervals.Add).
   Route: (1) characterise the binary search on a false*/true* predicate; (2) split a
   canonical list L ++ M ++ R at the two thresholds used by Add and show that the model's
   mini/maxi are |L| and |M| (also when a search is skipped by the overflow guards);
   (3) show the result is L ++ [glue n M] ++ R; (4) prove canonicity and coverage of that. *)
From Coq Require Import List ZArith Bool Lia Arith.
From Verif Require Import lib.Int64 model.Intervals.
Import ListNotations.
Open Scope Z_scope.

(* ------------------------------------------------------------------ *)
(* 1. binary search                                                    *)

Lemma div2_bounds (i j : nat) : (i < j)%nat -> (i <= Nat.div2 (i + j) < j)%nat.
Proof.
  intros Hij. pose proof (Nat.div2_odd (i + j)) as E.
  destruct (Nat.odd (i + j)); cbn [Nat.b2n] in E; lia.
Qed.

Lemma bsearch_char (fuel : nat) : forall (i j : nat) (f : nat -> bool) (k : nat),
  (i <= k <= j)%nat -> (j - i < fuel)%nat ->
  (forall x, (i <= x < k)%nat -> f x = false) ->
  (forall x, (k <= x < j)%nat -> f x = true) ->
  bsearch fuel i j f = k.
Proof.
  induction fuel as [|fuel IH]; intros i j f k Hk Hfuel Hlo Hhi.
  - lia.
  - cbn [bsearch]. destruct (Nat.ltb_spec i j) as [Hij|Hij].
    + cbv zeta. pose proof (div2_bounds i j Hij) as Hh.
      destruct (f (Nat.div2 (i + j))) eqn:Efh.
      * assert (Hkh : (k <= Nat.div2 (i + j))%nat).
        { destruct (Nat.le_gt_cases k (Nat.div2 (i + j))) as [Hle|Hlt]; [exact Hle|].
          rewrite Hlo in Efh by lia. discriminate Efh. }
        apply IH; [lia|lia| |].
        -- intros x Hx. apply Hlo. lia.
        -- intros x Hx. apply Hhi. lia.
      * assert (Hhk : (Nat.div2 (i + j) < k)%nat).
        { destruct (Nat.le_gt_cases k (Nat.div2 (i + j))) as [Hle|Hlt]; [|exact Hlt].
          rewrite Hhi in Efh by lia. discriminate Efh. }
        apply IH; [lia|lia| |].
        -- intros x Hx. apply Hlo. lia.
        -- intros x Hx. apply Hhi. lia.
    + lia.
Qed.

Lemma search_char (n : nat) (f : nat -> bool) (k : nat) :
  (k <= n)%nat ->
  (forall x, (x < k)%nat -> f x = false) ->
  (forall x, (k <= x < n)%nat -> f x = true) ->
  search n f = k.
Proof.
  intros Hk Hlo Hhi. unfold search. apply bsearch_char.
  - lia.
  - lia.
  - intros x Hx. apply Hlo. lia.
  - intros x Hx. apply Hhi. lia.
Qed.

(* ------------------------------------------------------------------ *)
(* 2. list helpers                                                     *)

Lemma at_app1 (L X : list interval) (i : nat) :
  (i < length L)%nat -> In (at_ (L ++ X) i) L.
Proof.
  intros Hi. unfold at_. rewrite app_nth1 by exact Hi. apply nth_In. exact Hi.
Qed.

Lemma at_app2 (L X : list interval) (i : nat) :
  (length L <= i < length L + length X)%nat -> In (at_ (L ++ X) i) X.
Proof.
  intros Hi. unfold at_. rewrite app_nth2 by lia. apply nth_In. lia.
Qed.

Lemma at_app_plus (L X : list interval) (i : nat) :
  at_ (L ++ X) (length L + i) = at_ X i.
Proof. unfold at_. apply app_nth2_plus. Qed.

Lemma firstn_len_app (L X : list interval) : firstn (length L) (L ++ X) = L.
Proof. induction L as [|a L IH]; cbn [length firstn app]; [destruct X; reflexivity|]. rewrite IH. reflexivity. Qed.

Lemma skipn_len_app (L X : list interval) : skipn (length L) (L ++ X) = X.
Proof. induction L as [|a L IH]; cbn [length skipn app]; [reflexivity|exact IH]. Qed.

Lemma nth_error_last (M : list interval) :
  M <> [] -> nth_error M (length M - 1) = Some (last M dummy).
Proof.
  induction M as [|a M IH]; intros Hne; [congruence|].
  destruct M as [|b M'].
  - reflexivity.
  - change (last (a :: b :: M') dummy) with (last (b :: M') dummy).
    rewrite <- IH by congruence.
    cbn [length]. replace (S (S (length M')) - 1)%nat with (S (S (length M') - 1)) by lia.
    reflexivity.
Qed.

(* ------------------------------------------------------------------ *)
(* 3. canonical lists: strong (transitive) form and append             *)

Definition lt_iv (a b : interval) : Prop := imax a + 1 < imin b.

Fixpoint canonS (l : list interval) : Prop :=
  match l with
  | [] => True
  | a :: t => wf_iv a /\ Forall (lt_iv a) t /\ canonS t
  end.

Lemma canonical_canonS (l : list interval) : canonical l <-> canonS l.
Proof.
  induction l as [|a t IH].
  - cbn. tauto.
  - cbn [canonical canonS]. split.
    + intros (Hwa & Hhd & Ht). apply IH in Ht. split; [exact Hwa|]. split; [|exact Ht].
      destruct t as [|b t']; [constructor|].
      cbn [canonS] in Ht. destruct Ht as (Hwb & Hbt & _).
      constructor; [exact Hhd|].
      eapply Forall_impl; [|exact Hbt].
      intros c Hbc. unfold lt_iv in *. unfold wf_iv in Hwb. lia.
    + intros (Hwa & Hat & Ht). split; [exact Hwa|]. split; [|apply IH; exact Ht].
      destruct t as [|b t']; [exact I|].
      inversion Hat as [|? ? Hab _]; subst. exact Hab.
Qed.

Lemma canonS_app (l1 l2 : list interval) :
  canonS (l1 ++ l2) <->
  canonS l1 /\ canonS l2 /\ (forall a b, In a l1 -> In b l2 -> lt_iv a b).
Proof.
  induction l1 as [|a l1 IH].
  - cbn [app canonS]. split.
    + intros H. split; [exact I|]. split; [exact H|]. intros a b Ha. destruct Ha.
    + intros (_ & H & _). exact H.
  - cbn [app canonS]. rewrite IH, Forall_app, !Forall_forall. split.
    + intros (Hwa & (Ha1 & Ha2) & Hc1 & Hc2 & Hx).
      split; [split; [exact Hwa|split; [exact Ha1|exact Hc1]]|]. split; [exact Hc2|].
      intros x b [Hx1|Hx1] Hb; [subst x; apply Ha2; exact Hb|apply Hx; assumption].
    + intros ((Hwa & Ha1 & Hc1) & Hc2 & Hx).
      split; [exact Hwa|]. split; [split|].
      * exact Ha1.
      * intros b Hb. apply Hx; [left; reflexivity|exact Hb].
      * split; [exact Hc1|]. split; [exact Hc2|].
        intros x b Hx1 Hb. apply Hx; [right; exact Hx1|exact Hb].
Qed.

Lemma canonS_wf (l : list interval) : canonS l -> forall a, In a l -> wf_iv a.
Proof.
  induction l as [|x l IH]; intros Hc a Ha; [destruct Ha|].
  cbn [canonS] in Hc. destruct Hc as (Hwx & _ & Hl).
  destruct Ha as [->|Ha]; [exact Hwx|apply IH; assumption].
Qed.

(* the last element of a canonical list is in it and has the largest imax *)
Lemma canonS_last (M : list interval) :
  canonS M -> M <> [] ->
  In (last M dummy) M /\ forall m, In m M -> imax m <= imax (last M dummy).
Proof.
  induction M as [|a M IH]; intros Hc Hne; [congruence|].
  destruct M as [|b M'].
  - cbn. split; [left; reflexivity|]. intros m [->|[]]. lia.
  - change (last (a :: b :: M') dummy) with (last (b :: M') dummy).
    destruct Hc as (Hwa & Hat & Hc).
    destruct (IH Hc ltac:(congruence)) as (Hin & Hmax).
    split; [right; exact Hin|].
    intros m [->|Hm]; [|apply Hmax; exact Hm].
    rewrite Forall_forall in Hat. specialize (Hat _ Hin).
    pose proof (canonS_wf _ Hc _ Hin) as Hwz.
    unfold lt_iv in Hat. unfold wf_iv in Hwz. lia.
Qed.

(* the first element has the smallest imin *)
Lemma canonS_head (a : interval) (M : list interval) :
  canonS (a :: M) -> forall m, In m (a :: M) -> imin a <= imin m.
Proof.
  cbn [canonS]. intros (Hwa & Hat & _) m [->|Hm]; [lia|].
  rewrite Forall_forall in Hat. specialize (Hat _ Hm).
  unfold lt_iv in Hat. unfold wf_iv in Hwa. lia.
Qed.

(* split a canonical list at a predicate that is monotone along the order *)
Lemma canonS_split (p : interval -> bool) :
  (forall a b, wf_iv a -> wf_iv b -> lt_iv a b -> p a = true -> p b = true) ->
  forall l, canonS l ->
  exists L R, l = L ++ R /\ (forall a, In a L -> p a = false) /\ (forall a, In a R -> p a = true).
Proof.
  intros Hmono l. induction l as [|a t IH]; intros Hc.
  - exists [], []. repeat split; intros a [].
  - pose proof (canonS_wf _ Hc) as Hwf.
    cbn [canonS] in Hc. destruct Hc as (Hwa & Hat & Hct).
    destruct (p a) eqn:Epa.
    + exists [], (a :: t). split; [reflexivity|]. split; [intros x []|].
      intros x [->|Hx]; [exact Epa|].
      rewrite Forall_forall in Hat.
      apply (Hmono a x); [exact Hwa|apply Hwf; right; exact Hx|apply Hat; exact Hx|exact Epa].
    + destruct (IH Hct) as (L & R & Heq & HL & HR).
      exists (a :: L), R. split; [cbn [app]; rewrite Heq; reflexivity|]. split; [|exact HR].
      intros x [->|Hx]; [exact Epa|apply HL; exact Hx].
Qed.

(* ------------------------------------------------------------------ *)
(* 4. the shape of the result                                          *)

Definition glue (n : interval) (M : list interval) : interval :=
  match M with
  | [] => n
  | a :: _ => mkI (if imin n <? imin a then imin n else imin a)
                  (Z.max (imax n) (imax (last M dummy)))
  end.

Record split3 (ivs : list interval) (n : interval) (L M R : list interval) : Prop := {
  s3_eq : ivs = L ++ M ++ R;
  s3_L  : forall a, In a L -> imax a + 1 < imin n;
  s3_MR : forall a, In a (M ++ R) -> imin n <= imax a + 1;
  s3_M  : forall a, In a M -> imin a <= imax n + 1;
  s3_R  : forall a, In a R -> imax n + 1 < imin a
}.

Lemma split3_exists (ivs : list interval) (n : interval) :
  canonS ivs -> exists L M R, split3 ivs n L M R.
Proof.
  intros Hc.
  destruct (canonS_split (fun a => imax a >=? imin n - 1)) with (l := ivs)
    as (L & MR & Heq1 & HL & HMR); [|exact Hc|].
  { intros a b Hwa Hwb Hab Hpa. unfold lt_iv in Hab. unfold wf_iv in Hwa, Hwb.
    rewrite Z.geb_leb in *. rewrite Z.leb_le in *. lia. }
  assert (HcMR : canonS MR). { rewrite Heq1 in Hc. apply canonS_app in Hc. tauto. }
  destruct (canonS_split (fun a => imin a >? imax n + 1)) with (l := MR)
    as (M & R & Heq2 & HM & HR); [|exact HcMR|].
  { intros a b Hwa Hwb Hab Hpa. unfold lt_iv in Hab. unfold wf_iv in Hwa, Hwb.
    rewrite Z.gtb_ltb in *. rewrite Z.ltb_lt in *. lia. }
  exists L, M, R. constructor.
  - rewrite Heq1, Heq2. reflexivity.
  - intros a Ha. specialize (HL a Ha). cbv beta in HL.
    rewrite Z.geb_leb in HL. apply Z.leb_gt in HL. lia.
  - intros a Ha. rewrite <- Heq2 in Ha. specialize (HMR a Ha). cbv beta in HMR.
    rewrite Z.geb_leb in HMR. apply Z.leb_le in HMR. lia.
  - intros a Ha. specialize (HM a Ha). cbv beta in HM.
    rewrite Z.gtb_ltb in HM. apply Z.ltb_ge in HM. lia.
  - intros a Ha. specialize (HR a Ha). cbv beta in HR.
    rewrite Z.gtb_ltb in HR. apply Z.ltb_lt in HR. lia.
Qed.

Lemma add_shape (ivs : list interval) (n : interval) (L M R : list interval) :
  canonS ivs -> wf_iv n -> split3 ivs n L M R ->
  add ivs n = Ok (L ++ [glue n M] ++ R).
Proof.
  intros Hc Hwn [Heq HL HMR HM HR].
  pose proof (canonS_wf _ Hc) as Hwf.
  assert (Hlen : length ivs = (length L + (length M + length R))%nat).
  { rewrite Heq, !app_length. reflexivity. }
  (* the model's mini is |L| *)
  assert (Hmini : (if imin n =? minInt64 then 0%nat
                   else search (length ivs) (fun i => imax (at_ ivs i) >=? imin n - 1))
                  = length L).
  { destruct (Z.eqb_spec (imin n) minInt64) as [Emin|Emin].
    - destruct L as [|a L']; [reflexivity|exfalso].
      assert (Hwa : wf_iv a). { apply Hwf. rewrite Heq. left. reflexivity. }
      specialize (HL a (or_introl eq_refl)). unfold wf_iv, int64 in Hwa. lia.
    - apply search_char.
      + lia.
      + intros x Hx. rewrite Heq. pose proof (at_app1 L (M ++ R) x Hx) as Hin.
        specialize (HL _ Hin). rewrite Z.geb_leb. apply Z.leb_gt. lia.
      + intros x Hx. rewrite Heq.
        assert (Hin : In (at_ (L ++ M ++ R) x) (M ++ R)).
        { apply at_app2. rewrite app_length. lia. }
        specialize (HMR _ Hin). rewrite Z.geb_leb. apply Z.leb_le. lia. }
  (* the model's maxi is |M| *)
  assert (Hmaxi : (if imax n =? maxInt64 then (length ivs - length L)%nat
                   else search (length ivs - length L)
                          (fun i => imin (at_ ivs (length L + i)) >? imax n + 1))
                  = length M).
  { destruct (Z.eqb_spec (imax n) maxInt64) as [Emax|Emax].
    - destruct R as [|a R'].
      + rewrite Hlen. cbn [length]. lia.
      + exfalso.
        assert (Hwa : wf_iv a).
        { apply Hwf. rewrite Heq. apply in_or_app. right. apply in_or_app. right. left. reflexivity. }
        specialize (HR a (or_introl eq_refl)). unfold wf_iv, int64 in Hwa. lia.
    - apply search_char.
      + lia.
      + intros x Hx. rewrite Heq, at_app_plus.
        pose proof (at_app1 M R x Hx) as Hin.
        specialize (HM _ Hin). rewrite Z.gtb_ltb. apply Z.ltb_ge. lia.
      + intros x Hx. rewrite Heq, at_app_plus.
        assert (Hin : In (at_ (M ++ R) x) R). { apply at_app2. lia. }
        specialize (HR _ Hin). rewrite Z.gtb_ltb. apply Z.ltb_lt. lia. }
  unfold add, add_gen. cbv beta iota zeta.
  destruct (Nat.eqb_spec (length ivs) 0) as [El0|El0].
  { (* empty input *)
    destruct L; [|cbn [length] in Hlen; lia].
    destruct M; [|cbn [length] in Hlen; lia].
    destruct R; [|cbn [length] in Hlen; lia].
    reflexivity. }
  rewrite Hmini.
  destruct (negb (imin n =? minInt64) && Nat.eqb (length L) (length ivs)) eqn:Eapp.
  { (* append at the end *)
    apply andb_true_iff in Eapp. destruct Eapp as [_ Eapp]. apply Nat.eqb_eq in Eapp.
    destruct M; [|cbn [length] in Hlen; lia].
    destruct R; [|cbn [length] in Hlen; lia].
    rewrite Heq. cbn [glue app]. rewrite !app_nil_r. reflexivity. }
  rewrite Hmaxi.
  destruct (negb (imax n =? maxInt64) && Nat.eqb (length M) 0) eqn:Eins.
  { (* plain insertion *)
    apply andb_true_iff in Eins. destruct Eins as [_ Eins]. apply Nat.eqb_eq in Eins.
    destruct M; [|cbn [length] in Eins; lia].
    rewrite Heq. cbn [glue app]. rewrite firstn_len_app, skipn_len_app. reflexivity. }
  (* merge: M is not empty *)
  assert (HMne : M <> []).
  { intros ->. cbn [length] in *. change (Nat.eqb 0 0) with true in Eins.
    rewrite andb_true_r in Eins. apply andb_false_iff in Eapp.
    apply negb_false_iff in Eins. rewrite Eins in Hmaxi.
    destruct Eapp as [Eapp|Eapp].
    - apply negb_false_iff in Eapp. rewrite Eapp in Hmini. lia.
    - apply Nat.eqb_neq in Eapp. lia. }
  destruct M as [|a M']; [congruence|].
  assert (Hn1 : nth_error ivs (length L) = Some a).
  { rewrite Heq. rewrite nth_error_app2 by lia. rewrite Nat.sub_diag. reflexivity. }
  assert (Hn2 : nth_error ivs (length (a :: M') + length L - 1) = Some (last (a :: M') dummy)).
  { rewrite Heq. rewrite nth_error_app2 by (cbn [length]; lia).
    replace (length (a :: M') + length L - 1 - length L)%nat with (length (a :: M') - 1)%nat
      by (cbn [length]; lia).
    rewrite nth_error_app1 by (cbn [length]; lia).
    apply nth_error_last. congruence. }
  rewrite Hn1, Hn2.
  destruct (Nat.ltb_spec (length ivs) (length (a :: M') + length L)) as [Hlt|Hge]; [lia|].
  f_equal. f_equal.
  - rewrite Heq. apply firstn_len_app.
  - f_equal.
    rewrite Heq, app_assoc.
    replace (length (a :: M') + length L)%nat with (length (L ++ a :: M')) by (rewrite app_length; lia).
    apply skipn_len_app.
Qed.

(* ------------------------------------------------------------------ *)
(* 5. the glued list is canonical and covers the right set             *)

Lemma glue_spec (ivs : list interval) (n : interval) (L M R : list interval) :
  canonS ivs -> wf_iv n -> split3 ivs n L M R ->
  canonS (L ++ [glue n M] ++ R) /\
  forall t, covered (L ++ [glue n M] ++ R) t <-> covered ivs t \/ imin n <= t <= imax n.
Proof.
  intros Hc Hwn [Heq HL HMR HM HR].
  pose proof (canonS_wf _ Hc) as Hwf.
  rewrite Heq in Hc, Hwf.
  apply canonS_app in Hc. destruct Hc as (HcL & HcMR & HLMR).
  apply canonS_app in HcMR. destruct HcMR as (HcM & HcR & HMR').
  assert (HwM : forall m, In m M -> wf_iv m).
  { intros m Hm. apply Hwf. apply in_or_app. right. apply in_or_app. left. exact Hm. }
  (* what we need to know about the glued interval g *)
  assert (Hg : wf_iv (glue n M) /\
               (forall l, In l L -> lt_iv l (glue n M)) /\
               (forall r, In r R -> lt_iv (glue n M) r) /\
               (forall t, imin (glue n M) <= t <= imax (glue n M) <->
                          Exists (fun i => imin i <= t <= imax i) M \/ imin n <= t <= imax n)).
  { destruct M as [|a M'].
    - cbn [glue]. split; [exact Hwn|]. split; [|split].
      + intros l Hl. unfold lt_iv. apply HL. exact Hl.
      + intros r Hr. unfold lt_iv. apply HR. exact Hr.
      + intros t. rewrite Exists_nil. tauto.
    - destruct (canonS_last (a :: M') HcM ltac:(congruence)) as (Hzin & Hzmax).
      pose proof (canonS_head a M' HcM) as Hamin.
      set (z := last (a :: M') dummy) in *.
      assert (Hain : In a (a :: M')) by (left; reflexivity).
      pose proof (HwM a Hain) as Hwa. pose proof (HwM z Hzin) as Hwz.
      pose proof (HM a Hain) as HMa. pose proof (HM z Hzin) as HMz.
      pose proof (HMR a (in_or_app _ _ _ (or_introl Hain))) as HMRa.
      pose proof (HMR z (in_or_app _ _ _ (or_introl Hzin))) as HMRz.
      pose proof (Hzmax a Hain) as Haz.
      cbn [glue]. fold z.
      unfold wf_iv, int64 in Hwa, Hwz, Hwn |- *. unfold lt_iv. cbn [imin imax].
      split; [|split; [|split]].
      + destruct (Z.ltb_spec (imin n) (imin a)); lia.
      + intros l Hl. pose proof (HL l Hl) as H1.
        pose proof (HLMR l a Hl (in_or_app _ _ _ (or_introl Hain))) as H2. unfold lt_iv in H2.
        destruct (Z.ltb_spec (imin n) (imin a)); lia.
      + intros r Hr. pose proof (HR r Hr) as H1.
        pose proof (HMR' z r Hzin Hr) as H2. unfold lt_iv in H2. lia.
      + intros t. rewrite Exists_exists. split.
        * intros Ht.
          destruct (Z.lt_ge_cases t (imin n)) as [Hlo|Hlo].
          -- left. exists a. split; [exact Hain|].
             destruct (Z.ltb_spec (imin n) (imin a)); lia.
          -- destruct (Z.lt_ge_cases (imax n) t) as [Hhi|Hhi].
             ++ left. exists z. split; [exact Hzin|]. lia.
             ++ right. lia.
        * intros [(m & Hm & Hmt)|Hnt].
          -- pose proof (Hamin m Hm) as H1. pose proof (Hzmax m Hm) as H2.
             destruct (Z.ltb_spec (imin n) (imin a)); lia.
          -- destruct (Z.ltb_spec (imin n) (imin a)); lia. }
  destruct Hg as (Hwg & HLg & HgR & Hcov).
  split.
  - apply canonS_app. split; [exact HcL|]. split.
    + apply canonS_app. split; [|split].
      * cbn [canonS]. split; [exact Hwg|]. split; [constructor|exact I].
      * exact HcR.
      * intros x r [<-|[]] Hr. apply HgR. exact Hr.
    + intros l b Hl Hb. apply in_app_or in Hb. destruct Hb as [[<-|[]]|Hb].
      * apply HLg. exact Hl.
      * apply HLMR; [exact Hl|]. apply in_or_app. right. exact Hb.
  - intros t. unfold covered. rewrite Heq.
    rewrite !Exists_app, Exists_cons, Exists_nil, Hcov. tauto.
Qed.

(* ------------------------------------------------------------------ *)
(* 6. the lemmas used by props/C20.v                                   *)

Lemma add_total : forall ivs n, canonical ivs -> wf_iv n -> exists r, add ivs n = Ok r.
Proof.
  intros ivs n Hc Hwn. apply canonical_canonS in Hc.
  destruct (split3_exists ivs n Hc) as (L & M & R & Hs).
  eexists. apply (add_shape ivs n L M R Hc Hwn Hs).
Qed.

Lemma add_canonical : forall ivs n r, canonical ivs -> wf_iv n -> add ivs n = Ok r ->
  canonical r /\ forall t, covered r t <-> covered ivs t \/ imin n <= t <= imax n.
Proof.
  intros ivs n r Hc Hwn Hadd. apply canonical_canonS in Hc.
  destruct (split3_exists ivs n Hc) as (L & M & R & Hs).
  rewrite (add_shape ivs n L M R Hc Hwn Hs) in Hadd.
  injection Hadd as <-.
  destruct (glue_spec ivs n L M R Hc Hwn Hs) as (Hcr & Hcov).
  split; [apply canonical_canonS; exact Hcr|exact Hcov].
Qed.

Lemma fold_add_spec : forall ns acc, canonical acc -> Forall wf_iv ns ->
  exists r, fold_add acc ns = Ok r /\ canonical r /\
            forall t, covered r t <-> covered acc t \/ Exists (fun n => imin n <= t <= imax n) ns.
Proof.
  induction ns as [|n ns IH]; intros acc Hc Hwf.
  - exists acc. split; [reflexivity|]. split; [exact Hc|].
    intros t. rewrite Exists_nil. tauto.
  - inversion Hwf as [|? ? Hwn Hwns]; subst.
    destruct (add_total acc n Hc Hwn) as (r1 & Hadd).
    destruct (add_canonical acc n r1 Hc Hwn Hadd) as (Hc1 & Hcov1).
    destruct (IH r1 Hc1 Hwns) as (r & Hfold & Hcr & Hcovr).
    exists r. cbn [fold_add]. rewrite Hadd. split; [exact Hfold|]. split; [exact Hcr|].
    intros t. rewrite Hcovr, Hcov1, Exists_cons. tauto.
Qed.

Lemma adds_reachable : forall ns, Forall wf_iv ns ->
  exists r, fold_add [] ns = Ok r /\ canonical r /\
            forall t, covered r t <-> Exists (fun n => imin n <= t <= imax n) ns.
Proof.
  intros ns Hwf.
  destruct (fold_add_spec ns [] I Hwf) as (r & Hfold & Hcr & Hcov).
  exists r. split; [exact Hfold|]. split; [exact Hcr|].
  intros t. rewrite Hcov. unfold covered. rewrite Exists_nil. tauto.
Qed.

Lemma nonvacuous_example : canonical [mkI 1 2; mkI 10 20] /\ wf_iv (mkI 5 maxInt64).
Proof.
  unfold wf_iv, int64, minInt64, maxInt64. cbn [canonical imin imax].
  unfold wf_iv, int64, minInt64, maxInt64. cbn [imin imax]. lia.
Qed.

Lemma add_old_refuted : exists ivs n, canonical ivs /\ wf_iv n /\ add_old ivs n = Panic.
Proof.
  exists [mkI 1 2; mkI 10 20], (mkI 5 maxInt64).
  destruct nonvacuous_example as (Hc & Hw).
  split; [exact Hc|]. split; [exact Hw|]. vm_compute. reflexivity.
Qed.

(* proof/CounterResetHintProofs.v — proofs for C12 over model/CounterResetHint.v *)
From Coq Require Import List ZArith Bool Lia.
From Verif Require Import model.CounterResetHint.
Import ListNotations.
Open Scope Z_scope.

(* ================================================================ bucket lists *)
(* strictly increasing bucket indices, all above lo *)
Fixpoint sorted_from (lo : Z) (l : list bk) : Prop :=
  match l with
  | [] => True
  | (i, _) :: r => lo < i /\ sorted_from i r
  end.
Definition srt (l : list bk) : Prop := exists lo, sorted_from lo l.
Definition nonneg (l : list bk) : Prop := Forall (fun b => 0 <= snd b) l.

Lemma sorted_from_weaken : forall l lo lo', lo' <= lo -> sorted_from lo l -> sorted_from lo' l.
Proof. destruct l as [|[i c] r]; simpl; intros; [auto|]. intuition lia. Qed.

Lemma srt_common : forall a b, srt a -> srt b -> exists lo, sorted_from lo a /\ sorted_from lo b.
Proof.
  intros a b [la Ha] [lb Hb]. exists (Z.min la lb). split.
  - eapply sorted_from_weaken; [|exact Ha]. lia.
  - eapply sorted_from_weaken; [|exact Hb]. lia.
Qed.

Lemma get_below : forall l lo i, sorted_from lo l -> i <= lo -> get l i = 0.
Proof.
  induction l as [|[j c] r IH]; simpl; intros lo i Hs Hi; [reflexivity|].
  destruct Hs as [Hlt Hs]. destruct (i =? j) eqn:E; [apply Z.eqb_eq in E; lia|].
  eapply IH; [exact Hs|lia].
Qed.

Lemma get_nonneg : forall l i, nonneg l -> 0 <= get l i.
Proof.
  induction l as [|[j c] r IH]; simpl; intros i Hn; [lia|].
  inversion Hn; subst. simpl in *. destruct (i =? j); auto.
Qed.

Lemma walk_nil_l : forall b, walk [] b = true.
Proof. destruct b; reflexivity. Qed.

Lemma walk_cons_nil : forall ai ac a', walk ((ai, ac) :: a') [] = if ac =? 0 then walk a' [] else false.
Proof. reflexivity. Qed.

Lemma walk_cons_cons : forall ai ac a' bi bc b',
  walk ((ai, ac) :: a') ((bi, bc) :: b') =
  if ai =? bi then (if ac >? bc then false else walk a' b')
  else if ai <? bi then (if ac =? 0 then walk a' ((bi, bc) :: b') else false)
  else walk ((ai, ac) :: a') b'.
Proof. reflexivity. Qed.

(* the verdict of expand*SpansAndBuckets: no bucket went down *)
Lemma walk_le : forall a b lo,
  sorted_from lo a -> sorted_from lo b -> nonneg b -> walk a b = true ->
  forall i, get a i <= get b i.
Proof.
  induction a as [|[ai ac] a' IHa].
  - intros b lo _ _ Hn _ i. simpl. apply get_nonneg; assumption.
  - induction b as [|[bi bc] b' IHb]; intros lo Ha Hb Hn Hw i.
    + rewrite walk_cons_nil in Hw. destruct (ac =? 0) eqn:E; [|discriminate].
      apply Z.eqb_eq in E. subst ac. destruct Ha as [Hlo Ha].
      specialize (IHa [] ai Ha I Hn Hw i). simpl in *. destruct (i =? ai); lia.
    + rewrite walk_cons_cons in Hw. destruct Ha as [Hloa Ha]. destruct Hb as [Hlob Hb].
      inversion Hn as [|x l Hbc Hn']; subst. simpl in Hbc.
      destruct (ai =? bi) eqn:E1.
      * apply Z.eqb_eq in E1. subst bi. destruct (ac >? bc) eqn:E2; [discriminate|].
        specialize (IHa b' ai Ha Hb Hn' Hw i). simpl. destruct (i =? ai); lia.
      * destruct (ai <? bi) eqn:E2.
        -- destruct (ac =? 0) eqn:E3; [|discriminate]. apply Z.eqb_eq in E3. subst ac.
           apply Z.ltb_lt in E2.
           assert (Hb2 : sorted_from ai ((bi, bc) :: b')) by (simpl; auto).
           specialize (IHa ((bi, bc) :: b') ai Ha Hb2 Hn Hw i).
           change (get ((ai, 0) :: a') i) with (if i =? ai then 0 else get a' i).
           destruct (i =? ai) eqn:E4; [|exact IHa].
           apply get_nonneg; assumption.
        -- apply Z.eqb_neq in E1. apply Z.ltb_ge in E2.
           assert (Ha2 : sorted_from bi ((ai, ac) :: a')) by (simpl; split; [lia|auto]).
           specialize (IHb bi Ha2 Hb Hn' Hw i).
           change (get ((bi, bc) :: b') i) with (if i =? bi then bc else get b' i).
           destruct (i =? bi) eqn:E4; [|exact IHb].
           apply Z.eqb_eq in E4. rewrite E4.
           pose proof (get_below _ bi bi Ha2 (Z.le_refl _)) as G. lia.
Qed.

Lemma expand_nil_l : forall b, expand [] b = b.
Proof. destruct b; reflexivity. Qed.

Lemma expand_cons_nil : forall ai ac a', expand ((ai, ac) :: a') [] = (ai, 0) :: expand a' [].
Proof. reflexivity. Qed.

Lemma expand_cons_cons : forall ai ac a' bi bc b',
  expand ((ai, ac) :: a') ((bi, bc) :: b') =
  if ai =? bi then (bi, bc) :: expand a' b'
  else if ai <? bi then (ai, 0) :: expand a' ((bi, bc) :: b')
  else (bi, bc) :: expand ((ai, ac) :: a') b'.
Proof. reflexivity. Qed.

Lemma expand_props : forall a b lo,
  sorted_from lo a -> sorted_from lo b ->
  sorted_from lo (expand a b) /\ (forall i, get (expand a b) i = get b i) /\ (nonneg b -> nonneg (expand a b)).
Proof.
  induction a as [|[ai ac] a' IHa].
  - intros b lo _ Hb. rewrite expand_nil_l. auto.
  - induction b as [|[bi bc] b' IHb]; intros lo Ha Hb.
    + rewrite expand_cons_nil. destruct Ha as [Hlo Ha].
      destruct (IHa [] ai Ha I) as (S1 & G1 & N1). repeat split.
      * exact Hlo.
      * exact S1.
      * intro i. simpl. destruct (i =? ai); [reflexivity|]. rewrite G1. reflexivity.
      * intros _. constructor; [simpl; lia|]. apply N1. constructor.
    + rewrite expand_cons_cons. destruct Ha as [Hloa Ha]. destruct Hb as [Hlob Hb].
      destruct (ai =? bi) eqn:E1.
      * apply Z.eqb_eq in E1. subst bi. destruct (IHa b' ai Ha Hb) as (S1 & G1 & N1). repeat split.
        -- exact Hloa.
        -- exact S1.
        -- intro i. simpl. destruct (i =? ai); [reflexivity|]. apply G1.
        -- intro Hn. inversion Hn; subst. constructor; [assumption|]. apply N1. assumption.
      * destruct (ai <? bi) eqn:E2.
        -- apply Z.ltb_lt in E2.
           assert (Hb2 : sorted_from ai ((bi, bc) :: b')) by (simpl; auto).
           destruct (IHa ((bi, bc) :: b') ai Ha Hb2) as (S1 & G1 & N1). repeat split.
           ++ exact Hloa.
           ++ exact S1.
           ++ intro i. change (get ((ai, 0) :: expand a' ((bi, bc) :: b')) i)
                        with (if i =? ai then 0 else get (expand a' ((bi, bc) :: b')) i).
              destruct (i =? ai) eqn:E4; [|apply G1].
              apply Z.eqb_eq in E4. rewrite E4.
              pose proof (get_below _ ai ai Hb2 (Z.le_refl _)) as G. lia.
           ++ intro Hn. constructor; [simpl; lia|]. apply N1. assumption.
        -- apply Z.eqb_neq in E1. apply Z.ltb_ge in E2.
           assert (Ha2 : sorted_from bi ((ai, ac) :: a')) by (simpl; split; [lia|auto]).
           destruct (IHb bi Ha2 Hb) as (S1 & G1 & N1). repeat split.
           ++ exact Hlob.
           ++ exact S1.
           ++ intro i. change (get ((bi, bc) :: expand ((ai, ac) :: a') b') i)
                        with (if i =? bi then bc else get (expand ((ai, ac) :: a') b') i).
              change (get ((bi, bc) :: b') i) with (if i =? bi then bc else get b' i).
              destruct (i =? bi); [reflexivity|]. apply G1.
           ++ intro Hn. inversion Hn; subst. constructor; [assumption|]. apply N1. assumption.
Qed.

Lemma zlist_eqb_eq : forall a b, zlist_eqb a b = true -> a = b.
Proof.
  induction a as [|x a IH]; destruct b as [|y b]; simpl; intros H; try discriminate; [reflexivity|].
  apply andb_true_iff in H. destruct H as [H1 H2]. apply Z.eqb_eq in H1. f_equal; auto.
Qed.

Lemma zlist_eqb_refl : forall a, zlist_eqb a a = true.
Proof. induction a; simpl; [reflexivity|]. rewrite Z.eqb_refl. assumption. Qed.

(* ================================================================ the relation of the property *)
Definition valid (h : ahist) : Prop :=
  srt (a_pos h) /\ srt (a_neg h) /\ nonneg (a_pos h) /\ nonneg (a_neg h)
  /\ (a_schema h <> custom_schema -> a_custom h = []).

(* a is an admissible predecessor of the marked sample b *)
Definition P (a b : ahist) : Prop :=
  a_stale a = false
  /\ a_schema a = a_schema b /\ a_zth a = a_zth b /\ a_custom a = a_custom b
  /\ a_count a <= a_count b /\ a_zcount a <= a_zcount b
  /\ (forall i, get (a_pos a) i <= get (a_pos b) i)
  /\ (forall i, get (a_neg a) i <= get (a_neg b) i).

Lemma P_trans : forall a b c, P a b -> P b c -> P a c.
Proof.
  unfold P. intros a b c (A1 & A2 & A3 & A4 & A5 & A6 & A7 & A8) (B1 & B2 & B3 & B4 & B5 & B6 & B7 & B8).
  repeat split; try congruence; try lia.
  - intro i. specialize (A7 i). specialize (B7 i). lia.
  - intro i. specialize (A8 i). specialize (B8 i). lia.
Qed.

Lemma buckets_le_intro : forall a b, (forall i, get a i <= get b i) -> buckets_le a b = true.
Proof.
  intros a b H. unfold buckets_le. apply forallb_forall. intros i _. apply Z.leb_le. apply H.
Qed.

Lemma P_pred_ok : forall a b, P a b -> pred_ok a b = true.
Proof.
  unfold P, pred_ok. intros a b (A1 & A2 & A3 & A4 & A5 & A6 & A7 & A8).
  rewrite A1, A2, A3, A4. simpl. rewrite !Z.eqb_refl, zlist_eqb_refl. simpl.
  apply Z.leb_le in A5. apply Z.leb_le in A6. rewrite A5, A6. simpl.
  rewrite (buckets_le_intro _ _ A7), (buckets_le_intro _ _ A8). reflexivity.
Qed.

(* ================================================================ the appendable cascade *)
(* what the appender knows about the last sample `last` of its chunk *)
Definition inv (a : app) (last : ahist) : Prop :=
  ap_stale a = a_stale last
  /\ (ap_schema a <> custom_schema -> ap_custom a = [])
  /\ (a_stale last = false ->
        ap_schema a = a_schema last /\ ap_zth a = a_zth last /\ ap_custom a = a_custom last
        /\ ap_cnt a = a_count last /\ ap_zcnt a = a_zcount last
        /\ (forall i, get (ap_pos a) i = get (a_pos last) i)
        /\ (forall i, get (ap_neg a) i = get (a_neg last) i)
        /\ srt (ap_pos a) /\ srt (ap_neg a)).

(* The cascade: a non-stale sample is only appended to a counter chunk (okToAppend with
   NotCounterReset) when the last sample of the chunk is an admissible predecessor. *)
Lemma appendable_sound : forall a last h,
  inv a last -> valid h -> a_stale h = false ->
  appendable a h = (true, CNotReset) -> P last h.
Proof.
  intros a last h (I1 & I2 & I3) (V1 & V2 & V3 & V4 & V5) Hs Happ.
  unfold appendable in Happ.
  destruct ((0 <? ap_n a) && crh_eqb (ap_crh a) CGauge); [discriminate|].
  destruct (hint_eqb (a_hint h) HReset); [discriminate|].
  rewrite Hs in Happ.
  destruct (ap_stale a) eqn:Eas; [discriminate|].
  destruct (a_count h <? ap_cnt a) eqn:Ec; [discriminate|].
  destruct (negb (a_schema h =? ap_schema a) || negb (a_zth h =? ap_zth a)) eqn:El; [discriminate|].
  destruct ((a_schema h =? custom_schema) && negb (zlist_eqb (a_custom h) (ap_custom a))) eqn:Ecu; [discriminate|].
  destruct (a_zcount h <? ap_zcnt a) eqn:Ez; [discriminate|].
  destruct (negb (walk (ap_pos a) (a_pos h))) eqn:Ewp; [discriminate|].
  destruct (negb (walk (ap_neg a) (a_neg h))) eqn:Ewn; [discriminate|].
  apply negb_false_iff in Ewp. apply negb_false_iff in Ewn.
  apply orb_false_iff in El. destruct El as [El1 El2].
  apply negb_false_iff in El1. apply negb_false_iff in El2.
  apply Z.eqb_eq in El1. apply Z.eqb_eq in El2.
  apply Z.ltb_ge in Ec. apply Z.ltb_ge in Ez.
  assert (Hl : a_stale last = false) by congruence.
  destruct (I3 Hl) as (J1 & J2 & J3 & J4 & J5 & J6 & J7 & J8 & J9).
  assert (Hcust : a_custom last = a_custom h).
  { rewrite <- J3. destruct (a_schema h =? custom_schema) eqn:Es.
    - simpl in Ecu. apply negb_false_iff in Ecu. apply zlist_eqb_eq in Ecu. congruence.
    - apply Z.eqb_neq in Es. rewrite (V5 Es). apply I2. congruence. }
  unfold P. repeat split; try congruence; try lia.
  - intro i. rewrite <- J6. destruct (srt_common _ _ J8 V1) as (lo & S1 & S2).
    eapply walk_le; eauto.
  - intro i. rewrite <- J7. destruct (srt_common _ _ J9 V2) as (lo & S1 & S2).
    eapply walk_le; eauto.
Qed.

Lemma inv_first : forall c h, valid h -> inv (append_sample (app0 c) h) h.
Proof.
  intros c h (V1 & V2 & V3 & V4 & V5). unfold append_sample, app0, inv. simpl.
  destruct (a_stale h) eqn:Es; simpl.
  - split; [reflexivity|]. split; [auto|]. intro H; discriminate.
  - repeat split; auto.
Qed.

Lemma inv_next : forall a last h, 0 < ap_n a -> inv a last -> valid h ->
  (a_stale h = false -> P last h) -> inv (append_sample a h) h.
Proof.
  intros a last h Hn (I1 & I2 & I3) (V1 & V2 & V3 & V4 & V5) HP.
  unfold append_sample. destruct (a_stale h) eqn:Es.
  - assert (E : ap_n a =? 0 = false) by (apply Z.eqb_neq; lia). rewrite E.
    unfold inv; simpl. split; [auto|]. split; [auto|]. rewrite Es. intro H; discriminate.
  - assert (E : ap_n a =? 0 = false) by (apply Z.eqb_neq; lia). rewrite E.
    destruct (HP eq_refl) as (A1 & A2 & A3 & A4 & A5 & A6 & A7 & A8).
    destruct (I3 A1) as (J1 & J2 & J3 & J4 & J5 & J6 & J7 & J8 & J9).
    destruct (srt_common _ _ J8 V1) as (lop & Sp1 & Sp2).
    destruct (srt_common _ _ J9 V2) as (lon & Sn1 & Sn2).
    destruct (expand_props _ _ _ Sp1 Sp2) as (EP1 & EP2 & EP3).
    destruct (expand_props _ _ _ Sn1 Sn2) as (EN1 & EN2 & EN3).
    unfold inv; simpl. repeat split; auto; try congruence.
    + exists lop. exact EP1.
    + exists lon. exact EN1.
Qed.

(* ================================================================ chunks built by AppendHistogram *)
(* every earlier sample of the list is an admissible predecessor of every later non-stale one *)
Fixpoint pwo (l : list sample) : Prop :=
  match l with
  | [] => True
  | a :: r => Forall (fun b => a_stale (snd b) = false -> P (snd a) (snd b)) r /\ pwo r
  end.

Lemma pwo_snoc : forall l b,
  pwo l -> Forall (fun a => a_stale (snd b) = false -> P (snd a) (snd b)) l -> pwo (l ++ [b]).
Proof.
  induction l as [|a r IH]; simpl; intros b Hp Hf.
  - split; constructor.
  - destruct Hp as [Hp1 Hp2]. inversion Hf; subst. split.
    + apply Forall_app. split; [assumption|]. constructor; [assumption|constructor].
    + apply IH; assumption.
Qed.

Lemma pwo_snoc_inv : forall l b,
  pwo (l ++ [b]) -> Forall (fun a => a_stale (snd b) = false -> P (snd a) (snd b)) l.
Proof.
  induction l as [|a r IH]; simpl; intros b Hp; [constructor|].
  destruct Hp as [Hp1 Hp2]. constructor.
  - apply Forall_app in Hp1. destruct Hp1 as [_ Hb]. inversion Hb; subst. assumption.
  - apply IH. assumption.
Qed.

Lemma pwo_split : forall l1 a l2 b l3,
  pwo (l1 ++ a :: l2 ++ b :: l3) -> a_stale (snd b) = false -> P (snd a) (snd b).
Proof.
  induction l1 as [|x l1 IH]; simpl; intros a l2 b l3 Hp Hs.
  - destruct Hp as [Hf _]. apply Forall_app in Hf. destruct Hf as [_ Hf].
    inversion Hf; subst. auto.
  - destruct Hp as [_ Hp]. eapply IH; eauto.
Qed.

Definition chunk_ok (c : chunk) : Prop := c_crh c = CGauge \/ pwo (c_samples c).

Definition open_ok (cur : app * list sample) : Prop :=
  0 < ap_n (fst cur) /\
  exists l0 t last, snd cur = l0 ++ [(t, last)] /\
    (ap_crh (fst cur) = CGauge \/ (pwo (snd cur) /\ inv (fst cur) last)).

Definition st_ok (s : sstate) : Prop :=
  Forall chunk_ok (st_done s) /\ match st_cur s with None => True | Some cur => open_ok cur end.

Lemma ap_crh_append : forall a h, ap_crh (append_sample a h) = ap_crh a.
Proof. intros a h. unfold append_sample. destruct (a_stale h), (ap_n a =? 0); reflexivity. Qed.

Lemma ap_n_append : forall a h, 0 <= ap_n a -> 0 < ap_n (append_sample a h).
Proof.
  intros a h Hn. unfold append_sample.
  destruct (a_stale h), (ap_n a =? 0) eqn:E; simpl; try lia.
Qed.

Lemma close_ok : forall s, st_ok s -> Forall chunk_ok (close_cur s).
Proof.
  intros s [Hd Hc]. unfold close_cur. destruct (st_cur s) as [[a ss]|]; [|assumption].
  constructor; [|assumption]. destruct Hc as (_ & l0 & t & last & E & [Hg|[Hp _]]); simpl in *.
  - left. assumption.
  - right. assumption.
Qed.

Lemma start_ok : forall done c t h, Forall chunk_ok done -> valid h -> st_ok (start_chunk done c t h).
Proof.
  intros done c t h Hd Hv. split; [assumption|]. simpl. split.
  - simpl. apply ap_n_append. simpl. lia.
  - exists [], t, h. split; [reflexivity|]. right. split.
    + simpl. split; constructor.
    + apply inv_first. assumption.
Qed.

Lemma step_ok : forall k s cut t h, st_ok s -> valid h -> st_ok (step k s (cut, t, h)).
Proof.
  intros k s cut t h Hs Hv. pose proof (close_ok s Hs) as Hcl.
  destruct Hs as [Hd Hc]. unfold step. destruct (st_cur s) as [[a ss]|] eqn:Ecur.
  2:{ apply start_ok; assumption. }
  destruct cut; [apply start_ok; assumption|].
  destruct Hc as (Hn & l0 & tl & last & Ess & Hor). simpl in Hn, Ess, Hor.
  destruct (is_gauge h) eqn:Eg.
  - destruct (appendable_gauge a h) eqn:Eag; [|apply start_ok; assumption].
    split; [assumption|]. simpl. split.
    + simpl. apply ap_n_append. lia.
    + exists ss, t, h. split; [reflexivity|]. left. simpl. rewrite ap_crh_append.
      unfold appendable_gauge in Eag. assert (E : 0 <? ap_n a = true) by (apply Z.ltb_lt; lia).
      rewrite E in Eag. simpl in Eag. destruct (ap_crh a); simpl in Eag; try discriminate. reflexivity.
  - destruct (appendable a h) as [ok c] eqn:Eapp.
    destruct (ok && crh_eqb c CNotReset) eqn:Eok; [|apply start_ok; assumption].
    apply andb_true_iff in Eok. destruct Eok as [Eo Ec]. subst ok.
    assert (c = CNotReset) by (destruct c; simpl in Ec; try discriminate; reflexivity). subst c.
    destruct Hor as [Hg|[Hp Hi]].
    { exfalso. unfold appendable in Eapp. assert (E : 0 <? ap_n a = true) by (apply Z.ltb_lt; lia).
      rewrite E, Hg in Eapp. simpl in Eapp. discriminate. }
    assert (HP : a_stale h = false -> P last h).
    { intro Hst. eapply appendable_sound; eauto. }
    split; [assumption|]. simpl. split.
    + simpl. apply ap_n_append. lia.
    + exists ss, t, h. split; [reflexivity|]. right. simpl. split.
      * apply pwo_snoc; [assumption|]. rewrite Ess. apply Forall_app. split.
        -- rewrite Ess in Hp. apply pwo_snoc_inv in Hp.
           eapply Forall_impl; [|exact Hp]. simpl. intros x Hx Hst.
           specialize (HP Hst). eapply P_trans; [|exact HP]. apply Hx. destruct HP as [HP1 _]. exact HP1.
        -- constructor; [|constructor]. simpl. exact HP.
      * eapply inv_next; eauto.
Qed.

Lemma fold_ok : forall k ops s, st_ok s -> Forall (fun op => valid (snd op)) ops -> st_ok (fold_left (step k) ops s).
Proof.
  induction ops as [|[[cut t] h] ops IH]; simpl; intros s Hs Hv; [assumption|].
  inversion Hv; subst. apply IH; [|assumption]. apply step_ok; assumption.
Qed.

Lemma st0_ok : st_ok st0.
Proof. split; simpl; [constructor|exact I]. Qed.

Lemma run_ok : forall k ops, Forall (fun op => valid (snd op)) ops -> Forall chunk_ok (run k ops).
Proof.
  intros k ops Hv. unfold run. apply Forall_rev. apply close_ok. apply fold_ok; [apply st0_ok|assumption].
Qed.

(* ================================================================ reading chunks *)
Lemma marked_first : forall c s, marked (read_at c 1 s) = false.
Proof.
  intros c s. unfold read_at, marked. destruct (a_stale (snd s)) eqn:E; simpl.
  - reflexivity.
  - rewrite E. simpl. destruct c; reflexivity.
Qed.

Lemma marked_gauge : forall n s, marked (read_at CGauge n s) = false.
Proof.
  intros n s. unfold read_at, marked. destruct (a_stale (snd s)) eqn:E; simpl.
  - reflexivity.
  - rewrite E. reflexivity.
Qed.

Lemma marked_stale : forall c n s, a_stale (snd s) = true -> marked (read_at c n s) = false.
Proof. intros c n s E. unfold read_at, marked. rewrite E. reflexivity. Qed.

Lemma read_at_h : forall c n s, a_stale (snd s) = false -> r_h (read_at c n s) = snd s.
Proof. intros c n s E. unfold read_at. rewrite E. reflexivity. Qed.

Lemma read_tail_sound : forall c r s n,
  (c = CGauge \/ pwo (s :: r)) ->
  sound_from (Some (read_at c n s)) (read_from c (n + 1) r) = true.
Proof.
  induction r as [|b r IH]; intros s n Hor; [reflexivity|].
  simpl. apply andb_true_iff. split.
  - destruct Hor as [Hg|Hp].
    + subst c. rewrite marked_gauge. reflexivity.
    + destruct (a_stale (snd b)) eqn:Eb.
      * rewrite marked_stale by assumption. reflexivity.
      * destruct Hp as [Hf _]. inversion Hf; subst. specialize (H1 Eb).
        destruct (marked (read_at c (n + 1) b)); [|reflexivity].
        rewrite read_at_h by (destruct H1; assumption). rewrite read_at_h by assumption.
        apply P_pred_ok. assumption.
  - apply IH. destruct Hor as [Hg|Hp]; [left; assumption|right]. destruct Hp as [_ Hp]. exact Hp.
Qed.

Lemma chunk_read_sound : forall c, chunk_ok c -> forall p, sound_from p (read_chunk c) = true.
Proof.
  intros c Hc p. unfold read_chunk. destruct (c_samples c) as [|s r] eqn:E; [reflexivity|].
  simpl. rewrite marked_first. simpl. apply (read_tail_sound (c_crh c) r s 1).
  unfold chunk_ok in Hc. rewrite E in Hc. exact Hc.
Qed.

Fixpoint lastp (p : option rs) (l : list rs) : option rs :=
  match l with [] => p | x :: r => lastp (Some x) r end.

Lemma sound_from_app : forall l1 l2 p,
  sound_from p (l1 ++ l2) = sound_from p l1 && sound_from (lastp p l1) l2.
Proof.
  induction l1 as [|x l1 IH]; simpl; intros l2 p; [reflexivity|].
  rewrite IH. rewrite andb_assoc. reflexivity.
Qed.

Lemma concat_sound : forall cs, Forall chunk_ok cs ->
  forall p, sound_from p (concat (map read_chunk cs)) = true.
Proof.
  induction cs as [|c cs IH]; simpl; intros Hf p; [reflexivity|].
  inversion Hf; subst. rewrite sound_from_app. rewrite chunk_read_sound by assumption.
  simpl. apply IH. assumption.
Qed.

(* the unrestricted read of a series built by AppendHistogram calls satisfies the property *)
Lemma read_sound : forall k ops, Forall (fun op => valid (snd op)) ops ->
  sound_list (concat (map read_chunk (run k ops))) = true.
Proof. intros k ops Hv. apply concat_sound. apply run_ok. assumption. Qed.

(* ================================================================ the chained merge *)
Fixpoint incr_from (lo : Z) (l : list rs) : Prop :=
  match l with
  | [] => True
  | x :: r => lo < r_t x /\ incr_from (r_t x) r
  end.
Definition incr_tail (l : list rs) : Prop :=
  match l with [] => True | x :: r => incr_from (r_t x) r end.

(* what the merge needs from each of its inputs: strictly increasing timestamps and the property
   for every sample but the first *)
Definition it_ok (l : list rs) : Prop := sound_tail l = true /\ incr_tail l.
Definition hel_ok (e : hel) : Prop := sound_from (Some (fst e)) (snd e) = true /\ incr_from (r_t (fst e)) (snd e).

Lemma it_ok_hel : forall x r, it_ok (x :: r) -> hel_ok (x, r).
Proof. intros x r [H1 H2]. split; assumption. Qed.

Lemma hel_it_ok : forall x r, hel_ok (x, r) -> it_ok r.
Proof.
  intros x r [H1 H2]. simpl in *. destruct r as [|y r]; [split; [reflexivity|exact I]|].
  simpl in *. apply andb_true_iff in H1. destruct H1 as [_ H1]. destruct H2 as [_ H2]. split; assumption.
Qed.

Lemma pick_ok : forall k all h y h',
  pick k all h = Some (y, h') -> Forall hel_ok h -> hel_ok y /\ Forall hel_ok h'.
Proof.
  intros k all h. revert k. induction h as [|x r IH]; simpl; intros k y h' Hp Hf; [discriminate|].
  inversion Hf as [|x0 l0 Hx Hr]; subst.
  destruct (is_min x all).
  - destruct k as [|k'].
    + inversion Hp; subst. auto.
    + destruct (pick k' all r) as [[y0 r0]|] eqn:E.
      * inversion Hp; subst. destruct (IH _ _ _ E Hr) as [A B]. split; [assumption|constructor; assumption].
      * inversion Hp; subst. auto.
  - destruct (pick k all r) as [[y0 r0]|] eqn:E; [|discriminate].
    inversion Hp; subst. destruct (IH _ _ _ E Hr) as [A B]. split; [assumption|constructor; assumption].
Qed.

Lemma sound_from_prev_h : forall l p q, r_h p = r_h q -> sound_from (Some p) l = sound_from (Some q) l.
Proof. destruct l as [|x l]; simpl; intros p q E; [reflexivity|]. rewrite E. reflexivity. Qed.

Lemma chain_at_changed : forall x, marked (chain_at false x) = false /\ r_h (chain_at false x) = r_h x.
Proof.
  intro x. unfold chain_at. simpl. destruct (hint_eqb (r_hint x) HGauge) eqn:E; simpl.
  - split; [|reflexivity]. unfold marked. destruct (r_hint x); simpl in *; try discriminate.
    rewrite andb_false_r. reflexivity.
  - split; [|reflexivity]. unfold marked. simpl. rewrite andb_false_r. reflexivity.
Qed.

Lemma chain_at_same : forall x, chain_at true x = x.
Proof. intro x. unfold chain_at. reflexivity. Qed.

(* emitting x after an iterator change *)
Lemma emit_changed : forall pe x out',
  sound_from (Some x) out' = true -> sound_from pe (chain_at false x :: out') = true.
Proof.
  intros pe x out' H. simpl. destruct (chain_at_changed x) as [M Hh]. rewrite M. simpl.
  rewrite (sound_from_prev_h out' _ x Hh). exact H.
Qed.

Lemma chain_go_sound : forall fuel curr h last changed ch out pe,
  Forall hel_ok h -> it_ok curr ->
  (changed = false -> exists p, pe = Some p /\ r_t p = last /\ sound_from (Some p) curr = true /\ incr_from last curr) ->
  chain_go fuel curr h last changed ch = COk out ->
  sound_from pe out = true.
Proof.
  induction fuel as [|f IH]; intros curr h last changed ch out pe Hh Hc Hun Hgo; [discriminate|].
  (* popping the heap: shared by two branches *)
  assert (Hpop : forall h0, Forall hel_ok h0 ->
            (let '(k, ch') := next_choice ch in
             match pop k h0 with
             | None => COk []
             | Some ((x, rest), h') =>
                 if r_t x =? last then chain_go f rest h' last true ch'
                 else match chain_go f rest h' (r_t x) false ch' with
                      | COk out0 => COk (chain_at (negb true) x :: out0)
                      | COutOfFuel => COutOfFuel
                      end
             end) = COk out -> sound_from pe out = true).
  { intros h0 Hh0 Hr. destruct (next_choice ch) as [k ch']. unfold pop in Hr.
    destruct (pick k h0 h0) as [[[x rest] h']|] eqn:Ep.
    - destruct (pick_ok _ _ _ _ _ Ep Hh0) as [Hx Hh'].
      destruct (r_t x =? last) eqn:El.
      + eapply IH; [exact Hh'|eapply hel_it_ok; exact Hx| |exact Hr]. intro; discriminate.
      + destruct (chain_go f rest h' (r_t x) false ch') as [out0|] eqn:Eg; [|discriminate].
        inversion Hr; subst. simpl negb. apply emit_changed.
        eapply IH; [exact Hh'|eapply hel_it_ok; exact Hx| |exact Eg].
        intros _. exists x. destruct Hx as [Hx1 Hx2]. simpl in *. auto.
    - inversion Hr; subst. reflexivity. }
  simpl in Hgo. destruct curr as [|x rest].
  - apply (Hpop h Hh). exact Hgo.
  - destruct (r_t x =? last) eqn:El.
    + apply Z.eqb_eq in El. destruct changed.
      * eapply IH; [exact Hh|eapply hel_it_ok; apply it_ok_hel; exact Hc| |exact Hgo]. intro; discriminate.
      * destruct (Hun eq_refl) as (p & _ & _ & _ & Hi). simpl in Hi. lia.
    + (* emission of x from the current iterator *)
      assert (Hemit : match chain_go f rest h (r_t x) false ch with
                      | COk out0 => COk (chain_at (negb changed) x :: out0)
                      | COutOfFuel => COutOfFuel
                      end = COk out -> sound_from pe out = true).
      { intro Hr. destruct (chain_go f rest h (r_t x) false ch) as [out0|] eqn:Eg; [|discriminate].
        inversion Hr; subst. pose proof (it_ok_hel _ _ Hc) as [Hx1 Hx2]. simpl in Hx1, Hx2.
        assert (Hrest : sound_from (Some x) out0 = true).
        { eapply IH; [exact Hh|eapply hel_it_ok; apply it_ok_hel; exact Hc| |exact Eg].
          intros _. exists x. auto. }
        destruct changed.
        - simpl negb. apply emit_changed. exact Hrest.
        - simpl negb. rewrite chain_at_same. destruct (Hun eq_refl) as (p & Hpe & _ & Hs & _). subst pe.
          simpl in Hs. simpl. apply andb_true_iff in Hs. destruct Hs as [Hs1 _].
          rewrite Hs1. simpl. exact Hrest. }
      destruct (min_t h) as [nt|].
      * destruct (r_t x <? nt).
        -- apply Hemit. exact Hgo.
        -- apply (Hpop ((x, rest) :: h)); [|exact Hgo]. constructor; [apply it_ok_hel; exact Hc|exact Hh].
      * apply Hemit. exact Hgo.
Qed.

(* ChainedSeriesMerge: whatever the heap's tie-breaking, the merged list satisfies the property
   (for every sample including the first) as soon as each input is increasing and satisfies it for
   all samples but its first *)
Lemma chain_sound : forall srcs ch out,
  Forall it_ok srcs -> chain srcs ch = COk out -> sound_list out = true.
Proof.
  intros srcs ch out Hf Hc. unfold chain in Hc. destruct srcs as [|s0 others].
  - inversion Hc; subst. reflexivity.
  - inversion Hf as [|s l H0 Ho]; subst. unfold sound_list.
    eapply chain_go_sound; [| exact H0 | | exact Hc].
    + clear Hc. induction others as [|s r IHo]; simpl; [constructor|].
      inversion Ho; subst. destruct s as [|x rest]; simpl.
      * apply IHo; [constructor; assumption|assumption].
      * constructor; [apply it_ok_hel; assumption|]. apply IHo; [constructor; assumption|assumption].
    + intro; discriminate.
Qed.

(* ================================================================ range-restricted reads *)
Lemma incr_from_weaken : forall l lo lo', lo' <= lo -> incr_from lo l -> incr_from lo' l.
Proof. destruct l as [|x r]; simpl; intros; [auto|]. intuition lia. Qed.

Lemma incr_from_filter : forall f l lo, incr_from lo l -> incr_from lo (filter f l).
Proof.
  induction l as [|x r IH]; simpl; intros lo H; [exact I|]. destruct H as [H1 H2].
  destruct (f x); simpl.
  - split; [assumption|]. apply IH. assumption.
  - eapply incr_from_weaken; [|apply IH; exact H2]. lia.
Qed.

Lemma incr_from_lb : forall l lo x, incr_from lo l -> In x l -> lo < r_t x.
Proof.
  induction l as [|y r IH]; simpl; intros lo x H Hin; [contradiction|].
  destruct H as [H1 H2]. destruct Hin as [E|Hin]; [subst; assumption|].
  specialize (IH _ _ H2 Hin). lia.
Qed.

Lemma sound_from_tail : forall l p, sound_from p l = true -> sound_tail l = true.
Proof.
  destruct l as [|x r]; simpl; intros p H; [reflexivity|]. apply andb_true_iff in H. tauto.
Qed.

Definition wf (mint maxt : Z) (r : rs) : bool := window mint maxt (r_t r).

Lemma filter_above : forall mint maxt l lo, maxt <= lo -> incr_from lo l -> filter (wf mint maxt) l = [].
Proof.
  induction l as [|x r IH]; simpl; intros lo Hlo H; [reflexivity|]. destruct H as [H1 H2].
  unfold wf at 1, window. assert (E : r_t x <=? maxt = false) by (apply Z.leb_gt; lia).
  rewrite E, andb_false_r. eapply IH; [|exact H2]. lia.
Qed.

Lemma window_keep_from : forall mint maxt l p lo,
  mint <= lo + 1 -> incr_from lo l -> sound_from p l = true ->
  sound_from p (filter (wf mint maxt) l) = true.
Proof.
  induction l as [|x r IH]; simpl; intros p lo Hlo H Hs; [reflexivity|]. destruct H as [H1 H2].
  apply andb_true_iff in Hs. destruct Hs as [Hs1 Hs2].
  unfold wf at 1, window. assert (E : mint <=? r_t x = true) by (apply Z.leb_le; lia). rewrite E. simpl.
  destruct (r_t x <=? maxt) eqn:E2.
  - simpl. rewrite Hs1. simpl. eapply IH; [|exact H2|exact Hs2]. lia.
  - apply Z.leb_gt in E2. rewrite (filter_above mint maxt r (r_t x)); [reflexivity|lia|assumption].
Qed.

(* a window [mint, maxt] over increasing timestamps: every sample but the first keeps an admissible
   predecessor *)
Lemma window_tail_sound : forall mint maxt l p lo,
  incr_from lo l -> sound_from p l = true -> sound_tail (filter (wf mint maxt) l) = true.
Proof.
  induction l as [|x r IH]; intros p lo H Hs; [reflexivity|].
  destruct (mint <=? r_t x) eqn:E.
  - apply Z.leb_le in E. eapply sound_from_tail. eapply (window_keep_from mint maxt (x :: r) p (r_t x - 1)).
    + lia.
    + simpl in *. destruct H. split; [lia|assumption].
    + exact Hs.
  - simpl. unfold wf at 1, window. rewrite E. simpl. simpl in H, Hs. destruct H as [H1 H2].
    apply andb_true_iff in Hs. destruct Hs as [_ Hs2]. eapply IH; eauto.
Qed.

(* ---- the samples of run are the appended ones, in order *)
Definition samples_of (cs : list chunk) : list sample := concat (map c_samples cs).

Lemma samples_of_snoc : forall cs c, samples_of (cs ++ [c]) = samples_of cs ++ c_samples c.
Proof. intros. unfold samples_of. rewrite map_app, concat_app. simpl. rewrite app_nil_r. reflexivity. Qed.

Lemma close_start : forall done c t h,
  samples_of (rev (close_cur (start_chunk done c t h))) = samples_of (rev done) ++ [(t, h)].
Proof. intros. simpl. rewrite samples_of_snoc. reflexivity. Qed.

Lemma step_samples : forall k s cut t h,
  samples_of (rev (close_cur (step k s (cut, t, h)))) = samples_of (rev (close_cur s)) ++ [(t, h)].
Proof.
  intros k s cut t h. unfold step. destruct (st_cur s) as [[a ss]|] eqn:Ec.
  2:{ rewrite close_start. unfold close_cur. rewrite Ec. reflexivity. }
  assert (Hin : forall a', samples_of (rev (close_cur (mkSt (st_done s) (Some (a', ss ++ [(t, h)]))))) =
                      samples_of (rev (close_cur s)) ++ [(t, h)]).
  { intro a'. unfold close_cur. rewrite Ec. simpl. rewrite !samples_of_snoc. simpl. rewrite app_assoc. reflexivity. }
  destruct cut; [apply close_start|].
  destruct (is_gauge h).
  - destruct (appendable_gauge a h); [apply Hin|apply close_start].
  - destruct (appendable a h) as [ok c]. destruct (ok && crh_eqb c CNotReset); [apply Hin|apply close_start].
Qed.

Definition op_sample (op : bool * Z * ahist) : sample := (snd (fst op), snd op).

Lemma fold_samples : forall k ops s,
  samples_of (rev (close_cur (fold_left (step k) ops s))) = samples_of (rev (close_cur s)) ++ map op_sample ops.
Proof.
  induction ops as [|[[cut t] h] ops IH]; intros s; [simpl; rewrite app_nil_r; reflexivity|].
  cbn [fold_left map]. rewrite IH, step_samples. rewrite <- app_assoc. reflexivity.
Qed.

Lemma run_samples : forall k ops, samples_of (run k ops) = map op_sample ops.
Proof. intros. unfold run. rewrite fold_samples. reflexivity. Qed.

Lemma read_from_times : forall c l n, map r_t (read_from c n l) = map fst l.
Proof.
  induction l as [|s r IH]; simpl; intros n; [reflexivity|]. rewrite IH. f_equal.
  unfold read_at. destruct (a_stale (snd s)); reflexivity.
Qed.

Lemma read_times : forall cs, map r_t (concat (map read_chunk cs)) = map fst (samples_of cs).
Proof.
  induction cs as [|c cs IH]; simpl; [reflexivity|]. unfold samples_of in *. simpl.
  rewrite !map_app, IH. unfold read_chunk. rewrite read_from_times. reflexivity.
Qed.

Fixpoint zincr (lo : Z) (l : list Z) : Prop :=
  match l with [] => True | t :: r => lo < t /\ zincr t r end.

Lemma incr_from_map : forall l lo, zincr lo (map r_t l) -> incr_from lo l.
Proof. induction l as [|x r IH]; simpl; intros lo H; [exact I|]. destruct H. split; auto. Qed.

Definition op_time (op : bool * Z * ahist) : Z := snd (fst op).

Lemma run_incr : forall k ops lo, zincr lo (map op_time ops) ->
  incr_from lo (concat (map read_chunk (run k ops))).
Proof.
  intros k ops lo H. apply incr_from_map. rewrite read_times, run_samples, map_map. exact H.
Qed.

(* one source, range-restricted: all samples but the first are sound, and the source is a legal
   input of the chained merge *)
Lemma source_window : forall k ops mint maxt lo,
  Forall (fun op => valid (snd op)) ops -> zincr lo (map op_time ops) ->
  it_ok (read_source (window mint maxt) (run k ops)).
Proof.
  intros k ops mint maxt lo Hv Hi. unfold read_source.
  change (fun r : rs => window mint maxt (r_t r)) with (wf mint maxt).
  pose proof (run_incr k ops lo Hi) as Hinc. split.
  - eapply window_tail_sound; [exact Hinc|]. apply read_sound. assumption.
  - pose proof (incr_from_filter (wf mint maxt) _ _ Hinc) as H.
    destruct (filter (wf mint maxt) (concat (map read_chunk (run k ops)))) as [|x r]; simpl in *; tauto.
Qed.

(* the first sample of a chunk read is never marked: a query that starts at or before the first
   sample of the chunk its first result comes from is sound for the first sample too *)
Lemma sound_tail_first : forall l, sound_tail l = true ->
  match l with [] => True | x :: _ => marked x = false end -> sound_list l = true.
Proof.
  destruct l as [|x r]; simpl; intros H M; [reflexivity|]. unfold sound_list. simpl. rewrite M. exact H.
Qed.

(* ================================================================ a hypothetical DeletedIterator with a skipped flag (not the code) *)
Lemma marked_del_skipped : forall x, marked (del_at true x) = false.
Proof.
  intro x. unfold del_at. simpl. destruct (hint_eqb (r_hint x) HNotReset) eqn:E; unfold marked; simpl.
  - rewrite andb_false_r. reflexivity.
  - rewrite E. rewrite andb_false_r. reflexivity.
Qed.

Lemma del_at_false : forall x, del_at false x = x.
Proof. reflexivity. Qed.

Lemma del_at_h : forall sk x, r_h (del_at sk x) = r_h x.
Proof. intros sk x. unfold del_at. destruct (sk && hint_eqb (r_hint x) HNotReset); reflexivity. Qed.

Lemma marked_read_first : forall c n s, n = 1 -> marked (read_at c n s) = false.
Proof. intros; subst; apply marked_first. Qed.

Lemma pwo_tail : forall s r, pwo (s :: r) -> pwo r.
Proof. intros s r [_ H]. exact H. Qed.

Lemma read_del_sound : forall keep c l n sk p,
  1 <= n ->
  (c = CGauge \/ pwo l) ->
  (sk = false -> n <> 1 ->
     exists s0 x, p = Some x /\ (a_stale (snd s0) = false -> r_h x = snd s0) /\ (c = CGauge \/ pwo (s0 :: l))) ->
  sound_from p (read_del keep c n sk l) = true.
Proof.
  induction l as [|s r IH]; intros n sk p Hn Hl Hp; [reflexivity|].
  assert (Hr : c = CGauge \/ pwo r) by (destruct Hl as [G|Hl]; [left; exact G|right; eapply pwo_tail; exact Hl]).
  simpl. destruct (keep (fst s)).
  - simpl. apply andb_true_iff. split.
    + destruct sk; [rewrite marked_del_skipped; reflexivity|]. rewrite del_at_false.
      destruct (Z.eq_dec n 1) as [E|E]; [rewrite marked_read_first by exact E; reflexivity|].
      destruct (Hp eq_refl E) as (s0 & x & Ep & Hx & Hor). subst p.
      destruct Hor as [G|Hpw]; [subst c; rewrite marked_gauge; reflexivity|].
      destruct (a_stale (snd s)) eqn:Es; [rewrite marked_stale by exact Es; reflexivity|].
      destruct Hpw as [Hf _]. inversion Hf as [|y l0 Hy Hl0]; subst. specialize (Hy Es).
      destruct (marked (read_at c n s)); [|reflexivity].
      rewrite Hx by (destruct Hy; assumption). rewrite read_at_h by exact Es. apply P_pred_ok. exact Hy.
    + apply IH; [lia|exact Hr|]. intros _ _. exists s, (del_at sk (read_at c n s)). split; [reflexivity|]. split.
      * intro Es. rewrite del_at_h. apply read_at_h. exact Es.
      * exact Hl.
  - apply IH; [lia|exact Hr|]. intro; discriminate.
Qed.

Lemma source_sound : forall keep cs, Forall chunk_ok cs -> forall p, sound_from p (read_source_fixed keep cs) = true.
Proof.
  intros keep. unfold read_source_fixed. induction cs as [|c cs IH]; simpl; intros Hf p; [reflexivity|].
  inversion Hf; subst. rewrite sound_from_app. rewrite read_del_sound; [|lia|assumption|intros _ E; contradiction].
  simpl. apply IH. assumption.
Qed.

Lemma read_del_times : forall keep c l n sk, map r_t (read_del keep c n sk l) = filter keep (map fst l).
Proof.
  induction l as [|s r IH]; simpl; intros n sk; [reflexivity|]. destruct (keep (fst s)); simpl.
  - rewrite IH. f_equal. unfold del_at, read_at.
    destruct (a_stale (snd s)); simpl; destruct (sk && _); reflexivity.
  - apply IH.
Qed.

Lemma zincr_weaken : forall l lo lo', lo' <= lo -> zincr lo l -> zincr lo' l.
Proof. destruct l as [|x r]; simpl; intros; [auto|]. intuition lia. Qed.

Lemma zincr_filter : forall f l lo, zincr lo l -> zincr lo (filter f l).
Proof.
  induction l as [|x r IH]; simpl; intros lo H; [exact I|]. destruct H as [H1 H2].
  destruct (f x); simpl.
  - split; [assumption|]. apply IH. assumption.
  - eapply zincr_weaken; [|apply IH; exact H2]. lia.
Qed.

Lemma source_times : forall keep cs, map r_t (read_source_fixed keep cs) = filter keep (map fst (samples_of cs)).
Proof.
  intros keep. unfold read_source_fixed, samples_of. induction cs as [|c cs IH]; simpl; [reflexivity|].
  rewrite !map_app, filter_app, IH, read_del_times. reflexivity.
Qed.

(* one source read through the fixed DeletedIterator, any window and any tombstones: sound for
   every sample, and a legal input of the chained merge *)
Lemma source_ok : forall k ops keep lo,
  Forall (fun op => valid (snd op)) ops -> zincr lo (map op_time ops) ->
  sound_list (read_source_fixed keep (run k ops)) = true /\ it_ok (read_source_fixed keep (run k ops)).
Proof.
  intros k ops keep lo Hv Hi.
  assert (Hs : forall p, sound_from p (read_source_fixed keep (run k ops)) = true)
    by (apply source_sound; apply run_ok; exact Hv).
  split; [apply Hs|]. split; [eapply sound_from_tail; apply (Hs None)|].
  assert (Hinc : incr_from lo (read_source_fixed keep (run k ops))).
  { apply incr_from_map. rewrite source_times, run_samples, map_map. apply zincr_filter. exact Hi. }
  destruct (read_source_fixed keep (run k ops)) as [|x r]; simpl in *; tauto.
Qed.

(* ================================================================ statements used by props/C12.v *)
Lemma chunk_sound : forall k ops, Forall (fun op => valid (snd op)) ops ->
  forall c, In c (run k ops) -> c_crh c <> CGauge ->
  forall l1 a l2 b l3, c_samples c = l1 ++ a :: l2 ++ b :: l3 ->
  a_stale (snd b) = false -> P (snd a) (snd b).
Proof.
  intros k ops Hv c Hin Hg l1 a l2 b l3 E Hs.
  pose proof (run_ok k ops Hv) as Hok. rewrite Forall_forall in Hok. specialize (Hok c Hin).
  destruct Hok as [Hc|Hp]; [contradiction|]. rewrite E in Hp. eapply pwo_split; eauto.
Qed.

Definition src := (kind * list (bool * Z * ahist))%type.
Definition src_ok (s : src) : Prop :=
  Forall (fun op => valid (snd op)) (snd s) /\ exists lo, zincr lo (map op_time (snd s)).
Definition src_read (mint maxt : Z) (s : src) : list rs :=
  read_source (window mint maxt) (run (fst s) (snd s)).

Lemma sound_partial : forall (srcs : list src) mint maxt,
  Forall src_ok srcs ->
  (* merged through the chained iterator (any tie-breaking): sound for every sample *)
  (forall ch out, chain (map (src_read mint maxt) srcs) ch = COk out -> sound_list out = true)
  (* a single source returned as it is: sound for every sample but the first, and for the first
     one too unless it is marked *)
  /\ (forall s, In s srcs ->
        sound_tail (src_read mint maxt s) = true
        /\ (match src_read mint maxt s with [] => True | x :: _ => marked x = false end ->
            sound_list (src_read mint maxt s) = true)).
Proof.
  intros srcs mint maxt Hf.
  assert (Hall : Forall it_ok (map (src_read mint maxt) srcs)).
  { apply Forall_map. eapply Forall_impl; [|exact Hf]. intros [k ops] [Hv [lo Hi]]. simpl in *.
    unfold src_read. simpl. eapply source_window; eauto. }
  split.
  - intros ch out Hc. eapply chain_sound; eauto.
  - intros s Hin. rewrite Forall_forall in Hf. destruct (Hf s Hin) as [Hv [lo Hi]].
    destruct s as [k ops]. simpl in *. unfold src_read. simpl.
    destruct (source_window k ops mint maxt lo Hv Hi) as [Ht _]. split; [exact Ht|].
    intro M. apply sound_tail_first; assumption.
Qed.

(* a query range that starts at or before the first sample of the series *)
Lemma sound_from_start : forall k ops mint maxt lo,
  Forall (fun op => valid (snd op)) ops -> zincr lo (map op_time ops) -> mint <= lo + 1 ->
  sound_list (read_source (window mint maxt) (run k ops)) = true.
Proof.
  intros k ops mint maxt lo Hv Hi Hm. unfold read_source, sound_list.
  change (fun r : rs => window mint maxt (r_t r)) with (wf mint maxt).
  eapply window_keep_from; [exact Hm|apply run_incr; exact Hi|apply read_sound; exact Hv].
Qed.

(* ---- witnesses *)
Definition zth0 : Z := 4562254508917369340.   (* 0.001 *)
Definition hc (c : Z) : ahist := mkA HUnknown false 0 zth0 [] c 0 [(0, c)] [].
Definition opc (t c : Z) : bool * Z * ahist := (false, t, hc c).

Lemma hc_valid : forall c, 0 <= c -> valid (hc c).
Proof.
  intros c Hc. unfold valid, hc; simpl. repeat split.
  - exists (-1). simpl. split; [lia|exact I].
  - exists 0. exact I.
  - constructor; [simpl; lia|constructor].
  - constructor.
Qed.

Definition ops_grow : list (bool * Z * ahist) := [opc 1000 10; opc 2000 20; opc 3000 30; opc 4000 40; opc 5000 50].
Definition ops_reset : list (bool * Z * ahist) := [opc 1000 10; opc 2000 20; opc 3000 5; opc 4000 6; opc 5000 7].

Lemma ops_grow_ok : src_ok (KInt, ops_grow).
Proof.
  split; simpl.
  - unfold ops_grow, ops_reset, opc. repeat (constructor; [apply hc_valid; lia|]). constructor.
  - exists 0. simpl. unfold op_time. simpl. lia.
Qed.

Lemma ops_reset_ok : src_ok (KInt, ops_reset).
Proof.
  split; simpl.
  - unfold ops_grow, ops_reset, opc. repeat (constructor; [apply hc_valid; lia|]). constructor.
  - exists 0. simpl. unfold op_time. simpl. lia.
Qed.

(* the statement "the preceding sample exists in the same result" fails for the first sample of a
   query whose range starts inside a chunk *)
Lemma first_sample_refuted : exists (s : src) mint maxt,
  src_ok s /\ sound_list (src_read mint maxt s) = false
  /\ match src_read mint maxt s with x :: _ => marked x = true | [] => False end.
Proof.
  exists (KInt, ops_grow), 3000, 10000. split; [apply ops_grow_ok|]. split; vm_compute; reflexivity.
Qed.

(* with tombstones (any keep predicate instead of a window) even a later sample loses its
   predecessor: the sample after a deleted chunk start is marked although the counter went down *)
Definition keep_del (t : Z) : bool := negb ((2500 <=? t) && (t <=? 3500)).
Lemma deleted_chunk_start_refuted : exists (s : src) keep,
  src_ok s /\ sound_tail (read_source keep (run (fst s) (snd s))) = false.
Proof.
  exists (KInt, ops_reset), keep_del. split; [apply ops_reset_ok|]. vm_compute. reflexivity.
Qed.

(* non-vacuity: the chunk of ops_grow keeps four marked samples; the merge of two overlapping
   windows of it keeps marks only inside runs of one iterator *)
Lemma nonvacuous_read :
  map marked (concat (map read_chunk (run KInt ops_grow))) = [false; true; true; true; true]
  /\ length (run KInt ops_reset) = 2%nat.
Proof. split; vm_compute; reflexivity. Qed.

Definition two_reads_fixed : list (list rs) :=
  [read_source_fixed (window 1000 3000) (run KInt ops_grow); read_source_fixed (window 3000 5000) (run KInt ops_grow)].
Definition two_reads : list (list rs) :=
  [read_source (window 1000 3000) (run KInt ops_grow); read_source (window 3000 5000) (run KInt ops_grow)].
Lemma nonvacuous_merge : exists out,
  chain two_reads [] = COk out /\ map r_t out = [1000; 2000; 3000; 4000; 5000]
  /\ map marked out = [false; true; false; false; true] /\ Forall it_ok two_reads.
Proof.
  eexists. split; [vm_compute; reflexivity|]. split; [reflexivity|]. split; [reflexivity|].
  destruct ops_grow_ok as [Hv _]. simpl in Hv.
  assert (Hi : zincr 0 (map op_time ops_grow)) by (simpl; unfold op_time; simpl; lia).
  unfold two_reads. constructor; [|constructor; [|constructor]].
  - apply (source_window KInt ops_grow 1000 3000 0); assumption.
  - apply (source_window KInt ops_grow 3000 5000 0); assumption.
Qed.

(* ================================================================ the property at full strength, for the hypothetical repair only *)
Definition src_read_fixed (keep : Z -> bool) (s : src) : list rs := read_source_fixed keep (run (fst s) (snd s)).

(* Any number of sources (head, OOO head, blocks), each any valid append history with increasing
   timestamps, read through the DeletedIterator with any keep predicate (query window, tombstones):
   the result is sound for EVERY sample, whether it is the chained merge of the sources (any
   tie-breaking) or a single source returned as it is. *)
Lemma sound_if_hint_reset : forall (srcs : list src) keep,
  Forall src_ok srcs ->
  (forall ch out, chain (map (src_read_fixed keep) srcs) ch = COk out -> sound_list out = true)
  /\ (forall s, In s srcs -> sound_list (src_read_fixed keep s) = true).
Proof.
  intros srcs keep Hf. split.
  - intros ch out Hc. eapply chain_sound; [|exact Hc]. apply Forall_map.
    eapply Forall_impl; [|exact Hf]. intros [k ops] [Hv [lo Hi]]. simpl in *.
    unfold src_read_fixed. simpl. eapply source_ok; eauto.
  - intros s Hin. rewrite Forall_forall in Hf. destruct (Hf s Hin) as [Hv [lo Hi]].
    destruct s as [k ops]. unfold src_read_fixed. simpl in *. eapply source_ok; eauto.
Qed.

(* the witnesses of the two refuted statements through the hypothetical repair *)
Lemma fixed_witnesses :
  map marked (read_source_fixed (window 3000 10000) (run KInt ops_grow)) = [false; true; true]
  /\ map marked (read_source_fixed keep_del (run KInt ops_reset)) = [false; true; false; true].
Proof. split; vm_compute; reflexivity. Qed.

(* proof/PromqlRoundtrip.v — C26: calls, aggregations, the assembled round-trip theorem,
   checkAST's rewriting, Prettify. *)
From Coq Require Import List ZArith Bool NArith Lia Wf_nat.
From Verif Require Import model.PromqlPrint model.PromqlParse proof.PromqlPrintProofs proof.PromqlParseProofs.
Import ListNotations.
Open Scope Z_scope.

Local Arguments lex_word : simpl never.
Local Arguments kw_lookup : simpl never.

Lemma commas_len_in : forall (l : list (list tok)) x, In x l -> (length x <= length (commas l))%nat.
Proof.
  induction l as [|y l IH]; intros x H; [contradiction|].
  destruct l as [|z l'].
  - destruct H as [H|[]]. subst. cbn [commas]. apply Nat.le_refl.
  - rewrite commas_cons by congruence. rewrite app_length. cbn [length].
    destruct H as [H|H]; [subst; lia|]. specialize (IH x H). lia.
Qed.

Lemma commas_len_count : forall (l : list (list tok)), (forall x, In x l -> (1 <= length x)%nat) ->
  (length l <= length (commas l))%nat.
Proof.
  induction l as [|y l IH]; intros H; [simpl; lia|].
  destruct l as [|z l'].
  - cbn [commas length]. specialize (H y (or_introl eq_refl)). lia.
  - rewrite commas_cons by congruence. rewrite app_length. cbn [length].
    pose proof (H y (or_introl eq_refl)).
    assert (length (z :: l') <= length (commas (z :: l')))%nat by (apply IH; intros; apply H; right; auto).
    cbn [length] in *. lia.
Qed.

Section Calls.
  Variable oc : orc.
  Variable o : opts.
  Variable ft : ftab.
  Notation pr := (print oc).
  Notation wf := (wfb oc o ft).
  Notation PE := (parse_e oc o ft).
  Notation tlen := (tlen oc).
  Notation ML := (ML oc o ft).
  Notation PL := (PL oc o ft).

  Definition pargs (args : list expr) : list tok := commas (map pr (map unnorm args)).

  Lemma lprec_ge0 : forall e, 0 <= lprec e.
  Proof. destruct e; cbn; try lia. pose proof (prec_range op); lia. Qed.

  Lemma arg_parse : forall a f c Y, ML a -> (S (tlen a) <= f)%nat -> (tk c = KRP \/ tk c = KCOMMA) ->
    PE f 0 (pr (unnorm a) ++ c :: Y) = Ok (unnorm a, c :: Y).
  Proof.
    intros a f c Y HM Hf Hc. destruct f as [|f0]; [lia|].
    apply (HM f0 0%nat); [lia|apply lprec_ge0| |].
    - cbn. destruct Hc as [E|E]; rewrite E; exact I.
    - apply climb_stop. cbn. destruct Hc as [E|E]; rewrite E; exact I.
  Qed.

  Lemma args_loop_print : forall args f n acc X, args <> [] ->
    (forall a, In a args -> ML a /\ (S (tlen a) <= f)%nat) -> (length args <= n)%nat ->
    args_loop (PE f) n (pargs args ++ T KRP :: X) acc = Ok (acc ++ map unnorm args, X).
  Proof.
    unfold pargs. induction args as [|a args IH]; intros f n acc X Hne Hall Hn; [congruence|].
    destruct n; [simpl in Hn; lia|]. cbn [args_loop map].
    destruct (Hall a (or_introl eq_refl)) as [HM Hf].
    destruct args as [|b args'].
    - cbn [map commas]. rewrite (arg_parse a f (T KRP) X HM Hf) by (left; reflexivity). reflexivity.
    - rewrite commas_cons by (cbn; congruence). rewrite <- app_assoc. cbn [app].
      rewrite (arg_parse a f (T KCOMMA)) by (auto; right; reflexivity). cbn [tk T].
      rewrite IH; [rewrite <- app_assoc; reflexivity|congruence| |simpl in *; lia].
      intros. apply Hall. right. auto.
  Qed.

  Lemma pargs_head : forall a args X, wf a = true ->
    exists t r, pargs (a :: args) ++ X = t :: r /\ okstart (tk t).
  Proof.
    intros. unfold pargs. cbn [map]. destruct args.
    - cbn [map commas]. apply print_head with (o := o) (ft := ft). auto.
    - rewrite commas_cons by (cbn; congruence). rewrite <- app_assoc. apply print_head with (o := o) (ft := ft). auto.
  Qed.

  (* function_call_body *)
  Lemma call_body_print : forall args f X, forallb wf args = true ->
    (forall a, In a args -> ML a /\ (S (tlen a) <= f)%nat) -> (length args <= f)%nat ->
    call_body (PE f) f (T KLP :: pargs args ++ T KRP :: X) = Ok (map unnorm args, X).
  Proof.
    intros args f X Hwf Hall Hn. cbn [call_body tk T]. destruct args as [|a args].
    - reflexivity.
    - simpl in Hwf. apply andb_prop in Hwf. destruct Hwf as [Hwa _].
      destruct (pargs_head a args (T KRP :: X) Hwa) as (t & r & E & K). rewrite E. cbn [hd_kind].
      pose proof (okstart_not_rp _ K) as NR.
      destruct (tk t) eqn:KK; try congruence; rewrite <- E;
        rewrite (args_loop_print (a :: args) f f [] X); auto; congruence.
  Qed.

  Lemma tlen_arg : forall a args, In a args -> (tlen a <= length (pargs args))%nat.
  Proof.
    intros. unfold pargs, PromqlParseProofs.tlen. apply commas_len_in. apply in_map. apply in_map. auto.
  Qed.

  Lemma len_args : forall args, forallb wf args = true -> (length args <= length (pargs args))%nat.
  Proof.
    intros. unfold pargs. rewrite <- (map_length unnorm args). rewrite <- (map_length pr (map unnorm args)).
    apply commas_len_count. intros x Hx. apply in_map_iff in Hx. destruct Hx as (e' & E1 & Hx).
    apply in_map_iff in Hx. destruct Hx as (e & E2 & Hx). subst.
    rewrite forallb_forall in H. specialize (H e Hx). apply (tlen_pos oc o ft) in H. exact H.
  Qed.

  Lemma PL_call : forall fn args,
    (forall e', (tlen e' < tlen (ECall fn args))%nat -> wf e' = true -> ML e' /\ PL e') ->
    wf (ECall fn args) = true -> PL (ECall fn args).
  Proof.
    intros fn args IH Hwf Ha f n X r Hf HX Hp. cbn [wfb] in Hwf.
    apply andb_prop in Hwf. destruct Hwf as [Hwf Hargs]. apply andb_prop in Hwf. destruct Hwf as [Hk Hfl].
    assert (Hlen : (3 + length (pargs args) <= tlen (ECall fn args))%nat).
    { unfold PromqlParseProofs.tlen. cbn [unnorm print length]. rewrite app_length. fold (pargs args). simpl. lia. }
    assert (Htx : tx (lex_word fn) = fn).
    { apply lex_word_tx. intro E. rewrite E in Hk. discriminate. }
    cbn [unnorm print] in *. fold (pargs args). cbn [app]. rewrite <- app_assoc. cbn [app].
    assert (CB : call_body (PE f) f (T KLP :: pargs args ++ T KRP :: X) = Ok (map unnorm args, X)).
    { apply call_body_print; auto.
      - intros a Hin. pose proof (tlen_arg a args Hin). rewrite forallb_forall in Hargs.
        destruct (IH a) as [MLa _]; [lia|auto|]. split; auto. lia.
      - pose proof (len_args args Hargs). lia. }
    destruct (flookup fn ft) as [[ty ex]|] eqn:FL; [|discriminate].
    assert (EX : ex && negb (o_expfn o) = false).
    { destruct ex; auto. cbn in Hfl. rewrite Hfl. reflexivity. }
    cbn [prefix primary].
    destruct (tk (lex_word fn)) eqn:K; try discriminate Hk;
      cbn [andb hd_kind tk T]; rewrite Htx, FL, EX, CB; eapply postfix_loop_mono; eauto; lia.
  Qed.

  Definition agg_args (param : option expr) (e1 : expr) : list expr :=
    match param with Some p => [p; e1] | None => [e1] end.

  Lemma PL_agg : forall op wo grp param e1,
    (forall e', (tlen e' < tlen (EAgg op wo grp param e1))%nat -> wf e' = true -> ML e' /\ PL e') ->
    wf (EAgg op wo grp param e1) = true -> PL (EAgg op wo grp param e1).
  Proof.
    intros op wo grp param e1 IH Hwf Ha f n X r Hf HX Hp. cbn [wfb] in Hwf.
    apply andb_prop in Hwf. destruct Hwf as [Hwf Hw1]. apply andb_prop in Hwf. destruct Hwf as [Hwf Hexp].
    apply andb_prop in Hwf. destruct Hwf as [Hgrp Hpar].
    set (args := agg_args param e1).
    assert (Hwargs : forallb wf args = true).
    { unfold args, agg_args. destruct param; b2p; cbn [forallb]; rewrite ?Hw1; try reflexivity.
      match goal with H : wfb _ _ _ e = true |- _ => rewrite H end. reflexivity. }
    (* the printed text in terms of pargs *)
    set (MOD := if wo then TW KWITHOUT W_without :: T KLP :: print_labels grp ++ [T KRP]
                else match grp with [] => [] | _ => TW KBY W_by :: T KLP :: print_labels grp ++ [T KRP] end).
    assert (EP : pr (unnorm (EAgg op wo grp param e1)) ++ X =
                 TW (KAGG op) (aggop_word op) :: MOD ++ T KLP :: pargs args ++ T KRP :: X).
    { cbn [unnorm print]. fold MOD. cbn [app]. f_equal. rewrite <- app_assoc. f_equal. cbn [app]. f_equal.
      unfold args, agg_args, pargs. destruct param as [p|]; cbn [option_map map commas].
      - b2p. rewrite H. repeat rewrite <- app_assoc. reflexivity.
      - cbn [app]. rewrite <- app_assoc. reflexivity. }
    assert (Hlen : (2 + length (pargs args) <= tlen (EAgg op wo grp param e1))%nat).
    { unfold PromqlParseProofs.tlen. pose proof (f_equal (@length tok) EP) as L.
      rewrite app_length in L. cbn [length] in L. rewrite !app_length in L. cbn [length] in L. rewrite !app_length in L.
      cbn [length] in L. lia. }
    rewrite EP.
    assert (CB : forall Y, Y = X -> call_body (PE f) f (T KLP :: pargs args ++ T KRP :: Y) = Ok (map unnorm args, Y)).
    { intros Y EY. subst Y. apply call_body_print; auto.
      - intros a Hin. pose proof (tlen_arg a args Hin). rewrite forallb_forall in Hwargs.
        destruct (IH a) as [MLa _]; [lia|auto|]. split; auto. lia.
      - pose proof (len_args args Hwargs). lia. }
    assert (MK : mk_agg o op wo grp (map unnorm args) = Ok (unnorm (EAgg op wo grp param e1))).
    { unfold mk_agg, args, agg_args. cbn [unnorm]. destruct param as [p|]; cbn [option_map map]; b2p.
      - rewrite H. destruct op; try discriminate H; try reflexivity; rewrite Hexp; reflexivity.
      - rewrite Hpar. reflexivity. }
    cbn [prefix primary tk TW].
    unfold MOD. destruct wo.
    - cbn [app hd_kind tk TW tl]. rewrite app_cons_assoc. rewrite glabels_print by auto.
      rewrite (CB X eq_refl). rewrite MK. eapply postfix_loop_mono; eauto. lia.
    - destruct grp as [|g gs].
      + cbn [app hd_kind tk T]. rewrite (CB X eq_refl).
        unfold okX in HX. destruct (hd_kind X); try contradiction; rewrite MK; eapply postfix_loop_mono; eauto; lia.
      + cbn [app hd_kind tk TW tl]. rewrite app_cons_assoc. rewrite glabels_print by auto.
        rewrite (CB X eq_refl). rewrite MK. eapply postfix_loop_mono; eauto. lia.
  Qed.

  (* ---------------------------------------------------------------- assembling *)
  Lemma main_step : forall e,
    (forall e', (tlen e' < tlen e)%nat -> wf e' = true -> ML e' /\ PL e') ->
    wf e = true -> ML e /\ PL e.
  Proof.
    intros e IH Hwf.
    assert (HPL : PL e).
    { destruct e.
      - apply PL_num; auto.
      - apply PL_dur; auto.
      - apply PL_str.
      - apply PL_vs; auto.
      - apply PL_mat; auto.
      - apply PL_sub; auto.
      - apply PL_call; auto.
      - apply PL_agg; auto.
      - intro Ha. unfold atomb in Ha. cbn [rprec] in Ha. pose proof (prec_range op). b2p. lia.
      - intro Ha. unfold atomb in Ha. cbn [rprec] in Ha. b2p. lia.
      - apply PL_paren; auto. }
    split; auto.
    destruct e.
    - apply ML_num; auto.
    - apply ML_dur; auto.
    - apply ML_of_PL; auto.
    - apply ML_of_PL; auto.
    - apply ML_of_PL; auto.
    - apply ML_of_PL; auto.
    - apply ML_of_PL; auto.
    - apply ML_of_PL; auto.
    - apply ML_bin; auto.
    - apply ML_un; auto.
    - apply ML_of_PL; auto.
  Qed.

  Lemma main : forall e, wf e = true -> ML e /\ PL e.
  Proof.
    intros e. induction e as [e IH] using (well_founded_induction (well_founded_ltof _ tlen)).
    intros Hwf. apply main_step; auto.
  Qed.

  (* the syntactic round trip: the grammar reads the printed tokens back as the AST it builds
     before checkAST *)
  Theorem parse_e_print : forall e, wf e = true ->
    PE (S (length (pr (unnorm e)))) 0 (pr (unnorm e)) = Ok (unnorm e, []).
  Proof.
    intros e Hwf. destruct (main e Hwf) as [HM _].
    rewrite <- (app_nil_r (pr (unnorm e))) at 2.
    apply (HM (length (pr (unnorm e))) 0%nat 0 [] (unnorm e, [])).
    - unfold PromqlParseProofs.tlen. lia.
    - apply lprec_ge0.
    - exact I.
    - apply climb_stop. exact I.
  Qed.
End Calls.


(* ------------------------------------------------------------------ induction with nested lists *)
Section ExprInd.
  Variable P : expr -> Prop.
  Hypothesis Hnum : forall b, P (ENum b).
  Hypothesis Hdur : forall n ns, P (EDurLit n ns).
  Hypothesis Hstr : forall s, P (EStr s).
  Hypothesis Hvs : forall v, P (EVS v).
  Hypothesis Hmat : forall v r, P (EMat v r).
  Hypothesis Hsub : forall e r s a d, P e -> P (ESub e r s a d).
  Hypothesis Hcall : forall f args, Forall P args -> P (ECall f args).
  Hypothesis Hagg1 : forall op wo grp p e, P p -> P e -> P (EAgg op wo grp (Some p) e).
  Hypothesis Hagg0 : forall op wo grp e, P e -> P (EAgg op wo grp None e).
  Hypothesis Hbin : forall op rb vm l r, P l -> P r -> P (EBin op rb vm l r).
  Hypothesis Hun : forall n e, P e -> P (EUn n e).
  Hypothesis Hparen : forall e, P e -> P (EParen e).

  Fixpoint expr_ind' (e : expr) : P e :=
    match e with
    | ENum b => Hnum b
    | EDurLit n ns => Hdur n ns
    | EStr s => Hstr s
    | EVS v => Hvs v
    | EMat v r => Hmat v r
    | ESub e1 r s a d => Hsub e1 r s a d (expr_ind' e1)
    | ECall f args =>
        Hcall f args ((fix go (l : list expr) : Forall P l :=
                         match l with [] => Forall_nil P | x :: r => Forall_cons x (expr_ind' x) (go r) end) args)
    | EAgg op wo grp param e1 =>
        match param as p return P (EAgg op wo grp p e1) with
        | Some q => Hagg1 op wo grp q e1 (expr_ind' q) (expr_ind' e1)
        | None => Hagg0 op wo grp e1 (expr_ind' e1)
        end
    | EBin op rb vm l r => Hbin op rb vm l r (expr_ind' l) (expr_ind' r)
    | EUn n e1 => Hun n e1 (expr_ind' e1)
    | EParen e1 => Hparen e1 (expr_ind' e1)
    end.
End ExprInd.

Lemma map_ext_Forall : forall A B (f g : A -> B) l, Forall (fun x => f x = g x) l -> map f l = map g l.
Proof. induction 1; simpl; congruence. Qed.

(* ------------------------------------------------------------------ checkAST's rewriting is invisible to the printer and undone by it *)
Section Norm.
  Variable oc : orc.
  Variable o : opts.
  Variable ft : ftab.

  Lemma print_matching_unnorm : forall op vm, print_matching (Some (unnorm_vm op vm)) = print_matching vm.
  Proof.
    intros. destruct vm as [m|]; [|reflexivity]. unfold unnorm_vm.
    destruct (is_set_op op); auto. destruct m as [c on ls inc fl fr]. destruct c; reflexivity.
  Qed.

  Lemma print_unnorm : forall e, print oc (unnorm e) = print oc e.
  Proof.
    induction e using expr_ind'; cbn [unnorm print]; try reflexivity.
    - rewrite IHe. reflexivity.
    - f_equal. f_equal. f_equal. f_equal. rewrite map_map. apply map_ext_Forall. exact H.
    - cbn [option_map]. rewrite IHe1, IHe2. reflexivity.
    - cbn [option_map]. rewrite IHe. reflexivity.
    - rewrite IHe1, IHe2, print_matching_unnorm. reflexivity.
    - rewrite IHe. reflexivity.
    - rewrite IHe. reflexivity.
  Qed.

  Lemma vtype_unnorm : forall e, vtype_of ft (unnorm e) = vtype_of ft e.
  Proof.
    induction e using expr_ind'; cbn [unnorm vtype_of]; try reflexivity; try congruence;
      try (rewrite ?IHe, ?IHe1, ?IHe2; reflexivity).
  Qed.

  Lemma normalize_unnorm : forall e, wfb oc o ft e = true -> normalize ft (unnorm e) = e.
  Proof.
    induction e using expr_ind'; intros Hwf; cbn [wfb] in Hwf; cbn [unnorm normalize]; try reflexivity.
    - b2p. rewrite IHe; auto.
    - b2p. f_equal. rewrite map_map. rewrite <- (map_id args) at 2. apply map_ext_Forall.
      rewrite forallb_forall in H1. rewrite Forall_forall in *. intros x Hx. apply H; auto.
    - b2p. cbn [option_map]. rewrite IHe1, IHe2 by auto. reflexivity.
    - b2p. cbn [option_map]. rewrite IHe by auto. reflexivity.
    - apply andb_prop in Hwf. destruct Hwf as [Hwf Hty].
      apply andb_prop in Hwf. destruct Hwf as [Hwf Hr]. apply andb_prop in Hwf. destruct Hwf as [Hwf Hl].
      apply andb_prop in Hwf. destruct Hwf as [Hwl Hwr].
      rewrite IHe1, IHe2 by auto. f_equal.
      unfold norm_vm, unnorm_vm. destruct vm as [m|].
      + b2p. destruct (vtype_of ft e1); try discriminate. destruct (vtype_of ft e2); try discriminate.
        destruct (is_set_op op) eqn:S.
        * destruct m as [c on ls inc fl fr]. cbn [vm_card] in *. destruct c; try discriminate; reflexivity.
        * reflexivity.
      + cbn [vm_default]. destruct (vtype_of ft e1); try reflexivity. destruct (vtype_of ft e2); try reflexivity. discriminate.
    - b2p. rewrite IHe; auto.
    - rewrite IHe; auto.
  Qed.

  (* the main theorem: what the printer prints, the parser reads back *)
  Theorem roundtrip : forall e, wfb oc o ft e = true -> parse oc o ft (print oc e) = Ok e.
  Proof.
    intros e Hwf. unfold parse. rewrite <- (print_unnorm e).
    rewrite (parse_e_print oc o ft e Hwf). rewrite normalize_unnorm; auto.
  Qed.

  Corollary reprint : forall e, wfb oc o ft e = true ->
    match parse oc o ft (print oc e) with Ok e' => print oc e' = print oc e | Err _ => False end.
  Proof. intros. rewrite roundtrip; auto. Qed.

  (* Prettify only changes white space *)
  Lemma strip_pts : forall l, strip_ws (pts l) = l.
  Proof. induction l; simpl; congruence. Qed.

  Lemma strip_app : forall a b, strip_ws (a ++ b) = strip_ws a ++ strip_ws b.
  Proof. induction a as [|[t|] a IH]; intros; simpl; rewrite ?IH; reflexivity. Qed.

  Lemma strip_pcommas : forall (l : list (list ptok)), strip_ws (pcommas l) = commas (map strip_ws l).
  Proof.
    induction l as [|x l IH]; [reflexivity|]. destruct l as [|y l'].
    - reflexivity.
    - change (pcommas (x :: y :: l')) with (x ++ PT (T KCOMMA) :: PWS :: pcommas (y :: l')).
      rewrite strip_app. cbn [strip_ws]. rewrite IH. reflexivity.
  Qed.

  Theorem pretty_tokens : forall split e, strip_ws (pretty oc split e) = print oc e.
  Proof.
    intros split. induction e using expr_ind'; cbn [pretty strip_ws]; try apply strip_pts.
    - destruct (split _); [|apply strip_pts]. rewrite strip_app, IHe, strip_pts. cbn [print]. reflexivity.
    - destruct (split _); [|apply strip_pts]. cbn [strip_ws]. rewrite strip_app, strip_pcommas. cbn [strip_ws print].
      assert (E : map (fun x => strip_ws (pretty oc split x)) args = map (print oc) args) by (apply map_ext_Forall; exact H).
      rewrite map_map. rewrite E. reflexivity.
    - destruct (split _); [|apply strip_pts]. rewrite strip_app, strip_pts. cbn [strip_ws]. rewrite !strip_app. rewrite IHe2.
      cbn [strip_ws print]. cbn [app].
      destruct (agg_has_param op); [|reflexivity].
      rewrite strip_app, IHe1. cbn [strip_ws]. reflexivity.
    - destruct (split _); [|apply strip_pts]. rewrite strip_app, strip_pts. cbn [strip_ws]. rewrite !strip_app. rewrite IHe.
      cbn [strip_ws print]. cbn [app]. reflexivity.
    - destruct (split _); [|apply strip_pts]. rewrite strip_app, IHe1. cbn [strip_ws]. rewrite strip_app, strip_pts.
      cbn [strip_ws]. rewrite IHe2. cbn [print]. f_equal. cbn [app]. f_equal. rewrite <- app_assoc. reflexivity.
    - rewrite IHe. reflexivity.
    - destruct (split _); [|apply strip_pts]. cbn [strip_ws]. rewrite strip_app, IHe. cbn [strip_ws print]. reflexivity.
  Qed.
End Norm.

(* proof/XorProofs.v — lemmas and proofs about model/Xor.v (C10). *)
From Coq Require Import List ZArith Lia Bool.
From Verif Require Import lib.Int64 lib.Bits model.Xor.
Import ListNotations.
Open Scope Z_scope.

(* ---- U64 / W64 are u64 / wrap64 ------------------------------------------------------------- *)

Lemma U64_eq z : U64 z = u64 z.
Proof.
  unfold U64, u64, two64. change mask64 with (Z.ones 64). rewrite Z.land_ones by lia. reflexivity.
Qed.

Lemma W64_eq z : W64 z = wrap64 z.
Proof.
  unfold W64. rewrite U64_eq. unfold u64, wrap64, two64.
  destruct (Z.ltb_spec (z mod 18446744073709551616) 9223372036854775808);
    Z.div_mod_to_equations; lia.
Qed.

Definition is_u64 (z : Z) : Prop := 0 <= z < 18446744073709551616.

Lemma int64_unfold z : int64 z <-> -9223372036854775808 <= z <= 9223372036854775807.
Proof. unfold int64, minInt64, maxInt64. tauto. Qed.

Lemma U64_range z : is_u64 (U64 z).
Proof. rewrite U64_eq. unfold is_u64, u64, two64. apply Z.mod_pos_bound. lia. Qed.

Lemma U64_id z : is_u64 z -> U64 z = z.
Proof. intros H. rewrite U64_eq. unfold u64, two64. apply Z.mod_small. exact H. Qed.

Lemma W64_range z : int64 (W64 z).
Proof. rewrite W64_eq. apply wrap64_range. Qed.

Lemma W64_id z : int64 z -> W64 z = z.
Proof. intros H. rewrite W64_eq. apply wrap64_id. exact H. Qed.

(* the timestamp arithmetic of Append / Next, all modulo 2^64 *)
Lemma ts_delta_rt t0 t : int64 t0 -> int64 t -> W64 (t0 + W64 (U64 (t - t0))) = t.
Proof.
  intros H0 H. rewrite int64_unfold in *. rewrite !W64_eq, U64_eq. unfold wrap64, u64, two64.
  Z.div_mod_to_equations. lia.
Qed.

Lemma dod_rt td0 td : is_u64 td0 -> is_u64 td -> U64 (W64 td0 + W64 (td - td0)) = td.
Proof.
  unfold is_u64. intros H0 H. rewrite !W64_eq, U64_eq. unfold wrap64, u64, two64.
  Z.div_mod_to_equations. lia.
Qed.

(* ---- varints --------------------------------------------------------------------------------- *)

Lemma bytes_bits_cons b l r : bytes_bits (b :: l) ++ r = put_bits 8 b ++ (bytes_bits l ++ r).
Proof. unfold bytes_bits, unpack_bytes. cbn [flat_map]. rewrite <- app_assoc. reflexivity. Qed.

Lemma get8_put8 b r : 0 <= b < 256 -> get_bits 8 (put_bits 8 b ++ r) = Some (b, r).
Proof. intros H. apply get_put. change (2 ^ Z.of_nat 8) with 256. exact H. Qed.

Lemma get_uvarint_aux_S chk f i s x bs :
  get_uvarint_aux chk (S f) i s x bs =
  match get_bits 8 bs with
  | None => None
  | Some (b, r) =>
      if b <? 128 then
        if chk && (i =? 9) && (1 <? b) then None else Some (U64 (x + b * 2 ^ s), r)
      else get_uvarint_aux chk f (i + 1) (s + 7) (x + (b - 128) * 2 ^ s) r
  end.
Proof. reflexivity. Qed.

Lemma uvarint_rt_aux chk : forall f i s acc x r,
  i = 9 - Z.of_nat f -> s = 7 * i -> 0 <= i -> 0 <= x < 2 ^ (64 - s) -> 0 <= acc ->
  get_uvarint_aux chk (S f) i s acc (bytes_bits (uvarint_bytes f x) ++ r) = Some (U64 (acc + x * 2 ^ s), r).
Proof.
  induction f as [|f IH]; intros i s acc x r Hi Hs Hi0 Hx Hacc.
  - (* i = 9: one byte left, x < 2 *)
    assert (i = 9) by lia. subst i. assert (s = 63) by lia. subst s.
    change (2 ^ (64 - 63)) with 2 in Hx.
    cbn [uvarint_bytes]. rewrite bytes_bits_cons. rewrite get_uvarint_aux_S. rewrite get8_put8 by lia.
    replace (x <? 128) with true by (symmetry; apply Z.ltb_lt; lia).
    replace (1 <? x) with false by (symmetry; apply Z.ltb_ge; lia).
    rewrite andb_false_r. reflexivity.
  - cbn [uvarint_bytes]. destruct (Z.ltb_spec x 128) as [Hlt|Hge].
    + rewrite bytes_bits_cons. rewrite get_uvarint_aux_S. rewrite get8_put8 by lia.
      replace (x <? 128) with true by (symmetry; apply Z.ltb_lt; lia).
      replace (i =? 9) with false by (symmetry; apply Z.eqb_neq; lia).
      rewrite andb_false_r. cbn [andb]. reflexivity.
    + rewrite bytes_bits_cons. rewrite get_uvarint_aux_S.
      assert (Hm := Z.mod_pos_bound x 128 ltac:(lia)).
      rewrite get8_put8 by lia.
      replace (x mod 128 + 128 <? 128) with false by (symmetry; apply Z.ltb_ge; lia).
      assert (Hs0 : 0 <= s) by lia.
      assert (Hs57 : s <= 56) by lia.
      assert (Hp : 2 ^ (64 - s) = 128 * 2 ^ (64 - (s + 7))).
      { replace (64 - s) with (7 + (64 - (s + 7))) by lia. rewrite Z.pow_add_r by lia. reflexivity. }
      assert (Hps : 2 ^ (s + 7) = 2 ^ s * 128) by (rewrite Z.pow_add_r by lia; reflexivity).
      assert (Hpos : 0 < 2 ^ s) by (apply Z.pow_pos_nonneg; lia).
      assert (Hpos2 : 0 < 2 ^ (64 - (s + 7))) by (apply Z.pow_pos_nonneg; lia).
      rewrite (IH (i + 1) (s + 7) (acc + (x mod 128 + 128 - 128) * 2 ^ s) (x / 128) r); try lia.
      * f_equal. f_equal. rewrite Hps. pose proof (Z.div_mod x 128 ltac:(lia)) as Hdm.
        generalize dependent (x / 128). generalize dependent (x mod 128). intros m Hm q Hdm. intros.
        subst x. f_equal. ring.
      * split; [apply Z.div_pos; lia|]. apply Z.div_lt_upper_bound; lia.
Qed.

Lemma uvarint_rt chk x r : is_u64 x ->
  get_uvarint chk (bytes_bits (put_uvarint x) ++ r) = Some (x, r).
Proof.
  intros H. unfold get_uvarint, put_uvarint.
  rewrite (uvarint_rt_aux chk 9 0 0 0 x r); try lia.
  - rewrite Z.pow_0_r, Z.mul_1_r, Z.add_0_l, U64_id by exact H. reflexivity.
  - exact H.
Qed.

Lemma zigzag_range x : int64 x -> is_u64 (zigzag x).
Proof. rewrite int64_unfold. unfold is_u64, zigzag. destruct (Z.ltb_spec x 0); lia. Qed.

Lemma unzigzag_zigzag x : unzigzag (zigzag x) = x.
Proof.
  unfold unzigzag, zigzag. destruct (Z.ltb_spec x 0).
  - replace (-2 * x - 1) with (1 + 2 * (- x - 1)) by lia.
    rewrite Z.even_add_mul_2. cbn [Z.even].
    replace (1 + 2 * (- x - 1)) with ((- x - 1) * 2 + 1) by lia.
    rewrite Z.div_add_l by lia. change (1 / 2) with 0. lia.
  - rewrite Z.even_mul. cbn [Z.even orb]. rewrite Z.mul_comm, Z.div_mul by lia. reflexivity.
Qed.

Lemma varint_rt chk x r : int64 x ->
  get_varint chk (bytes_bits (put_varint x) ++ r) = Some (x, r).
Proof.
  intros H. unfold get_varint, put_varint. rewrite uvarint_rt by (apply zigzag_range; exact H).
  rewrite unzigzag_zigzag. reflexivity.
Qed.

(* ---- delta-of-delta buckets ------------------------------------------------------------------ *)

Lemma get_put_nat n x r : get_bits n (put_bits n x ++ r) = Some (x mod 2 ^ Z.of_nat n, r).
Proof. apply get_put_mod. Qed.

Lemma unsign14 d : - (2 ^ 13 - 1) <= d <= 2 ^ 13 -> unsign_gt 14 (d mod 2 ^ 14) = d.
Proof.
  intros H. unfold unsign_gt. change (2 ^ (14 - 1)) with 8192. change (2 ^ 13) with 8192 in H.
  change (2 ^ 14) with 16384.
  destruct (Z.ltb_spec 8192 (d mod 16384)) as [Hc|Hc].
  - rewrite U64_eq, W64_eq. unfold wrap64, u64, two64. Z.div_mod_to_equations. lia.
  - Z.div_mod_to_equations. lia.
Qed.

Lemma unsign17 d : - (2 ^ 16 - 1) <= d <= 2 ^ 16 -> unsign_gt 17 (d mod 2 ^ 17) = d.
Proof.
  intros H. unfold unsign_gt. change (2 ^ (17 - 1)) with 65536. change (2 ^ 16) with 65536 in H.
  change (2 ^ 17) with 131072.
  destruct (Z.ltb_spec 65536 (d mod 131072)) as [Hc|Hc].
  - rewrite U64_eq, W64_eq. unfold wrap64, u64, two64. Z.div_mod_to_equations. lia.
  - Z.div_mod_to_equations. lia.
Qed.

Lemma unsign20 d : - (2 ^ 19 - 1) <= d <= 2 ^ 19 -> unsign_gt 20 (d mod 2 ^ 20) = d.
Proof.
  intros H. unfold unsign_gt. change (2 ^ (20 - 1)) with 524288. change (2 ^ 19) with 524288 in H.
  change (2 ^ 20) with 1048576.
  destruct (Z.ltb_spec 524288 (d mod 1048576)) as [Hc|Hc].
  - rewrite U64_eq, W64_eq. unfold wrap64, u64, two64. Z.div_mod_to_equations. lia.
  - Z.div_mod_to_equations. lia.
Qed.

Lemma bitRange_spec x n : bitRange x n = true <-> - (2 ^ (n - 1) - 1) <= x <= 2 ^ (n - 1).
Proof. unfold bitRange. rewrite andb_true_iff, !Z.leb_le. tauto. Qed.

Lemma W64_mod64 d : int64 d -> W64 (d mod 2 ^ 64) = d.
Proof.
  rewrite int64_unfold. intros H. rewrite W64_eq. unfold wrap64, two64.
  change (2 ^ 64) with 18446744073709551616. Z.div_mod_to_equations. lia.
Qed.

Lemma xor_dod_rt d r : int64 d -> xor_read_dod (xor_dod_bits d ++ r) = Some (d, r).
Proof.
  intros Hd. unfold xor_dod_bits.
  destruct (Z.eqb_spec d 0) as [->|Hnz]; [reflexivity|].
  destruct (bitRange d 14) eqn:H14.
  { apply bitRange_spec in H14. unfold xor_read_dod. cbn [app get_bit].
    rewrite get_put_nat. change (Z.of_nat 14) with 14. rewrite unsign14 by exact H14. reflexivity. }
  destruct (bitRange d 17) eqn:H17.
  { apply bitRange_spec in H17. unfold xor_read_dod. cbn [app get_bit].
    rewrite get_put_nat. change (Z.of_nat 17) with 17. rewrite unsign17 by exact H17. reflexivity. }
  destruct (bitRange d 20) eqn:H20.
  { apply bitRange_spec in H20. unfold xor_read_dod. cbn [app get_bit].
    rewrite get_put_nat. change (Z.of_nat 20) with 20. rewrite unsign20 by exact H20. reflexivity. }
  unfold xor_read_dod. cbn [app get_bit]. rewrite get_put_nat. change (Z.of_nat 64) with 64.
  rewrite W64_mod64 by exact Hd. reflexivity.
Qed.

Lemma xor_dod_bits_nonempty d : xor_dod_bits d <> [].
Proof.
  unfold xor_dod_bits. destruct (d =? 0); [discriminate|].
  destruct (bitRange d 14); [discriminate|]. destruct (bitRange d 17); [discriminate|].
  destruct (bitRange d 20); discriminate.
Qed.

(* ---- values: xorWrite / xorRead ---------------------------------------------------------------- *)

Lemma lxor_u64 a b : is_u64 a -> is_u64 b -> is_u64 (Z.lxor a b).
Proof.
  unfold is_u64. intros Ha Hb. split; [apply Z.lxor_nonneg; lia|].
  destruct (Z.eq_dec (Z.lxor a b) 0) as [->|Hnz]; [lia|].
  assert (H0 : 0 <= Z.lxor a b) by (apply Z.lxor_nonneg; lia).
  change 18446744073709551616 with (2 ^ 64). apply Z.log2_lt_pow2; [lia|].
  eapply Z.le_lt_trans; [apply Z.log2_lxor; lia|].
  apply Z.max_lub_lt.
  - destruct (Z.eq_dec a 0) as [->|]; [cbn; lia|]. apply Z.log2_lt_pow2; lia.
  - destruct (Z.eq_dec b 0) as [->|]; [cbn; lia|]. apply Z.log2_lt_pow2; lia.
Qed.

Lemma lxor_cancel prev v : Z.lxor prev (Z.lxor v prev) = v.
Proof. rewrite (Z.lxor_comm v prev), <- Z.lxor_assoc, Z.lxor_nilpotent, Z.lxor_0_l. reflexivity. Qed.

(* the window the iterator holds is always well formed *)
Definition wf_window (l t : Z) : Prop := 0 <= l <= 31 /\ 0 <= t /\ l + t <= 63.

(* appender's window vs iterator's window: a fresh appender (0xff) has none yet *)
Definition win_rel (al at_ il it_ : Z) : Prop := al = 255 \/ (al = il /\ at_ = it_).

Lemma clamp_lead_bound d : 0 < d < 2 ^ 64 ->
  0 <= clamp_lead (lz64 d) <= 31 /\ clamp_lead (lz64 d) <= lz64 d.
Proof.
  intros H. destruct (lz64_bound d H) as [Hb _]. unfold clamp_lead.
  destruct (Z.leb_spec 32 (lz64 d)); lia.
Qed.

Lemma pow2_to_nat n : 0 <= n -> 2 ^ Z.of_nat (Z.to_nat n) = 2 ^ n.
Proof. intros H. rewrite Z2Nat.id by lia. reflexivity. Qed.

Lemma xor_value_rt prev v al at_ il it_ :
  is_u64 prev -> is_u64 v -> win_rel al at_ il it_ -> wf_window il it_ ->
  exists il' it', 
    (forall r, xor_read prev il it_ (fst (fst (xor_write prev v al at_)) ++ r) = Some (v, il', it', r)) /\
    win_rel (snd (fst (xor_write prev v al at_))) (snd (xor_write prev v al at_)) il' it' /\
    wf_window il' it'.
Proof.
  intros Hp Hv Hrel Hwf. unfold xor_write.
  pose proof (lxor_u64 v prev Hv Hp) as Hd.
  destruct (Z.eqb_spec (Z.lxor v prev) 0) as [Hz|Hnz].
  { apply Z.lxor_eq in Hz. subst v. exists il, it_. cbn [fst snd app].
    split; [intros r; reflexivity|]. split; assumption. }
  set (delta := Z.lxor v prev) in *.
  assert (Hd' : 0 < delta < 2 ^ 64) by (unfold is_u64 in Hd; change (2 ^ 64) with 18446744073709551616; lia).
  destruct (clamp_lead_bound delta Hd') as [Hcl Hcl2].
  destruct (tz64_bound delta Hd') as [Htz Hsum].
  destruct (lz64_bound delta Hd') as [Hlz _].
  destruct (negb (al =? 255) && (al <=? clamp_lead (lz64 delta)) && (at_ <=? tz64 delta)) eqn:Hreuse.
  - (* reuse the window *)
    apply andb_true_iff in Hreuse. destruct Hreuse as [Hr1 Hr3]. apply andb_true_iff in Hr1. destruct Hr1 as [Hr1 Hr2].
    apply negb_true_iff, Z.eqb_neq in Hr1. apply Z.leb_le in Hr2, Hr3.
    destruct Hrel as [Hff|[Hl Ht]]; [contradiction|]. subst al at_.
    destruct Hwf as [Hw1 [Hw2 Hw3]].
    exists il, it_. cbn [fst snd]. split; [|split; [right; split; reflexivity| repeat split; lia]].
    intros r. unfold xor_read. cbn [app get_bit]. unfold read_reuse_window.
    replace ((64 - il - it_) mod 256) with (64 - il - it_) by (symmetry; apply Z.mod_small; lia).
    rewrite get_put_nat, pow2_to_nat by lia.
    pose proof (shiftr_fits delta il it_ Hd' ltac:(lia) ltac:(lia)) as Hfit.
    rewrite Z.mod_small by exact Hfit.
    rewrite shiftr_shiftl_tz by lia. rewrite U64_id by exact Hd.
    unfold delta. rewrite lxor_cancel. reflexivity.
  - (* a new window *)
    set (nl := clamp_lead (lz64 delta)) in *. set (nt := tz64 delta) in *.
    exists nl, nt. cbn [fst snd]. split; [|split; [right; split; reflexivity| repeat split; lia]].
    intros r. unfold xor_read. cbn [app get_bit]. unfold read_new_window. rewrite <- !app_assoc.
    rewrite get_put_nat. change (2 ^ Z.of_nat 5) with 32. rewrite (Z.mod_small nl 32) by lia.
    rewrite get_put_nat. change (2 ^ Z.of_nat 6) with 64.
    assert (Hsig : 1 <= 64 - nl - nt <= 64) by lia.
    assert (Hmb : (if (64 - nl - nt) mod 64 =? 0 then 64 else (64 - nl - nt) mod 64) = 64 - nl - nt).
    { destruct (Z.eq_dec (64 - nl - nt) 64) as [He|Hne].
      - rewrite He. reflexivity.
      - rewrite Z.mod_small by lia. destruct (Z.eqb_spec (64 - nl - nt) 0); lia. }
    rewrite Hmb.
    replace ((64 - nl - (64 - nl - nt)) mod 256) with nt by (rewrite Z.mod_small; lia).
    rewrite get_put_nat, pow2_to_nat by lia.
    pose proof (shiftr_fits delta nl nt Hd' ltac:(lia) ltac:(lia)) as Hfit.
    rewrite Z.mod_small by exact Hfit.
    rewrite shiftr_shiftl_tz by lia. rewrite U64_id by exact Hd.
    unfold delta. rewrite lxor_cancel. reflexivity.
Qed.

Lemma xor_write_nonempty prev v al at_ : fst (fst (xor_write prev v al at_)) <> [].
Proof.
  unfold xor_write. destruct (Z.lxor v prev =? 0); [discriminate|].
  destruct (negb (al =? 255) && (al <=? clamp_lead (lz64 (Z.lxor v prev))) && (at_ <=? tz64 (Z.lxor v prev))); discriminate.
Qed.

(* ---- one Append against one Next ---------------------------------------------------------------- *)

Definition wf_sample (s : sample) : Prop := int64 (s_t s) /\ is_u64 (s_v s).

Definition st0 (s : sample) : sample := mkS 0 (s_t s) (s_v s).

(* the iterator state is well formed *)
Definition wf_it (it : xit) : Prop :=
  int64 (i_t it) /\ is_u64 (i_v it) /\ is_u64 (i_tDelta it) /\ wf_window (i_lead it) (i_trail it).

(* simulation relation: the appender on a chunk with [num] samples and the iterator that has
   read exactly these [num] samples *)
Definition Inv (num : Z) (a : xapp) (it : xit) : Prop :=
  0 <= num /\ i_num it = num /\ a_t a = i_t it /\ a_v a = i_v it /\ a_tDelta a = i_tDelta it /\
  win_rel (a_lead a) (a_trail a) (i_lead it) (i_trail it) /\ wf_it it /\
  (num = 0 -> i_tDelta it = 0).

Lemma Inv_init : Inv 0 xapp_init xit_init.
Proof.
  unfold Inv, xapp_init, xit_init, wf_it, wf_window, win_rel, is_u64. cbn.
  rewrite int64_unfold. unfold minInt64. repeat split; try lia.
Qed.

Opaque put_bits get_bits.

Ltac fin :=
  first [ assumption | reflexivity | lia | apply U64_range
        | (unfold is_u64, int64, minInt64, maxInt64 in *; lia)
        | (left; reflexivity) ].

Lemma xor_step num a it t v b a' :
  Inv num a it -> int64 t -> is_u64 v ->
  xor_append num a t v = Some (b, a') ->
  exists it', (forall r, xor_next it (b ++ r) = Some (it', r)) /\ Inv (num + 1) a' it' /\
              i_t it' = t /\ i_v it' = v /\ b <> [].
Proof.
  intros [Hn0 [Hnum [Ht [Hv [Htd [Hwin [[Hit [Hiv [Hitd Hww]]] Hz]]]]]]] Htt Hvv Happ.
  unfold xor_append in Happ.
  destruct (Z.eqb_spec num 0) as [H0|H0].
  { (* first sample *)
    injection Happ as Hb Ha; subst b a'.
    exists (mkXI 1 t v (i_tDelta it) (i_lead it) (i_trail it)). split.
    { intros r. unfold xor_next. rewrite Hnum. replace (num =? 0) with true by (symmetry; apply Z.eqb_eq; exact H0).
      rewrite <- app_assoc. rewrite varint_rt by exact Htt.
      rewrite get_put_nat. change (2 ^ Z.of_nat 64) with 18446744073709551616.
      rewrite Z.mod_small by exact Hvv. reflexivity. }
    cbn [i_t i_v].
    split; [|split; [reflexivity|split; [reflexivity|]]].
    - destruct Hww as [Hw1 [Hw2 Hw3]].
      unfold Inv, wf_it, wf_window. cbn. rewrite (Hz H0).
      repeat split; try fin.
    - unfold put_varint, put_uvarint. cbn [uvarint_bytes].
      destruct (zigzag t <? 128); discriminate. }
  destruct (Z.eqb_spec num 1) as [H1|H1].
  { (* second sample: uvarint delta *)
    destruct (xor_write (a_v a) v (a_lead a) (a_trail a)) as [[vb l] tr] eqn:Hw.
    injection Happ as Hb Ha; subst b a'.
    destruct (xor_value_rt (i_v it) v (a_lead a) (a_trail a) (i_lead it) (i_trail it) Hiv Hvv Hwin Hww)
      as [il' [it' [Hrd [Hrel' Hwf']]]].
    rewrite <- Hv in Hrd, Hrel'. rewrite Hw in Hrd, Hrel'. cbn [fst snd] in Hrd, Hrel'. rewrite Hv in Hrd.
    exists (mkXI 2 t v (U64 (t - a_t a)) il' it'). split.
    { intros r. unfold xor_next. rewrite Hnum.
      replace (num =? 0) with false by (symmetry; apply Z.eqb_neq; exact H0).
      replace (num =? 1) with true by (symmetry; apply Z.eqb_eq; exact H1).
      rewrite <- app_assoc. rewrite uvarint_rt by apply U64_range.
      rewrite Hrd. rewrite Ht. rewrite ts_delta_rt by assumption. reflexivity. }
    cbn [i_t i_v].
    split; [|split; [reflexivity|split; [reflexivity|]]].
    - destruct Hwf' as [Hw1 [Hw2 Hw3]].
      unfold Inv, wf_it, wf_window. cbn.
      repeat split; try fin.
    - unfold put_uvarint. cbn [uvarint_bytes]. destruct (U64 (t - a_t a) <? 128); discriminate. }
  destruct (Z.eqb_spec num 65535) as [Hcap|Hcap]; [discriminate|].
  destruct (xor_write (a_v a) v (a_lead a) (a_trail a)) as [[vb l] tr] eqn:Hw.
  injection Happ as Hb Ha; subst b a'.
  destruct (xor_value_rt (i_v it) v (a_lead a) (a_trail a) (i_lead it) (i_trail it) Hiv Hvv Hwin Hww)
    as [il' [it' [Hrd [Hrel' Hwf']]]].
  rewrite <- Hv in Hrd, Hrel'. rewrite Hw in Hrd, Hrel'. cbn [fst snd] in Hrd, Hrel'. rewrite Hv in Hrd.
  exists (mkXI (num + 1) t v (U64 (t - a_t a)) il' it'). split.
  { intros r. unfold xor_next. rewrite Hnum.
    replace (num =? 0) with false by (symmetry; apply Z.eqb_neq; exact H0).
    replace (num =? 1) with false by (symmetry; apply Z.eqb_neq; exact H1).
    rewrite <- app_assoc. rewrite xor_dod_rt by apply W64_range.
    rewrite Hrd. rewrite Htd, Ht.
    rewrite dod_rt by (try assumption; apply U64_range).
    rewrite ts_delta_rt by assumption. reflexivity. }
  cbn [i_t i_v].
  split; [|split; [reflexivity|split; [reflexivity|]]].
  - destruct Hwf' as [Hw1 [Hw2 Hw3]].
    unfold Inv, wf_it, wf_window. cbn.
    repeat split; try fin.
  - intros Hc. apply app_eq_nil in Hc. destruct Hc as [Hc _]. exact (xor_dod_bits_nonempty _ Hc).
Qed.

Lemma xor_append_total num a t v : 0 <= num < 65535 -> xor_append num a t v <> None.
Proof.
  intros H. unfold xor_append.
  destruct (num =? 0); [discriminate|]. destruct (num =? 1).
  { destruct (xor_write (a_v a) v (a_lead a) (a_trail a)) as [[? ?] ?]. discriminate. }
  destruct (Z.eqb_spec num 65535); [lia|].
  destruct (xor_write (a_v a) v (a_lead a) (a_trail a)) as [[? ?] ?]. discriminate.
Qed.

(* ---- runs of appends against runs of Next ------------------------------------------------------- *)

Lemma xor_run_rt : forall ss num a it bs n2 a2,
  Inv num a it -> Forall wf_sample ss ->
  xor_append_all num a ss = Some (bs, n2, a2) ->
  exists it2, (forall r, xor_iter (length ss) it (bs ++ r) = (map st0 ss, Some (it2, r))) /\ Inv n2 a2 it2 /\
              n2 = num + Z.of_nat (length ss) /\ (ss <> [] -> bs <> []).
Proof.
  induction ss as [|s ss IH]; intros num a it bs n2 a2 HI Hwf Hall.
  - cbn in Hall. injection Hall as Hb Hn Ha. subst bs n2 a2. exists it. cbn.
    split; [intros r; reflexivity|split; [exact HI|split; [lia|auto]]].
  - cbn [xor_append_all] in Hall.
    destruct (xor_append num a (s_t s) (s_v s)) as [[b a']|] eqn:Happ; [|discriminate].
    destruct (xor_append_all (num + 1) a' ss) as [[[b2 n2'] a2']|] eqn:Hrest; [|discriminate].
    injection Hall as Hb Hn Ha. subst bs n2 a2.
    inversion Hwf as [|? ? [Hs1 Hs2] Hwf']; subst.
    destruct (xor_step num a it (s_t s) (s_v s) b a' HI Hs1 Hs2 Happ) as [it' [Hnx [HI' [Ht' [Hv' Hne]]]]].
    destruct (IH (num + 1) a' it' b2 n2' a2' HI' Hwf' Hrest) as [it2 [Hit [HI2 [Hn2 _]]]].
    exists it2. split; [|split; [exact HI2|split]].
    + intros r. cbn [length xor_iter map]. rewrite <- app_assoc, Hnx, Hit.
      unfold st0 at 1. rewrite Ht', Hv'. reflexivity.
    + rewrite Hn2. cbn [length]. rewrite Nat2Z.inj_succ. lia.
    + intros _ Hc. apply app_eq_nil in Hc. destruct Hc as [Hc _]. exact (Hne Hc).
Qed.

Lemma xor_append_all_total : forall ss num a,
  0 <= num -> num + Z.of_nat (length ss) <= 65535 -> xor_append_all num a ss <> None.
Proof.
  induction ss as [|s ss IH]; intros num a H0 Hcap; [discriminate|].
  cbn [xor_append_all]. cbn [length] in Hcap. rewrite Nat2Z.inj_succ in Hcap.
  destruct (xor_append num a (s_t s) (s_v s)) as [[b a']|] eqn:Happ.
  - specialize (IH (num + 1) a' ltac:(lia) ltac:(lia)).
    destruct (xor_append_all (num + 1) a' ss) as [[[? ?] ?]|]; [discriminate|contradiction].
  - exfalso. eapply xor_append_total; [|exact Happ]. lia.
Qed.

Lemma xor_iter_app : forall n m it bs,
  xor_iter (n + m) it bs =
  match xor_iter n it bs with
  | (l1, Some (it', bs')) => let '(l2, r2) := xor_iter m it' bs' in (l1 ++ l2, r2)
  | (l1, None) => (l1, None)
  end.
Proof.
  induction n as [|n IH]; intros m it bs.
  - cbn. destruct (xor_iter m it bs). reflexivity.
  - cbn [Nat.add xor_iter]. destruct (xor_next it bs) as [[it' bs']|]; [|reflexivity].
    rewrite IH. destruct (xor_iter n it' bs') as [l1 [[it'' bs'']|]].
    + destruct (xor_iter m it'' bs''). reflexivity.
    + reflexivity.
Qed.

(* ---- chunk histories: appender re-obtained from the same chunk object ---------------------------- *)

Definition it_ok (num : Z) (it : xit) : Prop :=
  0 <= num /\ i_num it = num /\ wf_it it /\ (num = 0 -> i_tDelta it = 0).

(* the chunk (num, bs) holds exactly the samples xs *)
Definition chunk_ok (num : Z) (bs : bits) (xs : list sample) : Prop :=
  num = Z.of_nat (length xs) /\ (bs = [] -> xs = []) /\
  exists it, it_ok num it /\
    forall r, xor_iter (length xs) xit_init (bs ++ r) = (map st0 xs, Some (it, r)).

Lemma Inv_it_ok num a it : Inv num a it -> it_ok num it.
Proof. intros [H0 [H1 [_ [_ [_ [_ [Hw Hz]]]]]]]. repeat split; try assumption; apply Hw. Qed.

Lemma chunk_ok_empty : chunk_ok 0 [] [].
Proof.
  split; [reflexivity|]. split; [reflexivity|]. exists xit_init. split.
  - exact (Inv_it_ok _ _ _ Inv_init).
  - intros r. reflexivity.
Qed.

Lemma resume_ok num bs xs : chunk_ok num bs xs ->
  exists a it, xor_resume num bs = Some a /\ Inv num a it /\
    forall r, xor_iter (length xs) xit_init (bs ++ r) = (map st0 xs, Some (it, r)).
Proof.
  intros [Hn [Hemp [it [[H0 [Hi [Hw Hz]]] Hit]]]].
  destruct bs as [|b0 bs].
  - rewrite (Hemp eq_refl) in *. cbn [length] in Hn. subst num.
    exists xapp_init, xit_init. split; [reflexivity|]. split; [exact Inv_init|]. intros r. reflexivity.
  - unfold xor_resume. rewrite Hn, Nat2Z.id.
    specialize (Hit []) as Hit0. rewrite app_nil_r in Hit0. rewrite Hit0. cbn [snd].
    eexists. exists it. split; [reflexivity|]. split; [|exact Hit].
    rewrite <- Hn. destruct Hw as [Hw1 [Hw2 [Hw3 Hw4]]].
    unfold Inv, wf_it. cbn. repeat split; try assumption; try apply Hw4.
    all: try fin. right. split; reflexivity.
Qed.

Lemma xor_run_ok : forall segs num bs xs,
  chunk_ok num bs xs -> Forall wf_sample (flat_map snd segs) ->
  num + Z.of_nat (length (flat_map snd segs)) <= 65535 ->
  exists n' bs', xor_run segs num bs = EOk n' [] bs' /\ chunk_ok n' bs' (xs ++ flat_map snd segs).
Proof.
  induction segs as [|[k ss] segs IH]; intros num bs xs Hok Hwf Hcap.
  - exists num, bs. cbn. rewrite app_nil_r. split; [reflexivity|exact Hok].
  - cbn [flat_map snd] in Hwf, Hcap. apply Forall_app in Hwf. destruct Hwf as [Hwf1 Hwf2].
    rewrite app_length, Nat2Z.inj_add in Hcap.
    unfold xor_run. cbn [xor_run_gen]. fold xor_run.
    replace (match k with ReObj => bs | ReBytes => bs end) with bs by (destruct k; reflexivity).
    destruct (resume_ok num bs xs Hok) as [a [it [Hres [HI Hit]]]]. rewrite Hres.
    assert (Hnum0 : 0 <= num) by (destruct Hok as [Hn _]; lia).
    pose proof (xor_append_all_total ss num a Hnum0 ltac:(lia)) as Htot.
    destruct (xor_append_all num a ss) as [[[b n2] a2]|] eqn:Hall; [|contradiction].
    destruct (xor_run_rt ss num a it b n2 a2 HI Hwf1 Hall) as [it2 [Hit2 [HI2 [Hn2 Hne]]]].
    assert (Hok2 : chunk_ok n2 (bs ++ b) (xs ++ ss)).
    { destruct Hok as [Hn [Hemp _]].
      split; [rewrite app_length, Nat2Z.inj_add; lia|]. split.
      - intros Hc. apply app_eq_nil in Hc. destruct Hc as [Hc1 Hc2].
        rewrite (Hemp Hc1). destruct ss as [|s ss']; [reflexivity|].
        exfalso. apply Hne; [discriminate|exact Hc2].
      - exists it2. split; [exact (Inv_it_ok _ _ _ HI2)|].
        intros r. rewrite app_length, xor_iter_app, <- app_assoc, Hit, Hit2, map_app. reflexivity. }
    destruct (IH n2 (bs ++ b) (xs ++ ss) Hok2 Hwf2 ltac:(lia)) as [n' [bs' [Hrun Hok']]].
    exists n', bs'. cbn [flat_map snd]. rewrite app_assoc. split; assumption.
Qed.

(* decoding the chunk's bytes *)
Lemma xor_decode_ok num bs xs : chunk_ok num bs xs -> num <= 65535 ->
  xor_decode (chunk_bytes num [] bs) = DOk (map st0 xs) false.
Proof.
  intros [Hn [_ [it [_ Hit]]]] Hcap. unfold chunk_bytes, xor_decode. cbn [app].
  assert (H0 : 0 <= num) by lia.
  replace (num / 256 * 256 + num mod 256) with num by (Z.div_mod_to_equations; lia).
  destruct (unpack_pack bs) as [pad [Hp _]]. rewrite Hp.
  rewrite Hn, Nat2Z.id, Hit. reflexivity.
Qed.

(* histories on a fresh chunk with the appender re-obtained from the same object any number of
   times: every sample comes back, in order, bit for bit *)
Lemma xor_history_roundtrip segs :
  Forall wf_sample (flat_map snd segs) ->
  Z.of_nat (length (flat_map snd segs)) <= 65535 ->
  exists num bs, xor_encode segs = EOk num [] bs /\
                 xor_decode (chunk_bytes num [] bs) = DOk (map st0 (flat_map snd segs)) false.
Proof.
  intros Hwf Hcap. unfold xor_encode.
  destruct (xor_run_ok segs 0 [] [] chunk_ok_empty Hwf ltac:(lia)) as [n' [bs' [Hrun Hok]]].
  exists n', bs'. split; [exact Hrun|]. cbn [app] in Hok.
  apply xor_decode_ok; [exact Hok|]. destruct Hok as [Hn _]. lia.
Qed.

Lemma xor_roundtrip k ss :
  Forall wf_sample ss -> Z.of_nat (length ss) <= 65535 ->
  exists num bs, xor_encode [(k, ss)] = EOk num [] bs /\
                 xor_decode (chunk_bytes num [] bs) = DOk (map st0 ss) false.
Proof.
  intros Hwf Hcap.
  destruct (xor_history_roundtrip [(k, ss)]) as [num [bs [H1 H2]]].
  - cbn [flat_map snd]. rewrite app_nil_r. exact Hwf.
  - cbn [flat_map snd]. rewrite app_nil_r. exact Hcap.
  - exists num, bs. cbn [flat_map snd] in H2. rewrite app_nil_r in H2. split; assumption.
Qed.

(* the 65536th append panics *)
Lemma xor_capacity a t v : xor_append 65535 a t v = None.
Proof. reflexivity. Qed.

(* ---- appending after the chunk was rebuilt from its bytes (FromData) ----------------------------- *)

Definition refute_segs : list (reopen * list sample) :=
  [(ReObj, [mkS 0 1000 4609434218613702656; mkS 0 2000 4609434218613702656]);
   (ReBytes, [mkS 0 3007 4612811918334230528])].

Lemma refute_wf : Forall wf_sample (flat_map snd refute_segs).
Proof.
  repeat constructor; cbn; unfold int64, minInt64, maxInt64, is_u64; lia.
Qed.

(* Before the fix, XORChunk.Appender() left bstream.count at 0 on a chunk rebuilt from bytes whose last byte is
   only partly used: the next sample starts on a fresh byte and the reader takes the padding bits
   for a sample.  (1000, 1.5) (2000, 1.5), reload, (3007, 2.5) reads back (3000, 1.5). *)
Lemma xor_reload_old_refuted :
  exists segs num bs,
    Forall wf_sample (flat_map snd segs) /\ Z.of_nat (length (flat_map snd segs)) <= 65535 /\
    xor_encode_old segs = EOk num [] bs /\
    xor_decode (chunk_bytes num [] bs) =
      DOk [mkS 0 1000 4609434218613702656; mkS 0 2000 4609434218613702656; mkS 0 3000 4609434218613702656] false /\
    xor_decode (chunk_bytes num [] bs) <> DOk (map st0 (flat_map snd segs)) false.
Proof.
  exists refute_segs. eexists. eexists.
  split; [exact refute_wf|]. split; [cbn; lia|].
  split; [vm_compute; reflexivity|].
  split; [vm_compute; reflexivity|].
  vm_compute. discriminate.
Qed.

(* non-vacuity witnesses *)
Definition example_segs : list (reopen * list sample) :=
  [(ReObj, [mkS 0 (-5) 4609434218613702656; mkS 0 9223372036854775807 9221120237041090562]);
   (ReBytes, [mkS 0 (-9223372036854775808) 0; mkS 0 17 18446744073709551615; mkS 0 18 18446744073709551615])].

Lemma example_segs_ok :
  Forall wf_sample (flat_map snd example_segs) /\
  Z.of_nat (length (flat_map snd example_segs)) <= 65535 /\
  match xor_encode example_segs with
  | EOk num _ bs => num = 5 /\ (length bs = 573)%nat /\
                    xor_decode (chunk_bytes num [] bs) = DOk (map st0 (flat_map snd example_segs)) false
  | _ => False
  end.
Proof.
  split.
  - repeat constructor; cbn; unfold int64, minInt64, maxInt64, is_u64; lia.
  - split; [cbn; lia|]. vm_compute. repeat split.
Qed.

(* ---- Next / Seek scripts against the cursor specification ---------------------------------------- *)

Lemma xor_next_num it bs it' bs' : xor_next it bs = Some (it', bs') -> i_num it' = i_num it + 1.
Proof.
  unfold xor_next. intros H.
  destruct (Z.eqb_spec (i_num it) 0) as [E0|N0].
  { destruct (get_varint true bs) as [[t r]|]; [|discriminate]. destruct (get_bits 64 r) as [[v r2]|]; [|discriminate].
    injection H as H1 H2. subst it'. cbn. lia. }
  destruct (Z.eqb_spec (i_num it) 1) as [E1|N1].
  { destruct (get_uvarint true bs) as [[tD r]|]; [|discriminate].
    destruct (xor_read (i_v it) (i_lead it) (i_trail it) r) as [[[[v l] tr] r2]|]; [|discriminate].
    injection H as H1 H2. subst it'. cbn. lia. }
  destruct (xor_read_dod bs) as [[dod r]|]; [|discriminate].
  destruct (xor_read (i_v it) (i_lead it) (i_trail it) r) as [[[[v l] tr] r2]|]; [|discriminate].
  injection H as H1 H2. subst it'. cbn. lia.
Qed.

Definition cur_of (it : xit) : option sample :=
  if i_num it =? 0 then None else Some (mkS 0 (i_t it) (i_v it)).

(* the cursor stands where the abstract cursor (cur, rest) stands: [rest] is what the remaining
   bits decode to *)
Definition CurInv (total : Z) (c : xcur) (rest : list sample) : Prop :=
  cu_err c = false /\ 0 <= i_num (cu_it c) /\ i_num (cu_it c) + Z.of_nat (length rest) = total /\
  exists fin, xor_iter (length rest) (cu_it c) (cu_bits c) = (rest, Some fin).

Lemma CurInv_next total c x rest : CurInv total c (x :: rest) ->
  exists c', xcur_next total c = (c', true) /\ CurInv total c' rest /\ cur_of (cu_it c') = Some x.
Proof.
  intros [He [H0 [Hn [fin Hit]]]]. cbn [length xor_iter] in Hit.
  destruct (xor_next (cu_it c) (cu_bits c)) as [[it' bs']|] eqn:Hnx; [|discriminate].
  destruct (xor_iter (length rest) it' bs') as [l r] eqn:Hrest. injection Hit as E1 E2 E3. subst l r x.
  pose proof (xor_next_num _ _ _ _ Hnx) as Hnum.
  exists (mkXC it' bs' false). unfold xcur_next. rewrite He. cbn [orb].
  replace (i_num (cu_it c) =? total) with false
    by (symmetry; apply Z.eqb_neq; cbn [length] in Hn; rewrite Nat2Z.inj_succ in Hn; lia).
  rewrite Hnx. split; [reflexivity|]. split.
  - unfold CurInv. cbn. split; [reflexivity|]. split; [lia|]. split.
    + cbn [length] in Hn. rewrite Nat2Z.inj_succ in Hn. lia.
    + exists fin. exact Hrest.
  - unfold cur_of. cbn. replace (i_num it' =? 0) with false by (symmetry; apply Z.eqb_neq; lia). reflexivity.
Qed.

Lemma CurInv_end total c : CurInv total c [] -> xcur_next total c = (c, false).
Proof.
  intros [He [H0 [Hn _]]]. unfold xcur_next. rewrite He. cbn [orb length] in *.
  replace (i_num (cu_it c) =? total) with true by (symmetry; apply Z.eqb_eq; lia). reflexivity.
Qed.

Lemma seek_loop_spec total t : forall rest fuel c,
  CurInv total c rest -> (length rest < fuel)%nat ->
  cur_of (cu_it c) = None \/ (exists s, cur_of (cu_it c) = Some s /\ s_t s < t) ->
  exists c' rest',
    xcur_seek_loop fuel total t c = Some (c', snd (seek_rest t (cur_of (cu_it c)) rest)) /\
    seek_rest t (cur_of (cu_it c)) rest = (cur_of (cu_it c'), rest', snd (seek_rest t (cur_of (cu_it c)) rest)) /\
    CurInv total c' rest'.
Proof.
  induction rest as [|x rest IH]; intros fuel c HI Hf Hcond.
  - destruct fuel as [|fuel]; [cbn in Hf; lia|]. cbn [xcur_seek_loop seek_rest snd].
    assert (Hc : (i_t (cu_it c) <? t) || (i_num (cu_it c) =? 0) = true).
    { unfold cur_of in Hcond. destruct (Z.eqb_spec (i_num (cu_it c)) 0); [apply orb_true_r|].
      destruct Hcond as [Hc|[s [Hc Hlt]]]; [discriminate|]. injection Hc as Hc. subst s. cbn in Hlt.
      apply orb_true_iff. left. apply Z.ltb_lt. exact Hlt. }
    rewrite Hc, (CurInv_end _ _ HI). exists c, []. split; [reflexivity|]. split; [reflexivity|exact HI].
  - destruct fuel as [|fuel]; [cbn in Hf; lia|]. cbn [xcur_seek_loop].
    assert (Hc : (i_t (cu_it c) <? t) || (i_num (cu_it c) =? 0) = true).
    { unfold cur_of in Hcond. destruct (Z.eqb_spec (i_num (cu_it c)) 0); [apply orb_true_r|].
      destruct Hcond as [Hc|[s [Hc Hlt]]]; [discriminate|]. injection Hc as Hc. subst s. cbn in Hlt.
      apply orb_true_iff. left. apply Z.ltb_lt. exact Hlt. }
    rewrite Hc. destruct (CurInv_next _ _ _ _ HI) as [c1 [Hnx [HI1 Hcur1]]]. rewrite Hnx.
    cbn [seek_rest]. destruct (Z.leb_spec t (s_t x)) as [Hle|Hgt].
    + (* the loop stops at x *)
      cbn [snd]. exists c1, rest. split.
      * destruct fuel as [|fuel']; cbn [xcur_seek_loop].
        -- assert (Hstop : (i_t (cu_it c1) <? t) || (i_num (cu_it c1) =? 0) = false).
           { unfold cur_of in Hcur1. destruct (Z.eqb_spec (i_num (cu_it c1)) 0); [discriminate|].
             injection Hcur1 as Hx. subst x. cbn in Hle. rewrite orb_false_r. apply Z.ltb_ge. exact Hle. }
           rewrite Hstop. reflexivity.
        -- assert (Hstop : (i_t (cu_it c1) <? t) || (i_num (cu_it c1) =? 0) = false).
           { unfold cur_of in Hcur1. destruct (Z.eqb_spec (i_num (cu_it c1)) 0); [discriminate|].
             injection Hcur1 as Hx. subst x. cbn in Hle. rewrite orb_false_r. apply Z.ltb_ge. exact Hle. }
           rewrite Hstop. reflexivity.
      * rewrite Hcur1. split; [reflexivity|exact HI1].
    + destruct (IH fuel c1 HI1 ltac:(cbn [length] in Hf; lia)) as [c' [rest' [Hl [Hs HI']]]].
      { right. exists x. split; [exact Hcur1|exact Hgt]. }
      rewrite Hcur1 in Hl, Hs. exists c', rest'. split; [exact Hl|]. split; [exact Hs|exact HI'].
Qed.

Lemma seek_rest_ok_some t : forall rest cur c' rest',
  seek_rest t cur rest = (c', rest', true) -> c' <> None.
Proof.
  induction rest as [|y r IH]; intros cur c' rest' H; cbn in H.
  - discriminate H.
  - destruct (t <=? s_t y).
    + injection H as H1 H2. subst c'. discriminate.
    + exact (IH _ _ _ H).
Qed.

Lemma xor_script_spec total : forall acts c rest,
  CurInv total c rest -> (Z.of_nat (length rest) <= total) ->
  xor_script total c acts = Some (spec_script (cur_of (cu_it c)) rest acts).
Proof.
  induction acts as [|a acts IH]; intros c rest HI Hlen; [reflexivity|].
  assert (Hfuel : (length rest < S (Z.to_nat total))%nat) by lia.
  destruct a as [|t].
  - (* Next *)
    cbn [xor_script spec_script]. destruct rest as [|x rest].
    + rewrite (CurInv_end _ _ HI). rewrite (IH c [] HI Hlen). reflexivity.
    + destruct (CurInv_next _ _ _ _ HI) as [c1 [Hnx [HI1 Hcur1]]]. rewrite Hnx.
      rewrite (IH c1 rest HI1 ltac:(cbn [length] in Hlen; lia)). rewrite Hcur1.
      unfold cur_of in Hcur1. destruct (i_num (cu_it c1) =? 0); [discriminate|]. injection Hcur1 as Hx. rewrite Hx. reflexivity.
  - (* Seek t *)
    cbn [xor_script spec_script]. unfold xcur_seek.
    assert (He : cu_err c = false) by (destruct HI as [He _]; exact He). rewrite He.
    destruct (cur_of (cu_it c)) as [c0|] eqn:Hcur.
    + destruct (Z.leb_spec t (s_t c0)) as [Hle|Hgt].
      * (* already there *)
        cbn [xcur_seek_loop].
        assert (Hstop : (i_t (cu_it c) <? t) || (i_num (cu_it c) =? 0) = false).
        { unfold cur_of in Hcur. destruct (Z.eqb_spec (i_num (cu_it c)) 0); [discriminate|].
          injection Hcur as Hx. subst c0. cbn in Hle. rewrite orb_false_r. apply Z.ltb_ge. exact Hle. }
        rewrite Hstop. rewrite (IH c rest HI Hlen), Hcur.
        unfold cur_of in Hcur. destruct (i_num (cu_it c) =? 0); [discriminate|]. injection Hcur as Hx. rewrite Hx. reflexivity.
      * destruct (seek_loop_spec total t rest (S (Z.to_nat total)) c HI Hfuel) as [c' [rest' [Hl [Hs HI']]]].
        { right. exists c0. split; [exact Hcur|exact Hgt]. }
        rewrite Hcur in Hl, Hs. rewrite Hl.
        assert (Hlen' : Z.of_nat (length rest') <= total) by (destruct HI' as [_ [G0 [Gn _]]]; lia).
        rewrite (IH c' rest' HI' Hlen'). rewrite Hs.
        destruct (snd (seek_rest t (Some c0) rest)) eqn:Hok; [|reflexivity].
        unfold cur_of. destruct (i_num (cu_it c') =? 0) eqn:Hz; [|reflexivity].
        (* ok = true means the cursor stands on a sample *)
        exfalso. apply (seek_rest_ok_some _ _ _ _ _ Hs). unfold cur_of. rewrite Hz. reflexivity.
    + destruct (seek_loop_spec total t rest (S (Z.to_nat total)) c HI Hfuel) as [c' [rest' [Hl [Hs HI']]]].
      { left. exact Hcur. }
      rewrite Hcur in Hl, Hs. rewrite Hl.
      assert (Hlen' : Z.of_nat (length rest') <= total) by (destruct HI' as [_ [G0 [Gn _]]]; lia).
      rewrite (IH c' rest' HI' Hlen'). rewrite Hs.
      destruct (snd (seek_rest t None rest)) eqn:Hok; [|reflexivity].
      unfold cur_of. destruct (i_num (cu_it c') =? 0) eqn:Hz; [|reflexivity].
      exfalso. apply (seek_rest_ok_some _ _ _ _ _ Hs). unfold cur_of. rewrite Hz. reflexivity.
Qed.

(* what the cursor specification's Seek means: the first sample ahead with timestamp >= t *)
Lemma seek_rest_found t : forall rest cur c' rest',
  seek_rest t cur rest = (c', rest', true) ->
  exists pre x, c' = Some x /\ rest = pre ++ x :: rest' /\ Forall (fun y => s_t y < t) pre /\ t <= s_t x.
Proof.
  induction rest as [|y r IH]; intros cur c' rest' H; cbn in H.
  - discriminate H.
  - destruct (Z.leb_spec t (s_t y)) as [Hle|Hgt].
    + injection H as H1 H2. subst c' rest'. exists [], y. repeat split; [constructor|exact Hle].
    + destruct (IH _ _ _ H) as [pre [x [E1 [E2 [E3 E4]]]]]. exists (y :: pre), x.
      split; [exact E1|]. split; [rewrite E2; reflexivity|]. split; [constructor; assumption|exact E4].
Qed.

Lemma seek_rest_none t : forall rest cur c' rest',
  seek_rest t cur rest = (c', rest', false) -> rest' = [] /\ Forall (fun y => s_t y < t) rest.
Proof.
  induction rest as [|y r IH]; intros cur c' rest' H; cbn in H.
  - injection H as H1 H2. subst. split; [reflexivity|constructor].
  - destruct (Z.leb_spec t (s_t y)) as [Hle|Hgt]; [discriminate H|].
    destruct (IH _ _ _ H) as [E1 E2]. split; [exact E1|constructor; assumption].
Qed.

Lemma xor_seek_script segs acts :
  Forall wf_sample (flat_map snd segs) ->
  Z.of_nat (length (flat_map snd segs)) <= 65535 ->
  exists num bs, xor_encode segs = EOk num [] bs /\
    xor_run_script (chunk_bytes num [] bs) acts = Some (spec_script None (map st0 (flat_map snd segs)) acts).
Proof.
  intros Hwf Hcap. unfold xor_encode.
  destruct (xor_run_ok segs 0 [] [] chunk_ok_empty Hwf ltac:(lia)) as [n' [bs' [Hrun Hok]]].
  exists n', bs'. split; [exact Hrun|]. cbn [app] in Hok.
  destruct Hok as [Hn [_ [it [_ Hit]]]].
  unfold chunk_bytes, xor_run_script. cbn [app].
  assert (H0 : 0 <= n' <= 65535) by lia.
  replace (n' / 256 * 256 + n' mod 256) with n' by (Z.div_mod_to_equations; lia).
  destruct (unpack_pack bs') as [pad [Hp _]]. rewrite Hp.
  change None with (cur_of (cu_it (mkXC xit_init (bs' ++ pad) false))).
  apply xor_script_spec.
  - unfold CurInv. cbn [cu_err cu_it cu_bits]. rewrite map_length. split; [reflexivity|]. split; [cbn; lia|].
    split; [cbn; lia|]. exists (it, pad). apply Hit.
  - rewrite map_length. lia.
Qed.

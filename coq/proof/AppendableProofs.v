(* proof/AppendableProofs.v — proofs about model/Appendable.v (C02).
   1. decision table: appendable = the documented table (Inductive relation).
   2. exact duplicate re-append is a no-op.
   3. nothing but accepted entries of a committed appender reaches the series
      (append never stores; a rejected append leaves the appender's batches alone; commit only
      adds entries of the batches; rollback adds nothing).
   4. commit = committing the accepted samples one at a time in append order under the same
      window snapshot — for transactions without float staleness markers (partial), and the
      refutation of the full statement (a float staleness marker re-queued at commit). *)
From Coq Require Import List ZArith Bool Lia.
From Verif Require Import lib.Int64 model.Appendable.
Import ListNotations.
Open Scope Z_scope.

(* ------------------------------------------------------------------ *)
(* 0. values                                                           *)

Lemma value_eqb_eq a b : value_eqb a b = true <-> a = b.
Proof.
  destruct a, b; cbn; try (split; [discriminate|congruence]);
    rewrite Z.eqb_eq; split; congruence.
Qed.

Lemma value_eqb_refl a : value_eqb a a = true.
Proof. apply value_eqb_eq. reflexivity. Qed.

Lemma stype_eqb_eq a b : stype_eqb a b = true <-> a = b.
Proof. destruct a, b; cbn; split; congruence. Qed.

(* ------------------------------------------------------------------ *)
(* 1. decision table                                                   *)

(* the sample cannot go into the in-order chunk: below the appendable window, or older than the
   series' newest in-order sample *)
Definition below (last : option sample) (t : Z) (sn : snap) : Prop :=
  t < sn_minValid sn \/ exists mx lv, last = Some (mx, lv) /\ t < mx.

Inductive table (last : option sample) (t : Z) (v : value) (sn : snap) : bool * option aerr -> Prop :=
| T_fresh : sn_minValid sn <= t -> last = None -> table last t v sn (false, None)
| T_newer mx lv : sn_minValid sn <= t -> last = Some (mx, lv) -> mx < t -> table last t v sn (false, None)
| T_dup_same : sn_minValid sn <= t -> last = Some (t, v) -> table last t v sn (false, None)
| T_dup_diff lv : sn_minValid sn <= t -> last = Some (t, lv) -> lv <> v -> table last t v sn (false, Some EDup)
| T_ooo : below last t sn -> 0 < sn_oooWin sn -> sub64 (sn_headMaxt sn) (sn_oooWin sn) <= t ->
          table last t v sn (true, None)
| T_too_old : below last t sn -> 0 < sn_oooWin sn -> t < sub64 (sn_headMaxt sn) (sn_oooWin sn) ->
              table last t v sn (true, Some ETooOld)
| T_oob : sn_oooWin sn <= 0 -> t < sn_minValid sn -> table last t v sn (false, Some EOOB)
| T_ooo_err mx lv : sn_oooWin sn <= 0 -> sn_minValid sn <= t -> last = Some (mx, lv) -> t < mx ->
                    table last t v sn (false, Some EOOO).

Lemma appendable_rest last t v sn (B : below last t sn) :
  table last t v sn
    (if (sn_oooWin sn >? 0) && (t >=? sub64 (sn_headMaxt sn) (sn_oooWin sn)) then (true, None)
     else if sn_oooWin sn >? 0 then (true, Some ETooOld)
     else if t <? sn_minValid sn then (false, Some EOOB)
     else (false, Some EOOO)).
Proof.
  destruct (Z.gtb_spec (sn_oooWin sn) 0) as [Hw|Hw]; cbn [andb].
  - destruct (Z.geb_spec t (sub64 (sn_headMaxt sn) (sn_oooWin sn))) as [Ht|Ht].
    + apply T_ooo; [exact B|lia|lia].
    + apply T_too_old; [exact B|lia|lia].
  - destruct (Z.ltb_spec t (sn_minValid sn)) as [Hm|Hm].
    + apply T_oob; lia.
    + destruct B as [B|(mx & lv & E & Hlt)]; [lia|].
      eapply T_ooo_err; eauto.
Qed.

Lemma appendable_table last t v sn : table last t v sn (appendable last t v sn).
Proof.
  unfold appendable.
  destruct (Z.geb_spec t (sn_minValid sn)) as [Hm|Hm].
  - destruct last as [[mx lv]|].
    + destruct (Z.gtb_spec t mx) as [Hgt|Hgt].
      * eapply T_newer; eauto; lia.
      * destruct (Z.eqb_spec t mx) as [He|He].
        -- subst mx. destruct (value_eqb lv v) eqn:Ev.
           ++ apply value_eqb_eq in Ev. subst lv. apply T_dup_same; [lia|reflexivity].
           ++ eapply T_dup_diff; [lia|reflexivity|].
              intros ->. rewrite value_eqb_refl in Ev. discriminate.
        -- apply appendable_rest. right. exists mx, lv. split; [reflexivity|lia].
    + apply T_fresh; [lia|reflexivity].
  - apply appendable_rest. left. lia.
Qed.

Lemma table_functional last t v sn r1 r2 :
  table last t v sn r1 -> table last t v sn r2 -> r1 = r2.
Proof.
  intros H1 H2.
  assert (Hb : forall mx lv, below last t sn -> sn_minValid sn <= t -> last = Some (mx, lv) -> t < mx).
  { intros mx lv [B|(mx' & lv' & E & Hlt)] Hm El; [lia|]. congruence. }
  assert (Hbn : below last t sn -> sn_minValid sn <= t -> last <> None).
  { intros [B|(mx' & lv' & E & Hlt)] Hm; [lia|congruence]. }
  destruct H1; destruct H2; try reflexivity; try lia; try congruence;
    try match goal with
        | B : below _ _ _, E : last = Some (?mx, ?lv), Hm : sn_minValid sn <= t |- _ =>
            pose proof (Hb mx lv B Hm E); try lia
        | B : below _ _ _, E : last = None, Hm : sn_minValid sn <= t |- _ =>
            exfalso; exact (Hbn B Hm E)
        end;
    try (match goal with
         | E1 : last = Some _, E2 : last = Some _ |- _ => rewrite E1 in E2; inversion E2; subst; try lia; try congruence
         end).
Qed.

Theorem decision_table last t v sn r : appendable last t v sn = r <-> table last t v sn r.
Proof.
  split.
  - intros <-. apply appendable_table.
  - intros H. eapply table_functional; [apply appendable_table|exact H].
Qed.

(* ------------------------------------------------------------------ *)
(* 2. exact duplicate                                                  *)

Lemma exact_dup_sample cap sn s t v :
  s_last s = Some (t, v) -> sn_minValid sn <= t ->
  appendable (s_last s) t v sn = (false, None) /\ commit_sample cap sn s t v = (s, None).
Proof.
  intros El Hm.
  assert (Ha : appendable (s_last s) t v sn = (false, None)).
  { apply decision_table. rewrite El. apply T_dup_same; [exact Hm|reflexivity]. }
  split; [exact Ha|].
  unfold commit_sample. rewrite Ha. unfold series_append. rewrite El.
  destruct (Z.geb_spec t t) as [_|Hc]; [|lia].
  destruct s as [l i o oo]. cbn in *. subst l. reflexivity.
Qed.

(* ------------------------------------------------------------------ *)
(* 4. commit = one at a time, in append order                          *)

Definition nostale (l : list entry) : Prop := Forall (fun e => is_stale_float (e_val e) = false) l.

(* states of a commit are compared pointwise on the series map *)
Definition st_eq (a b : smap * acc) : Prop := (forall k, fst a k = fst b k) /\ snd a = snd b.

Lemma st_eq_refl a : st_eq a a.
Proof. split; auto. Qed.
Lemma st_eq_trans a b c : st_eq a b -> st_eq b c -> st_eq a c.
Proof. intros [H1 H2] [H3 H4]. split; [intros k; rewrite H1; apply H3|congruence]. Qed.
Lemma st_eq_sym a b : st_eq a b -> st_eq b a.
Proof. intros [H1 H2]. split; [intros k; symmetry; apply H1|congruence]. Qed.

Lemma commit_plain_proper cap sn st st' e :
  st_eq st st' -> st_eq (commit_plain cap sn st e) (commit_plain cap sn st' e).
Proof.
  destruct st as [m ac], st' as [m' ac']. intros [Hm Ha]. cbn in Hm, Ha. subst ac'.
  unfold commit_plain. rewrite <- (Hm (e_sid e)).
  destruct (commit_sample cap sn (m (e_sid e)) (e_t e) (e_val e)) as [s' r].
  split; [|reflexivity]. intros k. cbn. unfold smap_set. destruct (k =? e_sid e); auto.
Qed.

Lemma fold_plain_proper cap sn l : forall st st',
  st_eq st st' -> st_eq (fold_left (commit_plain cap sn) l st) (fold_left (commit_plain cap sn) l st').
Proof.
  induction l as [|e l IH]; intros st st' H; cbn; [exact H|].
  apply IH. apply commit_plain_proper. exact H.
Qed.

Lemma acc_add_comm a t1 t2 : acc_add (acc_add a t1) t2 = acc_add (acc_add a t2) t1.
Proof.
  unfold acc_add. cbn. f_equal.
  - destruct (Z.ltb_spec t1 (ac_mint a)), (Z.ltb_spec t2 (ac_mint a));
      repeat match goal with |- context [?x <? ?y] => destruct (Z.ltb_spec x y) end; lia.
  - destruct (Z.gtb_spec t1 (ac_maxt a)), (Z.gtb_spec t2 (ac_maxt a));
      repeat match goal with |- context [?x >? ?y] => destruct (Z.gtb_spec x y) end; lia.
Qed.

Lemma commit_plain_unfold cap sn m ac e :
  commit_plain cap sn (m, ac) e =
  (smap_set m (e_sid e) (fst (commit_sample cap sn (m (e_sid e)) (e_t e) (e_val e))),
   match snd (commit_sample cap sn (m (e_sid e)) (e_t e) (e_val e)) with
   | Some t => acc_add ac t | None => ac end).
Proof.
  unfold commit_plain. destruct (commit_sample cap sn (m (e_sid e)) (e_t e) (e_val e)). reflexivity.
Qed.

Lemma smap_set_other m k s k' : k' <> k -> smap_set m k s k' = m k'.
Proof. intros H. unfold smap_set. destruct (Z.eqb_spec k' k); congruence. Qed.

Lemma commit_plain_comm cap sn st a b :
  e_sid a <> e_sid b ->
  st_eq (commit_plain cap sn (commit_plain cap sn st a) b)
        (commit_plain cap sn (commit_plain cap sn st b) a).
Proof.
  intros Hne. destruct st as [m ac].
  rewrite (commit_plain_unfold cap sn m ac a), (commit_plain_unfold cap sn m ac b).
  rewrite !commit_plain_unfold.
  rewrite !smap_set_other by congruence.
  split; cbn [fst snd].
  - intros k. unfold smap_set.
    destruct (Z.eqb_spec k (e_sid a)), (Z.eqb_spec k (e_sid b)); try reflexivity. congruence.
  - destruct (snd (commit_sample cap sn (m (e_sid a)) (e_t a) (e_val a))),
             (snd (commit_sample cap sn (m (e_sid b)) (e_t b) (e_val b))); try reflexivity.
    apply acc_add_comm.
Qed.

(* permutations that only swap adjacent entries of different series *)
Inductive perm_ds : list entry -> list entry -> Prop :=
| pd_refl l : perm_ds l l
| pd_swap l1 a b l2 : e_sid a <> e_sid b -> perm_ds (l1 ++ a :: b :: l2) (l1 ++ b :: a :: l2)
| pd_trans l1 l2 l3 : perm_ds l1 l2 -> perm_ds l2 l3 -> perm_ds l1 l3.

Lemma perm_ds_sym l l' : perm_ds l l' -> perm_ds l' l.
Proof.
  induction 1.
  - apply pd_refl.
  - apply pd_swap. congruence.
  - eapply pd_trans; eauto.
Qed.

Lemma perm_ds_app_l p l l' : perm_ds l l' -> perm_ds (p ++ l) (p ++ l').
Proof.
  induction 1.
  - apply pd_refl.
  - rewrite !app_assoc. apply pd_swap. assumption.
  - eapply pd_trans; eauto.
Qed.

Lemma perm_ds_app_r p l l' : perm_ds l l' -> perm_ds (l ++ p) (l' ++ p).
Proof.
  induction 1.
  - apply pd_refl.
  - rewrite <- !app_assoc. cbn. apply pd_swap. assumption.
  - eapply pd_trans; eauto.
Qed.

Lemma perm_ds_in l l' : perm_ds l l' -> forall x, In x l <-> In x l'.
Proof.
  induction 1; intros x.
  - tauto.
  - rewrite !in_app_iff. cbn. tauto.
  - rewrite IHperm_ds1. apply IHperm_ds2.
Qed.

(* an entry moves to the end across entries of other series *)
Lemma perm_ds_move e X :
  Forall (fun x => e_sid x <> e_sid e) X -> perm_ds (e :: X) (X ++ [e]).
Proof.
  induction 1 as [|x X Hx HX IH]; cbn.
  - apply pd_refl.
  - eapply pd_trans.
    + apply (pd_swap [] e x X). congruence.
    + cbn. apply (perm_ds_app_l [x]). exact IH.
Qed.

Lemma fold_plain_perm cap sn l l' :
  perm_ds l l' -> forall st,
  st_eq (fold_left (commit_plain cap sn) l st) (fold_left (commit_plain cap sn) l' st).
Proof.
  induction 1; intros st.
  - apply st_eq_refl.
  - rewrite !fold_left_app. cbn. apply fold_plain_proper. apply commit_plain_comm. assumption.
  - eapply st_eq_trans; eauto.
Qed.

(* --- the batching invariant: histogram entries of the current batch are recorded in
   typesInBatch with a type of their slice *)
Definition hk (ty : stype) : bool := match ty with THist | TCHist => true | _ => false end.
Definition fk (ty : stype) : bool := match ty with TFHist | TCFHist => true | _ => false end.
Definition rec_as (p : stype -> bool) (types : list (Z * stype)) (e : entry) : bool :=
  match lookup_type types (e_sid e) with Some ty => p ty | None => false end.

Definition inv (a : appender) : Prop :=
  match a_batches a with
  | [] => True
  | b :: _ =>
      Forall (fun e => rec_as hk (a_types a) e = true) (b_h b) /\
      Forall (fun e => rec_as fk (a_types a) e = true) (b_fh b)
  end.

Lemma entries_cons a b bs : a_batches a = b :: bs ->
  entries a = concat (map flat (rev bs)) ++ flat b.
Proof.
  intros E. unfold entries. rewrite E. cbn [rev]. rewrite map_app, concat_app. cbn.
  rewrite app_nil_r. reflexivity.
Qed.

Lemma other_sids p types X e :
  Forall (fun x => rec_as p types x = true) X -> rec_as p types e = false ->
  Forall (fun x => e_sid x <> e_sid e) X.
Proof.
  intros H He. eapply Forall_impl; [|exact H]. cbn. intros x Hx Heq.
  unfold rec_as in *. rewrite Heq in Hx. congruence.
Qed.

Lemma rec_keep p types X sid st :
  Forall (fun x => rec_as p types x = true) X -> lookup_type types sid = None ->
  Forall (fun x => rec_as p ((sid, st) :: types) x = true) X.
Proof.
  intros H Hn. eapply Forall_impl; [|exact H]. cbn. intros x Hx. unfold rec_as in *. cbn.
  destruct (Z.eqb_spec sid (e_sid x)) as [Heq|]; [|exact Hx].
  rewrite <- Heq, Hn in Hx. discriminate.
Qed.

(* where push puts an entry *)
Lemma flat_push b e :
  (stype_of (e_val e) = TFloat /\ flat (push b e) = (b_f b ++ [e]) ++ b_h b ++ b_fh b /\
     b_h (push b e) = b_h b /\ b_fh (push b e) = b_fh b) \/
  (hk (stype_of (e_val e)) = true /\ flat (push b e) = b_f b ++ (b_h b ++ [e]) ++ b_fh b /\
     b_h (push b e) = b_h b ++ [e] /\ b_fh (push b e) = b_fh b) \/
  (fk (stype_of (e_val e)) = true /\ flat (push b e) = b_f b ++ b_h b ++ (b_fh b ++ [e]) /\
     b_h (push b e) = b_h b /\ b_fh (push b e) = b_fh b ++ [e]).
Proof.
  unfold push, flat. destruct (stype_of (e_val e)); cbn; auto 10.
Qed.

Lemma hk_fk ty : hk ty = true -> fk ty = false.
Proof. destruct ty; cbn; congruence. Qed.

(* continuing the current batch: the new entry only moves across entries of other series *)
Lemma push_perm b e types :
  Forall (fun x => rec_as hk types x = true) (b_h b) ->
  Forall (fun x => rec_as fk types x = true) (b_fh b) ->
  (stype_of (e_val e) = TFloat -> rec_as hk types e = false /\ rec_as fk types e = false) ->
  (hk (stype_of (e_val e)) = true -> rec_as fk types e = false) ->
  perm_ds (flat b ++ [e]) (flat (push b e)).
Proof.
  intros HH HFH Hf Hh. unfold flat at 1.
  destruct (flat_push b e) as [(Es & -> & _)|[(Es & -> & _)|(Es & -> & _)]].
  - destruct (Hf Es) as [A B].
    rewrite <- !app_assoc. apply perm_ds_app_l. apply perm_ds_sym.
    rewrite (app_assoc (b_h b) (b_fh b) [e]).
    apply (perm_ds_move e (b_h b ++ b_fh b)). apply Forall_app. split.
    + eapply other_sids; eauto.
    + eapply other_sids; eauto.
  - rewrite <- !app_assoc. apply perm_ds_app_l. apply perm_ds_app_l.
    apply perm_ds_sym. apply (perm_ds_move e (b_fh b)). eapply other_sids; eauto.
  - rewrite <- !app_assoc. apply pd_refl.
Qed.

Lemma add_entry_step a e :
  inv a -> perm_ds (entries a ++ [e]) (entries (add_entry a e)) /\ inv (add_entry a e).
Proof.
  intros Hinv. unfold add_entry.
  set (st := stype_of (e_val e)).
  (* a new batch holding just e *)
  assert (Hnewinv : forall bs, inv (mkApp (a_v2 a) (a_discard a) (a_snap a) (push batch0 e :: bs)
                          match st with TFloat => [] | _ => [(e_sid e, st)] end)).
  { intros bs. unfold inv. cbn [a_batches a_types].
    destruct (flat_push batch0 e) as [(Es & _ & -> & ->)|[(Es & _ & -> & ->)|(Es & _ & -> & ->)]];
      cbn [batch0 b_h b_fh app]; split; try constructor; try constructor.
    - unfold rec_as. fold st in Es. destruct st; cbn in *; try discriminate; rewrite Z.eqb_refl; reflexivity.
    - unfold rec_as. fold st in Es. destruct st; cbn in *; try discriminate; rewrite Z.eqb_refl; reflexivity. }
  assert (Hflat0 : flat (push batch0 e) = [e]).
  { unfold flat, push. destruct (stype_of (e_val e)); reflexivity. }
  destruct (a_batches a) as [|b bs] eqn:Eb.
  - split; [|apply Hnewinv].
    unfold entries. rewrite Eb. cbn. rewrite Hflat0. apply pd_refl.
  - unfold inv in Hinv. rewrite Eb in Hinv. destruct Hinv as [HH HFH].
    assert (Hnew : perm_ds (entries a ++ [e])
              (entries (mkApp (a_v2 a) (a_discard a) (a_snap a) (push batch0 e :: b :: bs)
                              match st with TFloat => [] | _ => [(e_sid e, st)] end))).
    { rewrite (entries_cons a b bs Eb).
      unfold entries. cbn [a_batches rev]. rewrite !map_app, !concat_app. cbn.
      rewrite !app_nil_r, Hflat0. apply pd_refl. }
    rewrite (entries_cons a b bs Eb).
    assert (Hcont : forall types,
              perm_ds (flat b ++ [e]) (flat (push b e)) ->
              perm_ds ((concat (map flat (rev bs)) ++ flat b) ++ [e])
                      (entries (mkApp (a_v2 a) (a_discard a) (a_snap a) (push b e :: bs) types))).
    { intros types Hp. unfold entries. cbn [a_batches rev]. rewrite map_app, concat_app. cbn.
      rewrite app_nil_r, <- app_assoc. apply perm_ds_app_l. exact Hp. }
    (* the invariant after continuing the batch with types' *)
    assert (Hinvc : forall types',
              Forall (fun x => rec_as hk types' x = true) (b_h b) ->
              Forall (fun x => rec_as fk types' x = true) (b_fh b) ->
              (hk st = true -> rec_as hk types' e = true) ->
              (fk st = true -> rec_as fk types' e = true) ->
              inv (mkApp (a_v2 a) (a_discard a) (a_snap a) (push b e :: bs) types')).
    { intros types' H1 H2 H3 H4. unfold inv. cbn [a_batches a_types].
      destruct (flat_push b e) as [(Es & _ & -> & ->)|[(Es & _ & -> & ->)|(Es & _ & -> & ->)]];
        split; auto; apply Forall_app; split; auto; constructor; auto. }
    destruct (lookup_type (a_types a) (e_sid e)) as [prev|] eqn:El.
    + destruct (stype_eqb prev st) eqn:Ep;
        [|split; [rewrite <- (entries_cons a b bs Eb); exact Hnew|apply Hnewinv]].
      apply stype_eqb_eq in Ep. subst prev.
      split.
      * apply Hcont. apply (push_perm b e (a_types a) HH HFH).
        -- intros Es. fold st in Es. unfold rec_as. rewrite El, Es. auto.
        -- intros Es. fold st in Es. unfold rec_as. rewrite El. apply hk_fk. exact Es.
      * apply Hinvc; auto; intros Es; unfold rec_as; rewrite El; exact Es.
    + assert (Hperm : perm_ds (flat b ++ [e]) (flat (push b e))).
      { apply (push_perm b e (a_types a) HH HFH); intros _; unfold rec_as; rewrite El; auto. }
      destruct st eqn:Est.
      * split; [apply Hcont; exact Hperm|].
        apply Hinvc; auto; cbn; discriminate.
      * split; [apply Hcont; exact Hperm|].
        apply Hinvc; try (apply rec_keep; assumption);
          intros Hk; cbn in Hk; try discriminate Hk; unfold rec_as; cbn; rewrite Z.eqb_refl; reflexivity.
      * split; [apply Hcont; exact Hperm|].
        apply Hinvc; try (apply rec_keep; assumption);
          intros Hk; cbn in Hk; try discriminate Hk; unfold rec_as; cbn; rewrite Z.eqb_refl; reflexivity.
      * split; [apply Hcont; exact Hperm|].
        apply Hinvc; try (apply rec_keep; assumption);
          intros Hk; cbn in Hk; try discriminate Hk; unfold rec_as; cbn; rewrite Z.eqb_refl; reflexivity.
      * split; [apply Hcont; exact Hperm|].
        apply Hinvc; try (apply rec_keep; assumption);
          intros Hk; cbn in Hk; try discriminate Hk; unfold rec_as; cbn; rewrite Z.eqb_refl; reflexivity.
Qed.

Lemma add_entries_perm log : forall a,
  inv a -> perm_ds (entries a ++ log) (entries (fold_left add_entry log a)) /\
           inv (fold_left add_entry log a).
Proof.
  induction log as [|e l IH]; intros a Hinv; cbn.
  - rewrite app_nil_r. split; [apply pd_refl|exact Hinv].
  - destruct (add_entry_step a e Hinv) as [Hp Hi].
    destruct (IH (add_entry a e) Hi) as [Hp' Hi']. split; [|exact Hi'].
    eapply pd_trans; [|exact Hp'].
    change (e :: l) with ([e] ++ l). rewrite app_assoc. apply perm_ds_app_r. exact Hp.
Qed.

(* the entries of an appender are its accepted samples, each series in append order *)
Lemma entries_appender_of sn log : perm_ds log (entries (appender_of sn log)).
Proof.
  unfold appender_of.
  destruct (add_entries_perm log (fresh_appender sn) I) as [Hp _]. exact Hp.
Qed.

Lemma a_snap_add_entry a e : a_snap (add_entry a e) = a_snap a.
Proof.
  unfold add_entry. destruct (a_batches a); [reflexivity|].
  destruct (lookup_type (a_types a) (e_sid e)).
  - destruct (stype_eqb s (stype_of (e_val e))); reflexivity.
  - destruct (stype_of (e_val e)); reflexivity.
Qed.

Lemma a_snap_appender_of sn log : a_snap (appender_of sn log) = Some sn.
Proof.
  unfold appender_of.
  assert (H : forall a, a_snap (fold_left add_entry log a) = a_snap a).
  { induction log as [|e l IH]; intros a; cbn; [reflexivity|]. rewrite IH. apply a_snap_add_entry. }
  rewrite H. reflexivity.
Qed.

(* without float staleness markers commitFloats never re-queues anything *)
Lemma commit_floats_nostale cap sn fs : forall m ac hs fhs,
  nostale fs ->
  fold_left (commit_float cap sn) fs (m, ac, hs, fhs) =
  (fst (fold_left (commit_plain cap sn) fs (m, ac)), snd (fold_left (commit_plain cap sn) fs (m, ac)), hs, fhs).
Proof.
  induction fs as [|e l IH]; intros m ac hs fhs Hn; cbn [fold_left].
  - reflexivity.
  - inversion Hn as [|? ? He Hl]; subst.
    unfold commit_float at 2. rewrite He.
    destruct (commit_plain cap sn (m, ac) e) as [m' ac'] eqn:E.
    rewrite IH by exact Hl. reflexivity.
Qed.

Lemma commit_batch_nostale cap sn st b :
  nostale (b_f b) ->
  commit_batch cap sn st b = fold_left (commit_plain cap sn) (flat b) st.
Proof.
  intros Hn. destruct st as [m ac]. unfold commit_batch, flat.
  rewrite commit_floats_nostale by exact Hn.
  rewrite !fold_left_app.
  destruct (fold_left (commit_plain cap sn) (b_f b) (m, ac)) as [m1 ac1]. reflexivity.
Qed.

Lemma commit_batches_nostale cap sn bs : forall st,
  Forall (fun b => nostale (b_f b)) bs ->
  fold_left (commit_batch cap sn) bs st = fold_left (commit_plain cap sn) (concat (map flat bs)) st.
Proof.
  induction bs as [|b l IH]; intros st H; cbn; [reflexivity|].
  inversion H; subst. rewrite fold_left_app, commit_batch_nostale by assumption. apply IH. assumption.
Qed.

Lemma nostale_batches a :
  nostale (entries a) -> Forall (fun b => nostale (b_f b)) (rev (a_batches a)).
Proof.
  unfold entries, nostale. intros H. apply Forall_forall. intros b Hb.
  apply Forall_forall. intros e He.
  rewrite Forall_forall in H. apply H. apply in_concat. exists (flat b). split.
  - apply in_map. exact Hb.
  - unfold flat. apply in_or_app. left. exact He.
Qed.

(* the series map and accumulator a Commit ends with, for an appender without float staleness
   markers: the fold of the per-sample step over its entries *)
Lemma commit_nostale c h a sn :
  a_snap a = Some sn -> nostale (entries a) ->
  commit c h a =
  update_min_max (mkHead (h_mint h) (h_maxt h) (h_minValid h)
                    (fst (fold_left (commit_plain (c_oooCap c) sn) (entries a) (h_series h, acc0))))
                 (snd (fold_left (commit_plain (c_oooCap c) sn) (entries a) (h_series h, acc0))).
Proof.
  intros Es Hn. unfold commit. rewrite Es.
  rewrite commit_batches_nostale by (apply nostale_batches; exact Hn).
  fold (entries a).
  destruct (fold_left (commit_plain (c_oooCap c) sn) (entries a) (h_series h, acc0)). reflexivity.
Qed.

(* --- head times: the accumulator is a running min / max *)
Fixpoint ts_of (cap : Z) (sn : snap) (l : list entry) (m : smap) : list Z :=
  match l with
  | [] => []
  | e :: r =>
      let p := commit_sample cap sn (m (e_sid e)) (e_t e) (e_val e) in
      (match snd p with Some t => [t] | None => [] end) ++ ts_of cap sn r (smap_set m (e_sid e) (fst p))
  end.

Lemma fold_plain_fst cap sn l : forall m ac ac',
  fst (fold_left (commit_plain cap sn) l (m, ac)) = fst (fold_left (commit_plain cap sn) l (m, ac')).
Proof.
  induction l as [|e l IH]; intros m ac ac'; cbn [fold_left]; [reflexivity|].
  rewrite !commit_plain_unfold. apply IH.
Qed.

Lemma fold_plain_snd cap sn l : forall m ac,
  snd (fold_left (commit_plain cap sn) l (m, ac)) = fold_left acc_add (ts_of cap sn l m) ac.
Proof.
  induction l as [|e l IH]; intros m ac; cbn [fold_left ts_of]; [reflexivity|].
  rewrite commit_plain_unfold, IH, fold_left_app.
  destruct (snd (commit_sample cap sn (m (e_sid e)) (e_t e) (e_val e))); reflexivity.
Qed.

Lemma acc_add_mint a t : ac_mint (acc_add a t) = Z.min (ac_mint a) t.
Proof. unfold acc_add. cbn. destruct (Z.ltb_spec t (ac_mint a)); lia. Qed.
Lemma acc_add_maxt a t : ac_maxt (acc_add a t) = Z.max (ac_maxt a) t.
Proof. unfold acc_add. cbn. destruct (Z.gtb_spec t (ac_maxt a)); lia. Qed.

Lemma fold_acc_mint ts : forall a, ac_mint (fold_left acc_add ts a) = fold_left Z.min ts (ac_mint a).
Proof. induction ts as [|t l IH]; intros a; cbn; [reflexivity|]. rewrite IH, acc_add_mint. reflexivity. Qed.
Lemma fold_acc_maxt ts : forall a, ac_maxt (fold_left acc_add ts a) = fold_left Z.max ts (ac_maxt a).
Proof. induction ts as [|t l IH]; intros a; cbn; [reflexivity|]. rewrite IH, acc_add_maxt. reflexivity. Qed.

Lemma min_fold ts : forall a b, Z.min a (fold_left Z.min ts b) = fold_left Z.min ts (Z.min a b).
Proof. induction ts as [|t l IH]; intros a b; cbn; [reflexivity|]. rewrite IH. f_equal. lia. Qed.
Lemma max_fold ts : forall a b, Z.max a (fold_left Z.max ts b) = fold_left Z.max ts (Z.max a b).
Proof. induction ts as [|t l IH]; intros a b; cbn; [reflexivity|]. rewrite IH. f_equal. lia. Qed.
Lemma min_fold_le ts : forall a, fold_left Z.min ts a <= a.
Proof. induction ts as [|t l IH]; intros a; cbn; [lia|]. specialize (IH (Z.min a t)). lia. Qed.
Lemma max_fold_ge ts : forall a, a <= fold_left Z.max ts a.
Proof. induction ts as [|t l IH]; intros a; cbn; [lia|]. specialize (IH (Z.max a t)). lia. Qed.

Lemma update_min_max_times h a :
  h_mint (update_min_max h a) = Z.min (h_mint h) (ac_mint a) /\
  h_maxt (update_min_max h a) = Z.max (h_maxt h) (ac_maxt a).
Proof.
  unfold update_min_max. cbn.
  destruct (Z.geb_spec (ac_mint a) (h_mint h)), (Z.leb_spec (ac_maxt a) (h_maxt h)); lia.
Qed.

(* normal form of "fold the per-sample step over l from head h, then update the head times" *)
Definition after (cap : Z) (sn : snap) (h : head) (l : list entry) : head :=
  mkHead (fold_left Z.min (ts_of cap sn l (h_series h)) (h_mint h))
         (fold_left Z.max (ts_of cap sn l (h_series h)) (h_maxt h))
         (h_minValid h)
         (fst (fold_left (commit_plain cap sn) l (h_series h, acc0))).

Lemma commit_after c h a sn :
  head_wf h -> a_snap a = Some sn -> nostale (entries a) ->
  head_eq (commit c h a) (after (c_oooCap c) sn h (entries a)).
Proof.
  intros [Hw1 Hw2] Es Hn. rewrite (commit_nostale c h a sn Es Hn).
  set (l := entries a).
  destruct (update_min_max_times
              (mkHead (h_mint h) (h_maxt h) (h_minValid h)
                 (fst (fold_left (commit_plain (c_oooCap c) sn) l (h_series h, acc0))))
              (snd (fold_left (commit_plain (c_oooCap c) sn) l (h_series h, acc0)))) as [E1 E2].
  unfold head_eq, after. rewrite E1, E2. cbn [h_mint h_maxt h_minValid h_series update_min_max].
  rewrite fold_plain_snd, fold_acc_mint, fold_acc_maxt, min_fold, max_fold. cbn [acc0 ac_mint ac_maxt].
  rewrite (Z.min_l (h_mint h) maxInt64) by lia. rewrite (Z.max_l (h_maxt h) minInt64) by lia.
  repeat split; reflexivity.
Qed.

Lemma fold_min_from h ts : h <= maxInt64 -> fold_left Z.min ts h = Z.min h (fold_left Z.min ts maxInt64).
Proof. intros H. rewrite min_fold. rewrite Z.min_l by exact H. reflexivity. Qed.
Lemma fold_max_from h ts : minInt64 <= h -> fold_left Z.max ts h = Z.max h (fold_left Z.max ts minInt64).
Proof. intros H. rewrite max_fold. rewrite Z.max_l by exact H. reflexivity. Qed.

Lemma after_proper cap sn h l l' :
  head_wf h ->
  st_eq (fold_left (commit_plain cap sn) l (h_series h, acc0))
        (fold_left (commit_plain cap sn) l' (h_series h, acc0)) ->
  head_eq (after cap sn h l) (after cap sn h l').
Proof.
  intros [Hw1 Hw2] [Hm Ha]. unfold head_eq, after. cbn [h_mint h_maxt h_minValid h_series].
  rewrite !fold_plain_snd in Ha.
  assert (E1 := f_equal ac_mint Ha). assert (E2 := f_equal ac_maxt Ha).
  rewrite !fold_acc_mint in E1. rewrite !fold_acc_maxt in E2. cbn [acc0 ac_mint ac_maxt] in E1, E2.
  repeat split.
  - rewrite !(fold_min_from (h_mint h)) by exact Hw1. rewrite E1. reflexivity.
  - rewrite !(fold_max_from (h_maxt h)) by exact Hw2. rewrite E2. reflexivity.
  - exact Hm.
Qed.

Lemma head_eq_refl h : head_eq h h.
Proof. repeat split; reflexivity. Qed.
Lemma head_eq_sym h h' : head_eq h h' -> head_eq h' h.
Proof. intros (A & B & C & D). repeat split; auto. Qed.
Lemma head_eq_trans h1 h2 h3 : head_eq h1 h2 -> head_eq h2 h3 -> head_eq h1 h3.
Proof.
  intros (A & B & C & D) (A' & B' & C' & D').
  split; [congruence|]. split; [congruence|]. split; [congruence|].
  intros k. rewrite D. apply D'.
Qed.

(* committing the accepted samples one at a time: each through its own appender holding just
   that sample, all with the window snapshot sn of the original appender *)
Definition commit_each (c : cfg) (sn : snap) (log : list entry) (h : head) : head :=
  fold_left (fun h e => commit c h (appender_of sn [e])) log h.

Lemma entries_single sn e : entries (appender_of sn [e]) = [e].
Proof.
  unfold appender_of, entries. cbn. unfold flat, push.
  destruct (stype_of (e_val e)); reflexivity.
Qed.

Lemma commit_single c h sn e :
  is_stale_float (e_val e) = false ->
  commit c h (appender_of sn [e]) =
  update_min_max (mkHead (h_mint h) (h_maxt h) (h_minValid h)
                    (fst (commit_plain (c_oooCap c) sn (h_series h, acc0) e)))
                 (snd (commit_plain (c_oooCap c) sn (h_series h, acc0) e)).
Proof.
  intros He. rewrite (commit_nostale c h _ sn).
  - rewrite entries_single. reflexivity.
  - apply a_snap_appender_of.
  - rewrite entries_single. constructor; [exact He|constructor].
Qed.

Lemma commit_each_after c sn log : forall h,
  head_wf h -> nostale log ->
  head_eq (commit_each c sn log h) (after (c_oooCap c) sn h log).
Proof.
  induction log as [|e l IH]; intros h Hw Hn.
  - cbn. unfold after. cbn. destruct h. apply head_eq_refl.
  - inversion Hn as [|? ? He Hl]; subst.
    cbn [commit_each fold_left]. fold (commit_each c sn l).
    rewrite (commit_single c h sn e He).
    set (cap := c_oooCap c).
    set (h1 := update_min_max _ _).
    assert (Ets : after cap sn h1 l = after cap sn h (e :: l) /\ head_wf h1).
    { destruct Hw as [Hw1 Hw2].
      destruct (update_min_max_times
                  (mkHead (h_mint h) (h_maxt h) (h_minValid h)
                     (fst (commit_plain cap sn (h_series h, acc0) e)))
                  (snd (commit_plain cap sn (h_series h, acc0) e))) as [E1 E2].
      fold h1 in E1, E2. cbn [h_mint h_maxt] in E1, E2.
      assert (Es : h_series h1 = smap_set (h_series h) (e_sid e)
                     (fst (commit_sample cap sn (h_series h (e_sid e)) (e_t e) (e_val e)))).
      { unfold h1, update_min_max. cbn [h_series]. rewrite commit_plain_unfold. reflexivity. }
      assert (Ev : h_minValid h1 = h_minValid h) by reflexivity.
      rewrite commit_plain_unfold in E1, E2. cbn [snd] in E1, E2.
      unfold after. cbn [ts_of fold_left]. rewrite Es, Ev.
      rewrite !fold_left_app. rewrite commit_plain_unfold.
      destruct (snd (commit_sample cap sn (h_series h (e_sid e)) (e_t e) (e_val e))) as [t|].
      - rewrite acc_add_mint in E1. rewrite acc_add_maxt in E2. cbn [acc0 ac_mint ac_maxt] in E1, E2.
        cbn [fold_left].
        assert (E1' : h_mint h1 = Z.min (h_mint h) t) by lia.
        assert (E2' : h_maxt h1 = Z.max (h_maxt h) t) by lia.
        rewrite E1', E2'. split; [f_equal; apply fold_plain_fst|]. unfold head_wf. lia.
      - cbn [acc0 ac_mint ac_maxt] in E1, E2. cbn [fold_left].
        assert (E1' : h_mint h1 = h_mint h) by lia.
        assert (E2' : h_maxt h1 = h_maxt h) by lia.
        rewrite E1', E2'. split; [f_equal; apply fold_plain_fst|]. unfold head_wf. lia. }
    destruct Ets as [Ea Hw1]. rewrite <- Ea. apply IH; assumption.
Qed.

(* commit of the transaction = the accepted samples committed one at a time, in append order,
   under the original appender's window snapshot (transactions without float staleness markers) *)
Theorem commit_sequential c sn h log :
  head_wf h -> nostale log ->
  head_eq (commit c h (appender_of sn log)) (commit_each c sn log h).
Proof.
  intros Hw Hn.
  pose proof (entries_appender_of sn log) as Hp.
  assert (Hn' : nostale (entries (appender_of sn log))).
  { unfold nostale in *. rewrite Forall_forall in *. intros x Hx. apply Hn.
    apply (perm_ds_in _ _ Hp). exact Hx. }
  eapply head_eq_trans; [apply (commit_after c h _ sn Hw (a_snap_appender_of sn log) Hn')|].
  eapply head_eq_trans; [|apply head_eq_sym; apply commit_each_after; assumption].
  apply after_proper; [exact Hw|].
  apply fold_plain_perm. apply perm_ds_sym. exact Hp.
Qed.

(* The full statement (no restriction on staleness markers) is false for the code as it is:
   commitFloats converts a float staleness marker of a histogram series at commit and re-queues
   it at the end of the batch's histograms, behind a later histogram of the same series that
   getCurrentBatch put into the same batch; it is then re-checked after that sample. *)
Definition refute_cfg := mkCfg 1000 0 32.
Definition refute_snap := mkSnap (-400) 100 0.
Definition refute_head :=
  mkHead 100 100 minInt64
         (fun k => if k =? 1 then mkSeries (Some (100, VH 5)) [(100, VH 5)] [] [] else empty_series).
Definition refute_log : list entry := [(1, 110, VF staleBits); (1, 120, VH 6)].

Lemma commit_sequential_refuted :
  exists c sn h log, head_wf h /\
    ~ head_eq (commit c h (appender_of sn log)) (commit_each c sn log h).
Proof.
  exists refute_cfg, refute_snap, refute_head, refute_log. split.
  - unfold head_wf, refute_head, maxInt64, minInt64. cbn. lia.
  - intros (_ & _ & _ & D). specialize (D 1). vm_compute in D. discriminate D.
Qed.

(* what the two sides store for that transaction: the marker at 110 is lost *)
Lemma refuted_values :
  s_in (h_series (commit refute_cfg refute_head (appender_of refute_snap refute_log)) 1)
    = [(120, VH 6); (100, VH 5)] /\
  s_in (h_series (commit_each refute_cfg refute_snap refute_log refute_head) 1)
    = [(120, VH 6); (110, VH 0); (100, VH 5)].
Proof. split; vm_compute; reflexivity. Qed.

(* ------------------------------------------------------------------ *)
(* 2b. exact duplicate, at the level of a transaction                  *)

Lemma update_min_max_acc0 h : head_wf h -> update_min_max h acc0 = h.
Proof.
  intros [H1 H2]. unfold update_min_max, acc0. cbn.
  destruct (Z.geb_spec maxInt64 (h_mint h)); [|lia].
  destruct (Z.leb_spec minInt64 (h_maxt h)); [|lia].
  destruct h; reflexivity.
Qed.

Lemma push0_h sid t i : push batch0 (sid, t, VH i) = mkBatch [] [(sid, t, VH i)] [].
Proof. unfold push. cbn. destruct (i <? 0); reflexivity. Qed.
Lemma push0_fh sid t i : push batch0 (sid, t, VFH i) = mkBatch [] [] [(sid, t, VFH i)].
Proof. unfold push. cbn. destruct (i <? 0); reflexivity. Qed.

Theorem exact_dup_commit c sn h sid t v :
  head_wf h -> s_last (h_series h sid) = Some (t, v) -> sn_minValid sn <= t ->
  head_eq (commit c h (appender_of sn [(sid, t, v)])) h.
Proof.
  intros Hw El Hm.
  destruct (exact_dup_sample (c_oooCap c) sn (h_series h sid) t v El Hm) as [_ Hc].
  pose proof (commit_plain_unfold (c_oooCap c) sn (h_series h) acc0 (sid, t, v)) as Hplain.
  cbn [e_sid e_t e_val fst snd] in Hplain. rewrite Hc in Hplain. cbn [fst snd] in Hplain.
  assert (Hres : forall m, (forall k, m k = smap_set (h_series h) sid (h_series h sid) k) ->
            head_eq (update_min_max (mkHead (h_mint h) (h_maxt h) (h_minValid h) m) acc0) h).
  { intros m Hmk. rewrite update_min_max_acc0 by exact Hw.
    repeat split. cbn. intros k. rewrite Hmk. unfold smap_set.
    destruct (Z.eqb_spec k sid); congruence. }
  destruct v as [b|i|i].
  - (* float: also when it is a staleness marker, the last value is a float: no conversion *)
    unfold commit, appender_of. cbn -[commit_plain acc0].
    unfold commit_float. cbn [e_sid e_t e_val fst snd]. rewrite El.
    destruct (b =? staleBits); rewrite Hplain; cbn -[acc0]; apply Hres; reflexivity.
  - unfold commit, appender_of, fresh_appender. cbn -[commit_plain acc0 push].
    rewrite push0_h. cbn -[commit_plain acc0]. rewrite Hplain. apply Hres. reflexivity.
  - unfold commit, appender_of, fresh_appender. cbn -[commit_plain acc0 push].
    rewrite push0_fh. cbn -[commit_plain acc0]. rewrite Hplain. apply Hres. reflexivity.
Qed.

(* ------------------------------------------------------------------ *)
(* 3. only accepted samples of a committed appender are ever stored    *)

(* e' is e, or the histogram-typed staleness marker a float staleness marker e was turned into *)
Definition derived (e' e : entry) : Prop :=
  e_sid e' = e_sid e /\ e_t e' = e_t e /\
  (e_val e' = e_val e \/ (is_stale_float (e_val e) = true /\ (e_val e' = VH 0 \/ e_val e' = VFH 0))).

Lemma derived_refl e : derived e e.
Proof. repeat split; auto. Qed.

(* Append / AppendHistogram / AppenderV2.Append never touch the series; a rejected append
   leaves the appender's batches alone; an accepted one adds exactly that sample *)
Lemma append_spec c h a flag sid t v h' a' e :
  append c h a flag sid t v = (h', a', e) ->
  h_series h' = h_series h /\
  (e <> 0 -> a_batches a' = a_batches a /\ a_types a' = a_types a) /\
  (e = 0 -> exists v' a1, a' = add_entry a1 (sid, t, v') /\ derived (sid, t, v') (sid, t, v) /\
                          a_batches a1 = a_batches a /\ a_types a1 = a_types a).
Proof.
  unfold append.
  set (st := match a_snap a with
             | Some sn => (h, a, sn)
             | None => (init_time h t, mkApp (a_v2 a) (a_discard a) (Some (snapshot c (init_time h t))) (a_batches a) (a_types a), snapshot c (init_time h t))
             end).
  assert (Hst : h_series (fst (fst st)) = h_series h /\ a_batches (snd (fst st)) = a_batches a /\
                a_types (snd (fst st)) = a_types a).
  { unfold st. destruct (a_snap a); cbn; [auto|].
    repeat split. unfold init_time. destruct (h_maxt h =? minInt64); reflexivity. }
  destruct st as [[h1 a1] sn]. cbn [fst snd] in Hst. destruct Hst as (Hs & Hb & Ht).
  destruct ((sn_oooWin sn =? 0) && (t <? sn_minValid sn)).
  { intros E. inversion E; subst. split; [exact Hs|]. split; [intros _; auto|intros; discriminate]. }
  set (v' := if is_stale_float v then match lookup_type (a_types a1) sid with
                                      | Some THist | Some TCHist => VH 0 | Some TFHist | Some TCFHist => VFH 0 | _ => v end else v).
  assert (Hd : derived (sid, t, v') (sid, t, v)).
  { unfold derived, v'. cbn. repeat split.
    destruct (is_stale_float v) eqn:Es; [|left; reflexivity].
    destruct (lookup_type (a_types a1) sid) as [[]|]; auto. }
  destruct (appendable (s_last (h_series h1 sid)) t v' sn) as [isOOO err].
  match goal with |- (if ?r then _ else _) = _ -> _ => destruct r end.
  { intros E. inversion E; subst. split; [exact Hs|]. split; [intros _; auto|intros; discriminate]. }
  destruct err as [er|].
  - intros E. inversion E; subst. split; [exact Hs|]. split; [intros _; auto|].
    destruct er; discriminate.
  - intros E. inversion E; subst. split; [exact Hs|]. split; [intros F; congruence|].
    intros _. exists v', a1. auto.
Qed.

Lemma rollback_nothing h a : rollback h a = h.
Proof. reflexivity. Qed.

Lemma ooo_insert_in l t v : forall l' x, ooo_insert l t v = Some l' -> In x l' -> In x l \/ x = (t, v).
Proof.
  induction l as [|[t' v'] r IH]; intros l' x; cbn.
  - intros E. inversion E; subst. cbn. intros [ <- | [] ]. auto.
  - destruct (t <? t').
    + intros E. inversion E; subst. cbn. intros [ <- | [ <- | H ] ]; auto.
    + destruct (t =? t'); [discriminate|].
      destruct (ooo_insert r t v) as [r'|] eqn:Er; [|discriminate].
      intros E. inversion E; subst. cbn. intros [ <- | H ]; [auto|].
      destruct (IH r' x eq_refl H); auto.
Qed.

Lemma commit_sample_in cap sn s t v x :
  In x (series_samples (fst (commit_sample cap sn s t v))) -> In x (series_samples s) \/ x = (t, v).
Proof.
  unfold commit_sample. destruct (appendable (s_last s) t v sn) as [[|] [er|]]; cbn [fst]; auto.
  - unfold series_insert, series_samples.
    destruct (Z.of_nat (length (s_ooo s)) =? cap).
    + destruct (ooo_insert [] t v) as [cur'|] eqn:E; cbn [s_in s_ooo s_ooo_old].
      * rewrite !in_app_iff. intros [H|[H|[H|H]]]; auto.
        destruct (ooo_insert_in _ _ _ _ x E H) as [[]|]; auto.
      * rewrite !in_app_iff. cbn. tauto.
    + destruct (ooo_insert (s_ooo s) t v) as [cur'|] eqn:E; cbn [s_in s_ooo s_ooo_old].
      * rewrite !in_app_iff. intros [H|[H|H]]; auto.
        destruct (ooo_insert_in _ _ _ _ x E H); auto.
      * auto.
  - unfold series_append, series_samples.
    destruct (match s_last s with Some p => p | None => (minInt64, VF 0) end) as [mx lv].
    destruct (mx >=? t); cbn [fst s_in s_ooo s_ooo_old]; auto.
    cbn [rev]. rewrite !in_app_iff. cbn. intros [ [ H | [ <- | [] ] ] | H ]; auto.
Qed.

Section OnlyAccepted.
  Variables (cap : Z) (sn : snap) (E : list entry) (m0 : smap).

  Definition justified (sid : Z) (x : sample) : Prop :=
    In x (series_samples (m0 sid)) \/
    exists e, In e E /\ e_sid e = sid /\ fst x = e_t e /\
              (snd x = e_val e \/ (is_stale_float (e_val e) = true /\ (snd x = VH 0 \/ snd x = VFH 0))).

  Definition good (m : smap) : Prop := forall sid x, In x (series_samples (m sid)) -> justified sid x.
  Definition all_derived (l : list entry) : Prop := Forall (fun e' => exists e, In e E /\ derived e' e) l.

  Lemma commit_plain_good m ac e' :
    good m -> (exists e, In e E /\ derived e' e) -> good (fst (commit_plain cap sn (m, ac) e')).
  Proof.
    intros Hg (e & He & Hs & Ht & Hv). rewrite commit_plain_unfold. cbn [fst].
    intros sid x. unfold smap_set. destruct (Z.eqb_spec sid (e_sid e')) as [->|Hne]; [|apply Hg].
    intros Hx. destruct (commit_sample_in _ _ _ _ _ _ Hx) as [H | -> ]; [apply Hg; exact H|].
    right. exists e. cbn [fst snd]. repeat split; auto.
  Qed.

  Lemma fold_plain_good l : forall m ac,
    good m -> all_derived l -> good (fst (fold_left (commit_plain cap sn) l (m, ac))).
  Proof.
    induction l as [|e' l IH]; intros m ac Hg Hl; cbn [fold_left]; [exact Hg|].
    inversion Hl; subst.
    pose proof (commit_plain_good m ac e' Hg H1) as Hg'.
    destruct (commit_plain cap sn (m, ac) e') as [m' ac']. apply IH; assumption.
  Qed.

  Lemma fold_float_good fs : forall m ac hs fhs,
    good m -> all_derived fs -> all_derived hs -> all_derived fhs ->
    let r := fold_left (commit_float cap sn) fs (m, ac, hs, fhs) in
    good (fst (fst (fst r))) /\ all_derived (snd (fst r)) /\ all_derived (snd r).
  Proof.
    induction fs as [|e' l IH]; intros m ac hs fhs Hg Hf Hh Hfh; cbn [fold_left].
    - cbn. auto.
    - inversion Hf as [|? ? (e & He & Hd) Hl]; subst.
      assert (Hstep : exists m' ac' hs' fhs',
                commit_float cap sn (m, ac, hs, fhs) e' = (m', ac', hs', fhs') /\
                good m' /\ all_derived hs' /\ all_derived fhs').
      { unfold commit_float.
        set (conv := if is_stale_float (e_val e') then _ else None).
        assert (Hst : conv <> None -> is_stale_float (e_val e') = true).
        { unfold conv. destruct (is_stale_float (e_val e')); congruence. }
        assert (Hnew : forall w, (w = VH 0 \/ w = VFH 0) -> conv <> None ->
                  exists e0, In e0 E /\ derived (e_sid e', e_t e', w) e0).
        { intros w Hw Hc. specialize (Hst Hc). exists e. split; [exact He|].
          destruct Hd as (Hs & Ht & Hv). unfold derived. cbn [e_sid e_t e_val fst snd].
          repeat split; auto. right. split; [|exact Hw].
          destruct Hv as [Hv|[Hv _]]; [rewrite <- Hv; exact Hst|exact Hv]. }
        assert (Hfh' : conv <> None -> all_derived (fhs ++ [(e_sid e', e_t e', VFH 0)])).
        { intros Hc. apply Forall_app. split; [exact Hfh|]. constructor; [|constructor]. apply Hnew; auto. }
        assert (Hh' : conv <> None -> all_derived (hs ++ [(e_sid e', e_t e', VH 0)])).
        { intros Hc. apply Forall_app. split; [exact Hh|]. constructor; [|constructor]. apply Hnew; auto. }
        destruct conv as [[| | | |]|] eqn:Ec.
        1-5: eexists _, _, _, _; (split; [reflexivity|]); (split; [exact Hg|]);
             split; first [exact Hh | exact Hfh | apply Hh'; congruence | apply Hfh'; congruence].
        + pose proof (commit_plain_good m ac e' Hg (ex_intro _ e (conj He Hd))) as Hg'.
          destruct (commit_plain cap sn (m, ac) e') as [m' ac'].
          eexists _, _, _, _. split; [reflexivity|]. repeat split; auto. }
      destruct Hstep as (m' & ac' & hs' & fhs' & -> & G1 & G2 & G3). apply IH; auto.
  Qed.

  Lemma commit_batch_good m ac b :
    good m -> all_derived (flat b) -> good (fst (commit_batch cap sn (m, ac) b)).
  Proof.
    intros Hg Hb. unfold flat, all_derived in Hb. rewrite !Forall_app in Hb. destruct Hb as (Hf & Hh & Hfh).
    unfold commit_batch.
    pose proof (fold_float_good (b_f b) m ac (b_h b) (b_fh b) Hg Hf Hh Hfh) as R. cbv zeta in R.
    destruct (fold_left (commit_float cap sn) (b_f b) (m, ac, b_h b, b_fh b)) as [[[m1 ac1] hs] fhs].
    cbn [fst snd] in R. destruct R as (G1 & G2 & G3).
    pose proof (fold_plain_good hs m1 ac1 G1 G2) as G4.
    destruct (fold_left (commit_plain cap sn) hs (m1, ac1)) as [m2 ac2].
    apply fold_plain_good; assumption.
  Qed.

  Lemma commit_batches_good bs : forall m ac,
    good m -> all_derived (concat (map flat bs)) ->
    good (fst (fold_left (commit_batch cap sn) bs (m, ac))).
  Proof.
    induction bs as [|b l IH]; intros m ac Hg Hb; cbn [fold_left]; [exact Hg|].
    cbn [map concat] in Hb. unfold all_derived in Hb. rewrite Forall_app in Hb. destruct Hb as [Hb Hl].
    pose proof (commit_batch_good m ac b Hg Hb) as Hg'.
    destruct (commit_batch cap sn (m, ac) b) as [m' ac']. apply IH; assumption.
  Qed.
End OnlyAccepted.

Lemma let_pair_head a b c (R : smap * acc) :
  (let '(m, ac) := R in update_min_max (mkHead a b c m) ac) =
  update_min_max (mkHead a b c (fst R)) (snd R).
Proof. destruct R. reflexivity. Qed.

(* every sample a series holds after Commit was there before, or is an accepted sample of the
   committed appender (a float staleness marker possibly as its histogram-typed form) *)
Theorem commit_only_accepted c h a sid x :
  In x (series_samples (h_series (commit c h a) sid)) ->
  In x (series_samples (h_series h sid)) \/
  exists e, In e (entries a) /\ e_sid e = sid /\ fst x = e_t e /\
            (snd x = e_val e \/ (is_stale_float (e_val e) = true /\ (snd x = VH 0 \/ snd x = VFH 0))).
Proof.
  unfold commit.
  set (sn := match a_snap a with Some sn => sn | None => default_snap end).
  pose proof (commit_batches_good (c_oooCap c) sn (entries a) (h_series h) (rev (a_batches a))
                (h_series h) acc0) as G.
  rewrite let_pair_head. unfold update_min_max. cbn [h_series]. intros Hx.
  apply (G ltac:(intros s y Hy; left; exact Hy)
           ltac:(apply Forall_forall; intros e He; exists e; split; [exact He|apply derived_refl])
           sid x Hx).
Qed.

(* proof/HistChunkDelta.v — insert() on delta-encoded integer buckets is insert() on the
   absolute counts: prefix sums commute with it. *)
From Coq Require Import List ZArith Bool Lia.
From Verif Require Import model.HistChunk proof.HistChunkProofs proof.HistChunkIns.
Import ListNotations.
Open Scope Z_scope.

Lemma prefix_sums_length v l : length (prefix_sums v l) = length l.
Proof. revert v. induction l; intros; simpl; auto. Qed.

Lemma prefix_sums_app v l1 l2 :
  prefix_sums v (l1 ++ l2) = prefix_sums v l1 ++ prefix_sums (fold_left Z.add l1 v) l2.
Proof. revert v. induction l1 as [|x l1 IH]; intros v; simpl; [reflexivity|]. now rewrite IH. Qed.

Lemma prefix_sums_zeros v n : prefix_sums v (repeat 0 n) = repeat v n.
Proof. induction n; simpl; [reflexivity|]. rewrite Z.add_0_r. now rewrite IHn. Qed.

Lemma fold_add_zeros v n : fold_left Z.add (repeat 0 n) v = v.
Proof. induction n; simpl; [reflexivity|]. now rewrite Z.add_0_r. Qed.

(* every value produced by take_ins in absolute mode is a zero *)
Lemma take_ins_false_zeros i v f l : exists n, fst (take_ins false i v f l) = repeat 0 n.
Proof.
  revert f. induction l as [|x r IH]; intros f; simpl; [exists 0%nat; reflexivity|].
  destruct (i_pos x =? i); [|exists 0%nat; reflexivity].
  destruct (IH false) as [n Hn]. destruct (take_ins false i v false r) as [o r'] eqn:E. simpl in *. subst o.
  exists (S (Z.to_nat (i_num x - 1) + n)). unfold extra. simpl. now rewrite repeat_app.
Qed.

Lemma take_ins_nofirst i v v' f l : take_ins true i v false l = take_ins false i v' f l.
Proof.
  revert f. induction l as [|x r IH]; intros f; simpl; [reflexivity|].
  destruct (i_pos x =? i); [|reflexivity]. now rewrite (IH false).
Qed.

(* outcomes of the two modes correspond *)
Definition rel (v : Z) (rt rf : res (list Z)) : Prop :=
  match rt, rf with
  | Ok w, Ok wa => wa = prefix_sums v w
  | Panic, Panic => True
  | Fuel, Fuel => True
  | _, _ => False
  end.

Lemma leftover_rel len v v' l : rel v (leftover true len v l) (leftover false len v' l).
Proof.
  revert v v'. induction l as [|x r IH]; intros v v'; cbn [leftover]; [reflexivity|].
  destruct (i_pos x <? len); [exact I|].
  specialize (IH 0 0). destruct (leftover true len 0 r), (leftover false len 0 r); cbn [bind rel] in *; try tauto.
  subst. cbn [app prefix_sums]. replace (v + - v) with 0 by lia. f_equal.
  unfold extra. rewrite prefix_sums_app, prefix_sums_zeros, fold_add_zeros. reflexivity.
Qed.

Lemma ins_body_rel inp : forall i v v' l,
  rel v (ins_body true i v inp l) (ins_body false i v' (prefix_sums v inp) l).
Proof.
  induction inp as [|d rest IH]; intros i v v' l.
  - apply leftover_rel.
  - cbn [prefix_sums]. rewrite ins_body_unfold.
    destruct l as [|x r].
    + cbn [ins_body take_ins]. specialize (IH (i + 1) (v + d) (v' + (v + d)) []).
      destruct (ins_body true (i + 1) (v + d) rest []), (ins_body false (i + 1) (v' + (v + d)) (prefix_sums (v + d) rest) []);
        cbn [bind rel app] in *; try tauto. subst. reflexivity.
    + cbn [ins_body take_ins]. destruct (i_pos x =? i) eqn:E.
      * cbn [andb]. rewrite (take_ins_nofirst i v v' false r).
        destruct (take_ins_false_zeros i v' false r) as [n Hn].
        destruct (take_ins false i v' false r) as [o r'] eqn:Eo. cbn [fst] in Hn. subst o.
        specialize (IH (i + 1) (v + d) (v' + (v + d)) r').
        destruct (ins_body true (i + 1) (v + d) rest r'), (ins_body false (i + 1) (v' + (v + d)) (prefix_sums (v + d) rest) r');
          cbn [bind rel] in *; try tauto. subst.
        cbn [app prefix_sums]. replace (v + - v) with 0 by lia. f_equal.
        unfold extra. rewrite <- !app_assoc.
        rewrite prefix_sums_app, prefix_sums_zeros, fold_add_zeros.
        rewrite prefix_sums_app, prefix_sums_zeros, fold_add_zeros.
        cbn [prefix_sums]. replace (0 + (d + v)) with (v + d) by lia. reflexivity.
      * specialize (IH (i + 1) (v + d) (v' + (v + d)) (x :: r)).
        destruct (ins_body true (i + 1) (v + d) rest (x :: r)), (ins_body false (i + 1) (v' + (v + d)) (prefix_sums (v + d) rest) (x :: r));
          cbn [bind rel app] in *; try tauto. subst. reflexivity.
Qed.

(* if the absolute-mode insert fills the output exactly, so does the delta-mode insert, and its
   prefix sums are the absolute-mode result *)
Lemma insert_go_deltas inp l n out :
  insert_go false (prefix_sums 0 inp) l n = Ok out -> Z.of_nat (length out) = n ->
  (forall w, ins_body false 0 0 (prefix_sums 0 inp) l = Ok w -> Z.of_nat (length w) = n) ->
  exists outd, insert_go true inp l n = Ok outd /\ prefix_sums 0 outd = out.
Proof.
  unfold insert_go. intros H Hlen Hw.
  pose proof (ins_body_rel inp 0 0 0 l) as R.
  destruct (ins_body false 0 0 (prefix_sums 0 inp) l) as [wa| |] eqn:Ea; cbn [bind] in H; try discriminate.
  destruct (ins_body true 0 0 inp l) as [w| |]; cbn [rel] in R; try tauto. subst wa.
  specialize (Hw _ eq_refl). rewrite prefix_sums_length in *.
  cbn [bind]. rewrite Hw in *. rewrite Z.ltb_irrefl in *. rewrite Z.sub_diag in *. cbn [Z.to_nat repeat] in *.
  rewrite app_nil_r in *. inversion H; subst. eauto.
Qed.

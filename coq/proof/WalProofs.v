(* proof/WalProofs.v — proofs about model/Wal.v (C13). *)
From Coq Require Import List ZArith NArith Bool Lia.
From Verif Require Import model.Wal.
Import ListNotations.
Open Scope Z_scope.

(* ------------------------------------------------------------------ lists with Z lengths *)
Lemma zlen_nil {A} : zlen (@nil A) = 0. Proof. reflexivity. Qed.
Lemma zlen_cons {A} (x : A) l : zlen (x :: l) = 1 + zlen l.
Proof. unfold zlen. cbn [length]. lia. Qed.
Lemma zlen_app {A} (a b : list A) : zlen (a ++ b) = zlen a + zlen b.
Proof. unfold zlen. rewrite app_length. lia. Qed.
Lemma zlen_nonneg {A} (l : list A) : 0 <= zlen l.
Proof. unfold zlen. lia. Qed.
Lemma zlen_zero_nil {A} (l : list A) : zlen l = 0 -> l = [].
Proof. destruct l; [reflexivity|]. rewrite zlen_cons. pose proof (zlen_nonneg l). lia. Qed.
Lemma zlen_zeros n : 0 <= n -> zlen (zeros n) = n.
Proof. intros. unfold zlen, zeros. rewrite repeat_length. lia. Qed.
Lemma zeros_nonpos n : n <= 0 -> zeros n = [].
Proof. intros. unfold zeros. replace (Z.to_nat n) with O by lia. reflexivity. Qed.
Lemma zlen_ztake {A} n (l : list A) : 0 <= n <= zlen l -> zlen (ztake n l) = n.
Proof. unfold zlen, ztake. intros. rewrite firstn_length. lia. Qed.
Lemma zlen_zdrop {A} n (l : list A) : 0 <= n <= zlen l -> zlen (zdrop n l) = zlen l - n.
Proof. unfold zlen, zdrop. intros. rewrite skipn_length. lia. Qed.
Lemma ztake_zdrop {A} n (l : list A) : ztake n l ++ zdrop n l = l.
Proof. apply firstn_skipn. Qed.
Lemma ztake_all {A} n (l : list A) : zlen l <= n -> ztake n l = l.
Proof. unfold zlen, ztake. intros. apply firstn_all2. lia. Qed.
Lemma zdrop_all {A} n (l : list A) : zlen l <= n -> zdrop n l = [].
Proof. unfold zlen, zdrop. intros. apply skipn_all2. lia. Qed.
Lemma ztake_app_exact {A} n (a b : list A) : n = zlen a -> ztake n (a ++ b) = a.
Proof.
  unfold zlen, ztake. intros ->. rewrite Nat2Z.id.
  rewrite firstn_app, Nat.sub_diag, firstn_all. cbn. apply app_nil_r.
Qed.
Lemma zdrop_app_exact {A} n (a b : list A) : n = zlen a -> zdrop n (a ++ b) = b.
Proof.
  unfold zlen, zdrop. intros ->. rewrite Nat2Z.id.
  rewrite skipn_app, Nat.sub_diag, skipn_all. reflexivity.
Qed.
Lemma zdrop_app_le {A} n (a b : list A) : 0 <= n <= zlen a -> zdrop n (a ++ b) = zdrop n a ++ b.
Proof.
  unfold zlen, zdrop. intros. rewrite skipn_app.
  replace (Z.to_nat n - length a)%nat with O by lia. reflexivity.
Qed.
Lemma zdrop_0 {A} (l : list A) : zdrop 0 l = l.
Proof. reflexivity. Qed.
Lemma all_zero_zeros n : all_zero (zeros n) = true.
Proof. unfold all_zero, zeros. induction (Z.to_nat n); cbn; auto. Qed.

Lemma mod_known m q r : 0 <= r < m -> (m * q + r) mod m = r.
Proof. intros. rewrite Z.add_comm, Z.mul_comm, Z_mod_plus_full. apply Z.mod_small; lia. Qed.

(* ------------------------------------------------------------------ header fields *)
Lemma de16_be16 v rest : 0 <= v < 65536 -> de16 (be16 v ++ rest) = v.
Proof.
  intros. unfold be16, de16. cbn [app].
  pose proof (Z.mod_pos_bound (v / 256) 256). pose proof (Z.mod_pos_bound v 256).
  rewrite !Z2N.id by lia.
  rewrite (Z.mod_small (v / 256)) by (split; [apply Z.div_pos; lia | apply Z.div_lt_upper_bound; lia]).
  pose proof (Z.div_mod v 256). lia.
Qed.

Lemma de32_be32 c rest : (c < 4294967296)%N -> de32 (be32 c ++ rest) = c.
Proof.
  intros. unfold be32, de32. cbn [app].
  assert (E : forall a b, (b <> 0 -> a = b * (a / b) + a mod b)%N) by (intros; apply N.div_mod; auto).
  assert (H1 : (c / 65536 = c / 256 / 256)%N) by (rewrite N.div_div by lia; reflexivity).
  assert (H2 : (c / 16777216 = c / 256 / 256 / 256)%N) by (rewrite !N.div_div by lia; reflexivity).
  assert (H3 : ((c / 16777216) mod 256 = c / 16777216)%N).
  { apply N.mod_small. apply N.div_lt_upper_bound; lia. }
  rewrite H3. rewrite H1, H2.
  pose proof (E c 256%N). pose proof (E (c / 256)%N 256%N). pose proof (E (c / 256 / 256)%N 256%N).
  lia.
Qed.

(* ------------------------------------------------------------------ the model under its assumptions *)
Section Proofs.
Variable page_size : Z.
Variable crc : list N -> N.
Variable enc : N -> list N -> list N.
Variable dec : N -> list N -> option (list N).
(* the page holds a header and at least one byte; a fragment length fits the 16-bit field *)
Hypothesis Hps : 8 <= page_size <= 65542.
Hypothesis Hcrc : forall l, (crc l < 4294967296)%N.
(* compression round-trips and never produces an empty output for a non-empty input *)
Hypothesis Hdec : forall c r, r <> [] -> enc c r <> [] /\ dec c (enc c r) = Some r.

Notation rd := (Wal.rd page_size crc dec).
Notation decode := (Wal.decode dec).
Notation encode := (Wal.encode enc).

(* ---------------- reader: fuel *)
Lemma readfull_shorter n s d r :
  readfull n s = RfOk d r -> (length r <= length s)%nat /\ (0 < n -> (length r < length s)%nat).
Proof.
  unfold readfull. destruct (n <=? 0) eqn:E.
  - intros H; inversion H; subst. split; [lia|]. apply Z.leb_le in E. lia.
  - destruct s as [|x s]; [discriminate|].
    destruct (zlen (ztake n (x :: s)) <? n); [discriminate|].
    intros H; inversion H; subst. apply Z.leb_gt in E.
    unfold zdrop. rewrite skipn_length. cbn [length]. lia.
Qed.

Lemma readfull_app d r : readfull (zlen d) (d ++ r) = RfOk d r.
Proof.
  unfold readfull. destruct (zlen d <=? 0) eqn:E.
  - apply Z.leb_le in E. pose proof (zlen_nonneg d).
    rewrite (zlen_zero_nil d) by lia. reflexivity.
  - apply Z.leb_gt in E. destruct d as [|x d]; [unfold zlen in E; cbn in E; lia|].
    cbn [app]. change (x :: d ++ r) with ((x :: d) ++ r).
    rewrite ztake_app_exact, zdrop_app_exact by reflexivity.
    rewrite Z.ltb_irrefl. reflexivity.
Qed.

Lemma rd_fuel : forall f1 f2 s p ct i acc,
  (length s < f1)%nat -> (length s < f2)%nat -> rd f1 s p ct i acc = rd f2 s p ct i acc.
Proof.
  induction f1 as [|f1 IH]; intros f2 s p ct i acc H1 H2; [lia|].
  destruct f2 as [|f2]; [lia|].
  cbn [Wal.rd]. destruct s as [|h s1]; [reflexivity|]. cbv zeta. cbn [length] in *.
  destruct (N.eqb (N.land h recTypeMask) recPageTerm).
  - destruct (_ =? page_size).
    + apply IH; lia.
    + destruct (readfull _ s1) eqn:E; try reflexivity.
      destruct (all_zero d); [|reflexivity].
      apply readfull_shorter in E. apply IH; lia.
  - destruct (readfull 6 s1) eqn:E1; try reflexivity.
    apply readfull_shorter in E1.
    destruct (_ >? _); [reflexivity|].
    destruct (readfull _ rest) eqn:E2; try reflexivity.
    apply readfull_shorter in E2.
    destruct (negb (N.eqb _ _)); [reflexivity|].
    destruct (negb (validate _ _)); [reflexivity|].
    destruct (_ || _).
    + destruct (decode _ _); [|reflexivity].
      rewrite (IH f2) by lia. reflexivity.
    + apply IH; lia.
Qed.

(* the reader with canonical fuel *)
Definition rdc (s : list N) (p : Z) (ct : N) (i : Z) (acc : list N) := rd (S (length s)) s p ct i acc.

Lemma rd_rdc f s p ct i acc : (length s < f)%nat -> rd f s p ct i acc = rdc s p ct i acc.
Proof. intros. unfold rdc. apply rd_fuel; lia. Qed.

Lemma rdc_nil p ct i acc : rdc [] p ct i acc = ([], eof_status ct).
Proof. reflexivity. Qed.

Definition good (ct : N) : Prop := torn ct = false.

Lemma rdc_ct s p ct ct' i acc : good ct -> good ct' -> rdc s p ct i acc = rdc s p ct' i acc.
Proof.
  unfold good, rdc. intros G1 G2. destruct s; [|reflexivity].
  cbn. unfold eof_status. rewrite G1, G2. reflexivity.
Qed.

(* a run of padding zeros that ends at a page boundary is skipped *)
Lemma rdc_pad k rest p q a ct i acc :
  0 < k -> 0 <= a -> p = page_size * q + a -> a + k = page_size ->
  rdc (zeros k ++ rest) p ct i acc = rdc rest (p + k) 0%N i acc.
Proof.
  intros Hk Ha Hp Hak.
  assert (Z : zeros k = 0%N :: zeros (k - 1)).
  { unfold zeros. replace (Z.to_nat k) with (S (Z.to_nat (k - 1))) by lia. reflexivity. }
  rewrite Z. set (R := rdc rest (p + k) 0%N i acc).
  unfold rdc. cbn [app length].
  assert (Hf : (length (zeros (k - 1) ++ rest) < S (length (zeros (k - 1) ++ rest)))%nat) by lia.
  revert Hf. generalize (S (length (zeros (k - 1) ++ rest))). intros f Hf.
  cbn [Wal.rd]. cbv zeta.
  change (N.eqb (N.land 0 recTypeMask) recPageTerm) with true. cbv iota.
  change (N.land 0 recTypeMask) with 0%N. subst R.
  destruct (Z.eq_dec k 1) as [->|Hk1].
  - replace (p + 1) with (page_size * (q + 1) + 0) by lia.
    rewrite mod_known by lia. rewrite Z.sub_0_r, Z.eqb_refl.
    change (zeros (1 - 1)) with (@nil N) in *. cbn [app] in *.
    rewrite rd_rdc by lia. reflexivity.
  - replace ((p + 1) mod page_size) with (a + 1)
      by (replace (p + 1) with (page_size * q + (a + 1)) by lia; rewrite mod_known; lia).
    destruct (page_size - (a + 1) =? page_size) eqn:E; [apply Z.eqb_eq in E; lia|].
    replace (page_size - (a + 1)) with (zlen (zeros (k - 1))) by (rewrite zlen_zeros; lia).
    rewrite readfull_app. rewrite all_zero_zeros.
    rewrite rd_rdc. 2:{ rewrite app_length in Hf. lia. }
    rewrite zlen_zeros by lia. f_equal. lia.
Qed.

(* one fragment *)
Lemma rd_step_frag f h hd6 part rest p ct i acc :
  N.land h recTypeMask <> recPageTerm -> zlen hd6 = 6 -> de16 hd6 = zlen part ->
  de32 (skipn 2 hd6) = crc part -> zlen part <= page_size - 7 ->
  validate (N.land h recTypeMask) i = true ->
  rd (S f) (h :: hd6 ++ part ++ rest) p ct i acc =
  let ct' := N.land h recTypeMask in
  let p3 := p + 1 + 6 + zlen part in
  if N.eqb ct' recLast || N.eqb ct' recFull then
    match decode (compr_of_header h) (acc ++ part) with
    | None => ([], RDecode)
    | Some r => let '(rs, e) := rd f rest p3 ct' 0 [] in (r :: rs, e)
    end
  else rd f rest p3 ct' (i + 1) (acc ++ part).
Proof.
  intros Hnz H6 H16 H32 Hlen Hval.
  cbn [Wal.rd]. cbv zeta.
  destruct (N.eqb (N.land h recTypeMask) recPageTerm) eqn:E; [apply N.eqb_eq in E; contradiction|].
  rewrite <- H6 at 1. rewrite readfull_app. rewrite H16, H32.
  destruct (zlen part >? page_size - 7) eqn:E2; [apply Z.gtb_lt in E2; lia|].
  rewrite readfull_app. rewrite N.eqb_refl. cbn [negb]. rewrite Hval. cbn [negb].
  reflexivity.
Qed.

Lemma land_lor_type t flag :
  In t [recFull; recFirst; recMiddle; recLast] -> In flag [0%N; snappyMask; zstdMask] ->
  N.land (N.lor t flag) recTypeMask = t.
Proof.
  cbn [In]. intros [<-|[<-|[<-|[<-|[]]]]] [<-|[<-|[<-|[]]]]; reflexivity.
Qed.

Lemma compr_lor t flag :
  In t [recFull; recFirst; recMiddle; recLast] -> In flag [0%N; snappyMask; zstdMask] ->
  compr_of_header (N.lor t flag) = compr_of_header flag.
Proof.
  cbn [In]. intros [<-|[<-|[<-|[<-|[]]]]] [<-|[<-|[<-|[]]]]; reflexivity.
Qed.

Lemma rdc_frag t flag part rest p ct i acc :
  In t [recFull; recFirst; recMiddle; recLast] -> In flag [0%N; snappyMask; zstdMask] ->
  zlen part <= page_size - 7 -> validate t i = true ->
  rdc (header crc (N.lor t flag) part ++ part ++ rest) p ct i acc =
  if N.eqb t recLast || N.eqb t recFull then
    match decode (compr_of_header flag) (acc ++ part) with
    | None => ([], RDecode)
    | Some r => let '(rs, e) := rdc rest (p + 7 + zlen part) t 0 [] in (r :: rs, e)
    end
  else rdc rest (p + 7 + zlen part) t (i + 1) (acc ++ part).
Proof.
  intros Ht Hf Hlen Hval.
  pose proof (land_lor_type t flag Ht Hf) as Hl.
  pose proof (zlen_nonneg part) as Hnn.
  unfold rdc at 1, header. cbn [app].
  rewrite rd_step_frag.
  - cbv zeta. rewrite Hl. rewrite (compr_lor t flag Ht Hf).
    replace (p + 1 + 6 + zlen part) with (p + 7 + zlen part) by lia.
    destruct (N.eqb t recLast || N.eqb t recFull).
    + destruct (decode _ _); [|reflexivity].
      rewrite rd_rdc; [reflexivity|]. cbn [length]. rewrite !app_length. lia.
    + rewrite rd_rdc; [reflexivity|]. cbn [length]. rewrite !app_length. lia.
  - rewrite Hl. cbn [In] in Ht. destruct Ht as [<-|[<-|[<-|[<-|[]]]]]; discriminate.
  - reflexivity.
  - apply de16_be16. lia.
  - change (skipn 2 (be16 (zlen part) ++ be32 (crc part))) with (be32 (crc part)).
    rewrite <- (app_nil_r (be32 (crc part))). apply de32_be32. apply Hcrc.
  - exact Hlen.
  - rewrite Hl. exact Hval.
Qed.

(* ------------------------------------------------------------------ writer *)
Notation full := (Wal.full page_size).
Notation flush_page := (Wal.flush_page page_size).
Notation next_segment := (Wal.next_segment page_size).
Notation frag_loop := (Wal.frag_loop page_size crc).
Notation log := (Wal.log page_size crc enc).
Notation log_batch := (Wal.log_batch page_size crc enc).
Notation log_batches := (Wal.log_batches page_size crc enc).

(* everything logically written so far, flushed or not *)
Definition G (st : wst) : list N :=
  concat (w_closed st) ++ concat (w_writes st) ++ zdrop (w_flushed st) (w_buf st).

Definition pages (s : list N) : Prop := exists q, 0 <= q /\ zlen s = page_size * q.

(* page state: what is on disk of the active segment ends [flushed] bytes into a page *)
Definition W (st : wst) : Prop :=
  (exists q, 0 <= q /\ zlen (concat (w_writes st)) = page_size * q + w_flushed st) /\
  0 <= w_flushed st <= alloc st /\ alloc st + 7 <= page_size.

Definition Inv (st : wst) : Prop := Forall pages (w_closed st) /\ W st.

Lemma full_false st : alloc st + 7 <= page_size -> full st = false.
Proof. intros. unfold Wal.full. apply Z.ltb_ge. lia. Qed.

Lemma G_append st x :
  0 <= w_flushed st <= alloc st ->
  G (mkW (w_closed st) (w_writes st) (w_buf st ++ x) (w_flushed st) (w_done st)) = G st ++ x.
Proof.
  intros. unfold G. cbn [w_closed w_writes w_flushed w_buf].
  rewrite zdrop_app_le by (unfold alloc in *; lia). rewrite !app_assoc. reflexivity.
Qed.

Lemma flush_true st :
  0 <= w_flushed st <= alloc st -> alloc st <= page_size ->
  let st' := flush_page true st in
  G st' = G st ++ zeros (page_size - alloc st) /\ w_buf st' = [] /\ w_flushed st' = 0 /\
  w_closed st' = w_closed st /\
  zlen (concat (w_writes st')) = zlen (concat (w_writes st)) + page_size - w_flushed st.
Proof.
  intros Hf Ha. unfold Wal.flush_page. cbn [orb]. cbv zeta.
  unfold G. cbn [w_closed w_writes w_flushed w_buf].
  rewrite concat_app. cbn [concat]. rewrite app_nil_r.
  rewrite zdrop_app_le by (unfold alloc in *; lia).
  change (zdrop 0 []) with (@nil N). rewrite app_nil_r.
  repeat split; rewrite <- ?app_assoc; try reflexivity.
  rewrite !zlen_app, zlen_zdrop by (unfold alloc in *; lia).
  rewrite zlen_zeros by lia. unfold alloc. lia.
Qed.

Lemma flush_false st :
  0 <= w_flushed st <= alloc st -> alloc st + 7 <= page_size ->
  let st' := flush_page false st in
  G st' = G st /\ w_buf st' = w_buf st /\ w_flushed st' = alloc st /\
  w_closed st' = w_closed st /\
  zlen (concat (w_writes st')) = zlen (concat (w_writes st)) + alloc st - w_flushed st.
Proof.
  intros Hf Ha. unfold Wal.flush_page. rewrite full_false by lia. cbn [orb]. cbv zeta.
  unfold G. cbn [w_closed w_writes w_flushed w_buf].
  rewrite concat_app. cbn [concat]. rewrite app_nil_r.
  rewrite (zdrop_all (alloc st)) by (unfold alloc; lia). rewrite app_nil_r.
  repeat split; rewrite <- ?app_assoc; try reflexivity.
  rewrite !zlen_app, zlen_zdrop by (unfold alloc in *; lia). unfold alloc. lia.
Qed.

(* append [x] to the page buffer, then complete the page if fewer than 7 bytes remain *)
Definition bump (st : wst) (x : list N) : wst :=
  let st1 := mkW (w_closed st) (w_writes st) (w_buf st ++ x) (w_flushed st) (w_done st) in
  if full st1 then flush_page true st1 else st1.

Lemma bump_spec st x :
  W st -> alloc st + zlen x <= page_size ->
  exists k, 0 <= k /\ G (bump st x) = G st ++ x ++ zeros k /\
    w_closed (bump st x) = w_closed st /\ W (bump st x) /\
    (alloc st + zlen x + 7 <= page_size -> k = 0 /\ alloc (bump st x) = alloc st + zlen x) /\
    (page_size < alloc st + zlen x + 7 -> k = page_size - (alloc st + zlen x) /\ alloc (bump st x) = 0).
Proof.
  intros [[q [Hq Hw]] [Hfl Ha]] Hx. pose proof (zlen_nonneg x) as Hxn.
  unfold bump. cbv zeta.
  set (st1 := mkW (w_closed st) (w_writes st) (w_buf st ++ x) (w_flushed st) (w_done st)).
  assert (A1 : alloc st1 = alloc st + zlen x) by (unfold alloc, st1; cbn [w_buf]; apply zlen_app).
  assert (G1 : G st1 = G st ++ x) by (apply G_append; lia).
  destruct (full st1) eqn:F.
  - unfold Wal.full in F. apply Z.ltb_lt in F.
    destruct (flush_true st1) as [HG [Hb [Hf [Hc Hz]]]].
    { change (w_flushed st1) with (w_flushed st). lia. } { lia. }
    assert (A2 : alloc (flush_page true st1) = 0) by (unfold alloc; rewrite Hb; reflexivity).
    exists (page_size - alloc st1).
    split; [lia|]. split; [rewrite HG, G1, <- app_assoc; reflexivity|].
    split; [exact Hc|]. split.
    { split; [|rewrite A2, Hf; lia].
      exists (q + 1). split; [lia|]. rewrite Hz, Hf.
      change (w_writes st1) with (w_writes st). change (w_flushed st1) with (w_flushed st). lia. }
    split; intros; split; lia.
  - unfold Wal.full in F. apply Z.ltb_ge in F.
    exists 0.
    split; [lia|]. split; [rewrite G1; change (zeros 0) with (@nil N); rewrite app_nil_r; reflexivity|].
    split; [reflexivity|]. split.
    { split; [exists q; split; [lia|exact Hw]|].
      change (w_flushed st1) with (w_flushed st). lia. }
    split; intros; split; lia.
Qed.

Lemma frag_loop_S f i e flag st :
  frag_loop (S f) i e flag st =
  let n := zlen e in
  let l := Z.min n (page_size - alloc st - 7) in
  if l <? 0 then WPanic else
  let part := ztake l e in
  let typ := if (i =? 0) && (zlen part =? n) then recFull
             else if zlen part =? n then recLast
             else if i =? 0 then recFirst else recMiddle in
  let st2 := bump st (header crc (N.lor typ flag) part ++ part) in
  let e' := zdrop l e in
  if zlen e' >? 0 then frag_loop f (i + 1) e' flag st2 else WOk st2.
Proof. reflexivity. Qed.

(* what the reader makes of the bytes [D] of one record, when positioned at offset [a] of a page
   with [i] fragments and [acc] already collected *)
Definition reads_rec (D : list N) (a i : Z) (e : list N) (flag : N) : Prop :=
  forall rest p q ct ct2 acc, p = page_size * q + a -> good ct2 ->
    rdc (D ++ rest) p ct i acc =
    match decode (compr_of_header flag) (acc ++ e) with
    | None => ([], RDecode)
    | Some r => let '(rs, x) := rdc rest (p + zlen D) ct2 0 [] in (r :: rs, x)
    end.

Lemma zlen_header t part : zlen (header crc t part) = 7.
Proof. reflexivity. Qed.

Lemma frag_loop_ok : forall fuel i e flag st,
  W st -> 0 <= i -> In flag [0%N; snappyMask; zstdMask] ->
  (length e + (if (alloc st + 8 <=? page_size)%Z then 1 else 2) <= fuel)%nat ->
  exists st' D, frag_loop fuel i e flag st = WOk st' /\ W st' /\ w_closed st' = w_closed st /\
    G st' = G st ++ D /\ reads_rec D (alloc st) i e flag.
Proof.
  induction fuel as [|f IH]; intros i e flag st HW Hi Hflag Hfuel.
  { destruct (alloc st + 8 <=? page_size); lia. }
  pose proof HW as [_ [Hfl Ha]].
  pose proof (zlen_nonneg e) as Hn.
  assert (Ha0 : 0 <= alloc st) by (unfold alloc; apply zlen_nonneg).
  rewrite frag_loop_S. cbv zeta.
  destruct (Z.min (zlen e) (page_size - alloc st - 7) <? 0) eqn:El; [apply Z.ltb_lt in El; lia|].
  clear El.
  destruct (Z_le_gt_dec (zlen e) (page_size - alloc st - 7)) as [Hwhole|Hsplit].
  - (* the rest of the record fits the page *)
    rewrite Z.min_l by lia.
    rewrite (ztake_all (zlen e) e), (zdrop_all (zlen e) e) by lia.
    rewrite Z.eqb_refl, andb_true_r. change (zlen (@nil N) >? 0) with false. cbv iota.
    set (t := if i =? 0 then recFull else recLast).
    assert (Ht : In t [recFull; recFirst; recMiddle; recLast])
      by (unfold t; destruct (i =? 0); cbn; auto).
    assert (Hv : validate t i = true).
    { unfold t. destruct (i =? 0) eqn:E; [apply Z.eqb_eq in E; subst; reflexivity|].
      unfold validate. cbn. rewrite E. reflexivity. }
    assert (Hlast : N.eqb t recLast || N.eqb t recFull = true)
      by (unfold t; destruct (i =? 0); reflexivity).
    assert (Hgt : good t) by (unfold t; destruct (i =? 0); reflexivity).
    set (x := header crc (N.lor t flag) e ++ e).
    assert (Hx : zlen x = 7 + zlen e) by (unfold x; rewrite zlen_app, zlen_header; lia).
    destruct (bump_spec st x HW) as [k [Hk [HG [Hc [HW' [Hfit Hpad]]]]]]; [lia|].
    exists (bump st x), (x ++ zeros k).
    split; [reflexivity|]. split; [exact HW'|]. split; [exact Hc|]. split; [exact HG|].
    { intros rest p q ct ct2 acc Hp Hg2.
      unfold x. rewrite <- !app_assoc. rewrite rdc_frag by (auto; lia).
      rewrite Hlast. destruct (decode _ _); [|reflexivity].
      replace (rdc (zeros k ++ rest) (p + 7 + zlen e) t 0 [])
        with (rdc rest (p + zlen (header crc (N.lor t flag) e ++ e ++ zeros k)) ct2 0 []); [reflexivity|].
      rewrite !zlen_app, zlen_header.
      destruct (Z.eq_dec k 0) as [->|Hk0].
      * change (zeros 0) with (@nil N). cbn [app].
        rewrite zlen_nil. replace (p + (7 + (zlen e + 0))) with (p + 7 + zlen e) by lia.
        apply rdc_ct; auto.
      * assert (H1 : page_size < alloc st + zlen x + 7).
        { destruct (Z_le_gt_dec (alloc st + zlen x + 7) page_size) as [H1|H1]; [|lia].
          destruct (Hfit H1); lia. }
        destruct (Hpad H1) as [Hkk _].
        rewrite zlen_zeros by lia.
        rewrite (rdc_pad k rest (p + 7 + zlen e) q (alloc st + 7 + zlen e)) by lia.
        replace (p + (7 + (zlen e + k))) with (p + 7 + zlen e + k) by lia.
        apply rdc_ct; auto. reflexivity. }
  - (* the page is filled and the record continues on the next one *)
    rewrite Z.min_r by lia.
    set (l := page_size - alloc st - 7) in *.
    assert (Hl : zlen (ztake l e) = l) by (apply zlen_ztake; lia).
    assert (Hd : zlen (zdrop l e) = zlen e - l) by (apply zlen_zdrop; lia).
    rewrite Hl.
    destruct (l =? zlen e) eqn:E; [apply Z.eqb_eq in E; lia|]. rewrite andb_false_r.
    destruct (zlen (zdrop l e) >? 0) eqn:E2; [|rewrite Z.gtb_ltb in E2; apply Z.ltb_ge in E2; lia].
    set (t := if i =? 0 then recFirst else recMiddle).
    assert (Ht : In t [recFull; recFirst; recMiddle; recLast])
      by (unfold t; destruct (i =? 0); cbn; auto).
    assert (Hv : validate t i = true).
    { unfold t. destruct (i =? 0) eqn:E3; [apply Z.eqb_eq in E3; subst; reflexivity|].
      unfold validate. cbn. rewrite E3. reflexivity. }
    assert (Hlast : N.eqb t recLast || N.eqb t recFull = false)
      by (unfold t; destruct (i =? 0); reflexivity).
    set (part := ztake l e) in *.
    set (x := header crc (N.lor t flag) part ++ part).
    assert (Hx : zlen x = 7 + l) by (unfold x; rewrite zlen_app, zlen_header; lia).
    destruct (bump_spec st x HW) as [k [Hk [HG [Hc [HW' [_ Hpad]]]]]]; [lia|].
    destruct (Hpad ltac:(lia)) as [Hk0 Ha2].
    assert (Hkz : k = 0) by lia. rewrite Hkz in HG. change (zeros 0) with (@nil N) in HG. rewrite app_nil_r in HG.
    destruct (IH (i + 1) (zdrop l e) flag (bump st x) HW' ltac:(lia) Hflag) as [st' [D' [HF [HW2 [Hc2 [HG2 HR]]]]]].
    { rewrite Ha2. destruct (0 + 8 <=? page_size) eqn:E4; [|apply Z.leb_gt in E4; lia].
      unfold zlen in Hd, Hsplit, Hn. destruct (alloc st + 8 <=? page_size) eqn:E5.
      - apply Z.leb_le in E5. lia.
      - apply Z.leb_gt in E5. lia. }
    exists st', (x ++ D').
    split; [exact HF|]. split; [exact HW2|]. split; [congruence|].
    split; [rewrite HG2, HG, <- app_assoc; reflexivity|].
    { intros rest p q ct ct2 acc Hp Hg2.
      unfold x. rewrite <- !app_assoc. rewrite rdc_frag by (auto; lia).
      rewrite Hlast.
      rewrite (HR rest (p + 7 + zlen part) (q + 1) t ct2 (acc ++ part)); [|rewrite Ha2; lia|auto].
      replace ((acc ++ part) ++ zdrop l e) with (acc ++ e)
        by (rewrite <- app_assoc; unfold part; rewrite ztake_zdrop; reflexivity).
      replace (p + 7 + zlen part + zlen D') with (p + zlen (header crc (N.lor t flag) part ++ part ++ D'))
        by (rewrite !zlen_app, zlen_header; lia).
      reflexivity. }
Qed.

(* ---------------- one record *)
Lemma stored_decode c rec e fc :
  In c [0%N; 1%N; 2%N] -> stored enc c rec = (e, fc) ->
  In (flagbits fc) [0%N; snappyMask; zstdMask] /\
  decode (compr_of_header (flagbits fc)) e = Some rec.
Proof.
  intros Hc. unfold stored.
  assert (D0 : forall r, decode 0%N r = Some r) by (intros [|? ?]; reflexivity).
  assert (E0 : encode 0%N rec = rec) by (destruct rec; reflexivity).
  cbn [In] in Hc. destruct Hc as [<-|[<-|[<-|[]]]].
  - cbn [N.eqb]. intros H; inversion H; subst. split; [cbn; auto|]. rewrite E0. apply D0.
  - change (N.eqb 1 0) with false. cbv iota.
    destruct (zlen rec - zlen (encode 1%N rec) <=? 0) eqn:E; intros H; inversion H; subst.
    + split; [cbn; auto|]. apply D0.
    + split; [cbn; auto|]. apply Z.leb_gt in E.
      destruct rec as [|b r]; [cbn in E; lia|].
      change (encode 1%N (b :: r)) with (enc 1%N (b :: r)) in *.
      destruct (Hdec 1%N (b :: r)) as [Hne Hd]; [discriminate|].
      change (compr_of_header (flagbits 1)) with 1%N.
      unfold Wal.decode. destruct (enc 1%N (b :: r)); [congruence|]. exact Hd.
  - change (N.eqb 2 0) with false. cbv iota.
    destruct (zlen rec - zlen (encode 2%N rec) <=? 0) eqn:E; intros H; inversion H; subst.
    + split; [cbn; auto|]. apply D0.
    + split; [cbn; auto|]. apply Z.leb_gt in E.
      destruct rec as [|b r]; [cbn in E; lia|].
      change (encode 2%N (b :: r)) with (enc 2%N (b :: r)) in *.
      destruct (Hdec 2%N (b :: r)) as [Hne Hd]; [discriminate|].
      change (compr_of_header (flagbits 2)) with 2%N.
      unfold Wal.decode. destruct (enc 2%N (b :: r)); [congruence|]. exact Hd.
Qed.

Lemma pages_concat l : Forall pages l -> pages (concat l).
Proof.
  induction 1 as [|s l [q [Hq Hs]] _ [q2 [Hq2 Hl]]]; cbn [concat].
  - exists 0. change (zlen (@nil N)) with 0. lia.
  - exists (q + q2). rewrite zlen_app. lia.
Qed.

Lemma Inv_pos st : Inv st -> exists Q, zlen (G st) = page_size * Q + alloc st.
Proof.
  intros [Hc [[q [Hq Hw]] [Hfl Ha]]].
  destruct (pages_concat _ Hc) as [q1 [_ H1]].
  exists (q1 + q). unfold G. rewrite !zlen_app, H1, Hw.
  rewrite zlen_zdrop by (unfold alloc in *; lia). unfold alloc. lia.
Qed.

Lemma next_segment_ok st :
  Inv st -> Inv (next_segment st) /\ alloc (next_segment st) = 0 /\
  exists k, G (next_segment st) = G st ++ zeros k /\
            ((k = 0 /\ alloc st = 0) \/ (0 < k /\ alloc st + k = page_size)).
Proof.
  intros [Hc [[q [Hq Hw]] [Hfl Ha]]]. unfold Wal.next_segment.
  assert (Ha0 : 0 <= alloc st) by (unfold alloc; apply zlen_nonneg).
  destruct (alloc st >? 0) eqn:E.
  - rewrite Z.gtb_ltb in E. apply Z.ltb_lt in E.
    destruct (flush_true st) as [HG [Hb [Hf [Hcl Hz]]]]; [lia|lia|].
    set (st1 := flush_page true st) in *. cbv zeta. rewrite Hb, Hf, Hcl.
    split; [|split; [reflexivity|]].
    + split.
      * cbn [w_closed]. apply Forall_app. split; [exact Hc|]. constructor; [|constructor].
        exists (q + 1). split; [lia|]. rewrite Hz, Hw. lia.
      * split; [exists 0; cbn; lia|]. cbn. lia.
    + exists (page_size - alloc st). split; [|right; lia].
      rewrite <- HG. unfold G. cbn [w_closed w_writes w_flushed w_buf].
      rewrite Hb, Hf, Hcl. rewrite concat_app. cbn [concat]. rewrite <- !app_assoc. reflexivity.
  - rewrite Z.gtb_ltb in E. apply Z.ltb_ge in E.
    assert (Hb : w_buf st = []) by (apply zlen_zero_nil; unfold alloc in *; lia).
    assert (Hf : w_flushed st = 0) by lia.
    cbv zeta. rewrite Hb, Hf.
    split; [|split; [reflexivity|]].
    + split.
      * cbn [w_closed]. apply Forall_app. split; [exact Hc|]. constructor; [|constructor].
        exists q. split; [lia|]. rewrite Hw. lia.
      * split; [exists 0; cbn; lia|]. cbn. lia.
    + exists 0. split; [|left; lia].
      unfold G. cbn [w_closed w_writes w_flushed w_buf]. rewrite Hb, Hf.
      rewrite concat_app. cbn [concat]. change (zeros 0) with (@nil N).
      rewrite <- !app_assoc. reflexivity.
Qed.

(* what the reader makes of the bytes [D] holding the records [recs], starting at offset [a] of a
   page between records *)
Definition reads_many (D : list N) (a : Z) (recs : list (list N)) : Prop :=
  forall rest p q ct ct2, p = page_size * q + a -> good ct -> good ct2 ->
    rdc (D ++ rest) p ct 0 [] =
    let '(rs, x) := rdc rest (p + zlen D) ct2 0 [] in (recs ++ rs, x).

Lemma log_ok c pps rec final st :
  In c [0%N; 1%N; 2%N] -> Inv st ->
  exists st' D, log c pps rec final st = WOk st' /\ Inv st' /\ G st' = G st ++ D /\
    (final = true -> w_flushed st' = alloc st') /\ reads_many D (alloc st) [rec].
Proof.
  intros Hc HI. pose proof HI as [Hcl [Hq [Hfl Ha]]].
  unfold Wal.log. rewrite full_false by lia.
  destruct (stored enc c rec) as [e fc] eqn:Es.
  destruct (stored_decode c rec e fc Hc Es) as [Hflag Hdecode].
  cbv zeta.
  set (left := page_size - alloc st - 7 + (page_size - 7) * (pps - w_done st - 1)).
  assert (H1 : exists st1 k, (if zlen e >? left then next_segment st else st) = st1 /\ Inv st1 /\
             G st1 = G st ++ zeros k /\
             ((k = 0 /\ alloc st1 = alloc st) \/ (0 < k /\ alloc st + k = page_size /\ alloc st1 = 0))).
  { destruct (zlen e >? left).
    - destruct (next_segment_ok st HI) as [HI1 [Ha1 [k [HG1 Hk]]]].
      exists (next_segment st), k. split; [reflexivity|]. split; [exact HI1|]. split; [exact HG1|].
      destruct Hk as [[? ?]|[? ?]]; [left|right]; lia.
    - exists st, 0. change (zeros 0) with (@nil N). rewrite app_nil_r.
      split; [reflexivity|]. split; [exact HI|]. split; [reflexivity|]. left; lia. }
  destruct H1 as [st1 [k [-> [HI1 [HG1 Hk]]]]].
  destruct HI1 as [Hcl1 HW1].
  destruct (frag_loop_ok (S (S (length e))) 0 e (flagbits fc) st1 HW1 ltac:(lia) Hflag)
    as [st2 [D1 [HF [HW2 [Hc2 [HG2 HR]]]]]].
  { destruct (alloc st1 + 8 <=? page_size); lia. }
  rewrite HF.
  set (st3 := if final && (alloc st2 >? 0) then flush_page false st2 else st2).
  assert (H3 : Inv st3 /\ G st3 = G st2 /\ (final = true -> w_flushed st3 = alloc st3)).
  { pose proof HW2 as [[q2 [Hq2 Hw2]] [Hfl2 Ha2]].
    assert (Ha20 : 0 <= alloc st2) by (unfold alloc; apply zlen_nonneg).
    unfold st3. destruct (final && (alloc st2 >? 0)) eqn:E.
    - destruct (flush_false st2) as [HG3 [Hb3 [Hf3 [Hcl3 Hz3]]]]; [lia|lia|].
      assert (A3 : alloc (flush_page false st2) = alloc st2) by (unfold alloc; rewrite Hb3; reflexivity).
      split; [|split; [exact HG3|intros _; rewrite A3; exact Hf3]].
      split; [rewrite Hcl3, Hc2; exact Hcl1|].
      split; [exists q2; split; [lia|rewrite Hz3, Hf3; lia]|]. rewrite A3, Hf3. lia.
    - split; [split; [rewrite Hc2; exact Hcl1|exact HW2]|]. split; [reflexivity|].
      intros ->. cbn [andb] in E. rewrite Z.gtb_ltb in E. apply Z.ltb_ge in E. lia. }
  destruct H3 as [HI3 [HG3 Hfin]].
  exists st3, (zeros k ++ D1).
  split; [reflexivity|]. split; [exact HI3|].
  split; [rewrite HG3, HG2, HG1, <- app_assoc; reflexivity|]. split; [exact Hfin|].
  intros rest p q ct ct2 Hp Hg Hg2.
  assert (Hfinal : forall p' q' ct', p' = page_size * q' + alloc st1 ->
            rdc (D1 ++ rest) p' ct' 0 [] =
            let '(rs, x) := rdc rest (p' + zlen D1) ct2 0 [] in ([rec] ++ rs, x)).
  { intros p' q' ct' Hp'. rewrite (HR rest p' q' ct' ct2 [] Hp' Hg2).
    cbn [app]. rewrite Hdecode. reflexivity. }
  destruct Hk as [[-> Hk]|[Hk0 [Hk1 Hk2]]].
  - change (zeros 0) with (@nil N). cbn [app]. apply (Hfinal p q). lia.
  - rewrite <- app_assoc. rewrite (rdc_pad k (D1 ++ rest) p q (alloc st)); [|lia|unfold alloc; apply zlen_nonneg|exact Hp|exact Hk1].
    rewrite (Hfinal (p + k) (q + 1)) by lia.
    rewrite zlen_app, zlen_zeros by lia. rewrite Z.add_assoc. reflexivity.
Qed.

(* ---------------- sequences of records *)
Lemma reads_many_nil a : reads_many [] a [].
Proof.
  intros rest p q ct ct2 Hp Hg Hg2. cbn [app]. change (zlen (@nil N)) with 0. rewrite Z.add_0_r.
  rewrite (rdc_ct rest p ct ct2) by auto. destruct (rdc rest p ct2 0 []); reflexivity.
Qed.

Lemma reads_many_app D1 D2 a1 a2 r1 r2 :
  (forall p q, p = page_size * q + a1 -> exists q', p + zlen D1 = page_size * q' + a2) ->
  reads_many D1 a1 r1 -> reads_many D2 a2 r2 -> reads_many (D1 ++ D2) a1 (r1 ++ r2).
Proof.
  intros Hpos H1 H2 rest p q ct ct2 Hp Hg Hg2.
  rewrite <- app_assoc. rewrite (H1 (D2 ++ rest) p q ct ct2 Hp Hg Hg2).
  destruct (Hpos p q Hp) as [q' Hq'].
  rewrite (H2 rest _ q' ct2 ct2 Hq' Hg2 Hg2).
  rewrite zlen_app, Z.add_assoc.
  destruct (rdc rest (p + zlen D1 + zlen D2) ct2 0 []). rewrite app_assoc. reflexivity.
Qed.

Lemma pos_step st st' D :
  Inv st -> Inv st' -> G st' = G st ++ D ->
  forall p q, p = page_size * q + alloc st -> exists q', p + zlen D = page_size * q' + alloc st'.
Proof.
  intros HI HI' HG p q Hp.
  destruct (Inv_pos st HI) as [Q HQ]. destruct (Inv_pos st' HI') as [Q' HQ'].
  rewrite HG, zlen_app in HQ'. exists (q + Q' - Q). lia.
Qed.

Section Config.
Variable c : N.
Variable pps : Z.
Hypothesis Hc : In c [0%N; 1%N; 2%N].

Lemma log_batch_ok : forall recs st, Inv st ->
  exists st' D, log_batch c pps recs st = WOk st' /\ Inv st' /\ G st' = G st ++ D /\
    (recs <> [] -> w_flushed st' = alloc st') /\ (recs = [] -> st' = st) /\
    reads_many D (alloc st) recs.
Proof.
  induction recs as [|r rest IH]; intros st HI.
  - exists st, []. rewrite app_nil_r. split; [reflexivity|]. split; [exact HI|]. split; [reflexivity|].
    split; [congruence|]. split; [reflexivity|]. apply reads_many_nil.
  - cbn [Wal.log_batch].
    destruct (log_ok c pps r (match rest with [] => true | _ => false end) st Hc HI)
      as [st1 [D1 [HL [HI1 [HG1 [Hf1 HR1]]]]]].
    rewrite HL.
    destruct (IH st1 HI1) as [st2 [D2 [HL2 [HI2 [HG2 [Hf2 [Hs2 HR2]]]]]]].
    exists st2, (D1 ++ D2).
    split; [exact HL2|]. split; [exact HI2|].
    split; [rewrite HG2, HG1, <- app_assoc; reflexivity|].
    split; [|split; [discriminate|]].
    + intros _. destruct rest as [|r2 rest].
      * rewrite (Hs2 eq_refl). apply Hf1. reflexivity.
      * apply Hf2. discriminate.
    + change (r :: rest) with ([r] ++ rest).
      eapply reads_many_app; [|exact HR1|exact HR2].
      apply (pos_step st st1 D1 HI HI1 HG1).
Qed.

Lemma log_batches_ok : forall bs st, Inv st -> w_flushed st = alloc st ->
  exists st' D, log_batches c pps bs st = WOk st' /\ Inv st' /\ w_flushed st' = alloc st' /\
    G st' = G st ++ D /\ reads_many D (alloc st) (concat bs).
Proof.
  induction bs as [|b bs IH]; intros st HI Hfl.
  - exists st, []. rewrite app_nil_r. split; [reflexivity|]. split; [exact HI|]. split; [exact Hfl|].
    split; [reflexivity|]. apply reads_many_nil.
  - cbn [Wal.log_batches concat].
    destruct (log_batch_ok b st HI) as [st1 [D1 [HL [HI1 [HG1 [Hf1 [Hs1 HR1]]]]]]].
    rewrite HL.
    assert (Hfl1 : w_flushed st1 = alloc st1).
    { destruct b as [|r b]; [rewrite (Hs1 eq_refl); exact Hfl|apply Hf1; discriminate]. }
    destruct (IH st1 HI1 Hfl1) as [st2 [D2 [HL2 [HI2 [Hfl2 [HG2 HR2]]]]]].
    exists st2, (D1 ++ D2).
    split; [exact HL2|]. split; [exact HI2|]. split; [exact Hfl2|].
    split; [rewrite HG2, HG1, <- app_assoc; reflexivity|].
    eapply reads_many_app; [|exact HR1|exact HR2].
    apply (pos_step st st1 D1 HI HI1 HG1).
Qed.
End Config.

(* ---------------- what the Reader sees of the files *)
Notation pad_page := (Wal.pad_page page_size).
Notation seg_stream := (Wal.seg_stream page_size).
Notation close := (Wal.close page_size).
Notation read_stream := (Wal.read_stream page_size crc dec).
Notation read_segments := (Wal.read_segments page_size crc dec).

Lemma pad_pages s : pages s -> pad_page s = s.
Proof.
  intros [q [Hq Hs]]. unfold Wal.pad_page.
  replace (zlen s) with (page_size * q + 0) by lia. rewrite mod_known by lia.
  rewrite Z.sub_0_r, Z_mod_same_full. change (zeros 0) with (@nil N). apply app_nil_r.
Qed.

Lemma map_pad_pages l : Forall pages l -> map pad_page l = l.
Proof. induction 1; cbn [map]; [reflexivity|]. rewrite pad_pages, IHForall; auto. Qed.

Definition tail_pad (a k : Z) : Prop := (k = 0 /\ a = 0) \/ (0 < k /\ 0 < a /\ a + k = page_size).

Lemma seg_stream_G st :
  Inv st -> w_flushed st = alloc st ->
  exists k, seg_stream (segments st) = G st ++ zeros k /\ tail_pad (alloc st) k.
Proof.
  intros [Hc [[q [Hq Hw]] [Hfl Ha]]] Hfa.
  assert (Ha0 : 0 <= alloc st) by (unfold alloc; apply zlen_nonneg).
  unfold Wal.seg_stream, segments, active_file. rewrite map_app, concat_app, map_pad_pages by exact Hc.
  cbn [map concat]. rewrite app_nil_r.
  unfold G. rewrite Hfa. rewrite (zdrop_all (alloc st) (w_buf st)) by (unfold alloc; lia).
  rewrite app_nil_r. unfold Wal.pad_page.
  rewrite Hw, Hfa. rewrite mod_known by lia.
  destruct (Z.eq_dec (alloc st) 0) as [E|E].
  - exists 0. rewrite E, Z.sub_0_r, Z_mod_same_full. split; [|left; auto].
    rewrite <- app_assoc. reflexivity.
  - exists (page_size - alloc st). rewrite Z.mod_small by lia. split; [|right; lia].
    rewrite <- app_assoc. reflexivity.
Qed.

Lemma close_ok st :
  Inv st -> w_flushed st = alloc st ->
  Inv (close st) /\ w_flushed (close st) = alloc (close st) /\ alloc (close st) = 0 /\
  exists k, G (close st) = G st ++ zeros k /\ tail_pad (alloc st) k.
Proof.
  intros HI Hfa. pose proof HI as [Hc [[q [Hq Hw]] [Hfl Ha]]].
  assert (Ha0 : 0 <= alloc st) by (unfold alloc; apply zlen_nonneg).
  unfold Wal.close. destruct (alloc st >? 0) eqn:E.
  - rewrite Z.gtb_ltb in E. apply Z.ltb_lt in E.
    destruct (flush_true st) as [HG [Hb [Hf [Hcl Hz]]]]; [lia|lia|].
    assert (A : alloc (flush_page true st) = 0) by (unfold alloc; rewrite Hb; reflexivity).
    split; [|split; [lia|split; [exact A|]]].
    + split; [rewrite Hcl; exact Hc|]. split; [|rewrite A, Hf; lia].
      exists (q + 1). split; [lia|]. rewrite Hz, Hf. lia.
    + exists (page_size - alloc st). split; [exact HG|right; lia].
  - rewrite Z.gtb_ltb in E. apply Z.ltb_ge in E.
    split; [exact HI|]. split; [exact Hfa|]. split; [lia|].
    exists 0. change (zeros 0) with (@nil N). rewrite app_nil_r. split; [reflexivity|left; lia].
Qed.

Lemma read_ok D recs k Q a :
  reads_many D 0 recs -> zlen D = page_size * Q + a -> 0 <= a -> tail_pad a k ->
  read_stream (D ++ zeros k) = (recs, RClean).
Proof.
  intros HR HD Ha Hk.
  change (read_stream (D ++ zeros k)) with (rdc (D ++ zeros k) 0 recPageTerm 0 []).
  rewrite (HR (zeros k) 0 0 recPageTerm recPageTerm) by (reflexivity || lia).
  destruct Hk as [[-> _]|[Hk [_ Hak]]].
  - change (zeros 0) with (@nil N). rewrite rdc_nil. rewrite app_nil_r. reflexivity.
  - rewrite <- (app_nil_r (zeros k)).
    rewrite (rdc_pad k [] (0 + zlen D) Q a) by lia.
    rewrite rdc_nil. rewrite app_nil_r. reflexivity.
Qed.

Lemma Inv_init : Inv w_init /\ w_flushed w_init = alloc w_init.
Proof.
  split; [|reflexivity]. split; [constructor|]. split; [exists 0; cbn; lia|]. cbn. lia.
Qed.

(* the main result: every sequence of Log calls succeeds, and reading the resulting segment
   files (with or without Close) returns exactly the logged records, in order, with no error *)
Theorem wal_roundtrip c pps bs :
  In c [0%N; 1%N; 2%N] ->
  exists st, log_batches c pps bs w_init = WOk st /\
    read_segments (segments st) = (concat bs, RClean) /\
    read_segments (segments (close st)) = (concat bs, RClean).
Proof.
  intros Hc. destruct Inv_init as [HI0 Hf0].
  destruct (log_batches_ok c pps Hc bs w_init HI0 Hf0) as [st [D [HL [HI [Hfl [HG HR]]]]]].
  change (G w_init) with (@nil N) in HG. cbn [app] in HG.
  change (alloc w_init) with 0 in HR.
  exists st. split; [exact HL|].
  destruct (Inv_pos st HI) as [Q HQ]. rewrite HG in HQ.
  assert (Ha0 : 0 <= alloc st) by (unfold alloc; apply zlen_nonneg).
  split.
  - destruct (seg_stream_G st HI Hfl) as [k [Hs Hk]].
    unfold Wal.read_segments. rewrite Hs, HG. eapply read_ok; eauto.
  - destruct (close_ok st HI Hfl) as [HIc [Hflc [Hac [k [HGc Hk]]]]].
    destruct (seg_stream_G (close st) HIc Hflc) as [k' [Hs Hk']].
    assert (k' = 0) by (destruct Hk' as [[? ?]|[? [? ?]]]; lia). subst k'.
    change (zeros 0) with (@nil N) in Hs. rewrite app_nil_r in Hs.
    unfold Wal.read_segments. rewrite Hs, HGc, HG. eapply read_ok; eauto.
Qed.

(* layout: finished segments are whole pages, and everything logged is on disk when Log returns *)
Theorem wal_layout c pps bs st :
  In c [0%N; 1%N; 2%N] ->
  log_batches c pps bs w_init = WOk st ->
  Forall (fun s => exists q, 0 <= q /\ zlen s = page_size * q) (w_closed st) /\
  w_flushed st = alloc st /\ alloc st + 7 <= page_size /\
  exists q, 0 <= q /\ zlen (active_file st) = page_size * q + alloc st.
Proof.
  intros Hc HL. destruct Inv_init as [HI0 Hf0].
  destruct (log_batches_ok c pps Hc bs w_init HI0 Hf0) as [st' [D [HL' [HI [Hfl _]]]]].
  rewrite HL in HL'. inversion HL'; subst st'.
  destruct HI as [Hcl [[q [Hq Hw]] [Hf Ha]]].
  split; [exact Hcl|]. split; [exact Hfl|]. split; [exact Ha|].
  exists q. split; [exact Hq|]. unfold active_file. rewrite Hw, Hfl. reflexivity.
Qed.

End Proofs.

(* ------------------------------------------------------------------ live reader: bounded check *)
(* Executable check used by C13_live_partial: write a log with small pages, then tail every
   segment with a LiveReader under every single-cut release of its bytes and under byte-by-byte
   release, and compare with the records of that segment. *)
Fixpoint beqN (a b : list N) : bool :=
  match a, b with
  | [], [] => true
  | x :: a', y :: b' => if N.eqb x y then beqN a' b' else false
  | _, _ => false
  end.
Fixpoint lbeqN (a b : list (list N)) : bool :=
  match a, b with
  | [], [] => true
  | x :: a', y :: b' => if beqN x y then lbeqN a' b' else false
  | _, _ => false
  end.

Definition t_crc (l : list N) : N :=
  ((N.of_nat (length l) * 2654435761 + fold_left N.add l 0) mod 4294967296)%N.
Definition t_enc (_ : N) (r : list N) : list N := r.
Definition t_dec (_ : N) (s : list N) : option (list N) := Some s.

Definition live_ok (ps : Z) (want : list (list N)) (chunks : list (list N)) : bool :=
  let '(outs, e) := live_run ps t_crc t_dec chunks l_init in
  lbeqN (concat outs) want && match e with NEof => true | _ => false end.

Fixpoint natseq (n : nat) : list nat := match n with O => [O] | S m => natseq m ++ [n] end.

Definition check_log (ps pps : Z) (bs : list (list (list N))) : bool :=
  match log_batches ps t_crc t_enc 0 pps bs w_init with
  | WOk st =>
    let segs := segments st in
    let per_seg := map (fun s => fst (read_stream ps t_crc t_dec (pad_page ps s))) segs in
    lbeqN (concat per_seg) (concat bs) &&
    forallb (fun '(s, want) =>
               forallb (fun cut => live_ok ps want [firstn cut s; skipn cut s]) (natseq (length s))
               && live_ok ps want (map (fun b => [b]) s))
            (combine segs per_seg)
  | _ => false
  end.

(* record number j of length n, with non-zero distinct bytes *)
Definition mkrec (j : nat) (n : nat) : list N :=
  map (fun k => N.of_nat (1 + j * 60 + k)) (seq 0 n).
Definition mklog (lens : list nat) : list (list (list N)) :=
  [map (fun '(j, n) => mkrec j n) (combine (seq 0 (length lens)) lens)].

Definition live_lens : list nat := [0; 1; 2; 8; 9; 10; 19; 30]%nat.
Definition live_logs : list (list nat) :=
  [[]] ++ map (fun a => [a]) live_lens
  ++ flat_map (fun a => map (fun b => [a; b]) live_lens) live_lens
  ++ flat_map (fun a => flat_map (fun b => map (fun c => [a; b; c]) live_lens) live_lens) live_lens.

Lemma live_bounded : forallb (fun ls => check_log 16 2 (mklog ls)) live_logs = true.
Proof. vm_compute. reflexivity. Qed.

Definition live_lens2 : list nat := [0; 1; 2; 3; 5; 7]%nat.
Definition live_logs2 : list (list nat) :=
  map (fun a => [a]) live_lens2
  ++ flat_map (fun a => map (fun b => [a; b]) live_lens2) live_lens2
  ++ flat_map (fun a => flat_map (fun b => map (fun c => [a; b; c]) live_lens2) live_lens2) live_lens2.

Lemma live_bounded2 : forallb (fun ls => check_log 9 3 (mklog ls)) live_logs2 = true.
Proof. vm_compute. reflexivity. Qed.

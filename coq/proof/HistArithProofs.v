(* proof/HistArithProofs.v — lemmas about model/HistArith.v for property C31. *)
From Coq Require Import List ZArith Bool Lia.
From Verif Require Import model.HistArith.
Import ListNotations.
Open Scope Z_scope.

(* ---------- the bucket map `total` ---------- *)

Lemma total_app l1 l2 t : total (l1 ++ l2) t = total l1 t + total l2 t.
Proof. induction l1 as [|b l1 IH]; cbn [app total]; [lia|]. destruct (fst b =? t); lia. Qed.

Lemma total_rev l t : total (rev l) t = total l t.
Proof.
  induction l as [|b l IH]; cbn [rev total]; [reflexivity|].
  rewrite total_app, IH. cbn [total]. destruct (fst b =? t); lia.
Qed.

Lemma total_filter_nonzero l t : total (filter nonzero l) t = total l t.
Proof.
  induction l as [|b l IH]; cbn [filter total]; [reflexivity|].
  unfold nonzero at 1. destruct (snd b =? 0) eqn:E; cbn [negb total]; rewrite IH.
  - apply Z.eqb_eq in E. destruct (fst b =? t); lia.
  - reflexivity.
Qed.

Lemma total_zeros_from from n t : total (zeros_from from n) t = 0.
Proof. revert from; induction n as [|n IH]; intro from; cbn [zeros_from total fst snd]; [reflexivity|]. rewrite IH. destruct (from =? t); reflexivity. Qed.

Lemma total_scale sgn l t : total (scale sgn l) t = sgn * total l t.
Proof.
  induction l as [|b l IH]; cbn [scale map total fst snd]; [lia|].
  fold (scale sgn l). rewrite IH. destruct (fst b =? t); lia.
Qed.

(* ---------- addBuckets: the result's bucket map is the bucket-wise sum / difference ---------- *)

Lemma total_merge_add sgn la lb t :
  total (merge_add sgn la lb) t = total la t + sgn * total lb t.
Proof.
  revert lb; induction la as [|a la IHa]; intro lb.
  - cbn [merge_add total]. rewrite total_scale. lia.
  - induction lb as [|b lb IHb].
    + cbn [merge_add total]. lia.
    + cbn [merge_add]. destruct (fst a <? fst b) eqn:E1.
      * cbn [total]. rewrite IHa. cbn [total]. destruct (fst a =? t); lia.
      * destruct (fst a =? fst b) eqn:E2.
        -- cbn [total fst snd]. rewrite IHa. apply Z.eqb_eq in E2. rewrite <- E2.
           destruct (fst a =? t); lia.
        -- cbn [total fst snd]. cbn [merge_add] in IHb. rewrite IHb. cbn [total].
           destruct (fst b =? t); destruct (fst a =? t); lia.
Qed.

(* ---------- compactBuckets never changes the total of any bucket ---------- *)

Lemma total_fill k l t : total (fill k l) t = total l t.
Proof.
  induction l as [|b l IH]; [reflexivity|].
  cbn [fill total]. rewrite total_app, IH.
  destruct l as [|b' l']; cbn [total]; [destruct (fst b =? t); lia|].
  destruct ((0 <? fst b' - fst b - 1) && (fst b' - fst b - 1 <=? k)); cbn [total];
    rewrite ?total_zeros_from; destruct (fst b =? t); lia.
Qed.

Lemma total_compact k l t : total (compact_abs k l) t = total l t.
Proof. unfold compact_abs. rewrite total_fill. apply total_filter_nonzero. Qed.

(* the result has no empty bucket at either end, i.e. Compact really cuts *)
Lemma filter_nonzero_all l : Forall (fun b => snd b <> 0) (filter nonzero l).
Proof.
  induction l as [|b l IH]; cbn [filter]; [constructor|].
  unfold nonzero at 1. destruct (snd b =? 0) eqn:E; cbn [negb]; [exact IH|].
  constructor; [apply Z.eqb_neq; exact E | exact IH].
Qed.

Lemma compact0_no_empty l : Forall (fun b => snd b <> 0) (compact_abs 0 l).
Proof.
  unfold compact_abs. pose proof (filter_nonzero_all l) as H.
  induction H as [|b l' Hb Hl IH]; cbn [fill]; [constructor|].
  constructor; [exact Hb|].
  destruct l' as [|b' l'']; cbn [app]; [constructor|].
  replace ((0 <? fst b' - fst b - 1) && (fst b' - fst b - 1 <=? 0)) with false by
    (symmetry; apply andb_false_iff; destruct (0 <? fst b' - fst b - 1) eqn:E; [right; apply Z.leb_gt; apply Z.ltb_lt in E; lia | left; reflexivity]).
  exact IH.
Qed.

(* ---------- targetIdx / reduceResolution ---------- *)

Lemma target_idx_mono k a b : 0 <= k -> a <= b -> target_idx a k <= target_idx b k.
Proof.
  intros Hk Hab. unfold target_idx. rewrite !Z.shiftr_div_pow2 by exact Hk.
  pose proof (Z.pow_pos_nonneg 2 k ltac:(lia) Hk).
  pose proof (Z.div_le_mono (a - 1) (b - 1) (2 ^ k) ltac:(lia) ltac:(lia)). lia.
Qed.

Lemma target_idx_0 a : target_idx a 0 = a.
Proof. unfold target_idx. rewrite Z.shiftr_0_r. lia. Qed.

(* indices strictly increasing (what `expand` yields for valid spans) *)
Fixpoint inc_from (lo : Z) (l : list bkt) : Prop :=
  match l with [] => True | b :: l' => lo < fst b /\ inc_from (fst b) l' end.
Definition increasing (l : list bkt) : Prop :=
  match l with [] => True | b :: l' => inc_from (fst b) l' end.

(* target indices non-decreasing, all >= lo *)
Fixpoint nd_from (k lo : Z) (l : list bkt) : Prop :=
  match l with [] => True | b :: l' => lo <= target_idx (fst b) k /\ nd_from k (target_idx (fst b) k) l' end.

Lemma inc_nd k lo l : 0 <= k -> inc_from lo l -> nd_from k (target_idx lo k) l.
Proof.
  intro Hk. revert lo; induction l as [|b l IH]; intros lo H; cbn in *; [exact I|].
  destruct H as [H1 H2]. split; [apply target_idx_mono; lia | apply IH; exact H2].
Qed.

Lemma nd_weaken k lo lo' l : lo' <= lo -> nd_from k lo l -> nd_from k lo' l.
Proof. destruct l; cbn; [tauto|]. intros ? [? ?]; split; [lia|assumption]. Qed.

Definition head_le (acc : list bkt) (lo : Z) : Prop :=
  match acc with [] => True | b :: _ => fst b <= lo end.

Lemma fold_reduce_total k l : forall acc lo t,
  head_le acc lo -> nd_from k lo l ->
  total (fold_left (reduce_step k) l acc) t = total acc t + total (retarget k l) t.
Proof.
  induction l as [|b l IH]; intros acc lo t Hh Hnd; cbn [fold_left retarget map total]; [lia|].
  fold (retarget k l). destruct Hnd as [H1 H2].
  cbn [fst snd].
  destruct acc as [|[lt lc] acc'].
  - cbn [reduce_step]. rewrite (IH _ (target_idx (fst b) k) t); [|cbn [head_le fst]; lia|exact H2].
    cbn [total fst snd]. destruct (target_idx (fst b) k =? t); lia.
  - cbn [head_le fst] in Hh. cbn [reduce_step].
    destruct (lt =? target_idx (fst b) k) eqn:E1.
    + apply Z.eqb_eq in E1.
      rewrite (IH _ (target_idx (fst b) k) t); [|cbn [head_le fst]; lia|exact H2].
      cbn [total fst snd]. rewrite <- E1. destruct (lt =? t); lia.
    + destruct (lt + 1 <=? target_idx (fst b) k) eqn:E2.
      * rewrite (IH _ (target_idx (fst b) k) t); [|cbn [head_le fst]; lia|exact H2].
        cbn [total fst snd]. destruct (target_idx (fst b) k =? t); lia.
      * apply Z.eqb_neq in E1. apply Z.leb_gt in E2. lia.
Qed.

Lemma reduce_total k l t : 0 <= k -> increasing l ->
  total (reduce_abs k l) t = total (retarget k l) t.
Proof.
  intros Hk Hinc. unfold reduce_abs. rewrite total_rev.
  destruct l as [|b l]; [reflexivity|].
  rewrite (fold_reduce_total k (b :: l) [] (target_idx (fst b) k) t); cbn [total head_le]; [lia|exact I|].
  cbn [nd_from]. split; [lia|]. apply inc_nd; [exact Hk|exact Hinc].
Qed.

(* the result keeps strictly increasing indices (no duplicate target bucket) *)
Fixpoint dec_from (hi : Z) (acc : list bkt) : Prop :=
  match acc with [] => True | b :: r => fst b < hi /\ dec_from (fst b) r end.
Definition decreasing (acc : list bkt) : Prop :=
  match acc with [] => True | b :: r => dec_from (fst b) r end.

Lemma fold_reduce_dec k l : forall acc lo,
  decreasing acc -> head_le acc lo -> nd_from k lo l ->
  decreasing (fold_left (reduce_step k) l acc).
Proof.
  induction l as [|b l IH]; intros acc lo Hd Hh Hnd; cbn [fold_left]; [exact Hd|].
  destruct Hnd as [H1 H2].
  apply (IH _ (target_idx (fst b) k)); [| |exact H2].
  - destruct acc as [|[lt lc] acc']; cbn [reduce_step]; [exact I|].
    cbn [head_le fst] in Hh.
    destruct (lt =? target_idx (fst b) k) eqn:E1; [exact Hd|].
    destruct (lt + 1 <=? target_idx (fst b) k) eqn:E2; [|exact Hd].
    apply Z.leb_le in E2. cbn [decreasing dec_from fst]. split; [lia|exact Hd].
  - destruct acc as [|[lt lc] acc']; cbn [reduce_step head_le fst]; [lia|].
    cbn [head_le fst] in Hh.
    destruct (lt =? target_idx (fst b) k) eqn:E1; [apply Z.eqb_eq in E1; cbn; lia|].
    destruct (lt + 1 <=? target_idx (fst b) k) eqn:E2; cbn [head_le fst]; lia.
Qed.

Lemma inc_from_app lo l b : inc_from lo l -> (forall x, In x l -> fst x < fst b) -> lo < fst b ->
  inc_from lo (l ++ [b]).
Proof.
  revert lo; induction l as [|a l IH]; intros lo H Hall Hlo; cbn in *; [tauto|].
  destruct H as [H1 H2]. split; [exact H1|]. apply IH; [exact H2| intros x Hx; apply Hall; right; exact Hx | apply Hall; left; reflexivity].
Qed.

Lemma dec_from_bound hi acc x : dec_from hi acc -> In x acc -> fst x < hi.
Proof.
  revert hi; induction acc as [|a acc IH]; intros hi H Hin; [destruct Hin|].
  destruct H as [H1 H2]. destruct Hin as [->|Hin]; [exact H1|]. specialize (IH _ H2 Hin). lia.
Qed.

Lemma dec_rev_inc acc : decreasing acc -> increasing (rev acc).
Proof.
  induction acc as [|a acc IH]; intro H; [exact I|].
  cbn [rev]. cbn [decreasing] in H.
  assert (Hd : decreasing acc) by (destruct acc as [|a' acc']; [exact I | destruct H; assumption]).
  specialize (IH Hd).
  assert (Hall : forall x, In x (rev acc) -> fst x < fst a)
    by (intros x Hx; apply in_rev in Hx; eapply dec_from_bound; eassumption).
  destruct (rev acc) as [|r0 rl] eqn:E; [exact I|].
  cbn [app increasing]. cbn [increasing] in IH.
  apply inc_from_app; [exact IH | intros x Hx; apply Hall; right; exact Hx | apply Hall; left; reflexivity].
Qed.

Lemma reduce_increasing k l : 0 <= k -> increasing l -> increasing (reduce_abs k l).
Proof.
  intros Hk Hinc. unfold reduce_abs. apply dec_rev_inc.
  destruct l as [|b l]; [exact I|].
  apply (fold_reduce_dec k (b :: l) [] (target_idx (fst b) k)); [exact I|exact I|].
  cbn [nd_from]. split; [lia|]. apply inc_nd; assumption.
Qed.

(* expand yields strictly increasing indices *)
Lemma take_span_inc idx n bs l r : take_span idx n bs = Some (l, r) ->
  (forall lo, lo < idx -> inc_from lo l) /\ (forall x, In x l -> idx <= fst x < idx + Z.of_nat n) /\
  length l = n.
Proof.
  revert idx bs l r; induction n as [|n IH]; intros idx bs l r H; cbn [take_span] in H.
  - inversion H; subst. split; [intros; exact I|]. split; [intros x Hx; destruct Hx | reflexivity].
  - destruct bs as [|b bs']; [discriminate|].
    destruct (take_span (idx + 1) n bs') as [[l' r']|] eqn:E; [|discriminate].
    inversion H; subst. destruct (IH _ _ _ _ E) as (A & B & C).
    split; [|split].
    + intros lo Hlo. cbn. split; [exact Hlo| apply A; lia].
    + intros x Hx. destruct Hx as [<-|Hin]; cbn [fst]; [lia| specialize (B _ Hin); lia].
    + cbn. f_equal. exact C.
Qed.

Lemma inc_from_app2 lo l1 l2 hi : inc_from lo l1 -> (forall x, In x l1 -> fst x < hi) -> lo < hi ->
  (forall lo', lo' < hi -> inc_from lo' l2) -> inc_from lo (l1 ++ l2).
Proof.
  revert lo; induction l1 as [|a l1 IH]; intros lo H Hall Hlo H2; cbn [app].
  - apply H2. exact Hlo.
  - destruct H as [Ha Hr]. split; [exact Ha|].
    apply IH; [exact Hr| intros x Hx; apply Hall; right; exact Hx | apply Hall; left; reflexivity | exact H2].
Qed.

Lemma expand_from_inc sp : forall first idx bs l, expand_from first idx sp bs = Ok l ->
  (first = false -> forall lo, lo < idx -> inc_from lo l) /\
  (first = true -> increasing l).
Proof.
  induction sp as [|s sp IH]; intros first idx bs l H; cbn [expand_from] in H.
  - destruct bs; [|discriminate]. inversion H; subst. split; intros; cbn; exact I.
  - destruct (negb first && (s_off s <? 0)) eqn:E0; [discriminate|].
    destruct (take_span (idx + s_off s) (Z.to_nat (s_len s)) bs) as [[l1 r]|] eqn:E1; [|discriminate].
    destruct (expand_from false (idx + s_off s + Z.of_nat (Z.to_nat (s_len s))) sp r) as [l2|] eqn:E2; [|discriminate].
    inversion H; subst. destruct (take_span_inc _ _ _ _ _ E1) as (A & B & C).
    destruct (IH _ _ _ _ E2) as [I1 _]. specialize (I1 eq_refl).
    split.
    + intros -> lo Hlo. cbn in E0. apply Z.ltb_ge in E0.
      destruct l1 as [|a l1'].
      * cbn [app]. apply I1. cbn in C. rewrite <- C. lia.
      * apply (inc_from_app2 lo (a :: l1') l2 (idx + s_off s + Z.of_nat (Z.to_nat (s_len s)))).
        -- apply A. lia.
        -- intros x Hx. specialize (B _ Hx). lia.
        -- specialize (B a (or_introl eq_refl)). lia.
        -- exact I1.
    + intros ->. destruct l1 as [|a l1'].
      * cbn [app]. destruct l2 as [|b l2']; [exact I|].
        cbn [increasing]. specialize (I1 (fst b - 1)).
        (* b is the first bucket of l2: use inc_from with lo just below *)
        assert (Hb : idx + s_off s + Z.of_nat (Z.to_nat (s_len s)) <= fst b).
        { specialize (IH false _ _ _ E2) as [J _]. specialize (J eq_refl (idx + s_off s + Z.of_nat (Z.to_nat (s_len s)) - 1) ltac:(lia)).
          cbn in J. lia. }
        specialize (IH false _ _ _ E2) as [J _].
        specialize (J eq_refl (idx + s_off s + Z.of_nat (Z.to_nat (s_len s)) - 1) ltac:(lia)).
        cbn in J. destruct J as [_ J]. exact J.
      * cbn [app increasing].
        pose proof (A (fst a - 1) ) as A'.
        assert (Ha : idx + s_off s <= fst a) by (specialize (B a (or_introl eq_refl)); lia).
        specialize (A (idx + s_off s - 1) ltac:(lia)). cbn in A. destruct A as [_ A].
        apply (inc_from_app2 (fst a) l1' l2 (idx + s_off s + Z.of_nat (Z.to_nat (s_len s)))).
        -- exact A.
        -- intros x Hx. specialize (B x (or_intror Hx)). lia.
        -- specialize (B a (or_introl eq_refl)). lia.
        -- exact I1.
Qed.

Lemma expand_increasing sp bs l : expand sp bs = Ok l -> increasing l.
Proof. intro H. apply (expand_from_inc sp true 0 bs l H). reflexivity. Qed.

(* ---------- detectReset on two bucket sequences ---------- *)

Fixpoint find_idx (i : Z) (l : list bkt) : option Z :=
  match l with [] => None | b :: l' => if fst b =? i then Some (snd b) else find_idx i l' end.

(* bucket p of the previous histogram witnesses a reset against the current buckets:
   it is populated and missing now, or its count went down *)
Definition bad (cur : list bkt) (p : bkt) : bool :=
  match find_idx (fst p) cur with None => nonzero p | Some c => c <? snd p end.

Lemma find_idx_above i lo l : inc_from lo l -> i <= lo -> find_idx i l = None.
Proof.
  revert lo; induction l as [|b l IH]; intros lo H Hi; [reflexivity|].
  destruct H as [H1 H2]. cbn [find_idx]. destruct (fst b =? i) eqn:E; [apply Z.eqb_eq in E; lia|].
  apply (IH (fst b)); [exact H2|lia].
Qed.

Lemma existsb_bad_skip c cur prev lo :
  inc_from lo prev -> fst c <= lo -> existsb (bad (c :: cur)) prev = existsb (bad cur) prev.
Proof.
  revert lo; induction prev as [|p prev IH]; intros lo H Hc; [reflexivity|].
  destruct H as [H1 H2]. cbn [existsb]. f_equal.
  - unfold bad. cbn [find_idx]. destruct (fst c =? fst p) eqn:E; [apply Z.eqb_eq in E; lia|reflexivity].
  - apply (IH (fst p)); [exact H2|lia].
Qed.

Lemma dr_lists_spec prev : forall cur, increasing prev -> increasing cur ->
  dr_lists prev cur = existsb (bad cur) prev.
Proof.
  induction prev as [|p prev IHp]; intros cur Hp Hc; [destruct cur; reflexivity|].
  assert (Hp' : increasing prev) by (destruct prev as [|p' prev']; [exact I| destruct Hp; assumption]).
  induction cur as [|c cur IHc].
  - cbn [dr_lists]. unfold any_nonzero. reflexivity.
  - assert (Hc' : increasing cur) by (destruct cur as [|c' cur']; [exact I| destruct Hc; assumption]).
    cbn [dr_lists]. destruct (fst c <? fst p) eqn:E1.
    + apply Z.ltb_lt in E1. cbn [dr_lists] in IHc. rewrite (IHc Hc').
      symmetry. cbn [existsb]. f_equal.
      * unfold bad. cbn [find_idx]. destruct (fst c =? fst p) eqn:E; [apply Z.eqb_eq in E; lia|reflexivity].
      * apply (existsb_bad_skip c cur prev (fst p)); [exact Hp|lia].
    + apply Z.ltb_ge in E1. destruct (fst p <? fst c) eqn:E2.
      * apply Z.ltb_lt in E2. rewrite (IHp (c :: cur) Hp' Hc). cbn [existsb]. f_equal.
        unfold bad. cbn [find_idx]. destruct (fst c =? fst p) eqn:E; [apply Z.eqb_eq in E; lia|].
        rewrite (find_idx_above (fst p) (fst c) cur Hc ltac:(lia)). reflexivity.
      * apply Z.ltb_ge in E2. rewrite (IHp (c :: cur) Hp' Hc). cbn [existsb]. f_equal.
        unfold bad. cbn [find_idx]. replace (fst c =? fst p) with true by (symmetry; apply Z.eqb_eq; lia).
        reflexivity.
Qed.

(* find_idx agrees with the bucket map on increasing lists *)
Lemma total_above i lo l : inc_from lo l -> i <= lo -> total l i = 0.
Proof.
  revert lo; induction l as [|b l IH]; intros lo H Hi; [reflexivity|].
  destruct H as [H1 H2]. cbn [total]. destruct (fst b =? i) eqn:E; [apply Z.eqb_eq in E; lia|].
  apply (IH (fst b)); [exact H2|lia].
Qed.

Lemma find_idx_total i l : increasing l ->
  total l i = match find_idx i l with Some c => c | None => 0 end.
Proof.
  induction l as [|b l IH]; intro H; [reflexivity|].
  assert (H' : increasing l) by (destruct l as [|b' l']; [exact I| destruct H; assumption]).
  cbn [total find_idx]. destruct (fst b =? i) eqn:E.
  - apply Z.eqb_eq in E. rewrite (total_above i (fst b) l H ltac:(lia)). lia.
  - apply IH. exact H'.
Qed.

(* with non-negative counts: some bucket's count decreased *)
Lemma bad_decreased cur p : increasing cur -> 0 <= snd p ->
  bad cur p = (total cur (fst p) <? snd p) || false.
Proof.
  intros Hc Hp. unfold bad. rewrite (find_idx_total (fst p) cur Hc), orb_false_r.
  destruct (find_idx (fst p) cur); [reflexivity|].
  unfold nonzero. destruct (snd p =? 0) eqn:E; cbn [negb]; symmetry.
  - apply Z.ltb_ge. apply Z.eqb_eq in E. lia.
  - apply Z.ltb_lt. apply Z.eqb_neq in E. lia.
Qed.

(* ---------- custom buckets with mismatched bounds ---------- *)

Lemma total_zrange_map (f : Z -> Z) from n t :
  total (map (fun x => (x, f x)) (zrange from n)) t =
  if (from <=? t) && (t <? from + Z.of_nat n) then f t else 0.
Proof.
  revert from; induction n as [|n IH]; intro from.
  - cbn [zrange map total]. destruct (from <=? t) eqn:E1; [|reflexivity].
    replace (t <? from + Z.of_nat 0) with false; [reflexivity|].
    symmetry. apply Z.ltb_ge. apply Z.leb_le in E1. lia.
  - cbn [zrange map total fst snd]. rewrite IH.
    destruct (from =? t) eqn:E.
    + apply Z.eqb_eq in E. subst t.
      replace (from + 1 <=? from) with false by (symmetry; apply Z.leb_gt; lia).
      replace (from <=? from) with true by (symmetry; apply Z.leb_le; lia).
      replace (from <? from + Z.of_nat (S n)) with true by (symmetry; apply Z.ltb_lt; lia).
      cbn [andb]. lia.
    + apply Z.eqb_neq in E.
      destruct (from + 1 <=? t) eqn:E1, (from <=? t) eqn:E2; cbn [andb];
        try apply Z.leb_le in E1; try apply Z.leb_gt in E1; try apply Z.leb_le in E2; try apply Z.leb_gt in E2; try lia.
      replace (t <? from + 1 + Z.of_nat n) with (t <? from + Z.of_nat (S n)) by (f_equal; lia). reflexivity.
Qed.

Lemma add_mism_total sgn la ba lb bb inter t :
  0 <= t <= Z.of_nat (length inter) ->
  total (add_mism sgn la ba lb bb inter) t =
  total (remap inter ba la) t + sgn * total (remap inter bb lb) t.
Proof.
  intro Ht. unfold add_mism. rewrite total_filter_nonzero.
  rewrite (total_zrange_map (fun t => total (remap inter ba la) t + sgn * total (remap inter bb lb) t)).
  replace (0 <=? t) with true by (symmetry; apply Z.leb_le; lia).
  replace (t <? 0 + Z.of_nat (S (length inter))) with true by (symmetry; apply Z.ltb_lt; lia).
  reflexivity.
Qed.

(* every source bucket lands in a bucket of the intersected layout *)
Lemma find_ge_range inter x p r : find_ge inter x p = Some r -> p <= r < p + Z.of_nat (length inter).
Proof.
  revert p; induction inter as [|y inter IH]; intros p H; cbn [find_ge] in H; [discriminate|].
  destruct (x <=? y); [inversion H; subst; cbn [length]; lia|].
  specialize (IH _ H). cbn [length]. lia.
Qed.

Lemma map_idx_range inter bounds idx : 0 <= map_idx inter bounds idx <= Z.of_nat (length inter).
Proof.
  unfold map_idx. destruct (cbound bounds idx); [|lia].
  destruct (find_ge inter z 0) eqn:E; [|lia]. apply find_ge_range in E. lia.
Qed.

(* ---------- ToFloat ---------- *)

Fixpoint deltas_from (prev : Z) (l : list Z) : list Z :=
  match l with [] => [] | x :: r => (x - prev) :: deltas_from x r end.

Lemma deltas_cumsum acc ds : deltas_from acc (cumsum_from acc ds) = ds.
Proof.
  revert acc; induction ds as [|d ds IH]; intro acc; cbn [cumsum_from deltas_from]; [reflexivity|].
  rewrite IH. f_equal. lia.
Qed.

Lemma total_retarget k l t :
  total (retarget k l) t = sumc (filter (fun b => target_idx (fst b) k =? t) l).
Proof.
  induction l as [|b l IH]; [reflexivity|].
  cbn [retarget map total filter fst snd]. fold (retarget k l). rewrite IH.
  destruct (target_idx (fst b) k =? t); reflexivity.
Qed.

Lemma total_dropwhile_zero (f : bkt -> bool) l t :
  (forall b, In b l -> f b = true -> snd b = 0) -> total (dropwhile f l) t = total l t.
Proof.
  induction l as [|b l IH]; intro H; [reflexivity|].
  cbn [dropwhile]. destruct (f b) eqn:E; [|reflexivity].
  rewrite IH by (intros x Hx; apply H; right; exact Hx).
  cbn [total]. rewrite (H b (or_introl eq_refl) E). destruct (fst b =? t); lia.
Qed.

(* ---------- Add / Sub when both zero buckets already have the same width ---------- *)

Lemma reconcile_loop_same fuel h o oz ot :
  thr_eqb ot (zt h) = true -> reconcile_loop fuel h o oz ot = Ok (h, oz).
Proof. intro H. destruct fuel; cbn [reconcile_loop]; rewrite H; reflexivity. Qed.

Definition reduced_to (s' s : Z) (l : list bkt) : list bkt := if s' <? s then reduce_abs (s - s') l else l.

Lemma reduced_to_total s' s l t : s' <= s -> increasing l ->
  total (reduced_to s' s l) t = total (retarget (s - s') l) t.
Proof.
  intros Hs Hinc. unfold reduced_to. destruct (s' <? s) eqn:E.
  - apply reduce_total; [lia|exact Hinc].
  - apply Z.ltb_ge in E. replace (s - s') with 0 by lia.
    induction l as [|b l IH]; [reflexivity|].
    cbn [retarget map total fst snd]. fold (retarget 0 l). rewrite target_idx_0.
    rewrite IH; [reflexivity|]. destruct l as [|b' l']; [exact I| destruct Hinc; assumption].
Qed.

Lemma arith_same_threshold sgn h o :
  is_custom (schema h) = false -> is_custom (schema o) = false ->
  thr_eqb (zt o) (zt h) = true -> increasing (pos h) -> increasing (neg h) ->
  increasing (pos o) -> increasing (neg o) ->
  exists r, arith sgn h o = Ok r /\
    let s' := Z.min (schema h) (schema o) in
    schema (ao_h r) = s' /\ zt (ao_h r) = zt h /\
    zc (ao_h r) = zc h + sgn * zc o /\ cnt (ao_h r) = cnt h + sgn * cnt o /\
    (forall t, total (pos (ao_h r)) t =
               total (retarget (schema h - s') (pos h)) t +
               sgn * total (drop_below s' (zt h) (reduced_to s' (schema o) (pos o))) t) /\
    (forall t, total (neg (ao_h r)) t =
               total (retarget (schema h - s') (neg h)) t +
               sgn * total (drop_below s' (zt h) (reduced_to s' (schema o) (neg o))) t).
Proof.
  intros Hh Ho Hz Hph Hnh Hpo Hno. unfold arith. rewrite Hh, Ho. cbn [xorb].
  destruct (adjust_hint (hint h) (hint o)) as [hint' coll].
  unfold reconcile. rewrite reconcile_loop_same by exact Hz.
  eexists. split; [reflexivity|]. cbn [ao_h schema zt zc cnt pos neg].
  repeat split; intro t; rewrite total_merge_add;
    fold (reduced_to (Z.min (schema h) (schema o)) (schema h) (pos h));
    fold (reduced_to (Z.min (schema h) (schema o)) (schema h) (neg h));
    fold (reduced_to (Z.min (schema h) (schema o)) (schema o) (pos o));
    fold (reduced_to (Z.min (schema h) (schema o)) (schema o) (neg o));
    rewrite reduced_to_total by (try assumption; lia); reflexivity.
Qed.

(* ======================= zeroCountForLargerThreshold ======================= *)


(* ---------- thresholds as an ordered type ---------- *)

Ltac thr_cases :=
  repeat match goal with
         | t : thr |- _ => destruct t
         end;
  unfold thr_leb, thr_ltb, thr_eqb, upper, lower in *; cbn [negb] in *;
  repeat match goal with
         | H : negb _ = true |- _ => apply negb_true_iff in H
         | H : negb _ = false |- _ => apply negb_false_iff in H
         | H : (_ <? _) = true |- _ => apply Z.ltb_lt in H
         | H : (_ <? _) = false |- _ => apply Z.ltb_ge in H
         | H : (_ =? _) = true |- _ => apply Z.eqb_eq in H
         | H : (_ =? _) = false |- _ => apply Z.eqb_neq in H
         | |- negb _ = true => apply negb_true_iff
         | |- negb _ = false => apply negb_false_iff
         | |- (_ <? _) = true => apply Z.ltb_lt
         | |- (_ <? _) = false => apply Z.ltb_ge
         | |- (_ =? _) = true => apply Z.eqb_eq
         | |- (_ =? _) = false => apply Z.eqb_neq
         end;
  try discriminate; try congruence; try lia.

Lemma bcode_eq idx s : s <= 8 -> bcode idx s = 2 * idx * 2 ^ (8 - s).
Proof. intro H. unfold bcode. rewrite Z.shiftl_mul_pow2 by lia. reflexivity. Qed.

Lemma bcode_lt s i j : s <= 8 -> i < j -> bcode i s < bcode j s.
Proof.
  intros Hs Hij. rewrite !bcode_eq by exact Hs.
  pose proof (Z.pow_pos_nonneg 2 (8 - s) ltac:(lia) ltac:(lia)). nia.
Qed.
Lemma bcode_le s i j : s <= 8 -> i <= j -> bcode i s <= bcode j s.
Proof.
  intros Hs Hij. rewrite !bcode_eq by exact Hs.
  pose proof (Z.pow_pos_nonneg 2 (8 - s) ltac:(lia) ltac:(lia)). nia.
Qed.

(* bucket b lies (at least partly) below T: its lower bound is < T *)
Definition inside (s : Z) (T : thr) (b : Z * Z) : bool := thr_ltb (lower (fst b) s) T.
(* T cuts no populated bucket of l *)
Definition nocut (s : Z) (T : thr) (l : list (Z * Z)) : Prop :=
  forall b : Z * Z, In b l -> inside s T b = true -> thr_ltb T (upper (fst b) s) = true -> snd b = 0.

Lemma filter_inside_nil s T i (l : list (Z * Z)) : s <= 8 -> inc_from i l -> thr_leb T (TC (bcode i s)) = true ->
  filter (inside s T) l = [].
Proof.
  intros Hs. revert i; induction l as [|b l IH]; intros i H HT; [reflexivity|].
  destruct H as [H1 H2]. cbn [filter].
  assert (Hb : bcode i s <= bcode (fst b - 1) s) by (apply bcode_le; lia).
  assert (E : inside s T b = false).
  { unfold inside. destruct T; thr_cases. }
  rewrite E. apply (IH (fst b)); [exact H2|].
  pose proof (bcode_le s i (fst b) Hs ltac:(lia)). destruct T; thr_cases.
Qed.

Lemma inc_from_weaken lo lo' l : lo' <= lo -> inc_from lo l -> inc_from lo' l.
Proof. destruct l; cbn; [tauto|]. intros ? [? ?]; split; [lia|assumption]. Qed.

Lemma scan_side_spec s T : s <= 8 -> forall l lo acc, inc_from lo l ->
  match scan_side s T l acc with
  | (z, None) => z = acc + sumc (filter (inside s T) l) /\ nocut s T l
  | (z, Some T2) => thr_ltb T T2 = true /\ z = acc + sumc (filter (inside s T2) l) /\ nocut s T2 l /\
                    exists b, In b l /\ T2 = upper (fst b) s /\ snd b <> 0 /\ inside s T b = true
  end.
Proof.
  intros Hs. unfold bkt. induction l as [|[i c] l IH]; intros lo acc Hinc.
  - cbn. split; [lia|]. intros b [].
  - destruct Hinc as [Hlo Hinc]. cbn [fst] in Hinc, Hlo. cbn [scan_side].
    destruct (thr_leb T (lower i s)) eqn:E1.
    + (* the first bucket starts at or above T: nothing is inside *)
      cbv beta iota.
      assert (F : filter (inside s T) ((i, c) :: l) = []).
      { apply (filter_inside_nil s T (i - 1)); [exact Hs| split; [cbn; lia|exact Hinc] | exact E1]. }
      rewrite F. cbn [sumc fold_right]. split; [lia|].
      intros b Hb Hin. exfalso.
      assert (In b (filter (inside s T) ((i, c) :: l))) by (apply filter_In; split; assumption).
      rewrite F in H. destruct H.
    + assert (Ein : inside s T (i, c) = true) by (unfold inside; cbn [fst]; destruct T; thr_cases).
      destruct (thr_ltb T (upper i s)) eqn:E2.
      * (* T cuts this bucket *)
        assert (F : filter (inside s T) l = []).
        { apply (filter_inside_nil s T i); [exact Hs|exact Hinc| destruct T; thr_cases]. }
        assert (F2 : filter (inside s (upper i s)) l = []).
        { apply (filter_inside_nil s (upper i s) i); [exact Hs|exact Hinc| thr_cases]. }
        destruct (c =? 0) eqn:Ec.
        -- cbv beta iota. apply Z.eqb_eq in Ec. subst c. cbn [filter]. rewrite Ein, F. cbn [sumc fold_right snd].
           split; [lia|]. intros b [<-|Hb] Hi Hu; [reflexivity|].
           exfalso. assert (In b (filter (inside s T) l)) by (apply filter_In; split; assumption).
           rewrite F in H. destruct H.
        -- cbv beta iota. split; [exact E2|]. cbn [filter].
           assert (Ein2 : inside s (upper i s) (i, c) = true).
           { unfold inside. cbn [fst]. pose proof (bcode_lt s (i - 1) i Hs ltac:(lia)). thr_cases. }
           rewrite Ein2, F2. cbn [sumc fold_right snd]. split; [lia|]. split.
           ++ intros b [<-|Hb] Hi Hu.
              ** cbn [fst] in Hu. thr_cases.
              ** exfalso. assert (In b (filter (inside s (upper i s)) l)) by (apply filter_In; split; assumption).
                 rewrite F2 in H. destruct H.
           ++ exists (i, c). split; [left; reflexivity|]. split; [reflexivity|]. split; [cbn [snd]; apply Z.eqb_neq; exact Ec|exact Ein].
      * (* wholly inside: go on *)
        specialize (IH i (acc + c) Hinc).
        destruct (scan_side s T l (acc + c)) as [z [T2|]].
        -- destruct IH as (A & B & C & D). split; [exact A|].
           assert (Ein2 : inside s T2 (i, c) = true).
           { unfold inside in *. cbn [fst] in *. destruct T, T2; thr_cases. }
           cbn [filter]. rewrite Ein2. cbn [sumc fold_right snd]. fold (sumc (filter (inside s T2) l)).
           split; [lia|]. split.
           ++ intros b [<-|Hb] Hi Hu; [|apply C; assumption].
              cbn [fst] in Hu. exfalso. destruct T, T2; thr_cases.
           ++ destruct D as [b [Hb Hb2]]. exists b. split; [right; exact Hb|exact Hb2].
        -- destruct IH as (A & B). cbn [filter]. rewrite Ein. cbn [sumc fold_right snd].
           fold (sumc (filter (inside s T) l)). split; [lia|].
           intros b [<-|Hb] Hi Hu; [|apply B; assumption].
           cbn [fst] in Hu. exfalso. destruct T; thr_cases.
Qed.

Definition absorbed_sum (s : Z) (T : thr) (l : list (Z * Z)) : Z := sumc (filter (inside s T) l).

Lemma increasing_inc_from (l : list (Z * Z)) : increasing l -> exists lo, inc_from lo l.
Proof.
  destruct l as [|b l]; intro H; [exists 0; exact I|].
  exists (fst b - 1). split; [lia|exact H].
Qed.

Lemma thr_leb_refl T : thr_leb T T = true.
Proof. destruct T; thr_cases. Qed.
Lemma thr_lt_le_trans a b c : thr_ltb a b = true -> thr_leb b c = true -> thr_leb a c = true.
Proof. destruct a, b, c; thr_cases. Qed.
Lemma thr_le_lt_le_trans a b c : thr_leb a b = true -> thr_ltb b c = true -> thr_leb c c = true -> thr_leb a c = true.
Proof. destruct a, b, c; thr_cases. Qed.
Lemma thr_leb_trans a b c : thr_leb a b = true -> thr_leb b c = true -> thr_leb a c = true.
Proof. destruct a, b, c; thr_cases. Qed.
Lemma thr_ltb_leb a b : thr_ltb a b = true -> thr_leb a b = true.
Proof. destruct a, b; thr_cases. Qed.
Lemma thr_le_lt_trans a b c : thr_leb a b = true -> thr_ltb b c = true -> thr_ltb a c = true.
Proof. destruct a, b, c; thr_cases. Qed.
Lemma thr_lt_le_lt a b c : thr_ltb a b = true -> thr_leb b c = true -> thr_ltb a c = true.
Proof. destruct a, b, c; thr_cases. Qed.

(* zeroCountForLargerThreshold, slow path: the returned threshold T' is >= the requested one,
   cuts no populated bucket, and the returned zero count is the old zero count plus exactly the
   buckets (of both sides) lying below T' *)
Lemma zcflt_loop_spec fuel : forall h T z T', schema h <= 8 -> increasing (pos h) -> increasing (neg h) ->
  zcflt_loop fuel h T = Ok (z, T') ->
  thr_leb T T' = true /\
  z = zc h + absorbed_sum (schema h) T' (pos h) + absorbed_sum (schema h) T' (neg h) /\
  nocut (schema h) T' (pos h) /\ nocut (schema h) T' (neg h) /\
  (T' = T \/ (thr_ltb T T' = true /\ exists b, In b (pos h ++ neg h) /\ snd b <> 0 /\
                inside (schema h) T b = true /\ thr_ltb T (upper (fst b) (schema h)) = true)).
Proof.
  induction fuel as [|fuel IH]; intros h T z T' Hs Hp Hn H; cbn [zcflt_loop] in H; [discriminate|].
  destruct (increasing_inc_from _ Hp) as [lop Hlop]. destruct (increasing_inc_from _ Hn) as [lon Hlon].
  pose proof (scan_side_spec (schema h) T Hs (pos h) lop (zc h) Hlop) as SP.
  destruct (scan_side (schema h) T (pos h) (zc h)) as [z1 adj1].
  set (T1 := match adj1 with Some t => t | None => T end) in *.
  pose proof (scan_side_spec (schema h) T1 Hs (neg h) lon z1 Hlon) as SN.
  destruct (scan_side (schema h) T1 (neg h) z1) as [z2 adj2].
  assert (HT1 : thr_leb T T1 = true /\ z1 = zc h + absorbed_sum (schema h) T1 (pos h) /\ nocut (schema h) T1 (pos h) /\
                (T1 = T \/ (thr_ltb T T1 = true /\ exists b, In b (pos h) /\ snd b <> 0 /\
                              inside (schema h) T b = true /\ thr_ltb T (upper (fst b) (schema h)) = true))).
  { subst T1. destruct adj1 as [t1|].
    - destruct SP as (A & B & C & [b (D1 & D2 & D3 & D4)]). repeat split; [apply thr_ltb_leb; exact A|exact B|exact C|].
      right. split; [exact A|]. exists b. rewrite <- D2. repeat split; assumption.
    - destruct SP as (A & B). repeat split; [apply thr_leb_refl|exact A|exact B|left; reflexivity]. }
  destruct HT1 as (L1 & Z1 & C1 & O1).
  destruct adj2 as [t2|].
  - destruct SN as (A & _ & _ & [b2 (D1 & D2 & D3 & D4)]). destruct (IH h t2 z T' Hs Hp Hn H) as (L & Z & CP & CN & O).
    assert (LT : thr_ltb T T' = true).
    { apply (thr_le_lt_trans T T1 T' L1). apply (thr_lt_le_lt T1 t2 T' A L). }
    split; [apply thr_ltb_leb; exact LT|split; [exact Z|split; [exact CP|split; [exact CN|]]]].
    right. split; [exact LT|].
    destruct O1 as [E1|(_ & [b (Hb & Hz & Hi & Hu)])].
    + exists b2. rewrite E1 in *. rewrite <- D2. repeat split; try assumption. apply in_or_app; right; exact D1.
    + exists b. repeat split; try assumption. apply in_or_app; left; exact Hb.
  - destruct SN as (A & B). inversion H; subst z T'. clear H.
    split; [exact L1|]. split; [unfold absorbed_sum in *; lia|]. split; [exact C1|]. split; [exact B|].
    destruct O1 as [->|(LT & [b (Hb & Hz & Hi & Hu)])]; [left; reflexivity|].
    right. split; [exact LT|]. exists b. repeat split; try assumption. apply in_or_app; left; exact Hb.
Qed.

Lemma zcflt_spec h T z T' : schema h <= 8 -> increasing (pos h) -> increasing (neg h) ->
  zcflt h T = Ok (z, T') ->
  (thr_eqb T (zt h) = true /\ z = zc h /\ T' = T) \/
  (thr_ltb (zt h) T = true /\ thr_leb T T' = true /\
   z = zc h + absorbed_sum (schema h) T' (pos h) + absorbed_sum (schema h) T' (neg h) /\
   nocut (schema h) T' (pos h) /\ nocut (schema h) T' (neg h) /\
   (T' = T \/ (thr_ltb T T' = true /\ exists b, In b (pos h ++ neg h) /\ snd b <> 0 /\
                 inside (schema h) T b = true /\ thr_ltb T (upper (fst b) (schema h)) = true))).
Proof.
  intros Hs Hp Hn H. unfold zcflt in H.
  destruct (thr_eqb T (zt h)) eqn:E1.
  - left. inversion H; subst. repeat split. 
  - destruct (thr_ltb T (zt h)) eqn:E2; [discriminate|].
    right. split; [destruct T, (zt h); thr_cases|].
    apply (zcflt_loop_spec _ h T z T' Hs Hp Hn H).
Qed.

(* ======================= reconcileZeroBuckets ======================= *)


Definition outsideb (s : Z) (T : thr) (b : Z * Z) : bool := negb (inside s T b).

Lemma thr_eqb_eq a b : thr_eqb a b = true -> a = b.
Proof. destruct a, b; cbn; try discriminate; [reflexivity|]. intro H. apply Z.eqb_eq in H. congruence. Qed.
Lemma thr_eqb_refl a : thr_eqb a a = true.
Proof. destruct a; cbn; [reflexivity|apply Z.eqb_refl]. Qed.

Lemma fill0_id (l : list (Z * Z)) : fill 0 l = l.
Proof.
  induction l as [|b l IH]; [reflexivity|]. cbn [fill]. rewrite IH.
  destruct l as [|b' l']; [reflexivity|].
  replace ((0 <? fst b' - fst b - 1) && (fst b' - fst b - 1 <=? 0)) with false; [reflexivity|].
  symmetry. apply andb_false_iff. destruct (0 <? fst b' - fst b - 1) eqn:E; [right|left; reflexivity].
  apply Z.ltb_lt in E. apply Z.leb_gt. lia.
Qed.

Lemma filter_outside_all s T i (l : list (Z * Z)) : s <= 8 -> inc_from i l -> thr_leb T (TC (bcode i s)) = true ->
  filter (outsideb s T) l = l.
Proof.
  intros Hs. revert i; induction l as [|b l IH]; intros i H HT; [reflexivity|].
  destruct H as [H1 H2]. cbn [filter].
  assert (E : filter (inside s T) (b :: l) = []) by (apply (filter_inside_nil s T i); [exact Hs|split; assumption|exact HT]).
  cbn [filter] in E. unfold outsideb. destruct (inside s T b); [discriminate|]. cbn [negb]. f_equal.
  apply (IH (fst b)); [exact H2|].
  pose proof (bcode_le s i (fst b) Hs ltac:(lia)). destruct T; thr_cases.
Qed.

Lemma trim_compact s T : s <= 8 -> forall (l : list (Z * Z)) lo, inc_from lo l ->
  compact_abs 0 (trim_side s T l) = filter nonzero (filter (outsideb s T) l).
Proof.
  intros Hs. unfold compact_abs. induction l as [|[i c] l IH]; intros lo H; [reflexivity|].
  destruct H as [Hlo H]. cbn [fst] in *. rewrite fill0_id. cbn [trim_side].
  destruct (thr_leb T (lower i s)) eqn:E.
  - rewrite (filter_outside_all s T (i - 1) ((i, c) :: l) Hs); [reflexivity| split; [cbn; lia|exact H] | exact E].
  - cbn [filter]. unfold nonzero at 1. cbn [snd Z.eqb negb].
    assert (Ei : outsideb s T (i, c) = false).
    { unfold outsideb, inside. cbn [fst]. destruct T; thr_cases. }
    rewrite Ei. specialize (IH i H). rewrite fill0_id in IH. exact IH.
Qed.

Definition widened (h0 : fh) (T : thr) : fh :=
  mkH (hint h0) (schema h0) T
      (zc h0 + absorbed_sum (schema h0) T (pos h0) + absorbed_sum (schema h0) T (neg h0))
      (cnt h0) (sum h0)
      (filter nonzero (filter (outsideb (schema h0) T) (pos h0)))
      (filter nonzero (filter (outsideb (schema h0) T) (neg h0))) (cv h0).

Lemma inside_mono s T1 T2 b : thr_leb T1 T2 = true -> inside s T1 b = true -> inside s T2 b = true.
Proof. unfold inside. destruct T1, T2; thr_cases. Qed.

Lemma sumc_cons (b : Z * Z) l : sumc (b :: l) = snd b + sumc l.
Proof. reflexivity. Qed.

Lemma absorbed_additive s T1 T2 (l : list (Z * Z)) : thr_leb T1 T2 = true ->
  absorbed_sum s T1 l + absorbed_sum s T2 (filter nonzero (filter (outsideb s T1) l)) = absorbed_sum s T2 l.
Proof.
  intro HT. unfold absorbed_sum. induction l as [|b l IH]; [reflexivity|].
  cbn [filter]. unfold outsideb at 1. destruct (inside s T1 b) eqn:E1; cbn [negb].
  - rewrite (inside_mono s T1 T2 b HT E1). rewrite ?sumc_cons; lia.
  - cbn [filter]. unfold nonzero at 1. destruct (snd b =? 0) eqn:Ez; cbn [negb].
    + apply Z.eqb_eq in Ez. destruct (inside s T2 b); rewrite ?sumc_cons; lia.
    + cbn [filter]. destruct (inside s T2 b); rewrite ?sumc_cons; lia.
Qed.

Lemma filter_twice s T1 T2 (l : list (Z * Z)) : thr_leb T1 T2 = true ->
  filter nonzero (filter (outsideb s T2) (filter nonzero (filter (outsideb s T1) l))) =
  filter nonzero (filter (outsideb s T2) l).
Proof.
  intro HT. unfold outsideb. induction l as [|b l IH]; [reflexivity|].
  pose proof (inside_mono s T1 T2 b HT) as M.
  cbn [filter]. destruct (inside s T1 b) eqn:E1; cbn [negb filter].
  - rewrite (M eq_refl). cbn [negb]. exact IH.
  - destruct (nonzero b) eqn:Ez; cbn [filter].
    + destruct (inside s T2 b) eqn:E2; cbn [negb filter]; [exact IH|]. rewrite Ez. f_equal. exact IH.
    + destruct (inside s T2 b) eqn:E2; cbn [negb filter]; [exact IH|]. rewrite Ez. exact IH.
Qed.

Lemma inc_from_filter (f : Z * Z -> bool) lo (l : list (Z * Z)) : inc_from lo l -> inc_from lo (filter f l).
Proof.
  revert lo; induction l as [|b l IH]; intros lo H; [exact I|].
  destruct H as [H1 H2]. cbn [filter]. destruct (f b).
  - split; [exact H1|apply IH; exact H2].
  - apply (inc_from_weaken (fst b)); [lia|apply IH; exact H2].
Qed.
Lemma increasing_filter (f : Z * Z -> bool) (l : list (Z * Z)) : increasing l -> increasing (filter f l).
Proof.
  intro H. destruct (increasing_inc_from l H) as [lo Hlo].
  pose proof (inc_from_filter f lo l Hlo) as H'.
  destruct (filter f l) as [|b r]; [exact I|]. destruct H'. assumption.
Qed.

(* invariants of the reconcileZeroBuckets loop, relative to the original receiver h0 / other o *)
Definition Ih (h0 hc : fh) : Prop :=
  hc = h0 \/
  (thr_ltb (zt h0) (zt hc) = true /\ hc = widened h0 (zt hc) /\
   nocut (schema h0) (zt hc) (pos h0) /\ nocut (schema h0) (zt hc) (neg h0)).
Definition Io (o : fh) (oz : Z) (ot : thr) : Prop :=
  (ot = zt o /\ oz = zc o) \/
  (thr_ltb (zt o) ot = true /\
   oz = zc o + absorbed_sum (schema o) ot (pos o) + absorbed_sum (schema o) ot (neg o) /\
   nocut (schema o) ot (pos o) /\ nocut (schema o) ot (neg o)).

Lemma Ih_basic h0 hc : Ih h0 hc -> increasing (pos h0) -> increasing (neg h0) ->
  schema hc = schema h0 /\ increasing (pos hc) /\ increasing (neg hc) /\ thr_leb (zt h0) (zt hc) = true.
Proof.
  intros [->|(L & E & _)] Hp Hn.
  - repeat split; try assumption. apply thr_leb_refl.
  - rewrite E. cbn [schema pos neg zt]. repeat split.
    + apply increasing_filter, increasing_filter, Hp.
    + apply increasing_filter, increasing_filter, Hn.
    + apply thr_ltb_leb. exact L.
Qed.

Lemma nocut_widen s T1 T2 (l : list (Z * Z)) : thr_leb T1 T2 = true ->
  nocut s T1 l -> nocut s T2 (filter nonzero (filter (outsideb s T1) l)) -> nocut s T2 l.
Proof.
  intros HT N1 N2 b Hb Hi Hu.
  destruct (snd b =? 0) eqn:Ez; [apply Z.eqb_eq; exact Ez|].
  destruct (inside s T1 b) eqn:E1.
  - (* below T1: not cut by T1, so its upper bound is <= T1 <= T2 *)
    destruct (thr_ltb T1 (upper (fst b) s)) eqn:E2.
    + apply (N1 b Hb E1 E2).
    + exfalso. destruct T1, T2; thr_cases.
  - apply (N2 b); [|exact Hi|exact Hu].
    apply filter_In. split; [apply filter_In; split; [exact Hb|unfold outsideb; rewrite E1; reflexivity]|].
    unfold nonzero. rewrite Ez. reflexivity.
Qed.

Lemma widen_step h0 hc hz ht T1 : increasing (pos h0) -> increasing (neg h0) -> schema h0 <= 8 ->
  Ih h0 hc -> thr_ltb (zt hc) T1 = true -> zcflt hc T1 = Ok (hz, ht) ->
  Ih h0 (trim (set_zero hc hz ht)) /\ thr_leb T1 ht = true /\ zt (trim (set_zero hc hz ht)) = ht.
Proof.
  intros Hp Hn Hs I0 HT Hz.
  destruct (Ih_basic h0 hc I0 Hp Hn) as (Es & Hpc & Hnc & L0).
  destruct (zcflt_spec hc T1 hz ht ltac:(lia) Hpc Hnc Hz) as [(E & _)|(L1 & L2 & Z & C1 & C2 & _)].
  { exfalso. apply thr_eqb_eq in E. subst T1. destruct (zt hc); thr_cases. }
  split; [|split; [exact L2|reflexivity]].
  right. cbn [trim set_zero zt schema pos neg zc hint cnt sum cv]. unfold trim, set_zero. cbn [zt schema pos neg zc hint cnt sum cv].
  destruct (increasing_inc_from _ Hpc) as [lop Hlop]. destruct (increasing_inc_from _ Hnc) as [lon Hlon].
  rewrite (trim_compact (schema hc) ht ltac:(lia) (pos hc) lop Hlop).
  rewrite (trim_compact (schema hc) ht ltac:(lia) (neg hc) lon Hlon).
  assert (Lh : thr_leb (zt hc) ht = true) by (apply (thr_leb_trans _ T1); [apply thr_ltb_leb; exact HT|exact L2]).
  destruct I0 as [->|(L & E & N1 & N2)].
  - split; [destruct (zt h0), T1, ht; thr_cases|]. split; [|split; assumption].
    unfold widened. rewrite Z. reflexivity.
  - split; [destruct (zt h0), (zt hc), ht; thr_cases|].
    rewrite Es in *. split; [|split].
    + unfold widened. rewrite Z.
      pose proof (f_equal hint E) as Eh. pose proof (f_equal cnt E) as Ec. pose proof (f_equal sum E) as Esum.
      pose proof (f_equal cv E) as Ecv. pose proof (f_equal zc E) as Ezc.
      pose proof (f_equal pos E) as Ep. pose proof (f_equal neg E) as En.
      unfold widened in Eh, Ec, Esum, Ecv, Ezc, Ep, En. cbn [hint cnt sum cv zc pos neg] in Eh, Ec, Esum, Ecv, Ezc, Ep, En.
      rewrite Eh, Ec, Esum, Ecv, Ezc, Ep, En.
      rewrite !filter_twice by exact Lh.
      f_equal.
      pose proof (absorbed_additive (schema h0) (zt hc) ht (pos h0) Lh).
      pose proof (absorbed_additive (schema h0) (zt hc) ht (neg h0) Lh). lia.
    + apply (nocut_widen _ (zt hc) ht _ Lh N1). pose proof (f_equal pos E) as Ep. unfold widened in Ep. cbn [pos] in Ep. rewrite <- Ep. exact C1.
    + apply (nocut_widen _ (zt hc) ht _ Lh N2). pose proof (f_equal neg E) as En. unfold widened in En. cbn [neg] in En. rewrite <- En. exact C2.
Qed.


Lemma reconcile_loop_spec h0 o :
  increasing (pos h0) -> increasing (neg h0) -> increasing (pos o) -> increasing (neg o) ->
  schema h0 <= 8 -> schema o <= 8 ->
  forall fuel hc oz ot h1 ozf, Ih h0 hc -> Io o oz ot ->
  reconcile_loop fuel hc o oz ot = Ok (h1, ozf) -> Ih h0 h1 /\ Io o ozf (zt h1).
Proof.
  intros Hp Hn Hpo Hno Hs Hso. induction fuel as [|fuel IH]; intros hc oz ot h1 ozf I1 I2 H;
    cbn [reconcile_loop] in H; destruct (thr_eqb ot (zt hc)) eqn:E.
  - inversion H; subst. apply thr_eqb_eq in E. subst ot. split; assumption.
  - discriminate.
  - inversion H; subst. apply thr_eqb_eq in E. subst ot. split; assumption.
  - set (r := if thr_ltb ot (zt hc) then zcflt o (zt hc) else Ok (oz, ot)) in H.
    assert (R : forall oz1 ot1, r = Ok (oz1, ot1) -> Io o oz1 ot1).
    { intros oz1 ot1 Hr. subst r. destruct (thr_ltb ot (zt hc)) eqn:L.
      - destruct (zcflt_spec o (zt hc) oz1 ot1 Hso Hpo Hno Hr) as [(A & B & C)|(A & B & C & D & F & _)].
        + left. apply thr_eqb_eq in A. split; congruence.
        + right. split; [apply (thr_lt_le_lt _ (zt hc)); assumption|]. split; [exact C|split; assumption].
      - inversion Hr; subst. exact I2. }
    destruct r as [[oz1 ot1]|e]; [|discriminate].
    specialize (R oz1 ot1 eq_refl).
    destruct (thr_ltb (zt hc) ot1) eqn:L2.
    + destruct (zcflt hc ot1) as [[hz ht]|e] eqn:Ez; [|discriminate].
      destruct (widen_step h0 hc hz ht ot1 Hp Hn Hs I1 L2 Ez) as (I1' & _ & _).
      apply (IH _ _ _ _ _ I1' R H).
    + apply (IH _ _ _ _ _ I1 R H).
Qed.

(* reconcileZeroBuckets: the common threshold T' is >= both thresholds; a histogram whose zero
   bucket had to grow has exactly the buckets below T' moved into its zero count, and T' cuts
   none of its populated buckets. *)
Lemma reconcile_spec h o h1 oz :
  increasing (pos h) -> increasing (neg h) -> increasing (pos o) -> increasing (neg o) ->
  schema h <= 8 -> schema o <= 8 ->
  reconcile h o = Ok (h1, oz) -> Ih h h1 /\ Io o oz (zt h1).
Proof.
  intros Hp Hn Hpo Hno Hs Hso H. unfold reconcile in H.
  eapply (reconcile_loop_spec h o Hp Hn Hpo Hno Hs Hso); [left; reflexivity| left; split; reflexivity | exact H].
Qed.

(* ======================= Add/Sub/KahanAdd: receiver side and other side ======================= *)


(* what stays in regular buckets / what moves into the zero bucket when the zero bucket of a
   histogram with threshold zt0 is (possibly) widened to T *)
Definition kept_at (s : Z) (zt0 T : thr) (l : list (Z * Z)) : list (Z * Z) :=
  if thr_eqb T zt0 then l else filter (outsideb s T) l.
Definition absorbed_at (x : fh) (T : thr) : Z :=
  if thr_eqb T (zt x) then 0
  else absorbed_sum (schema x) T (pos x) + absorbed_sum (schema x) T (neg x).

Lemma total_retarget_filter_nonzero k (l : list (Z * Z)) t :
  total (retarget k (filter nonzero l)) t = total (retarget k l) t.
Proof.
  induction l as [|b l IH]; [reflexivity|]. cbn [filter]. unfold nonzero at 1.
  destruct (snd b =? 0) eqn:E; cbn [negb retarget map total fst snd]; fold (retarget k l);
    fold (retarget k (filter nonzero l)); rewrite IH; [|reflexivity].
  apply Z.eqb_eq in E. destruct (target_idx (fst b) k =? t); lia.
Qed.

Lemma thr_ltb_neq a b : thr_ltb a b = true -> thr_eqb b a = false.
Proof. destruct a, b; thr_cases. Qed.

(* Add/Sub/KahanAdd on exponential histograms, everything except the buckets of `other` *)
Lemma arith_receiver_side sgn h o r :
  is_custom (schema h) = false -> is_custom (schema o) = false ->
  schema h <= 8 -> schema o <= 8 ->
  increasing (pos h) -> increasing (neg h) -> increasing (pos o) -> increasing (neg o) ->
  arith sgn h o = Ok r ->
  let R := ao_h r in let T' := zt R in let s' := Z.min (schema h) (schema o) in
  schema R = s' /\ thr_leb (zt h) T' = true /\ thr_leb (zt o) T' = true /\
  cnt R = cnt h + sgn * cnt o /\ sum R = sum h + sgn * sum o /\
  zc R = zc h + absorbed_at h T' + sgn * (zc o + absorbed_at o T') /\
  (thr_eqb T' (zt h) = false -> nocut (schema h) T' (pos h) /\ nocut (schema h) T' (neg h)) /\
  (thr_eqb T' (zt o) = false -> nocut (schema o) T' (pos o) /\ nocut (schema o) T' (neg o)) /\
  (forall t, total (pos R) t =
             total (retarget (schema h - s') (kept_at (schema h) (zt h) T' (pos h))) t +
             sgn * total (drop_below s' T' (reduced_to s' (schema o) (pos o))) t) /\
  (forall t, total (neg R) t =
             total (retarget (schema h - s') (kept_at (schema h) (zt h) T' (neg h))) t +
             sgn * total (drop_below s' T' (reduced_to s' (schema o) (neg o))) t).
Proof.
  intros Hh Ho Hs Hso Hp Hn Hpo Hno H. unfold arith in H. rewrite Hh, Ho in H. cbn [xorb] in H.
  destruct (adjust_hint (hint h) (hint o)) as [hint' coll].
  destruct (reconcile h o) as [[h1 oz]|e] eqn:Er; [|discriminate].
  destruct (reconcile_spec h o h1 oz Hp Hn Hpo Hno Hs Hso Er) as [I1 I2].
  destruct (Ih_basic h h1 I1 Hp Hn) as (Es & Hp1 & Hn1 & L1).
  inversion H; subst r; clear H. cbn [ao_h schema zt zc cnt sum pos neg].
  split; [reflexivity|]. split; [exact L1|].
  assert (Lo : thr_leb (zt o) (zt h1) = true).
  { destruct I2 as [(A & _)|(A & _)]; [rewrite A; apply thr_leb_refl|apply thr_ltb_leb; exact A]. }
  split; [exact Lo|]. split; [reflexivity|]. split; [reflexivity|].
  assert (Zh : zc h1 = zc h + absorbed_at h (zt h1)).
  { unfold absorbed_at. destruct I1 as [->|(A & B & _)].
    - rewrite thr_eqb_refl. lia.
    - rewrite (thr_ltb_neq _ _ A). pose proof (f_equal zc B) as E. unfold widened in E. cbn [zc] in E. lia. }
  assert (Zo : oz = zc o + absorbed_at o (zt h1)).
  { unfold absorbed_at. destruct I2 as [(A & B)|(A & B & _)].
    - rewrite A, thr_eqb_refl. lia.
    - rewrite (thr_ltb_neq _ _ A). lia. }
  split; [lia|].
  split.
  { intro E. destruct I1 as [->|(_ & _ & C & D)]; [rewrite thr_eqb_refl in E; discriminate|split; assumption]. }
  split.
  { intro E. destruct I2 as [(A & _)|(_ & _ & C & D)]; [rewrite A, thr_eqb_refl in E; discriminate|split; assumption]. }
  assert (KP : forall sel : fh -> list (Z * Z), (sel = pos \/ sel = neg) -> forall t,
             total (retarget (schema h - Z.min (schema h) (schema o)) (sel h1)) t =
             total (retarget (schema h - Z.min (schema h) (schema o)) (kept_at (schema h) (zt h) (zt h1) (sel h))) t).
  { intros sel Hsel t. unfold kept_at. destruct I1 as [->|(A & B & _)].
    - rewrite thr_eqb_refl. reflexivity.
    - rewrite (thr_ltb_neq _ _ A).
      destruct Hsel as [->| ->].
      + pose proof (f_equal pos B) as E. unfold widened in E. cbn [pos] in E. rewrite E.
        apply total_retarget_filter_nonzero.
      + pose proof (f_equal neg B) as E. unfold widened in E. cbn [neg] in E. rewrite E.
        apply total_retarget_filter_nonzero. }
  split; intro t; rewrite total_merge_add.
  - fold (reduced_to (Z.min (schema h) (schema o)) (schema h) (pos h1)).
    fold (reduced_to (Z.min (schema h) (schema o)) (schema o) (pos o)).
    rewrite reduced_to_total by (try assumption; lia). rewrite (KP pos (or_introl eq_refl)). reflexivity.
  - fold (reduced_to (Z.min (schema h) (schema o)) (schema h) (neg h1)).
    fold (reduced_to (Z.min (schema h) (schema o)) (schema o) (neg o)).
    rewrite reduced_to_total by (try assumption; lia). rewrite (KP neg (or_intror eq_refl)). reflexivity.
Qed.

Lemma upper_target_le so s' i : s' <= so -> so <= 8 -> bcode i so <= bcode (target_idx i (so - s')) s'.
Proof.
  intros H1 H2. rewrite !bcode_eq by lia. unfold target_idx. rewrite Z.shiftr_div_pow2 by lia.
  replace (8 - s') with ((so - s') + (8 - so)) by lia. rewrite Z.pow_add_r by lia.
  pose proof (Z.pow_pos_nonneg 2 (so - s') ltac:(lia) ltac:(lia)) as Pk.
  pose proof (Z.pow_pos_nonneg 2 (8 - so) ltac:(lia) ltac:(lia)) as Pm.
  pose proof (Z.div_mod (i - 1) (2 ^ (so - s')) ltac:(lia)) as D.
  pose proof (Z.mod_pos_bound (i - 1) (2 ^ (so - s')) Pk) as M.
  set (q := (i - 1) / 2 ^ (so - s')) in *. set (m := 2 ^ (so - s')) in *. set (w := 2 ^ (8 - so)) in *.
  assert (i <= (q + 1) * m) by nia. nia.
Qed.

Lemma bound_le_mono s T i j : s <= 8 -> i <= j -> bound_le j s T = true -> bound_le i s T = true.
Proof.
  intros Hs Hij H. unfold bound_le in *. pose proof (bcode_le s i j Hs Hij). destruct T; thr_cases.
Qed.

Lemma dropwhile_total s T : s <= 8 -> forall (l : list (Z * Z)) lo t, inc_from lo l ->
  total (dropwhile (fun b => bound_le (fst b) s T) l) t = if bound_le t s T then 0 else total l t.
Proof.
  intros Hs. induction l as [|b l IH]; intros lo t H; [cbn; destruct (bound_le t s T); reflexivity|].
  destruct H as [H1 H2]. cbn [dropwhile]. destruct (bound_le (fst b) s T) eqn:Pb.
  - rewrite (IH (fst b) t H2). destruct (bound_le t s T) eqn:Pt; [reflexivity|].
    cbn [total]. destruct (fst b =? t) eqn:E; [|reflexivity]. apply Z.eqb_eq in E. congruence.
  - destruct (bound_le t s T) eqn:Pt; [|reflexivity].
    assert (t < fst b).
    { destruct (Z_lt_le_dec t (fst b)) as [|Hge]; [assumption|].
      rewrite (bound_le_mono s T (fst b) t Hs Hge Pt) in Pb. discriminate. }
    apply (total_above t (fst b - 1) (b :: l)); [split; [lia|exact H2]|lia].
Qed.

Lemma drop_below_total s T (l : list (Z * Z)) t : is_exp s = true -> increasing l ->
  total (drop_below s T l) t = if bound_le t s T then 0 else total l t.
Proof.
  intros He Hi. unfold drop_below. rewrite He.
  assert (s <= 8) by (unfold is_exp in He; apply andb_true_iff in He; destruct He as [_ He]; apply Z.leb_le in He; exact He).
  destruct (increasing_inc_from l Hi) as [lo Hlo]. apply (dropwhile_total s T H l lo t Hlo).
Qed.

(* per-bucket side conditions on `other` (schema so, own threshold zt0) for the common threshold
   T' and result schema s':
   - wf:    if its zero bucket is not widened, a bucket wholly inside it is empty;
   - nocut: if it is widened, T' cuts no populated bucket (guaranteed by reconcileZeroBuckets);
   - ndc:   a populated bucket wholly inside [-T',T'] merges into a bucket of schema s' that is
            wholly inside too — this excludes exactly the double-count configuration. *)
Definition other_ok (so s' : Z) (zt0 T' : thr) (b : Z * Z) : Prop :=
  (thr_eqb T' zt0 = true -> thr_leb (upper (fst b) so) T' = true -> snd b = 0) /\
  (thr_eqb T' zt0 = false -> inside so T' b = true -> thr_ltb T' (upper (fst b) so) = true -> snd b = 0) /\
  (snd b <> 0 -> thr_leb (upper (fst b) so) T' = true ->
   bound_le (target_idx (fst b) (so - s')) s' T' = true).

Lemma other_side so s' zt0 T' (l : list (Z * Z)) t : s' <= so -> so <= 8 ->
  (forall b, In b l -> other_ok so s' zt0 T' b) ->
  total (retarget (so - s') (kept_at so zt0 T' l)) t =
  if bound_le t s' T' then 0 else total (retarget (so - s') l) t.
Proof.
  intros H1 H2. unfold kept_at. induction l as [|b l IH]; intro Hall.
  - destruct (thr_eqb T' zt0); cbn; destruct (bound_le t s' T'); reflexivity.
  - assert (IH' := IH (fun x Hx => Hall x (or_intror Hx))). clear IH.
    destruct (Hall b (or_introl eq_refl)) as (W & N & D).
    pose proof (upper_target_le so s' (fst b) H1 H2) as U.
    destruct (thr_eqb T' zt0) eqn:Eq.
    + cbn [retarget map total fst snd]. fold (retarget (so - s') l).
      destruct (bound_le t s' T') eqn:Pt.
      * rewrite IH'. destruct (target_idx (fst b) (so - s') =? t) eqn:Et; [|reflexivity].
        apply Z.eqb_eq in Et. rewrite W; [lia|reflexivity|]. subst t. unfold bound_le in Pt. destruct T'; thr_cases.
      * reflexivity.
    + cbn [filter]. unfold outsideb at 1. destruct (inside so T' b) eqn:Ei; cbn [negb].
      * rewrite IH'. cbn [retarget map total fst snd]. fold (retarget (so - s') l).
        destruct (target_idx (fst b) (so - s') =? t) eqn:Et; [|reflexivity].
        apply Z.eqb_eq in Et. destruct (bound_le t s' T') eqn:Pt; [reflexivity|].
        destruct (Z.eq_dec (snd b) 0) as [Ez|Ez]; [lia|]. exfalso.
        destruct (thr_ltb T' (upper (fst b) so)) eqn:Ec.
        -- apply Ez. apply N; reflexivity.
        -- assert (thr_leb (upper (fst b) so) T' = true) by (destruct T'; thr_cases).
           specialize (D Ez H). subst t. congruence.
      * cbn [retarget map total fst snd]. fold (retarget (so - s') l).
        fold (retarget (so - s') (filter (outsideb so T') l)). rewrite IH'.
        destruct (target_idx (fst b) (so - s') =? t) eqn:Et; [|reflexivity].
        apply Z.eqb_eq in Et. destruct (bound_le t s' T') eqn:Pt; [|reflexivity].
        exfalso. subst t. unfold bound_le, inside in *.
        pose proof (bcode_lt so (fst b - 1) (fst b) H2 ltac:(lia)). destruct T'; thr_cases.
Qed.

Lemma reduced_to_increasing s' s (l : list (Z * Z)) : s' <= s -> increasing l -> increasing (reduced_to s' s l).
Proof. intros H Hi. unfold reduced_to. destruct (s' <? s); [apply reduce_increasing; [lia|exact Hi]|exact Hi]. Qed.

Lemma other_side_total so s' zt0 T' (l : list (Z * Z)) t :
  s' <= so -> so <= 8 -> is_exp s' = true -> increasing l ->
  (forall b, In b l -> other_ok so s' zt0 T' b) ->
  total (drop_below s' T' (reduced_to s' so l)) t =
  total (retarget (so - s') (kept_at so zt0 T' l)) t.
Proof.
  intros H1 H2 He Hi Hall.
  rewrite drop_below_total by (try assumption; apply reduced_to_increasing; assumption).
  rewrite reduced_to_total by assumption. symmetry. apply other_side; assumption.
Qed.

(* ======================= Add/Sub/KahanAdd: the general theorem ======================= *)


Lemma is_exp_facts s : is_exp s = true -> is_custom s = false /\ -4 <= s /\ s <= 8.
Proof.
  unfold is_exp, is_custom, customSchema. intro H. apply andb_true_iff in H. destruct H as [A B].
  apply Z.leb_le in A. apply Z.leb_le in B. split; [apply Z.eqb_neq; lia|lia].
Qed.

Lemma is_exp_min a b : is_exp a = true -> is_exp b = true -> is_exp (Z.min a b) = true.
Proof.
  intros Ha Hb. destruct (is_exp_facts a Ha) as (_ & ? & ?). destruct (is_exp_facts b Hb) as (_ & ? & ?).
  unfold is_exp. apply andb_true_iff. split; apply Z.leb_le; lia.
Qed.

(* no populated bucket lies wholly inside the histogram's own zero bucket *)
Definition wf_own (x : fh) : Prop :=
  forall b, In b (pos x ++ neg x) -> thr_leb (upper (fst b) (schema x)) (zt x) = true -> snd b = 0.

(* the configuration of the finding is absent: every populated bucket of `other` that lies wholly
   inside the common zero bucket [-T,T] merges, at the result schema s', into a bucket that lies
   wholly inside it as well *)
Definition no_double_count (o : fh) (s' : Z) (T : thr) : Prop :=
  forall b, In b (pos o ++ neg o) -> snd b <> 0 -> thr_leb (upper (fst b) (schema o)) T = true ->
            bound_le (target_idx (fst b) (schema o - s')) s' T = true.

Theorem arith_general sgn h o r :
  is_exp (schema h) = true -> is_exp (schema o) = true ->
  increasing (pos h) -> increasing (neg h) -> increasing (pos o) -> increasing (neg o) ->
  wf_own o ->
  arith sgn h o = Ok r ->
  let R := ao_h r in let T' := zt R in let s' := Z.min (schema h) (schema o) in
  no_double_count o s' T' ->
  schema R = s' /\ thr_leb (zt h) T' = true /\ thr_leb (zt o) T' = true /\
  cnt R = cnt h + sgn * cnt o /\ sum R = sum h + sgn * sum o /\
  zc R = zc h + absorbed_at h T' + sgn * (zc o + absorbed_at o T') /\
  (thr_eqb T' (zt h) = false -> nocut (schema h) T' (pos h) /\ nocut (schema h) T' (neg h)) /\
  (thr_eqb T' (zt o) = false -> nocut (schema o) T' (pos o) /\ nocut (schema o) T' (neg o)) /\
  (forall t, total (pos R) t =
             total (retarget (schema h - s') (kept_at (schema h) (zt h) T' (pos h))) t +
             sgn * total (retarget (schema o - s') (kept_at (schema o) (zt o) T' (pos o))) t) /\
  (forall t, total (neg R) t =
             total (retarget (schema h - s') (kept_at (schema h) (zt h) T' (neg h))) t +
             sgn * total (retarget (schema o - s') (kept_at (schema o) (zt o) T' (neg o))) t).
Proof.
  intros Eh Eo Hp Hn Hpo Hno Wo H R T' s' ND.
  destruct (is_exp_facts _ Eh) as (Ch & Lh & Uh). destruct (is_exp_facts _ Eo) as (Co & Lo & Uo).
  pose proof (arith_receiver_side sgn h o r Ch Co Uh Uo Hp Hn Hpo Hno H) as G.
  cbv zeta in G. fold R in G. fold T' in G. fold s' in G.
  destruct G as (G1 & G2 & G3 & G4 & G5 & G6 & G7 & G8 & G9 & G10).
  repeat (split; [assumption|]).
  assert (OK : forall sel : fh -> list (Z * Z), (sel = pos \/ sel = neg) ->
               forall b, In b (sel o) -> other_ok (schema o) s' (zt o) T' b).
  { intros sel Hsel b Hb.
    assert (Hin : In b (pos o ++ neg o)) by (apply in_or_app; destruct Hsel as [->| ->]; [left|right]; exact Hb).
    split; [|split].
    - intros E L. apply thr_eqb_eq in E. apply (Wo b Hin). rewrite <- E. exact L.
    - intros E I1 I2. destruct (G8 E) as [N1 N2]. destruct Hsel as [->| ->]; [apply (N1 b Hb I1 I2)|apply (N2 b Hb I1 I2)].
    - intros Z1 L. apply (ND b Hin Z1 L). }
  assert (Es : is_exp s' = true) by (apply is_exp_min; assumption).
  split; intro t.
  - rewrite G9. rewrite (other_side_total (schema o) s' (zt o) T' (pos o) t); [reflexivity|subst s'; lia|lia|exact Es|exact Hpo|].
    apply (OK pos); left; reflexivity.
  - rewrite G10. rewrite (other_side_total (schema o) s' (zt o) T' (neg o) t); [reflexivity|subst s'; lia|lia|exact Es|exact Hno|].
    apply (OK neg); right; reflexivity.
Qed.

(* ======================= when no_double_count holds ======================= *)


(* when no_double_count holds for sure *)
Lemma ndc_other_not_higher_res h o T : schema o <= schema h ->
  no_double_count o (Z.min (schema h) (schema o)) T.
Proof.
  intros Hs b _ _ L. rewrite Z.min_r by lia. replace (schema o - schema o) with 0 by lia.
  rewrite target_idx_0. exact L.
Qed.

Lemma ndc_zero_threshold o s' : no_double_count o s' T0.
Proof. intros b _ _ L. cbn in L. discriminate. Qed.

Lemma ndc_threshold_on_grid o s' j : s' <= schema o -> schema o <= 8 ->
  no_double_count o s' (TC (bcode j s')).
Proof.
  intros H1 H2 b _ _ L. unfold bound_le, upper, thr_leb, thr_ltb in *. apply negb_true_iff in L. apply negb_true_iff.
  apply Z.ltb_ge in L. apply Z.ltb_ge.
  set (k := schema o - s') in *. set (i := fst b) in *.
  assert (Hk : 0 <= k) by (subst k; lia).
  (* bcode j s' = bcode (j * 2^k) (schema o) *)
  assert (E : bcode j s' = bcode (j * 2 ^ k) (schema o)).
  { rewrite !bcode_eq by lia. replace (8 - s') with (k + (8 - schema o)) by (subst k; lia).
    rewrite Z.pow_add_r by lia. ring. }
  rewrite E in L.
  assert (Hi : i <= j * 2 ^ k).
  { destruct (Z_le_gt_dec i (j * 2 ^ k)) as [|G]; [assumption|].
    pose proof (bcode_lt (schema o) (j * 2 ^ k) i H2 ltac:(lia)). lia. }
  apply bcode_le; [lia|]. unfold target_idx. rewrite Z.shiftr_div_pow2 by lia.
  pose proof (Z.pow_pos_nonneg 2 k ltac:(lia) Hk) as P.
  assert ((i - 1) / 2 ^ k < j); [|lia].
  apply Z.div_lt_upper_bound; [lia|]. nia.
Qed.

(* ======================= DetectReset: bucket comparison ======================= *)


Definition nonneg (l : list (Z * Z)) : Prop := forall b, In b l -> 0 <= snd b.

Lemma total_nonneg (l : list (Z * Z)) t : nonneg l -> 0 <= total l t.
Proof.
  induction l as [|b l IH]; intro H; [cbn; lia|].
  cbn [total]. pose proof (H b (or_introl eq_refl)). pose proof (IH (fun x Hx => H x (or_intror Hx))).
  destruct (fst b =? t); lia.
Qed.

Lemma nonneg_retarget k l : nonneg l -> nonneg (retarget k l).
Proof.
  intros H b Hb. unfold retarget in Hb. apply in_map_iff in Hb. destruct Hb as [x [<- Hx]]. cbn. apply H. exact Hx.
Qed.
Lemma nonneg_kept s z T l : nonneg l -> nonneg (kept_at s z T l).
Proof.
  intros H b Hb. unfold kept_at in Hb. destruct (thr_eqb T z); [apply H; exact Hb|].
  apply filter_In in Hb. apply H. tauto.
Qed.

Lemma total_nonzero_in (l : list (Z * Z)) t : total l t <> 0 -> exists q, In q l /\ fst q = t.
Proof.
  induction l as [|b l IH]; cbn [total]; [lia|]. destruct (fst b =? t) eqn:E.
  - intros _. exists b. split; [left; reflexivity|apply Z.eqb_eq; exact E].
  - intro H. destruct (IH H) as [q [Hq Hq2]]. exists q. split; [right; exact Hq|exact Hq2].
Qed.

Lemma increasing_tail (b : Z * Z) l : increasing (b :: l) -> increasing l.
Proof. destruct l as [|b' l']; [intros; exact I|]. intros [? ?]. assumption. Qed.

Lemma total_in_increasing (l : list (Z * Z)) q : increasing l -> In q l -> total l (fst q) = snd q.
Proof.
  induction l as [|b l IH]; intros Hi Hq; [destruct Hq|].
  cbn [total]. destruct Hq as [->|Hq].
  - rewrite Z.eqb_refl. rewrite (total_above (fst q) (fst q) l Hi ltac:(lia)). lia.
  - pose proof (increasing_tail b l Hi) as Hi'.
    assert (fst b < fst q).
    { destruct (increasing_inc_from l Hi') as [lo Hlo]. clear IH.
      cbn [increasing] in Hi. revert Hi Hq. generalize (fst b). clear. induction l as [|a l IH]; intros z Hi Hq; [destruct Hq|].
      destruct Hi as [H1 H2]. destruct Hq as [->|Hq]; [exact H1|]. specialize (IH (fst a) H2 Hq). lia. }
    replace (fst b =? fst q) with false by (symmetry; apply Z.eqb_neq; lia). apply IH; assumption.
Qed.

Lemma increasing_dropwhile (f : Z * Z -> bool) l : increasing l -> increasing (dropwhile f l).
Proof.
  induction l as [|b l IH]; intro H; [exact I|]. cbn [dropwhile].
  destruct (f b); [apply IH; apply (increasing_tail b l H)|exact H].
Qed.
Lemma increasing_drop_below s T l : increasing l -> increasing (drop_below s T l).
Proof. intro H. unfold drop_below. destruct (is_exp s); [apply increasing_dropwhile; exact H|exact H]. Qed.

Lemma iter_abs_eq s ts T l : iter_abs s ts T l = drop_below ts T (reduced_to ts s l).
Proof. reflexivity. Qed.

(* detectReset on the two iterators = some bucket count decreased after aligning the previous
   histogram (lower resolution, wider zero bucket) *)
Lemma dr_side sc sp ztp T (lc lp : list (Z * Z)) :
  sc <= sp -> sp <= 8 -> is_exp sc = true ->
  increasing lc -> increasing lp -> nonneg lc -> nonneg lp ->
  (forall b, In b lc -> bound_le (fst b) sc T = true -> snd b = 0) ->
  (forall b, In b lp -> other_ok sp sc ztp T b) ->
  (dr_lists (iter_abs sp sc T lp) (iter_abs sc sc T lc) = true <->
   exists t, total lc t < total (retarget (sp - sc) (kept_at sp ztp T lp)) t).
Proof.
  intros H1 H2 He Hic Hip Nc Np Wc Op.
  rewrite !iter_abs_eq.
  set (PI := drop_below sc T (reduced_to sc sp lp)). set (CI := drop_below sc T (reduced_to sc sc lc)).
  assert (IP : increasing PI) by (apply increasing_drop_below, reduced_to_increasing; assumption).
  assert (Ec : reduced_to sc sc lc = lc) by (unfold reduced_to; rewrite Z.ltb_irrefl; reflexivity).
  assert (IC : increasing CI) by (apply increasing_drop_below; rewrite Ec; assumption).
  assert (tPI : forall t, total PI t = total (retarget (sp - sc) (kept_at sp ztp T lp)) t).
  { intro t. apply other_side_total; assumption. }
  assert (tCI : forall t, total CI t = total lc t).
  { intro t. subst CI. rewrite Ec. unfold drop_below. rewrite He. apply total_dropwhile_zero. exact Wc. }
  assert (NP : forall t, 0 <= total PI t).
  { intro t. rewrite tPI. apply total_nonneg, nonneg_retarget, nonneg_kept. exact Np. }
  rewrite (dr_lists_spec PI CI IP IC), existsb_exists. split.
  - intros [q [Hq Hb]]. exists (fst q).
    pose proof (total_in_increasing PI q IP Hq) as Eq.
    rewrite (bad_decreased CI q IC) in Hb by (rewrite <- Eq; apply NP).
    rewrite orb_false_r in Hb. apply Z.ltb_lt in Hb. rewrite <- tPI, <- tCI, Eq. exact Hb.
  - intros [t Ht]. rewrite <- tPI, <- tCI in Ht.
    assert (0 <= total CI t) by (rewrite tCI; apply total_nonneg; exact Nc).
    destruct (total_nonzero_in PI t ltac:(lia)) as [q [Hq Hq2]]. exists q. split; [exact Hq|].
    pose proof (total_in_increasing PI q IP Hq) as Eq. subst t.
    rewrite (bad_decreased CI q IC) by lia. rewrite orb_false_r. apply Z.ltb_lt. lia.
Qed.

(* ======================= DetectReset: the general theorem ======================= *)


(* the zero threshold T of the current histogram cuts through a populated bucket of p *)
Definition cuts_populated (p : fh) (T : thr) : Prop :=
  thr_eqb T (zt p) = false /\
  exists q, In q (pos p ++ neg p) /\ snd q <> 0 /\ inside (schema p) T q = true /\
            thr_ltb T (upper (fst q) (schema p)) = true.

Lemma wf_own_side x sel : (sel = pos \/ sel = neg) -> wf_own x ->
  forall b, In b (sel x) -> bound_le (fst b) (schema x) (zt x) = true -> snd b = 0.
Proof.
  intros Hsel W b Hb L. apply (W b); [|exact L]. apply in_or_app. destruct Hsel as [->| ->]; [left|right]; exact Hb.
Qed.

Theorem detect_general c p b :
  is_exp (schema c) = true -> is_exp (schema p) = true ->
  increasing (pos c) -> increasing (neg c) -> increasing (pos p) -> increasing (neg p) ->
  nonneg (pos c) -> nonneg (neg c) -> nonneg (pos p) -> nonneg (neg p) ->
  wf_own c -> wf_own p -> hint c <> 1 -> hint c <> 2 ->
  detect_reset c p = Ok b ->
  no_double_count p (schema c) (zt c) ->
  (b = true <->
   cnt c < cnt p \/ schema p < schema c \/ thr_ltb (zt c) (zt p) = true \/
   cuts_populated p (zt c) \/
   zc c < zc p + absorbed_at p (zt c) \/
   (exists t, total (pos c) t <
              total (retarget (schema p - schema c) (kept_at (schema p) (zt p) (zt c) (pos p))) t) \/
   (exists t, total (neg c) t <
              total (retarget (schema p - schema c) (kept_at (schema p) (zt p) (zt c) (neg p))) t)).
Proof.
  intros Ec Ep Ipc Inc Ipp Inp Npc Nnc Npp Nnp Wc Wp H1 H2 H ND.
  destruct (is_exp_facts _ Ec) as (Cc & Lc & Uc). destruct (is_exp_facts _ Ep) as (Cp & Lp & Up).
  unfold detect_reset in H.
  replace (hint c =? 1) with false in H by (symmetry; apply Z.eqb_neq; exact H1).
  replace (hint c =? 2) with false in H by (symmetry; apply Z.eqb_neq; exact H2).
  destruct (cnt c <? cnt p) eqn:E1.
  { inversion H; subst b. apply Z.ltb_lt in E1. split; [intros _; left; exact E1|reflexivity]. }
  apply Z.ltb_ge in E1.
  rewrite Cc in H. cbn [andb] in H.
  destruct (schema p <? schema c) eqn:E2.
  { inversion H; subst b. apply Z.ltb_lt in E2. split; [intros _; right; left; exact E2|reflexivity]. }
  apply Z.ltb_ge in E2.
  destruct (thr_ltb (zt c) (zt p)) eqn:E3.
  { inversion H; subst b. split; [intros _; right; right; left; reflexivity|reflexivity]. }
  destruct (zcflt p (zt c)) as [[pz nt]|e] eqn:Ez; [|discriminate].
  (* what zeroCountForLargerThreshold returned *)
  assert (Z : (nt = zt c /\ pz = zc p + absorbed_at p (zt c) /\ ~ cuts_populated p (zt c) /\
               (thr_eqb (zt c) (zt p) = false -> nocut (schema p) (zt c) (pos p) /\ nocut (schema p) (zt c) (neg p))) \/
              (nt <> zt c /\ cuts_populated p (zt c))).
  { destruct (zcflt_spec p (zt c) pz nt Up Ipp Inp Ez) as [(A & B & C)|(A & B & C & D & F & G)].
    - left. split; [exact C|]. unfold absorbed_at. rewrite A. split; [lia|]. split.
      + intros [X _]. congruence.
      + intro X. congruence.
    - assert (NE : thr_eqb (zt c) (zt p) = false) by (apply thr_ltb_neq; exact A).
      destruct G as [->|(LT & q & Hq)].
      + left. split; [reflexivity|]. unfold absorbed_at. rewrite NE. split; [lia|]. split; [|intros _; split; assumption].
        intros [_ [q (Hq & Hz & Hi & Hu)]]. apply Hz.
        apply in_app_or in Hq. destruct Hq as [Hq|Hq]; [apply (D q Hq Hi Hu)|apply (F q Hq Hi Hu)].
      + right. split; [intro X; rewrite X in LT; destruct (zt c); thr_cases|]. split; [exact NE|exists q; exact Hq]. }
  destruct Z as [(-> & -> & NC & NO)|(NE & CP)].
  2:{ replace (thr_eqb nt (zt c)) with false in H.
      - cbn [negb] in H. inversion H; subst b. split; [intros _; right; right; right; left; exact CP|reflexivity].
      - symmetry. destruct (thr_eqb nt (zt c)) eqn:X; [apply thr_eqb_eq in X; contradiction|reflexivity]. }
  rewrite thr_eqb_refl in H. cbn [negb] in H.
  destruct (zc c <? zc p + absorbed_at p (zt c)) eqn:E4.
  { inversion H; subst b. apply Z.ltb_lt in E4. split; [intros _; do 4 right; left; exact E4|reflexivity]. }
  apply Z.ltb_ge in E4.
  inversion H; subst b; clear H.
  assert (OK : forall sel : fh -> list (Z * Z), (sel = pos \/ sel = neg) ->
               forall q, In q (sel p) -> other_ok (schema p) (schema c) (zt p) (zt c) q).
  { intros sel Hsel q Hq.
    assert (Hin : In q (pos p ++ neg p)) by (apply in_or_app; destruct Hsel as [->| ->]; [left|right]; exact Hq).
    split; [|split].
    - intros E L. apply thr_eqb_eq in E. apply (Wp q Hin). rewrite <- E. exact L.
    - intros E I1 I2. destruct (NO E) as [N1 N2]. destruct Hsel as [->| ->]; [apply (N1 q Hq I1 I2)|apply (N2 q Hq I1 I2)].
    - intros Z1 L. apply (ND q Hin Z1 L). }
  pose proof (dr_side (schema c) (schema p) (zt p) (zt c) (pos c) (pos p) E2 Up Ec Ipc Ipp Npc Npp
                      (wf_own_side c pos (or_introl eq_refl) Wc) (OK pos (or_introl eq_refl))) as DP.
  pose proof (dr_side (schema c) (schema p) (zt p) (zt c) (neg c) (neg p) E2 Up Ec Inc Inp Nnc Nnp
                      (wf_own_side c neg (or_intror eq_refl) Wc) (OK neg (or_intror eq_refl))) as DN.
  rewrite orb_true_iff, DP, DN. split.
  - intros [X|X]; [do 5 right; left; exact X|do 6 right; exact X].
  - intros [X|[X|[X|[X|[X|[X|X]]]]]]; try lia; try congruence; try contradiction;
      try (left; exact X); try (right; exact X).
Qed.

(* ======================= custom buckets ======================= *)


(* ---------- custom buckets: intersectCustomBucketBounds and Add/Sub ---------- *)

Fixpoint zinc (lo : Z) (l : list Z) : Prop :=
  match l with [] => True | x :: r => lo < x /\ zinc x r end.

Lemma zinc_bound lo l z : zinc lo l -> In z l -> lo < z.
Proof.
  revert lo; induction l as [|x l IH]; intros lo H Hz; [destruct Hz|].
  destruct H as [H1 H2]. destruct Hz as [->|Hz]; [exact H1|]. specialize (IH _ H2 Hz). lia.
Qed.
Lemma zinc_weaken lo lo' l : lo' <= lo -> zinc lo l -> zinc lo' l.
Proof. destruct l; cbn; [tauto|]. intros ? [? ?]. split; [lia|assumption]. Qed.

Lemma intersect_fuel_spec fuel : forall a b lo z, zinc lo a -> zinc lo b ->
  (length a + length b <= fuel)%nat ->
  (In z (intersect_fuel fuel a b) <-> In z a /\ In z b).
Proof.
  induction fuel as [|fuel IH]; intros a b lo z Ha Hb Hf.
  - destruct a; destruct b; cbn in *; try lia; tauto.
  - cbn [intersect_fuel]. destruct a as [|x a']; [cbn; tauto|]. destruct b as [|y b']; [cbn; tauto|].
    destruct Ha as [Hx Ha']. destruct Hb as [Hy Hb']. cbn [length] in Hf.
    destruct (x =? y) eqn:E1.
    + apply Z.eqb_eq in E1. subst y. cbn [In].
      rewrite (IH a' b' x z Ha' Hb' ltac:(lia)). tauto.
    + apply Z.eqb_neq in E1. destruct (x <? y) eqn:E2.
      * apply Z.ltb_lt in E2.
        rewrite (IH a' (y :: b') x z Ha' (conj E2 Hb') ltac:(cbn [length]; lia)).
        split; [intros [A B]; split; [right; exact A|exact B]|].
        intros [[<-|A] B]; [|split; assumption].
        exfalso. pose proof (zinc_bound x (y :: b') x (conj E2 Hb') B). lia.
      * apply Z.ltb_ge in E2. assert (y < x) by lia.
        rewrite (IH (x :: a') b' y z (conj H Ha') Hb' ltac:(cbn [length]; lia)).
        split; [intros [A B]; split; [exact A|right; exact B]|].
        intros [A [<-|B]]; [|split; assumption].
        exfalso. pose proof (zinc_bound y (x :: a') y (conj H Ha') A). lia.
Qed.

(* the reconciled custom bounds are exactly the bounds present in both histograms *)
Lemma intersect_spec a b lo z : zinc lo a -> zinc lo b ->
  (In z (intersect a b) <-> In z a /\ In z b).
Proof. intros Ha Hb. unfold intersect. apply (intersect_fuel_spec _ a b lo z Ha Hb). lia. Qed.

Lemma is_custom_not_exp s : is_custom s = true -> is_exp s = false.
Proof. unfold is_custom, customSchema, is_exp. intro H. apply Z.eqb_eq in H. subst s. reflexivity. Qed.

(* Add / Sub / KahanAdd on two custom-bucket histograms *)
Lemma arith_custom sgn h o :
  is_custom (schema h) = true -> is_custom (schema o) = true ->
  idx_nonneg (pos h) = true -> idx_nonneg (pos o) = true ->
  exists r, arith sgn h o = Ok r /\
    let R := ao_h r in
    schema R = schema h /\ cnt R = cnt h + sgn * cnt o /\ sum R = sum h + sgn * sum o /\
    zc R = zc h /\ zt R = zt h /\
    (list_eqb (cv h) (cv o) = true ->
       ao_reconciled r = false /\ cv R = cv h /\
       forall t, total (pos R) t = total (pos h) t + sgn * total (pos o) t) /\
    (list_eqb (cv h) (cv o) = false ->
       ao_reconciled r = true /\ cv R = intersect (cv h) (cv o) /\
       forall t, 0 <= t <= Z.of_nat (length (cv R)) ->
         total (pos R) t = total (remap (cv R) (cv h) (pos h)) t +
                           sgn * total (remap (cv R) (cv o) (pos o)) t).
Proof.
  intros Hh Ho Nh No. unfold arith. rewrite Hh, Ho. cbn [xorb].
  destruct (adjust_hint (hint h) (hint o)) as [hint' coll]. rewrite Nh, No. cbn [andb negb].
  destruct (list_eqb (cv h) (cv o)) eqn:E.
  - eexists. split; [reflexivity|]. cbn [ao_h ao_reconciled schema cnt sum zc zt cv pos].
    repeat split; try discriminate; try reflexivity.
    intro t. rewrite total_merge_add.
    unfold drop_below. rewrite (is_custom_not_exp _ Hh). reflexivity.
  - eexists. split; [reflexivity|]. cbn [ao_h ao_reconciled schema cnt sum zc zt cv pos].
    repeat split; try discriminate; try reflexivity.
    intros t Ht. apply add_mism_total. exact Ht.
Qed.

(* where a source bucket with upper bound x goes: the first bound of the intersected layout
   that is >= x; if there is none, the +Inf bucket (index = number of bounds) *)
Lemma find_ge_some inter : forall x p r, find_ge inter x p = Some r ->
  exists pre y post, inter = pre ++ y :: post /\ r = p + Z.of_nat (length pre) /\ x <= y /\
                     Forall (fun z => z < x) pre.
Proof.
  induction inter as [|y inter IH]; intros x p r H; cbn [find_ge] in H; [discriminate|].
  destruct (x <=? y) eqn:E.
  - inversion H; subst. exists [], y, inter. apply Z.leb_le in E. repeat split; cbn; try lia. constructor.
  - destruct (IH x (p + 1) r H) as (pre & y' & post & A & B & C & D).
    exists (y :: pre), y', post. subst inter. repeat split; cbn [app length]; try lia.
    constructor; [apply Z.leb_gt in E; lia|exact D].
Qed.
Lemma find_ge_none inter : forall x p, find_ge inter x p = None -> Forall (fun z => z < x) inter.
Proof.
  induction inter as [|y inter IH]; intros x p H; [constructor|]. cbn [find_ge] in H.
  destruct (x <=? y) eqn:E; [discriminate|]. constructor; [apply Z.leb_gt in E; lia|apply (IH x (p + 1) H)].
Qed.

(* ======================= statements used verbatim by props/C31.v ======================= *)

Lemma p_reduce_preserves_totals : forall sp bs l k t, expand sp bs = Ok l -> 0 <= k ->
  total (reduce_abs k l) t = sumc (filter (fun b => target_idx (fst b) k =? t) l) /\
  increasing (reduce_abs k l).
Proof.
  intros sp bs l k t H Hk. pose proof (expand_increasing _ _ _ H) as Hi. split.
  - rewrite reduce_total by assumption. apply total_retarget.
  - apply reduce_increasing; assumption.
Qed.

Lemma p_to_float_preserves : forall h,
  let f := to_float h in
  r_ps f = i_ps h /\ deltas_from 0 (r_pb f) = i_pd h /\ r_cnt f = i_cnt h /\ r_schema f = i_schema h /\
  (is_custom (i_schema h) = false ->
     r_ns f = i_ns h /\ deltas_from 0 (r_nb f) = i_nd h /\ r_zc f = i_zc h /\ r_zt f = i_zt h /\
     abs_of_raw f = abs_of_raw (mkRF (i_hint h) (i_schema h) (i_zt h) (i_zc h) (i_cnt h) (i_sum h)
                                     (i_ps h) (cumsum (i_pd h)) (i_ns h) (cumsum (i_nd h)) [])) /\
  (is_custom (i_schema h) = true -> r_cv f = i_cv h /\ r_ns f = [] /\ r_nb f = [] /\ r_zc f = 0).
Proof.
  intro h. unfold to_float. destruct (is_custom (i_schema h)) eqn:E; cbn;
    unfold cumsum; rewrite ?deltas_cumsum; repeat split; try reflexivity; try discriminate;
    intros; try discriminate; repeat split; rewrite ?deltas_cumsum; reflexivity.
Qed.

Lemma p_detect_buckets_iff : forall prev cur, increasing prev -> increasing cur ->
  (dr_lists prev cur = true <->
   exists p, In p prev /\
     match find_idx (fst p) cur with None => snd p <> 0 | Some c => c < snd p end).
Proof.
  intros prev cur Hp Hc. rewrite (dr_lists_spec prev cur Hp Hc), existsb_exists.
  split; intros [p [Hin Hb]]; exists p; (split; [exact Hin|]); unfold bad in *;
    destruct (find_idx (fst p) cur).
  - apply Z.ltb_lt. exact Hb.
  - unfold nonzero in Hb. apply negb_true_iff, Z.eqb_neq in Hb. exact Hb.
  - apply Z.ltb_lt. exact Hb.
  - unfold nonzero. apply negb_true_iff, Z.eqb_neq. exact Hb.
Qed.

Lemma p_detect_buckets_decreased : forall prev cur, increasing prev -> increasing cur ->
  Forall (fun p => 0 <= snd p) prev ->
  (dr_lists prev cur = true <-> exists p, In p prev /\ total cur (fst p) < snd p).
Proof.
  intros prev cur Hp Hc Hnn. rewrite (dr_lists_spec prev cur Hp Hc), existsb_exists.
  rewrite Forall_forall in Hnn.
  split; intros [p [Hin Hb]]; exists p; (split; [exact Hin|]).
  - rewrite (bad_decreased cur p Hc (Hnn p Hin)), orb_false_r in Hb. apply Z.ltb_lt. exact Hb.
  - rewrite (bad_decreased cur p Hc (Hnn p Hin)), orb_false_r. apply Z.ltb_lt. exact Hb.
Qed.

Lemma p_detect_reset_hint_and_type : forall c p,
  (hint c = 1 -> detect_reset c p = Ok true) /\ (hint c = 2 -> detect_reset c p = Ok false) /\
  (hint c <> 1 -> hint c <> 2 -> cnt p <= cnt c ->
   (is_custom (schema c) = true /\ is_custom (schema p) = false) \/
   (is_exp (schema c) = true /\ is_custom (schema p) = true) ->
   detect_reset c p = Ok true).
Proof.
  intros c p. unfold detect_reset. repeat split.
  - intros ->. reflexivity.
  - intros ->. reflexivity.
  - intros H1 H2 Hc Hx.
    replace (hint c =? 1) with false by (symmetry; apply Z.eqb_neq; exact H1).
    replace (hint c =? 2) with false by (symmetry; apply Z.eqb_neq; exact H2).
    replace (cnt c <? cnt p) with false by (symmetry; apply Z.ltb_ge; exact Hc).
    destruct Hx as [[E1 E2]|[E1 E2]].
    + rewrite E1, E2. reflexivity.
    + destruct (is_exp_facts _ E1) as (C1 & L1 & U1). rewrite C1. cbn [andb].
      unfold is_custom, customSchema in E2. apply Z.eqb_eq in E2.
      replace (schema p <? schema c) with true by (symmetry; apply Z.ltb_lt; lia). reflexivity.
Qed.

(* proof/HistChunkProofs.v — lemmas about model/HistChunk.v *)
From Coq Require Import List ZArith Bool Lia.
From Verif Require Import model.HistChunk.
Import ListNotations.
Open Scope Z_scope.

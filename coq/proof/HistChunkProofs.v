(* proof/HistChunkProofs.v — lemmas about model/HistChunk.v *)
From Coq Require Import List ZArith Bool Lia.
From Verif Require Import model.HistChunk.
Import ListNotations.
Open Scope Z_scope.

(* ------------------------------------------------------------------ *)
(* strictly increasing lists with a strict lower bound                 *)
Fixpoint incr (lo : Z) (l : list Z) : Prop :=
  match l with [] => True | x :: r => lo < x /\ incr x r end.

Lemma incr_weaken lo lo' l : lo' <= lo -> incr lo l -> incr lo' l.
Proof. destruct l; simpl; intuition lia. Qed.

Lemma incr_In lo l x : incr lo l -> In x l -> lo < x.
Proof.
  revert lo. induction l as [|y r IH]; simpl; intros lo H Hin; [tauto|].
  destruct H as [H1 H2]. destruct Hin as [->|Hin]; [lia|]. specialize (IH _ H2 Hin). lia.
Qed.

(* ------------------------------------------------------------------ *)
(* zseq                                                                 *)
Lemma zseq_nil s n : n <= 0 -> zseq s n = [].
Proof. intros H. unfold zseq. replace (Z.to_nat n) with 0%nat by lia. reflexivity. Qed.

Lemma zseq_cons s n : 0 < n -> zseq s n = s :: zseq (s + 1) (n - 1).
Proof.
  intros H. unfold zseq. replace (Z.to_nat n) with (S (Z.to_nat (n - 1))) by lia.
  cbn [seq map]. f_equal; [lia|]. rewrite <- seq_shift, map_map. apply map_ext. intros; lia.
Qed.

Lemma zseq_snoc s n : 0 <= n -> zseq s (n + 1) = zseq s n ++ [s + n].
Proof.
  intros H. unfold zseq. replace (Z.to_nat (n + 1)) with (Z.to_nat n + 1)%nat by lia.
  rewrite seq_app, map_app. cbn [seq map Nat.add]. do 2 f_equal. lia.
Qed.

Lemma zseq_length s n : length (zseq s n) = Z.to_nat n.
Proof. unfold zseq. now rewrite map_length, seq_length. Qed.

Lemma zseq_incr_app lo s n l : lo < s -> incr (s + Z.max 0 n - 1) l -> incr lo (zseq s n ++ l).
Proof.
  intros Hlo Hl. remember (Z.to_nat n) as k eqn:Hk. revert lo s n Hlo Hl Hk.
  induction k as [|k IH]; intros lo s n Hlo Hl Hk.
  - rewrite zseq_nil by lia. simpl. eapply incr_weaken; [|exact Hl]. lia.
  - rewrite zseq_cons by lia. simpl. split; [lia|]. apply IH; try lia.
    eapply incr_weaken; [|exact Hl]. lia.
Qed.

(* ------------------------------------------------------------------ *)
(* spans: well-formedness, increasing index streams                      *)
Definition wf_tail (l : list span) : Prop := Forall (fun s => 0 <= s_off s /\ 0 <= s_len s) l.
Definition wf_spans (l : list span) : Prop :=
  match l with [] => True | s :: r => 0 <= s_len s /\ wf_tail r end.

Lemma idxs_from_incr next l : wf_tail l -> incr (next - 1) (idxs_from next l).
Proof.
  revert next. induction l as [|s r IH]; intros next H; simpl; [exact I|].
  inversion H as [|? ? [Ho Hl] Hr]; subst.
  apply zseq_incr_app; [lia|]. specialize (IH (next + s_off s + Z.max 0 (s_len s)) Hr).
  eapply incr_weaken; [|exact IH]. lia.
Qed.

Lemma idxs_incr l : wf_spans l -> exists lo, incr lo (idxs l).
Proof.
  destruct l as [|s r]; intros H; [exists 0; exact I|]. destruct H as [Hl Hr].
  exists (s_off s - 1). unfold idxs. simpl. apply zseq_incr_app; [lia|].
  pose proof (idxs_from_incr (0 + s_off s + Z.max 0 (s_len s)) r Hr) as H.
  eapply incr_weaken; [|exact H]. lia.
Qed.

Lemma idxs_from_length next l :
  Forall (fun s => 0 <= s_len s) l -> Z.of_nat (length (idxs_from next l)) = count_spans l.
Proof.
  revert next. induction l as [|s r IH]; intros next H; simpl; [reflexivity|].
  inversion H; subst. rewrite app_length, zseq_length, Nat2Z.inj_add, IH by assumption. lia.
Qed.

(* the end position of a span list *)
Fixpoint end_from (next : Z) (l : list span) : Z :=
  match l with [] => next | s :: r => end_from (next + s_off s + Z.max 0 (s_len s)) r end.

Lemma idxs_from_app n l1 l2 :
  idxs_from n (l1 ++ l2) = idxs_from n l1 ++ idxs_from (end_from n l1) l2.
Proof.
  revert n. induction l1 as [|s r IH]; intros n; simpl; [reflexivity|].
  now rewrite IH, app_assoc.
Qed.

Lemma end_from_app n l1 l2 : end_from n (l1 ++ l2) = end_from (end_from n l1) l2.
Proof. revert n. induction l1; intros; simpl; auto. Qed.

(* addBucket rebuilds exactly the bucket indices it was fed, whatever they are *)
Definition ab_inv (st : list span * Z) (p : list Z) : Prop :=
  fst st <> [] /\ idxs_from 0 (rev (fst st)) = p /\ end_from 0 (rev (fst st)) = snd st + 1 /\
  match fst st with s :: _ => 1 <= s_len s | [] => True end.

Lemma add_bucket_inv st p b : ab_inv st p -> ab_inv (add_bucket st b) (p ++ [b]).
Proof.
  destruct st as [rs last]. intros (Hne & Hi & He & Hl). cbn [fst snd] in *.
  destruct rs as [|s r]; [congruence|]. unfold add_bucket.
  destruct (Z.eqb_spec (b - last - 1) 0) as [E|E]; unfold ab_inv; cbn [fst snd].
  - cbn [rev] in *. rewrite idxs_from_app in *. rewrite end_from_app in *. cbn [idxs_from end_from s_off s_len] in *.
    rewrite app_nil_r in *. rewrite Z.max_r in He by lia. rewrite Z.max_r by lia.
    repeat split; [discriminate| |lia|lia].
    rewrite zseq_snoc by lia. rewrite app_assoc, Hi. do 2 f_equal. lia.
  - change (rev (mkSpan (b - last - 1) 1 :: s :: r)) with (rev (s :: r) ++ [mkSpan (b - last - 1) 1]).
    rewrite idxs_from_app, end_from_app. cbn [idxs_from end_from s_off s_len]. rewrite app_nil_r.
    rewrite He, Hi. repeat split; [discriminate| |lia|lia].
    f_equal. rewrite zseq_cons by lia. rewrite zseq_nil by lia. f_equal. lia.
Qed.

Lemma fold_add_bucket_inv l st p :
  ab_inv st p -> idxs_from 0 (rev (fst (fold_left add_bucket l st))) = p ++ l.
Proof.
  revert st p. induction l as [|b l IH]; intros st p H; simpl.
  - rewrite app_nil_r. apply H.
  - rewrite (IH _ (p ++ [b])); [now rewrite <- app_assoc|]. now apply add_bucket_inv.
Qed.

Lemma idxs_spans_of l : idxs (spans_of l) = l.
Proof.
  unfold idxs, spans_of. destruct l as [|b l]; [reflexivity|]. cbn [fold_left].
  apply (fold_add_bucket_inv l _ [b]). unfold add_bucket, ab_inv; cbn [fst snd rev app idxs_from end_from s_off s_len].
  repeat split; try discriminate; try lia.
  rewrite app_nil_r. rewrite zseq_cons by lia. rewrite zseq_nil by lia. f_equal. lia.
Qed.

(* ------------------------------------------------------------------ *)
(* association lists                                                    *)
Lemma lookup_zeros k M n : lookup k (combine M (repeat 0 n)) = 0.
Proof.
  revert n. induction M as [|m M IH]; intros n; simpl; [reflexivity|].
  destruct n; simpl; [reflexivity|]. destruct (m =? k); auto.
Qed.

Lemma lookup_notin lo k ix vals : incr lo ix -> k <= lo -> lookup k (combine ix vals) = 0.
Proof.
  revert lo vals. induction ix as [|i ix IH]; intros lo vals H Hk; simpl; [reflexivity|].
  destruct vals as [|v vals]; simpl; [reflexivity|]. destruct H as [H1 H2].
  destruct (Z.eqb_spec i k); [lia|]. apply (IH i); [assumption|lia].
Qed.

(* the values of (ix, vals) laid out on the wider index list M, zero elsewhere *)
Fixpoint lay (M ix vals : list Z) : list Z :=
  match M with
  | [] => []
  | m :: M' =>
      match ix, vals with
      | i :: ix', v :: vals' => if i =? m then v :: lay M' ix' vals' else 0 :: lay M' ix vals
      | _, _ => 0 :: lay M' ix vals
      end
  end.

Lemma lay_length M ix vals : length (lay M ix vals) = length M.
Proof.
  revert ix vals. induction M as [|m M IH]; intros; simpl; [reflexivity|].
  destruct ix, vals; simpl; try (now rewrite IH). destruct (z =? m); simpl; now rewrite IH.
Qed.

Lemma lay_nil M vals : lay M [] vals = repeat 0 (length M).
Proof. induction M; simpl; [reflexivity|]. now rewrite IHM. Qed.

Lemma lay_self l vals : length vals = length l -> lay l l vals = vals.
Proof.
  revert vals. induction l as [|x l IH]; intros vals H; destruct vals; simpl in *; try discriminate; auto.
  rewrite Z.eqb_refl. f_equal. apply IH. lia.
Qed.

Lemma lay_lookup lo M ix vals k :
  incr lo M -> incr lo ix -> incl ix M -> length vals = length ix ->
  lookup k (combine M (lay M ix vals)) = lookup k (combine ix vals).
Proof.
  revert lo ix vals. induction M as [|m M IH]; intros lo ix vals HM Hix Hin Hlen.
  - destruct ix as [|i ix]; [reflexivity|]. exfalso. apply (Hin i). now left.
  - destruct HM as [HM1 HM2]. destruct ix as [|i ix].
    + simpl. destruct (m =? k); [reflexivity|]. rewrite lay_nil. apply lookup_zeros.
    + destruct vals as [|v vals]; [discriminate|]. destruct Hix as [Hi1 Hi2]. cbn [lay].
      destruct (Z.eqb_spec i m) as [->|Hne].
      * cbn [combine lookup]. destruct (m =? k); [reflexivity|].
        apply (IH m); auto. intros x Hx. pose proof (incr_In _ _ _ Hi2 Hx).
        destruct (Hin x (or_intror Hx)) as [->|]; [lia|assumption].
      * assert (Him : In i M). { destruct (Hin i (or_introl eq_refl)) as [E|]; [congruence|assumption]. }
        pose proof (incr_In _ _ _ HM2 Him) as Hlt.
        cbn [combine lookup]. destruct (Z.eqb_spec m k) as [->|Hk].
        -- destruct (Z.eqb_spec i k); [lia|]. symmetry. apply (lookup_notin i); [assumption|lia].
        -- change (if i =? k then v else lookup k (combine ix vals)) with (lookup k (combine (i :: ix) (v :: vals))).
           apply (IH m); auto; [simpl; split; [lia|assumption]|].
           intros x Hx. destruct (Hin x Hx) as [->|]; [|assumption].
           destruct Hx as [->|Hx]; [lia|]. pose proof (incr_In _ _ _ Hi2 Hx). lia.
Qed.

(* proof/RelabelProofs.v — lemmas about model/Relabel.v *)
From Coq Require Import List ZArith NArith Bool Lia Permutation.
From Verif Require Import model.Relabel.
Import ListNotations.

(* ------------------------------------------------------------------ strings *)
Lemma str_eqb_eq a b : str_eqb a b = true <-> a = b.
Proof.
  revert b; induction a as [|x a IH]; intros [|y b]; simpl; split; intros H; try discriminate; auto.
  - apply andb_true_iff in H as [H1 H2]. apply N.eqb_eq in H1. apply IH in H2. congruence.
  - inversion H; subst. rewrite N.eqb_refl. simpl. apply IH. reflexivity.
Qed.
Lemma str_eqb_refl a : str_eqb a a = true.
Proof. apply str_eqb_eq; reflexivity. Qed.
Lemma str_eqb_sym a b : str_eqb a b = str_eqb b a.
Proof.
  destruct (str_eqb a b) eqn:E.
  - apply str_eqb_eq in E. subst. symmetry. apply str_eqb_refl.
  - destruct (str_eqb b a) eqn:E2; auto. apply str_eqb_eq in E2. subst. rewrite str_eqb_refl in E. discriminate.
Qed.
Lemma str_eqb_neq a b : str_eqb a b = false <-> a <> b.
Proof.
  split; intros H.
  - intros ->. rewrite str_eqb_refl in H. discriminate.
  - destruct (str_eqb a b) eqn:E; auto. apply str_eqb_eq in E. contradiction.
Qed.

Lemma str_cmp_eq a b : str_cmp a b = Eq <-> a = b.
Proof.
  revert b; induction a as [|x a IH]; intros [|y b]; simpl; split; intros H; try discriminate; auto.
  - destruct (N.compare x y) eqn:E; try discriminate. apply N.compare_eq in E. apply IH in H. congruence.
  - inversion H; subst. rewrite N.compare_refl. apply IH. reflexivity.
Qed.
Lemma str_cmp_antisym a b : str_cmp b a = CompOpp (str_cmp a b).
Proof.
  revert b; induction a as [|x a IH]; intros [|y b]; simpl; auto.
  rewrite (N.compare_antisym x y). destruct (N.compare x y); simpl; auto.
Qed.
Lemma str_cmp_lt_trans a b c : str_cmp a b = Lt -> str_cmp b c = Lt -> str_cmp a c = Lt.
Proof.
  revert b c; induction a as [|x a IH]; intros [|y b] [|z c]; simpl; intros H1 H2; try discriminate; auto.
  destruct (N.compare x y) eqn:E1; try discriminate.
  - apply N.compare_eq in E1. subst y.
    destruct (N.compare x z) eqn:E2; try discriminate; auto. eapply IH; eauto.
  - destruct (N.compare y z) eqn:E2; try discriminate.
    + apply N.compare_eq in E2. subst z. rewrite E1. reflexivity.
    + assert (E3 : N.compare x z = Lt) by (apply N.compare_lt_iff; apply N.compare_lt_iff in E1; apply N.compare_lt_iff in E2; eapply N.lt_trans; eauto).
      rewrite E3. reflexivity.
Qed.

Lemma str_ltb_trans a b c : str_ltb a b = true -> str_ltb b c = true -> str_ltb a c = true.
Proof.
  unfold str_ltb. destruct (str_cmp a b) eqn:E1; try discriminate. destruct (str_cmp b c) eqn:E2; try discriminate.
  intros _ _. rewrite (str_cmp_lt_trans _ _ _ E1 E2). reflexivity.
Qed.
Lemma str_ltb_irrefl a : str_ltb a a = false.
Proof. unfold str_ltb. assert (H : str_cmp a a = Eq) by (apply str_cmp_eq; reflexivity). rewrite H. reflexivity. Qed.
Lemma str_ltb_neq a b : str_ltb a b = true -> a <> b.
Proof. intros H ->. rewrite str_ltb_irrefl in H. discriminate. Qed.
Lemma str_ltb_asym a b : str_ltb a b = true -> str_ltb b a = false.
Proof.
  unfold str_ltb. rewrite (str_cmp_antisym a b). destruct (str_cmp a b); simpl; auto; discriminate.
Qed.
(* totality: not a<b and not b<a means a=b *)
Lemma str_ltb_total a b : str_ltb a b = false -> str_ltb b a = false -> a = b.
Proof.
  unfold str_ltb. rewrite (str_cmp_antisym a b). destruct (str_cmp a b) eqn:E; simpl; try discriminate.
  intros _ _. apply str_cmp_eq. exact E.
Qed.

(* ------------------------------------------------------------------ lget / find *)
Lemma name_is_true n l : name_is n l = true <-> lname l = n.
Proof. unfold name_is. apply str_eqb_eq. Qed.

Lemma find_name_some n L l : find (name_is n) L = Some l -> lname l = n /\ In l L.
Proof. intros H. apply find_some in H as [H1 H2]. apply name_is_true in H2. auto. Qed.

Lemma find_name_none n L : find (name_is n) L = None <-> ~ In n (map lname L).
Proof.
  induction L as [|a L IH]; simpl.
  - tauto.
  - destruct (name_is n a) eqn:E.
    + apply name_is_true in E. split; [discriminate | intros H; exfalso; apply H; auto].
    + rewrite IH. split.
      * intros H [H1|H1]; [|auto]. rewrite <- name_is_true in H1. congruence.
      * tauto.
Qed.

Lemma has_name_find n L : has_name n L = match find (name_is n) L with Some _ => true | None => false end.
Proof. unfold has_name. induction L as [|a L IH]; simpl; auto. destruct (name_is n a); simpl; auto. Qed.

Lemma mem_str_in n l : mem_str n l = true <-> In n l.
Proof.
  unfold mem_str. rewrite existsb_exists. split.
  - intros [x [H1 H2]]. apply str_eqb_eq in H2. subst; auto.
  - intros H. exists n. split; auto. apply str_eqb_refl.
Qed.
Lemma mem_str_app n l1 l2 : mem_str n (l1 ++ l2) = mem_str n l1 || mem_str n l2.
Proof. unfold mem_str. apply existsb_app. Qed.

(* ------------------------------------------------------------------ Builder: get/set laws *)
Lemma find_remove_add_same n add : find (name_is n) (remove_add n add) = None.
Proof.
  unfold remove_add. induction add as [|a t IH]; simpl; auto.
  destruct (name_is n a) eqn:E; simpl; auto. rewrite E. exact IH.
Qed.
Lemma find_remove_add_other n m add : m <> n -> find (name_is m) (remove_add n add) = find (name_is m) add.
Proof.
  intros Hne. unfold remove_add. induction add as [|a t IH]; simpl; auto.
  destruct (name_is n a) eqn:E; simpl.
  - destruct (name_is m a) eqn:E2; auto. apply name_is_true in E, E2. congruence.
  - destruct (name_is m a); auto.
Qed.
Lemma find_set_add_same n v add : exists a, find (name_is n) (set_add n v add) = Some a /\ lvalue a = v.
Proof.
  induction add as [|a t IH]; simpl.
  - unfold name_is at 1. simpl. rewrite str_eqb_refl. eexists; split; eauto.
  - destruct (name_is n a) eqn:E; simpl.
    + unfold name_is at 1. simpl. unfold name_is in E. rewrite E. eexists; split; eauto.
    + rewrite E. exact IH.
Qed.
Lemma find_set_add_other n m v add : m <> n -> find (name_is m) (set_add n v add) = find (name_is m) add.
Proof.
  intros Hne. induction add as [|a t IH]; simpl.
  - unfold name_is. simpl. apply str_eqb_neq in Hne. rewrite str_eqb_sym, Hne. reflexivity.
  - destruct (name_is n a) eqn:E; simpl.
    + assert (E2 : name_is m a = false).
      { destruct (name_is m a) eqn:E2; auto. apply name_is_true in E, E2. congruence. }
      rewrite E2. unfold name_is at 1. simpl. unfold name_is in E2. rewrite E2. reflexivity.
    + destruct (name_is m a); auto.
Qed.

Lemma bget_bdel b n m : bget (bdel b n) m = if str_eqb m n then [] else bget b m.
Proof.
  unfold bget, bdel; simpl. destruct (str_eqb m n) eqn:E.
  - apply str_eqb_eq in E. subst m. rewrite find_remove_add_same, mem_str_app.
    assert (H : mem_str n [n] = true) by (apply mem_str_in; simpl; auto). rewrite H, orb_true_r. reflexivity.
  - apply str_eqb_neq in E. rewrite (find_remove_add_other _ _ _ E), mem_str_app.
    assert (H : mem_str m [n] = false).
    { destruct (mem_str m [n]) eqn:H; auto. apply mem_str_in in H. simpl in H. destruct H as [H|[]]. congruence. }
    rewrite H, orb_false_r. reflexivity.
Qed.

Lemma is_empty_true v : is_empty v = true <-> v = [].
Proof. destruct v; simpl; split; intros; auto; discriminate. Qed.

Lemma bget_bset b n v m : bget (bset b n v) m = if str_eqb m n then v else bget b m.
Proof.
  unfold bset. destruct (is_empty v) eqn:Ev.
  - rewrite bget_bdel. apply is_empty_true in Ev. subst. reflexivity.
  - unfold bget; simpl. destruct (str_eqb m n) eqn:E.
    + apply str_eqb_eq in E. subst m. destruct (find_set_add_same n v (b_add b)) as [a [H1 H2]]. rewrite H1. exact H2.
    + apply str_eqb_neq in E. rewrite (find_set_add_other _ _ _ _ E). reflexivity.
Qed.

(* ------------------------------------------------------------------ canonical label lists *)
Definition lb_all (n : str) (L : list label) : Prop := forall l, In l L -> str_ltb n (lname l) = true.

Lemma lget_cons a L m : lget (a :: L) m = if name_is m a then lvalue a else lget L m.
Proof. unfold lget. simpl. destruct (name_is m a); reflexivity. Qed.

Lemma ssorted_cons a L : ssorted (a :: L) = true <-> lb_all (lname a) L /\ ssorted L = true.
Proof.
  revert a. induction L as [|b t IH]; intros a.
  - simpl. split; auto. intros _. split; auto. intros l [].
  - change (ssorted (a :: b :: t)) with (str_ltb (lname a) (lname b) && ssorted (b :: t)).
    rewrite andb_true_iff. split.
    + intros [H1 H2]. split; auto. intros l [<-|Hl]; auto.
      apply IH in H2 as [H2 _]. eapply str_ltb_trans; eauto.
    + intros [H1 H2]. split; auto. apply H1. left; reflexivity.
Qed.

Lemma lb_all_trans n m L : str_ltb n m = true -> lb_all m L -> lb_all n L.
Proof. intros H1 H2 l Hl. eapply str_ltb_trans; eauto. Qed.

Lemma lget_absent L m : ~ In m (map lname L) -> lget L m = [].
Proof. intros H. unfold lget. apply find_name_none in H. rewrite H. reflexivity. Qed.

Lemma lb_all_notin n m L : lb_all n L -> (m = n \/ str_ltb m n = true) -> ~ In m (map lname L).
Proof.
  intros H Hm Hin. apply in_map_iff in Hin as [l [H1 H2]]. apply H in H2. subst m.
  destruct Hm as [Hm|Hm].
  - rewrite Hm, str_ltb_irrefl in H2. discriminate.
  - apply str_ltb_asym in Hm. congruence.
Qed.

Lemma str_cmp_cases n m :
  (str_cmp n m = Lt /\ str_ltb n m = true) \/ (str_cmp n m = Eq /\ n = m) \/ (str_cmp n m = Gt /\ str_ltb m n = true).
Proof.
  destruct (str_cmp n m) eqn:E.
  - right; left. split; auto. apply str_cmp_eq; auto.
  - left. split; auto. unfold str_ltb. rewrite E. reflexivity.
  - right; right. split; auto. unfold str_ltb. rewrite (str_cmp_antisym n m), E. reflexivity.
Qed.

Lemma name_is_refl n v : name_is n (n, v) = true.
Proof. unfold name_is. simpl. apply str_eqb_refl. Qed.
Lemma name_is_neq m n v : m <> n -> name_is m (n, v) = false.
Proof. intros H. unfold name_is. simpl. apply str_eqb_neq. congruence. Qed.

Lemma lget_lset L n v m : ssorted L = true -> lget (lset L n v) m = if str_eqb m n then v else lget L m.
Proof.
  induction L as [|a t IH]; intros Hs.
  - simpl. destruct (is_empty v) eqn:Ev.
    + apply is_empty_true in Ev. subst. destruct (str_eqb m n); reflexivity.
    + rewrite lget_cons. unfold name_is; simpl. rewrite (str_eqb_sym n m). destruct (str_eqb m n); reflexivity.
  - apply ssorted_cons in Hs as [Hlb Hs]. simpl.
    destruct (str_cmp_cases n (lname a)) as [[E Hlt]|[[E Heq]|[E Hgt]]]; rewrite E.
    + (* n < head: n not in a :: t *)
      assert (Hnot : lget (a :: t) n = []).
      { apply lget_absent. simpl. intros [H|H].
        - rewrite H, str_ltb_irrefl in Hlt. discriminate.
        - revert H. eapply lb_all_notin; [eapply lb_all_trans; eauto|]. left; reflexivity. }
      destruct (is_empty v) eqn:Ev.
      * apply is_empty_true in Ev. subst v. destruct (str_eqb m n) eqn:Emn; auto.
        apply str_eqb_eq in Emn. subst. auto.
      * rewrite (lget_cons (n, v)). unfold name_is at 1; simpl. rewrite (str_eqb_sym n m).
        destruct (str_eqb m n); reflexivity.
    + (* equal *)
      assert (Ht : lget t n = []).
      { apply lget_absent. eapply lb_all_notin; eauto. }
      destruct (is_empty v) eqn:Ev.
      * apply is_empty_true in Ev. subst v. rewrite lget_cons. destruct (str_eqb m n) eqn:Emn.
        -- apply str_eqb_eq in Emn. subst m. auto.
        -- unfold name_is. rewrite <- Heq, (str_eqb_sym n m), Emn. reflexivity.
      * rewrite !lget_cons. unfold name_is; simpl. rewrite <- Heq, (str_eqb_sym n m).
        destruct (str_eqb m n); reflexivity.
    + (* n > head *)
      rewrite !lget_cons, IH by assumption.
      destruct (name_is m a) eqn:Ema; auto.
      apply name_is_true in Ema. assert (Hne : str_eqb m n = false).
      { apply str_eqb_neq. intros ->. subst. rewrite str_ltb_irrefl in Hgt. discriminate. }
      rewrite Hne. reflexivity.
Qed.

Lemma lset_names L n v l : In l (lset L n v) -> In l L \/ l = (n, v).
Proof.
  induction L as [|a t IH]; simpl.
  - destruct (is_empty v); simpl; intros H; [contradiction|]. destruct H as [H|H]; [auto|contradiction].
  - destruct (str_cmp n (lname a)); destruct (is_empty v); simpl; intros H.
    + auto.
    + destruct H as [H|H]; auto.
    + auto.
    + destruct H as [H|[H|H]]; auto.
    + destruct H as [H|H]; auto. apply IH in H. tauto.
    + destruct H as [H|H]; auto. apply IH in H. tauto.
Qed.

Lemma ssorted_lset L n v : ssorted L = true -> ssorted (lset L n v) = true.
Proof.
  induction L as [|a t IH]; intros Hs.
  - simpl. destruct (is_empty v); reflexivity.
  - pose proof Hs as Hs0. apply ssorted_cons in Hs as [Hlb Hs]. simpl.
    destruct (str_cmp_cases n (lname a)) as [[E Hlt]|[[E Heq]|[E Hgt]]]; rewrite E.
    + destruct (is_empty v); auto. apply ssorted_cons. split; auto.
      intros l [<-|Hl]; simpl; auto. eapply str_ltb_trans; eauto.
    + destruct (is_empty v); auto. apply ssorted_cons. split; auto. simpl. rewrite Heq. auto.
    + apply ssorted_cons. split; auto. intros l Hl. apply lset_names in Hl as [Hl| ->]; auto.
Qed.

Lemma no_empty_forall L : no_empty L = true <-> forall l, In l L -> lvalue l <> [].
Proof.
  unfold no_empty. rewrite forallb_forall. split; intros H l Hl; specialize (H l Hl).
  - intros E. rewrite E in H. discriminate.
  - destruct (lvalue l); simpl; auto; try contradiction.
Qed.

Lemma no_empty_lset L n v : no_empty L = true -> no_empty (lset L n v) = true.
Proof.
  rewrite !no_empty_forall. intros H. induction L as [|a t IH]; simpl.
  - destruct (is_empty v) eqn:Ev; simpl; intros l []; subst; simpl; auto.
    intros E. subst. discriminate.
  - assert (Ht : forall l, In l t -> lvalue l <> []) by (intros; apply H; right; auto).
    assert (Hv : is_empty v = false -> lvalue (n, v) <> []) by (simpl; intros Ev E; subst; discriminate).
    destruct (str_cmp n (lname a)); destruct (is_empty v) eqn:Ev; simpl; intros l Hl;
      repeat (destruct Hl as [<-|Hl]);
      try (apply Hv; reflexivity); try (apply Hv; assumption); try (apply H; simpl; auto; fail); try (apply Ht; assumption);
      try (apply IH; assumption).
Qed.

Lemma canonical_iff L : canonical L = true <-> ssorted L = true /\ no_empty L = true.
Proof. unfold canonical. apply andb_true_iff. Qed.

Lemma canonical_lset L n v : canonical L = true -> canonical (lset L n v) = true.
Proof. rewrite !canonical_iff. intros [H1 H2]. split; [apply ssorted_lset|apply no_empty_lset]; auto. Qed.

Lemma canonical_tail a L : canonical (a :: L) = true -> canonical L = true.
Proof.
  rewrite !canonical_iff. intros [H1 H2]. apply ssorted_cons in H1 as [_ H1]. split; auto.
  unfold no_empty in *. simpl in H2. apply andb_true_iff in H2 as [_ H2]. exact H2.
Qed.

(* two canonical label sets with the same lookups are the same list *)
Lemma canonical_ext L1 : forall L2, canonical L1 = true -> canonical L2 = true ->
  (forall n, lget L1 n = lget L2 n) -> L1 = L2.
Proof.
  assert (Hhead : forall a t, canonical (a :: t) = true -> lget (a :: t) (lname a) = lvalue a /\ lvalue a <> []).
  { intros a t Hc. rewrite lget_cons. unfold name_is. rewrite str_eqb_refl. split; auto.
    apply canonical_iff in Hc as [_ Hc]. rewrite no_empty_forall in Hc. apply Hc. left; auto. }
  assert (Hlow : forall a t m, canonical (a :: t) = true -> str_ltb m (lname a) = true -> lget (a :: t) m = []).
  { intros a t m Hc Hm. apply canonical_iff in Hc as [Hc _]. apply ssorted_cons in Hc as [Hlb _].
    apply lget_absent. simpl. intros [H|H].
    - rewrite H, str_ltb_irrefl in Hm. discriminate.
    - revert H. eapply lb_all_notin; [eapply lb_all_trans; eauto|]. left; reflexivity. }
  induction L1 as [|a t1 IH]; intros [|b t2] Hc1 Hc2 Hext; auto.
  - destruct (Hhead _ _ Hc2) as [H1 H2]. rewrite <- Hext in H1. unfold lget in H1. simpl in H1. congruence.
  - destruct (Hhead _ _ Hc1) as [H1 H2]. rewrite Hext in H1. unfold lget in H1. simpl in H1. congruence.
  - destruct (Hhead _ _ Hc1) as [Ha1 Ha2]. destruct (Hhead _ _ Hc2) as [Hb1 Hb2].
    destruct (str_cmp_cases (lname a) (lname b)) as [[_ Hlt]|[[_ Heq]|[_ Hgt]]].
    + rewrite Hext, (Hlow _ _ _ Hc2 Hlt) in Ha1. congruence.
    + assert (Hab : a = b).
      { rewrite Hext, Heq, Hb1 in Ha1. destruct a, b; simpl in *; congruence. }
      subst b. f_equal. apply IH; try (eapply canonical_tail; eauto).
      intros n. specialize (Hext n). rewrite !lget_cons in Hext.
      destruct (name_is n a) eqn:E; auto. apply name_is_true in E. subst n.
      apply canonical_iff in Hc1 as [Hc1 _]. apply canonical_iff in Hc2 as [Hc2 _].
      apply ssorted_cons in Hc1 as [Hl1 _]. apply ssorted_cons in Hc2 as [Hl2 _].
      rewrite !lget_absent; auto; eapply lb_all_notin; eauto.
    + rewrite <- Hext, (Hlow _ _ _ Hc1 Hgt) in Hb1. congruence.
Qed.

(* ------------------------------------------------------------------ builder invariant *)
Definition binv (b : builder) : Prop :=
  ssorted (b_base b) = true /\ NoDup (map lname (b_add b)) /\
  (forall a, In a (b_add b) -> lvalue a <> []) /\
  (forall l, In l (b_base b) -> lvalue l = [] -> In (lname l) (b_del b)).

Lemma remove_add_names n add : forall x, In x (map lname (remove_add n add)) -> In x (map lname add).
Proof.
  intros x H. apply in_map_iff in H as [l [H1 H2]]. apply filter_In in H2 as [H2 _].
  apply in_map_iff. eauto.
Qed.
Lemma NoDup_remove_add n add : NoDup (map lname add) -> NoDup (map lname (remove_add n add)).
Proof.
  unfold remove_add. induction add as [|a t IH]; simpl; intros H; auto.
  inversion H; subst. destruct (name_is n a); simpl; auto. constructor; auto.
  intros Hin. apply H2. eapply remove_add_names; eauto.
Qed.
Lemma set_add_names n v add :
  map lname (set_add n v add) = if has_name n add then map lname add else map lname add ++ [n].
Proof.
  unfold has_name. induction add as [|a t IH]; simpl; auto.
  destruct (name_is n a) eqn:E; simpl; auto. rewrite IH. destruct (existsb (name_is n) t); reflexivity.
Qed.
Lemma has_name_in n add : has_name n add = true <-> In n (map lname add).
Proof.
  unfold has_name. rewrite existsb_exists, in_map_iff. split; intros [l [H1 H2]].
  - apply name_is_true in H2. eauto.
  - exists l. split; auto. apply name_is_true; auto.
Qed.
Lemma set_add_in n v add l : In l (set_add n v add) -> lvalue l = v \/ In l add.
Proof.
  induction add as [|a t IH]; simpl.
  - intros [<-|[]]. auto.
  - destruct (name_is n a); simpl; intros [<-|H]; auto. apply IH in H. tauto.
Qed.

Lemma NoDup_snoc {A} (l : list A) x : NoDup l -> ~ In x l -> NoDup (l ++ [x]).
Proof.
  induction l as [|a t IH]; simpl; intros H Hx.
  - constructor; auto; constructor.
  - inversion H; subst. constructor.
    + intros Hin. apply in_app_or in Hin as [Hin|[Hin|[]]]; auto.
    + apply IH; auto.
Qed.

Lemma binv_bdel b n : binv b -> binv (bdel b n).
Proof.
  intros (H1 & H2 & H3 & H4). unfold binv, bdel; simpl. repeat split; auto.
  - apply NoDup_remove_add; auto.
  - intros a Ha. apply filter_In in Ha as [Ha _]. auto.
  - intros l Hl Hv. apply in_or_app. left. auto.
Qed.
Lemma binv_bset b n v : binv b -> binv (bset b n v).
Proof.
  intros Hb. unfold bset. destruct (is_empty v) eqn:Ev; [apply binv_bdel; auto|].
  destruct Hb as (H1 & H2 & H3 & H4). unfold binv; simpl. repeat split; auto.
  - rewrite set_add_names. destruct (has_name n (b_add b)) eqn:E; auto.
    apply NoDup_snoc; auto. intros Hin. apply has_name_in in Hin. congruence.
  - intros a Ha. apply set_add_in in Ha as [Ha|Ha]; auto. rewrite Ha. intros ->. discriminate.
Qed.

(* ------------------------------------------------------------------ Range *)
Lemma find_unique L l : NoDup (map lname L) -> In l L -> find (name_is (lname l)) L = Some l.
Proof.
  induction L as [|a t IH]; simpl; intros Hnd Hin; [contradiction|].
  inversion Hnd; subst. destruct Hin as [->|Hin].
  - unfold name_is. rewrite str_eqb_refl. reflexivity.
  - destruct (name_is (lname l) a) eqn:E; auto.
    apply name_is_true in E. exfalso. apply H1. rewrite E. apply in_map. exact Hin.
Qed.

Lemma ssorted_NoDup L : ssorted L = true -> NoDup (map lname L).
Proof.
  induction L as [|a t IH]; intros Hs; simpl; [constructor|].
  apply ssorted_cons in Hs as [Hlb Hs]. constructor; auto.
  eapply lb_all_notin; eauto.
Qed.

Lemma lget_in L l : NoDup (map lname L) -> In l L -> lget L (lname l) = lvalue l.
Proof. intros H1 H2. unfold lget. rewrite (find_unique _ _ H1 H2). reflexivity. Qed.

Lemma lget_nonempty_in L n : lget L n <> [] -> In (n, lget L n) L.
Proof.
  unfold lget. destruct (find (name_is n) L) as [l|] eqn:E; [|congruence].
  intros _. apply find_name_some in E as [E1 E2]. destruct l; simpl in *; subst; auto.
Qed.

Lemma brange_in b l : binv b -> (In l (brange b) <-> (bget b (lname l) = lvalue l /\ lvalue l <> [])).
Proof.
  intros (H1 & H2 & H3 & H4). unfold brange, bget. rewrite in_app_iff, filter_In. split.
  - intros [[Hl Hf]|Hl].
    + apply andb_true_iff in Hf as [Hd Ha]. apply negb_true_iff in Hd, Ha.
      rewrite has_name_find in Ha. destruct (find (name_is (lname l)) (b_add b)); [discriminate|].
      rewrite Hd. rewrite lget_in; auto using ssorted_NoDup. split; auto.
      intros Hv. apply H4 in Hv; auto. apply mem_str_in in Hv. congruence.
    + rewrite (find_unique _ _ H2 Hl). auto.
  - intros [Hg Hv]. destruct (find (name_is (lname l)) (b_add b)) as [a|] eqn:E.
    + right. apply find_name_some in E as [E1 E2]. destruct a, l; simpl in *; subst; auto.
    + left. destruct (mem_str (lname l) (b_del b)) eqn:Ed; [congruence|].
      rewrite <- Hg in Hv. apply lget_nonempty_in in Hv. rewrite Hg in Hv. destruct l; simpl in *.
      split; auto. rewrite has_name_find, E. reflexivity.
Qed.

(* ------------------------------------------------------------------ folds over Range *)
Lemma bget_fold_del (q : str -> bool) ls : forall b m,
  bget (fold_left (fun b' l => if q (lname l) then bdel b' (lname l) else b') ls b) m
  = if existsb (fun l => q (lname l) && str_eqb m (lname l)) ls then [] else bget b m.
Proof.
  induction ls as [|l ls IH]; intros b m; simpl; auto.
  rewrite IH. destruct (existsb _ ls); [rewrite orb_true_r; reflexivity|]. rewrite orb_false_r.
  destruct (q (lname l)); simpl; auto. apply bget_bdel.
Qed.

Lemma binv_fold (f : builder -> label -> builder) ls :
  (forall b l, binv b -> binv (f b l)) -> forall b, binv b -> binv (fold_left f ls b).
Proof. intros Hf. induction ls as [|l ls IH]; simpl; auto. Qed.

Lemma fold_left_ext_fn {A B} (f g : A -> B -> A) ls : (forall a b, f a b = g a b) ->
  forall a, fold_left f ls a = fold_left g ls a.
Proof. intros H. induction ls as [|l ls IH]; simpl; intros a; auto. rewrite H. apply IH. Qed.

Lemma lget_filter_name (p : str -> bool) L m :
  lget (filter (fun l => p (lname l)) L) m = if p m then lget L m else [].
Proof.
  induction L as [|a t IH]; simpl.
  - destruct (p m); reflexivity.
  - destruct (p (lname a)) eqn:Ea.
    + rewrite !lget_cons, IH. destruct (name_is m a) eqn:E; auto.
      apply name_is_true in E. rewrite <- E, Ea. reflexivity.
    + rewrite lget_cons, IH. destruct (name_is m a) eqn:E; auto.
      apply name_is_true in E. rewrite <- E, Ea. reflexivity.
Qed.

Lemma ssorted_filter (p : label -> bool) L : ssorted L = true -> ssorted (filter p L) = true.
Proof.
  induction L as [|a t IH]; simpl; auto. intros Hs. apply ssorted_cons in Hs as [Hlb Hs].
  destruct (p a); auto. apply ssorted_cons. split; auto.
  intros l Hl. apply filter_In in Hl as [Hl _]. auto.
Qed.
Lemma canonical_filter (p : label -> bool) L : canonical L = true -> canonical (filter p L) = true.
Proof.
  rewrite !canonical_iff. intros [H1 H2]. split; [apply ssorted_filter; auto|].
  rewrite no_empty_forall in *. intros l Hl. apply filter_In in Hl as [Hl _]. auto.
Qed.

(* deleting, while ranging, every current label whose name satisfies q *)
Lemma bget_range_del (q : str -> bool) b m : binv b ->
  bget (fold_left (fun b' l => if q (lname l) then bdel b' (lname l) else b') (brange b) b) m
  = if q m then [] else bget b m.
Proof.
  intros Hb. rewrite bget_fold_del.
  destruct (existsb _ (brange b)) eqn:E.
  - apply existsb_exists in E as [l [_ E]]. apply andb_true_iff in E as [E1 E2].
    apply str_eqb_eq in E2. subst m. rewrite E1. reflexivity.
  - destruct (q m) eqn:Eq; auto.
    destruct (bget b m) as [|c v] eqn:Eg; auto. exfalso.
    assert (Hin : In (m, c :: v) (brange b)).
    { apply brange_in; auto. simpl. split; auto. discriminate. }
    assert (Ht : existsb (fun l => q (lname l) && str_eqb m (lname l)) (brange b) = true).
    { apply existsb_exists. eexists; split; eauto. simpl. rewrite Eq, str_eqb_refl. reflexivity. }
    congruence.
Qed.

(* ------------------------------------------------------------------ labelmap folds *)
Section LabelMapFold.
Variables (p : str -> bool) (f : str -> str).

Definition lm_pred (m : str) (l : label) : bool := p (lname l) && str_eqb m (f (lname l)).
Definition lm_stepB (b : builder) (l : label) : builder :=
  if p (lname l) then bset b (f (lname l)) (lvalue l) else b.
Definition lm_stepL (L : list label) (l : label) : list label :=
  if p (lname l) then lset L (f (lname l)) (lvalue l) else L.

Lemma bget_fold_map ls : forall b m,
  bget (fold_left lm_stepB ls b) m
  = match find (lm_pred m) (rev ls) with Some l => lvalue l | None => bget b m end.
Proof.
  induction ls as [|l ls IH] using rev_ind; intros b m; simpl; auto.
  rewrite fold_left_app, rev_app_distr. simpl. unfold lm_stepB at 1, lm_pred at 1.
  destruct (p (lname l)); simpl; auto. rewrite bget_bset. destruct (str_eqb m (f (lname l))); auto.
Qed.

Lemma canonical_fold_map ls : forall L, canonical L = true -> canonical (fold_left lm_stepL ls L) = true.
Proof.
  induction ls as [|l ls IH]; simpl; auto. intros L HL. apply IH. unfold lm_stepL.
  destruct (p (lname l)); auto using canonical_lset.
Qed.

Lemma lget_fold_map ls : forall L m, canonical L = true ->
  lget (fold_left lm_stepL ls L) m
  = match find (lm_pred m) (rev ls) with Some l => lvalue l | None => lget L m end.
Proof.
  induction ls as [|l ls IH] using rev_ind; intros L m HL; simpl; auto.
  rewrite fold_left_app, rev_app_distr. simpl. unfold lm_stepL at 1, lm_pred at 1.
  destruct (p (lname l)); simpl; auto. rewrite lget_lset.
  - destruct (str_eqb m (f (lname l))); auto.
  - apply canonical_iff. apply canonical_fold_map. exact HL.
Qed.

Definition collision_free (ls : list label) : Prop :=
  forall l1 l2, In l1 ls -> In l2 ls -> p (lname l1) = true -> p (lname l2) = true ->
                f (lname l1) = f (lname l2) -> lvalue l1 = lvalue l2.

Lemma find_order_indep ls1 ls2 m (g1 g2 : str) :
  (forall l, In l ls1 <-> In l ls2) -> collision_free ls1 -> g1 = g2 ->
  match find (lm_pred m) (rev ls1) with Some l => lvalue l | None => g1 end
  = match find (lm_pred m) (rev ls2) with Some l => lvalue l | None => g2 end.
Proof.
  intros Hiff Hcf ->.
  destruct (find (lm_pred m) (rev ls1)) as [l1|] eqn:E1; destruct (find (lm_pred m) (rev ls2)) as [l2|] eqn:E2; auto.
  - apply find_some in E1 as [I1 P1]. apply find_some in E2 as [I2 P2].
    apply in_rev in I1, I2. apply Hiff in I2. unfold lm_pred in *.
    apply andb_true_iff in P1 as [P1 Q1]. apply andb_true_iff in P2 as [P2 Q2].
    apply str_eqb_eq in Q1, Q2. apply Hcf; auto. congruence.
  - apply find_some in E1 as [I1 P1]. apply in_rev in I1. apply Hiff in I1. apply in_rev in I1.
    eapply find_none in E2; eauto. congruence.
  - apply find_some in E2 as [I2 P2]. apply in_rev in I2. apply Hiff in I2. apply in_rev in I2.
    eapply find_none in E1; eauto. congruence.
Qed.
End LabelMapFold.

(* ------------------------------------------------------------------ rule-level refinement *)
Definition labels_spec (b : builder) (L : list label) : Prop :=
  canonical L = true /\ forall n, lget L n = bget b n.

Definition default_re_text : str := [40; 46; 42; 41]%N.   (* the four bytes of DefaultRelabelConfig's regex: paren dot star paren *)

Lemma canonical_in L l : canonical L = true -> (In l L <-> (lget L (lname l) = lvalue l /\ lvalue l <> [])).
Proof.
  intros Hc. apply canonical_iff in Hc as [Hs Hn]. split.
  - intros Hin. split; [apply lget_in; auto using ssorted_NoDup|]. rewrite no_empty_forall in Hn. auto.
  - intros [Hg Hv]. rewrite <- Hg in Hv. apply lget_nonempty_in in Hv. rewrite Hg in Hv.
    destruct l; simpl in *; auto.
Qed.

Lemma spec_set b L n v : labels_spec b L -> labels_spec (bset b n v) (lset L n v).
Proof.
  intros [Hc Hg]. split; [apply canonical_lset; auto|].
  intros m. rewrite lget_lset, bget_bset, Hg; auto. apply canonical_iff in Hc. tauto.
Qed.

Lemma spec_range_iff b L : binv b -> labels_spec b L -> forall l, In l L <-> In l (brange b).
Proof.
  intros Hb [Hc Hg] l. rewrite (canonical_in _ _ Hc), (brange_in _ _ Hb), Hg. tauto.
Qed.

Lemma source_val_ext r g1 g2 : (forall n, g1 n = g2 n) -> source_val r g1 = source_val r g2.
Proof. intros H. unfold source_val. f_equal. apply map_ext. auto. Qed.

Section Refine.
Variable O : oracle.
(* assumed behaviour of the oracles (Go regexp): a template without '$' expands to itself;
   the default regex (dot-star in one group) matches the empty string *)
Hypothesis expand_literal : forall re t s idx, has_dollar t = false -> o_expand O re t s idx = t.
Hypothesis default_matches_empty : o_find O default_re_text [] <> None.

(* what Config.Validate guarantees and the property presupposes ("valid rule sequences") *)
Definition rule_ok (r : rule) : Prop :=
  (r_action r = HashMod -> r_modulus r <> 0%Z) /\
  (r_action r = Replace -> has_dollar (r_target r) = false -> o_valid O (r_utf8 r) (r_target r) = true) /\
  (r_default_re r = true -> r_regex r = default_re_text).

(* no two labels that labelmap copies to the same target name carry different values *)
Definition lm_cf (r : rule) (L : list label) : Prop :=
  r_action r = LabelMap ->
  collision_free (o_match O (r_regex r)) (fun n => o_replace_all O (r_regex r) n (r_repl r)) L.

Lemma relabel_refines r b L : binv b -> labels_spec b L -> rule_ok r -> lm_cf r L ->
  match relabel O r b with
  | OKeep b' => binv b' /\ exists L', doc_rule O r L = DKeep L' /\ labels_spec b' L'
  | ODrop b' => doc_rule O r L = DDrop
  | OPanic => False
  end.
Proof.
  intros Hb Hs (Hmod & Hval & Hdef) Hcf. pose proof Hs as [Hc Hg].
  unfold relabel, doc_rule.
  rewrite (source_val_ext r (lget L) (bget b) Hg). set (val := source_val r (bget b)).
  destruct (r_action r) eqn:Ea.
  - (* Replace *)
    destruct (fast_path r val) eqn:Efp.
    + unfold fast_path in Efp. repeat (apply andb_true_iff in Efp as [Efp ?]).
      apply is_empty_true in Efp. apply negb_true_iff in H, H0. rewrite Efp, (Hdef H1).
      destruct (o_find O default_re_text []) as [idx|] eqn:Ef; [|contradiction].
      rewrite !expand_literal by assumption. rewrite (Hval eq_refl H0).
      split; [apply binv_bset; auto|]. eexists; split; eauto. apply spec_set; auto.
    + destruct (o_find O (r_regex r) val) as [idx|]; [|split; eauto].
      destruct (o_valid O (r_utf8 r) (o_expand O (r_regex r) (r_target r) val idx)); simpl; [|split; eauto].
      destruct (is_empty (o_expand O (r_regex r) (r_repl r) val idx)) eqn:Ee.
      * apply is_empty_true in Ee. rewrite Ee. split; [apply binv_bdel; auto|].
        eexists; split; eauto. apply (spec_set b L _ []); auto.
      * split; [apply binv_bset; auto|]. eexists; split; eauto. apply spec_set; auto.
  - destruct (o_match O (r_regex r) val); auto. split; eauto.
  - destruct (o_match O (r_regex r) val); auto. split; eauto.
  - rewrite Hg. destruct (str_eqb _ val); auto. split; eauto.
  - rewrite Hg. destruct (str_eqb _ val); auto. split; eauto.
  - (* HashMod *)
    destruct (Z.eqb (r_modulus r) 0) eqn:Em; [apply Z.eqb_eq in Em; exact (Hmod eq_refl Em)|].
    split; [apply binv_bset; auto|]. eexists; split; eauto. apply spec_set; auto.
  - (* LabelMap *)
    set (p := o_match O (r_regex r)). set (f := fun n => o_replace_all O (r_regex r) n (r_repl r)).
    change (fold_left _ (brange b) b) with (fold_left (lm_stepB p f) (brange b) b).
    change (fold_left _ L L) with (fold_left (lm_stepL p f) L L).
    split.
    + apply binv_fold; auto. intros b0 l Hb0. unfold lm_stepB. destruct (p (lname l)); auto using binv_bset.
    + eexists; split; eauto. split; [apply canonical_fold_map; auto|].
      intros m. rewrite lget_fold_map, bget_fold_map by assumption.
      apply find_order_indep; auto. apply spec_range_iff; auto.
  - (* LabelDrop *)
    split.
    + apply binv_fold; auto. intros b0 l Hb0. destruct (o_match O (r_regex r) (lname l)); auto using binv_bdel.
    + eexists; split; eauto. split; [apply canonical_filter; auto|].
      intros m. rewrite (bget_range_del (o_match O (r_regex r))) by assumption.
      rewrite (lget_filter_name (fun n => negb (o_match O (r_regex r) n))), Hg.
      destruct (o_match O (r_regex r) m); reflexivity.
  - (* LabelKeep *)
    rewrite (fold_left_ext_fn _ (fun b' l => if negb (o_match O (r_regex r) (lname l)) then bdel b' (lname l) else b'))
      by (intros a0 b0; destruct (o_match O (r_regex r) (lname b0)); reflexivity).
    split.
    + apply binv_fold; auto. intros b0 l Hb0. destruct (negb _); auto using binv_bdel.
    + eexists; split; eauto. split; [apply canonical_filter; auto|].
      intros m. rewrite (bget_range_del (fun n => negb (o_match O (r_regex r) n))) by assumption.
      rewrite (lget_filter_name (fun n => o_match O (r_regex r) n)), Hg.
      destruct (o_match O (r_regex r) m); reflexivity.
  - split; [apply binv_bset; auto|]. eexists; split; eauto. apply spec_set; auto.
  - split; [apply binv_bset; auto|]. eexists; split; eauto. apply spec_set; auto.
Qed.
End Refine.

(* ------------------------------------------------------------------ chains *)
Section Chain.
Variable O : oracle.
Hypothesis expand_literal : forall re t s idx, has_dollar t = false -> o_expand O re t s idx = t.
Hypothesis default_matches_empty : o_find O default_re_text [] <> None.

(* along the documented run, no labelmap step has colliding targets with different values *)
Fixpoint chain_cf (rs : list rule) (L : list label) : Prop :=
  match rs with
  | [] => True
  | r :: rs' => lm_cf O r L /\ match doc_rule O r L with DKeep L' => chain_cf rs' L' | DDrop => True end
  end.

Lemma process_refines rs : forall b L, binv b -> labels_spec b L -> Forall (rule_ok O) rs -> chain_cf rs L ->
  match process O rs b with
  | OKeep b' => binv b' /\ exists L', doc_process O rs L = DKeep L' /\ labels_spec b' L'
  | ODrop _ => doc_process O rs L = DDrop
  | OPanic => False
  end.
Proof.
  induction rs as [|r rs IH]; intros b L Hb Hs Hok Hcf; simpl.
  - split; eauto.
  - inversion Hok; subst. destruct Hcf as [Hcf1 Hcf2].
    pose proof (relabel_refines O expand_literal default_matches_empty r b L Hb Hs H1 Hcf1) as Hr.
    destruct (relabel O r b) as [b'|b'|]; [|rewrite Hr; reflexivity|exact Hr].
    destruct Hr as (Hb' & L' & HL' & Hs'). rewrite HL' in *. apply IH; auto.
Qed.
End Chain.

(* keep/drop never touch the label set; a drop stops the chain *)
Lemma process_app O rs1 : forall rs2 b,
  process O (rs1 ++ rs2) b = match process O rs1 b with OKeep b' => process O rs2 b' | o => o end.
Proof.
  induction rs1 as [|r rs1 IH]; intros rs2 b; simpl; auto.
  destruct (relabel O r b); auto.
Qed.

(* ---- Sorting ---- *)

(* ------------------------------------------------------------------ sorting (Builder.Labels) *)
Lemma ins_label_in x L l : In l (ins_label x L) <-> l = x \/ In l L.
Proof.
  induction L as [|y t IH]; simpl.
  - split; intros [H|H]; auto.
  - destruct (str_ltb (lname y) (lname x)); simpl; rewrite ?IH; split; intros H; intuition auto.
Qed.
Lemma sort_labels_in L l : In l (sort_labels L) <-> In l L.
Proof.
  induction L as [|a t IH]; simpl; [tauto|]. rewrite ins_label_in, IH. split; intros [H|H]; auto.
Qed.
Lemma sort_labels_names L n : In n (map lname (sort_labels L)) <-> In n (map lname L).
Proof. rewrite !in_map_iff. split; intros [l [H1 H2]]; exists l; split; auto; apply sort_labels_in; auto. Qed.

Lemma ins_label_sorted x L : ssorted L = true -> ~ In (lname x) (map lname L) -> ssorted (ins_label x L) = true.
Proof.
  induction L as [|y t IH]; intros Hs Hx; simpl; auto.
  apply ssorted_cons in Hs as [Hlb Hs].
  destruct (str_ltb (lname y) (lname x)) eqn:E.
  - apply ssorted_cons. split.
    + intros l Hl. apply ins_label_in in Hl as [->|Hl]; auto.
    + apply IH; auto. simpl in Hx. tauto.
  - assert (Hxy : str_ltb (lname x) (lname y) = true).
    { destruct (str_ltb (lname x) (lname y)) eqn:E2; auto. exfalso. apply Hx. simpl. left.
      symmetry. apply str_ltb_total; auto. }
    apply ssorted_cons. split.
    + intros l [<-|Hl]; auto. eapply str_ltb_trans; eauto.
    + apply ssorted_cons. auto.
Qed.
Lemma sort_labels_sorted L : NoDup (map lname L) -> ssorted (sort_labels L) = true.
Proof.
  induction L as [|a t IH]; simpl; intros H; auto. inversion H; subst.
  apply ins_label_sorted; auto. rewrite sort_labels_names. auto.
Qed.

Lemma find_same_members L1 L2 m : NoDup (map lname L1) -> NoDup (map lname L2) ->
  (forall l, In l L1 <-> In l L2) -> find (name_is m) L1 = find (name_is m) L2.
Proof.
  intros N1 N2 Hiff.
  destruct (find (name_is m) L1) as [x|] eqn:E1.
  - apply find_name_some in E1 as [E1 I1]. apply Hiff in I1. subst m. symmetry. apply find_unique; auto.
  - destruct (find (name_is m) L2) as [y|] eqn:E2; auto.
    apply find_name_some in E2 as [E2 I2]. apply Hiff in I2. apply find_name_none in E1.
    exfalso. apply E1. subst m. apply in_map. auto.
Qed.

Fixpoint wsorted (d : list str) : Prop :=
  match d with [] => True | x :: t => (forall y, In y t -> str_ltb y x = false) /\ wsorted t end.

Lemma ins_str_in x d y : In y (ins_str x d) <-> y = x \/ In y d.
Proof.
  induction d as [|z t IH]; simpl.
  - split; intros [H|H]; auto.
  - destruct (str_ltb z x); simpl; rewrite ?IH; split; intros H; intuition auto.
Qed.
Lemma sort_strs_in d y : In y (sort_strs d) <-> In y d.
Proof. induction d as [|a t IH]; simpl; [tauto|]. rewrite ins_str_in, IH. split; intros [H|H]; auto. Qed.

Lemma str_lt_le_trans z x y : str_ltb z x = true -> str_ltb y x = false -> str_ltb z y = true.
Proof.
  intros H1 H2. destruct (str_cmp_cases x y) as [[_ H]|[[_ H]|[_ H]]].
  - eapply str_ltb_trans; eauto.
  - subst; auto.
  - congruence.
Qed.

Lemma ins_str_sorted x d : wsorted d -> wsorted (ins_str x d).
Proof.
  induction d as [|y t IH]; simpl; intros H.
  - split; auto. intros y [].
  - destruct H as [H1 H2]. destruct (str_ltb y x) eqn:E; simpl.
    + split; auto. intros z Hz. apply ins_str_in in Hz as [->|Hz]; auto. apply str_ltb_asym; auto.
    + split; [|split; auto]. intros z [<-|Hz]; auto.
      destruct (str_ltb z x) eqn:E2; auto.
      pose proof (str_lt_le_trans _ _ _ E2 E) as H3. rewrite (H1 z Hz) in H3. discriminate.
Qed.
Lemma sort_strs_sorted d : wsorted (sort_strs d).
Proof. induction d; simpl; auto using ins_str_sorted. Qed.

Definition hd_is (n : str) (d : list str) : bool := match d with x :: _ => str_eqb x n | [] => false end.

Lemma mem_str_cons m x t : mem_str m (x :: t) = str_eqb m x || mem_str m t.
Proof. reflexivity. Qed.

Lemma drop_lt_spec n d : wsorted d ->
  wsorted (drop_lt n d) /\
  (forall m, str_ltb m n = false -> mem_str m (drop_lt n d) = mem_str m d) /\
  hd_is n (drop_lt n d) = mem_str n d.
Proof.
  induction d as [|x t IH]; cbn [drop_lt]; intros H.
  - repeat split; auto.
  - destruct H as [H1 H2]. destruct (str_ltb x n) eqn:E.
    + destruct (IH H2) as (I1 & I2 & I3). split; auto. split.
      * intros m Hm. rewrite I2 by auto. rewrite mem_str_cons.
        destruct (str_eqb m x) eqn:Emx; auto. apply str_eqb_eq in Emx. subst. congruence.
      * rewrite I3, mem_str_cons. destruct (str_eqb n x) eqn:Enx; auto.
        apply str_eqb_eq in Enx. subst. rewrite str_ltb_irrefl in E. discriminate.
    + split; [simpl; auto|]. split; auto. unfold hd_is. rewrite mem_str_cons, (str_eqb_sym n x).
      destruct (str_eqb x n) eqn:Exn; auto. simpl.
      destruct (mem_str n t) eqn:Em; auto. apply mem_str_in in Em. apply H1 in Em.
      (* n in t, so not n < x; and not x < n; so x = n *)
      apply str_eqb_neq in Exn. exfalso. apply Exn. apply str_ltb_total; auto.
Qed.

Lemma span_lt_spec n a : forall e a', span_lt n a = (e, a') ->
  a = e ++ a' /\ (forall x, In x e -> str_ltb (lname x) n = true) /\
  match a' with y :: _ => str_ltb (lname y) n = false | [] => True end.
Proof.
  induction a as [|x t IH]; simpl; intros e a' H.
  - inversion H; subst. repeat split; auto; intros ? [].
  - destruct (str_ltb (lname x) n) eqn:E.
    + destruct (span_lt n t) as [e0 r0]. inversion H; subst.
      destruct (IH _ _ eq_refl) as (I1 & I2 & I3). subst t. repeat split; auto.
      intros y [<-|Hy]; auto.
    + inversion H; subst. repeat split; auto; intros ? [].
Qed.

Lemma find_app {A} (p : A -> bool) l1 l2 :
  find p (l1 ++ l2) = match find p l1 with Some x => Some x | None => find p l2 end.
Proof. induction l1 as [|a t IH]; simpl; auto. destruct (p a); auto. Qed.

Lemma ssorted_app e X : ssorted (e ++ X) = true <->
  (ssorted e = true /\ ssorted X = true /\ forall x y, In x e -> In y X -> str_ltb (lname x) (lname y) = true).
Proof.
  induction e as [|a t IH].
  - simpl. split; [intros H; repeat split; auto; intros x y []|tauto].
  - rewrite <- app_comm_cons. rewrite !ssorted_cons, IH. split.
    + intros (H1 & H2 & H3 & H4). repeat split; auto.
      * intros l Hl. apply H1. apply in_or_app. auto.
      * intros x y [<-|Hx] Hy; auto. apply H1. apply in_or_app. auto.
    + intros ((H1 & H2) & H3 & H4). repeat split; auto.
      * intros l Hl. apply in_app_or in Hl as [Hl|Hl]; auto. apply H4; simpl; auto.
      * intros x y Hx Hy. apply H4; simpl; auto.
Qed.

Lemma merge_unfold l rest d a :
  merge_labels (l :: rest) d a =
  let d' := drop_lt (lname l) d in
  if hd_is (lname l) d' then merge_labels rest d' a
  else let (e, a') := span_lt (lname l) a in
       match a' with
       | y :: a'' => if str_eqb (lname y) (lname l) then e ++ y :: merge_labels rest d' a''
                     else e ++ l :: merge_labels rest d' a'
       | [] => e ++ l :: merge_labels rest d' []
       end.
Proof.
  simpl. destruct (drop_lt (lname l) d) as [|x t]; simpl; auto.
Qed.

Lemma merge_members base : forall d a l, In l (merge_labels base d a) -> In l base \/ In l a.
Proof.
  induction base as [|b rest IH]; intros d a l; [simpl; auto|].
  rewrite merge_unfold. cbv zeta. destruct (hd_is _ _).
  - intros H. apply IH in H. simpl. tauto.
  - destruct (span_lt (lname b) a) as [e a'] eqn:Es. apply span_lt_spec in Es as (Ea & _ & _). subst a.
    destruct a' as [|y a''].
    + intros H. apply in_app_or in H as [H|[H|H]]; simpl; auto.
      * right. apply in_or_app. auto.
      * apply IH in H. simpl in H. tauto.
    + destruct (str_eqb (lname y) (lname b)); intros H; apply in_app_or in H as [H|[H|H]]; simpl;
        try (right; apply in_or_app; simpl; auto; fail); auto;
        apply IH in H as [H|H]; auto; right; apply in_or_app; simpl; auto.
Qed.

(* ---- Merge ---- *)

Lemma lget_app e X m :
  lget (e ++ X) m = match find (name_is m) e with Some x => lvalue x | None => lget X m end.
Proof. unfold lget. rewrite find_app. destruct (find _ e); auto. Qed.

Lemma lget_below L n m : lb_all n L -> (m = n \/ str_ltb m n = true) -> lget L m = [].
Proof. intros H1 H2. apply lget_absent. eapply lb_all_notin; eauto. Qed.

Lemma name_is_false_neq m l : name_is m l = false -> m <> lname l.
Proof. intros H ->. unfold name_is in H. rewrite str_eqb_refl in H. discriminate. Qed.

Lemma bget_mk base d a m :
  bget (mkB base d a) m = match find (name_is m) a with Some x => lvalue x | None => if mem_str m d then [] else lget base m end.
Proof. reflexivity. Qed.

Lemma merge_spec base : forall d a, ssorted base = true -> wsorted d -> ssorted a = true ->
  ssorted (merge_labels base d a) = true /\
  forall m, lget (merge_labels base d a) m = bget (mkB base d a) m.
Proof.
  induction base as [|l rest IH]; intros d a Hb Hd Ha.
  - simpl. split; auto. intros m. rewrite bget_mk. unfold lget. simpl.
    destruct (find (name_is m) a); auto. destruct (mem_str m d); auto.
  - apply ssorted_cons in Hb as [Hlb Hrest]. rewrite merge_unfold. cbv zeta.
    destruct (drop_lt_spec (lname l) d Hd) as (D1 & D2 & D3).
    remember (drop_lt (lname l) d) as d' eqn:Ed'.
    assert (Tail : forall m, m <> lname l ->
              (if mem_str m d' then [] else lget rest m) = (if mem_str m d then [] else lget rest m)).
    { intros m Hne. destruct (str_ltb m (lname l)) eqn:E.
      - rewrite (lget_below rest (lname l) m) by auto. destruct (mem_str m d'), (mem_str m d); auto.
      - rewrite D2; auto. }
    rewrite D3. destruct (mem_str (lname l) d) eqn:Edel.
    + (* the base label is deleted *)
      destruct (IH d' a Hrest D1 Ha) as [S G]. split; auto. intros m. rewrite G, !bget_mk.
      destruct (find (name_is m) a); auto. rewrite lget_cons.
      destruct (name_is m l) eqn:Eml.
      * apply name_is_true in Eml. subst m. rewrite D2 by apply str_ltb_irrefl. rewrite Edel. reflexivity.
      * apply Tail. apply name_is_false_neq; auto.
    + destruct (span_lt (lname l) a) as [e a'] eqn:Es. apply span_lt_spec in Es as (Ea & Elt & Ehd). subst a.
      apply ssorted_app in Ha as (Se & Sa' & Cross).
      assert (CaseKeep : lb_all (lname l) a' ->
                ssorted (e ++ l :: merge_labels rest d' a') = true /\
                forall m, lget (e ++ l :: merge_labels rest d' a') m = bget (mkB (l :: rest) d (e ++ a')) m).
      { intros Hla. destruct (IH d' a' Hrest D1 Sa') as [S G]. split.
        - apply ssorted_app. split; auto. split.
          + apply ssorted_cons. split; auto. intros x Hx. apply merge_members in Hx as [Hx|Hx]; auto.
          + intros x z Hx [<-|Hz]; auto. apply merge_members in Hz as [Hz|Hz]; auto.
            eapply str_ltb_trans; [apply Elt; auto|apply Hlb; auto].
        - intros m. rewrite lget_app, lget_cons, G, !bget_mk, find_app.
          destruct (find (name_is m) e); auto. rewrite lget_cons.
          destruct (name_is m l) eqn:Eml.
          + apply name_is_true in Eml. subst m.
            assert (Hn : find (name_is (lname l)) a' = None).
            { apply find_name_none. eapply lb_all_notin; eauto. }
            rewrite Hn, Edel. reflexivity.
          + destruct (find (name_is m) a'); auto. apply Tail. apply name_is_false_neq; auto. }
      destruct a' as [|y a''].
      * apply CaseKeep. intros x [].
      * destruct (str_eqb (lname y) (lname l)) eqn:Ey.
        -- (* the base label is replaced by the added one *)
           apply str_eqb_eq in Ey. apply ssorted_cons in Sa' as [Hly Sa''].
           destruct (IH d' a'' Hrest D1 Sa'') as [S G]. split.
           ++ apply ssorted_app. split; auto. split.
              ** apply ssorted_cons. split; auto. intros x Hx. apply merge_members in Hx as [Hx|Hx]; auto.
                 rewrite Ey. auto.
              ** intros x z Hx [<-|Hz]; [apply Cross; simpl; auto|].
                 apply merge_members in Hz as [Hz|Hz]; [|apply Cross; simpl; auto].
                 eapply str_ltb_trans; [apply Elt; auto|apply Hlb; auto].
           ++ intros m. rewrite lget_app, lget_cons, G, !bget_mk, find_app.
              destruct (find (name_is m) e); auto. simpl.
              destruct (name_is m y) eqn:Emy; auto.
              destruct (find (name_is m) a''); auto. rewrite lget_cons.
              assert (Eml : name_is m l = false).
              { unfold name_is in *. rewrite <- Ey. exact Emy. }
              rewrite Eml. apply Tail. apply name_is_false_neq; auto.
        -- apply CaseKeep.
           assert (Hly : str_ltb (lname l) (lname y) = true).
           { destruct (str_ltb (lname l) (lname y)) eqn:E2; auto.
             apply str_eqb_neq in Ey. exfalso. apply Ey. apply str_ltb_total; auto. }
           apply ssorted_cons in Sa' as [Hy _].
           intros x [<-|Hx]; auto. eapply str_ltb_trans; eauto.
Qed.

(* ---- Blabels ---- *)

Lemma merge_members2 base : forall d a x, ssorted base = true -> wsorted d ->
  In x (merge_labels base d a) -> (In x base /\ mem_str (lname x) d = false) \/ In x a.
Proof.
  induction base as [|b rest IH]; intros d a x Hb Hd; [simpl; auto|].
  apply ssorted_cons in Hb as [Hlb Hrest].
  destruct (drop_lt_spec (lname b) d Hd) as (D1 & D2 & D3).
  rewrite merge_unfold. cbv zeta. rewrite D3.
  assert (Up : forall y aa, In y (merge_labels rest (drop_lt (lname b) d) aa) ->
                (In y (b :: rest) /\ mem_str (lname y) d = false) \/ In y aa).
  { intros y aa Hy. apply IH in Hy as [[Hy1 Hy2]|Hy]; auto. left. split; [simpl; auto|].
    rewrite <- D2; auto. apply str_ltb_asym. auto. }
  destruct (mem_str (lname b) d) eqn:Edel.
  - intros H. apply Up in H. exact H.
  - destruct (span_lt (lname b) a) as [e a'] eqn:Es. apply span_lt_spec in Es as (Ea & _ & _). subst a.
    destruct a' as [|y a''].
    + intros H. apply in_app_or in H as [H|[H|H]].
      * right. apply in_or_app. auto.
      * subst x. left. split; simpl; auto.
      * apply Up in H as [H|[]]. auto.
    + destruct (str_eqb (lname y) (lname b)); intros H; apply in_app_or in H as [H|[H|H]].
      * right. apply in_or_app. auto.
      * subst x. right. apply in_or_app. simpl. auto.
      * apply Up in H as [H|H]; auto. right. apply in_or_app. simpl. auto.
      * right. apply in_or_app. auto.
      * subst x. left. split; simpl; auto.
      * apply Up in H as [H|H]; auto. right. apply in_or_app. auto.
Qed.

Lemma mem_str_sort m d : mem_str m (sort_strs d) = mem_str m d.
Proof.
  destruct (mem_str m d) eqn:E.
  - apply mem_str_in. apply sort_strs_in. apply mem_str_in. exact E.
  - destruct (mem_str m (sort_strs d)) eqn:E2; auto.
    apply (proj1 (mem_str_in _ _)) in E2. apply (proj1 (sort_strs_in _ _)) in E2. apply (proj2 (mem_str_in _ _)) in E2. congruence.
Qed.

(* Builder.Labels() returns the canonical label set whose lookups are the builder's Get *)
Theorem blabels_spec b : binv b -> labels_spec b (blabels b).
Proof.
  intros (H1 & H2 & H3 & H4). unfold labels_spec, blabels.
  assert (Hmain : labels_spec b (merge_labels (b_base b) (sort_strs (b_del b)) (sort_labels (b_add b)))).
  { pose proof (sort_labels_sorted _ H2) as Sa.
    destruct (merge_spec (b_base b) (sort_strs (b_del b)) (sort_labels (b_add b)) H1 (sort_strs_sorted _) Sa) as [S G].
    split.
    - apply canonical_iff. split; auto. apply no_empty_forall. intros l Hl.
      apply merge_members2 in Hl as [[Hl1 Hl2]|Hl]; auto using sort_strs_sorted.
      + intros Hv. apply H4 in Hv; auto. rewrite mem_str_sort in Hl2. apply (proj2 (mem_str_in _ _)) in Hv. congruence.
      + apply (proj1 (sort_labels_in _ _)) in Hl. auto.
    - intros m. rewrite G, bget_mk. unfold bget. rewrite mem_str_sort.
      rewrite (find_same_members (sort_labels (b_add b)) (b_add b)); auto using ssorted_NoDup.
      intros l. apply sort_labels_in. }
  destruct (b_del b) eqn:Ed; auto. destruct (b_add b) eqn:Ea; auto.
  split.
  - apply canonical_iff. split; auto. apply no_empty_forall. intros l Hl Hv. apply (H4 l Hl Hv).
  - intros m. unfold bget. rewrite Ed, Ea. reflexivity.
Qed.

Definition strip_empty (base : list label) : list label :=
  filter (fun l => negb (is_empty (lvalue l))) base.

Lemma binv_new base : ssorted base = true -> binv (new_builder base).
Proof.
  intros Hs. unfold binv, new_builder; simpl. split; [exact Hs|]. split; [constructor|]. split; [intros a []|].
  intros l Hl Hv. apply in_map_iff. exists l. split; auto. apply filter_In. split; auto.
  apply is_empty_true. auto.
Qed.

Lemma spec_new base : ssorted base = true -> labels_spec (new_builder base) (strip_empty base).
Proof.
  intros Hs. split.
  - apply canonical_iff. split; [apply ssorted_filter; auto|].
    apply no_empty_forall. intros l Hl. apply filter_In in Hl as [_ Hl]. apply negb_true_iff in Hl.
    intros Hv. rewrite Hv in Hl. discriminate.
  - intros m. unfold bget, new_builder; simpl. unfold strip_empty, lget.
    induction base as [|a t IH]; simpl; auto.
    apply ssorted_cons in Hs as [Hlb Hs]. specialize (IH Hs).
    destruct (is_empty (lvalue a)) eqn:Ev; simpl.
    + destruct (name_is m a) eqn:Em.
      * apply name_is_true in Em. rewrite Em, str_eqb_refl. simpl.
        assert (Hn : find (name_is m) (filter (fun l => negb (is_empty (lvalue l))) t) = None).
        { apply find_name_none. intros Hin. apply in_map_iff in Hin as [x [Hx1 Hx2]].
          apply filter_In in Hx2 as [Hx2 _]. apply Hlb in Hx2. rewrite Hx1, <- Em, str_ltb_irrefl in Hx2. discriminate. }
        rewrite Hn. reflexivity.
      * rewrite IH. unfold name_is in Em. rewrite str_eqb_sym in Em. rewrite Em. reflexivity.
    + destruct (name_is m a) eqn:Em.
      * apply name_is_true in Em.
        assert (Hn : mem_str m (map lname (filter (fun l => is_empty (lvalue l)) t)) = false).
        { destruct (mem_str m _) eqn:E; auto. apply mem_str_in in E. apply in_map_iff in E as [x [Hx1 Hx2]].
          apply filter_In in Hx2 as [Hx2 _]. apply Hlb in Hx2. rewrite Hx1, <- Em, str_ltb_irrefl in Hx2. discriminate. }
        rewrite Hn. reflexivity.
      * exact IH.
Qed.

(* ---- Final ---- *)

(* ------------------------------------------------------------------ invariant along any chain *)
Lemma relabel_binv O r b : binv b ->
  match relabel O r b with OKeep b' | ODrop b' => binv b' | OPanic => True end.
Proof.
  intros Hb. unfold relabel. destruct (r_action r).
  - destruct (fast_path r _); [apply binv_bset; auto|].
    destruct (o_find O _ _); auto. destruct (negb _); auto.
    destruct (is_empty _); [apply binv_bdel|apply binv_bset]; auto.
  - destruct (o_match O _ _); auto.
  - destruct (o_match O _ _); auto.
  - destruct (str_eqb _ _); auto.
  - destruct (str_eqb _ _); auto.
  - destruct (Z.eqb _ _); auto. apply binv_bset; auto.
  - apply binv_fold; auto. intros b0 l Hb0. destruct (o_match O _ _); auto using binv_bset.
  - apply binv_fold; auto. intros b0 l Hb0. destruct (o_match O _ _); auto using binv_bdel.
  - apply binv_fold; auto. intros b0 l Hb0. destruct (o_match O _ _); auto using binv_bdel.
  - apply binv_bset; auto.
  - apply binv_bset; auto.
Qed.

Lemma process_binv O rs : forall b, binv b ->
  match process O rs b with OKeep b' | ODrop b' => binv b' | OPanic => True end.
Proof.
  induction rs as [|r rs IH]; intros b Hb; simpl; auto.
  pose proof (relabel_binv O r b Hb) as H. destruct (relabel O r b); auto. apply IH. exact H.
Qed.

Lemma labels_spec_unique b L1 L2 : labels_spec b L1 -> labels_spec b L2 -> L1 = L2.
Proof. intros [C1 G1] [C2 G2]. apply canonical_ext; auto. intros n. rewrite G1, G2. reflexivity. Qed.

(* a rule that drops leaves the builder as it was *)
Lemma relabel_drop_unchanged O r b b' : relabel O r b = ODrop b' -> b' = b.
Proof.
  unfold relabel. destruct (r_action r);
    repeat match goal with
           | |- context [if ?c then _ else _] => destruct c
           | |- context [match o_find ?a ?b ?c with _ => _ end] => destruct (o_find a b c)
           end; intros H; inversion H; auto.
Qed.

(* ------------------------------------------------------------------ order of Range *)
Lemma NoDup_app_disjoint {A} (l1 l2 : list A) :
  NoDup l1 -> NoDup l2 -> (forall x, In x l1 -> ~ In x l2) -> NoDup (l1 ++ l2).
Proof.
  induction l1 as [|a t IH]; simpl; intros H1 H2 Hd; auto.
  inversion H1; subst. constructor.
  - intros Hin. apply in_app_or in Hin as [Hin|Hin]; auto. apply (Hd a); auto.
  - apply IH; auto.
Qed.

Lemma NoDup_filter {A} (p : A -> bool) l : NoDup l -> NoDup (filter p l).
Proof.
  induction l as [|a t IH]; simpl; intros H; auto. inversion H; subst.
  destruct (p a); auto. constructor; auto. intros Hin. apply filter_In in Hin as [Hin _]. auto.
Qed.

Lemma NoDup_of_names (L : list label) : NoDup (map lname L) -> NoDup L.
Proof. apply NoDup_map_inv. Qed.

Lemma brange_NoDup b : binv b -> NoDup (brange b).
Proof.
  intros (H1 & H2 & H3 & H4). unfold brange. apply NoDup_app_disjoint.
  - apply NoDup_filter. apply NoDup_of_names. apply ssorted_NoDup; auto.
  - apply NoDup_of_names; auto.
  - intros x Hx Hin. apply filter_In in Hx as [_ Hx]. apply andb_true_iff in Hx as [_ Hx].
    apply negb_true_iff in Hx. assert (Ht : has_name (lname x) (b_add b) = true).
    { apply has_name_in. apply in_map. auto. }
    congruence.
Qed.

Lemma brange_perm b L : binv b -> labels_spec b L -> Permutation (brange b) L.
Proof.
  intros Hb Hs. apply NoDup_Permutation.
  - apply brange_NoDup; auto.
  - destruct Hs as [Hc _]. apply canonical_iff in Hc as [Hc _]. apply NoDup_of_names, ssorted_NoDup; auto.
  - intros l. symmetry. apply spec_range_iff; auto.
Qed.

Lemma action_eq_dec (a b : action) : {a = b} + {a <> b}.
Proof. decide equality. Qed.

(* ------------------------------------------------------------------ documented semantics with
   the labelmap visiting order left unspecified *)
Section AnyOrder.
Variable O : oracle.
Hypothesis expand_literal : forall re t s idx, has_dollar t = false -> o_expand O re t s idx = t.
Hypothesis default_matches_empty : o_find O default_re_text [] <> None.

Definition doc_labelmap (r : rule) (ord L : list label) : list label :=
  fold_left (fun acc l => if o_match O (r_regex r) (lname l)
                          then lset acc (o_replace_all O (r_regex r) (lname l) (r_repl r)) (lvalue l)
                          else acc) ord L.

Inductive doc_rule_rel (r : rule) (L : list label) : doc_outcome -> Prop :=
| drr_labelmap ord : r_action r = LabelMap -> Permutation ord L -> doc_rule_rel r L (DKeep (doc_labelmap r ord L))
| drr_other : r_action r <> LabelMap -> doc_rule_rel r L (doc_rule O r L).

Inductive doc_process_rel : list rule -> list label -> doc_outcome -> Prop :=
| dpr_nil L : doc_process_rel [] L (DKeep L)
| dpr_keep r rs L L' out : doc_rule_rel r L (DKeep L') -> doc_process_rel rs L' out -> doc_process_rel (r :: rs) L out
| dpr_drop r rs L : doc_rule_rel r L DDrop -> doc_process_rel (r :: rs) L DDrop.

Lemma relabel_refines_rel r b L : binv b -> labels_spec b L -> rule_ok O r ->
  match relabel O r b with
  | OKeep b' => binv b' /\ exists L', doc_rule_rel r L (DKeep L') /\ labels_spec b' L'
  | ODrop b' => doc_rule_rel r L DDrop
  | OPanic => False
  end.
Proof.
  intros Hb Hs Hok.
  destruct (action_eq_dec (r_action r) LabelMap) as [Ea|Ea].
  - pose proof Hs as [Hc Hg]. unfold relabel. rewrite Ea.
    set (p := o_match O (r_regex r)). set (f := fun n => o_replace_all O (r_regex r) n (r_repl r)).
    change (fold_left _ (brange b) b) with (fold_left (lm_stepB p f) (brange b) b).
    split.
    + apply binv_fold; auto. intros b0 l Hb0. unfold lm_stepB. destruct (p (lname l)); auto using binv_bset.
    + exists (doc_labelmap r (brange b) L). split.
      * constructor; auto. apply brange_perm; auto.
      * unfold doc_labelmap. change (fold_left _ (brange b) L) with (fold_left (lm_stepL p f) (brange b) L).
        split; [apply canonical_fold_map; auto|].
        intros m. rewrite lget_fold_map, bget_fold_map by assumption. rewrite Hg. reflexivity.
  - assert (Hcf : lm_cf O r L) by (intros E; contradiction).
    pose proof (relabel_refines O expand_literal default_matches_empty r b L Hb Hs Hok Hcf) as H.
    destruct (relabel O r b) as [b'|b'|]; auto.
    + destruct H as (Hb' & L' & HL' & Hs'). split; auto. exists L'. split; auto.
      rewrite <- HL'. apply drr_other; auto.
    + rewrite <- H. apply drr_other; auto.
Qed.

Lemma process_refines_rel rs : forall b L, binv b -> labels_spec b L -> Forall (rule_ok O) rs ->
  match process O rs b with
  | OKeep b' => binv b' /\ exists L', doc_process_rel rs L (DKeep L') /\ labels_spec b' L'
  | ODrop _ => doc_process_rel rs L DDrop
  | OPanic => False
  end.
Proof.
  induction rs as [|r rs IH]; intros b L Hb Hs Hok; simpl.
  - split; auto. exists L. split; auto. constructor.
  - inversion Hok; subst.
    pose proof (relabel_refines_rel r b L Hb Hs H1) as Hr.
    destruct (relabel O r b) as [b'|b'|]; [|apply dpr_drop; auto|exact Hr].
    destruct Hr as (Hb' & L' & HL' & Hs'). specialize (IH b' L' Hb' Hs' H2).
    destruct (process O rs b') as [b''|b''|]; auto.
    + destruct IH as (Hb'' & L'' & HL'' & Hs''). split; auto. exists L''. split; auto.
      eapply dpr_keep; eauto.
    + eapply dpr_keep; eauto.
Qed.
End AnyOrder.

(* ---- DelLoop ---- *)

(* ------------------------------------------------------------------ Builder.Del's in-place loop *)
Lemma del_loop_nomatch n : forall steps i arr len,
  i + steps = length arr ->
  (forall j a, i <= j -> nth_error arr j = Some a -> name_is n a = false) ->
  del_loop n steps i arr len = Some (arr, len).
Proof.
  induction steps as [|steps IH]; intros i arr len Hlen Hno; simpl; auto.
  destruct (nth_error arr i) as [a|] eqn:E.
  - rewrite (Hno i a (le_n _) E). apply IH; [lia|]. intros j x Hj. apply Hno. lia.
  - apply nth_error_None in E. lia.
Qed.

Lemma remove_add_nomatch n L : (forall a, In a L -> name_is n a = false) -> remove_add n L = L.
Proof.
  unfold remove_add. induction L as [|a t IH]; simpl; intros H; auto.
  rewrite (H a) by auto. simpl. f_equal. apply IH. intros; apply H; auto.
Qed.

Lemma remove_add_app n L1 L2 : remove_add n (L1 ++ L2) = remove_add n L1 ++ remove_add n L2.
Proof. unfold remove_add. apply filter_app. Qed.

Lemma del_loop_spec n : forall suf pre,
  NoDup (map lname (pre ++ suf)) ->
  (forall a, In a pre -> name_is n a = false) ->
  exists arr' len',
    del_loop n (length suf) (length pre) (pre ++ suf) (length (pre ++ suf)) = Some (arr', len')
    /\ firstn len' arr' = remove_add n (pre ++ suf).
Proof.
  induction suf as [|a suf' IH]; intros pre Hnd Hpre.
  - simpl. exists (pre ++ []), (length (pre ++ [])). split; auto.
    rewrite firstn_all. symmetry. apply remove_add_nomatch. intros a Ha. rewrite app_nil_r in Ha. auto.
  - cbn [del_loop length].
    assert (Hnth : nth_error (pre ++ a :: suf') (length pre) = Some a).
    { rewrite nth_error_app2 by lia. rewrite Nat.sub_diag. reflexivity. }
    rewrite Hnth. destruct (name_is n a) eqn:Ea.
    + (* the entry to delete *)
      assert (Hsuf : forall x, In x suf' -> name_is n x = false).
      { intros x Hx. destruct (name_is n x) eqn:Ex; auto. exfalso.
        apply name_is_true in Ea, Ex. rewrite map_app in Hnd. apply NoDup_remove_2 in Hnd.
        apply Hnd. simpl. apply in_or_app. right. rewrite Ea, <- Ex. apply in_map. auto. }
      assert (Hle : Nat.leb (S (length pre)) (length (pre ++ a :: suf')) = true).
      { apply Nat.leb_le. rewrite app_length. simpl. lia. }
      rewrite Hle. rewrite firstn_all.
      assert (F1 : firstn (length pre) (pre ++ a :: suf') = pre).
      { rewrite firstn_app, Nat.sub_diag, firstn_all. simpl. apply app_nil_r. }
      assert (F2 : skipn (S (length pre)) (pre ++ a :: suf') = suf').
      { rewrite skipn_app. rewrite skipn_all2 by lia.
        replace (S (length pre) - length pre) with 1 by lia. reflexivity. }
      rewrite F1, F2.
      set (X := skipn (length (pre ++ a :: suf') - 1) (pre ++ a :: suf')).
      assert (HX : forall x, In x X -> suf' <> [] -> In x suf').
      { intros x Hx Hne. unfold X in Hx.
        destruct (exists_last Hne) as [s'' [z Hz]]. subst suf'.
        replace (pre ++ a :: s'' ++ [z]) with ((pre ++ a :: s'') ++ [z]) in Hx
          by (rewrite <- app_assoc; reflexivity).
        rewrite app_length in Hx. simpl in Hx.
        replace (length (pre ++ a :: s'') + 1 - 1) with (length (pre ++ a :: s'')) in Hx by lia.
        rewrite skipn_app, skipn_all, Nat.sub_diag in Hx. simpl in Hx.
        apply in_or_app. right. exact Hx. }
      assert (LX : length X = 1).
      { unfold X. rewrite skipn_length, app_length. simpl. lia. }
      assert (Hloop : del_loop n (length suf') (S (length pre)) (pre ++ suf' ++ X) (length (pre ++ a :: suf') - 1)
                      = Some (pre ++ suf' ++ X, length (pre ++ a :: suf') - 1)).
      { apply del_loop_nomatch.
        - rewrite !app_length. lia.
        - intros j x Hj Hx.
          rewrite nth_error_app2 in Hx by lia.
          destruct suf' as [|s0 st] eqn:Es.
          + (* then j is out of range *)
            simpl in Hx. assert (Hlt : j - length pre < length X) by (apply nth_error_Some; congruence). lia.
          + apply nth_error_In in Hx. apply in_app_or in Hx as [Hx|Hx]; auto.
            apply Hsuf. apply HX; auto. discriminate. }
      rewrite Hloop. eexists _, _. split; [reflexivity|].
      rewrite remove_add_app. rewrite (remove_add_nomatch n pre) by auto.
      unfold remove_add at 1. simpl. rewrite Ea. simpl. fold (remove_add n suf').
      rewrite (remove_add_nomatch n suf') by auto.
      rewrite app_assoc. rewrite firstn_app.
      replace (length (pre ++ a :: suf') - 1) with (length (pre ++ suf')) by (rewrite !app_length; simpl; lia).
      rewrite firstn_all, Nat.sub_diag. simpl. apply app_nil_r.
    + (* not this one: move on *)
      assert (Hassoc : pre ++ a :: suf' = (pre ++ [a]) ++ suf') by (rewrite <- app_assoc; reflexivity).
      specialize (IH (pre ++ [a])). rewrite <- Hassoc in IH.
      replace (length (pre ++ [a])) with (S (length pre)) in IH by (rewrite app_length; simpl; lia).
      apply IH; auto.
      intros x Hx. apply in_app_or in Hx as [Hx|[<-|[]]]; auto.
Qed.

(* under the builder invariant (names in b.add pairwise distinct) Del's loop does not panic and
   removes exactly the entry with that name *)
Theorem go_del_add_spec n add : NoDup (map lname add) -> go_del_add n add = Some (remove_add n add).
Proof.
  intros Hnd. unfold go_del_add.
  destruct (del_loop_spec n add [] Hnd) as (arr' & len' & H1 & H2); [intros a []|].
  simpl in H1, H2. rewrite H1, H2. reflexivity.
Qed.

(* proof/HeadChunksProofs.v — lemmas and proofs about model/HeadChunks.v (property C25). *)
From Coq Require Import List NArith ZArith Bool Lia Arith.
From Verif Require Import lib.Int64 lib.Bytes lib.Varint model.HeadChunks.
Import ListNotations.
Open Scope N_scope.

(* ================================================================== Truncate removes only older files *)
Section Trunc.
Variable crc32 : list N -> N.

Lemma take_while_In {A} (p : A -> bool) l x : In x (take_while p l) -> p x = true /\ In x l.
Proof.
  induction l as [|a t IH]; simpl; [tauto|].
  destruct (p a) eqn:E; simpl; [|tauto].
  intros [->|H]; [auto|]. destruct (IH H); auto.
Qed.

Lemma existsb_eqb_In x l : existsb (N.eqb x) l = true <-> In x l.
Proof.
  rewrite existsb_exists. split.
  - intros [y [Hy E]]. apply N.eqb_eq in E. subst. exact Hy.
  - intros H. exists x. split; [exact H | apply N.eqb_refl].
Qed.

(* every file of the new state was there before with the same bytes; a file that disappeared
   has a number below n (as uint32) and is not the file being written *)
Lemma trunc_only_older s n :
  let s' := do_trunc s n in
  (forall e, In e (files s') -> In e (files s)) /\
  (forall q bs, In (q, bs) (files s) -> ~ In (q, bs) (files s') ->
      q mod 4294967296 < n /\ q <> cur_seq s) /\
  cur_seq s' = cur_seq s /\ cur_off s' = cur_off s /\ wbuf s' = wbuf s /\
  pend s' = pend s /\ queue s' = queue s /\ wk s' = wk s /\ cbuf s' = cbuf s.
Proof.
  cbn zeta. unfold do_trunc. cbn [files cur_seq cur_off wbuf pend queue wk cbuf].
  repeat split.
  - intros e He. apply filter_In in He. tauto.
  - destruct (q mod 4294967296 <? n) eqn:E; [apply N.ltb_lt; exact E|].
    exfalso. apply H0. apply filter_In. split; [exact H|].
    cbn [fst]. apply negb_true_iff. apply not_true_iff_false. intros Hx.
    apply existsb_eqb_In in Hx. apply take_while_In in Hx. destruct Hx as [Hp _].
    rewrite E in Hp. rewrite andb_false_r in Hp. discriminate.
  - intros ->. apply H0. apply filter_In. split; [exact H|].
    cbn [fst]. apply negb_true_iff. apply not_true_iff_false. intros Hx.
    apply existsb_eqb_In in Hx. apply take_while_In in Hx. destruct Hx as [Hp _].
    rewrite N.eqb_refl in Hp. discriminate.
Qed.
End Trunc.

(* ================================================================== the file format *)
Lemma be_take8 x t : u64_ok x -> be_take 8 0 (put_be64 x ++ t) = Some (x, t).
Proof.
  intros H. unfold put_be64. rewrite be_take_enc. f_equal. f_equal.
  change (256 ^ N.of_nat 8) with 18446744073709551616.
  rewrite N.mod_small by exact H. lia.
Qed.

Lemma put_be32_length x : length (put_be32 x) = 4%nat.
Proof. apply be_enc_length. Qed.

Lemma uv_len_le : forall f x k, x < 128 ^ N.of_nat k -> (1 <= k)%nat ->
  (1 <= length (uv_enc_fuel (S f) x) <= k)%nat.
Proof.
  induction f as [|f IH]; intros x k Hx Hk.
  - cbn. destruct (x <? 128); cbn; lia.
  - rewrite uv_enc_fuel_S. destruct (x <? 128) eqn:E; [cbn; lia|].
    apply N.ltb_ge in E. cbn [length].
    destruct k as [|k]; [lia|]. destruct k as [|k].
    + cbn in Hx. lia.
    + assert (Hd : x / 128 < 128 ^ N.of_nat (S k)).
      { apply N.div_lt_upper_bound; [discriminate|].
        rewrite (Nnat.Nat2N.inj_succ (S k)), N.pow_succ_r' in Hx. exact Hx. }
      specialize (IH (x / 128) (S k) Hd ltac:(lia)). lia.
Qed.

Lemma put_uvarint_len x : x < 34359738368 -> (1 <= length (put_uvarint x) <= 5)%nat.
Proof. intros H. unfold put_uvarint. apply uv_len_le; [exact H | lia]. Qed.

Lemma to_u64_zero z : int64 z -> to_u64 z = 0 -> z = 0%Z.
Proof.
  intros Hz H. rewrite <- (wrap64_id z Hz), <- to_i64_to_u64, H. reflexivity.
Qed.

Section Fmt.
Variable crc32 : list N -> N.

Definition rec_ns (r : rec) : N := match be_take 2 0 (r_data r) with Some (x, _) => x | None => 0 end.
Definition rec_info (r : rec) : cinfo :=
  mkCI (r_series r) (r_mint r) (r_maxt r) (rec_ns r) (r_enc r) (r_ooo r).

(* what the writer is given in practice: a series ref, int64 times, an encoding below the
   out-of-order bit, at least 4 and fewer than 2^35 bytes of data, and not the all-zero triple
   that marks the end of a file's data *)
Definition wf_rec (r : rec) : Prop :=
  u64_ok (r_series r) /\ int64 (r_mint r) /\ int64 (r_maxt r) /\ r_enc r < 128 /\
  (4 <= length (r_data r))%nat /\ nlen (r_data r) < 34359738368 /\
  ~ (r_series r = 0 /\ r_mint r = 0%Z /\ r_maxt r = 0%Z).

Definition rec_len (r : rec) : nat := (25 + length (put_uvarint (nlen (r_data r))) + length (r_data r) + 4)%nat.

Lemma encode_rec_length r : length (encode_rec crc32 r) = rec_len r.
Proof.
  unfold encode_rec, encode_body, rec_len, put_be32. repeat rewrite app_length.
  rewrite !put_be64_length, be_enc_length. cbn [length]. lia.
Qed.

Lemma rec_size_len r : rec_size r = N.of_nat (rec_len r).
Proof. unfold rec_size, rec_len, nlen. lia. Qed.

(* the general step: a record header followed by arbitrary bytes Y (at least 4 of them) *)
Lemma parse_one_gen s um1 um2 encb dl y0 y1 Y' :
  u64_ok s -> u64_ok um1 -> u64_ok um2 -> ~ (s = 0 /\ um1 = 0 /\ um2 = 0) ->
  dl < 34359738368 ->
  let U := put_uvarint dl in
  let Y := y0 :: y1 :: Y' in
  let whole := put_be64 s ++ put_be64 um1 ++ put_be64 um2 ++ encb :: U ++ Y in
  (4 <= length Y)%nat -> (34 <= length whole)%nat ->
  parse_one crc32 whole =
    let n := length U in
    let dln := N.to_nat dl in
    if (length Y <? dln + 4)%nat then PCorrupt 2 else
    if negb (bytes_eqb (firstn 4 (skipn dln Y)) (put_be32 (crc32 (firstn (25 + n + dln) whole)))) then PCorrupt 3 else
    PChunk (mkCI s (to_i64 um1) (to_i64 um2) (y0 * 256 + y1) (N.land encb 127) (negb (N.land encb 128 =? 0)))
           (25 + n + dln + 4) (skipn (dln + 4) Y).
Proof.
  intros Hs H1 H2 Hnz Hdl U Y whole HY Hlen.
  unfold parse_one.
  assert (E0 : (length whole <? meta_size)%nat = false) by (apply Nat.ltb_ge; exact Hlen).
  rewrite E0. unfold whole.
  rewrite be_take8 by exact Hs. rewrite be_take8 by exact H1. rewrite be_take8 by exact H2.
  assert (Ez : (s =? 0) && (um1 =? 0) && (um2 =? 0) = false).
  { destruct (s =? 0) eqn:A; [|reflexivity]. destruct (um1 =? 0) eqn:B; [|reflexivity].
    destruct (um2 =? 0) eqn:C; [|reflexivity].
    apply N.eqb_eq in A, B, C. exfalso. apply Hnz. auto. }
  rewrite Ez.
  pose proof (put_uvarint_len dl Hdl) as HU. fold U in HU.
  assert (Ec : firstn 5 (U ++ Y) = U ++ firstn (5 - length U) Y).
  { rewrite firstn_app. f_equal. apply firstn_all2. lia. }
  rewrite Ec.
  assert (Hu64 : u64_ok dl) by (unfold u64_ok, two64N; lia).
  unfold U at 1. rewrite get_put_uvarint by exact Hu64. fold U.
  assert (En : (length (U ++ firstn (5 - length U) Y) - length (firstn (5 - length U) Y) = length U)%nat).
  { rewrite app_length. lia. }
  rewrite En.
  assert (Es : skipn (length U) (U ++ Y) = Y).
  { rewrite skipn_app, skipn_all, Nat.sub_diag. reflexivity. }
  rewrite Es.
  unfold Y at 1. cbn [be_take]. fold Y.
  replace ((0 * 256 + y0) * 256 + y1) with (y0 * 256 + y1) by lia.
  cbv zeta. reflexivity.
Qed.
End Fmt.

(* ------------------------------------------------------------------ encoding byte *)
Definition enc_bits_okb (e : N) : bool :=
  (N.land (N.lor e 128) 127 =? e) && negb (N.land (N.lor e 128) 128 =? 0) &&
  (N.land e 127 =? e) && (N.land e 128 =? 0).

Lemma enc_bits_all : forallb enc_bits_okb (map N.of_nat (seq 0 128)) = true.
Proof. vm_compute. reflexivity. Qed.

Lemma enc_bits e : e < 128 -> enc_bits_okb e = true.
Proof.
  intros H. pose proof enc_bits_all as A. rewrite forallb_forall in A. apply A.
  rewrite <- (Nnat.N2Nat.id e). apply in_map. apply in_seq. lia.
Qed.

Section Fmt2.
Variable crc32 : list N -> N.
Notation encode_rec := (encode_rec crc32).
Notation parse_one := (parse_one crc32).
Notation iter_file := (iter_file crc32).

Lemma rec_len_ge r : (29 <= rec_len r)%nat.
Proof. unfold rec_len. lia. Qed.

Lemma data_split r : wf_rec r -> exists y0 y1 Y', r_data r = y0 :: y1 :: Y'.
Proof.
  intros (_ & _ & _ & _ & H & _). destruct (r_data r) as [|y0 [|y1 Y']]; cbn in H; try lia. eauto.
Qed.

Lemma info_of_bytes r y0 y1 Y' : wf_rec r -> r_data r = y0 :: y1 :: Y' ->
  mkCI (r_series r) (to_i64 (to_u64 (r_mint r))) (to_i64 (to_u64 (r_maxt r))) (y0 * 256 + y1)
       (N.land (enc_byte r) 127) (negb (N.land (enc_byte r) 128 =? 0)) = rec_info r.
Proof.
  intros (Hs & Hm1 & Hm2 & He & _) Hd.
  unfold rec_info, rec_ns. rewrite Hd. cbn [be_take].
  rewrite !to_i64_to_u64, !wrap64_id by assumption.
  pose proof (enc_bits _ He) as B. unfold enc_bits_okb in B.
  apply andb_true_iff in B. destruct B as [B B4]. apply andb_true_iff in B. destruct B as [B B3].
  apply andb_true_iff in B. destruct B as [B1 B2].
  apply N.eqb_eq in B1, B3. apply negb_true_iff in B2.
  unfold enc_byte. destruct (r_ooo r).
  - rewrite B1, B2. cbn [negb]. f_equal; lia.
  - rewrite B3, B4. cbn [negb]. f_equal; lia.
Qed.

Definition hdr_bytes (r : rec) : list N :=
  put_be64 (r_series r) ++ put_be64 (to_u64 (r_mint r)) ++ put_be64 (to_u64 (r_maxt r)) ++
  enc_byte r :: put_uvarint (nlen (r_data r)).

Lemma hdr_len r : length (hdr_bytes r) = (25 + length (put_uvarint (nlen (r_data r))))%nat.
Proof. unfold hdr_bytes. rewrite !app_length, !put_be64_length. cbn [length]. lia. Qed.

Lemma encode_rec_split r tail :
  encode_rec r ++ tail = hdr_bytes r ++ (r_data r ++ put_be32 (crc32 (encode_body r)) ++ tail).
Proof.
  unfold HeadChunks.encode_rec, encode_body, hdr_bytes. cbn [app]. rewrite <- !app_assoc. cbn [app].
  rewrite <- !app_assoc. reflexivity.
Qed.

Lemma encode_body_split r : encode_body r = hdr_bytes r ++ r_data r.
Proof. unfold encode_body, hdr_bytes. cbn [app]. rewrite <- !app_assoc. reflexivity. Qed.

Lemma wf_nz r : wf_rec r ->
  ~ (r_series r = 0 /\ to_u64 (r_mint r) = 0 /\ to_u64 (r_maxt r) = 0).
Proof.
  intros (_ & H1 & H2 & _ & _ & _ & Hnz) (A & B & C). apply Hnz. split; [exact A|].
  split; apply to_u64_zero; assumption.
Qed.

(* a complete record followed by anything *)
Lemma parse_one_rec r tail : wf_rec r ->
  parse_one (encode_rec r ++ tail) = PChunk (rec_info r) (rec_len r) tail.
Proof.
  intros Hwf. destruct (data_split r Hwf) as (y0 & y1 & Y' & Hd).
  pose proof Hwf as (Hs & Hm1 & Hm2 & He & H4 & Hdl & _).
  rewrite encode_rec_split. unfold hdr_bytes. rewrite <- !app_assoc. cbn [app].
  rewrite Hd at 2. cbn [app].
  set (T := put_be32 (crc32 (encode_body r)) ++ tail).
  rewrite (parse_one_gen crc32 (r_series r) (to_u64 (r_mint r)) (to_u64 (r_maxt r)) (enc_byte r)
             (nlen (r_data r)) y0 y1 (Y' ++ T));
    [ | exact Hs | apply to_u64_ok | apply to_u64_ok | apply wf_nz; exact Hwf | exact Hdl | | ].
  - cbv zeta.
    assert (Edl : N.to_nat (nlen (r_data r)) = length (r_data r)) by (unfold nlen; apply Nnat.Nat2N.id).
    rewrite Edl.
    assert (EY : y0 :: y1 :: Y' ++ T = r_data r ++ T) by (rewrite Hd; reflexivity).
    rewrite EY.
    assert (E1 : (length (r_data r ++ T) <? length (r_data r) + 4)%nat = false).
    { apply Nat.ltb_ge. unfold T. rewrite !app_length, put_be32_length. lia. }
    rewrite E1.
    assert (E2 : skipn (length (r_data r)) (r_data r ++ T) = T).
    { rewrite skipn_app, skipn_all, Nat.sub_diag. reflexivity. }
    rewrite E2.
    assert (E3 : firstn 4 T = put_be32 (crc32 (encode_body r))).
    { unfold T. rewrite firstn_app, put_be32_length, Nat.sub_diag, firstn_O.
      rewrite app_nil_r. apply firstn_all2. rewrite put_be32_length. lia. }
    rewrite E3.
    assert (E4 : firstn (25 + length (put_uvarint (nlen (r_data r))) + length (r_data r))
                   (put_be64 (r_series r) ++ put_be64 (to_u64 (r_mint r)) ++ put_be64 (to_u64 (r_maxt r)) ++
                    enc_byte r :: put_uvarint (nlen (r_data r)) ++ r_data r ++ T) = encode_body r).
    { unfold encode_body. cbn [app].
      replace (put_be64 (r_series r) ++ put_be64 (to_u64 (r_mint r)) ++ put_be64 (to_u64 (r_maxt r)) ++
               enc_byte r :: put_uvarint (nlen (r_data r)) ++ r_data r ++ T)
        with ((put_be64 (r_series r) ++ put_be64 (to_u64 (r_mint r)) ++ put_be64 (to_u64 (r_maxt r)) ++
               enc_byte r :: put_uvarint (nlen (r_data r)) ++ r_data r) ++ T)
        by (rewrite <- !app_assoc; cbn [app]; rewrite <- !app_assoc; reflexivity).
      rewrite firstn_app.
      assert (L : length (put_be64 (r_series r) ++ put_be64 (to_u64 (r_mint r)) ++ put_be64 (to_u64 (r_maxt r)) ++
               enc_byte r :: put_uvarint (nlen (r_data r)) ++ r_data r)
                  = (25 + length (put_uvarint (nlen (r_data r))) + length (r_data r))%nat).
      { rewrite !app_length, !put_be64_length. cbn [length]. rewrite app_length. lia. }
      rewrite L, Nat.sub_diag, firstn_O, app_nil_r. apply firstn_all2. lia. }
    rewrite E4.
    assert (E5 : bytes_eqb (put_be32 (crc32 (encode_body r))) (put_be32 (crc32 (encode_body r))) = true)
      by (apply bytes_eqb_eq; reflexivity).
    rewrite E5. cbn [negb].
    rewrite (info_of_bytes r y0 y1 Y' Hwf Hd).
    f_equal; [unfold rec_len; lia .. | ].
      rewrite skipn_app, skipn_all2 by lia. cbn [app].
      replace (length (r_data r) + 4 - length (r_data r))%nat with 4%nat by lia.
      unfold T. rewrite skipn_app, put_be32_length, Nat.sub_diag.
      rewrite skipn_all2 by (rewrite put_be32_length; lia). reflexivity.
  - cbn [length]. rewrite Hd in H4. cbn [length] in H4. rewrite app_length. lia.
  - unfold T. rewrite !app_length, !put_be64_length. cbn [length].
    rewrite ?app_length, ?put_be32_length. cbn [length]. rewrite ?app_length, ?put_be32_length.
    rewrite Hd in H4. cbn [length] in H4.
    pose proof (put_uvarint_len _ Hdl). lia.
Qed.

(* a strict prefix of a record: end of data or corruption, never a chunk *)
Lemma parse_one_torn r j : wf_rec r -> (j < rec_len r)%nat ->
  parse_one (firstn j (encode_rec r)) = PStop \/ exists w, parse_one (firstn j (encode_rec r)) = PCorrupt w.
Proof.
  intros Hwf Hj.
  destruct (Nat.ltb j 34) eqn:E34.
  - apply Nat.ltb_lt in E34. unfold HeadChunks.parse_one.
    assert (L : (length (firstn j (encode_rec r)) <? meta_size)%nat = true).
    { apply Nat.ltb_lt. rewrite firstn_length. unfold meta_size. lia. }
    rewrite L. destruct (all_zero _); eauto.
  - apply Nat.ltb_ge in E34. right.
    destruct (data_split r Hwf) as (y0 & y1 & Y' & Hd).
    pose proof Hwf as (Hs & Hm1 & Hm2 & He & H4 & Hdl & _).
    pose proof (put_uvarint_len _ Hdl) as HU.
    rewrite <- (app_nil_r (encode_rec r)), encode_rec_split, app_nil_r.
    set (D := r_data r ++ put_be32 (crc32 (encode_body r))).
    rewrite firstn_app, hdr_len.
    rewrite (firstn_all2 (hdr_bytes r)) by (rewrite hdr_len; lia).
    set (k := (j - (25 + length (put_uvarint (nlen (r_data r)))))%nat).
    assert (Hk4 : (4 <= k)%nat) by (unfold k; lia).
    assert (HD : length D = (length (r_data r) + 4)%nat).
    { unfold D. rewrite app_length, put_be32_length. reflexivity. }
    assert (Hk : (k < length D)%nat).
    { rewrite HD. unfold k. unfold rec_len in Hj. lia. }
    assert (EF : firstn k D = y0 :: y1 :: firstn (k - 2) (Y' ++ put_be32 (crc32 (encode_body r)))).
    { unfold D. rewrite Hd. cbn [app]. destruct k as [|[|k']]; try lia. cbn [firstn]. 
      replace (S (S k') - 2)%nat with k' by lia. reflexivity. }
    rewrite EF. unfold hdr_bytes. rewrite <- !app_assoc. cbn [app].
    rewrite (parse_one_gen crc32 (r_series r) (to_u64 (r_mint r)) (to_u64 (r_maxt r)) (enc_byte r)
             (nlen (r_data r)) y0 y1 _);
    [ | exact Hs | apply to_u64_ok | apply to_u64_ok | apply wf_nz; exact Hwf | exact Hdl | | ].
    + cbv zeta. rewrite <- EF.
      assert (Edl : N.to_nat (nlen (r_data r)) = length (r_data r)) by (unfold nlen; apply Nnat.Nat2N.id).
      rewrite Edl.
      assert (L : (length (firstn k D) <? length (r_data r) + 4)%nat = true).
      { apply Nat.ltb_lt. rewrite firstn_length. lia. }
      rewrite L. eauto.
    + rewrite <- EF. rewrite firstn_length. lia.
    + rewrite <- EF. rewrite !app_length, !put_be64_length. cbn [length]. rewrite app_length, firstn_length.
      unfold k in *. lia.
Qed.
End Fmt2.

(* ================================================================== iterating a file *)
Section Iter.
Variable crc32 : list N -> N.
Notation encode_rec := (encode_rec crc32).
Notation parse_one := (parse_one crc32).
Notation iter_file := (iter_file crc32).

Definition recs_bytes (rs : list rec) : list N := concat (map encode_rec rs).

(* what IterateAllChunks reports for records written one after the other from offset off *)
Fixpoint infos (seq off : N) (rs : list rec) : list (ref * cinfo) :=
  match rs with
  | [] => []
  | r :: t => ((seq, off), rec_info r) :: infos seq (off + N.of_nat (rec_len r)) t
  end.

(* number of leading records that lie completely within the first k bytes *)
Fixpoint ncomplete (rs : list rec) (k : nat) : nat :=
  match rs with
  | [] => 0
  | r :: t => if (rec_len r <=? k)%nat then S (ncomplete t (k - rec_len r)) else 0
  end.

Lemma be_take_zeros : forall n l, all_zero l = true -> (n <= length l)%nat ->
  be_take n 0 l = Some (0, skipn n l) /\ all_zero (skipn n l) = true.
Proof.
  unfold all_zero. induction n as [|n IH]; intros l Hz Hn; [cbn; auto|].
  destruct l as [|b t]; [cbn in Hn; lia|].
  cbn [forallb] in Hz. apply andb_true_iff in Hz. destruct Hz as [Hb Ht]. apply N.eqb_eq in Hb. subst b.
  cbn [be_take skipn]. change (0 * 256 + 0) with 0. apply IH; [exact Ht | cbn in Hn; lia].
Qed.

Lemma parse_one_zeros l : all_zero l = true -> parse_one l = PStop.
Proof.
  intros Hz. unfold HeadChunks.parse_one.
  destruct (length l <? meta_size)%nat eqn:E; [rewrite Hz; reflexivity|].
  apply Nat.ltb_ge in E. unfold meta_size in E.
  destruct (be_take_zeros 8 l Hz ltac:(lia)) as [E1 Z1]. rewrite E1.
  assert (L1 : (26 <= length (skipn 8 l))%nat) by (rewrite skipn_length; lia).
  destruct (be_take_zeros 8 _ Z1 ltac:(lia)) as [E2 Z2]. rewrite E2.
  assert (L2 : (18 <= length (skipn 8 (skipn 8 l)))%nat) by (rewrite skipn_length; lia).
  destruct (be_take_zeros 8 _ Z2 ltac:(lia)) as [E3 Z3]. rewrite E3.
  reflexivity.
Qed.

Lemma all_zero_firstn k l : all_zero l = true -> all_zero (firstn k l) = true.
Proof.
  unfold all_zero. revert l. induction k as [|k IH]; intros l H; [reflexivity|].
  destruct l as [|b t]; [reflexivity|]. cbn [forallb firstn] in *. apply andb_true_iff in H. destruct H as [A B].
  rewrite A. cbn [andb]. apply IH. exact B.
Qed.

Lemma all_zero_repeat p : all_zero (repeat 0 p) = true.
Proof. induction p; cbn; auto. Qed.

(* the heart of C25_torn_tail / C25_iterate_roundtrip: iterate over the first k bytes of
   records ++ zero padding *)
Lemma iter_prefix : forall rs fuel seq idx k p,
  Forall wf_rec rs -> (ncomplete rs k < fuel)%nat ->
  exists e, iter_file fuel seq idx (firstn k (recs_bytes rs ++ repeat 0 p)) =
              (firstn (ncomplete rs k) (infos seq idx rs), e) /\
            (e = EOk \/ exists w, e = ECorrupt w) /\
            ((length (recs_bytes rs) <= k)%nat -> e = EOk).
Proof.
  induction rs as [|r t IH]; intros fuel seq idx k p Hwf Hf.
  - cbn [recs_bytes map concat app ncomplete infos firstn].
    destruct fuel as [|f]; [lia|]. cbn [HeadChunks.iter_file].
    rewrite parse_one_zeros by (apply all_zero_firstn, all_zero_repeat).
    exists EOk. rewrite ?firstn_nil. auto.
  - inversion Hwf as [|? ? Hr Ht]; subst.
    cbn [recs_bytes map concat]. fold (recs_bytes t). rewrite <- app_assoc.
    cbn [ncomplete] in *.
    destruct (rec_len r <=? k)%nat eqn:E.
    + apply Nat.leb_le in E.
      destruct fuel as [|f]; [lia|].
      rewrite firstn_app, encode_rec_length.
      rewrite (firstn_all2 (encode_rec r)) by (rewrite encode_rec_length; exact E).
      cbn [HeadChunks.iter_file]. rewrite parse_one_rec by exact Hr.
      destruct (IH f seq (idx + N.of_nat (rec_len r)) (k - rec_len r)%nat p Ht ltac:(lia)) as (e & He & Hc & Hk).
      rewrite He. exists e. cbn [infos firstn]. split; [reflexivity|]. split; [exact Hc|].
      intros Hlen. apply Hk. rewrite app_length, encode_rec_length in Hlen. lia.
    + apply Nat.leb_gt in E.
      destruct fuel as [|f]; [lia|].
      rewrite firstn_app, encode_rec_length.
      replace (k - rec_len r)%nat with 0%nat by lia. rewrite firstn_O, app_nil_r.
      cbn [HeadChunks.iter_file firstn].
      destruct (parse_one_torn crc32 r k Hr E) as [P | [w P]]; rewrite P.
      * exists EOk. split; [reflexivity|]. split; [auto|]. auto.
      * exists (ECorrupt w). split; [reflexivity|]. split; [eauto|].
        intros Hlen. rewrite app_length, encode_rec_length in Hlen. lia.
Qed.

Lemma ncomplete_all rs : forall k, (length (recs_bytes rs) <= k)%nat -> ncomplete rs k = length rs.
Proof.
  induction rs as [|r t IH]; intros k H; [reflexivity|].
  cbn [recs_bytes map concat] in H. fold (recs_bytes t) in H. rewrite app_length, encode_rec_length in H.
  cbn [ncomplete length]. assert (E : (rec_len r <=? k)%nat = true) by (apply Nat.leb_le; lia).
  rewrite E. f_equal. apply IH. lia.
Qed.

Lemma infos_length seq off rs : length (infos seq off rs) = length rs.
Proof. revert off. induction rs; intros; cbn; auto. Qed.

Lemma recs_bytes_length_ge rs : (length rs <= length (recs_bytes rs))%nat.
Proof.
  induction rs as [|r t IH]; cbn [recs_bytes map concat length]; [lia|].
  fold (recs_bytes t). rewrite app_length, encode_rec_length. pose proof (rec_len_ge r). lia.
Qed.

Lemma ncomplete_le_k rs : forall k, (ncomplete rs k <= k)%nat.
Proof.
  induction rs as [|r t IH]; intros k; cbn [ncomplete]; [lia|].
  destruct (rec_len r <=? k)%nat eqn:E; [|lia]. apply Nat.leb_le in E.
  specialize (IH (k - rec_len r)%nat). pose proof (rec_len_ge r). lia.
Qed.

Definition file_bytes (rs : list rec) (p : nat) : list N := hc_header ++ recs_bytes rs ++ repeat 0 p.

(* restart on an intact file: every record, in order, with its ref and meta data *)
Lemma iterate_roundtrip seq rs p : Forall wf_rec rs ->
  iterate_file crc32 seq (file_bytes rs p) = (infos seq 8 rs, EOk).
Proof.
  intros Hwf. unfold iterate_file, file_bytes. cbn [hc_header app skipn].
  set (X := recs_bytes rs ++ repeat 0 p).
  assert (EX : X = firstn (length X) X) by (symmetry; apply firstn_all).
  rewrite EX at 2. unfold X at 3.
  assert (Hk : (length (recs_bytes rs) <= length X)%nat) by (unfold X; rewrite app_length; lia).
  destruct (iter_prefix rs (S (length (1 :: 48 :: 188 :: 145 :: 1 :: 0 :: 0 :: 0 :: X))) seq 8 (length X) p Hwf) as (e & He & _ & Hok).
  { rewrite ncomplete_all by exact Hk. pose proof (recs_bytes_length_ge rs). cbn [length]. lia. }
  rewrite He, (Hok Hk), ncomplete_all by exact Hk.
  rewrite <- (infos_length seq 8 rs), firstn_all. reflexivity.
Qed.

(* restart on a file cut at byte k (at or after the header): exactly the records that lie
   completely before k, then either a clean end or a corruption error *)
Lemma iterate_torn seq rs p k : Forall wf_rec rs -> (8 <= k <= length (file_bytes rs p))%nat ->
  exists e, iterate_file crc32 seq (firstn k (file_bytes rs p)) =
              (firstn (ncomplete rs (k - 8)) (infos seq 8 rs), e) /\
            (e = EOk \/ exists w, e = ECorrupt w).
Proof.
  intros Hwf Hk. unfold iterate_file, file_bytes in *.
  rewrite firstn_app. change (length hc_header) with 8%nat.
  rewrite (firstn_all2 hc_header) by (cbn; lia).
  cbn [hc_header app skipn].
  destruct (iter_prefix rs (S (length (1 :: 48 :: 188 :: 145 :: 1 :: 0 :: 0 :: 0 :: firstn (k - 8) (recs_bytes rs ++ repeat 0 p))))
              seq 8 (k - 8)%nat p Hwf) as (e & He & Hc & _).
  { pose proof (ncomplete_le_k rs (k - 8)). cbn [length]. rewrite firstn_length.
    rewrite app_length in Hk. cbn [hc_header length] in Hk. lia. }
  exists e. split; [exact He | exact Hc].
Qed.

Lemma torn_header k bs : (k < 8)%nat -> header_ok (firstn k bs) = false.
Proof.
  intros H. unfold header_ok.
  assert (E : (8 <=? length (firstn k bs))%nat = false).
  { apply Nat.leb_gt. rewrite firstn_length. lia. }
  rewrite E. reflexivity.
Qed.
End Iter.

(* ================================================================== Chunk(ref) from a file *)
Section ChunkAt.
Variable crc32 : list N -> N.
Notation encode_rec := (encode_rec crc32).

(* the record r occupies the bytes of bs starting at offset off *)
Definition resident (bs : list N) (off : N) (r : rec) : Prop :=
  exists pre post, bs = pre ++ encode_rec r ++ post /\ nlen pre = off.

Lemma skipn24_hdr r X :
  skipn 24 (hdr_bytes r ++ X) = enc_byte r :: put_uvarint (nlen (r_data r)) ++ X.
Proof.
  unfold hdr_bytes. rewrite <- !app_assoc.
  rewrite skipn_app, put_be64_length.
  rewrite (skipn_all2 (put_be64 (r_series r))) by (rewrite put_be64_length; lia).
  cbn [app]. change (24 - 8)%nat with 16%nat.
  rewrite skipn_app, put_be64_length.
  rewrite (skipn_all2 (put_be64 (to_u64 (r_mint r)))) by (rewrite put_be64_length; lia).
  cbn [app]. change (16 - 8)%nat with 8%nat.
  rewrite skipn_app, put_be64_length.
  rewrite (skipn_all2 (put_be64 (to_u64 (r_maxt r)))) by (rewrite put_be64_length; lia).
  cbn [app]. change (8 - 8)%nat with 0%nat. reflexivity.
Qed.

Lemma chunk_at_resident bs vlen off r :
  wf_rec r -> valid_enc (r_enc r) = true -> resident bs off r -> off + rec_size r <= vlen ->
  chunk_at crc32 bs vlen off = RdOk (r_enc r) (r_data r).
Proof.
  intros Hwf Hve (pre & post & Hbs & Hoff) Hv.
  pose proof Hwf as (Hs & Hm1 & Hm2 & He & H4 & Hdl & _).
  pose proof (put_uvarint_len _ Hdl) as HU.
  set (U := put_uvarint (nlen (r_data r))) in *.
  set (C := put_be32 (crc32 (encode_body r))).
  assert (Hsz : rec_size r = N.of_nat (25 + length U + length (r_data r) + 4)).
  { rewrite rec_size_len. reflexivity. }
  unfold chunk_at.
  assert (E1 : (vlen <? off + 24 + 5) = false) by (apply N.ltb_ge; lia).
  rewrite E1.
  assert (Epre : N.to_nat (off + 24) = (length pre + 24)%nat).
  { subst off. unfold nlen. lia. }
  rewrite Epre, Hbs, skipn_app.
  rewrite (skipn_all2 pre) by lia. cbn [app].
  replace (length pre + 24 - length pre)%nat with 24%nat by lia.
  rewrite (encode_rec_split crc32 r post), skipn24_hdr. fold U. fold C.
  assert (Ec : firstn 5 (U ++ r_data r ++ C ++ post) = U ++ firstn (5 - length U) (r_data r ++ C ++ post)).
  { rewrite firstn_app. f_equal. apply firstn_all2. lia. }
  rewrite Ec.
  assert (Lc : (length (U ++ firstn (5 - length U) (r_data r ++ C ++ post)) <? 5)%nat = false).
  { apply Nat.ltb_ge. rewrite app_length, firstn_length, app_length. lia. }
  rewrite Lc.
  assert (Hu64 : u64_ok (nlen (r_data r))) by (unfold u64_ok, two64N; lia).
  unfold U at 1. rewrite get_put_uvarint by exact Hu64. fold U.
  assert (En : (5 - length (firstn (5 - length U) (r_data r ++ C ++ post)) = length U)%nat).
  { rewrite firstn_length, app_length. lia. }
  rewrite En.
  assert (E2 : (vlen <? off + 24 + 1 + N.of_nat (length U) + nlen (r_data r)) = false).
  { apply N.ltb_ge. unfold nlen. lia. }
  rewrite E2.
  assert (E3 : (vlen <? off + 24 + 1 + N.of_nat (length U) + nlen (r_data r) + 4) = false).
  { apply N.ltb_ge. unfold nlen. lia. }
  rewrite E3.
  assert (Es : skipn (length U) (U ++ r_data r ++ C ++ post) = r_data r ++ C ++ post).
  { rewrite skipn_app, skipn_all, Nat.sub_diag. reflexivity. }
  rewrite Es.
  assert (Edl : N.to_nat (nlen (r_data r)) = length (r_data r)) by (unfold nlen; apply Nnat.Nat2N.id).
  rewrite Edl.
  assert (E4 : (length (r_data r ++ C ++ post) <? length (r_data r) + 4)%nat = false).
  { apply Nat.ltb_ge. rewrite !app_length. unfold C. rewrite put_be32_length. lia. }
  rewrite E4.
  assert (Eoff : N.to_nat off = length pre) by (subst off; unfold nlen; lia).
  assert (Esk : forall X, skipn (N.to_nat off) (pre ++ X) = X).
  { intros X. rewrite Eoff, skipn_app, skipn_all, Nat.sub_diag. reflexivity. }
  rewrite Esk.
  assert (Ecnt : N.to_nat (off + 24 + 1 + N.of_nat (length U) + nlen (r_data r) - off)
                 = (25 + length U + length (r_data r))%nat) by (unfold nlen; lia).
  rewrite Ecnt.
  assert (Eb : firstn (25 + length U + length (r_data r)) (hdr_bytes r ++ r_data r ++ C ++ post) = encode_body r).
  { rewrite app_assoc, <- encode_body_split. rewrite firstn_app.
    assert (L : length (encode_body r) = (25 + length U + length (r_data r))%nat).
    { rewrite encode_body_split, app_length, hdr_len. reflexivity. }
    rewrite L, Nat.sub_diag, firstn_O, app_nil_r. apply firstn_all2. lia. }
  rewrite Eb.
  assert (E5 : firstn 4 (skipn (length (r_data r)) (r_data r ++ C ++ post)) = C).
  { rewrite skipn_app, skipn_all, Nat.sub_diag. cbn [app skipn].
    rewrite firstn_app. unfold C at 2. rewrite put_be32_length, Nat.sub_diag, firstn_O, app_nil_r.
    apply firstn_all2. unfold C. rewrite put_be32_length. lia. }
  rewrite E5.
  assert (E6 : bytes_eqb C (put_be32 (crc32 (encode_body r))) = true) by (apply bytes_eqb_eq; reflexivity).
  rewrite E6. cbn [negb].
  pose proof (enc_bits _ He) as B. unfold enc_bits_okb in B.
  apply andb_true_iff in B. destruct B as [B B4]. apply andb_true_iff in B. destruct B as [B B3].
  apply andb_true_iff in B. destruct B as [B1 B2]. apply N.eqb_eq in B1, B3.
  assert (Ee : N.land (enc_byte r) 127 = r_enc r) by (unfold enc_byte; destruct (r_ooo r); assumption).
  rewrite Ee, Hve.
  f_equal. rewrite firstn_app, firstn_all, Nat.sub_diag, firstn_O, app_nil_r. reflexivity.
Qed.
End ChunkAt.

(* ================================================================== ref allocation (chunkPos) *)
(* the allocated chunks, in order: each starts at or after the end of everything allocated before
   (same file, higher offset, or a later file), after the 8-byte header, and ends at or before
   MaxHeadChunkFileSize; a cut is decided exactly when the ref is the start of the next file *)
Fixpoint chain (q o : N) (l : list (bool * ref * N)) : Prop :=
  match l with
  | [] => True
  | (cut, rf, b) :: t =>
      (if cut then rf = (q + 1, 8) else rf = (q, o)) /\
      8 <= snd rf /\ snd rf + b <= max_file_size /\
      chain (fst rf) (snd rf + b) t
  end.

Lemma alloc_run_chain : forall steps seq off cutf,
  (off = 0 \/ 8 <= off) -> (forall st, In st steps -> 8 + snd st <= max_file_size) ->
  chain seq off (fst (alloc_run seq off cutf steps)).
Proof.
  induction steps as [|[creq btw] t IH]; intros seq off cutf Hoff Hfit; [exact I|].
  cbn [alloc_run]. unfold alloc.
  pose proof (Hfit (creq, btw) (or_introl eq_refl)) as Hb. cbn [snd] in Hb.
  destruct (cutf || creq || (off =? 0) || (max_file_size <? off + btw)) eqn:Ecut.
  - destruct (alloc_run (seq + 1) (8 + btw) false t) as [l e] eqn:Er. cbn [fst chain snd].
    split; [reflexivity|]. split; [lia|]. split; [exact Hb|].
    specialize (IH (seq + 1) (8 + btw) false ltac:(right; lia) ltac:(intros st Hin; apply Hfit; right; exact Hin)).
    rewrite Er in IH. exact IH.
  - apply orb_false_iff in Ecut. destruct Ecut as [Ecut E3]. apply orb_false_iff in Ecut. destruct Ecut as [_ E2].
    apply N.eqb_neq in E2. apply N.ltb_ge in E3.
    destruct (alloc_run seq (off + btw) (cutf || creq) t) as [l e] eqn:Er. cbn [fst chain snd].
    split; [reflexivity|]. split; [lia|]. split; [exact E3|].
    specialize (IH seq (off + btw) (cutf || creq) ltac:(right; lia) ltac:(intros st Hin; apply Hfit; right; exact Hin)).
    rewrite Er in IH. exact IH.
Qed.

(* WriteChunk allocates with exactly this function *)
Lemma do_write_alloc qmax s r : (qmax <=? length (queue s))%nat = false ->
  let '(cut, rf, (q, o, c)) := alloc (ev_seq s) (ev_off s) (ev_cut s) (rec_size r) in
  snd (do_write qmax s r) = ORef rf /\
  ev_seq (fst (do_write qmax s r)) = q /\ ev_off (fst (do_write qmax s r)) = o /\ ev_cut (fst (do_write qmax s r)) = c.
Proof.
  intros Hq. unfold do_write, alloc. rewrite Hq. cbn [fst snd ev_seq ev_off ev_cut]. auto.
Qed.

(* ================================================================== the write queue state machine *)
(* ---- generic list facts *)
Lemma ref_eqb_eq a b : ref_eqb a b = true <-> a = b.
Proof.
  unfold ref_eqb. destruct a as [a1 a2], b as [b1 b2]. cbn [fst snd].
  rewrite andb_true_iff, !N.eqb_eq. split; [intros [-> ->]; reflexivity | intros H; inversion H; auto].
Qed.

Lemma ref_eqb_refl a : ref_eqb a a = true.
Proof. apply ref_eqb_eq. reflexivity. Qed.

Lemma ref_eqb_neq a b : a <> b -> ref_eqb a b = false.
Proof. intros H. destruct (ref_eqb a b) eqn:E; [apply ref_eqb_eq in E; contradiction | reflexivity]. Qed.

Lemma lookup_ref_remove_same {A} (k : ref) (l : list (ref * A)) : lookup_ref k (remove_ref k l) = None.
Proof.
  induction l as [|[k' v] t IH]; [reflexivity|]. unfold remove_ref in *. cbn [filter fst].
  destruct (ref_eqb k k') eqn:E; cbn [negb]; [exact IH|]. cbn [lookup_ref]. rewrite E. exact IH.
Qed.

Lemma lookup_ref_remove_other {A} (k k0 : ref) (l : list (ref * A)) : k <> k0 ->
  lookup_ref k (remove_ref k0 l) = lookup_ref k l.
Proof.
  intros Hn. induction l as [|[k' v] t IH]; [reflexivity|]. unfold remove_ref in *. cbn [filter fst].
  destruct (ref_eqb k0 k') eqn:E; cbn [negb].
  - apply ref_eqb_eq in E. subst k'. cbn [lookup_ref]. rewrite (ref_eqb_neq k k0 Hn). exact IH.
  - cbn [lookup_ref]. rewrite IH. reflexivity.
Qed.

Lemma dmax_fold_ge {A} (l : list (N * A)) : forall m, m <= fold_left (fun m e => N.max m (fst e)) l m.
Proof. induction l as [|e t IH]; intros m; cbn; [lia|]. specialize (IH (N.max m (fst e))). lia. Qed.

Lemma dmax_fold_in {A} (l : list (N * A)) : forall m e, In e l -> fst e <= fold_left (fun m e => N.max m (fst e)) l m.
Proof.
  induction l as [|x t IH]; intros m e H; [inversion H|]. cbn. destruct H as [->|H].
  - pose proof (dmax_fold_ge t (N.max m (fst e))). lia.
  - apply IH. exact H.
Qed.

Lemma dmax_in {A} (l : list (N * A)) e : In e l -> fst e <= dmax l.
Proof. apply dmax_fold_in. Qed.

Lemma dmax_fold_mono {A} (l : list (N * A)) : forall m m', m <= m' ->
  fold_left (fun m e => N.max m (fst e)) l m <= fold_left (fun m e => N.max m (fst e)) l m'.
Proof. induction l as [|x t IH]; intros m m' H; cbn; [exact H|]. apply IH. lia. Qed.

Lemma dmax_fold_keys {A B} (l : list (N * A)) (l' : list (N * B)) : map fst l = map fst l' ->
  forall m, fold_left (fun m e => N.max m (fst e)) l m = fold_left (fun m e => N.max m (fst e)) l' m.
Proof.
  revert l'. induction l as [|x t IH]; intros [|y t'] H m; try discriminate; [reflexivity|].
  cbn in *. inversion H as [[H1 H2]]. rewrite H1. apply IH. exact H2.
Qed.

Lemma dmax_keys {A B} (l : list (N * A)) (l' : list (N * B)) : map fst l = map fst l' -> dmax l = dmax l'.
Proof. intros H. apply dmax_fold_keys. exact H. Qed.

Lemma dmax_fold_bound {A} (l : list (N * A)) b : forall m, m <= b -> (forall e, In e l -> fst e <= b) ->
  fold_left (fun m e => N.max m (fst e)) l m <= b.
Proof.
  induction l as [|x t IH]; intros m Hm H; cbn; [exact Hm|]. apply IH.
  - pose proof (H x (or_introl eq_refl)). lia.
  - intros e He. apply H. right. exact He.
Qed.

Lemma dmax_bound {A} (l : list (N * A)) b : (forall e, In e l -> fst e <= b) -> dmax l <= b.
Proof. intros H. apply dmax_fold_bound; [lia | exact H]. Qed.

Lemma dmax_app1 {A} (l : list (N * A)) q v : dmax l < q -> dmax (l ++ [(q, v)]) = q.
Proof.
  intros H. unfold dmax in *. rewrite fold_left_app. cbn. lia.
Qed.

Lemma lookup_in {A} q (l : list (N * A)) v : lookup q l = Some v -> In (q, v) l.
Proof.
  induction l as [|[k x] t IH]; [discriminate|]. cbn. destruct (q =? k) eqn:E.
  - apply N.eqb_eq in E. subst. intros H. inversion H. auto.
  - intros H. right. apply IH. exact H.
Qed.

Lemma lookup_app_some {A} q (l l2 : list (N * A)) v : lookup q l = Some v -> lookup q (l ++ l2) = Some v.
Proof.
  induction l as [|[k x] t IH]; [discriminate|]. cbn. destruct (q =? k); auto.
Qed.

Lemma lookup_app_none {A} q (l l2 : list (N * A)) : lookup q l = None -> lookup q (l ++ l2) = lookup q l2.
Proof.
  induction l as [|[k x] t IH]; [reflexivity|]. cbn. destruct (q =? k); [discriminate | auto].
Qed.

Lemma lookup_none_dmax {A} q (l : list (N * A)) : dmax l < q -> lookup q l = None.
Proof.
  intros H. destruct (lookup q l) eqn:E; [|reflexivity].
  apply lookup_in, dmax_in in E. cbn in E. lia.
Qed.

Lemma set_file_keys seq f fs : map fst (set_file seq f fs) = map fst fs.
Proof.
  induction fs as [|[q bs] t IH]; [reflexivity|]. cbn. destruct (q =? seq); cbn; [reflexivity|]. f_equal. exact IH.
Qed.

Lemma lookup_set_file_same seq f fs bs : lookup seq fs = Some bs -> lookup seq (set_file seq f fs) = Some (f bs).
Proof.
  induction fs as [|[q b] t IH]; [discriminate|]. cbn. destruct (seq =? q) eqn:E.
  - intros H. inversion H. subst. rewrite N.eqb_sym, E. cbn. rewrite E. reflexivity.
  - intros H. rewrite N.eqb_sym, E. cbn. rewrite E. apply IH. exact H.
Qed.

Lemma lookup_set_file_other seq q f fs : q <> seq -> lookup q (set_file seq f fs) = lookup q fs.
Proof.
  intros Hn. induction fs as [|[k b] t IH]; [reflexivity|]. cbn. destruct (k =? seq) eqn:E.
  - apply N.eqb_eq in E. subst k. cbn. destruct (q =? seq) eqn:E2; [apply N.eqb_eq in E2; contradiction | reflexivity].
  - cbn. destruct (q =? k); [reflexivity | exact IH].
Qed.

Lemma lookup_filter_key {A} (p : N -> bool) q (l : list (N * A)) :
  lookup q (filter (fun e => p (fst e)) l) = if p q then lookup q l else None.
Proof.
  induction l as [|[k v] t IH]; [destruct (p q); reflexivity|]. cbn [filter fst].
  destruct (p k) eqn:Ek; cbn [lookup]; destruct (q =? k) eqn:E.
  - apply N.eqb_eq in E. subst. rewrite Ek. reflexivity.
  - exact IH.
  - apply N.eqb_eq in E. subst. rewrite Ek in *. exact IH.
  - exact IH.
Qed.

Lemma take_while_all {A} (p : A -> bool) l : (forall x, In x l -> p x = true) -> take_while p l = l.
Proof.
  induction l as [|a t IH]; intros H; [reflexivity|]. cbn. rewrite (H a (or_introl eq_refl)). f_equal.
  apply IH. intros x Hx. apply H. right. exact Hx.
Qed.

Lemma take_while_length_all {A} (p : A -> bool) l : length (take_while p l) = length l -> forall x, In x l -> p x = true.
Proof.
  induction l as [|a t IH]; intros H x Hx; [inversion Hx|]. cbn in H. destruct (p a) eqn:E.
  - cbn in H. destruct Hx as [->|Hx]; [exact E|]. apply IH; [lia | exact Hx].
  - cbn in H. lia.
Qed.

Section RYW.
Variable crc32 : list N -> N.
Variable bufsize : N.
Variable qmax : nat.
Notation encode_rec := (HeadChunks.encode_rec crc32).
Notation resident := (resident crc32).
Notation append := (HeadChunks.append crc32).

(* a chunk the writer accepts: well formed, an encoding pool.Get knows, and small enough for a file *)
Definition wf_write (r : rec) : Prop :=
  wf_rec r /\ valid_enc (r_enc r) = true /\ 8 + rec_size r <= max_file_size.
Definition rok (rf : ref) (r : rec) : Prop :=
  wf_rec r /\ valid_enc (r_enc r) = true /\ snd rf + rec_size r <= max_file_size.

Lemma rec_size_pos r : 29 <= rec_size r.
Proof. unfold rec_size. lia. Qed.

Lemma encode_rec_nlen r : nlen (encode_rec r) = rec_size r.
Proof. unfold nlen. rewrite encode_rec_length, rec_size_len. reflexivity. Qed.

(* jobs not yet written, oldest first *)
Definition uncut (j : job) : job := mkJob false (j_ref j) (j_rec j).

Definition pjobs (s : st) : list job :=
  match wk s with
  | WStart j => j :: queue s
  | WRun j p =>
      match p with
      | PClr1 | PNew => j :: queue s                   (* the cut is not finished *)
      | PPre | PClr2 | PApp => uncut j :: queue s      (* the file is there, the chunk not yet appended *)
      | PPost | PClr3 => queue s
      end
  | _ => queue s
  end.

(* where the writer will be after the jobs js, starting at file q, offset o (opn: a file is open);
   None when a job's ref is not the position it will be written at *)
Fixpoint replay (opn : bool) (q o : N) (js : list job) : option (bool * N * N) :=
  match js with
  | [] => Some (opn, q, o)
  | j :: t =>
      if j_cut j then
        (if ref_eqb (j_ref j) (q + 1, 8) then replay true (q + 1) (8 + rec_size (j_rec j)) t else None)
      else
        (if opn && ref_eqb (j_ref j) (q, o) then replay true q (o + rec_size (j_rec j)) t else None)
  end.

Lemma replay_app opn q o js j :
  replay opn q o (js ++ [j]) =
  match replay opn q o js with Some (opn', q', o') => replay opn' q' o' [j] | None => None end.
Proof.
  revert opn q o. induction js as [|a t IH]; intros opn q o; cbn [app replay]; [destruct (j_cut j); reflexivity|].
  destruct (j_cut a).
  - destruct (ref_eqb _ _); [apply IH | reflexivity].
  - destruct (opn && ref_eqb _ _); [apply IH | reflexivity].
Qed.

Lemma replay_opn opn q o js opn' q' o' : replay opn q o js = Some (opn', q', o') ->
  opn' = (opn || negb (match js with [] => true | _ => false end)).
Proof.
  destruct js as [|a t]; cbn [replay].
  - intros H. inversion H. rewrite orb_false_r. reflexivity.
  - assert (G : forall t q o, replay true q o t = Some (opn', q', o') -> opn' = true).
    { clear. induction t as [|a t IH]; intros q o; cbn [replay]; [intros H; inversion H; reflexivity|].
      destruct (j_cut a); [destruct (ref_eqb _ _)|destruct (true && ref_eqb _ _)]; try discriminate; apply IH. }
    cbn [negb]. rewrite orb_true_r.
    destruct (j_cut a); [destruct (ref_eqb _ _)|destruct (opn && ref_eqb _ _)]; try discriminate; apply G.
Qed.

(* every job's record ends at or before the final position and starts at or after the initial one *)
Lemma replay_refs : forall js opn q o opn' q' o', replay opn q o js = Some (opn', q', o') ->
  (q < q' \/ (q = q' /\ o <= o')) /\
  forall j, In j js ->
    (fst (j_ref j) < q' \/ (fst (j_ref j) = q' /\ snd (j_ref j) + rec_size (j_rec j) <= o')) /\
    (q < fst (j_ref j) \/ (fst (j_ref j) = q /\ opn = true /\ o <= snd (j_ref j))).
Proof.
  induction js as [|a t IH]; intros opn q o opn' q' o'; cbn [replay].
  - intros H. inversion H. subst. split; [right; split; [reflexivity | lia]|]. intros j [].
  - destruct (j_cut a).
    + destruct (ref_eqb (j_ref a) (q + 1, 8)) eqn:E; [|discriminate]. apply ref_eqb_eq in E.
      intros H. destruct (IH _ _ _ _ _ _ H) as [Hp Hj]. split; [lia|].
      intros j [->|Hin].
      * rewrite E. cbn [fst snd]. split; [lia | left; lia].
      * destruct (Hj j Hin) as [A B]. split; [exact A | lia].
    + destruct opn; cbn [andb]; [|discriminate].
      destruct (ref_eqb (j_ref a) (q, o)) eqn:E; [|discriminate]. apply ref_eqb_eq in E.
      intros H. destruct (IH _ _ _ _ _ _ H) as [Hp Hj]. pose proof (rec_size_pos (j_rec a)). split; [lia|].
      intros j [->|Hin].
      * rewrite E. cbn [fst snd]. split; [lia | right; repeat split; lia].
      * destruct (Hj j Hin) as [A B]. split; [exact A | lia].
Qed.

(* where a chunk that must be readable lives; J = jobs not yet written *)
Definition E (s : st) (J : list job) (rf : ref) (r : rec) : Prop :=
  rok rf r /\
  ( (exists j, In j J /\ j_ref j = rf /\ j_rec j = r)
    \/ (exists bs, lookup (fst rf) (files s) = Some bs /\
          (lookup_ref rf (pend s) = None \/ lookup_ref rf (pend s) = Some r) /\
          (fst rf = dmax (files s) -> cur_open s = true -> snd rf + rec_size r <= cur_off s) /\
          ( (resident bs (snd rf) r /\
               (fst rf = cur_seq s -> lookup_ref rf (cbuf s) = None \/ lookup_ref rf (cbuf s) = Some r))
            \/ (cur_open s = true /\ fst rf = cur_seq s /\ lookup_ref rf (cbuf s) = Some r /\
                resident (bs ++ wbuf s) (snd rf) r) )) ).

Record Core (s : st) (G : list (ref * rec)) (J : list job) : Prop := mkCore {
  c_pos : exists opn', replay (cur_open s) (dmax (files s)) (cur_off s) J = Some (opn', ev_seq s, ev_off s);
  c_closed : cur_open s = false -> cur_off s = 0 /\ cbuf s = [] /\ wbuf s = [];
  c_open : cur_open s = true -> cur_seq s = dmax (files s) /\
             exists bs, lookup (cur_seq s) (files s) = Some bs /\ nlen (bs ++ wbuf s) = cur_off s;
  c_jobs : Forall (fun j => rok (j_ref j) (j_rec j) /\ lookup_ref (j_ref j) (pend s) = Some (j_rec j)) J;
  c_live : forall rf r, lookup_ref rf G = Some r -> E s J rf r }.

Lemma resident_app bs off r X : resident bs off r -> resident (bs ++ X) off r.
Proof.
  intros (pre & post & -> & H). exists pre, (post ++ X). split; [|exact H].
  rewrite <- !app_assoc. reflexivity.
Qed.

(* ---- reading *)
Lemma read_live s G J rf r : Core s G J -> lookup_ref rf G = Some r ->
  do_read crc32 s rf = RdOk (r_enc r) (r_data r).
Proof.
  intros C HG. destruct (c_live _ _ _ C rf r HG) as [(Hwf & Hve & Hmax) [(j & Hin & <- & <-) | (bs & Hf & Hp & _ & Hloc)]].
  - unfold do_read. pose proof (c_jobs _ _ _ C) as HJ. rewrite Forall_forall in HJ.
    destruct (HJ j Hin) as [_ ->]. reflexivity.
  - unfold do_read. destruct Hp as [-> | ->]; [|reflexivity].
    assert (Hfile : chunk_at crc32 bs (if existsb (N.eqb (fst rf)) (born s) then max_file_size else nlen bs) (snd rf)
                    = RdOk (r_enc r) (r_data r) \/ True) by (right; exact I).
    destruct Hloc as [[Hres Hcb] | (Ho & Hseq & Hcb & Hres)].
    + assert (Hchunk : chunk_at crc32 bs (if existsb (N.eqb (fst rf)) (born s) then max_file_size else nlen bs) (snd rf)
                    = RdOk (r_enc r) (r_data r)).
      { apply chunk_at_resident; try assumption.
        destruct (existsb _ _); [exact Hmax|].
        destruct Hres as (pre & post & -> & Hpre). unfold nlen in *. rewrite !app_length, encode_rec_length.
        rewrite rec_size_len. lia. }
      destruct (fst rf =? cur_seq s) eqn:Eq.
      * apply N.eqb_eq in Eq. destruct (Hcb Eq) as [-> | ->]; [|reflexivity]. rewrite Hf. exact Hchunk.
      * rewrite Hf. exact Hchunk.
    + rewrite Hseq, N.eqb_refl. rewrite <- Hseq, Hcb. reflexivity.
Qed.
(* ---- mini-steps of the worker *)
Lemma core_flushout s G J : Core s G J -> cur_open s = true -> Core (flushout s) G J.
Proof.
  intros C Ho. destruct (c_open _ _ _ C Ho) as (Hseq & bs & Hbs & Hlen).
  assert (Hd : dmax (set_file (cur_seq s) (fun b => b ++ wbuf s) (files s)) = dmax (files s))
    by (apply dmax_keys, set_file_keys).
  constructor; unfold flushout; cbn [ev_seq ev_off cur_open cur_seq cur_off wbuf cbuf files pend].
  - rewrite Hd. exact (c_pos _ _ _ C).
  - intros H. rewrite Ho in H. discriminate.
  - intros _. rewrite Hd. split; [exact Hseq|]. exists (bs ++ wbuf s). split.
    + apply (lookup_set_file_same (cur_seq s) (fun b => b ++ wbuf s)). exact Hbs.
    + rewrite app_nil_r. exact Hlen.
  - exact (c_jobs _ _ _ C).
  - intros rf r HG. destruct (c_live _ _ _ C rf r HG) as [Hrok [A | (b & Hf & Hp & Hbel & Hloc)]]; split; try exact Hrok.
    + left. exact A.
    + right. cbn [files pend cur_open cur_off cur_seq cbuf wbuf]. rewrite Hd.
      destruct (N.eq_dec (fst rf) (cur_seq s)) as [Eq | Ne].
      * exists (b ++ wbuf s). rewrite Eq in *. rewrite Hbs in Hf. inversion Hf. subst b.
        split; [apply (lookup_set_file_same (cur_seq s) (fun b => b ++ wbuf s)); exact Hbs|]. split; [exact Hp|]. split; [exact Hbel|].
        destruct Hloc as [[Hr Hc] | (H1 & H2 & H3 & Hr)].
        -- left. split; [apply resident_app; exact Hr | exact Hc].
        -- right. split; [exact H1|]. split; [exact H2|]. split; [exact H3|]. rewrite app_nil_r. exact Hr.
      * exists b. split; [rewrite lookup_set_file_other by exact Ne; exact Hf|]. split; [exact Hp|]. split; [exact Hbel|].
        left. destruct Hloc as [[Hr _] | (_ & Hs & _)]; [|contradiction].
        split; [exact Hr | intros H; contradiction].
Qed.

(* chunkBuffer.clear() once the writer is empty: every buffered chunk is in the file *)
Lemma core_clear s G J : Core s G J -> wbuf s = [] -> Core (clearbuf s) G J.
Proof.
  intros C Hw.
  constructor; unfold clearbuf; cbn [ev_seq ev_off cur_open cur_seq cur_off wbuf cbuf files pend].
  - exact (c_pos _ _ _ C).
  - intros H. destruct (c_closed _ _ _ C H) as (A & _ & B). auto.
  - exact (c_open _ _ _ C).
  - exact (c_jobs _ _ _ C).
  - intros rf r HG. destruct (c_live _ _ _ C rf r HG) as [Hrok [A | (b & Hf & Hp & Hbel & Hloc)]]; split; try exact Hrok.
    + left. exact A.
    + right. exists b. cbn [files pend cur_open cur_off cur_seq cbuf wbuf].
      split; [exact Hf|]. split; [exact Hp|]. split; [exact Hbel|].
      left. split; [|intros _; left; reflexivity].
      destruct Hloc as [[Hr _] | (_ & _ & _ & Hr)]; [exact Hr|]. rewrite Hw, app_nil_r in Hr. exact Hr.
Qed.

Lemma core_uncut s G j J : Core s G (j :: J) -> j_cut j = false -> Core s G (uncut j :: J).
Proof.
  intros C Hcut. constructor.
  - destruct (c_pos _ _ _ C) as (opn' & Hrep). exists opn'. cbn [replay uncut j_cut j_ref j_rec] in *.
    rewrite Hcut in Hrep. exact Hrep.
  - exact (c_closed _ _ _ C).
  - exact (c_open _ _ _ C).
  - pose proof (c_jobs _ _ _ C) as HJ. inversion HJ as [|? ? Hj Ht]; subst. constructor; [exact Hj | exact Ht].
  - intros rf r HG. destruct (c_live _ _ _ C rf r HG) as [Hrok [(j' & Hin & Hr1 & Hr2) | A]]; split; try exact Hrok.
    + left. destruct Hin as [<- | Hin]; [exists (uncut j); cbn; auto | exists j'; cbn; auto].
    + right. exact A.
Qed.

Lemma core_newfile s G j J : Core s G (j :: J) -> j_cut j = true -> cbuf s = [] -> wbuf s = [] ->
  Core (newfile s) G (uncut j :: J).
Proof.
  intros C Hcut Hcb Hwb.
  assert (Hd : dmax (files s ++ [(dmax (files s) + 1, hc_header)]) = dmax (files s) + 1) by (apply dmax_app1; lia).
  destruct (c_pos _ _ _ C) as (opn' & Hrep). cbn [replay] in Hrep. rewrite Hcut in Hrep.
  destruct (ref_eqb (j_ref j) (dmax (files s) + 1, 8)) eqn:Eref; [|discriminate].
  constructor; unfold newfile; cbn [ev_seq ev_off cur_open cur_seq cur_off wbuf cbuf files pend].
  - exists opn'. rewrite Hd. cbn [replay uncut j_cut j_ref j_rec andb]. rewrite Eref. exact Hrep.
  - discriminate.
  - intros _. rewrite Hd. split; [reflexivity|]. exists hc_header. split.
    + rewrite lookup_app_none by (apply lookup_none_dmax; lia). cbn. rewrite N.eqb_refl. reflexivity.
    + reflexivity.
  - pose proof (c_jobs _ _ _ C) as HJ. inversion HJ as [|? ? Hj Ht]; subst. constructor; [exact Hj | exact Ht].
  - intros rf r HG. destruct (c_live _ _ _ C rf r HG) as [Hrok [(j' & Hin & Hr1 & Hr2) | (b & Hf & Hp & Hbel & Hloc)]]; split; try exact Hrok.
    + left. destruct Hin as [<- | Hin]; [exists (uncut j); cbn; auto | exists j'; cbn; auto].
    + right. exists b. cbn [files pend cur_open cur_off cur_seq cbuf wbuf].
      split; [apply lookup_app_some; exact Hf|]. split; [exact Hp|].
      pose proof (dmax_in _ _ (lookup_in _ _ _ Hf)) as Hle. cbn [fst] in Hle.
      split; [rewrite Hd; intros H; lia|].
      left. destruct Hloc as [[Hr _] | (_ & _ & Hc & _)].
      * split; [exact Hr | intros _; left; rewrite Hcb; reflexivity].
      * rewrite Hcb in Hc. discriminate.
Qed.

Lemma core_append s G j J : Core s G (j :: J) -> j_cut j = false ->
  Core (append s j) G J /\
  cur_open s = true /\ fst (j_ref j) = dmax (files s) /\ snd (j_ref j) = cur_off s.
Proof.
  intros C Hcut.
  destruct (c_pos _ _ _ C) as (opn' & Hrep). cbn [replay] in Hrep. rewrite Hcut in Hrep.
  destruct (cur_open s) eqn:Ho; cbn [andb] in Hrep; [|discriminate].
  destruct (ref_eqb (j_ref j) (dmax (files s), cur_off s)) eqn:Eref; [|discriminate].
  apply ref_eqb_eq in Eref.
  destruct (c_open _ _ _ C Ho) as (Hseq & bs & Hbs & Hlen).
  pose proof (c_jobs _ _ _ C) as HJ. inversion HJ as [|? ? [Hjrok Hjp] Ht]; subst.
  pose proof (rec_size_pos (j_rec j)) as Hpos.
  split; [|rewrite Eref; cbn; auto].
  constructor; unfold HeadChunks.append; cbn [ev_seq ev_off cur_open cur_seq cur_off wbuf cbuf files pend].
  - exists opn'. rewrite Ho, encode_rec_nlen. exact Hrep.
  - rewrite Ho. discriminate.
  - intros _. split; [exact Hseq|]. exists bs. split; [exact Hbs|].
    rewrite app_assoc. unfold nlen in *. rewrite app_length, <- Hlen, encode_rec_length. lia.
  - exact Ht.
  - intros rf r HG. destruct (c_live _ _ _ C rf r HG) as [Hrok [(j' & Hin & Hr1 & Hr2) | (b & Hf & Hp & Hbel & Hloc)]]; split; try exact Hrok.
    + destruct Hin as [<- | Hin]; [|left; exists j'; auto].
      right. subst rf r. exists bs. cbn [files pend cur_open cur_off cur_seq cbuf wbuf].
      assert (Hfst : fst (j_ref j) = cur_seq s) by (rewrite Eref, Hseq; reflexivity).
      assert (Hsnd : snd (j_ref j) = cur_off s) by (rewrite Eref; reflexivity).
      split; [rewrite Hfst; exact Hbs|]. split; [right; exact Hjp|].
      split; [intros _ _; rewrite encode_rec_nlen, Hsnd; lia|].
      right. split; [exact Ho|]. split; [exact Hfst|]. split.
      * cbn [lookup_ref]. rewrite ref_eqb_refl. reflexivity.
      * rewrite Hsnd. exists (bs ++ wbuf s), []. split; [rewrite app_nil_r, <- app_assoc; reflexivity | exact Hlen].
    + right. exists b. cbn [files pend cur_open cur_off cur_seq cbuf wbuf].
      split; [exact Hf|]. split; [exact Hp|].
      assert (Hne : rf <> j_ref j).
      { intros ->. rewrite Eref in Hbel. cbn [fst snd] in Hbel. specialize (Hbel eq_refl Ho).
        pose proof (rec_size_pos r). lia. }
      split; [intros H1 H2; specialize (Hbel H1 H2); rewrite encode_rec_nlen; lia|].
      cbn [lookup_ref]. rewrite (ref_eqb_neq _ _ Hne).
      destruct Hloc as [[Hr Hc] | (H1 & H2 & H3 & Hr)]; [left; auto|].
      right. split; [exact H1|]. split; [exact H2|]. split; [exact H3|].
      rewrite app_assoc. apply resident_app. exact Hr.
Qed.
(* ---- Core does not mention wk, queue, ev_cut *)
Lemma core_ext s s' G J :
  ev_seq s' = ev_seq s -> ev_off s' = ev_off s -> pend s' = pend s -> cbuf s' = cbuf s ->
  cur_open s' = cur_open s -> cur_seq s' = cur_seq s -> cur_off s' = cur_off s -> wbuf s' = wbuf s ->
  files s' = files s -> Core s G J -> Core s' G J.
Proof.
  intros H1 H2 H3 H4 H5 H6 H7 H8 H9 C.
  constructor; unfold E; rewrite ?H1, ?H2, ?H3, ?H4, ?H5, ?H6, ?H7, ?H8, ?H9.
  - exact (c_pos _ _ _ C).
  - exact (c_closed _ _ _ C).
  - exact (c_open _ _ _ C).
  - exact (c_jobs _ _ _ C).
  - exact (c_live _ _ _ C).
Qed.

(* what is known about the writer in each phase of the worker *)
Definition done_ok (s : st) (j : job) : Prop :=
  cur_open s = true /\ fst (j_ref j) = dmax (files s) /\
  snd (j_ref j) + rec_size (j_rec j) <= cur_off s.

Definition wk_ok (s : st) : Prop :=
  match wk s with
  | WDone j => done_ok s j
  | WRun j PClr1 => j_cut j = true /\ cur_open s = true /\ wbuf s = []
  | WRun j PNew => j_cut j = true /\ cbuf s = [] /\ wbuf s = []
  | WRun j PClr2 => wbuf s = [] /\ cur_open s = true
  | WRun j PPost => done_ok s j
  | WRun j PClr3 => done_ok s j /\ wbuf s = []
  | _ => True
  end.

Definition Inv (s : st) (G : list (ref * rec)) : Prop := Core s G (pjobs s) /\ wk_ok s.

Lemma flushout_dmax s : dmax (files (flushout s)) = dmax (files s).
Proof. apply dmax_keys, set_file_keys. Qed.

(* ---- one atomic action of the worker keeps the invariant: in particular in the state between
   chkWriter.Flush() and chunkBuffer.clear(), and in the state just before Flush() *)
Lemma step_micro s G : Inv s G -> Inv (fst (micro crc32 bufsize s)) G.
Proof.
  intros [C W]. unfold micro. destruct (wk s) as [|j|j p|j] eqn:Hwk; try (cbn [fst]; split; assumption).
  - (* WStart *)
    assert (Hpj : pjobs s = j :: queue s) by (unfold pjobs; rewrite Hwk; reflexivity). rewrite Hpj in C.
    destruct (j_cut j) eqn:Hcut; [destruct (cur_open s) eqn:Ho|]; cbn [fst]; split.
    + unfold pjobs. cbn [set_wk wk queue flushout]. apply (core_ext (flushout s)); try reflexivity.
      apply core_flushout; assumption.
    + unfold wk_ok. cbn [set_wk wk cur_open wbuf flushout]. auto.
    + unfold pjobs. cbn [set_wk wk queue]. apply (core_ext s); try reflexivity. exact C.
    + unfold wk_ok. cbn [set_wk wk cbuf wbuf]. destruct (c_closed _ _ _ C Ho) as (_ & A & B). auto.
    + unfold pjobs. cbn [set_wk wk queue]. apply (core_ext s); try reflexivity. apply core_uncut; assumption.
    + unfold wk_ok. cbn [set_wk wk]. exact I.
  - (* WRun *)
    unfold wk_ok in W. rewrite Hwk in W. unfold pjobs in C. rewrite Hwk in C.
    destruct p.
    + (* PClr1 *) destruct W as (Hcut & Ho & Hw). cbn [fst]. split.
      * unfold pjobs. cbn [set_wk wk queue clearbuf]. apply (core_ext (clearbuf s)); try reflexivity.
        apply core_clear; assumption.
      * unfold wk_ok. cbn [set_wk wk cbuf wbuf clearbuf]. auto.
    + (* PNew *) destruct W as (Hcut & Hcb & Hw).
      pose proof (core_newfile s G j (queue s) C Hcut Hcb Hw) as C1.
      destruct (core_append (newfile s) G (uncut j) (queue s) C1 eq_refl) as (_ & Ho1 & Hf1 & Hs1).
      destruct (c_open _ _ _ C1 Ho1) as (Hseq1 & _).
      assert (Er : ref_eqb (cur_seq (newfile s), 8) (j_ref j) = true).
      { apply ref_eqb_eq. cbn [uncut j_ref] in Hf1, Hs1. destruct (j_ref j) as [a b]. cbn [fst snd] in *.
        rewrite Hseq1, Hf1, Hs1. reflexivity. }
      rewrite Er. cbn [negb fst]. split.
      * unfold pjobs. cbn [set_wk wk queue newfile]. apply (core_ext (newfile s)); try reflexivity. exact C1.
      * unfold wk_ok. cbn [set_wk wk]. exact I.
    + (* PPre *)
      destruct (core_append s G (uncut j) (queue s) C eq_refl) as (_ & Ho & _ & _).
      rewrite Ho. cbn [negb]. destruct (pre_flush bufsize s j); cbn [fst]; split.
      * unfold pjobs. cbn [set_wk wk queue flushout]. apply (core_ext (flushout s)); try reflexivity.
        apply core_flushout; assumption.
      * unfold wk_ok. cbn [set_wk wk cur_open wbuf flushout]. auto.
      * unfold pjobs. cbn [set_wk wk queue]. apply (core_ext s); try reflexivity. exact C.
      * unfold wk_ok. cbn [set_wk wk]. exact I.
    + (* PClr2 *) destruct W as (Hw & Ho). cbn [fst]. split.
      * unfold pjobs. cbn [set_wk wk queue clearbuf]. apply (core_ext (clearbuf s)); try reflexivity.
        apply core_clear; assumption.
      * unfold wk_ok. cbn [set_wk wk]. exact I.
    + (* PApp *)
      destruct (core_append s G (uncut j) (queue s) C eq_refl) as (C3 & Ho & Hf & Hs).
      cbn [uncut j_ref j_rec] in Hf, Hs.
      assert (C3' : Core (append s j) G (queue s)).
      { apply (core_ext (append s (uncut j))); try reflexivity. exact C3. }
      assert (D : done_ok (append s j) j).
      { unfold done_ok, HeadChunks.append. cbn [cur_open files cur_off]. split; [exact Ho|]. split; [exact Hf|].
        rewrite Hs, encode_rec_nlen. lia. }
      destruct (nlen (r_data (j_rec j)) + 34 <? bufsize); cbn [fst]; split.
      * unfold pjobs. cbn [HeadChunks.append wk queue]. exact C3'.
      * unfold wk_ok. cbn [HeadChunks.append wk]. exact D.
      * unfold pjobs. cbn [set_wk wk queue HeadChunks.append]. apply (core_ext (append s j)); try reflexivity. exact C3'.
      * unfold wk_ok. cbn [set_wk wk]. exact D.
    + (* PPost *) destruct W as (Ho & Hf & Hs). cbn [fst]. split.
      * unfold pjobs. cbn [set_wk wk queue flushout]. apply (core_ext (flushout s)); try reflexivity.
        apply core_flushout; assumption.
      * unfold wk_ok. cbn [set_wk wk]. split; [|reflexivity].
        unfold done_ok. change (cur_open (set_wk (flushout s) (WRun j PClr3))) with (cur_open s).
        change (files (set_wk (flushout s) (WRun j PClr3))) with (files (flushout s)).
        change (cur_off (set_wk (flushout s) (WRun j PClr3))) with (cur_off s).
        rewrite flushout_dmax. auto.
    + (* PClr3 *) destruct W as ((Ho & Hf & Hs) & Hw). cbn [fst]. split.
      * unfold pjobs. cbn [set_wk wk queue clearbuf]. apply (core_ext (clearbuf s)); try reflexivity.
        apply core_clear; assumption.
      * unfold wk_ok. cbn [set_wk wk]. unfold done_ok. cbn [set_wk clearbuf cur_open files cur_off]. auto.
Qed.

Lemma to_site_inv G : forall fuel b s s', Inv s G -> to_site crc32 bufsize fuel b s = Some s' -> Inv s' G.
Proof.
  induction fuel as [|f IH]; intros b s s' HI; cbn [to_site]; destruct (at_site bufsize b s).
  - intros H. inversion H. subst. exact HI.
  - discriminate.
  - intros H. inversion H. subst. exact HI.
  - pose proof (step_micro s G HI) as HI'. destruct (micro crc32 bufsize s) as [s1 [| | |]]; try discriminate.
    apply IH. exact HI'.
Qed.

Lemma run_micro_inv G : forall fuel n s, Inv s G -> Inv (fst (run_micro crc32 bufsize fuel n s)) G.
Proof.
  induction fuel as [|f IH]; intros n s HI; cbn [run_micro]; [exact HI|].
  pose proof (step_micro s G HI) as HI'. destruct (micro crc32 bufsize s) as [s1 [| | |]]; cbn [fst] in *.
  - apply IH. exact HI'.
  - exact HI'.
  - exact HI.
  - exact HI.
Qed.

(* ---- the ghost set of chunks that must be readable, and the admissible steps *)
Definition has_file (q : N) (fs : list (N * list N)) : bool :=
  match lookup q fs with Some _ => true | None => false end.

Definition ghost (G : list (ref * rec)) (s : st) (x : step) (s' : st) (o : out) : list (ref * rec) :=
  match x, o with
  | SWrite r, ORef rf => (rf, r) :: G
  | STrunc _, _ =>
      filter (fun e => negb (has_file (fst (fst e)) (files s)) || has_file (fst (fst e)) (files s')) G
  | _, _ => G
  end.

(* Writes hand over well-formed chunks.  A Truncate must not lower the highest file number of
   the directory while no file is open, unless nothing is queued and the directory becomes empty
   (this excludes exactly the schedule of C25_read_your_write_refuted). *)
Definition safe_step (s : st) (x : step) : Prop :=
  match x with
  | SWrite r => wf_write r
  | STrunc n =>
      cur_open s = true \/ dmax (files (do_trunc s n)) = dmax (files s) \/
      (pend s = [] /\ files (do_trunc s n) = [])
  | _ => True
  end.

Lemma lookup_ref_filter_key (p : ref -> bool) rf (l : list (ref * rec)) :
  lookup_ref rf (filter (fun e => p (fst e)) l) = if p rf then lookup_ref rf l else None.
Proof.
  induction l as [|[k v] t IH]; [destruct (p rf); reflexivity|]. cbn [filter fst].
  destruct (p k) eqn:Ek; cbn [lookup_ref]; destruct (ref_eqb rf k) eqn:E.
  - apply ref_eqb_eq in E. subst. rewrite Ek. reflexivity.
  - exact IH.
  - apply ref_eqb_eq in E. subst. rewrite Ek in *. exact IH.
  - exact IH.
Qed.

Lemma pjobs_nil_of_pend s G : Core s G (pjobs s) -> pend s = [] -> pjobs s = [].
Proof.
  intros C Hp. pose proof (c_jobs _ _ _ C) as HJ. destruct (pjobs s) as [|j t]; [reflexivity|].
  inversion HJ as [|? ? [_ Hl] _]; subst. rewrite Hp in Hl. discriminate.
Qed.

Lemma step_write s G r : Inv s G -> wf_write r ->
  Inv (fst (do_write qmax s r)) (ghost G s (SWrite r) (fst (do_write qmax s r)) (snd (do_write qmax s r))).
Proof.
  intros [C W] (Hwf & Hve & Hsz). unfold do_write.
  destruct (qmax <=? length (queue s))%nat; [cbn [fst snd ghost]; split; assumption|].
  set (btw := rec_size r).
  set (cut := ev_cut s || (ev_off s =? 0) || (max_file_size <? ev_off s + btw)).
  set (seq := if cut then ev_seq s + 1 else ev_seq s).
  set (off := if cut then 8 else ev_off s).
  cbn [fst snd ghost].
  set (jn := mkJob cut (seq, off) r).
  match goal with |- Inv ?S _ => set (s' := S) end.
  assert (Hpj : pjobs s' = pjobs s ++ [jn]).
  { unfold pjobs, s'. cbn [wk queue]. destruct (wk s) as [| |? []|]; reflexivity. }
  destruct (c_pos _ _ _ C) as (opn' & Hrep).
  destruct (replay_refs _ _ _ _ _ _ _ Hrep) as [_ Hrefs].
  assert (Hnew : replay opn' (ev_seq s) (ev_off s) [jn] = Some (true, seq, off + btw) /\ rok (seq, off) r).
  { unfold jn, seq, off. cbn [replay j_cut j_ref j_rec]. destruct cut eqn:Ecut.
    - rewrite ref_eqb_refl. split; [reflexivity|]. split; [exact Hwf | split; [exact Hve | exact Hsz]].
    - unfold cut in Ecut. apply orb_false_iff in Ecut. destruct Ecut as [Ecut E3].
      apply orb_false_iff in Ecut. destruct Ecut as [_ E2].
      apply N.eqb_neq in E2. apply N.ltb_ge in E3.
      assert (Ho : opn' = true).
      { rewrite (replay_opn _ _ _ _ _ _ _ Hrep). destruct (cur_open s) eqn:Eo; [reflexivity|].
        destruct (pjobs s) eqn:Ep; [|reflexivity]. cbn [replay] in Hrep. inversion Hrep.
        destruct (c_closed _ _ _ C Eo) as (Hz0 & _). congruence. }
      rewrite Ho, ref_eqb_refl. cbn [andb]. split; [reflexivity|]. split; [exact Hwf | split; [exact Hve | exact E3]]. }
  destruct Hnew as [Hnew Hrok].
  assert (Hfresh : forall j, In j (pjobs s) -> j_ref j <> (seq, off)).
  { intros j Hin Heq. destruct (Hrefs j Hin) as [Hend _]. rewrite Heq in Hend. cbn [fst snd] in Hend.
    pose proof (rec_size_pos (j_rec j)). unfold seq, off in Hend. destruct cut; lia. }
  split; [|exact W].
  rewrite Hpj. constructor; unfold s'; cbn [ev_seq ev_off cur_open cur_seq cur_off wbuf cbuf files pend].
  - exists true. rewrite replay_app, Hrep. exact Hnew.
  - exact (c_closed _ _ _ C).
  - exact (c_open _ _ _ C).
  - apply Forall_app. split.
    + pose proof (c_jobs _ _ _ C) as HJ. rewrite Forall_forall in *. intros j Hin. destruct (HJ j Hin) as [A B].
      split; [exact A|]. cbn [lookup_ref]. rewrite (ref_eqb_neq _ _ (Hfresh j Hin)). exact B.
    + constructor; [|constructor]. cbn [j_ref j_rec jn]. split; [exact Hrok|]. cbn [lookup_ref]. rewrite ref_eqb_refl. reflexivity.
  - intros rf r0 HG. cbn [lookup_ref] in HG. destruct (ref_eqb rf (seq, off)) eqn:Er.
    + apply ref_eqb_eq in Er. inversion HG. subst rf r0. split; [exact Hrok|]. left. exists jn.
      split; [apply in_or_app; right; left; reflexivity | split; reflexivity].
    + destruct (c_live _ _ _ C rf r0 HG) as [Hr0 [(j & Hin & H1 & H2) | (b & Hf & Hp & Hbel & Hloc)]]; split; try exact Hr0.
      * left. exists j. split; [apply in_or_app; left; exact Hin | auto].
      * right. exists b. cbn [files pend cur_open cur_off cur_seq cbuf wbuf lookup_ref]. rewrite Er. auto.
Qed.

Lemma step_done s G j : Inv s G -> wk s = WDone j ->
  Inv (fst (do_done s)) G.
Proof.
  intros [C W] Hwk. unfold do_done. rewrite Hwk. cbn [fst].
  unfold wk_ok in W. rewrite Hwk in W. destruct W as (Ho & Hf & Hs).
  assert (Hpj : pjobs s = queue s) by (unfold pjobs; rewrite Hwk; reflexivity).
  rewrite Hpj in C.
  destruct (c_pos _ _ _ C) as (opn' & Hrep).
  destruct (replay_refs _ _ _ _ _ _ _ Hrep) as [_ Hrefs].
  assert (Hne : forall j', In j' (queue s) -> j_ref j' <> j_ref j).
  { intros j' Hin Heq. destruct (Hrefs j' Hin) as [_ Hst]. rewrite Heq in Hst.
    pose proof (rec_size_pos (j_rec j)). lia. }
  split; [|unfold wk_ok; cbn [wk]; exact I].
  unfold pjobs. cbn [wk queue].
  constructor; cbn [ev_seq ev_off cur_open cur_seq cur_off wbuf cbuf files pend].
  - exists opn'. exact Hrep.
  - exact (c_closed _ _ _ C).
  - exact (c_open _ _ _ C).
  - pose proof (c_jobs _ _ _ C) as HJ. rewrite Forall_forall in *. intros j' Hin. destruct (HJ j' Hin) as [A B].
    split; [exact A|]. rewrite lookup_ref_remove_other by (apply Hne; exact Hin). exact B.
  - intros rf r HG. destruct (c_live _ _ _ C rf r HG) as [Hr0 [A | (b & Hfl & Hp & Hbel & Hloc)]]; split; try exact Hr0.
    + left. exact A.
    + right. exists b. cbn [files pend cur_open cur_off cur_seq cbuf wbuf].
      split; [exact Hfl|]. split; [|auto].
      destruct (ref_eqb rf (j_ref j)) eqn:Er.
      * apply ref_eqb_eq in Er. subst rf. left. apply lookup_ref_remove_same.
      * rewrite lookup_ref_remove_other; [exact Hp|]. intros ->. rewrite ref_eqb_refl in Er. discriminate.
Qed.
Lemma filter_all_false {A} (p : A -> bool) l : (forall x, In x l -> p x = false) -> filter p l = [].
Proof.
  induction l as [|a t IH]; intros H; [reflexivity|]. cbn. rewrite (H a (or_introl eq_refl)).
  apply IH. intros x Hx. apply H. right. exact Hx.
Qed.

Lemma filter_nil_all {A} (p : A -> bool) l : filter p l = [] -> forall x, In x l -> p x = false.
Proof.
  induction l as [|a t IH]; intros H x Hx; [inversion Hx|]. cbn in H. destruct (p a) eqn:E; [discriminate|].
  destruct Hx as [->|Hx]; [exact E | apply IH; assumption].
Qed.

Lemma step_trunc s G n : Inv s G -> safe_step s (STrunc n) ->
  Inv (do_trunc s n) (ghost G s (STrunc n) (do_trunc s n) (OTrunc (map fst (files s)) (map fst (files (do_trunc s n))))).
Proof.
  intros [C W] Hsafe. cbn [safe_step] in Hsafe. cbn [ghost].
  set (idxs := map fst (files s)).
  set (pr := fun q => negb (q =? cur_seq s) && (q mod 4294967296 <? n)).
  set (removed := take_while pr idxs).
  set (keep := fun q => negb (existsb (N.eqb q) removed)).
  assert (Hfiles : files (do_trunc s n) = filter (fun e => keep (fst e)) (files s)) by reflexivity.
  assert (Hlk : forall q, lookup q (files (do_trunc s n)) = if keep q then lookup q (files s) else None).
  { intros q. rewrite Hfiles. apply lookup_filter_key. }
  assert (Hkeep_pr : forall q, keep q = false -> pr q = true).
  { intros q Hk. unfold keep in Hk. apply negb_false_iff in Hk. apply existsb_eqb_In in Hk.
    apply take_while_In in Hk. tauto. }
  assert (Hcur : keep (cur_seq s) = true).
  { destruct (keep (cur_seq s)) eqn:Ek; [reflexivity|]. apply Hkeep_pr in Ek. unfold pr in Ek.
    rewrite N.eqb_refl in Ek. discriminate. }
  assert (Hle : dmax (files (do_trunc s n)) <= dmax (files s)).
  { apply dmax_bound. intros e He. rewrite Hfiles in He. apply filter_In in He. apply dmax_in. tauto. }
  assert (Hall : (length idxs =? length removed)%nat = true -> files (do_trunc s n) = []).
  { intros Hl. apply Nat.eqb_eq in Hl. symmetry in Hl.
    pose proof (take_while_length_all pr idxs Hl) as Hp.
    assert (Hr : removed = idxs) by (apply take_while_all; exact Hp).
    rewrite Hfiles. apply filter_all_false. intros e He. unfold keep. apply negb_false_iff.
    apply existsb_eqb_In. rewrite Hr. unfold idxs. apply in_map. exact He. }
  assert (Hall' : files (do_trunc s n) = [] -> (length idxs =? length removed)%nat = true).
  { intros Hnil. rewrite Hfiles in Hnil. pose proof (filter_nil_all _ _ Hnil) as Hk.
    apply Nat.eqb_eq. unfold removed. rewrite take_while_all; [reflexivity|].
    intros q Hq. unfold idxs in Hq. apply in_map_iff in Hq. destruct Hq as (e & <- & He).
    apply Hkeep_pr. apply Hk. exact He. }
  assert (Hev : ev_seq (do_trunc s n) =
                if (length idxs =? length removed)%nat then (match pend s with [] => 0 | _ => ev_seq s end) else ev_seq s)
    by reflexivity.
  (* the directory's highest number and the eventual sequence stay in step *)
  assert (Hpos : dmax (files (do_trunc s n)) = dmax (files s) /\ ev_seq (do_trunc s n) = ev_seq s
                 \/ (pjobs s = [] /\ cur_open s = false /\ files (do_trunc s n) = [] /\ ev_seq (do_trunc s n) = 0)).
  { destruct (cur_open s) eqn:Ho.
    - left. destruct (c_open _ _ _ C Ho) as (Hseq & bs & Hbs & _).
      assert (Hin : In (cur_seq s, bs) (files (do_trunc s n))).
      { rewrite Hfiles. apply filter_In. split; [apply lookup_in; exact Hbs | exact Hcur]. }
      split.
      + apply dmax_in in Hin. cbn [fst] in Hin. lia.
      + rewrite Hev. destruct (length idxs =? length removed)%nat eqn:El; [|reflexivity].
        rewrite (Hall eq_refl) in Hin. inversion Hin.
    - destruct (length idxs =? length removed)%nat eqn:El.
      + pose proof (Hall eq_refl) as Hnil. destruct (pend s) eqn:Ep.
        * right. split; [apply (pjobs_nil_of_pend s G C Ep)|]. split; [reflexivity|]. split; [exact Hnil|].
          rewrite Hev. reflexivity.
        * left. rewrite Hev. split; [|reflexivity].
          destruct Hsafe as [Hs | [Hs | [Hs _]]]; [discriminate | exact Hs | discriminate].
      + left. rewrite Hev. split; [|reflexivity].
        destruct Hsafe as [Hs | [Hs | [_ Hs]]]; [discriminate | exact Hs |].
        pose proof (Hall' Hs) as Hc. congruence. }
  assert (Hpj : pjobs (do_trunc s n) = pjobs s) by reflexivity.
  split.
  - rewrite Hpj. constructor.
    + destruct (c_pos _ _ _ C) as (opn' & Hrep).
      change (cur_open (do_trunc s n)) with (cur_open s). change (cur_off (do_trunc s n)) with (cur_off s).
      change (ev_off (do_trunc s n)) with (ev_off s).
      destruct Hpos as [[Hd He] | (Hj & Ho & Hnil & He)].
      * exists opn'. rewrite Hd, He. exact Hrep.
      * rewrite Hj in *. cbn [replay] in *. inversion Hrep. exists (cur_open s). rewrite Hnil, He. reflexivity.
    + exact (c_closed _ _ _ C).
    + intros Ho. change (cur_open (do_trunc s n)) with (cur_open s) in Ho.
      destruct (c_open _ _ _ C Ho) as (Hseq & bs & Hbs & Hlen).
      change (cur_seq (do_trunc s n)) with (cur_seq s). change (wbuf (do_trunc s n)) with (wbuf s).
      change (cur_off (do_trunc s n)) with (cur_off s).
      destruct Hpos as [[Hd _] | (_ & Ho' & _)]; [|congruence].
      split; [congruence|]. exists bs. split; [rewrite Hlk, Hcur; exact Hbs | exact Hlen].
    + exact (c_jobs _ _ _ C).
    + intros rf r HG.
      rewrite (lookup_ref_filter_key (fun k => negb (has_file (fst k) (files s)) || has_file (fst k) (files (do_trunc s n)))) in HG.
      destruct (negb (has_file (fst rf) (files s)) || has_file (fst rf) (files (do_trunc s n))) eqn:Ek; [|discriminate].
      destruct (c_live _ _ _ C rf r HG) as [Hr0 [A | (b & Hfl & Hp & Hbel & Hloc)]]; split; try exact Hr0.
      * left. exact A.
      * right. unfold has_file in Ek. rewrite Hfl in Ek. cbn [negb orb] in Ek.
        destruct (lookup (fst rf) (files (do_trunc s n))) as [b'|] eqn:Eb; [|discriminate].
        assert (b' = b). { rewrite Hlk in Eb. destruct (keep (fst rf)); [congruence | discriminate]. }
        subst b'. exists b. split; [first [exact Eb | reflexivity]|]. split; [exact Hp|].
        change (cur_open (do_trunc s n)) with (cur_open s). change (cur_off (do_trunc s n)) with (cur_off s).
        change (cur_seq (do_trunc s n)) with (cur_seq s). change (cbuf (do_trunc s n)) with (cbuf s).
        change (wbuf (do_trunc s n)) with (wbuf s).
        split; [|exact Hloc].
        destruct Hpos as [[Hd _] | (_ & _ & Hnil & _)]; [rewrite Hd; exact Hbel|].
        rewrite Hnil in Eb. discriminate.
  - assert (Hdone : forall j, done_ok s j -> done_ok (do_trunc s n) j).
    { intros j (Ho & Hf & Hs). unfold done_ok.
      change (cur_open (do_trunc s n)) with (cur_open s). change (cur_off (do_trunc s n)) with (cur_off s).
      destruct Hpos as [[Hd _] | (_ & Ho' & _)]; [|congruence]. rewrite Hd. auto. }
    unfold wk_ok in *. change (wk (do_trunc s n)) with (wk s).
    change (cur_open (do_trunc s n)) with (cur_open s). change (wbuf (do_trunc s n)) with (wbuf s).
    change (cbuf (do_trunc s n)) with (cbuf s).
    destruct (wk s) as [| |j []|j]; try exact I; try exact W; try (apply Hdone; exact W).
    destruct W as [W1 W2]. split; [apply Hdone; exact W1 | exact W2].
Qed.

Lemma step_inv s G x : Inv s G -> safe_step s x ->
  Inv (fst (do_step crc32 bufsize qmax s x)) (ghost G s x (fst (do_step crc32 bufsize qmax s x)) (snd (do_step crc32 bufsize qmax s x))).
Proof.
  intros HI Hs. destruct x as [r | | n | | | | | b | rf]; cbn [do_step].
  - apply step_write; assumption.
  - cbn [fst snd ghost]. destruct HI as [C W]. split.
    + apply (core_ext s); try reflexivity. exact C.
    + exact W.
  - cbn [fst snd]. apply step_trunc; assumption.
  - (* pop *) unfold do_pop. destruct HI as [C W].
    destruct (wk s) eqn:Hwk; try (cbn [fst snd ghost]; split; assumption).
    destruct (queue s) as [|j q] eqn:Hq; [cbn [fst snd ghost]; split; assumption|].
    cbn [fst snd ghost]. split.
    + unfold pjobs in *. rewrite Hwk, Hq in C. cbn [wk queue]. apply (core_ext s); try reflexivity. exact C.
    + unfold wk_ok. cbn [wk]. exact I.
  - (* proc *) assert (Hg : ghost G s SProc (fst (do_proc crc32 bufsize s)) (snd (do_proc crc32 bufsize s)) = G) by reflexivity.
    rewrite Hg. apply run_micro_inv. exact HI.
  - (* done *) destruct (wk s) as [|j|j p|j] eqn:Hwk.
    + unfold do_done. rewrite Hwk. cbn [fst snd ghost]. exact HI.
    + unfold do_done. rewrite Hwk. cbn [fst snd ghost]. exact HI.
    + unfold do_done. rewrite Hwk. cbn [fst snd ghost]. exact HI.
    + assert (Hg : ghost G s SDone (fst (do_done s)) (snd (do_done s)) = G) by reflexivity.
      rewrite Hg. apply (step_done s G j); assumption.
  - (* micro *) cbn [fst snd ghost]. apply step_micro. exact HI.
  - (* site *) destruct (to_site crc32 bufsize 10 b s) as [s1|] eqn:Es; cbn [fst snd ghost]; [|exact HI].
    apply (to_site_inv G 10 b s s1 HI Es).
  - cbn [fst snd ghost]. exact HI.
Qed.

(* ---- traces *)
Fixpoint grun (s : st) (G : list (ref * rec)) (tr : list step) : st * list (ref * rec) :=
  match tr with
  | [] => (s, G)
  | x :: t => let so := do_step crc32 bufsize qmax s x in grun (fst so) (ghost G s x (fst so) (snd so)) t
  end.

Fixpoint safe (s : st) (tr : list step) : Prop :=
  match tr with
  | [] => True
  | x :: t => safe_step s x /\ safe (fst (do_step crc32 bufsize qmax s x)) t
  end.

Lemma inv_init fs : Inv (init_state fs) [].
Proof.
  split; [|exact I]. unfold pjobs. cbn [init_state wk queue]. constructor; cbn.
  - exists false. reflexivity.
  - auto.
  - discriminate.
  - constructor.
  - intros rf r H. discriminate.
Qed.

Lemma grun_inv : forall tr s G, Inv s G -> safe s tr -> Inv (fst (grun s G tr)) (snd (grun s G tr)).
Proof.
  induction tr as [|x t IH]; intros s G HI Hs; [exact HI|].
  cbn [grun]. destruct Hs as [H1 H2]. apply IH; [apply step_inv; assumption | exact H2].
Qed.

(* read-your-write at every point of every admissible schedule *)
Theorem read_your_write fs tr rf r : safe (init_state fs) tr ->
  lookup_ref rf (snd (grun (init_state fs) [] tr)) = Some r ->
  do_read crc32 (fst (grun (init_state fs) [] tr)) rf = RdOk (r_enc r) (r_data r).
Proof.
  intros Hs HG. destruct (grun_inv tr _ _ (inv_init fs) Hs) as [C _].
  exact (read_live _ _ _ _ _ C HG).
Qed.
End RYW.
